//go:build verif

package consensus

// C04, second harness: a real single-validator node (consensus.State + WAL + privval.FilePV) is
// killed at every WAL write index of a height (the crashingWAL pattern of replay_test.go), in
// some runs the surviving WAL additionally loses a few bytes of its tail (torn append), then a
// fresh State is started on the surviving WAL and sign-state file (catch-up replay feeds the
// signer again), optionally killed a second time, until a block is made.  Every call of the
// signer in all incarnations goes through a journaling wrapper: request, answer, and the state
// file right after the call.  The joined journal is written as the same Coq case as the privval
// harness (ISign per call, IRestart per incarnation), so the monitors of the property AND the
// model of the signer are evaluated on what the real consensus code asked and got.
//
// Soundness of the observation (what "the state file right after the call" means).  The request,
// the call of the real FilePV, the answer and the snapshot of the state file are taken in ONE
// critical section of the journal's mutex (record), which every signer call of every incarnation
// goes through: the file content journaled with a call is the content at the moment the call
// returned, before consensus gets the signature.  Everything else that reads or changes the files
// (the IRestart snapshot, tearing the WAL, deleting the directory, handing the journal to
// cs.Add) happens only after the incarnation's signer has been DETACHED under the same mutex
// (c04PV.detach): a call is either complete in the journal, or it is refused without reaching the
// FilePV ("the process is dead").  Before detaching, the harness waits until the node is really
// down: cs.Start has returned (catch-up replay can make the block, and so end the run, while
// Start is still running and before it launches the receive routine) AND the receive routine has
// exited.  An earlier version skipped that wait when the block event overtook Start's return
// and deleted the directory under a node that was signing the next height's proposal: the
// snapshot then said "no such file" (a false clause 3) or Save panicked (a false mismatch 11).

import (
	"context"
	"fmt"
	"os"
	"path/filepath"
	"strings"
	"sync"
	"testing"
	"time"

	dbm "github.com/tendermint/tm-db"

	"github.com/tendermint/tendermint/abci/example/kvstore"
	cfg "github.com/tendermint/tendermint/config"
	"github.com/tendermint/tendermint/crypto"
	vg "github.com/tendermint/tendermint/internal/verifgen"
	tmjson "github.com/tendermint/tendermint/libs/json"
	"github.com/tendermint/tendermint/libs/log"
	"github.com/tendermint/tendermint/libs/protoio"
	"github.com/tendermint/tendermint/privval"
	tmproto "github.com/tendermint/tendermint/proto/tendermint/types"
	sm "github.com/tendermint/tendermint/state"
	"github.com/tendermint/tendermint/types"
)

type c04Msg struct {
	prop                            bool
	typ, h, r, polr, bid, ts, chain int64
}

func (m c04Msg) term() string {
	return vg.Tup(vg.B(m.prop), vg.Z(m.typ), vg.Z(m.h), vg.Z(m.r), vg.Z(m.polr), vg.Z(m.bid), vg.Z(m.ts), vg.Z(m.chain))
}

func (m c04Msg) String() string {
	k := "vote"
	if m.prop {
		k = "proposal"
	}
	return fmt.Sprintf("%s{type=%d h=%d r=%d polr=%d block#%d ts=%d chain#%d}", k, m.typ, m.h, m.r, m.polr, m.bid, m.ts, m.chain)
}

// c04Journal is shared by all incarnations of one node.
type c04Journal struct {
	mtx       sync.Mutex
	stateFile string
	pub       crypto.PubKey
	bidNum    map[string]int64
	chainNum  map[string]int64
	sigNum    map[string]uint64
	terms     []string
	descr     []string
	released  int
	refused   int
	reasked   int
	unclean   bool // some incarnation did not shut down: its directory is left for the next run's sweep
	late      int  // signer calls refused because their incarnation was over (only after an unclean stop)
	seen      map[string]bool
}

func (j *c04Journal) numBid(b *tmproto.CanonicalBlockID) int64 {
	if b == nil {
		return 0
	}
	bz, _ := b.Marshal()
	if n, ok := j.bidNum[string(bz)]; ok {
		return n
	}
	n := int64(len(j.bidNum) + 1)
	j.bidNum[string(bz)] = n
	return n
}

func (j *c04Journal) numChain(c string) int64 {
	if n, ok := j.chainNum[c]; ok {
		return n
	}
	n := int64(len(j.chainNum) + 1)
	j.chainNum[c] = n
	return n
}

func (j *c04Journal) numSig(s []byte) uint64 {
	if len(s) == 0 {
		return 0
	}
	if n, ok := j.sigNum[string(s)]; ok {
		return n
	}
	n := uint64(len(j.sigNum) + 1)
	j.sigNum[string(s)] = n
	return n
}

func (j *c04Journal) decode(prop bool, sb []byte) c04Msg {
	if prop {
		var p tmproto.CanonicalProposal
		if err := protoio.UnmarshalDelimited(sb, &p); err != nil {
			return c04Msg{prop: true, typ: -99}
		}
		return c04Msg{prop: true, typ: int64(p.Type), h: p.Height, r: p.Round, polr: p.POLRound,
			bid: j.numBid(p.BlockID), ts: p.Timestamp.UnixNano(), chain: j.numChain(p.ChainID)}
	}
	var v tmproto.CanonicalVote
	if err := protoio.UnmarshalDelimited(sb, &v); err != nil {
		return c04Msg{typ: -99}
	}
	return c04Msg{typ: int64(v.Type), h: v.Height, r: v.Round, bid: j.numBid(v.BlockID),
		ts: v.Timestamp.UnixNano(), chain: j.numChain(v.ChainID)}
}

func (j *c04Journal) readDisk() (string, string) {
	bz, err := os.ReadFile(j.stateFile)
	var st privval.FilePVLastSignState
	if err == nil {
		err = tmjson.Unmarshal(bz, &st)
	}
	if err != nil {
		return vg.Tup(vg.Z(-1), vg.Z(-1), vg.Z(-1), "None", vg.N(0), vg.B(false)), fmt.Sprintf("file{UNREADABLE: %v}", err)
	}
	sbT, sbS := "None", "-"
	ok := len(st.SignBytes) == 0 && len(st.Signature) == 0
	if len(st.SignBytes) > 0 {
		m := j.decode(st.Step == 1, st.SignBytes)
		sbT, sbS = "(Some "+m.term()+")", m.String()
		ok = len(st.Signature) > 0 && j.pub.VerifySignature(st.SignBytes, st.Signature)
	}
	sg := j.numSig(st.Signature)
	return vg.Tup(vg.Z(st.Height), vg.Z(int64(st.Round)), vg.Z(int64(st.Step)), sbT, vg.N(sg), vg.B(ok)),
		fmt.Sprintf("file{h=%d r=%d step=%d signbytes=%s sig#%d valid=%v}", st.Height, st.Round, st.Step, sbS, sg, ok)
}

func (j *c04Journal) record(p *c04PV, prop bool, before []byte, do func() error, after func() ([]byte, []byte)) (err error) {
	j.mtx.Lock()
	defer j.mtx.Unlock()
	if p.detached {
		j.late++
		return errC04Detached
	}
	req := j.decode(prop, before)
	rc := uint64(0)
	func() {
		defer func() {
			if e := recover(); e != nil {
				rc = 2
				err = fmt.Errorf("signer panicked: %v", e)
			}
		}()
		if err = do(); err != nil {
			rc = 1
		}
	}()
	out, sig, ok := req, uint64(0), false
	if rc == 0 {
		sb, s := after()
		out, sig, ok = j.decode(prop, sb), j.numSig(s), len(s) > 0 && j.pub.VerifySignature(sb, s)
		j.released++
	} else {
		j.refused++
	}
	key := fmt.Sprintf("%v/%d/%d/%d", req.prop, req.typ, req.h, req.r)
	if j.seen[key] {
		j.reasked++
	}
	j.seen[key] = true
	if req.h >= 2 {
		c04Inject(200 * time.Millisecond)
	}
	// still inside the critical section of the call: this is the file as it was when the call returned
	dT, dS := j.readDisk()
	j.terms = append(j.terms, "(ISign "+strings.Join([]string{req.term(), vg.N(rc), out.term(), vg.N(sig), vg.B(ok)}, " ")+" "+dT+")")
	j.descr = append(j.descr, fmt.Sprintf("sign %v -> rc=%d out=%v sig#%d valid=%v; %s", req, rc, out, sig, ok, dS))
	return err
}

func (j *c04Journal) note(what string) {
	j.mtx.Lock()
	defer j.mtx.Unlock()
	j.descr = append(j.descr, what)
}

// final returns the journal once all incarnations are detached (nothing is appended any more).
func (j *c04Journal) final() ([]string, []string) {
	j.mtx.Lock()
	defer j.mtx.Unlock()
	return append([]string(nil), j.terms...), append([]string(nil), j.descr...)
}

func (j *c04Journal) restart(why string) {
	j.mtx.Lock()
	defer j.mtx.Unlock()
	dT, dS := j.readDisk()
	j.terms = append(j.terms, "(IRestart "+dT+")")
	j.descr = append(j.descr, why+"; "+dS)
}

// c04PV is the signer of one incarnation: a FilePV freshly loaded from the files.
type c04PV struct {
	pv       *privval.FilePV
	j        *c04Journal
	detached bool // guarded by j.mtx: the incarnation is over, its signer is gone
}

var _ types.PrivValidator = (*c04PV)(nil)

var errC04Detached = fmt.Errorf("verif c04: the incarnation this signer belonged to is over")

func (p *c04PV) GetPubKey() (crypto.PubKey, error) { return p.pv.GetPubKey() }

func (p *c04PV) SignVote(chainID string, vote *tmproto.Vote) error {
	return p.j.record(p, false, types.VoteSignBytes(chainID, vote),
		func() error { return p.pv.SignVote(chainID, vote) },
		func() ([]byte, []byte) { return types.VoteSignBytes(chainID, vote), vote.Signature })
}

func (p *c04PV) SignProposal(chainID string, proposal *tmproto.Proposal) error {
	return p.j.record(p, true, types.ProposalSignBytes(chainID, proposal),
		func() error { return p.pv.SignProposal(chainID, proposal) },
		func() ([]byte, []byte) { return types.ProposalSignBytes(chainID, proposal), proposal.Signature })
}

// detach ends the incarnation for the signer: it waits for a call in flight (the journal's mutex
// is held for the whole call including the snapshot of the file) and makes every later call fail
// without touching the FilePV, the file or the journal.  Returns the number of journal entries.
func (p *c04PV) detach() int {
	p.j.mtx.Lock()
	defer p.j.mtx.Unlock()
	p.detached = true
	return len(p.j.terms)
}

// c04Incarnation starts a node on what is on disk (WAL, sign state) and in the stores, with a WAL
// that kills the receive routine at write index crashAt (0 = never).  It returns "crashed",
// "stopheight", "block" (a new block was made without crashing), "no-crash-wal-reopened",
// "halted-signer-refuses", "timeout" or "start-failed" — and only after the node is down and its
// signer detached (j.unclean is set when the node could not be brought down within c04StopWait).
func c04Incarnation(t *testing.T, conf *cfg.Config, blockDB dbm.DB, j *c04Journal, crashAt int, heightToStop int64, withTxs bool) string {
	stateStore := sm.NewStore(blockDB, sm.StoreOptions{DiscardABCIResponses: false})
	state, err := stateStore.LoadFromDBOrGenesisFile(conf.GenesisFile())
	if err != nil {
		t.Fatal(err)
	}
	pv := &c04PV{pv: privval.LoadFilePV(conf.PrivValidatorKeyFile(), conf.PrivValidatorStateFile()), j: j}
	cs := newStateWithConfigAndBlockStore(conf, state, pv, kvstore.NewApplication(), blockDB)
	cs.SetLogger(log.NewNopLogger())
	ctx, cancel := context.WithCancel(context.Background())
	defer cancel()
	if withTxs {
		go sendTxs(ctx, cs)
	}
	walPanicked := make(chan error, 1)
	var csWal WAL
	if crashAt > 0 {
		csWal, err = cs.OpenWAL(cs.config.WalFile())
		if err != nil {
			t.Fatal(err)
		}
		cs.wal = &crashingWAL{panicCh: walPanicked, heightToStop: heightToStop, next: csWal,
			msgIndex: 1, lastPanickedForMsgIndex: crashAt - 1}
	}
	newBlockSub, err := cs.eventBus.Subscribe(context.Background(), "verif-c04", types.EventQueryNewBlock, 10)
	if err != nil {
		t.Fatal(err)
	}
	// Start replays the WAL in the calling goroutine and writes round-step records while doing so:
	// the crashing WAL may kill it there (a crash during replay), so it gets its own goroutine.
	startErr := make(chan error, 1)
	go func() { err := cs.Start(); c04Inject(300 * time.Millisecond); startErr <- err }()
	// started: cs.Start returned nil (the receive routine runs); startFailed: it returned an error (no
	// receive routine); signerDead: the crashing WAL killed the goroutine that was driving the signer
	// (the receive routine, or Start inside catch-up replay, in which case no receive routine exists).
	// None of the three: Start is still running.
	started, startFailed, signerDead := false, false, false
	wait := 20 * time.Second
	if crashAt == 0 {
		wait = 3 * time.Second
	}
	res := ""
	for res == "" {
		select {
		case err := <-startErr:
			if err != nil {
				// the node cannot start on what survived (e.g. an unrepairable WAL): liveness, not C04
				j.note("node failed to start: " + strings.SplitN(err.Error(), "\n", 2)[0])
				startFailed = true
				res = "start-failed"
			} else {
				started = true
			}
		case e := <-walPanicked:
			signerDead = true
			if _, ok := e.(ReachedHeightToStopError); ok {
				res = "stopheight"
			} else {
				res = "crashed"
			}
		case ev := <-newBlockSub.Out():
			if crashAt == 0 {
				res = "block"
			} else if d, ok := ev.Data().(types.EventDataNewBlock); ok && d.Block != nil && d.Block.Height > heightToStop {
				// OnStart repaired a corrupted WAL and re-opened it, dropping the crashing wrapper
				res = "no-crash-wal-reopened"
			}
		case <-time.After(wait):
			if crashAt == 0 {
				// no block: the surviving WAL made the node ask for something the signer must refuse
				// (e.g. its own proposal was lost); a liveness halt, not a safety matter
				res = "halted-signer-refuses"
			} else {
				res = "timeout"
			}
		}
	}

	// ---- the incarnation is over: bring the node down, THEN let go of its files.
	// The block that ends the run can be made by catch-up replay inside cs.Start, i.e. its event can
	// arrive before Start has returned and before the receive routine exists: wait for Start first,
	// otherwise there is nothing to wait for yet and the node goes on signing (next height) while
	// the caller snapshots / tears / deletes the files.
	if crashAt == 0 {
		c04Inject(50 * time.Millisecond) // the test goroutine is descheduled before it stops the node
	}
	if !started && !startFailed && !signerDead {
		select {
		case err := <-startErr:
			if err != nil {
				j.note("node failed to start: " + strings.SplitN(err.Error(), "\n", 2)[0])
				startFailed = true
			} else {
				started = true
			}
		case <-walPanicked:
			signerDead = true
		case <-time.After(c04StopWait):
			j.unclean = true
		}
	}
	cs.Stop() //nolint:errcheck
	switch {
	case startFailed:
		cs.wal.Stop() //nolint:errcheck // OnStart leaves the WAL it opened running when it fails
	case signerDead:
		// the killed goroutine cannot stop the WAL any more; its buffered tail reaches the file
		csWal.Stop() //nolint:errcheck
		csWal.Wait()
	case started:
		stopped := make(chan struct{})
		go func() { cs.Wait(); close(stopped) }() // closed by the receive routine when it returns
		select {
		case <-stopped:
		case <-time.After(c04StopWait):
			j.unclean = true
		}
	}
	// from here on no call of this incarnation reaches the FilePV, the file or the journal
	n := pv.detach()
	if os.Getenv("VERIF_DEBUG") != "" {
		t.Logf("incarnation crashAt=%d res=%s started=%v startFailed=%v signerDead=%v unclean=%v journal=%d",
			crashAt, res, started, startFailed, signerDead, j.unclean, n)
	}
	return res
}

// how long a node gets to come down (Start to return, the receive routine to exit) before the run is
// abandoned as unclean; generous because the machine may be heavily loaded
const c04StopWait = 60 * time.Second

// c04Inject: with VERIF_C04_INJECT set, the scheduling delays that a heavily loaded machine produced
// by chance in the run that exposed the teardown race are injected deterministically (Start's
// goroutine reports late, the test goroutine reacts late to the block, the signing goroutine is
// descheduled between the call and the snapshot, the case is assembled late).  The verdicts must
// not depend on it: `VERIF_C04_INJECT=1 bin/check C04` has to pass like the plain run.
func c04Inject(d time.Duration) {
	if os.Getenv("VERIF_C04_INJECT") != "" {
		time.Sleep(d)
	}
}

func c04TearWAL(conf *cfg.Config, n int) int {
	f := conf.Consensus.WalFile()
	st, err := os.Stat(f)
	if err != nil || st.Size() == 0 {
		return 0
	}
	if int64(n) > st.Size() {
		n = int(st.Size())
	}
	if os.Truncate(f, st.Size()-int64(n)) != nil {
		return 0
	}
	return n
}

func TestVerifC04WAL(t *testing.T) {
	root := vg.NewRand(vg.Seed() ^ 0xc04a)
	cs := vg.NewCases("C04", "c04_wal", "TM.C04.Exec")
	heightToStop := int64(vg.Scale(1, 3))
	variants := vg.Scale(3, 6) // per crash index: plain, torn tail, second crash, ...
	maxIdx := vg.Scale(40, 200)
	// directories of earlier runs whose node did not shut down in time
	if old, err := filepath.Glob(filepath.Join(os.TempDir(), "*verif_c04_*")); err == nil {
		for _, d := range old {
			if st, err := os.Stat(d); err == nil && time.Since(st.ModTime()) > time.Hour {
				os.RemoveAll(d)
			}
		}
	}
	done := false
	for idx := 1; idx <= maxIdx && !done; idx++ {
		for v := 0; v < variants; v++ {
			id := cs.NextID()
			if !cs.Want(id) {
				continue
			}
			r := root.Fork(uint64(idx*16 + v))
			conf := ResetConfig(fmt.Sprintf("verif_c04_%d_%d", idx, v))
			func() {
				blockDB := dbm.NewMemDB()
				key := privval.LoadFilePV(conf.PrivValidatorKeyFile(), conf.PrivValidatorStateFile())
				j := &c04Journal{stateFile: conf.PrivValidatorStateFile(), pub: key.Key.PubKey,
					bidNum: map[string]int64{}, chainNum: map[string]int64{}, sigNum: map[string]uint64{}, seen: map[string]bool{}}
				d0T, d0S := j.readDisk()
				j.descr = append(j.descr, "node started; "+d0S)
				withTxs := heightToStop > 1
				kind := fmt.Sprintf("wal-crash/variant=%d", v)
				res := c04Incarnation(t, conf, blockDB, j, idx, heightToStop, withTxs)
				if res == "stopheight" {
					if v == 0 {
						done = true // all write indices up to the stop height have been used
					}
				}
				crashes := 0
				if res == "crashed" {
					crashes++
					why := fmt.Sprintf("node killed at WAL write #%d", idx)
					if v%2 == 1 { // torn append: the tail of the WAL loses some bytes
						n := c04TearWAL(conf, 1+r.Intn(24))
						why += fmt.Sprintf(", WAL tail torn by %d bytes", n)
					}
					j.restart(why + ", restarted")
					if v >= 2 { // a second crash shortly after the replay
						k := 1 + r.Intn(3)
						if r2 := c04Incarnation(t, conf, blockDB, j, k, heightToStop+1, withTxs); r2 == "crashed" {
							crashes++
							j.restart(fmt.Sprintf("node killed again at WAL write #%d after replay, restarted", k))
						} else if !j.unclean {
							j.restart("node stopped (" + r2 + "), restarted")
						}
					}
					if j.unclean {
						// the previous node could not be brought down in time: its signer is detached, but it
						// may still write to the WAL and the stores; the journal ends here
						res = "abandoned-node-did-not-stop"
						j.note("run abandoned: the node did not stop")
					} else {
						res = c04Incarnation(t, conf, blockDB, j, 0, 0, withTxs)
					}
				}
				// every incarnation is down (or detached from the signer and the journal): only now are the
				// files let go of and the journal read
				if !j.unclean {
					os.RemoveAll(conf.RootDir)
				}
				c04Inject(400 * time.Millisecond)
				terms, descr := j.final()
				cs.Count("end/"+res, 1)
				cs.Count("signer-calls/released", j.released)
				cs.Count("signer-calls/refused", j.refused)
				cs.Count("signer-calls/same-hrs-asked-again", j.reasked)
				if j.unclean {
					cs.Count("node-did-not-stop", 1)
					cs.Count("signer-calls/late-refused-by-harness", j.late)
				}
				cs.Add(id, kind, crashes > 0 && j.reasked > 0,
					vg.App("CRun", d0T, vg.L(terms)), strings.Join(descr, "\n  "))
			}()
		}
	}
	if err := cs.Write(); err != nil {
		t.Fatal(err)
	}
}
