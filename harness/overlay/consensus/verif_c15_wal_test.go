//go:build verif

package consensus

// C15 correspondence harness for consensus/wal.go, libs/autofile/group.go and the WAL part of
// consensus/state.go OnStart (injected with `go test -overlay`; nothing is written to the
// repository).  A real BaseWAL on a temp dir with small head/total size limits is driven
// through an operation list; every answer of the implementation and a snapshot of the group
// after every operation go into a Coq case (TM.C15.Exec.check).

import (
	"fmt"
	"io"
	"os"
	"path/filepath"
	"regexp"
	"sort"
	"strconv"
	"strings"
	"testing"
	"time"

	"github.com/gogo/protobuf/proto"

	cstypes "github.com/tendermint/tendermint/consensus/types"
	"github.com/tendermint/tendermint/crypto/merkle"
	"github.com/tendermint/tendermint/libs/autofile"
	"github.com/tendermint/tendermint/libs/log"
	tmos "github.com/tendermint/tendermint/libs/os"
	"github.com/tendermint/tendermint/p2p"
	tmcons "github.com/tendermint/tendermint/proto/tendermint/consensus"
	tmtypes "github.com/tendermint/tendermint/types"
	tmtime "github.com/tendermint/tendermint/types/time"

	vg "github.com/tendermint/tendermint/internal/verifgen"
)

// ---------------------------------------------------------------- plumbing

// c15Tee records every frame the encoder hands to the group (to learn the marshalled bytes,
// which contain the wall-clock time taken inside BaseWAL.Write).
type c15Tee struct {
	w      io.Writer
	frames *[][]byte
}

func (t c15Tee) Write(p []byte) (int, error) {
	*t.frames = append(*t.frames, append([]byte{}, p...))
	return t.w.Write(p)
}

// c15Rec records the slices the decoder reads (crc, length, data) so that the raw bytes of a
// returned record are known without re-marshalling it.
type c15Rec struct {
	r     io.Reader
	reads [][]byte
}

func (t *c15Rec) Read(p []byte) (int, error) {
	n, err := t.r.Read(p)
	t.reads = append(t.reads, p)
	return n, err
}

type c15Drv struct {
	dir, walFile string
	wal          *BaseWAL
	hl, tl       int64
	frames       [][]byte
	synced       int64 // size of the head file when it was last known to be on stable storage
	dead         bool
}

func (d *c15Drv) open() error {
	wal, err := NewWAL(d.walFile,
		autofile.GroupHeadSizeLimit(d.hl),
		autofile.GroupTotalSizeLimit(d.tl),
		autofile.GroupCheckDuration(time.Hour))
	if err != nil {
		return err
	}
	wal.SetLogger(log.NewNopLogger())
	wal.SetFlushInterval(time.Hour)
	wal.enc = NewWALEncoder(c15Tee{wal.group, &d.frames})
	d.wal = wal
	return wal.Start()
}

func (d *c15Drv) stop() {
	if d.wal != nil {
		_ = d.wal.Stop()
		d.wal.Wait()
		d.wal = nil
	}
}

func (d *c15Drv) headSize() int64 {
	fi, err := os.Stat(d.walFile)
	if err != nil {
		return 0
	}
	return fi.Size()
}

// every directory entry <head>.<digits> is a rolled file for the harness, whatever the number of
// digits (the harness does not rely on the group's own idea of which files belong to it)
var c15IndexRe = regexp.MustCompile(`^wal\.([0-9]+)$`)

// indexed files in the directory: indices (sorted) and sizes
func (d *c15Drv) indexed() ([]int, []int64) {
	es, _ := os.ReadDir(d.dir)
	m := map[int]int64{}
	var idx []int
	for _, e := range es {
		sm := c15IndexRe.FindStringSubmatch(e.Name())
		if sm == nil {
			continue
		}
		i, _ := strconv.Atoi(sm[1])
		fi, err := e.Info()
		if err != nil {
			continue
		}
		m[i] = fi.Size()
		idx = append(idx, i)
	}
	sort.Ints(idx)
	sz := make([]int64, len(idx))
	for k, i := range idx {
		sz[k] = m[i]
	}
	return idx, sz
}

func (d *c15Drv) snap() string {
	idx, sz := d.indexed()
	first := int64(-1)
	if len(idx) > 0 {
		first = int64(idx[0])
	}
	g := d.wal.Group()
	ix := make([]int64, len(idx))
	for k, i := range idx {
		ix[k] = int64(i)
	}
	return vg.Tup(vg.Z(d.headSize()), vg.Z(int64(g.Buffered())), vg.Z(int64(g.MinIndex())),
		vg.Z(int64(g.MaxIndex())), vg.Z(first), vg.ZL(sz), vg.ZL(ix))
}

// payload printer: long runs of one byte are abbreviated
func c15Pl(b []byte) string {
	if len(b) > 4096 {
		// longest run of the byte at the middle
		mid := len(b) / 2
		lo, hi := mid, mid
		for lo > 0 && b[lo-1] == b[mid] {
			lo--
		}
		for hi < len(b) && b[hi] == b[mid] {
			hi++
		}
		if hi-lo > 2048 {
			return vg.App("PF", vg.Hx(b[:lo]), vg.N(uint64(b[mid])), vg.Z(int64(hi-lo)), vg.Hx(b[hi:]))
		}
	}
	return vg.App("P", vg.Hx(b))
}
func c15PlL(bs [][]byte) string {
	xs := make([]string, len(bs))
	for i, b := range bs {
		xs[i] = c15Pl(b)
	}
	return vg.L(xs)
}

// decode until the first error through the recording reader; term 0 = io.EOF, 1 = corruption,
// 2 = another error
func c15DecodeAll(rd io.Reader) (recs [][]byte, term uint64) {
	rr := &c15Rec{r: rd}
	dec := NewWALDecoder(rr)
	for {
		rr.reads = nil
		_, err := dec.Decode()
		if err == io.EOF {
			return recs, 0
		}
		if IsDataCorruptionError(err) {
			return recs, 1
		}
		if err != nil {
			return recs, 2
		}
		if len(rr.reads) != 3 {
			return recs, 3
		}
		recs = append(recs, append([]byte{}, rr.reads[2]...))
	}
}

// c15State is a real consensus State (one validator, genesis state, InitialHeight 1) that is
// never started.  Its catchupReplay -- the real function of consensus/replay.go -- is run on the
// WAL of the case at every restart; the State's own height is set far away from every height
// of the generated messages, so that readReplayMessage hands each decoded message to
// handleMsg / handleTimeout, which drop it (wrong height), and the consensus state machine
// stays out of the picture.
var c15State *State

func c15RealState() *State {
	if c15State == nil {
		cs, _ := randState(1)
		cs.SetLogger(log.NewNopLogger())
		cs.Height = 1 << 40
		c15State = cs
	}
	return c15State
}

// realCatchup runs State.catchupReplay(csHeight) on the WAL of the case
func (d *c15Drv) realCatchup(csHeight int64) (err error) {
	cs := c15RealState()
	old := cs.wal
	cs.wal = d.wal
	defer func() {
		cs.wal = old
		if p := recover(); p != nil {
			err = fmt.Errorf("panic in catchupReplay: %v", p)
		}
	}()
	return cs.catchupReplay(csHeight)
}

// the WAL part of State.catchupReplay(csHeight) with InitialHeight = 1: the same calls in the
// same order; handing the decoded messages to the consensus state machine is left out.  Used
// only to learn WHICH records a successful replay read (catchupReplay does not return them);
// whether the replay succeeded, failed or ran into corruption is decided by the real function.
func (d *c15Drv) catchup(csHeight int64) (replayed [][]byte, err error) {
	gr, found, err := d.wal.SearchForEndHeight(csHeight, &WALSearchOptions{IgnoreDataCorruptionErrors: true})
	if err != nil {
		return nil, err
	}
	if gr != nil {
		if err := gr.Close(); err != nil {
			return nil, err
		}
	}
	if found {
		return nil, fmt.Errorf("wal should not contain #ENDHEIGHT %d", csHeight)
	}
	if csHeight < 1 {
		return nil, fmt.Errorf("cannot replay height %v, below initial height", csHeight)
	}
	endHeight := csHeight - 1
	gr, found, err = d.wal.SearchForEndHeight(endHeight, &WALSearchOptions{IgnoreDataCorruptionErrors: true})
	if err == io.EOF {
	} else if err != nil {
		return nil, err
	}
	if !found {
		return nil, fmt.Errorf("cannot replay height %d. WAL does not contain #ENDHEIGHT for %d", csHeight, endHeight)
	}
	defer gr.Close()
	recs, term := c15DecodeAll(gr)
	switch term {
	case 0:
		return recs, nil
	case 1:
		return nil, DataCorruptionError{fmt.Errorf("corrupted")}
	default:
		return nil, fmt.Errorf("read error")
	}
}

func (d *c15Drv) takeFrame() []byte {
	if len(d.frames) == 0 {
		return nil
	}
	f := d.frames[len(d.frames)-1]
	d.frames = nil
	if len(f) < 8 {
		return nil
	}
	return f[8:]
}

// crash keeping `keep` bytes of the unsynced tail, then the WAL part of State.OnStart
func (d *c15Drv) restart(keep, h int64, cu bool) (status uint64, repaired bool, replayed [][]byte, d0a, d0b []byte, err error) {
	if d.wal != nil {
		d.stop() // flushes everything: the head file now holds synced prefix + whole unsynced tail
		total := d.headSize()
		if keep < 0 {
			keep = 0
		}
		if d.synced+keep < total {
			if err = os.Truncate(d.walFile, d.synced+keep); err != nil {
				return
			}
		}
	}
	d.frames = nil
	if err = d.open(); err != nil { // loadWalFile
		return
	}
	d0a = d.takeFrame()
	if !cu {
		status = 3
	} else {
		repairAttempted := false
	LOOP:
		for {
			// the error State.OnStart looks at is the one the real catchupReplay returns
			cerr := d.realCatchup(h)
			switch {
			case cerr == nil:
				status = 0
				// the records it replayed, by the transcription; status 4: the transcription
				// does not get through where the real function did
				var terr error
				if replayed, terr = d.catchup(h); terr != nil {
					status = 4
				}
				break LOOP
			case !IsDataCorruptionError(cerr):
				status = 1
				break LOOP
			case repairAttempted:
				status = 2
				break LOOP
			}
			if err = d.wal.Stop(); err != nil {
				return
			}
			d.wal.Wait()
			repairAttempted = true
			repaired = true
			corruptedFile := fmt.Sprintf("%s.CORRUPTED", d.walFile)
			if err = tmos.CopyFile(d.walFile, corruptedFile); err != nil {
				return
			}
			if err = repairWalFile(corruptedFile, d.walFile); err != nil {
				return
			}
			d.frames = nil
			if err = d.open(); err != nil {
				return
			}
			d0b = d.takeFrame()
		}
	}
	d.synced = d.headSize()
	return
}

func (d *c15Drv) filePath(idx int) string {
	if idx == d.wal.Group().MaxIndex() {
		return d.walFile
	}
	return fmt.Sprintf("%s.%03d", d.walFile, idx)
}

// ---------------------------------------------------------------- messages

type c15Msg struct {
	msg  WALMessage
	tag  string // Coq option Z
	text string
}

func c15EndHeight(h int64) c15Msg {
	return c15Msg{EndHeightMessage{h}, vg.Opt(true, vg.Z(h)), fmt.Sprintf("EndHeight{%d}", h)}
}

func c15BlockPart(h int64, leaf []byte, part []byte) c15Msg {
	return c15Msg{msgInfo{Msg: &BlockPartMessage{Height: h, Round: 0,
		Part: &tmtypes.Part{Index: 1, Bytes: part, Proof: merkle.Proof{Total: 2, Index: 1, LeafHash: leaf}}}},
		"None", fmt.Sprintf("msgInfo{BlockPart{H:%d,bytes:%d,leaf:%x}}", h, len(part), leaf)}
}

func c15RandMsg(r *vg.Rand, h int64) c15Msg {
	switch r.Intn(5) {
	case 0:
		ti := timeoutInfo{Duration: time.Duration(r.Intn(5000)) * time.Millisecond, Height: h, Round: int32(r.Intn(3)), Step: cstypes.RoundStepType(1 + r.Intn(8))}
		return c15Msg{ti, "None", fmt.Sprintf("timeoutInfo{%v}", ti.String())}
	case 1:
		e := tmtypes.EventDataRoundState{Height: h, Round: int32(r.Intn(3)), Step: "RoundStepPropose"}
		return c15Msg{e, "None", fmt.Sprintf("RoundState{%d/%d}", e.Height, e.Round)}
	case 2:
		// a record whose encoding ends in zero bytes (the leaf hash is the last field)
		leaf := r.Bytes(32)
		for i := 32 - 1 - r.Intn(6); i < 32; i++ {
			leaf[i] = 0
		}
		return c15BlockPart(h, leaf, r.Bytes(1+r.Intn(6)))
	case 3:
		return c15BlockPart(h, r.Bytes(32), r.Bytes(1+r.Intn(40)))
	default:
		ti := timeoutInfo{Duration: time.Duration(r.Intn(100)) * time.Millisecond, Height: h, Round: 0, Step: cstypes.RoundStepNewHeight}
		return c15Msg{ti, "None", fmt.Sprintf("timeoutInfo{%v}", ti.String())}
	}
}

// ---------------------------------------------------------------- one case

// a record of a rolled file that exists before the WAL is opened for the first time
type c15PreRec struct {
	data []byte
	tag  string
	text string
}

type c15Case struct {
	base    int           // number of the first pre-existing rolled file
	pre     [][]c15PreRec // records of the pre-existing rolled files, oldest file first
	d       *c15Drv
	ops     []string
	answers []string
	snaps   []string
	descr   []string
	kinds   map[string]int
	err     error
	stopped bool // start failed (status 2): the node is not running
}

func c15NewCase(hl, tl int64) (*c15Case, error) {
	dir, err := os.MkdirTemp("", "verif-c15-")
	if err != nil {
		return nil, err
	}
	return &c15Case{d: &c15Drv{dir: dir, walFile: filepath.Join(dir, "wal"), hl: hl, tl: tl}, kinds: map[string]int{}}, nil
}

// prepopulate puts n genuine rolled files numbered base, base+1, ... into the (still unopened)
// directory of the case: a real WAL in a scratch directory writes the records of heights 0..,
// RotateFile produces wal.000, wal.001, ..., and the files are moved to their numbers.  It
// returns the height the node works on afterwards (markers 0..H-1 are in the files).
func (c *c15Case) prepopulate(r *vg.Rand, base, n int) (int64, error) {
	tmp, err := os.MkdirTemp("", "verif-c15-pre-")
	if err != nil {
		return 0, err
	}
	defer os.RemoveAll(tmp)
	d := &c15Drv{dir: tmp, walFile: filepath.Join(tmp, "wal")}
	d.frames = nil
	if err := d.open(); err != nil {
		return 0, err
	}
	defer d.stop()
	var cur []c15PreRec
	if f := d.takeFrame(); f != nil { // the EndHeightMessage{0} of BaseWAL.OnStart
		cur = append(cur, c15PreRec{f, vg.Opt(true, vg.Z(0)), "EndHeight{0}"})
	}
	H := int64(1)
	put := func(m c15Msg) error {
		d.frames = nil
		if err := d.wal.WriteSync(m.msg); err != nil {
			return err
		}
		f := d.takeFrame()
		if f == nil {
			return fmt.Errorf("prepopulate: no frame")
		}
		cur = append(cur, c15PreRec{f, m.tag, m.text})
		return nil
	}
	for i := 0; i < n; i++ {
		for k := r.Intn(3); k > 0; k-- {
			if err := put(c15RandMsg(r, H)); err != nil {
				return 0, err
			}
		}
		if err := put(c15EndHeight(H)); err != nil {
			return 0, err
		}
		H++
		if r.Bool() {
			if err := put(c15RandMsg(r, H)); err != nil {
				return 0, err
			}
		}
		d.wal.Group().RotateFile()
		c.pre = append(c.pre, cur)
		cur = nil
	}
	d.stop()
	for i := 0; i < n; i++ {
		if err := os.Rename(fmt.Sprintf("%s.%03d", d.walFile, i), fmt.Sprintf("%s.%03d", c.d.walFile, base+i)); err != nil {
			return 0, err
		}
	}
	c.base = base
	return H, nil
}

func (c *c15Case) close() {
	c.d.stop()
	os.RemoveAll(c.d.dir)
}

func (c *c15Case) record(op, ans, descr, kind string) {
	c.ops = append(c.ops, op)
	c.answers = append(c.answers, ans)
	c.snaps = append(c.snaps, c.d.snap())
	c.descr = append(c.descr, descr)
	c.kinds[kind]++
}

func (c *c15Case) write(m c15Msg, sync bool) {
	c.d.frames = nil
	var err error
	name, ctor := "Write", "XWrite"
	if sync {
		name, ctor = "WriteSync", "XWriteSync"
		err = c.d.wal.WriteSync(m.msg)
	} else {
		err = c.d.wal.Write(m.msg)
	}
	data := c.d.takeFrame()
	if data == nil {
		// too big: nothing reached the group; the model needs the encoding to decide the same
		data = c15Marshal(m.msg)
	}
	if sync && err == nil {
		c.d.synced = c.d.headSize()
	}
	c.record(vg.App(ctor, c15Pl(data), m.tag), vg.App("XAck", vg.B(err == nil)),
		fmt.Sprintf("%s(%s)[%d bytes]", name, m.text, len(data)), "op/"+name)
}

// the encoding Encode would have produced at time tm (used when Encode refused the message,
// and for the records at the size limit, which need a fixed time stamp)
func c15MarshalAt(msg WALMessage, tm time.Time) []byte {
	pb, err := WALToProto(msg)
	if err != nil {
		return nil
	}
	pv := tmcons.TimedWALMessage{Time: tm, Msg: pb}
	data, err := proto.Marshal(&pv)
	if err != nil {
		return nil
	}
	return data
}
func c15Marshal(msg WALMessage) []byte { return c15MarshalAt(msg, tmtime.Now()) }

// writeAt goes through the encoder directly (BaseWAL.Write minus the wall clock) so that the
// encoded size is exact
func (c *c15Case) writeAt(m c15Msg, tm time.Time) {
	c.d.frames = nil
	err := c.d.wal.enc.Encode(&TimedWALMessage{Time: tm, Msg: m.msg})
	data := c.d.takeFrame()
	if data == nil {
		data = c15MarshalAt(m.msg, tm)
	}
	c.record(vg.App("XWrite", c15Pl(data), m.tag), vg.App("XAck", vg.B(err == nil)),
		fmt.Sprintf("Encode(%s)[%d bytes]", m.text, len(data)), "op/Write")
}

// a message whose encoding at time tm has exactly `target` bytes: a valid block part from a
// peer with a very long id (the id is the last field of the encoding)
func c15SizedMsg(target int, tm time.Time) c15Msg {
	l := target - 128
	leaf := make([]byte, 32)
	for i := 0; i < 8; i++ {
		m := c15BlockPart(1, leaf, []byte{1})
		mi := m.msg.(msgInfo)
		mi.PeerID = p2p.ID(strings.Repeat("a", l))
		m.msg = mi
		n := len(c15MarshalAt(m.msg, tm))
		if n == target {
			m.text = fmt.Sprintf("msgInfo{BlockPart, PeerID: %d x 'a'}", l)
			return m
		}
		l += target - n
	}
	panic("cannot size message")
}

func (c *c15Case) flush() {
	err := c.d.wal.FlushAndSync()
	if err == nil {
		c.d.synced = c.d.headSize()
	}
	c.record("XFlush", vg.App("XAck", vg.B(err == nil)), "FlushAndSync()", "op/FlushAndSync")
}

func (c *c15Case) rotate() {
	c.d.wal.Group().RotateFile()
	c.d.synced = 0
	c.record("XRotate", "XNone", "RotateFile()", "op/RotateFile")
}

func (c *c15Case) checkHead() {
	before := c.d.wal.Group().MaxIndex()
	c.d.wal.Group().VerifC15CheckHeadSizeLimit()
	if c.d.wal.Group().MaxIndex() != before {
		c.d.synced = 0
	}
	c.record("XCheckHead", "XNone", "checkHeadSizeLimit()", "op/checkHeadSizeLimit")
}

func (c *c15Case) checkTotal() {
	c.d.wal.Group().VerifC15CheckTotalSizeLimit()
	c.record("XCheckTotal", "XNone", "checkTotalSizeLimit()", "op/checkTotalSizeLimit")
}

// unsynced returns the number of bytes written after the last sync (on disk or buffered)
func (c *c15Case) unsynced() int64 {
	if c.d.wal == nil {
		return 0
	}
	return c.d.headSize() + int64(c.d.wal.Group().Buffered()) - c.d.synced
}

func (c *c15Case) restart(keep, h int64, cu bool) uint64 {
	status, repaired, replayed, d0a, d0b, err := c.d.restart(keep, h, cu)
	if err != nil {
		c.err = err
		return 9
	}
	var all [][]byte
	var term uint64 = 2
	if gr, err := c.d.wal.Group().NewReader(c.d.wal.Group().MinIndex()); err == nil {
		all, term = c15DecodeAll(gr)
		gr.Close()
	}
	c.record(vg.App("XRestart", vg.Z(keep), vg.Z(h), vg.B(cu), c15Pl(d0a), c15Pl(d0b)),
		vg.App("XRestarted", vg.N(status), vg.B(repaired), c15PlL(replayed), c15PlL(all), vg.N(term)),
		fmt.Sprintf("crash(keep %d bytes of the unsynced tail)+restart(height=%d,doWALCatchup=%v)->status=%d,repaired=%v,records=%d,term=%d",
			keep, h, cu, status, repaired, len(all), term), "op/restart")
	c.kinds[fmt.Sprintf("restart/status=%d", status)]++
	if repaired {
		c.kinds["restart/repaired"]++
	}
	if status == 2 {
		c.stopped = true
	}
	return status
}

func (c *c15Case) flip(idx int, off int64, x byte) {
	p := c.d.filePath(idx)
	b, err := os.ReadFile(p)
	if err != nil || off >= int64(len(b)) {
		return
	}
	b[off] ^= x
	if err := os.WriteFile(p, b, 0600); err != nil {
		c.err = err
		return
	}
	c.record(vg.App("XFlip", vg.Z(int64(idx)), vg.Z(off), vg.N(uint64(x))), "XNone",
		fmt.Sprintf("flip(file index %d, offset %d, xor %#x)", idx, off, x), "op/flip")
}

func (c *c15Case) search(h int64, ignore bool) {
	gr, found, err := c.d.wal.SearchForEndHeight(h, &WALSearchOptions{IgnoreDataCorruptionErrors: ignore})
	res := uint64(0)
	var after [][]byte
	var term uint64
	switch {
	case err != nil:
		res = 2
	case found:
		res = 1
		after, term = c15DecodeAll(gr)
	}
	if gr != nil {
		gr.Close()
	}
	c.record(vg.App("XSearch", vg.Z(h), vg.B(ignore)), vg.App("XSearched", vg.N(res), c15PlL(after), vg.N(term)),
		fmt.Sprintf("SearchForEndHeight(%d,ignoreCorruption=%v)->%d(+%d records)", h, ignore, res, len(after)), "op/search")
}

func (c *c15Case) read(idx int) {
	gr, err := c.d.wal.Group().NewReader(idx)
	if err != nil {
		return
	}
	recs, term := c15DecodeAll(gr)
	gr.Close()
	c.record(vg.App("XRead", vg.Z(int64(idx))), vg.App("XReadAns", c15PlL(recs), vg.N(term)),
		fmt.Sprintf("read(from index %d)->%d records,term=%d", idx, len(recs), term), "op/read")
}

func (c *c15Case) term() (string, string) {
	// final content of every file, byte for byte (head: file plus what is still buffered is
	// obtained by flushing first)
	_ = c.d.wal.FlushAndSync()
	idx, _ := c.d.indexed()
	var fs [][]byte
	for _, i := range idx {
		b, _ := os.ReadFile(fmt.Sprintf("%s.%03d", c.d.walFile, i))
		fs = append(fs, b)
	}
	h, _ := os.ReadFile(c.d.walFile)
	return c15PlL(fs), c15Pl(h)
}

func (c *c15Case) emit(cs *vg.Cases, id int, kind string, nontrivial bool) {
	ff, fh := c.term()
	for k, n := range c.kinds {
		cs.Count(k, n)
	}
	pre := make([]string, len(c.pre))
	preText := ""
	for i, f := range c.pre {
		rs := make([]string, len(f))
		ts := make([]string, len(f))
		for k, rec := range f {
			rs[k] = vg.Tup(c15Pl(rec.data), rec.tag)
			ts[k] = fmt.Sprintf("%s[%d bytes]", rec.text, len(rec.data))
		}
		pre[i] = vg.L(rs)
		preText += fmt.Sprintf(" wal.%03d=[%s]", c.base+i, strings.Join(ts, ", "))
	}
	if preText != "" {
		preText = " existing rolled files (written by a real WAL, renamed):" + preText
		cs.Count("pre/files", len(c.pre))
		cs.Count(fmt.Sprintf("pre/base=%d", c.base), 1)
	}
	cs.Add(id, kind, nontrivial,
		vg.App("CWal", vg.Z(c.d.hl), vg.Z(c.d.tl), vg.Z(int64(c.base)), vg.L(pre), vg.L(c.ops), vg.L(c.answers), vg.L(c.snaps), ff, fh),
		fmt.Sprintf("headSizeLimit=%d totalSizeLimit=%d%s ops: %s", c.d.hl, c.d.tl, preText, strings.Join(c.descr, "; ")))
}

// ---------------------------------------------------------------- tests

// directed: the torn-checksum scenario (F8) and every truncation offset of the last two records
func TestVerifC15Directed(t *testing.T) {
	root := vg.NewRand(vg.Seed() ^ 0xc15d)
	cs := vg.NewCases("C15", "c15_directed", "TM.C15.Exec")
	k := 0
	var run func(kind string, f func(c *c15Case, r *vg.Rand))
	runLim := func(kind string, hl, tl int64, f func(c *c15Case, r *vg.Rand)) {
		id := cs.NextID()
		k++
		if !cs.Want(id) {
			return
		}
		c, err := c15NewCase(hl, tl)
		if err != nil {
			t.Fatal(err)
		}
		defer c.close()
		func() {
			defer func() {
				if p := recover(); p != nil {
					c.err = fmt.Errorf("panic: %v", p)
				}
			}()
			f(c, root.Fork(uint64(k)))
		}()
		if c.err != nil {
			t.Fatalf("%s: %v", kind, c.err)
		}
		c.emit(cs, id, kind, true)
	}
	run = func(kind string, f func(c *c15Case, r *vg.Rand)) { runLim(kind, 0, 0, f) }
	// F8: a tail of 1..7 bytes, a later acknowledged marker, a second restart
	for tail := int64(1); tail <= 9; tail++ {
		tail := tail
		run(fmt.Sprintf("torn-tail/%d", tail), func(c *c15Case, r *vg.Rand) {
			c.restart(0, 1, true)
			c.write(c15RandMsg(r, 1), true)
			c.write(c15EndHeight(1), true)
			c.write(c15RandMsg(r, 2), false)
			c.restart(tail, 2, true)
			c.write(c15RandMsg(r, 2), true)
			c.write(c15EndHeight(2), true)
			c.restart(1<<30, 3, true)
			c.search(2, false)
			c.search(1, false)
		})
	}
	// records at the size limit: encoder and decoder must agree on maxMsgSizeBytes
	for _, delta := range []int{0, 1, -1} {
		delta := delta
		run(fmt.Sprintf("size-limit/%+d", delta), func(c *c15Case, r *vg.Rand) {
			tm := time.Unix(1700000000, 123456789).UTC()
			c.restart(0, 1, true)
			c.writeAt(c15SizedMsg(maxMsgSizeBytes+delta, tm), tm)
			c.write(c15EndHeight(1), true)
			c.restart(1<<30, 2, true)
		})
	}
	// known-finding class 9: the repair is tied to the catch-up replay.  A node that crashed in the
	// middle of a record and then syncs blocks before consensus starts (doWALCatchup=false, or
	// no marker for height-1 in the log) keeps the torn record and appends behind it.
	for _, cu := range []bool{false, true} {
		cu := cu
		run(fmt.Sprintf("no-repair-without-catchup/%v", cu), func(c *c15Case, r *vg.Rand) {
			c.restart(0, 1, true)
			c.write(c15EndHeight(1), true)
			c.write(c15RandMsg(r, 2), false)
			c.restart(5, 6, cu) // torn record; consensus starts at height 6 after block sync
			c.write(c15RandMsg(r, 6), true)
			c.write(c15EndHeight(6), true)
			c.restart(1<<30, 7, true)
			c.search(6, true)
		})
	}
	// every offset of the last two (unsynced) records, two crash cycles
	probe, _ := c15NewCase(0, 0)
	probe.restart(0, 1, true)
	pr := root.Fork(999)
	probe.write(c15RandMsg(pr, 1), false)
	probe.write(c15BlockPart(1, append(pr.Bytes(28), 0, 0, 0, 0), pr.Bytes(3)), false)
	maxOff := probe.unsynced() + 2
	probe.close()
	step := int64(1)
	if !vg.Thorough() {
		step = 2
	}
	for off := int64(0); off <= maxOff; off += step {
		off := off
		run("all-offsets", func(c *c15Case, _ *vg.Rand) {
			r := root.Fork(999)
			c.restart(0, 1, true)
			c.write(c15EndHeight(1), true)
			c.write(c15RandMsg(r, 1), false)
			c.write(c15BlockPart(1, append(r.Bytes(28), 0, 0, 0, 0), r.Bytes(3)), false)
			c.restart(off, 2, true)
			c.write(c15RandMsg(r, 2), false)
			c.write(c15EndHeight(2), true)
			c.write(c15RandMsg(r, 3), false)
			c.restart(off/2, 3, true)
			c.search(2, true)
			c.search(3, true)
		})
	}
	// Readers that get past an unrepaired partial record (known-finding class 9 leaves it in
	// place): the reader opened at the oldest file stops there, but the records appended behind
	// it and in the later files -- among them the EndHeightMessage{0} BaseWAL.OnStart writes into
	// an empty head -- were written and are on disk.  A reader opened at a later index, or at the
	// oldest file once checkTotalSizeLimit has removed the file with the partial record, returns
	// them: that is no clause 2 failure (the monitor's journal must not be cut down to what the
	// stopped reader saw).  (Appended at the end: the ids of the cases above stay as they were.)
	for _, cu := range []bool{false, true} {
		cu := cu
		run(fmt.Sprintf("behind-unrepaired-partial/read-later-index/%v", cu), func(c *c15Case, r *vg.Rand) {
			c.restart(0, 1, true)
			c.write(c15EndHeight(1), true)
			c.write(c15RandMsg(r, 2), false)
			c.restart(5, 6, cu) // partial record stays (status 1 / 3)
			c.write(c15RandMsg(r, 6), true)
			c.rotate() // file 0 = E0 E1 <partial> A
			c.write(c15RandMsg(r, 6), true)
			c.restart(1<<30, 7, true) // the reader from file 0 stops at the partial record
			c.read(1)                 // ... the head holds the synced record
			c.rotate()
			c.restart(0, 7, true) // empty head: OnStart writes EndHeightMessage{0}
			c.read(2)
			c.search(0, true)
		})
	}
	runLim("behind-unrepaired-partial/pruned", 0, 250, func(c *c15Case, r *vg.Rand) {
		c.restart(0, 1, true)
		c.write(c15EndHeight(1), true)
		c.write(c15RandMsg(r, 2), false)
		c.restart(5, 6, true)
		c.write(c15RandMsg(r, 6), true)
		c.rotate()
		c.write(c15RandMsg(r, 6), true)
		c.write(c15EndHeight(6), true)
		c.restart(1<<30, 7, true) // marker 6 found in the head, replay to EOF: status 0, no repair
		c.rotate()
		c.restart(0, 7, true) // EndHeightMessage{0} into the empty head, unseen by the stopped reader
		for i := 0; i < 3; i++ {
			c.write(c15BlockPart(7, r.Bytes(32), r.Bytes(40)), true)
		}
		c.checkTotal()            // removes file 0 with the partial record (and file 1 if still over the limit)
		c.restart(1<<30, 7, true) // everything left is readable again
		c.search(6, true)
		c.search(0, true)
	})
	// two unrepaired partial records (one rotated away, one in the head), then a restart whose
	// catch-up runs into the one in the head: repairWalFile cuts the head there (the synced
	// record behind it is lost: class 9), while the reader from file 0 still stops in file 0
	run("behind-unrepaired-partial/repair-cuts-head", func(c *c15Case, r *vg.Rand) {
		c.restart(0, 1, true)
		c.write(c15EndHeight(1), true)
		c.write(c15RandMsg(r, 2), false)
		c.restart(5, 6, true)
		c.write(c15RandMsg(r, 6), true)
		c.rotate()
		c.write(c15EndHeight(6), true)
		c.write(c15RandMsg(r, 7), false)
		c.restart(5, 9, true) // head = E6 <partial>; no marker 8: status 1, no repair
		c.write(c15RandMsg(r, 9), true)
		c.restart(1<<30, 7, true) // marker 6 found, replay runs into the partial record: repair
		c.read(1)
		c.write(c15RandMsg(r, 7), true)
		c.read(1)
		c.restart(1<<30, 7, true)
	})
	// Rolled files of any number: the directory already holds genuine rolled files numbered base,
	// base+1 (a node that has been running for a long time), the history rotates across the
	// next power of ten where there is one (9->10, 99->100, 999->1000, 9999->10000), reopens,
	// searches, reads from every index and prunes.  File numbers have at least three digits and
	// no upper bound.
	for _, base := range c15Bases {
		for _, tl := range []int64{0, 400} {
			base, tl := base, tl
			runLim(fmt.Sprintf("large-index/base=%d/tl=%d", base, tl), 0, tl, func(c *c15Case, r *vg.Rand) {
				H, err := c.prepopulate(r, base, 2)
				if err != nil {
					c.err = err
					return
				}
				c.restart(0, H, true) // files base, base+1; new head base+2
				c.write(c15RandMsg(r, H), true)
				c.rotate() // -> file base+2
				c.write(c15RandMsg(r, H), false)
				c.write(c15EndHeight(H), true)
				H++
				c.rotate() // -> file base+3
				c.write(c15RandMsg(r, H), true)
				c.restart(1<<30, H, true) // reopen: min/max from the directory
				c.search(H-1, false)
				c.search(1, false)
				g := c.d.wal.Group()
				for i := g.MinIndex(); i <= g.MaxIndex(); i++ {
					c.read(i)
				}
				c.rotate() // -> file base+4: must not land on an existing file
				c.write(c15EndHeight(H), true)
				H++
				c.checkTotal()
				c.restart(0, H, true)
				c.search(H-1, true)
				c.checkTotal()
				c.rotate()
				c.restart(1<<30, H, true)
			})
		}
	}
	if err := cs.Write(); err != nil {
		t.Fatal(err)
	}
}

// numbers of the first pre-existing rolled file: around every change of the number of digits,
// plus (random lists) an arbitrary one
var c15Bases = []int{0, 1, 9, 10, 99, 100, 998, 999, 1000, 1001, 9999, 10000}

func TestVerifC15Random(t *testing.T) {
	root := vg.NewRand(vg.Seed() ^ 0xc15)
	cs := vg.NewCases("C15", "c15_wal", "TM.C15.Exec")
	n := vg.Scale(140, 8000)
	hls := []int64{0, 90, 150, 300}
	tls := []int64{0, 250, 500, 900}
	for k := 0; k < n; k++ {
		id := cs.NextID()
		if !cs.Want(id) {
			continue
		}
		r := root.Fork(uint64(k))
		c, err := c15NewCase(hls[r.Intn(len(hls))], tls[r.Intn(len(tls))])
		if err != nil {
			t.Fatal(err)
		}
		withFlips := r.Chance(20)
		hostileHeights := r.Chance(10)
		skipCatchup := r.Chance(8)
		nops := 6 + r.Intn(vg.Scale(22, 40))
		kind := "wal"
		func() {
			defer func() {
				if p := recover(); p != nil {
					c.err = fmt.Errorf("panic: %v", p)
				}
			}()
			H := int64(1) // the height the node is working on: markers 0..H-1 were written
			// half of the lists start in a directory that already holds 1..3 rolled files with
			// numbers of any magnitude (own PRNG stream: the other lists are as before)
			if rp := root.Fork(uint64(k) + 1<<40); rp.Chance(50) {
				base := c15Bases[rp.Intn(len(c15Bases))]
				if rp.Chance(15) {
					base = rp.Intn(2000000)
				}
				var err error
				if H, err = c.prepopulate(rp, base, 1+rp.Intn(3)); err != nil {
					c.err = err
					return
				}
				kind += "+preexisting"
			}
			c.restart(0, H, true)
			for j := 0; j < nops && !c.stopped && c.err == nil; j++ {
				switch x := r.Intn(100); {
				case x < 30:
					c.write(c15RandMsg(r, H), false)
				case x < 42:
					c.write(c15RandMsg(r, H), true)
				case x < 57:
					if hostileHeights && r.Chance(50) {
						c.write(c15EndHeight(int64(r.Intn(int(H)+3))), true)
					} else {
						c.write(c15EndHeight(H), true)
						H++
					}
				case x < 61:
					c.flush()
				case x < 66:
					c.rotate()
				case x < 74:
					c.checkHead()
				case x < 80:
					c.checkTotal()
				case x < 90:
					uns := c.unsynced()
					keep := uns
					switch r.Intn(4) {
					case 0:
						keep = 0
					case 1, 2:
						keep = r.Int63n(uns + 1)
					}
					h, cu := H, true
					if skipCatchup && r.Chance(50) {
						if r.Bool() {
							cu = false
						} else {
							h = H + 1 + int64(r.Intn(3)) // consensus starts ahead of the log (block sync)
							H = h
						}
					} else if hostileHeights && r.Chance(30) {
						h = int64(r.Intn(int(H) + 2))
					}
					c.restart(keep, h, cu)
					if !c.stopped && c.err == nil {
						c.search(H-1, true)
						if H >= 2 && r.Bool() {
							c.search(int64(r.Intn(int(H))), r.Bool())
						}
					}
				case x < 94:
					g := c.d.wal.Group()
					if withFlips {
						idx := g.MinIndex() + r.Intn(g.MaxIndex()-g.MinIndex()+1)
						if fi, err := os.Stat(c.d.filePath(idx)); err == nil && fi.Size() > 0 {
							c.flip(idx, r.Int63n(fi.Size()), byte(1)<<uint(r.Intn(8)))
						}
					} else {
						c.search(int64(r.Intn(int(H)+1)), r.Bool())
					}
				case x < 97:
					c.search(int64(r.Intn(int(H)+1)), r.Bool())
				default:
					g := c.d.wal.Group()
					c.read(g.MinIndex() + r.Intn(g.MaxIndex()-g.MinIndex()+1))
				}
			}
			if !c.stopped && c.err == nil && r.Chance(70) {
				c.restart(1<<30, H, true)
			}
		}()
		if c.err != nil {
			c.close()
			t.Fatalf("case %d: %v", id, c.err)
		}
		if withFlips {
			kind += "+flips"
		}
		if hostileHeights {
			kind += "+nonmonotone"
		}
		if skipCatchup {
			kind += "+nocatchup"
		}
		c.emit(cs, id, kind, len(c.ops) >= 5)
		c.close()
	}
	if err := cs.Write(); err != nil {
		t.Fatal(err)
	}
}
