//go:build verif

package types

// C10 correspondence harness for types/part_set.go (injected with `go test -overlay`).

import (
	"fmt"
	"io"
	"sort"
	"sync"
	"testing"

	"github.com/tendermint/tendermint/crypto/merkle"
	vg "github.com/tendermint/tendermint/internal/verifgen"
)

func c10Part(p *Part) string {
	return vg.Tup(vg.Z(int64(p.Index)), vg.Hx(p.Bytes),
		vg.Tup(vg.Z(p.Proof.Total), vg.Z(p.Proof.Index), vg.Hx(p.Proof.LeafHash), vg.HxL(p.Proof.Aunts)))
}

func c10ClonePart(p *Part) *Part {
	q := &Part{Index: p.Index, Bytes: append([]byte{}, p.Bytes...)}
	q.Proof = merkle.Proof{Total: p.Proof.Total, Index: p.Proof.Index, LeafHash: append([]byte{}, p.Proof.LeafHash...)}
	for _, a := range p.Proof.Aunts {
		q.Proof.Aunts = append(q.Proof.Aunts, append([]byte{}, a...))
	}
	return q
}

func TestVerifC10PartSet(t *testing.T) {
	root := vg.NewRand(vg.Seed() ^ 0xc10)
	cs := vg.NewCases("C10", "c10_partset", "TM.C10.Exec")
	n := vg.Scale(120, 6000)
	sizes := []uint32{1, 2, 3, 4, 7, 8, 16, 32}
	for k := 0; k < n; k++ {
		id := cs.NextID()
		if !cs.Want(id) {
			continue
		}
		r := root.Fork(uint64(k))
		sz := sizes[r.Intn(len(sizes))]
		var dl int
		switch r.Intn(6) {
		case 0:
			dl = int(sz) * (1 + r.Intn(6)) // exact multiple
		case 1:
			dl = int(sz)*(1+r.Intn(6)) + 1
		case 2:
			dl = int(sz)*(1+r.Intn(6)) - 1
		case 3:
			dl = r.Intn(3)
		default:
			dl = 1 + r.Intn(int(sz)*9)
		}
		if dl > 160 {
			dl = 160
		}
		data := r.Bytes(dl)
		if r.Chance(15) && dl >= 2*int(sz) { // two equal chunks
			copy(data[sz:2*sz], data[:sz])
		}
		ps := NewPartSetFromData(data, sz)
		total := int(ps.Total())
		var partsT []string
		for i := 0; i < total; i++ {
			partsT = append(partsT, c10Part(ps.GetPart(i)))
		}
		other := NewPartSetFromData(r.Bytes(dl), sz) // same shape, different content
		ps2 := NewPartSetFromHeader(ps.Header())
		var ops []*Part
		kinds := map[string]int{}
		nHostile := r.Intn(2*total + 2)
		for j := 0; j < nHostile && total > 0; j++ {
			i := r.Intn(total)
			p := c10ClonePart(ps.GetPart(i))
			kind := ""
			switch r.Intn(13) {
			case 12:
				// the genuine proof of part i with NO bytes (what a wire message without the bytes
				// field decodes to) or with empty bytes
				kind = "no-bytes"
				if r.Bool() {
					p.Bytes = nil
				} else {
					p.Bytes = []byte{}
				}
			case 10, 11:
				// part i's bytes and aunts presented as (index i', total t') with the same
				// left/right path shape: only the index/total binding can refuse it
				kind = "shape-transplant"
				want := c10Shape(i, total)
				type it struct{ i, t int }
				var cands []it
				for t2 := 1; t2 <= total+2; t2++ {
					for i2 := 0; i2 < t2; i2++ {
						if (i2 != i || t2 != total) && c10Shape(i2, t2) == want {
							cands = append(cands, it{i2, t2})
						}
					}
				}
				if len(cands) > 0 {
					c := cands[r.Intn(len(cands))]
					p.Index = uint32(c.i)
					p.Proof.Index = int64(c.i)
					p.Proof.Total = int64(c.t)
				}
			case 0:
				kind = "genuine"
			case 1:
				kind = "transplant" // genuine part i offered at position j (proof untouched)
				p.Index = uint32(r.Intn(total))
			case 2:
				kind = "transplant+relabel" // ... and the proof's index re-labelled as well
				p.Index = uint32(r.Intn(total))
				p.Proof.Index = int64(p.Index)
			case 3:
				kind = "bytes-flip"
				if len(p.Bytes) > 0 {
					p.Bytes[r.Intn(len(p.Bytes))] ^= 1 << uint(r.Intn(8))
				}
			case 4:
				kind = "proof-of-other-part"
				p.Proof = c10ClonePart(ps.GetPart(r.Intn(total))).Proof
			case 5:
				kind = "proof-total"
				p.Proof.Total += int64(r.Intn(3)) - 1
			case 6:
				kind = "index-out-of-range"
				p.Index = uint32(total + r.Intn(2))
			case 7:
				kind = "foreign-set"
				if int(other.Total()) == total {
					p = c10ClonePart(other.GetPart(i))
				}
			case 8:
				kind = "aunt-edit"
				if len(p.Proof.Aunts) > 0 {
					a := r.Intn(len(p.Proof.Aunts))
					if r.Bool() {
						p.Proof.Aunts[a][0] ^= 1
					} else {
						p.Proof.Aunts = p.Proof.Aunts[:len(p.Proof.Aunts)-1]
					}
				}
			default:
				kind = "proof-index-only"
				p.Proof.Index = int64(r.Intn(total))
			}
			kinds[kind]++
			ops = append(ops, p)
		}
		if r.Chance(85) { // then the genuine parts, any order, some twice
			for _, i := range r.Perm(total) {
				ops = append(ops, c10ClonePart(ps.GetPart(i)))
				if r.Chance(15) {
					ops = append(ops, c10ClonePart(ps.GetPart(r.Intn(total))))
				}
			}
		}
		var opsT, resT []string
		for _, p := range ops {
			opsT = append(opsT, c10Part(p))
			added, err := ps2.AddPart(p)
			code := uint64(1)
			switch {
			case added:
				code = 0
			case err == ErrPartSetUnexpectedIndex:
				code = 2
			case err == ErrPartSetInvalidProof:
				code = 3
			case err != nil:
				code = 9
			}
			resT = append(resT, vg.N(code))
		}
		complete := ps2.IsComplete()
		var out []byte
		if complete && total > 0 {
			// a part set that calls itself complete must be readable: a panic here (a slot that is
			// counted but empty) is an observation, not a harness failure
			func() {
				defer func() {
					if rec := recover(); rec != nil {
						out = []byte(fmt.Sprintf("PANIC while reassembling: %v", rec))
					}
				}()
				var err error
				out, err = io.ReadAll(ps2.GetReader())
				if err != nil {
					out = []byte("ERROR while reassembling: " + err.Error())
				}
			}()
		}
		for kd, c := range kinds {
			cs.Count("op/"+kd, c)
		}
		cs.Add(id, fmt.Sprintf("partset/total=%d", total), total >= 2 && nHostile > 0,
			vg.App("CPartSet", vg.Hx(data), vg.Z(int64(sz)), vg.Z(int64(ps.Total())), vg.Hx(ps.Hash()),
				vg.L(partsT), vg.L(opsT), vg.L(resT), vg.B(complete), vg.Hx(out)),
			fmt.Sprintf("data=%x partSize=%d ops(index,proofIndex,proofTotal,bytes)=%s", data, sz, c10OpsDescr(ops)))
	}
	// Concurrent delivery (seed C10f): AddPart is called from one goroutine per peer, so "all
	// orders and repetitions of part delivery" includes several copies of one part arriving
	// together.  Each round releases G identical copies of each chosen part at once on a fresh
	// set built from the header; the ops of a group are identical, so every linearisation gives
	// the same multiset of answers per group (one Added, the rest NotAdded) and the same final
	// set - the case is written with the groups in index order and each group's answers sorted,
	// which is one valid sequential order.  The round written is the first whose answers are
	// not that multiset (a search over schedules for a failing input), else the last one.
	nConc := vg.Scale(16, 300)
	for k := 0; k < nConc; k++ {
		id := cs.NextID()
		if !cs.Want(id) {
			continue
		}
		r := root.Fork(uint64(1<<32 + k))
		sz := []uint32{4, 8, 16}[r.Intn(3)]
		total := 2 + r.Intn(5)
		dl := int(sz)*total - r.Intn(int(sz))
		data := r.Bytes(dl)
		ps := NewPartSetFromData(data, sz)
		total = int(ps.Total())
		var partsT []string
		for i := 0; i < total; i++ {
			partsT = append(partsT, c10Part(ps.GetPart(i)))
		}
		// which parts are delivered: all of them, or all but one (then the set must stay incomplete)
		idxs := r.Perm(total)
		if r.Bool() {
			idxs = idxs[:total-1]
		}
		sort.Ints(idxs)
		const G = 5
		rounds := vg.Scale(150, 600)
		var ops []*Part
		var resT []string
		var ps2 *PartSet
		roundUsed := 0
		for round := 1; round <= rounds; round++ {
			ps2 = NewPartSetFromHeader(ps.Header())
			res := make([][]uint64, len(idxs))
			start := make(chan struct{})
			var wg sync.WaitGroup
			for gi, i := range idxs {
				res[gi] = make([]uint64, G)
				for c := 0; c < G; c++ {
					wg.Add(1)
					go func(gi, i, c int, p *Part) {
						defer wg.Done()
						<-start
						added, err := ps2.AddPart(p)
						code := uint64(1)
						switch {
						case added:
							code = 0
						case err == ErrPartSetUnexpectedIndex:
							code = 2
						case err == ErrPartSetInvalidProof:
							code = 3
						case err != nil:
							code = 9
						}
						res[gi][c] = code
					}(gi, i, c, c10ClonePart(ps.GetPart(i)))
				}
			}
			close(start)
			wg.Wait()
			anomaly := false
			ops, resT = nil, nil
			for gi, i := range idxs {
				sort.Slice(res[gi], func(a, b int) bool { return res[gi][a] < res[gi][b] })
				for c := 0; c < G; c++ {
					ops = append(ops, ps.GetPart(i))
					resT = append(resT, vg.N(res[gi][c]))
					if (c == 0) != (res[gi][c] == 0) || res[gi][c] > 1 {
						anomaly = true
					}
				}
			}
			roundUsed = round
			if anomaly || int(ps2.Count()) != len(idxs) {
				break
			}
		}
		var opsT []string
		for _, p := range ops {
			opsT = append(opsT, c10Part(p))
		}
		complete := ps2.IsComplete()
		var out []byte
		if complete && total > 0 {
			func() {
				defer func() {
					if rec := recover(); rec != nil {
						out = []byte(fmt.Sprintf("PANIC while reassembling: %v", rec))
					}
				}()
				var err error
				out, err = io.ReadAll(ps2.GetReader())
				if err != nil {
					out = []byte("ERROR while reassembling: " + err.Error())
				}
			}()
		}
		cs.Count("op/concurrent-copy", len(ops))
		cs.Add(id, fmt.Sprintf("partset-concurrent/total=%d", total), true,
			vg.App("CPartSet", vg.Hx(data), vg.Z(int64(sz)), vg.Z(int64(ps.Total())), vg.Hx(ps.Hash()),
				vg.L(partsT), vg.L(opsT), vg.L(resT), vg.B(complete), vg.Hx(out)),
			fmt.Sprintf("data=%x partSize=%d CONCURRENT delivery: %d copies of each of the genuine parts %v released together on a fresh set (round %d of %d; answers per part sorted); Count()=%d Total()=%d IsComplete()=%v",
				data, sz, G, idxs, roundUsed, rounds, ps2.Count(), ps2.Total(), complete))
	}
	if err := cs.Write(); err != nil {
		t.Fatal(err)
	}
}

// c10Shape is the left/right path of leaf i in the RFC-6962 tree over t leaves
func c10Shape(i, t int) string {
	if t <= 1 {
		return ""
	}
	k := 1
	for k*2 < t {
		k *= 2
	}
	if i < k {
		return c10Shape(i, k) + "L"
	}
	return c10Shape(i-k, t-k) + "R"
}

func c10OpsDescr(ops []*Part) string {
	s := ""
	for _, p := range ops {
		s += fmt.Sprintf("(%d,%d,%d,%x)", p.Index, p.Proof.Index, p.Proof.Total, []byte(p.Bytes))
	}
	return s
}
