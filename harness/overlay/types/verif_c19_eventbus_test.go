//go:build verif

package types

// C19 correspondence harness for types/event_bus.go: the event map the real EventBus builds
// from ABCI events (validateAndStringifyEvents + the reserved pairs of PublishEventNewBlock /
// PublishEventNewBlockHeader / PublishEventTx) and the delivery to subscribers that follows
// from it. Injected with `go test -overlay`; evaluated by coq/C19/ExecBus.v.
//
// One case = 1-4 clients, each subscribed with its own query (capacity above the number of
// publications, so nobody is cancelled), and 2-7 publications of PRNG-generated ABCI events:
// repeated event types, repeated attribute keys with different values, empty keys / values /
// event types, Index false, composite keys that collide with the reserved ones. Queries are
// aimed at one value of one attribute of one publication (the first, a middle or the last one
// of a repeated key alike): =, CONTAINS, EXISTS, integer ranges. Recorded: what every client
// received, and the event map pub/sub delivered with every publication (Message.Events() of a
// catch-all subscriber).

import (
	"context"
	"fmt"
	"sort"
	"strconv"
	"strings"
	"testing"
	"time"

	abci "github.com/tendermint/tendermint/abci/types"
	vg "github.com/tendermint/tendermint/internal/verifgen"
	"github.com/tendermint/tendermint/libs/log"
	tmquery "github.com/tendermint/tendermint/libs/pubsub/query"
)

type u19Attr struct {
	k, v string
	idx  bool
}
type u19Event struct {
	typ   string
	attrs []u19Attr
}
type u19Pub struct {
	kind   int // 0 NewBlock, 1 NewBlockHeader, 2 Tx
	e1, e2 []u19Event
	tx     []byte
	height int64
}
type u19Cond struct {
	key    string
	op     int // 0 <=, 1 >=, 2 <, 3 >, 4 =, 5 CONTAINS, 6 EXISTS
	isInt  bool
	s      string
	n      int64
	exists bool
}

var u19OpText = []string{"<=", ">=", "<", ">", "=", "CONTAINS", "EXISTS"}
var u19OpCoq = []string{"OpLe", "OpGe", "OpLt", "OpGt", "OpEq", "OpContains", "OpExists"}

func u19S(s string) string {
	if strings.ContainsAny(s, "\"") {
		panic("u19: double quote in a generated string")
	}
	return `"` + s + `"`
}

func (c u19Cond) text() string {
	switch {
	case c.op == 6:
		return c.key + " EXISTS"
	case c.isInt:
		return fmt.Sprintf("%s %s %d", c.key, u19OpText[c.op], c.n)
	}
	return fmt.Sprintf("%s %s '%s'", c.key, u19OpText[c.op], c.s)
}
func (c u19Cond) coq() string {
	arg := "ONone"
	switch {
	case c.op == 6:
	case c.isInt:
		arg = vg.App("OInt", vg.Z(c.n))
	default:
		arg = vg.App("OStr", u19S(c.s))
	}
	return vg.Tup(u19S(c.key), u19OpCoq[c.op], arg)
}

func u19Abci(evs []u19Event) []abci.Event {
	var out []abci.Event
	for _, e := range evs {
		ev := abci.Event{Type: e.typ}
		for _, a := range e.attrs {
			ev.Attributes = append(ev.Attributes, abci.EventAttribute{Key: []byte(a.k), Value: []byte(a.v), Index: a.idx})
		}
		out = append(out, ev)
	}
	return out
}
func u19EventsCoq(evs []u19Event) string {
	var out []string
	for _, e := range evs {
		var as []string
		for _, a := range e.attrs {
			as = append(as, vg.Tup(u19S(a.k), u19S(a.v), vg.B(a.idx)))
		}
		out = append(out, vg.Tup(u19S(e.typ), vg.L(as)))
	}
	return vg.L(out)
}
func u19EventsText(evs []u19Event) string {
	var out []string
	for _, e := range evs {
		var as []string
		for _, a := range e.attrs {
			as = append(as, fmt.Sprintf("%q=%q idx=%v", a.k, a.v, a.idx))
		}
		out = append(out, fmt.Sprintf("%q{%s}", e.typ, strings.Join(as, ", ")))
	}
	return "[" + strings.Join(out, " ") + "]"
}

var u19StrVals = []string{"p", "q", "pq", "qp", ""}

func u19GenEvents(r *vg.Rand, max int) []u19Event {
	var evs []u19Event
	for e := r.Intn(max + 1); e > 0; e-- {
		ev := u19Event{typ: []string{"a", "a", "b"}[r.Intn(3)]} // repeated event types are the rule
		switch {
		case r.Chance(6):
			ev.typ = ""
		case r.Chance(5): // composite keys that collide with the reserved ones
			switch r.Intn(3) {
			case 0:
				ev = u19Event{typ: "tm", attrs: []u19Attr{{k: "event", v: []string{"Tx", "NewBlock", "Foo"}[r.Intn(3)], idx: r.Bool()}}}
			case 1:
				ev = u19Event{typ: "tx", attrs: []u19Attr{{k: "height", v: fmt.Sprintf("%d", r.Intn(9)), idx: r.Bool()}}}
			default:
				ev = u19Event{typ: "tx", attrs: []u19Attr{{k: "hash", v: "AB", idx: r.Bool()}}}
			}
			evs = append(evs, ev)
			continue
		}
		for a := 1 + r.Intn(3); a > 0; a-- {
			at := u19Attr{k: []string{"x", "x", "y"}[r.Intn(3)], idx: !r.Chance(30)}
			if at.k == "x" {
				at.v = fmt.Sprintf("%d", r.Intn(13))
				if r.Chance(6) {
					at.v = "p"
				}
			} else {
				at.v = u19StrVals[r.Intn(len(u19StrVals))]
			}
			if r.Chance(5) {
				at.k = ""
			}
			ev.attrs = append(ev.attrs, at)
		}
		evs = append(evs, ev)
	}
	return evs
}

// a condition aimed at one attribute value of one publication
func u19GenCond(r *vg.Rand, pubs []*u19Pub) u19Cond {
	if r.Chance(12) {
		return u19Cond{key: EventTypeKey, op: 4, s: []string{EventTx, EventNewBlock, EventNewBlockHeader, "Foo"}[r.Intn(4)]}
	}
	if r.Chance(8) {
		return u19Cond{key: TxHeightKey, op: r.Intn(5), isInt: true, n: int64(1 + r.Intn(len(pubs)+1))}
	}
	type kv struct{ k, v string }
	var cands []kv
	p := pubs[r.Intn(len(pubs))]
	for _, evs := range [][]u19Event{p.e1, p.e2} {
		for _, e := range evs {
			for _, a := range e.attrs {
				if e.typ != "" && a.k != "" {
					cands = append(cands, kv{e.typ + "." + a.k, a.v})
				}
			}
		}
	}
	if len(cands) == 0 {
		return u19Cond{key: "a.x", op: 6}
	}
	t := cands[r.Intn(len(cands))]
	if n, err := strconv.ParseInt(t.v, 10, 64); err == nil && n >= 0 && r.Chance(60) {
		return u19Cond{key: t.k, op: r.Intn(5), isInt: true, n: n + int64(r.Intn(3)) - 1 + boolToInt(n == 0)}
	}
	switch r.Intn(10) {
	case 0, 1:
		return u19Cond{key: t.k, op: 6}
	case 2, 3, 4:
		sub := t.v
		if len(sub) > 1 && r.Bool() {
			sub = sub[r.Intn(len(sub)):]
		}
		return u19Cond{key: t.k, op: 5, s: sub}
	}
	return u19Cond{key: t.k, op: 4, s: t.v}
}

func boolToInt(b bool) int64 {
	if b {
		return 1
	}
	return 0
}

func u19Run(qs [][]u19Cond, pubs []*u19Pub) (string, string, bool) {
	bus := NewEventBus()
	bus.SetLogger(log.NewNopLogger())
	if err := bus.Start(); err != nil {
		panic(err)
	}
	ctx := context.Background()
	capacity := len(pubs) + 4
	var subs []Subscription
	var qT, qD []string
	for i, q := range qs {
		var parts, cT []string
		for _, c := range q {
			parts = append(parts, c.text())
			cT = append(cT, c.coq())
		}
		text := strings.Join(parts, " AND ")
		pq, err := tmquery.New(text)
		if err != nil {
			panic(fmt.Sprintf("u19: query %q: %v", text, err))
		}
		s, err := bus.Subscribe(ctx, fmt.Sprintf("c%d", i), pq, capacity)
		if err != nil {
			panic(err)
		}
		subs = append(subs, s)
		qT = append(qT, vg.L(cT))
		qD = append(qD, fmt.Sprintf("c%d: %q", i, text))
	}
	all, err := bus.Subscribe(ctx, "all", tmquery.MustParse(EventTypeKey+" EXISTS"), capacity)
	if err != nil {
		panic(err)
	}
	var pT, pD []string
	for m, p := range pubs {
		p.height = int64(m + 1)
		var err error
		hash := ""
		switch p.kind {
		case 0:
			err = bus.PublishEventNewBlock(EventDataNewBlock{Block: &Block{Header: Header{Height: p.height}},
				ResultBeginBlock: abci.ResponseBeginBlock{Events: u19Abci(p.e1)}, ResultEndBlock: abci.ResponseEndBlock{Events: u19Abci(p.e2)}})
			pD = append(pD, fmt.Sprintf("#%d PublishEventNewBlock(begin=%s end=%s)", m, u19EventsText(p.e1), u19EventsText(p.e2)))
		case 1:
			err = bus.PublishEventNewBlockHeader(EventDataNewBlockHeader{Header: Header{Height: p.height},
				ResultBeginBlock: abci.ResponseBeginBlock{Events: u19Abci(p.e1)}, ResultEndBlock: abci.ResponseEndBlock{Events: u19Abci(p.e2)}})
			pD = append(pD, fmt.Sprintf("#%d PublishEventNewBlockHeader(begin=%s end=%s)", m, u19EventsText(p.e1), u19EventsText(p.e2)))
		default:
			hash = fmt.Sprintf("%X", Tx(p.tx).Hash())
			err = bus.PublishEventTx(EventDataTx{TxResult: abci.TxResult{Height: p.height, Tx: p.tx,
				Result: abci.ResponseDeliverTx{Events: u19Abci(p.e1)}}})
			pD = append(pD, fmt.Sprintf("#%d PublishEventTx(tx=%q height=%d events=%s)", m, p.tx, p.height, u19EventsText(p.e1)))
		}
		if err != nil {
			panic(err)
		}
		pT = append(pT, vg.Tup(vg.N(uint64(p.kind)), u19EventsCoq(p.e1), u19EventsCoq(p.e2), u19S(hash), vg.Z(p.height)))
	}
	// barrier: once the loop takes this command every publication above has been delivered
	bctx, cancel := context.WithTimeout(ctx, 3*time.Second)
	_ = bus.pubsub.PublishWithEvents(bctx, nil, map[string][]string{})
	cancel()

	idOf := func(d interface{}) int {
		switch v := d.(type) {
		case EventDataNewBlock:
			return int(v.Block.Height) - 1
		case EventDataNewBlockHeader:
			return int(v.Header.Height) - 1
		case EventDataTx:
			return int(v.Height) - 1
		}
		return 999999
	}
	nontrivial := false
	var gotT, errT, gotD []string
	for i, s := range subs {
		var got []string
		for {
			select {
			case msg := <-s.Out():
				got = append(got, vg.Nat(idOf(msg.Data())))
				nontrivial = true
				continue
			default:
			}
			break
		}
		e := uint64(0)
		if s.Err() != nil {
			e = 9
		}
		gotT = append(gotT, vg.L(got))
		errT = append(errT, vg.N(e))
		gotD = append(gotD, fmt.Sprintf("c%d received %s err=%v", i, vg.L(got), s.Err()))
	}
	maps := make([]string, len(pubs))
	mapsD := make([]string, len(pubs))
	for i := range maps {
		maps[i], mapsD[i] = "[]", "(not delivered)"
	}
	for {
		select {
		case msg := <-all.Out():
			m := idOf(msg.Data())
			if m < 0 || m >= len(pubs) {
				continue
			}
			var keys []string
			for k := range msg.Events() {
				keys = append(keys, k)
			}
			sort.Strings(keys)
			var kvs []string
			for _, k := range keys {
				var vs []string
				for _, v := range msg.Events()[k] {
					vs = append(vs, u19S(v))
				}
				kvs = append(kvs, vg.Tup(u19S(k), vg.L(vs)))
			}
			maps[m] = vg.L(kvs)
			mapsD[m] = fmt.Sprintf("#%d %v", m, msg.Events())
			continue
		default:
		}
		break
	}
	go func() { defer func() { _ = recover() }(); _ = bus.Stop() }()
	return vg.App("UCase", vg.L(qT), vg.L(pT), vg.L(gotT), vg.L(errT), vg.L(maps)),
		fmt.Sprintf("real EventBus; subscribed (capacity %d): %s; published: %s; received: %s; event maps delivered: %s",
			capacity, strings.Join(qD, ", "), strings.Join(pD, "; "), strings.Join(gotD, "; "), strings.Join(mapsD, "; ")), nontrivial
}

func TestVerifC19EventBus(t *testing.T) {
	cs := vg.NewCases("C19", "c19_eventbus", "TM.C19.ExecBus")
	cs.CaseType = "ucase"
	cs.CheckFn = "ucheck"
	root := vg.NewRand(vg.Seed() ^ 0xe7b5)

	A := func(k, v string) u19Attr { return u19Attr{k: k, v: v, idx: true} }
	// directed: one transaction with three transfer events; subscribers on the first, the
	// middle, the last recipient, on an amount range met only by the middle one, on a value
	// that is not there
	{
		id := cs.NextID()
		if cs.Want(id) {
			evs := []u19Event{
				{typ: "transfer", attrs: []u19Attr{A("to", "alice"), {k: "amount", v: "5", idx: false}}},
				{typ: "", attrs: []u19Attr{A("to", "nobody")}},
				{typ: "transfer", attrs: []u19Attr{A("to", "bob"), A("", "x"), A("amount", "12")}},
				{typ: "transfer", attrs: []u19Attr{A("to", "carol"), A("amount", "7"), A("to", "")}}}
			qs := [][]u19Cond{
				{{key: "transfer.to", op: 4, s: "alice"}}, {{key: "transfer.to", op: 4, s: "bob"}},
				{{key: "transfer.to", op: 4, s: "carol"}, {key: EventTypeKey, op: 4, s: EventTx}},
				{{key: "transfer.amount", op: 3, isInt: true, n: 10}}, {{key: "transfer.to", op: 5, s: "li"}},
				{{key: "transfer.to", op: 4, s: "nobody"}}, {{key: "transfer.to", op: 4, s: ""}}}
			pubs := []*u19Pub{{kind: 2, e1: evs, tx: []byte("t0")}, {kind: 1, e1: evs[:1], e2: evs[2:]}, {kind: 0, e1: evs[3:], e2: evs[:3]},
				{kind: 2, e1: []u19Event{{typ: "tm", attrs: []u19Attr{A("event", "NewBlock")}}, {typ: "tx", attrs: []u19Attr{A("height", "9")}}}, tx: []byte("t1")}}
			term, descr, nt := u19Run(qs, pubs)
			cs.Add(id, "directed_repeated_attribute", nt, term, descr)
		}
	}
	n := vg.Scale(150, 5000)
	for k := 0; k < n; k++ {
		id := cs.NextID()
		if !cs.Want(id) {
			continue
		}
		r := root.Fork(uint64(k))
		var pubs []*u19Pub
		for i, np := 0, 2+r.Intn(6); i < np; i++ {
			p := &u19Pub{kind: r.Intn(3), e1: u19GenEvents(r, 3)}
			if p.kind == 2 {
				p.tx = []byte(fmt.Sprintf("u%d-%d", id, i))
			} else {
				p.e2 = u19GenEvents(r, 2)
			}
			pubs = append(pubs, p)
		}
		var qs [][]u19Cond
		for i, nq := 0, 1+r.Intn(4); i < nq; i++ {
			q := []u19Cond{u19GenCond(r, pubs)}
			if r.Chance(30) {
				q = append(q, u19GenCond(r, pubs))
			}
			qs = append(qs, q)
		}
		term, descr, nt := u19Run(qs, pubs)
		cs.Add(id, "random", nt, term, descr)
	}
	if err := cs.Write(); err != nil {
		t.Fatal(err)
	}
}
