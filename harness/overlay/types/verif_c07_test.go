//go:build verif

package types

// C07 correspondence harness for types/validator_set.go VerifyCommit, VerifyCommitLight and
// VerifyCommitLightTrusting (injected with `go test -overlay`; nothing is written to the repo).
//
// One case = one validator set and a list of runs; a run = one commit (and one trust level)
// handed to the three entry points.  The harness makes every signature itself (real ed25519 over
// the real VoteSignBytes), so for each slot it can tell the Coq side exactly which key signed
// which canonical vote; the model's signature oracle is that table.
//
// Numbering used in the terms and in the replay descriptions:
//   key k        ed25519.GenPrivKeyFromSecret("verif-c07-<k>")
//   address a    0 = empty, 1..P = address of key a-1, >= 1000 = 20 bytes not owned by any key
//   chain        1 "chain-A", 2 "chain-B", 3 ""
//   block id     index into c07Bids (0 = BlockID{}, the nil block)
//   timestamp t  time.Unix(1600000000+t, 0)

import (
	"errors"
	"fmt"
	"math"
	"math/big"
	"strconv"
	"strings"
	"testing"
	"time"

	"github.com/tendermint/tendermint/crypto/ed25519"
	vg "github.com/tendermint/tendermint/internal/verifgen"
	tmmath "github.com/tendermint/tendermint/libs/math"
	tmproto "github.com/tendermint/tendermint/proto/tendermint/types"
)

type c07Key struct {
	priv ed25519.PrivKey
	pub  ed25519.PubKey
	addr Address
}

var c07Keys []c07Key
var c07Chains = []string{"", "chain-A", "chain-B", ""}
var c07Bids []BlockID

func c07Init(pool int) {
	if len(c07Keys) >= pool {
		return
	}
	for i := len(c07Keys); i < pool; i++ {
		p := ed25519.GenPrivKeyFromSecret([]byte(fmt.Sprintf("verif-c07-%d", i)))
		pub := p.PubKey().(ed25519.PubKey)
		c07Keys = append(c07Keys, c07Key{priv: p, pub: pub, addr: pub.Address()})
	}
	if c07Bids == nil {
		h := func(b byte) []byte {
			x := make([]byte, 32)
			for i := range x {
				x[i] = b + byte(i)
			}
			return x
		}
		c07Bids = []BlockID{
			{},
			{Hash: h(1), PartSetHeader: PartSetHeader{Total: 1, Hash: h(101)}},
			{Hash: h(2), PartSetHeader: PartSetHeader{Total: 3, Hash: h(102)}},
			{Hash: h(1), PartSetHeader: PartSetHeader{Total: 2, Hash: h(101)}}, // as 1, other part count
			{Hash: h(1), PartSetHeader: PartSetHeader{Total: 1, Hash: h(102)}}, // as 1, other parts hash
			{Hash: h(3)}, // no part set header
			{PartSetHeader: PartSetHeader{Total: 1, Hash: h(101)}}, // no hash, still not the nil block
		}
	}
}

func c07Time(ts int64) time.Time { return time.Unix(1600000000+ts, 0).UTC() }

func c07Addr(a int64) Address {
	switch {
	case a == 0:
		return nil
	case a >= 1 && int(a) <= len(c07Keys):
		return c07Keys[a-1].addr
	default:
		b := make([]byte, 20)
		for i := range b {
			b[i] = byte(a>>uint(8*(i%4))) ^ byte(0xa5+i)
		}
		return b
	}
}

// the canonical vote a signature is over
type c07Msg struct{ ty, chain, h, r, bid, ts int64 }

func c07SignBytes(m c07Msg) []byte {
	v := &tmproto.Vote{Type: tmproto.SignedMsgType(m.ty), Height: m.h, Round: int32(m.r),
		BlockID: c07Bids[m.bid].ToProto(), Timestamp: c07Time(m.ts)}
	return VoteSignBytes(c07Chains[m.chain], v)
}

type c07SigKey struct {
	k int64
	m c07Msg
}

var c07SigCache = map[c07SigKey][]byte{}

func c07Sign(k int64, m c07Msg) []byte {
	ck := c07SigKey{k, m}
	if s, ok := c07SigCache[ck]; ok {
		return s
	}
	s, err := c07Keys[k].priv.Sign(c07SignBytes(m))
	if err != nil {
		panic(err)
	}
	if len(c07SigCache) < 200000 {
		c07SigCache[ck] = s
	}
	return s
}

// what a slot's signature is: kind 'B' (key k over the run's base, for the block), 'N' (over the
// base, for nil), 'O' (key k over the explicit vote m), 'G' garbage
type c07Desc struct {
	kind byte
	k    int64
	ts   int64
	m    c07Msg
	raw  []byte
}

type c07Slot struct {
	flag, addr, ts int64
	d              c07Desc
}

type c07Base struct{ chain, h, r, bid int64 }

func (d c07Desc) msg(b c07Base) (int64, c07Msg, bool) {
	switch d.kind {
	case 'B':
		return d.k, c07Msg{int64(tmproto.PrecommitType), b.chain, b.h, b.r, b.bid, d.ts}, true
	case 'N':
		return d.k, c07Msg{int64(tmproto.PrecommitType), b.chain, b.h, b.r, 0, d.ts}, true
	case 'O':
		return d.k, d.m, true
	}
	return 0, c07Msg{}, false
}

func (d c07Desc) bytes(b c07Base) []byte {
	if k, m, ok := d.msg(b); ok {
		return c07Sign(k, m)
	}
	return d.raw
}

func (d c07Desc) term() string {
	switch d.kind {
	case 'B':
		return fmt.Sprintf("SB %d %d", d.k, d.ts)
	case 'N':
		return fmt.Sprintf("SN %d %d", d.k, d.ts)
	case 'O':
		return fmt.Sprintf("SO %d %d %d %s %s %d %s", d.k, d.m.ty, d.m.chain, vg.Z(d.m.h), vg.Z(d.m.r), d.m.bid, vg.Z(d.m.ts))
	}
	return "SG"
}

func (d c07Desc) descr() string {
	switch d.kind {
	case 'B':
		return fmt.Sprintf("key%d:block@%d", d.k, d.ts)
	case 'N':
		return fmt.Sprintf("key%d:nil@%d", d.k, d.ts)
	case 'O':
		return fmt.Sprintf("key%d:{type=%d chain=%d h=%d r=%d bid=%d ts=%d}", d.k, d.m.ty, d.m.chain, d.m.h, d.m.r, d.m.bid, d.m.ts)
	}
	return fmt.Sprintf("garbage(%x)", d.raw)
}

// same canonical vote? (block id 0 and the nil block coincide, exactly as in CanonicalizeBlockID)
func c07Good(s c07Slot, b c07Base, key int64, want c07Msg) bool {
	if s.flag != int64(BlockIDFlagCommit) {
		return false
	}
	k, m, ok := s.d.msg(b)
	return ok && k == key && m == want
}

type c07Val struct{ addr, key, power int64 }

type c07Run struct {
	kind               string
	chain, bid, h      int64 // arguments
	ch, cr, cb         int64 // commit
	base               c07Base
	slots              []c07Slot
	num, den           uint64
	resF, resL, resT   string
	okF, okL, okT      bool
	posTally, adrTally *big.Int
}

func c07Res(err error, panicked bool) (string, bool) {
	var e1 ErrInvalidCommitSignatures
	var e2 ErrInvalidCommitHeight
	var e3 ErrNotEnoughVotingPowerSigned
	switch {
	case panicked:
		return vg.Tup(vg.N(5), "0", "0"), false
	case err == nil:
		return vg.Tup(vg.N(0), "0", "0"), true
	case errors.As(err, &e1):
		return vg.Tup(vg.N(1), "0", "0"), false
	case errors.As(err, &e2):
		return vg.Tup(vg.N(2), "0", "0"), false
	case errors.As(err, &e3):
		return vg.Tup(vg.N(3), vg.Z(e3.Got), vg.Z(e3.Needed)), false
	}
	return vg.Tup(vg.N(4), "0", "0"), false
}

func c07Call(f func() error) (res string, ok bool) {
	var err error
	panicked := false
	func() {
		defer func() {
			if r := recover(); r != nil {
				panicked = true
			}
		}()
		err = f()
	}()
	return c07Res(err, panicked)
}

func c07MakeSet(vals []c07Val) *ValidatorSet {
	vs := &ValidatorSet{}
	for _, v := range vals {
		vs.Validators = append(vs.Validators, &Validator{Address: c07Addr(v.addr), PubKey: c07Keys[v.key].pub, VotingPower: v.power})
	}
	return vs
}

func c07GenSet(r *vg.Rand, k int, pool int) ([]c07Val, string) {
	sizes := []int{1, 2, 3, 3, 4, 4, 5, 6, 6, 7, 9, 9, 10, 12, 13, 16, 21, 30, 45, 60}
	if vg.Thorough() {
		sizes = append(sizes, 75, 100, 150, 200)
	}
	n := sizes[r.Intn(len(sizes))]
	if n > pool {
		n = pool
	}
	perm := r.Perm(pool)
	vals := make([]c07Val, n)
	for i := range vals {
		vals[i] = c07Val{addr: int64(perm[i]) + 1, key: int64(perm[i])}
	}
	small := func() int64 { return 1 + r.Int63n(10) }
	dist := ""
	switch k % 9 {
	case 0:
		dist = "equal"
		p := []int64{1, 1, 10, 1000, MaxTotalVotingPower / int64(n)}[r.Intn(5)]
		for i := range vals {
			vals[i].power = p
		}
	case 1:
		dist = "geometric"
		for i := range vals {
			vals[i].power = int64(1) << uint(i%50)
		}
	case 2:
		dist = "whale"
		var s int64
		for i := 1; i < n; i++ {
			vals[i].power = small()
			s += vals[i].power
		}
		vals[0].power = 2*s + int64(r.Intn(3)) - 1
		if vals[0].power < 1 {
			vals[0].power = 1
		}
		j := r.Intn(n)
		vals[0], vals[j] = vals[j], vals[0]
	case 3:
		dist = "saturating" // sum is exactly MaxTotalVotingPower
		for i := range vals {
			vals[i].power = MaxTotalVotingPower / int64(n)
		}
		vals[r.Intn(n)].power += MaxTotalVotingPower % int64(n)
	case 4:
		dist = "small"
		for i := range vals {
			vals[i].power = small()
		}
	case 5:
		dist = "random-large"
		for i := range vals {
			vals[i].power = 1 + r.Int63n(MaxTotalVotingPower/int64(n))
		}
	case 6:
		dist = "with-zeros"
		for i := range vals {
			if r.Chance(30) {
				vals[i].power = 0
			} else {
				vals[i].power = small()
			}
		}
	case 7:
		dist = "thirds" // total = 3p: one validator holds exactly 2p (+-1)
		var s int64
		for i := 1; i < n; i++ {
			vals[i].power = small()
			s += vals[i].power
		}
		if n == 1 {
			vals[0].power = 3
		} else {
			vals[0].power = 2 * s
		}
	default:
		switch r.Intn(4) {
		case 0:
			dist = "odd/over-max" // TotalVotingPower panics
			for i := range vals {
				vals[i].power = MaxTotalVotingPower/int64(n) + 1
			}
		case 1:
			dist = "odd/negative-power"
			for i := range vals {
				vals[i].power = small()
			}
			vals[r.Intn(n)].power = -small()
		case 2:
			dist = "odd/duplicate-address"
			for i := range vals {
				vals[i].power = small()
			}
			if n >= 2 {
				vals[n-1].addr = vals[0].addr
				if r.Bool() {
					vals[n-1].key = vals[0].key
				}
			}
		default:
			dist = "odd/address-of-other-key"
			for i := range vals {
				vals[i].power = small()
			}
			vals[r.Intn(n)].addr = int64(perm[pool-1]) + 1
		}
	}
	return vals, dist
}

var c07Fracs = [][2]uint64{
	{1, 3}, {2, 3}, {1, 1}, {1, 2}, {1, 3}, {0, 1}, {1, 0}, {3, 2}, {99, 100}, {1, 1000000},
	{333333333333, 1000000000000}, {2, 3}, {1, 3},
	{math.MaxInt64, math.MaxInt64}, {math.MaxInt64 / 3, math.MaxInt64}, {1, math.MaxInt64}, {8, 24},
	// beyond int64 (F14): the casts int64(uint64) wrap
	{math.MaxUint64, 1}, {math.MaxUint64, math.MaxUint64}, {1 << 63, 1 << 63}, {1<<63 + 1, 1<<63 + 1},
	{1, 1<<63 + 1}, {6148914691236517205, math.MaxUint64}, {3074457345618258603, 1 << 63},
	{1<<63 + 5, 1<<63 + 6}, {2, math.MaxUint64}, {math.MaxUint64 - 1, 3},
}

// Heights are int64 and rounds int32 in the vote; the canonical vote carries both as sfixed64.
// Base heights/rounds are drawn from the whole range (small, around 2^31 and 2^32, 2^32+h,
// 2^62, MaxInt64; rounds up to MaxInt32, rarely negative), and "another height/round" is not
// only a neighbour but also a value that differs in one high bit or by a power of two, so that
// an encoding that drops or folds bits of either field makes two distinct votes share sign-bytes.
func c07BaseHeight(r *vg.Rand) int64 {
	small := 1 + int64(r.Intn(1000))
	if !r.Chance(35) {
		return small
	}
	switch r.Intn(14) {
	case 0:
		return 1<<31 - 1
	case 1:
		return 1 << 31
	case 2:
		return 1<<32 - 1
	case 3:
		return 1 << 32
	case 4:
		return 1<<32 + small
	case 5:
		return 1<<31 + small
	case 6:
		return 1 << 62
	case 7:
		return math.MaxInt64
	case 8:
		return math.MaxInt64 - small
	case 9:
		return int64(1+r.Intn(1000)) << 32 // low 32 bits zero
	case 10:
		return 1 << uint(r.Intn(63))
	case 11:
		return 1<<uint(8*(1+r.Intn(7))) - 1 // 0xff, 0xffff, ...
	case 12:
		return r.Int63n(math.MaxInt64) + 1
	default:
		return 1<<33 + small
	}
}

func c07BaseRound(r *vg.Rand) int64 {
	if !r.Chance(30) {
		return int64(r.Intn(3))
	}
	switch r.Intn(10) {
	case 0:
		return math.MaxInt32
	case 1:
		return math.MaxInt32 - 1 - int64(r.Intn(3))
	case 2:
		return 1 << 16
	case 3:
		return 1<<16 - 1
	case 4:
		return 1 << 30
	case 5:
		return 1 << uint(r.Intn(31))
	case 6:
		return int64(r.Intn(math.MaxInt32))
	case 7:
		return 255 + int64(r.Intn(3))
	case 8: // never produced by consensus, but nothing in commit verification excludes it
		return []int64{-1, math.MinInt32, -65536}[r.Intn(3)]
	default:
		return int64(3 + r.Intn(100))
	}
}

// a height different from h (int64 arithmetic wraps like the code's)
func c07OtherHeight(r *vg.Rand, h int64) int64 {
	o := h
	switch r.Intn(8) {
	case 0, 1:
		o = h + 1 + int64(r.Intn(2))
	case 2:
		o = h - 1
	case 3, 4:
		d := []int64{1 << 31, 1 << 32, 1 << 33, 1 << 8, 1 << 16, 1 << 24, 1 << 40, 1 << 48, 1 << 56, 1 << 62, 3 << 32}[r.Intn(11)]
		if r.Bool() {
			d = -d
		}
		o = h + d
	case 5, 6:
		o = h ^ (1 << uint(r.Intn(64))) // one bit, incl. the sign
	default:
		o = []int64{-h, h << 32, h >> 32, int64(uint64(h)<<32 | uint64(h)>>32), ^h, 0}[r.Intn(6)]
	}
	if o == h {
		o = h ^ (1 << uint(32+r.Intn(31)))
	}
	return o
}

// a round different from rd, within int32
func c07OtherRound(r *vg.Rand, rd int64) int64 {
	x := int32(rd)
	o := x
	switch r.Intn(8) {
	case 0, 1:
		o = x + 1
	case 2:
		o = x - 1
	case 3, 4:
		d := []int32{1 << 16, 1 << 8, 1 << 24, 1 << 30, math.MinInt32, 1 << 15, 3 << 16}[r.Intn(7)]
		if r.Bool() {
			d = -d
		}
		o = x + d
	case 5, 6:
		o = x ^ int32(uint32(1)<<uint(r.Intn(32)))
	default:
		o = []int32{-x, ^x, x << 16, x >> 16, 0}[r.Intn(5)]
	}
	if o == x {
		o = x ^ int32(1<<uint(16+r.Intn(15)))
	}
	return int64(o)
}

const c07Kinds = 31

func c07GenRun(r *vg.Rand, vals []c07Val, pool int, kind int, fracIdx int) *c07Run {
	n := len(vals)
	pre := int64(tmproto.PrecommitType)
	base := c07Base{chain: 1 + int64(r.Intn(2)), h: c07BaseHeight(r), r: c07BaseRound(r), bid: 1 + int64(r.Intn(len(c07Bids)-1))}
	if kind == 27 {
		base.bid = 0
	}
	run := &c07Run{base: base, chain: base.chain, bid: base.bid, h: base.h, ch: base.h, cr: base.r, cb: base.bid}
	var total int64
	for _, v := range vals {
		total += v.power // (wraps only for the deliberately ill-formed sets)
	}
	needed := total / 3 * 2
	if total >= 0 && total <= MaxTotalVotingPower {
		needed = total * 2 / 3
	}
	// who signs for the block: steer the tally around the 2/3 threshold
	signer := make([]bool, n)
	order := r.Perm(n)
	mode := r.Intn(6)
	if kind == 28 {
		mode = 2
	}
	var tally int64
	crossed := -1
	for _, i := range order {
		switch mode {
		case 0:
			signer[i] = true
		case 1, 2, 5:
			if crossed < 0 {
				signer[i] = true
				tally += vals[i].power
				if tally > needed {
					crossed = i
				}
			} else if mode == 5 {
				signer[i] = r.Bool()
			}
		case 3:
			signer[i] = r.Bool()
		default:
			signer[i] = r.Chance(75)
		}
	}
	if mode == 2 && crossed >= 0 {
		// drop one signer so that the tally lands on or just below the threshold
		signer[crossed] = false
		if r.Bool() {
			for _, i := range order {
				if !signer[i] && i != crossed && tally-vals[crossed].power+vals[i].power <= needed {
					signer[i] = true
					break
				}
			}
		}
	}
	slots := make([]c07Slot, n)
	for i, v := range vals {
		ts := int64(r.Intn(50))
		switch {
		case signer[i]:
			slots[i] = c07Slot{flag: int64(BlockIDFlagCommit), addr: v.addr, ts: ts, d: c07Desc{kind: 'B', k: v.key, ts: ts}}
		case kind == 28 || r.Chance(40):
			slots[i] = c07Slot{flag: int64(BlockIDFlagNil), addr: v.addr, ts: ts, d: c07Desc{kind: 'N', k: v.key, ts: ts}}
		default:
			slots[i] = c07Slot{flag: int64(BlockIDFlagAbsent)}
		}
	}
	pickSlot := func(want func(i int) bool) int {
		for _, i := range r.Perm(len(slots)) {
			if want(i) {
				return i
			}
		}
		if len(slots) == 0 {
			return -1
		}
		return r.Intn(len(slots))
	}
	isSigner := func(i int) bool { return slots[i].flag == int64(BlockIDFlagCommit) }
	isIdle := func(i int) bool { return slots[i].flag != int64(BlockIDFlagCommit) }
	otherMsg := func(s c07Slot, f func(m *c07Msg)) c07Desc {
		m := c07Msg{pre, base.chain, base.h, base.r, base.bid, s.ts}
		f(&m)
		k := s.d.k
		if s.d.kind == 'G' || s.d.kind == 0 {
			k = int64(r.Intn(pool))
		}
		return c07Desc{kind: 'O', k: k, m: m}
	}
	garbage := func(s c07Slot) c07Desc {
		switch r.Intn(4) {
		case 0:
			return c07Desc{kind: 'G', raw: []byte{}}
		case 1: // a genuine signature with one bit flipped
			if k, m, ok := s.d.msg(base); ok {
				g := append([]byte{}, c07Sign(k, m)...)
				g[r.Intn(len(g))] ^= 1 << uint(r.Intn(8))
				return c07Desc{kind: 'G', raw: g}
			}
		}
		return c07Desc{kind: 'G', raw: r.Bytes(64)}
	}
	var mutate func(kind int) string
	mutate = func(kind int) string {
		if len(slots) == 0 {
			return "none"
		}
		switch kind {
		case 1:
			i := pickSlot(isSigner)
			slots[i].flag = int64(BlockIDFlagCommit)
			slots[i].d = garbage(slots[i])
			return "commit-garbage"
		case 2:
			i := pickSlot(isIdle)
			if slots[i].addr == 0 {
				slots[i].addr = vals[i%n].addr
			}
			slots[i].flag = int64(BlockIDFlagNil)
			slots[i].d = garbage(slots[i])
			return "nil-garbage"
		case 3:
			i := pickSlot(isSigner)
			slots[i].d = otherMsg(slots[i], func(m *c07Msg) { m.chain = 1 + (m.chain+int64(r.Intn(2)))%3 }) // 1->2|3, 2->3|1
			return "valid-for-other-chain"
		case 4:
			i := pickSlot(isSigner)
			slots[i].d = otherMsg(slots[i], func(m *c07Msg) { m.h = c07OtherHeight(r, m.h) })
			return "valid-for-other-height"
		case 5:
			i := pickSlot(isSigner)
			slots[i].d = otherMsg(slots[i], func(m *c07Msg) { m.r = c07OtherRound(r, m.r) })
			return "valid-for-other-round"
		case 6:
			i := pickSlot(isSigner)
			slots[i].d = otherMsg(slots[i], func(m *c07Msg) {
				m.bid = (m.bid + 1 + int64(r.Intn(len(c07Bids)-1))) % int64(len(c07Bids))
			})
			return "valid-for-other-block"
		case 7:
			i := pickSlot(isSigner)
			slots[i].d = otherMsg(slots[i], func(m *c07Msg) { m.ty = int64(tmproto.PrevoteType) })
			return "valid-prevote"
		case 8:
			i := pickSlot(isSigner)
			slots[i].d = otherMsg(slots[i], func(m *c07Msg) {
				m.ts += []int64{1, 1, -1, 60, 3600, 86400, 1 << 31, 1 << 32, 1 << 33}[r.Intn(9)]
			})
			return "valid-for-other-timestamp"
		case 9:
			i := pickSlot(isSigner)
			d := slots[i].d
			if d.kind == 'B' || d.kind == 'N' {
				d.k = (d.k + 1 + int64(r.Intn(pool-1))) % int64(pool)
				slots[i].d = d
			}
			return "signed-by-other-key"
		case 10:
			i := pickSlot(isSigner)
			if slots[i].d.kind == 'B' {
				slots[i].d.kind = 'N'
			}
			return "nil-signature-flagged-commit"
		case 11:
			i := pickSlot(isSigner)
			slots[i].flag = int64(BlockIDFlagNil)
			return "commit-signature-flagged-nil"
		case 12:
			i := pickSlot(func(i int) bool { return slots[i].flag != int64(BlockIDFlagAbsent) })
			slots[i].flag = []int64{0, 4, 255}[r.Intn(3)]
			return "unknown-flag"
		case 13:
			i := pickSlot(isSigner)
			slots[i].addr = 1000 + int64(r.Intn(50))
			return "unknown-address"
		case 14:
			i := pickSlot(isSigner)
			slots[i].addr = vals[r.Intn(n)].addr
			return "address-of-other-validator"
		case 15:
			i := pickSlot(isSigner)
			j := r.Intn(len(slots))
			slots[j] = slots[i]
			return "duplicate-slot"
		case 16:
			slots = slots[:len(slots)-1-r.Intn(2)%len(slots)]
			return "shortened"
		case 17:
			if r.Bool() {
				slots = append(slots, c07Slot{flag: int64(BlockIDFlagAbsent)})
			} else {
				slots = append(slots, slots[r.Intn(len(slots))])
			}
			return "padded"
		case 18:
			i, j := r.Intn(len(slots)), r.Intn(len(slots))
			slots[i], slots[j] = slots[j], slots[i]
			return "reordered"
		}
		return "none"
	}
	run.kind = "none"
	switch kind {
	case 0, 28:
		if kind == 28 {
			run.kind = "below-threshold-rest-nil"
		}
	case 19:
		run.chain = 3 - base.chain
		run.kind = "arg-other-chain"
	case 20:
		run.h = c07OtherHeight(r, base.h)
		run.kind = "arg-other-height"
	case 21:
		run.bid = []int64{0, 1, 2, 3, 4, 5, 6}[r.Intn(7)]
		if run.bid == base.bid {
			run.bid = (run.bid + 1) % int64(len(c07Bids))
		}
		run.kind = "arg-other-block"
	case 22:
		run.ch = c07OtherHeight(r, base.h)
		run.h = run.ch
		run.kind = "commit-claims-other-height"
	case 23:
		run.cr = c07OtherRound(r, base.r)
		run.kind = "commit-claims-other-round"
	case 24:
		run.cb = (base.bid + 1 + int64(r.Intn(len(c07Bids)-1))) % int64(len(c07Bids))
		run.bid = run.cb
		run.kind = "commit-claims-other-block"
	case 25, 26:
		// a commit of another validator set: some signers are members of ours, some are not
		m := 1 + r.Intn(2*n+2)
		slots = slots[:0]
		for j := 0; j < m; j++ {
			ts := int64(r.Intn(50))
			var k int64
			if r.Chance(60) {
				k = vals[r.Intn(n)].key
				if kind == 25 { // no repeated member
					dup := false
					for _, s := range slots {
						if s.d.k == k && s.flag == int64(BlockIDFlagCommit) {
							dup = true
						}
					}
					if dup {
						slots = append(slots, c07Slot{flag: int64(BlockIDFlagAbsent)})
						continue
					}
				}
			} else {
				k = int64(r.Intn(pool))
			}
			switch r.Intn(10) {
			case 0:
				slots = append(slots, c07Slot{flag: int64(BlockIDFlagAbsent)})
			case 1:
				slots = append(slots, c07Slot{flag: int64(BlockIDFlagNil), addr: k + 1, ts: ts, d: c07Desc{kind: 'N', k: k, ts: ts}})
			default:
				slots = append(slots, c07Slot{flag: int64(BlockIDFlagCommit), addr: k + 1, ts: ts, d: c07Desc{kind: 'B', k: k, ts: ts}})
			}
		}
		run.kind = "foreign-commit"
		if kind == 26 {
			run.kind = "foreign-commit-with-repeats"
		}
	case 27:
		run.kind = "nil-block-commit"
		if r.Bool() {
			run.kind += "+" + mutate(10)
		}
	case 29, 30:
		a, b := mutate(1+r.Intn(18)), mutate(1+r.Intn(18))
		run.kind = a + "+" + b
	default:
		run.kind = mutate(kind)
	}
	run.slots = slots

	run.reference(vals)
	// trust level
	f := c07Fracs[fracIdx%(len(c07Fracs)+6)%len(c07Fracs)]
	run.num, run.den = f[0], f[1]
	if fracIdx%(len(c07Fracs)+6) >= len(c07Fracs) && total > 0 && total <= MaxTotalVotingPower {
		// boundary: needed = tally + {-1, 0, +1}
		run.den = uint64(total)
		t := run.adrTally.Int64() + int64(fracIdx%3) - 1
		if t < 0 {
			t = 0
		}
		run.num = uint64(t)
	}
	return run
}

// reference tallies (big integers; no int64 arithmetic)
func (run *c07Run) reference(vals []c07Val) {
	pre := int64(tmproto.PrecommitType)
	posMsg := func(ts int64) c07Msg { return c07Msg{pre, run.chain, run.h, run.cr, run.bid, ts} }
	adrMsg := func(ts int64) c07Msg { return c07Msg{pre, run.chain, run.ch, run.cr, run.cb, ts} }
	run.posTally, run.adrTally = new(big.Int), new(big.Int)
	for i, v := range vals {
		if i < len(run.slots) && c07Good(run.slots[i], run.base, v.key, posMsg(run.slots[i].ts)) {
			run.posTally.Add(run.posTally, big.NewInt(v.power))
		}
		for _, s := range run.slots {
			if s.addr == v.addr && c07Good(s, run.base, v.key, adrMsg(s.ts)) {
				run.adrTally.Add(run.adrTally, big.NewInt(v.power))
				break
			}
		}
	}
}

// F14 corner inside the range light.ValidateTrustLevel accepts: the level
// 6148914691236517205/18446744073709551615 (exactly 1/3) has a denominator that converts to
// int64(-1); with total power 1 and only a zero-power member signing, the needed power is
// negative and the commit is accepted with no power behind it.
func c07DirectedF14(vals []c07Val) *c07Run {
	base := c07Base{chain: 1, h: 7, r: 0, bid: 1}
	run := &c07Run{kind: "directed/F14-validated-level-zero-power-signer", base: base,
		chain: 1, bid: 1, h: 7, ch: 7, cr: 0, cb: 1, num: 6148914691236517205, den: math.MaxUint64}
	run.slots = []c07Slot{{flag: int64(BlockIDFlagAbsent)},
		{flag: int64(BlockIDFlagCommit), addr: vals[1].addr, ts: 3, d: c07Desc{kind: 'B', k: vals[1].key, ts: 3}}}
	run.reference(vals)
	return run
}

func (run *c07Run) exec(vs *ValidatorSet) {
	commit := &Commit{Height: run.ch, Round: int32(run.cr), BlockID: c07Bids[run.cb]}
	for _, s := range run.slots {
		cs := CommitSig{BlockIDFlag: BlockIDFlag(s.flag), ValidatorAddress: c07Addr(s.addr)}
		if s.flag != int64(BlockIDFlagAbsent) || s.d.kind != 0 {
			cs.Timestamp = c07Time(s.ts)
			cs.Signature = s.d.bytes(run.base)
		}
		commit.Signatures = append(commit.Signatures, cs)
	}
	chain := c07Chains[run.chain]
	run.resF, run.okF = c07Call(func() error { return vs.VerifyCommit(chain, c07Bids[run.bid], run.h, commit) })
	run.resL, run.okL = c07Call(func() error { return vs.VerifyCommitLight(chain, c07Bids[run.bid], run.h, commit) })
	run.resT, run.okT = c07Call(func() error {
		return vs.VerifyCommitLightTrusting(chain, commit, tmmath.Fraction{Numerator: run.num, Denominator: run.den})
	})
}

func (run *c07Run) term() string {
	var sl []string
	for _, s := range run.slots {
		d := s.d
		if d.kind == 0 {
			d.kind = 'G'
		}
		sl = append(sl, vg.Tup(strconv.FormatInt(s.flag, 10), strconv.FormatInt(s.addr, 10), strconv.FormatInt(s.ts, 10), d.term()))
	}
	i := func(x int64) string { return vg.Z(x) }
	return vg.App("Run", vg.Tup(i(run.chain), i(run.bid), i(run.h)), vg.Tup(i(run.ch), i(run.cr), i(run.cb)),
		vg.Tup(i(run.base.chain), i(run.base.h), i(run.base.r), i(run.base.bid)), vg.L(sl),
		vg.Tup(strconv.FormatUint(run.num, 10), strconv.FormatUint(run.den, 10)), run.resF, run.resL, run.resT)
}

// suspect marks, for the reader of a replay file only (the verdict is computed in Coq), the run
// on which the property's monitors fail
func (run *c07Run) suspect(nvals int, total *big.Int, wf bool) string {
	if !wf {
		return ""
	}
	three := func(x *big.Int) *big.Int { return new(big.Int).Mul(big.NewInt(3), x) }
	two := func(x *big.Int) *big.Int { return new(big.Int).Mul(big.NewInt(2), x) }
	short := nvals != len(run.slots) || three(run.posTally).Cmp(two(total)) <= 0
	out := ""
	if run.okF && short {
		out += " <<< VerifyCommit ACCEPTED WITHOUT +2/3 OF VALID FOR-BLOCK SIGNATURES"
	}
	if run.okL && short {
		out += " <<< VerifyCommitLight ACCEPTED WITHOUT +2/3 OF VALID FOR-BLOCK SIGNATURES"
	}
	if run.okT && run.num <= math.MaxInt64 && run.den <= math.MaxInt64 {
		lhs := new(big.Int).Mul(new(big.Int).SetUint64(run.den), run.adrTally)
		rhs := new(big.Int).Mul(new(big.Int).SetUint64(run.num), total)
		if lhs.Cmp(rhs) <= 0 {
			out += " <<< VerifyCommitLightTrusting ACCEPTED BELOW THE TRUST LEVEL"
		}
	}
	return out
}

func (run *c07Run) descr(j int, total *big.Int) string {
	var sb strings.Builder
	absent := 0
	for i, s := range run.slots {
		if s.flag == int64(BlockIDFlagAbsent) && s.d.kind == 0 {
			absent++
			continue
		}
		fmt.Fprintf(&sb, " %d:(flag=%d addr=%d ts=%d sig=%s)", i, s.flag, s.addr, s.ts, s.d.descr())
	}
	return fmt.Sprintf("run %d [%s]: args(chain=%d bid=%d h=%d) Commit{Height:%d Round:%d BlockID:%d} honest-signers-signed(chain=%d h=%d r=%d bid=%d) %d slots, %d absent, others:%s trustLevel=%d/%d => VerifyCommit=%s VerifyCommitLight=%s VerifyCommitLightTrusting=%s (class,Got,Needed; 0=accepted) | reference: power of valid for-block signatures by position=%s, by distinct member address=%s, total=%s",
		j, run.kind, run.chain, run.bid, run.h, run.ch, run.cr, run.cb, run.base.chain, run.base.h, run.base.r, run.base.bid,
		len(run.slots), absent, sb.String(), run.num, run.den, run.resF, run.resL, run.resT, run.posTally, run.adrTally, total)
}

func wfNow(vals []c07Val, total *big.Int) bool {
	for _, v := range vals {
		if v.power < 0 {
			return false
		}
	}
	return total.Cmp(big.NewInt(MaxTotalVotingPower)) <= 0
}

func TestVerifC07Commit(t *testing.T) {
	root := vg.NewRand(vg.Seed() ^ 0xc07)
	cs := vg.NewCases("C07", "c07_commit", "TM.C07.Exec")
	pool := 80
	if vg.Thorough() {
		pool = 260
	}
	c07Init(pool)
	nSets := vg.Scale(300, 8000)
	runsPer := 12
	var f14Runs, f14BelowLevel, f14BelowLevelValidated int
	for k := 0; k < nSets; k++ {
		id := cs.NextID()
		if !cs.Want(id) {
			continue
		}
		r := root.Fork(uint64(k))
		vals, dist := c07GenSet(r, k, pool)
		vs := c07MakeSet(vals)
		total := new(big.Int)
		wf := true
		var valsT, valsD []string
		for _, v := range vals {
			total.Add(total, big.NewInt(v.power))
			if v.power < 0 {
				wf = false
			}
			valsT = append(valsT, vg.Tup(vg.Z(v.addr), vg.Z(v.key), vg.Z(v.power)))
			valsD = append(valsD, fmt.Sprintf("(%d,%d,%d)", v.addr, v.key, v.power))
		}
		if total.Cmp(big.NewInt(MaxTotalVotingPower)) > 0 {
			wf = false
		}
		var runsT, runsD []string
		nontrivial := false
		nRuns := runsPer
		if k == 0 { // directed set for the F14 corner: total power 1, one zero-power member
			vals, dist = []c07Val{{addr: 1, key: 0, power: 1}, {addr: 2, key: 1, power: 0}}, "directed/F14"
			vs = c07MakeSet(vals)
			total.SetInt64(1)
			valsT = []string{vg.Tup("1", "0", "1"), vg.Tup("2", "1", "0")}
			valsD = []string{"(1,0,1)", "(2,1,0)"}
			nRuns++
		}
		// Seed C07f: a validator set that arrives over the wire (light blocks, evidence, the state
		// store) carries a total_voting_power field that no hash covers.  One set in four is
		// taken through ToProto / ValidatorSetFromProto with that field forged; whatever the
		// field says, the decoded set must verify commits exactly like the set it encodes (the
		// model's total is the sum of the members' powers).  A set the decoder refuses is used as built.
		if wf && k > 0 && r.Chance(25) {
			enc := c07MakeSet(vals)
			enc.Proposer = enc.Validators[0]
			if pb, err := enc.ToProto(); err == nil && pb != nil {
				forged := []int64{1, total.Int64() / 4, total.Int64() / 2, total.Int64() - 1, total.Int64() + 1, MaxTotalVotingPower}[r.Intn(6)]
				pb.TotalVotingPower = forged
				if dec, err := ValidatorSetFromProto(pb); err == nil && dec != nil && len(dec.Validators) == len(vals) {
					vs = dec
					dist += fmt.Sprintf("+via-proto(total_voting_power field forged to %d, real sum %s)", forged, total)
					cs.Count("set/via-forged-proto", 1)
				}
			}
		}
		for j := 0; j < nRuns; j++ {
			g := k*runsPer + j
			var run *c07Run
			if j == runsPer {
				run = c07DirectedF14(vals)
			} else {
				run = c07GenRun(r.Fork(uint64(1000+j)), vals, pool, g%c07Kinds, g/2)
			}
			run.exec(vs)
			runsT = append(runsT, run.term())
			runsD = append(runsD, run.descr(j, total)+run.suspect(len(vals), total, wfNow(vals, total)))
			cs.Count("run/"+run.kind, 1)
			cs.Count(fmt.Sprintf("verdicts/full=%v,light=%v,trusting=%v", run.okF, run.okL, run.okT), 1)
			if run.kind != "none" && len(vals) >= 2 {
				nontrivial = true
			}
			// F14: fractions beyond int64 evaluated on the real code
			if run.num > math.MaxInt64 || run.den > math.MaxInt64 {
				f14Runs++
				if run.okT && wf {
					lhs := new(big.Int).Mul(new(big.Int).SetUint64(run.den), run.adrTally)
					rhs := new(big.Int).Mul(new(big.Int).SetUint64(run.num), total)
					if lhs.Cmp(rhs) <= 0 {
						f14BelowLevel++
						lvlOK := !(run.num*3 < run.den || run.num > run.den || run.den == 0) // light.ValidateTrustLevel
						if lvlOK {
							f14BelowLevelValidated++
						}
						cs.Count(fmt.Sprintf("F14/accepted-below-level/%d/%d", run.num, run.den), 1)
					}
				}
			}
		}
		cs.Add(id, fmt.Sprintf("set/%s", dist), nontrivial,
			vg.App("CSet", vg.L(valsT), vg.L(runsT)),
			fmt.Sprintf("validators(addr,key,power)=[%s] ; %s", strings.Join(valsD, " "), strings.Join(runsD, " ;; ")))
	}
	cs.Notes = append(cs.Notes,
		"keys: ed25519.GenPrivKeyFromSecret(\"verif-c07-<k>\"); address a in 1..pool = address of key a-1, 0 = empty, >=1000 = unowned; chains 1=\"chain-A\" 2=\"chain-B\" 3=\"\"; block ids index c07Bids (0 = BlockID{}); timestamp t = time.Unix(1600000000+t,0)",
		fmt.Sprintf("F14 probe: %d runs with a trust-level numerator or denominator above MaxInt64; VerifyCommitLightTrusting accepted below the stated level in %d of them (%d with a level that light.ValidateTrustLevel accepts)", f14Runs, f14BelowLevel, f14BelowLevelValidated))
	if err := cs.Write(); err != nil {
		t.Fatal(err)
	}
}
