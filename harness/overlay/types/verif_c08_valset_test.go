//go:build verif

package types

// C08 correspondence harness for types/validator_set.go (injected with `go test -overlay`):
// update batches in several orders, NewValidatorSet, proposer rotation.

import (
	"bytes"
	"fmt"
	"testing"

	vg "github.com/tendermint/tendermint/internal/verifgen"
)

func c08Val(v *Validator) string {
	return vg.Tup(vg.Hx(v.Address), vg.Z(v.VotingPower), vg.Z(v.ProposerPriority))
}

func c08Vals(vs []*Validator) string {
	xs := make([]string, len(vs))
	for i, v := range vs {
		xs[i] = c08Val(v)
	}
	return vg.L(xs)
}

func c08Descr(vs []*Validator) string {
	s := "["
	for i, v := range vs {
		if i > 0 {
			s += " "
		}
		s += fmt.Sprintf("%x:%d/%d", []byte(v.Address), v.VotingPower, v.ProposerPriority)
	}
	return s + "]"
}

func c08Copy(vs []*Validator) []*Validator {
	out := make([]*Validator, len(vs))
	for i, v := range vs {
		out[i] = &Validator{Address: append(Address{}, v.Address...), VotingPower: v.VotingPower,
			ProposerPriority: v.ProposerPriority}
	}
	return out
}

// a set object holding exactly these validators (cached total recomputed lazily, no proposer)
func c08Build(vs []*Validator) *ValidatorSet { return &ValidatorSet{Validators: c08Copy(vs)} }

func c08Update(vs *ValidatorSet, batch []*Validator) (code uint64) {
	defer func() {
		if r := recover(); r != nil {
			code = 9
		}
	}()
	err := vs.UpdateWithChangeSet(c08Copy(batch))
	switch {
	case err == nil:
		return 0
	case err == ErrTotalVotingPowerOverflow:
		return 1
	default:
		return 2
	}
}

func c08New(valz []*Validator) (vs *ValidatorSet, code uint64) {
	defer func() {
		if r := recover(); r != nil {
			vs, code = nil, 9
		}
	}()
	return NewValidatorSet(c08Copy(valz)), 0
}

func c08Ipp(vs *ValidatorSet, times int32) (code uint64) {
	defer func() {
		if r := recover(); r != nil {
			code = 9
		}
	}()
	vs.IncrementProposerPriority(times)
	return 0
}

func c08PropIdx(vs *ValidatorSet) uint64 {
	if vs.Proposer == nil {
		return 99999
	}
	for i, v := range vs.Validators {
		if bytes.Equal(v.Address, vs.Proposer.Address) {
			return uint64(i)
		}
	}
	return 99999
}

// address pool of a case: distinct, mostly short (cheap Coq terms), sharing prefixes so that the
// lexicographic comparison matters; sometimes 20 bytes like real addresses
func c08Pool(r *vg.Rand, n int) []Address {
	seen := map[string]bool{}
	var pool []Address
	for len(pool) < n {
		var a []byte
		switch r.Intn(8) {
		case 0:
			a = r.Bytes(20)
		case 1, 2:
			a = []byte{byte(1 + r.Intn(3)), byte(r.Intn(4))}
		case 3:
			a = []byte{byte(1 + r.Intn(3)), byte(r.Intn(3)), byte(r.Intn(2))}
		default:
			a = []byte{byte(1 + r.Intn(250))}
		}
		if !seen[string(a)] {
			seen[string(a)] = true
			pool = append(pool, a)
		}
	}
	return pool
}

func c08Power(r *vg.Rand) int64 {
	switch r.Intn(10) {
	case 0:
		return MaxTotalVotingPower / int64(1+r.Intn(6))
	case 1:
		return MaxTotalVotingPower/8 - int64(r.Intn(3))
	case 2, 3:
		return 1 + r.Int63n(1000000)
	case 4:
		return 1
	default:
		return 1 + r.Int63n(12)
	}
}

// a set reached by the code itself: NewValidatorSet, then a few batches / increments
func c08Reach(r *vg.Rand, pool []Address) *ValidatorSet {
	for {
		n := 1 + r.Intn(5)
		if n > len(pool) {
			n = len(pool)
		}
		var valz []*Validator
		for _, i := range r.Perm(len(pool))[:n] {
			valz = append(valz, &Validator{Address: pool[i], VotingPower: c08Power(r)})
		}
		if r.Chance(30) { // moderate powers only: long rotations stay interesting
			for _, v := range valz {
				v.VotingPower = 1 + r.Int63n(9)
			}
		}
		vs, code := c08New(valz)
		if code != 0 {
			continue
		}
		for s := r.Intn(4); s > 0; s-- {
			if r.Bool() {
				c08Ipp(vs, int32(1+r.Intn(4)))
			} else {
				c08Update(vs, c08Batch(r, pool, vs.Validators, false))
			}
		}
		return vs
	}
}

// a batch of changes, mostly valid
func c08Batch(r *vg.Rand, pool []Address, cur []*Validator, hostile bool) []*Validator {
	var total int64
	for _, v := range cur {
		total += v.VotingPower
	}
	n := 1 + r.Intn(4)
	if r.Chance(10) {
		n = 5 + r.Intn(2)
	}
	var batch []*Validator
	used := map[string]bool{}
	for len(batch) < n {
		var a Address
		if len(cur) > 0 && r.Chance(55) {
			a = cur[r.Intn(len(cur))].Address
		} else {
			a = pool[r.Intn(len(pool))]
		}
		if used[string(a)] && !(hostile && r.Chance(25)) {
			if len(used) >= len(pool) {
				break
			}
			continue
		}
		used[string(a)] = true
		var p int64
		switch r.Intn(12) {
		case 0, 1, 2:
			p = 0
		case 3:
			p = MaxTotalVotingPower - total + int64(r.Intn(3)) - 1 // around the limit
			if p < 0 {
				p = 1
			}
		default:
			p = c08Power(r)
		}
		if hostile {
			switch r.Intn(14) {
			case 0:
				p = -1 - r.Int63n(5)
			case 1:
				p = MaxTotalVotingPower + 1 + r.Int63n(3)
			case 2:
				a = Address{} // empty address
			}
		}
		batch = append(batch, &Validator{Address: a, VotingPower: p})
	}
	return batch
}

// ---- wide batches: 8..12 validators join at once and take the total close to
// MaxTotalVotingPower.  All of them enter at -1.125 * total, so the sum of the priorities to be
// centred is far below MinInt64 (the code sums in big.Int), and the spread is near the window.

// distinct one-byte addresses (cheap Coq terms), a few two-byte ones sharing a prefix
func c08WidePool(r *vg.Rand, n int) []Address {
	var pool []Address
	for _, i := range r.Perm(200)[:n] {
		a := Address{byte(1 + i)}
		if r.Chance(15) {
			a = Address{byte(1 + i), byte(r.Intn(3))}
		}
		pool = append(pool, a)
	}
	return pool
}

// a small set reached by the code: NewValidatorSet of 1..4 validators, then a few increments
func c08ReachSmall(r *vg.Rand, pool []Address) *ValidatorSet {
	n := 1 + r.Intn(4)
	var valz []*Validator
	style := r.Intn(4)
	for _, i := range r.Perm(len(pool))[:n] {
		var p int64
		switch style {
		case 0:
			p = 1 + r.Int63n(12)
		case 1:
			p = 1 + r.Int63n(1000000)
		case 2:
			p = MaxTotalVotingPower/int64(16+r.Intn(16)) - int64(r.Intn(3))
		default:
			p = c08Power(r)
			if p > MaxTotalVotingPower/16 {
				p = MaxTotalVotingPower / 16
			}
		}
		valz = append(valz, &Validator{Address: pool[i], VotingPower: p})
	}
	vs, _ := c08New(valz)
	for s := r.Intn(4); s > 0; s-- {
		c08Ipp(vs, int32(1+r.Intn(4)))
	}
	return vs
}

// split `target` over m newcomers (all powers >= 1 when target >= m)
func c08Split(r *vg.Rand, target int64, m int) []int64 {
	out := make([]int64, m)
	switch r.Intn(3) {
	case 0: // equal shares, the remainder on one
		for i := range out {
			out[i] = target / int64(m)
		}
		out[r.Intn(m)] += target % int64(m)
	case 1: // weights 1..4
		w := make([]int64, m)
		var sw int64
		for i := range w {
			w[i] = 1 + int64(r.Intn(4))
			sw += w[i]
		}
		var used int64
		for i := range out {
			out[i] = target / sw * w[i]
			used += out[i]
		}
		out[r.Intn(m)] += target - used
	default: // one large, the others equal and small or medium
		small := []int64{1, 1000, target / int64(4*m)}[r.Intn(3)]
		if small < 1 {
			small = 1
		}
		for i := range out {
			out[i] = small
		}
		out[r.Intn(m)] = target - small*int64(m-1)
	}
	return out
}

func c08WideBatch(r *vg.Rand, pool []Address, cur []*Validator) ([]*Validator, string) {
	var total int64
	have := map[string]bool{}
	for _, v := range cur {
		total += v.VotingPower
		have[string(v.Address)] = true
	}
	var free []Address
	for _, a := range pool {
		if !have[string(a)] {
			free = append(free, a)
		}
	}
	m := 8 + r.Intn(5)
	if m > len(free) {
		m = len(free)
	}
	var batch []*Validator
	kind := ""
	// members that change or leave in the same batch
	if len(cur) > 1 && r.Chance(35) {
		v := cur[r.Intn(len(cur))]
		if r.Bool() {
			batch = append(batch, &Validator{Address: v.Address, VotingPower: 0})
			total -= v.VotingPower
			kind = "+removal"
		} else {
			np := 1 + r.Int63n(v.VotingPower+5)
			batch = append(batch, &Validator{Address: v.Address, VotingPower: np})
			total += np - v.VotingPower
			kind = "+change"
		}
	}
	room := MaxTotalVotingPower - total
	var target int64
	switch r.Intn(8) {
	case 0, 1:
		target, kind = room, "to-the-limit"+kind
	case 2:
		target, kind = room-int64(1+r.Intn(3)), "just-below-the-limit"+kind
	case 3:
		target, kind = room+int64(1+r.Intn(2)), "over-the-limit"+kind
	case 4:
		target, kind = room/2+r.Int63n(room/2), "upper-half"+kind
	case 5:
		target, kind = int64(m)*(1+r.Int63n(1000)), "small"+kind
	default:
		target, kind = room-r.Int63n(room/8+1), "near-the-limit"+kind
	}
	if target < int64(m) {
		target = int64(m)
	}
	for i, p := range c08Split(r, target, m) {
		batch = append(batch, &Validator{Address: free[i], VotingPower: p})
	}
	// batch order: shuffled
	out := make([]*Validator, len(batch))
	for i, j := range r.Perm(len(batch)) {
		out[i] = batch[j]
	}
	return out, kind
}

func c08Perms(r *vg.Rand, n int) [][]int {
	if n <= 1 {
		return nil
	}
	if n <= 3 {
		var out [][]int
		var rec func(p []int, rest []int)
		rec = func(p []int, rest []int) {
			if len(rest) == 0 {
				out = append(out, append([]int{}, p...))
				return
			}
			for i := range rest {
				nr := append(append([]int{}, rest[:i]...), rest[i+1:]...)
				rec(append(p, rest[i]), nr)
			}
		}
		idx := make([]int, n)
		for i := range idx {
			idx[i] = i
		}
		rec(nil, idx)
		return out[1:] // without the identity
	}
	var out [][]int
	for k := 0; k < 4; k++ {
		out = append(out, r.Perm(n))
	}
	rev := make([]int, n)
	for i := range rev {
		rev[i] = n - 1 - i
	}
	return append(out, rev)
}

func c08Permute(b []*Validator, p []int) []*Validator {
	out := make([]*Validator, len(p))
	for i, j := range p {
		out[i] = b[j]
	}
	return out
}

func TestVerifC08Update(t *testing.T) {
	root := vg.NewRand(vg.Seed() ^ 0xc08a)
	cs := vg.NewCases("C08", "c08_update", "TM.C08.Exec")
	n := vg.Scale(200, 20000)
	for k := 0; k < n; k++ {
		id := cs.NextID()
		if !cs.Want(id) {
			continue
		}
		r := root.Fork(uint64(k))
		pool := c08Pool(r, 4+r.Intn(5))
		vs := c08Reach(r, pool)
		snap := c08Copy(vs.Validators)
		kind := "valid"
		var batch []*Validator
		wide := k%8 == 5
		if wide {
			pool = c08WidePool(r, 14+r.Intn(6))
			vs = c08ReachSmall(r, pool)
			snap = c08Copy(vs.Validators)
			var wk string
			batch, wk = c08WideBatch(r, pool, snap)
			kind = "wide-join/" + wk
		}
		switch d := r.Intn(20); {
		case wide:
		case d == 0:
			kind = "remove-all"
			for _, v := range snap {
				batch = append(batch, &Validator{Address: v.Address, VotingPower: 0})
			}
		case d == 1:
			kind = "replace-all"
			for _, v := range snap {
				batch = append(batch, &Validator{Address: v.Address, VotingPower: 0})
			}
			batch = append(batch, &Validator{Address: []byte{0xfe, 0xfe}, VotingPower: c08Power(r)})
		case d == 2:
			kind = "big-leaves-small-joins" // the transient where rescaling fires on later rounds
			batch = append(batch, &Validator{Address: snap[0].Address, VotingPower: 0},
				&Validator{Address: []byte{0xfd, 0x01}, VotingPower: 1 + r.Int63n(3)})
		case d == 3:
			kind = "empty-batch"
		case d == 4:
			kind = "overflow-by-one"
			var total int64
			for _, v := range snap {
				total += v.VotingPower
			}
			batch = append(batch, &Validator{Address: []byte{0xfc}, VotingPower: MaxTotalVotingPower - total + int64(r.Intn(2))})
			if r.Bool() && len(snap) > 1 { // a removal making room
				batch = append(batch, &Validator{Address: snap[len(snap)-1].Address, VotingPower: 0})
			}
		case d == 5 || d == 6:
			// tiny powers, a few elections, then the heaviest validator leaves (or shrinks to 1):
			// the total drops, the priority window (2 * total) is a small number, and the spread
			// of the priorities is often an exact multiple of it — the boundary of the rescaling
			// ratio (ceiling division)
			kind = "tiny-powers-heavy-leaves"
			scale := []int64{1, 1, 7, 1000}[r.Intn(4)] // tiny numbers hit exact multiples, larger ones hit the truncation of the division
			for attempt := 0; attempt < 40; attempt++ {
				nv := 2 + r.Intn(3)
				var vals []*Validator
				heavy, hp := 0, int64(0)
				for i := 0; i < nv; i++ {
					pw := 1 + r.Int63n(3*scale)
					if i == nv-1 || r.Chance(25) {
						pw = 4*scale + r.Int63n(9*scale)
					}
					if pw > hp {
						heavy, hp = i, pw
					}
					vals = append(vals, &Validator{Address: pool[i%len(pool)], VotingPower: pw})
				}
				tiny := NewValidatorSet(vals)
				for i := r.Intn(12); i > 0; i-- {
					tiny.IncrementProposerPriority(1)
				}
				snap = c08Copy(tiny.Validators)
				np := int64(0)
				if r.Chance(30) {
					np = 1
				}
				batch = []*Validator{{Address: vals[heavy].Address, VotingPower: np}}
				// spread of the priorities that survive against the new window 2 * P'
				var lo, hi, newTotal int64
				first := true
				for _, v := range snap {
					pw := v.VotingPower
					if string(v.Address) == string(vals[heavy].Address) {
						pw = np
					}
					if pw == 0 {
						continue
					}
					newTotal += pw
					if first || v.ProposerPriority < lo {
						lo = v.ProposerPriority
					}
					if first || v.ProposerPriority > hi {
						hi = v.ProposerPriority
					}
					first = false
				}
				if w := 2 * newTotal; w > 0 && hi-lo > w && (hi-lo)%w == 0 {
					kind = "tiny-powers-heavy-leaves/spread-multiple-of-window"
					break
				} else if w > 0 && hi-lo > w && scale > 1 {
					kind = "heavy-leaves/rescaling-fires"
					break
				}
				if attempt >= 20 && r.Chance(30) {
					break
				}
			}
		case d <= 9:
			kind = "hostile"
			batch = c08Batch(r, pool, snap, true)
		default:
			batch = c08Batch(r, pool, snap, false)
		}
		obj := c08Build(snap)
		code := c08Update(obj, batch)
		after := c08Copy(obj.Validators)
		var permsT []string
		descrP := ""
		for _, p := range c08Perms(r, len(batch)) {
			o2 := c08Build(snap)
			c2 := c08Update(o2, c08Permute(batch, p))
			permsT = append(permsT, vg.Tup(vg.N(c2), c08Vals(o2.Validators)))
			descrP += fmt.Sprint(p)
		}
		cs.Add(id, fmt.Sprintf("update/%s/res=%d", kind, code), len(snap) >= 2 && len(batch) >= 1,
			vg.App("CUpdate", c08Vals(snap), c08Vals(batch), vg.N(code), c08Vals(after), vg.L(permsT)),
			fmt.Sprintf("set(addr:power/prio)=%s UpdateWithChangeSet(addr:power)=%s result=%d after=%s; also in orders %s",
				c08Descr(snap), c08Descr(batch), code, c08Descr(after), descrP))
	}
	if err := cs.Write(); err != nil {
		t.Fatal(err)
	}
}

func TestVerifC08New(t *testing.T) {
	root := vg.NewRand(vg.Seed() ^ 0xc08b)
	cs := vg.NewCases("C08", "c08_new", "TM.C08.Exec")
	n := vg.Scale(40, 4000)
	for k := 0; k < n; k++ {
		id := cs.NextID()
		if !cs.Want(id) {
			continue
		}
		r := root.Fork(uint64(k))
		pool := c08Pool(r, 6)
		var valz []*Validator
		kind := "valid"
		if k%5 == 3 {
			var wk string
			valz, wk = c08WideBatch(r, c08WidePool(r, 14), nil)
			kind = "wide/" + wk
		} else if r.Chance(20) {
			kind = "hostile"
			valz = c08Batch(r, pool, nil, true)
		} else {
			for _, i := range r.Perm(len(pool))[:r.Intn(6)] {
				valz = append(valz, &Validator{Address: pool[i], VotingPower: c08Power(r)})
			}
			if r.Chance(30) {
				for _, v := range valz { // equal powers: order decided by address
					v.VotingPower = 7
				}
			}
		}
		vs, code := c08New(valz)
		var after []*Validator
		prop := "None"
		if vs != nil {
			after = c08Copy(vs.Validators)
			if vs.Proposer != nil {
				prop = "(Some " + c08Val(vs.Proposer) + ")"
			}
		}
		var permsT []string
		for _, p := range c08Perms(r, len(valz)) {
			v2, c2 := c08New(c08Permute(valz, p))
			var a2 []*Validator
			if v2 != nil {
				a2 = v2.Validators
			}
			permsT = append(permsT, vg.Tup(vg.N(c2), c08Vals(a2)))
		}
		cs.Add(id, fmt.Sprintf("new/%s/res=%d", kind, code), len(valz) >= 2,
			vg.App("CNew", c08Vals(valz), vg.N(code), c08Vals(after), prop, vg.L(permsT)),
			fmt.Sprintf("NewValidatorSet(addr:power)=%s result=%d after=%s", c08Descr(valz), code, c08Descr(after)))
	}
	if err := cs.Write(); err != nil {
		t.Fatal(err)
	}
}

func TestVerifC08Rounds(t *testing.T) {
	root := vg.NewRand(vg.Seed() ^ 0xc08c)
	cs := vg.NewCases("C08", "c08_rounds", "TM.C08.Exec")
	n := vg.Scale(90, 9000)
	for k := 0; k < n; k++ {
		id := cs.NextID()
		if !cs.Want(id) {
			continue
		}
		r := root.Fork(uint64(k))
		pool := c08Pool(r, 7)
		fresh := k%3 == 0
		var vs *ValidatorSet
		var start []*Validator
		rounds := 0
		kind := ""
		if fresh {
			// static set from zero priorities, small total: the specification's claim [R2]
			kind = "fresh"
			nv := 1 + r.Intn(5)
			var valz []*Validator
			var total int64
			for _, i := range r.Perm(len(pool))[:nv] {
				p := 1 + r.Int63n(9)
				if r.Chance(20) {
					p = 1
				}
				total += p
				valz = append(valz, &Validator{Address: pool[i], VotingPower: p})
			}
			start = c08Copy(valz)
			vs, _ = c08New(valz)
			rounds = int(2*total) + 3
			if r.Chance(15) { // huge powers: bounds, not windows
				for _, v := range valz {
					v.VotingPower = MaxTotalVotingPower / int64(nv+r.Intn(3))
				}
				start = c08Copy(valz)
				vs, _ = c08New(valz)
				rounds = 40
				kind = "fresh-huge"
			}
			if k%9 == 6 { // 8..12 validators sharing (almost) MaxTotalVotingPower
				valz, _ = c08WideBatch(r, c08WidePool(r, 14), nil)
				start = c08Copy(valz)
				vs, _ = c08New(valz)
				for try := 0; vs == nil && try < 64; try++ { // over the limit: NewValidatorSet panics; shrink the largest
					big := valz[0]
					for _, v := range valz {
						if v.VotingPower > big.VotingPower {
							big = v
						}
					}
					big.VotingPower -= 2 << uint(try/4)
					if big.VotingPower < 1 {
						big.VotingPower = 1
					}
					start = c08Copy(valz)
					vs, _ = c08New(valz)
				}
				rounds = 30
				kind = "fresh-wide"
			}
		} else {
			kind = "reached"
			vs = c08Reach(r, pool)
			if k%9 == 7 || k%9 == 2 {
				// a small set that 8..12 validators have just joined, total near the limit
				kind = "reached/wide-join"
				wp := c08WidePool(r, 16)
				vs = c08ReachSmall(r, wp)
				b, _ := c08WideBatch(r, wp, vs.Validators)
				c08Update(vs, b)
			} else if r.Chance(50) && len(vs.Validators) >= 2 {
				// directed (F1 class): the largest validator leaves, a small one joins; the
				// following rounds rescale again and again
				kind = "reached/big-leaves"
				c08Update(vs, []*Validator{{Address: vs.Validators[0].Address, VotingPower: 0},
					{Address: []byte{0xfd, byte(r.Intn(3))}, VotingPower: 1 + r.Int63n(3)}})
			}
			start = c08Copy(vs.Validators)
			vs = c08Build(start)
			rounds = 10 + r.Intn(vg.Scale(70, 400))
		}
		if vs == nil {
			continue
		}
		var props []string
		if fresh {
			props = append(props, vg.N(c08PropIdx(vs)))
		}
		for len(props) < rounds {
			if c08Ipp(vs, 1) != 0 {
				props = append(props, vg.N(88888))
				break
			}
			props = append(props, vg.N(c08PropIdx(vs)))
		}
		final := c08Copy(vs.Validators)
		times := int32(2 + r.Intn(9))
		if r.Chance(10) {
			times = int32(r.Intn(2)) - 1 // 0 or -1: must panic
		}
		single := vg.Tup(vg.N(0), "[]", vg.N(0))
		if !fresh {
			o2 := c08Build(start)
			c2 := c08Ipp(o2, times)
			single = vg.Tup(vg.N(c2), c08Vals(o2.Validators), vg.N(c08PropIdx(o2)))
		}
		cs.Add(id, "rounds/"+kind, len(start) >= 2,
			vg.App("CRounds", vg.B(fresh), c08Vals(start), vg.N(uint64(len(props))), vg.L(props), c08Vals(final),
				vg.Z(int64(times)), single),
			fmt.Sprintf("fresh=%v start(addr:power/prio)=%s rounds=%d (IncrementProposerPriority(1) each; fresh: NewValidatorSet first) final=%s; single call times=%d",
				fresh, c08Descr(start), len(props), c08Descr(final), times))
	}
	if err := cs.Write(); err != nil {
		t.Fatal(err)
	}
}
