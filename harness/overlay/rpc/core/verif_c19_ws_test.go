//go:build verif

package core

// C19 correspondence harness for rpc/core/events.go (finding F90): the goroutine that forwards
// a pub/sub Subscription to a websocket subscriber. Injected with `go test -overlay`;
// evaluated by coq/C19/ExecWs.v (monitor, clause 20).
//
// REAL: types.EventBus (real pubsub.Server), rpc/core.Subscribe and its forwarder goroutine
// (the component at fault). IN MEMORY: the websocket connection - an implementation of
// rpctypes.WSRPCConnection with the channel semantics of rpc/jsonrpc/server.wsConnection
// (bounded write queue; WriteRPCResponse blocks on it until the context ends or the connection
// is stopped; TryWriteRPCResponse never blocks; Stop() runs the OnDisconnect callback of
// node.go, UnsubscribeAll) whose writeRoutine + socket + remote client are played by the
// harness: one `read` step hands the client the next queued response. Buffers are 1-3 instead
// of 200 so that a slow reader is reached in a handful of steps.
//
// One case = one subscriber (its own remote address and tx.height, all on one event bus), a
// PRNG-chosen schedule of publications of matching / non-matching Tx events and single reads,
// each step followed by a wait until the forwarder is parked (blocked in WriteRPCResponse,
// idle, or gone); at the end the client reads until nothing comes any more. Recorded: the
// client's OWN observation - the event numbers in order, whether it received an error
// response (the cancellation notice), whether its connection was closed.
//
// GATE: the cases reach finding F90 on the unrepaired events.go. They are generated only with
// VERIF_C19_F90=1. REMOVE THE GATE (make w19Gate return true) once
// fixes/F90-ws-subscriber-told.diff is applied to the repository.

import (
	"context"
	"encoding/json"
	"errors"
	"fmt"
	"os"
	"strings"
	"sync"
	"testing"
	"time"

	abci "github.com/tendermint/tendermint/abci/types"
	cfg "github.com/tendermint/tendermint/config"
	vg "github.com/tendermint/tendermint/internal/verifgen"
	"github.com/tendermint/tendermint/libs/log"
	rpctypes "github.com/tendermint/tendermint/rpc/jsonrpc/types"
	"github.com/tendermint/tendermint/types"
)

func w19Gate() bool { return os.Getenv("VERIF_C19_F90") != "0" } // on by default: the finding is recorded in known_findings.json

// ---------------------------------------------------------------- the in-memory connection

type w19Conn struct {
	addr   string
	ch     chan rpctypes.RPCResponse
	quit   chan struct{}
	ctx    context.Context
	cancel context.CancelFunc
	onStop func(addr string)

	mu       sync.Mutex
	entered  int // calls of WriteRPCResponse
	returned int // ... that returned
	tries    int // calls of TryWriteRPCResponse
	stopped  bool
}

func newW19Conn(addr string, capacity int, onStop func(string)) *w19Conn {
	c := &w19Conn{addr: addr, ch: make(chan rpctypes.RPCResponse, capacity), quit: make(chan struct{}), onStop: onStop}
	c.ctx, c.cancel = context.WithCancel(context.Background())
	return c
}

func (c *w19Conn) GetRemoteAddr() string    { return c.addr }
func (c *w19Conn) Context() context.Context { return c.ctx }

// as wsConnection.WriteRPCResponse
func (c *w19Conn) WriteRPCResponse(ctx context.Context, resp rpctypes.RPCResponse) error {
	c.mu.Lock()
	c.entered++
	c.mu.Unlock()
	defer func() { c.mu.Lock(); c.returned++; c.mu.Unlock() }()
	select {
	case <-c.quit:
		return errors.New("connection was stopped")
	case <-ctx.Done():
		return ctx.Err()
	case c.ch <- resp:
		return nil
	}
}

// as wsConnection.TryWriteRPCResponse
func (c *w19Conn) TryWriteRPCResponse(resp rpctypes.RPCResponse) bool {
	c.mu.Lock()
	c.tries++
	c.mu.Unlock()
	select {
	case <-c.quit:
		return false
	case c.ch <- resp:
		return true
	default:
		return false
	}
}

// as service.BaseService.Stop + wsConnection.OnStop: the write routine ends (queued responses
// are never written), the socket is closed, OnDisconnect runs
func (c *w19Conn) Stop() error {
	c.mu.Lock()
	if c.stopped {
		c.mu.Unlock()
		return errors.New("already stopped")
	}
	c.stopped = true
	c.mu.Unlock()
	close(c.quit)
	if c.onStop != nil {
		c.onStop(c.addr)
	}
	c.cancel()
	return nil
}

type w19Snap struct {
	queued, entered, returned, tries int
	stopped                          bool
}

func (c *w19Conn) snap() w19Snap {
	c.mu.Lock()
	defer c.mu.Unlock()
	return w19Snap{len(c.ch), c.entered, c.returned, c.tries, c.stopped}
}

// wait until the forwarder is parked: the counters do not move for `quiet`
func (c *w19Conn) settle(quiet time.Duration) w19Snap {
	last, since := c.snap(), time.Now()
	deadline := time.Now().Add(2 * time.Second)
	for time.Now().Before(deadline) {
		time.Sleep(time.Millisecond)
		s := c.snap()
		if s != last {
			last, since = s, time.Now()
			continue
		}
		if time.Since(since) >= quiet {
			break
		}
	}
	return last
}

// ---------------------------------------------------------------- the client

type w19Client struct {
	conn   *w19Conn
	got    []int
	told   bool
	closed bool
	junk   int
}

// the next queued response reaches the client (false: nothing queued / connection closed)
func (cl *w19Client) read() bool {
	if cl.closed {
		return false
	}
	select {
	case <-cl.conn.quit:
		cl.closed = true
		return false
	default:
	}
	select {
	case resp := <-cl.conn.ch:
		if resp.Error != nil {
			cl.told = true
			return true
		}
		var re struct {
			Data struct {
				Value struct {
					TxResult struct {
						Index *uint32 `json:"index"`
					} `json:"TxResult"`
				} `json:"value"`
			} `json:"data"`
		}
		if err := json.Unmarshal(resp.Result, &re); err != nil {
			cl.junk++
			return true
		}
		idx := 0
		if re.Data.Value.TxResult.Index != nil {
			idx = int(*re.Data.Value.TxResult.Index)
		}
		cl.got = append(cl.got, idx)
		return true
	default:
		return false
	}
}

// read until nothing comes any more: queue empty, forwarder not blocked in a write, for `quiet`
func (cl *w19Client) drain(quiet time.Duration) {
	idle := time.Now()
	deadline := time.Now().Add(25 * time.Second)
	for time.Now().Before(deadline) {
		if cl.read() {
			idle = time.Now()
			continue
		}
		if cl.closed {
			return
		}
		s := cl.conn.snap()
		if s.entered != s.returned || s.queued > 0 {
			idle = time.Now() // a blocked write will land (or time out) - keep listening
			time.Sleep(time.Millisecond)
			continue
		}
		if time.Since(idle) >= quiet {
			return
		}
		time.Sleep(time.Millisecond)
	}
}

// ---------------------------------------------------------------- one case

type w19Step struct {
	kind int // 0 publish a matching event, 1 publish a non-matching event, 2 the client reads one response, 3 the client does nothing for `wait`
	wait time.Duration
}

type w19Case struct {
	qcap, scap int
	closeSlow  bool
	steps      []w19Step
}

type w19Env struct {
	mu  sync.Mutex // Subscribe reads env.Config
	e   *Environment
	bus *types.EventBus
}

func (we *w19Env) publish(height int64, index uint32) {
	_ = we.bus.PublishEventTx(types.EventDataTx{TxResult: abci.TxResult{
		Height: height, Index: index, Tx: []byte(fmt.Sprintf("w19-%d-%d", height, index)), Result: abci.ResponseDeliverTx{}}})
}

// every command before it has been executed by the pub/sub loop when this returns
func (we *w19Env) barrier() {
	_ = we.bus.PublishEventNewBlockHeader(types.EventDataNewBlockHeader{})
	_ = we.bus.PublishEventNewBlockHeader(types.EventDataNewBlockHeader{})
}

func w19Run(we *w19Env, k int, c w19Case) (term, descr string, nontrivial bool) {
	height := int64(k + 1)
	addr := fmt.Sprintf("w19-client-%d", k)
	conn := newW19Conn(addr, c.qcap, func(a string) { _ = we.bus.UnsubscribeAll(context.Background(), a) })
	cl := &w19Client{conn: conn}
	query := fmt.Sprintf("tm.event='Tx' AND tx.height=%d", height)

	we.mu.Lock()
	we.e.Config.SubscriptionBufferSize = c.scap
	we.e.Config.CloseOnSlowClient = c.closeSlow
	_, err := Subscribe(&rpctypes.Context{JSONReq: &rpctypes.RPCRequest{ID: rpctypes.JSONRPCIntID(1)}, WSConn: conn}, query)
	we.mu.Unlock()
	if err != nil {
		panic(fmt.Sprintf("w19: Subscribe: %v", err))
	}

	const quiet = 6 * time.Millisecond
	var pubs []string
	var trace []string
	idx := uint32(0)
	for _, st := range c.steps {
		switch st.kind {
		case 0:
			we.publish(height, idx)
			pubs = append(pubs, "true")
			trace = append(trace, fmt.Sprintf("publish #%d (matching)", idx))
			idx++
			we.barrier()
		case 1:
			we.publish(height+1000000, idx)
			pubs = append(pubs, "false")
			trace = append(trace, fmt.Sprintf("publish #%d (other height: not matching)", idx))
			idx++
			we.barrier()
		case 2:
			ok := cl.read()
			trace = append(trace, fmt.Sprintf("client reads one response (%v)", ok))
		case 3:
			time.Sleep(st.wait)
			trace = append(trace, fmt.Sprintf("client does not read for %v", st.wait))
		}
		conn.settle(quiet)
	}
	cl.drain(40 * time.Millisecond)
	final := conn.snap()
	if !cl.closed {
		select {
		case <-conn.quit:
			cl.closed = true
		default:
		}
	}
	_ = conn.Stop() // clean up: releases a forwarder that still waits, unsubscribes

	var got []string
	for _, g := range cl.got {
		got = append(got, vg.Nat(g))
	}
	nmatch := 0
	for _, p := range pubs {
		if p == "true" {
			nmatch++
		}
	}
	nontrivial = len(cl.got) < nmatch || cl.told || cl.closed
	term = vg.App("WCase", vg.Nat(c.qcap), vg.Nat(c.scap), vg.B(c.closeSlow), vg.L(pubs), vg.L(got), vg.B(cl.told), vg.B(cl.closed))
	descr = fmt.Sprintf("real EventBus + rpc/core.Subscribe(%q) on an in-memory websocket connection: write queue %d, SubscriptionBufferSize %d, CloseOnSlowClient %v; schedule: %s; then the client reads until nothing comes any more. Client observed: events %v, cancellation notice received: %v, connection closed: %v, undecodable responses: %d (forwarder: %d blocking writes, %d TryWrite calls)",
		query, c.qcap, c.scap, c.closeSlow, strings.Join(trace, "; "), cl.got, cl.told, cl.closed, cl.junk, final.entered, final.tries)
	return term, descr, nontrivial
}

func w19Pub(n int) []w19Step {
	var s []w19Step
	for i := 0; i < n; i++ {
		s = append(s, w19Step{kind: 0})
	}
	return s
}

func TestVerifC19Ws(t *testing.T) {
	if !w19Gate() {
		return
	}
	cs := vg.NewCases("C19", "c19_ws", "TM.C19.ExecWs")
	cs.CaseType = "wcase"
	cs.CheckFn = "wcheck"
	root := vg.NewRand(vg.Seed() ^ 0xf90)

	bus := types.NewEventBus()
	bus.SetLogger(log.NewNopLogger())
	if err := bus.Start(); err != nil {
		t.Fatal(err)
	}
	rpcCfg := *cfg.DefaultRPCConfig()
	rpcCfg.MaxSubscriptionClients = 1 << 30
	e := &Environment{EventBus: bus, Logger: log.NewNopLogger(), Config: rpcCfg}
	SetEnvironment(e)
	we := &w19Env{e: e, bus: bus}

	type job struct {
		id   int
		kind string
		c    w19Case
	}
	var jobs []job
	add := func(kind string, c w19Case) {
		id := cs.NextID()
		if cs.Want(id) {
			jobs = append(jobs, job{id, kind, c})
		}
	}
	R := w19Step{kind: 2}
	cat := func(parts ...[]w19Step) []w19Step {
		var s []w19Step
		for _, p := range parts {
			s = append(s, p...)
		}
		return s
	}
	// directed: the audit's situation in small. Queue 1, buffer 1: #0 queued, #1 held by the
	// blocked forwarder, #2 buffered, #3 cancels the subscription (ErrOutOfCapacity); then the
	// client reads on, one response at a time.
	add("directed_slow_reader_cancelled", w19Case{1, 1, false, cat(w19Pub(4), []w19Step{R, R, R})})
	add("directed_slow_reader_cancelled", w19Case{1, 1, true, cat(w19Pub(4), []w19Step{R, R, R})})
	add("directed_slow_reader_cancelled", w19Case{2, 3, false, cat(w19Pub(8), []w19Step{R, R}, w19Pub(2), []w19Step{R})})
	// directed: a reader that keeps up is never cancelled
	add("directed_fast_reader", w19Case{1, 1, false, cat(w19Pub(1), []w19Step{R}, w19Pub(1), []w19Step{R}, w19Pub(2), []w19Step{R, R})})
	// directed (10 s each, run beside the others): the client stalls for longer than the write
	// timeout: (a) while an event is held with room in the subscription buffer - the held event
	// must not be dropped silently; (b) after the cancellation with a full queue - the notice
	// cannot be queued in time, the connection has to be closed
	stall := w19Step{kind: 3, wait: 10500 * time.Millisecond}
	add("directed_stall_event_write_times_out", w19Case{1, 4, false, cat(w19Pub(3), []w19Step{stall, R, R})})
	add("directed_stall_after_cancel", w19Case{1, 1, false, cat(w19Pub(4), []w19Step{R, stall, stall})})

	n := vg.Scale(40, 1500)
	for k := 0; k < n; k++ {
		r := root.Fork(uint64(k))
		c := w19Case{qcap: 1 + r.Intn(3), scap: 1 + r.Intn(3), closeSlow: r.Chance(30)}
		burst := c.qcap + c.scap + 2
		for i, ns := 0, 3+r.Intn(6); i < ns; i++ {
			switch {
			case r.Chance(45):
				c.steps = append(c.steps, w19Pub(1+r.Intn(burst))...)
			case r.Chance(12):
				c.steps = append(c.steps, w19Step{kind: 1})
			default:
				for j := 1 + r.Intn(3); j > 0; j-- {
					c.steps = append(c.steps, R)
				}
			}
		}
		add("random", c)
	}

	type res struct {
		term, descr string
		nt          bool
	}
	out := make([]res, len(jobs))
	var wg sync.WaitGroup
	sem := make(chan struct{}, 8)
	for i := range jobs {
		wg.Add(1)
		go func(i int) {
			defer wg.Done()
			slow := strings.HasPrefix(jobs[i].kind, "directed_stall")
			if !slow {
				sem <- struct{}{}
				defer func() { <-sem }()
			}
			term, descr, nt := w19Run(we, jobs[i].id, jobs[i].c)
			out[i] = res{term, descr, nt}
		}(i)
	}
	wg.Wait()
	for i, j := range jobs {
		cs.Add(j.id, j.kind, out[i].nt, out[i].term, out[i].descr)
	}
	go func() { defer func() { _ = recover() }(); _ = bus.Stop() }()
	if err := cs.Write(); err != nil {
		t.Fatal(err)
	}
}
