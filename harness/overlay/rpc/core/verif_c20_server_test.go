//go:build verif

package core

// C20 correspondence harness, server side (injected with `go test -overlay`): the real rpc/core
// handlers (Tx and TxSearch with prove, Block, BlockByHash, BlockchainInfo, BlockResults) over a real block
// store, transaction index and state store holding a generated chain, answering the real
// light/rpc.Client (every answer passes a JSON round trip, as over HTTP) whose light client is a
// stub serving the stored headers.  Every case is an HONEST answer: it must be relayed, and the
// inclusion proofs served must validate against the data hash of their block.

import (
	"bytes"
	"context"
	"crypto/sha256"
	"errors"
	"fmt"
	"sort"
	"testing"
	"time"

	dbm "github.com/tendermint/tm-db"

	abcicli "github.com/tendermint/tendermint/abci/client"
	abci "github.com/tendermint/tendermint/abci/types"
	"github.com/tendermint/tendermint/crypto/ed25519"
	"github.com/tendermint/tendermint/crypto/merkle"
	vg "github.com/tendermint/tendermint/internal/verifgen"
	tmjson "github.com/tendermint/tendermint/libs/json"
	"github.com/tendermint/tendermint/libs/log"
	tmsync "github.com/tendermint/tendermint/libs/sync"
	lrpc "github.com/tendermint/tendermint/light/rpc"
	mmock "github.com/tendermint/tendermint/mempool/mock"
	tmproto "github.com/tendermint/tendermint/proto/tendermint/types"
	"github.com/tendermint/tendermint/proxy"
	rpcclient "github.com/tendermint/tendermint/rpc/client"
	ctypes "github.com/tendermint/tendermint/rpc/core/types"
	rpctypes "github.com/tendermint/tendermint/rpc/jsonrpc/types"
	sm "github.com/tendermint/tendermint/state"
	"github.com/tendermint/tendermint/state/txindex/kv"
	"github.com/tendermint/tendermint/store"
	"github.com/tendermint/tendermint/types"
)

func c20sSum(b []byte) []byte { s := sha256.Sum256(b); return s[:] }

func c20sWire[T any](v *T, err error) (*T, error) {
	if err != nil || v == nil {
		return v, err
	}
	bz, e := tmjson.Marshal(v)
	if e != nil {
		panic(e)
	}
	out := new(T)
	if e := tmjson.Unmarshal(bz, out); e != nil {
		panic(e)
	}
	return out, nil
}

// the node as an rpcclient.Client (what rpc/client/local does), answers JSON round-tripped
type c20sNode struct{ rpcclient.Client }

func (c20sNode) IsRunning() bool { return true }
func (c20sNode) Block(ctx context.Context, h *int64) (*ctypes.ResultBlock, error) {
	return c20sWire(Block(&rpctypes.Context{}, h))
}
func (c20sNode) BlockByHash(ctx context.Context, hash []byte) (*ctypes.ResultBlock, error) {
	return c20sWire(BlockByHash(&rpctypes.Context{}, hash))
}
func (c20sNode) BlockchainInfo(ctx context.Context, min, max int64) (*ctypes.ResultBlockchainInfo, error) {
	return c20sWire(BlockchainInfo(&rpctypes.Context{}, min, max))
}
func (c20sNode) BlockResults(ctx context.Context, h *int64) (*ctypes.ResultBlockResults, error) {
	return c20sWire(BlockResults(&rpctypes.Context{}, h))
}
func (c20sNode) Tx(ctx context.Context, hash []byte, prove bool) (*ctypes.ResultTx, error) {
	return c20sWire(Tx(&rpctypes.Context{}, hash, prove))
}
func (c20sNode) TxSearch(ctx context.Context, query string, prove bool, page, perPage *int, orderBy string) (*ctypes.ResultTxSearch, error) {
	return c20sWire(TxSearch(&rpctypes.Context{}, query, prove, page, perPage, orderBy))
}
func (c20sNode) Status(ctx context.Context) (*ctypes.ResultStatus, error) {
	return &ctypes.ResultStatus{SyncInfo: ctypes.SyncInfo{LatestBlockHeight: env.BlockStore.Height()}}, nil
}

// the ABCI application: DeliverTx results as scripted by the harness, events in BeginBlock / EndBlock
type c20sApp struct {
	abci.BaseApplication
	results map[string]*abci.ResponseDeliverTx
	height  int64
}

func (a *c20sApp) BeginBlock(abci.RequestBeginBlock) abci.ResponseBeginBlock {
	return abci.ResponseBeginBlock{Events: []abci.Event{{Type: "begin"}}}
}
func (a *c20sApp) DeliverTx(req abci.RequestDeliverTx) abci.ResponseDeliverTx {
	return *a.results[string(req.Tx)]
}
func (a *c20sApp) EndBlock(abci.RequestEndBlock) abci.ResponseEndBlock {
	return abci.ResponseEndBlock{Events: []abci.Event{{Type: "end"}}}
}
func (a *c20sApp) Commit() abci.ResponseCommit {
	a.height++
	return abci.ResponseCommit{Data: c20sSum([]byte{byte(a.height), 'a'})}
}

// stub light client over the block store's own headers
type c20sLC struct {
	vals  *types.ValidatorSet
	calls []string
}

func (l *c20sLC) ChainID() string { return "c20-server" }
func (l *c20sLC) get(h int64) (*types.LightBlock, error) {
	m := env.BlockStore.LoadBlockMeta(h)
	if m == nil {
		return nil, fmt.Errorf("no block %d", h)
	}
	c := env.BlockStore.LoadBlockCommit(h)
	if c == nil {
		c = env.BlockStore.LoadSeenCommit(h)
	}
	hdr := m.Header
	return &types.LightBlock{SignedHeader: &types.SignedHeader{Header: &hdr, Commit: c}, ValidatorSet: l.vals}, nil
}
func (l *c20sLC) Update(ctx context.Context, now time.Time) (*types.LightBlock, error) {
	l.calls = append(l.calls, vg.Tup(vg.N(2), vg.Z(0)))
	return l.get(env.BlockStore.Height())
}
func (l *c20sLC) VerifyLightBlockAtHeight(ctx context.Context, h int64, now time.Time) (*types.LightBlock, error) {
	l.calls = append(l.calls, vg.Tup(vg.N(0), vg.Z(h)))
	return l.get(h)
}
func (l *c20sLC) TrustedLightBlock(h int64) (*types.LightBlock, error) {
	l.calls = append(l.calls, vg.Tup(vg.N(1), vg.Z(h)))
	return l.get(h)
}

func (l *c20sLC) term() string {
	var tab []string
	var tr []int64
	for h := int64(1); h <= env.BlockStore.Height(); h++ {
		lb, err := l.get(h)
		if err != nil {
			panic(err)
		}
		hd := lb.Header
		tab = append(tab, vg.Tup(vg.Tup(vg.Z(hd.Height), vg.Hx(hd.Hash()), `""`, vg.Hx(hd.DataHash), `""`,
			vg.Hx(hd.ConsensusHash), vg.Hx(hd.AppHash), vg.Hx(hd.LastResultsHash)), vg.Hx(lb.Commit.Hash()),
			vg.Tup(vg.Hx(lb.Commit.BlockID.Hash), c20sPSHTerm(lb.Commit.BlockID.PartSetHeader)), "[]"))
		tr = append(tr, h)
	}
	return vg.Tup(vg.L(tab), vg.ZL(tr), vg.Z(env.BlockStore.Height()))
}

func c20sPSHTerm(p types.PartSetHeader) string { return vg.Tup(vg.Z(int64(p.Total)), vg.Hx(p.Hash)) }

func c20sTxTerm(view *ctypes.ResultTx) string {
	return vg.Tup(vg.Hx(view.Hash), vg.Z(view.Height), vg.Z(int64(view.Index)), vg.Hx(view.Tx),
		vg.Tup(vg.Hx(view.Proof.RootHash), vg.Hx(view.Proof.Data), c20sProofTerm(view.Proof.Proof)))
}

func c20sHdrTerm(h *types.Header, hash []byte) string {
	return vg.Tup(vg.Z(h.Height), vg.Hx(hash), vg.Hx(h.LastCommitHash), vg.Hx(h.DataHash), vg.Hx(h.EvidenceHash),
		vg.Hx(h.ConsensusHash), vg.Hx(h.AppHash), vg.Hx(h.LastResultsHash))
}

func c20sBlockTerm(b *types.Block) string {
	if b == nil {
		return "None"
	}
	hdrOK := b.Header.ValidateBasic() == nil
	lcOK := b.LastCommit != nil && b.LastCommit.ValidateBasic() == nil
	var lcHash []byte
	if b.LastCommit != nil {
		lcHash = b.LastCommit.Hash()
	}
	var txs [][]byte
	for _, tx := range b.Data.Txs {
		txs = append(txs, tx)
	}
	h := b.Header
	return vg.Opt(true, vg.Tup(c20sHdrTerm(&h, b.Hash()), vg.B(hdrOK), vg.B(lcOK), vg.Hx(lcHash), vg.HxL(txs),
		vg.B(true), vg.Hx(b.Evidence.Hash())))
}

func c20sProofTerm(p merkle.Proof) string {
	return vg.Tup(vg.Z(p.Total), vg.Z(p.Index), vg.Hx(p.LeafHash), vg.HxL(p.Aunts))
}

func c20sRun(lc *c20sLC, f func() error) (relayed bool, calls []string, msg string) {
	lc.calls = nil
	defer func() {
		if p := recover(); p != nil {
			relayed, msg = false, fmt.Sprintf("panic: %v", p)
			calls = append(append([]string{}, lc.calls...), vg.Tup(vg.N(9), vg.Z(0)))
		}
	}()
	err := f()
	if err != nil {
		msg = err.Error()
	}
	return err == nil, append([]string{}, lc.calls...), msg
}

func TestVerifC20Server(t *testing.T) {
	root := vg.NewRand(vg.Seed() ^ 0xc205)
	cs := vg.NewCases("C20", "c20_server", "TM.C20.Exec")
	nchains := vg.Scale(2, 40)
	saved := env
	defer func() { env = saved }()
	for k := 0; k < nchains; k++ {
		r := root.Fork(uint64(k))
		bs := store.NewBlockStore(dbm.NewMemDB())
		ss := sm.NewStore(dbm.NewMemDB(), sm.StoreOptions{DiscardABCIResponses: false})
		txi := kv.NewTxIndex(dbm.NewMemDB())
		SetEnvironment(&Environment{BlockStore: bs, StateStore: ss, TxIndexer: txi, Logger: log.NewNopLogger()})
		// The chain is produced by the REAL state transition: State.MakeBlock fills every header from the
		// state (LastResultsHash, AppHash, ...), BlockExecutor.ApplyBlock validates the block, runs it on an
		// ABCI application whose DeliverTx results are scripted, stores the ABCI responses and computes the
		// next state (updateState).  Blocks with and without transactions alternate.
		var privs []types.MockPV
		for i := 0; i < 1+r.Intn(3); i++ {
			privs = append(privs, types.NewMockPVWithParams(ed25519.GenPrivKeyFromSecret([]byte{byte(k), byte(i), 's'}), false, false))
		}
		sort.Slice(privs, func(i, j int) bool { // validator-set order: equal powers, by address
			return bytes.Compare(privs[i].PrivKey.PubKey().Address(), privs[j].PrivKey.PubKey().Address()) < 0
		})
		var gvals []types.GenesisValidator
		var pvs []types.PrivValidator
		for _, pv := range privs {
			pk := pv.PrivKey.PubKey()
			gvals = append(gvals, types.GenesisValidator{Address: pk.Address(), PubKey: pk, Power: 10})
			pvs = append(pvs, pv)
		}
		genTime := time.Unix(1700000000, 0).UTC()
		state, err := sm.MakeGenesisState(&types.GenesisDoc{ChainID: "c20-server", GenesisTime: genTime, InitialHeight: 1,
			ConsensusParams: types.DefaultConsensusParams(), Validators: gvals})
		if err != nil {
			t.Fatal(err)
		}
		if err := ss.Save(state); err != nil {
			t.Fatal(err)
		}
		app := &c20sApp{results: map[string]*abci.ResponseDeliverTx{}}
		cc := abcicli.NewLocalClient(new(tmsync.Mutex), app)
		if err := cc.Start(); err != nil {
			t.Fatal(err)
		}
		blockExec := sm.NewBlockExecutor(ss, log.NewNopLogger(), proxy.NewAppConnConsensus(cc), mmock.Mempool{}, sm.EmptyEvidencePool{})
		vals := state.Validators
		n := int64(4 + r.Intn(3))
		lastCommit := types.NewCommit(0, 0, types.BlockID{}, nil)
		var blocks []*types.Block
		var stateLRH, nextLRH [][]byte // State.LastResultsHash after block h; LastResultsHash of header h+1
		for h := int64(1); h <= n; h++ {
			var txs []types.Tx
			ntx := r.Intn(7)
			if r.Chance(35) {
				ntx = 0
			}
			if h == 2 {
				ntx = 3 + r.Intn(4)
			}
			if h == 3 { // an empty block right after one with transactions
				ntx = 0
			}
			for i := 0; i < ntx; i++ {
				tx := types.Tx(append([]byte{byte(k), byte(h), byte(i)}, r.Bytes(r.Intn(4))...))
				txs = append(txs, tx)
				app.results[string(tx)] = &abci.ResponseDeliverTx{Code: uint32(r.Intn(3)), Data: r.Bytes(r.Intn(4)), Log: "l", GasWanted: int64(r.Intn(99)) - 1,
					GasUsed: int64(r.Intn(1 << 20)), Events: []abci.Event{{Type: "tx"}}}
			}
			b, ps := state.MakeBlock(h, txs, lastCommit, nil, state.Validators.GetProposer().Address)
			id := types.BlockID{Hash: b.Hash(), PartSetHeader: ps.Header()}
			if h > 1 {
				nextLRH = append(nextLRH, b.LastResultsHash)
			}
			valsH := state.Validators
			state, _, err = blockExec.ApplyBlock(state, id, b)
			if err != nil {
				t.Fatalf("ApplyBlock %d: %v", h, err)
			}
			stateLRH = append(stateLRH, state.LastResultsHash)
			commit, err := types.MakeCommit(id, h, 0, types.NewVoteSet("c20-server", h, 0, tmproto.PrecommitType, valsH), pvs, genTime.Add(time.Duration(h)*time.Second))
			if err != nil {
				t.Fatalf("MakeCommit %d: %v", h, err)
			}
			bs.SaveBlock(b, ps, commit)
			for i, tx := range txs {
				if err := txi.Index(&abci.TxResult{Height: h, Index: uint32(i), Tx: tx, Result: *app.results[string(tx)]}); err != nil {
					t.Fatal(err)
				}
			}
			blocks = append(blocks, b)
			lastCommit = commit
		}
		{ // the header the state would give block n+1
			b, _ := state.MakeBlock(n+1, nil, lastCommit, nil, state.Validators.GetProposer().Address)
			nextLRH = append(nextLRH, b.LastResultsHash)
		}
		for h := int64(1); h <= n; h++ {
			id := cs.NextID()
			if !cs.Want(id) {
				continue
			}
			resp, err := ss.LoadABCIResponses(h)
			if err != nil {
				t.Fatalf("LoadABCIResponses %d: %v", h, err)
			}
			var rs, human []string
			for _, d := range resp.DeliverTxs {
				rs = append(rs, vg.Tup(vg.Z(int64(d.Code)), vg.Hx(d.Data), vg.Z(d.GasWanted), vg.Z(d.GasUsed)))
				human = append(human, fmt.Sprintf("{code %d data %x gas %d/%d}", d.Code, d.Data, d.GasWanted, d.GasUsed))
			}
			var ntxs []int
			for _, b := range blocks[:h] {
				ntxs = append(ntxs, len(b.Data.Txs))
			}
			cs.Add(id, "server/chain-results", true,
				vg.App("CChainResults", vg.Z(h), vg.L(rs), vg.Hx(stateLRH[h-1]), vg.Hx(nextLRH[h-1])),
				fmt.Sprintf("server chain#%d(n=%d): blocks 1..%d with %v transactions applied by BlockExecutor.ApplyBlock; DeliverTx results of block %d = %v; State.LastResultsHash after it = %X; LastResultsHash of header %d (State.MakeBlock) = %X",
					k, n, h, ntxs, h, human, stateLRH[h-1], h+1, nextLRH[h-1]))
		}
		lc := &c20sLC{vals: vals}
		cl := lrpc.NewClient(c20sNode{}, lc)
		node := c20sNode{}
		bg := context.Background()
		for h := int64(1); h <= n; h++ {
			h := h
			b := blocks[h-1]
			var txsB [][]byte
			for _, tx := range b.Data.Txs {
				txsB = append(txsB, tx)
			}
			// Block / BlockByHash
			for _, byHash := range []bool{false, true} {
				id := cs.NextID()
				if !cs.Want(id) {
					continue
				}
				var view *ctypes.ResultBlock
				var err error
				if byHash {
					view, err = node.BlockByHash(bg, b.Hash())
				} else {
					view, err = node.Block(bg, &h)
				}
				if err != nil || view == nil {
					t.Fatalf("node block: %v", err)
				}
				relayed, calls, msg := c20sRun(lc, func() error {
					var e error
					if byHash {
						_, e = cl.BlockByHash(bg, b.Hash())
					} else {
						_, e = cl.Block(bg, &h)
					}
					return e
				})
				cs.Add(id, "server/block", true,
					vg.App("CBlock", lc.term(), vg.B(view.BlockID.ValidateBasic() == nil), vg.Hx(view.BlockID.Hash),
						c20sPSHTerm(view.BlockID.PartSetHeader), c20sBlockTerm(view.Block),
						vg.B(relayed), vg.L(calls), vg.B(true)),
					fmt.Sprintf("server chain#%d(n=%d): rpc/core Block(byHash=%v) for height %d (%d txs) through light/rpc.Client; relayed=%v err=%q", k, n, byHash, h, len(txsB), relayed, msg))
			}
			// BlockResults (needs header h+1)
			if h < n {
				id := cs.NextID()
				if cs.Want(id) {
					view, err := node.BlockResults(bg, &h)
					if err != nil {
						t.Fatalf("node results: %v", err)
					}
					relayed, calls, msg := c20sRun(lc, func() error { _, e := cl.BlockResults(bg, &h); return e })
					var rs []string
					for _, d := range view.TxsResults {
						rs = append(rs, vg.Tup(vg.Z(int64(d.Code)), vg.Hx(d.Data), vg.Z(d.GasWanted), vg.Z(d.GasUsed)))
					}
					cs.Add(id, "server/results", true,
						vg.App("CResults", lc.term(), vg.Opt(true, vg.Z(h)), vg.Z(n), vg.Z(view.Height), vg.L(rs), vg.B(relayed), vg.L(calls), vg.B(true)),
						fmt.Sprintf("server chain#%d(n=%d): rpc/core BlockResults(%d) (%d results, begin/end events present) through light/rpc.Client; relayed=%v err=%q", k, n, h, len(rs), relayed, msg))
				}
			}
			// Tx with proof, and the served proof itself
			for i, tx := range b.Data.Txs {
				id := cs.NextID()
				id2 := cs.NextID()
				if !cs.Want(id) && !cs.Want(id2) {
					continue
				}
				view, err := node.Tx(bg, tx.Hash(), true)
				if err != nil {
					t.Fatalf("node tx: %v", err)
				}
				relayed, calls, msg := c20sRun(lc, func() error { _, e := cl.Tx(bg, tx.Hash(), true); return e })
				if cs.Want(id) {
					cs.Add(id, "server/tx", true,
						vg.App("CTx", lc.term(), vg.B(true), c20sTxTerm(view), vg.HxL(txsB), vg.B(relayed), vg.L(calls), vg.B(true)),
						fmt.Sprintf("server chain#%d(n=%d): rpc/core Tx(hash of tx %d of block %d, prove) through light/rpc.Client; block txs=%x; relayed=%v err=%q", k, n, i, h, txsB, relayed, msg))
				}
				if cs.Want(id2) {
					valid := view.Proof.Validate(b.DataHash) == nil && view.Height == h && int(view.Index) == i
					cs.Add(id2, "server/proof", len(txsB) >= 2,
						vg.App("CServed", vg.HxL(txsB), vg.Z(int64(i)),
							vg.Tup(vg.Hx(view.Proof.RootHash), vg.Hx(view.Proof.Data), c20sProofTerm(view.Proof.Proof)), vg.Hx(b.DataHash), vg.B(valid)),
						fmt.Sprintf("server chain#%d block %d txs=%x: rpc/core Tx(hash of tx %d, prove=true).Proof.Validate(DataHash) and height/index right = %v", k, h, txsB, i, valid))
				}
			}
		}
		// TxSearch with proofs: per block, and over the whole index (first page of at most 8, both orders)
		var blocksT []string
		for h := int64(1); h <= n; h++ {
			var txsB [][]byte
			for _, tx := range blocks[h-1].Data.Txs {
				txsB = append(txsB, tx)
			}
			blocksT = append(blocksT, vg.Tup(vg.Z(h), vg.HxL(txsB)))
		}
		type sq struct {
			query, order string
			perPage      int
		}
		qs := []sq{{"tx.height>0", "asc", 8}, {"tx.height>0", "desc", 8}}
		for h := int64(1); h <= n; h++ {
			qs = append(qs, sq{fmt.Sprintf("tx.height=%d", h), "asc", 30})
		}
		for _, q := range qs {
			id := cs.NextID()
			if !cs.Want(id) {
				continue
			}
			q := q
			view, err := func() (v *ctypes.ResultTxSearch, err error) { // the handler itself may fail or panic on a wrong implementation
				defer func() {
					if p := recover(); p != nil {
						v, err = nil, fmt.Errorf("panic in rpc/core TxSearch: %v", p)
					}
				}()
				return node.TxSearch(bg, q.query, true, nil, &q.perPage, q.order)
			}()
			if err != nil || view == nil { // an honest node must answer: recorded as "not relayed"
				cs.Add(id, "server/search", true,
					vg.App("CSearch", lc.term(), vg.B(true), "[]", vg.L(blocksT), vg.B(false), "[]", vg.B(true)),
					fmt.Sprintf("server chain#%d(n=%d): rpc/core TxSearch(%q, prove=true, per_page=%d, %s) gave no answer: %v", k, n, q.query, q.perPage, q.order, err))
				continue
			}
			relayed, calls, msg := c20sRun(lc, func() error { _, e := cl.TxSearch(bg, q.query, true, nil, &q.perPage, q.order); return e })
			var rs []string
			for _, x := range view.Txs {
				if x == nil {
					rs = append(rs, "None")
					continue
				}
				rs = append(rs, vg.Opt(true, c20sTxTerm(x)))
			}
			cs.Add(id, "server/search", len(rs) > 0,
				vg.App("CSearch", lc.term(), vg.B(true), vg.L(rs), vg.L(blocksT), vg.B(relayed), vg.L(calls), vg.B(true)),
				fmt.Sprintf("server chain#%d(n=%d): rpc/core TxSearch(%q, prove=true, per_page=%d, %s) -> %d of %d results, through light/rpc.Client; relayed=%v err=%q",
					k, n, q.query, q.perPage, q.order, len(rs), view.TotalCount, relayed, msg))
		}
		// BlockchainInfo over the whole store (at most 20 metas)
		id := cs.NextID()
		if cs.Want(id) {
			view, err := node.BlockchainInfo(bg, 1, n)
			if err != nil {
				t.Fatalf("node info: %v", err)
			}
			relayed, calls, msg := c20sRun(lc, func() error { _, e := cl.BlockchainInfo(bg, 1, n); return e })
			var ms []string
			for _, m := range view.BlockMetas {
				if m == nil {
					ms = append(ms, "None")
					continue
				}
				ms = append(ms, vg.Opt(true, vg.Tup(vg.B(m.BlockID.ValidateBasic() == nil), vg.Hx(m.BlockID.Hash), c20sPSHTerm(m.BlockID.PartSetHeader),
					c20sHdrTerm(&m.Header, m.Header.Hash()))))
			}
			cs.Add(id, "server/info", true,
				vg.App("CInfo", lc.term(), vg.L(ms), vg.B(relayed), vg.L(calls), vg.B(true)),
				fmt.Sprintf("server chain#%d(n=%d): rpc/core BlockchainInfo(1,%d) through light/rpc.Client (all heights in the light store); relayed=%v err=%q", k, n, n, relayed, msg))
		}
	}
	if err := cs.Write(); err != nil {
		t.Fatal(err)
	}
	_ = errors.New
}
