//go:build verif

package merkle

// C10 correspondence harness for crypto/merkle (injected with `go test -overlay`; see
// /verif/DESIGN.md).  Runs the real HashFromByteSlices / ProofsFromByteSlices / Proof.Verify on
// generated trees and on mutated / transplanted proofs and writes the cases file that the Coq
// model (TM.C10.Exec) evaluates.

import (
	"bytes"
	"fmt"
	"testing"

	vg "github.com/tendermint/tendermint/internal/verifgen"
)

func c10Proof(p *Proof) string {
	return vg.Tup(vg.Z(p.Total), vg.Z(p.Index), vg.Hx(p.LeafHash), vg.HxL(p.Aunts))
}

func c10Items(r *vg.Rand) [][]byte {
	counts := []int{0, 1, 2, 3, 4, 5, 6, 7, 8, 9, 15, 16, 17, 31, 32, 33}
	var n int
	if r.Chance(70) {
		n = counts[r.Intn(len(counts))]
		if n > 17 && !vg.Thorough() && r.Chance(70) {
			n = 2 + r.Intn(8)
		}
	} else {
		n = r.Intn(24)
	}
	items := make([][]byte, n)
	for i := range items {
		switch r.Intn(8) {
		case 0:
			items[i] = []byte{}
		case 1:
			items[i] = r.Bytes(32)
		case 2:
			items[i] = r.Bytes(64 + r.Intn(3))
		case 3: // duplicate of an earlier item
			if i > 0 {
				items[i] = append([]byte{}, items[r.Intn(i)]...)
			} else {
				items[i] = r.Bytes(1)
			}
		default:
			items[i] = r.Bytes(1 + r.Intn(12))
		}
	}
	return items
}

func cloneProof(p *Proof) *Proof {
	q := &Proof{Total: p.Total, Index: p.Index, LeafHash: append([]byte{}, p.LeafHash...)}
	for _, a := range p.Aunts {
		q.Aunts = append(q.Aunts, append([]byte{}, a...))
	}
	return q
}

func TestVerifC10Merkle(t *testing.T) {
	seed := vg.Seed()
	root := vg.NewRand(seed)
	cs := vg.NewCases("C10", "c10_merkle", "TM.C10.Exec")
	nTrees := vg.Scale(60, 1500)
	var prev [][]byte
	for k := 0; k < nTrees; k++ {
		r := root.Fork(uint64(k))
		items := c10Items(r)
		rootHash := HashFromByteSlices(items)
		iter := HashFromByteSlicesIterative(items)
		rootP, proofs := ProofsFromByteSlices(items)
		id := cs.NextID()
		if cs.Want(id) {
			var ps []string
			var vs []string
			for i, p := range proofs {
				ps = append(ps, c10Proof(p))
				vs = append(vs, vg.B(p.Verify(rootP, items[i]) == nil && p.ValidateBasic() == nil))
			}
			cs.Add(id, fmt.Sprintf("tree/n=%d", len(items)), len(items) >= 2,
				vg.App("CTree", vg.HxL(items), vg.Hx(rootHash), vg.Hx(iter), vg.L(ps), vg.L(vs)),
				fmt.Sprintf("items=%x", items))
		}
		// mutated / transplanted proofs
		nMut := 6
		if len(items) == 0 {
			nMut = 0
		}
		for m := 0; m < nMut; m++ {
			id := cs.NextID()
			i := r.Intn(len(items))
			p := cloneProof(proofs[i])
			leaf := append([]byte{}, items[i]...)
			rh := append([]byte{}, rootHash...)
			kind := ""
			switch r.Intn(28) {
			case 0:
				kind = "genuine"
			case 1:
				kind = "index->other"
				p.Index = int64(r.Intn(len(items)))
			case 2:
				kind = "total+k"
				p.Total += int64(1 + r.Intn(3))
			case 3:
				kind = "total-k"
				p.Total -= int64(1 + r.Intn(3))
			case 4:
				kind = "total=0/neg"
				p.Total = int64(-r.Intn(2))
			case 5:
				kind = "index-neg/ge-total"
				if r.Bool() {
					p.Index = -1 - int64(r.Intn(2))
				} else {
					p.Index = p.Total + int64(r.Intn(2))
				}
			case 6:
				kind = "leafhash-flip"
				if len(p.LeafHash) > 0 {
					p.LeafHash[r.Intn(len(p.LeafHash))] ^= 1 << uint(r.Intn(8))
				}
			case 7:
				kind = "transplant-leaf" // proof of j offered for leaf i
				j := r.Intn(len(items))
				p = cloneProof(proofs[j])
			case 8:
				kind = "transplant-position" // proof of j re-labelled as index i
				j := r.Intn(len(items))
				p = cloneProof(proofs[j])
				p.Index = int64(i)
				leaf = append([]byte{}, items[j]...)
			case 9:
				kind = "aunt-drop"
				if len(p.Aunts) > 0 {
					d := r.Intn(len(p.Aunts))
					p.Aunts = append(p.Aunts[:d], p.Aunts[d+1:]...)
				}
			case 10:
				kind = "aunt-insert"
				d := r.Intn(len(p.Aunts) + 1)
				extra := r.Bytes(32)
				p.Aunts = append(p.Aunts[:d], append([][]byte{extra}, p.Aunts[d:]...)...)
			case 11:
				kind = "aunt-swap"
				if len(p.Aunts) >= 2 {
					a, b := r.Intn(len(p.Aunts)), r.Intn(len(p.Aunts))
					p.Aunts[a], p.Aunts[b] = p.Aunts[b], p.Aunts[a]
				}
			case 12:
				kind = "aunt-flip"
				if len(p.Aunts) > 0 {
					a := r.Intn(len(p.Aunts))
					p.Aunts[a][r.Intn(len(p.Aunts[a]))] ^= 1 << uint(r.Intn(8))
				}
			case 13:
				kind = "aunt-short"
				if len(p.Aunts) > 0 {
					a := r.Intn(len(p.Aunts))
					p.Aunts[a] = p.Aunts[a][:r.Intn(32)]
				}
			case 14:
				kind = "leaf-other"
				leaf = append([]byte{}, items[r.Intn(len(items))]...)
			case 15:
				kind = "leaf-flip"
				if len(leaf) > 0 {
					leaf[r.Intn(len(leaf))] ^= 1 << uint(r.Intn(8))
				} else {
					leaf = []byte{0}
				}
			case 16:
				kind = "root-flip/empty"
				if r.Bool() {
					rh[r.Intn(len(rh))] ^= 1
				} else {
					rh = []byte{}
				}
			case 17:
				kind = "foreign-tree" // proof from the previous tree
				if len(prev) > 0 {
					_, pp := ProofsFromByteSlices(prev)
					j := r.Intn(len(prev))
					p = cloneProof(pp[j])
					leaf = append([]byte{}, prev[j]...)
				}
			case 24:
				// a genuine proof presented with NO item (nil) or the empty item: the leaf hash in the
				// proof is the hash of the real item, not of nothing
				kind = "leaf-nil-or-empty"
				if r.Bool() {
					leaf = nil
				} else {
					leaf = []byte{}
				}
			case 22:
				// the proof of the LAST leaf presented under index == total (and nearby): the path
				// recomputation walks right at every level for both
				kind = "last-leaf-index-at-total"
				p = cloneProof(proofs[len(proofs)-1])
				leaf = append([]byte{}, items[len(items)-1]...)
				p.Index = p.Total + int64(r.Intn(2))
			case 23:
				kind = "index-anywhere" // any leaf's proof under any index in [0, total+2]
				p.Index = int64(r.Intn(int(p.Total) + 3))
			case 19, 20:
				// nothing can be recomputed from the proof, and the root offered is empty / nil
				kind = "empty-root+broken-path"
				rh = []byte{}
				if r.Bool() {
					rh = nil
				}
				switch r.Intn(4) {
				case 0:
					p.Index = p.Total + int64(r.Intn(3))
				case 1:
					if len(p.Aunts) > 0 {
						p.Aunts = p.Aunts[:len(p.Aunts)-1]
					} else {
						p.Aunts = [][]byte{leafHash(leaf)}
					}
				case 2:
					p.Aunts = append(p.Aunts, leafHash(leaf))
				default:
					p.Total = 0
				}
			case 25, 26:
				// the same path claimed for a tree whose size differs in the high-order bits only
				// (the split points must come from the whole 64-bit size)
				kind = "total-wide"
				w := []int64{1 << 32, 2 << 32, 3 << 32, 1 << 31, 1 << 33, 1 << 40, 1 << 52, 1 << 62}[r.Intn(8)]
				p.Total += w
				if r.Chance(25) {
					p.Index += w
					kind = "index+total-wide"
				}
			case 27:
				kind = "index-wide" // the index restated modulo 2^32
				p.Index += []int64{1 << 32, 2 << 32, 1 << 31, 1 << 40}[r.Intn(4)]
			case 18:
				kind = "index+total-shift" // same path claimed for a bigger tree
				p.Total *= 2
			default:
				kind = "two-mutations"
				p.Index = int64(r.Intn(len(items)))
				leaf = append([]byte{}, items[r.Intn(len(items))]...)
				p.LeafHash = leafHash(leaf)
			}
			if !cs.Want(id) {
				continue
			}
			ok := p.Verify(rh, leaf) == nil
			vb := p.ValidateBasic() == nil
			nontriv := kind != "genuine"
			cs.Add(id, "verify/"+kind, nontriv,
				vg.App("CVerify", vg.HxL(items), vg.Hx(rh), vg.Hx(leaf), c10Proof(p), vg.B(ok), vg.B(vb)),
				fmt.Sprintf("items=%x root=%x leaf=%x proof={total %d index %d leafhash %x aunts %x} -> verify=%v", items, rh, leaf, p.Total, p.Index, p.LeafHash, p.Aunts, ok))
		}
		// second-preimage attempts against the root
		if len(items) >= 2 {
			id := cs.NextID()
			var other [][]byte
			kind := ""
			switch r.Intn(4) {
			case 0: // RFC 6962 attack: one leaf made of the two child hashes
				kind = "children-as-leaf"
				sp := getSplitPoint(int64(len(items)))
				l, rr := HashFromByteSlices(items[:sp]), HashFromByteSlices(items[sp:])
				other = [][]byte{append(append([]byte{}, l...), rr...)}
				// prefix-aware form: one leaf whose prefixed encoding equals the prefixed encoding of
				// the root's inner node, whatever the two prefixes are (possible exactly when the
				// leaf prefix is a prefix of the inner prefix — with 0x00 / 0x01 it is not)
				if bytes.HasPrefix(innerPrefix, leafPrefix) {
					kind = "one-leaf-from-two-subtrees/prefix-aware"
					it := append([]byte{}, innerPrefix[len(leafPrefix):]...)
					other = [][]byte{append(append(it, l...), rr...)}
				}
			case 1:
				kind = "append-empty"
				other = append(append([][]byte{}, items...), []byte{})
			case 2:
				kind = "merge-adjacent"
				j := r.Intn(len(items) - 1)
				other = append([][]byte{}, items[:j]...)
				other = append(other, append(append([]byte{}, items[j]...), items[j+1]...))
				other = append(other, items[j+2:]...)
			default:
				kind = "leaf-hashes-as-items"
				for _, it := range items {
					other = append(other, leafHash(it))
				}
			}
			if cs.Want(id) {
				r2 := HashFromByteSlices(other)
				same := len(other) == len(items)
				if same {
					for i := range items {
						same = same && bytes.Equal(items[i], other[i])
					}
				}
				cs.Add(id, "second/"+kind, !same,
					vg.App("CSecond", vg.HxL(items), vg.HxL(other), vg.Hx(rootHash), vg.Hx(r2)),
					fmt.Sprintf("items=%x other=%x", items, other))
			}
		}
		prev = items
	}
	if err := cs.Write(); err != nil {
		t.Fatal(err)
	}
}
