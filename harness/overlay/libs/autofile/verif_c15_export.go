//go:build verif

package autofile

// C15: the two limit checks of Group are unexported and otherwise only reachable through the
// ticker goroutine (time-driven).  The consensus-package harness needs to run them at chosen
// points of an operation list; these wrappers add nothing else.  Injected with `go test
// -overlay`, never written into the repository.

func (g *Group) VerifC15CheckHeadSizeLimit()  { g.checkHeadSizeLimit() }
func (g *Group) VerifC15CheckTotalSizeLimit() { g.checkTotalSizeLimit() }
