//go:build verif

package pubsub

// C19 correspondence harness for API calls of pubsub.Server that are IN FLIGHT AT ONCE
// (check-then-act on Server.subscriptions around the command queue), with a CONTROLLED
// interleaving. Injected with `go test -overlay`; evaluated by coq/C19/ExecPhase.v.
//
// Every Subscribe / Unsubscribe / UnsubscribeAll call runs in three phases: check (under
// mtx.RLock), `s.cmds <- cmd` (the loop takes the command), post (under mtx.Lock). A batch of
// calls is driven like this:
//   1. the harness takes s.mtx.RLock() itself, so that no post phase can run yet;
//   2. one call after the other is started in its own goroutine with a private unbuffered
//      command channel (s.cmds is swapped before the goroutine starts); the harness waits until
//      the goroutine is parked in the `select` of the call (its check phase is over; found by
//      reading the goroutine dump) or has returned (check failed): all checks see the same
//      Server.subscriptions;
//   3. in a PRNG-chosen order the harness takes the commands from the private channels and hands
//      them to the server loop's real channel (the loop processes them in that order); after
//      each one it waits until the caller is parked in s.mtx.Lock() - writers queue up in that
//      order;
//   4. the harness releases its read lock: the post phases run in the order of step 3.
// The linearisation is therefore forced: checks (stale) first, commands in a known order, post
// phases in command order. Overlaps in which a post phase overtakes the post phase of an earlier
// command are a matter of goroutine scheduling between two adjacent statements of pubsub.go and
// cannot be forced; they are covered by the Coq model only (PhaseProofs.v).

import (
	"context"
	"fmt"
	"runtime"
	"strings"
	"testing"
	"time"

	vg "github.com/tendermint/tendermint/internal/verifgen"
	"github.com/tendermint/tendermint/libs/pubsub/query"
)

type c19OvCall struct {
	kind      int // 0 Subscribe, 1 Unsubscribe, 2 UnsubscribeAll
	c, q, cap int
	res       uint64 // 0 nil, 1 ErrAlreadySubscribed, 2 ErrSubscriptionNotFound, 8 panic, 9 other / stuck
	sub       *Subscription
	ch        chan cmd
	done      chan struct{}
	passed    bool
}

type c19OvInc struct {
	c, q, cap int
	sub       *Subscription
	got       []int
}

func (c *c19OvCall) text() string {
	switch c.kind {
	case 0:
		return fmt.Sprintf("Subscribe(c%d, q%d, cap %d)", c.c, c.q, c.cap)
	case 1:
		return fmt.Sprintf("Unsubscribe(c%d, q%d)", c.c, c.q)
	}
	return fmt.Sprintf("UnsubscribeAll(c%d)", c.c)
}

func (c *c19OvCall) coq() string {
	switch c.kind {
	case 0:
		return vg.App("XSub", vg.Nat(c.c), vg.Nat(c.q), vg.Nat(c.cap), vg.N(c.res))
	case 1:
		return vg.App("XUnsub", vg.Nat(c.c), vg.Nat(c.q), vg.N(c.res))
	}
	return vg.App("XUnsubAll", vg.Nat(c.c), vg.N(c.res))
}

// c19OvInvoke is the body of a call's goroutine (its name is looked for in the goroutine dump).
func c19OvInvoke(srv *Server, call *c19OvCall, queries []Query) {
	defer close(call.done)
	defer func() {
		if p := recover(); p != nil {
			call.res = 8
		}
	}()
	ctx, cancel := context.WithTimeout(context.Background(), 3*time.Second)
	defer cancel()
	client := fmt.Sprintf("c%d", call.c)
	switch call.kind {
	case 0:
		sub, err := srv.Subscribe(ctx, client, queries[call.q], call.cap)
		call.res, call.sub = c19ErrCode(err), sub
	case 1:
		call.res = c19ErrCode(srv.Unsubscribe(ctx, client, queries[call.q]))
	default:
		call.res = c19ErrCode(srv.UnsubscribeAll(ctx, client))
	}
}

// c19OvParked counts the c19OvInvoke goroutines that are parked in a select (sel) resp. inside
// RWMutex.Lock (!sel).
func c19OvParked(sel bool) int {
	buf := make([]byte, 1<<20)
	buf = buf[:runtime.Stack(buf, true)]
	n := 0
	for _, g := range strings.Split(string(buf), "\n\n") {
		if !strings.Contains(g, "c19OvInvoke") {
			continue
		}
		head := g
		if i := strings.Index(g, "\n"); i >= 0 {
			head = g[:i]
		}
		if strings.Contains(head, "[running") || strings.Contains(head, "[runnable") {
			continue
		}
		if sel {
			if strings.Contains(head, "[select") {
				n++
			}
		} else if strings.Contains(g, "RWMutex).Lock") {
			n++
		}
	}
	return n
}

func c19OvWait(cond func() bool) bool {
	deadline := time.Now().Add(2 * time.Second)
	for !cond() {
		if time.Now().After(deadline) {
			return false
		}
		time.Sleep(20 * time.Microsecond)
	}
	return true
}

type c19OvRun struct {
	srv     *Server
	orig    chan cmd
	queries []Query
	incs    []*c19OvInc
	stuck   bool
}

// batch drives the calls as described at the top; order is a permutation of the calls whose
// check passed (indices into the passed ones, in issue order). It returns the calls in command
// order (the calls whose check failed last).
func (run *c19OvRun) batch(calls []*c19OvCall, perm func(n int) []int) []*c19OvCall {
	srv := run.srv
	if run.stuck {
		for _, c := range calls {
			c.res = 9
		}
		return calls
	}
	srv.mtx.RLock()
	returned := func() int {
		n := 0
		for _, c := range calls {
			select {
			case <-c.done:
				n++
			default:
			}
		}
		return n
	}
	for i, c := range calls {
		c.ch = make(chan cmd)
		c.done = make(chan struct{})
		srv.cmds = c.ch
		go c19OvInvoke(srv, c, run.queries)
		if !c19OvWait(func() bool { return c19OvParked(true)+returned() == i+1 }) {
			run.stuck = true
		}
	}
	var passed, failed []*c19OvCall
	for _, c := range calls {
		select {
		case <-c.done:
			failed = append(failed, c)
		default:
			c.passed = true
			passed = append(passed, c)
		}
	}
	var ordered []*c19OvCall
	for k, pi := range perm(len(passed)) {
		c := passed[pi]
		ordered = append(ordered, c)
		select {
		case cm := <-c.ch:
			run.orig <- cm
		case <-time.After(2 * time.Second):
			run.stuck = true
		}
		if !c19OvWait(func() bool { return c19OvParked(false) == k+1 }) {
			run.stuck = true
		}
	}
	srv.mtx.RUnlock()
	for _, c := range calls {
		select {
		case <-c.done:
		case <-time.After(4 * time.Second):
			run.stuck = true
			c.res = 9
		}
	}
	srv.cmds = run.orig
	for _, c := range ordered {
		if c.kind == 0 && c.res == 0 && c.sub != nil {
			run.incs = append(run.incs, &c19OvInc{c: c.c, q: c.q, cap: c.cap, sub: c.sub})
		}
	}
	run.barrier()
	return append(ordered, failed...)
}

func (run *c19OvRun) barrier() {
	if run.stuck {
		return
	}
	ctx, cancel := context.WithTimeout(context.Background(), 2*time.Second)
	defer cancel()
	if err := run.srv.PublishWithEvents(ctx, -1, map[string][]string{}); err != nil {
		run.stuck = true
	}
}

type c19OvStep struct {
	calls []*c19OvCall // a batch
	order []int        // command order among the calls whose check passes (nil: issue order)
	rnd   uint64       // != 0: the command order is a PRNG permutation drawn from this seed
	pub   bool
	m     int
	ev    []c19KV
}

func c19OvQueries() ([][]c19Cond, []Query, []string, []string) {
	var qs [][]c19Cond
	var queries []Query
	var qcoq, qtext []string
	for i := 0; i < 3; i++ {
		q := []c19Cond{{key: "tm.event", op: 4, kind: 0, s: fmt.Sprintf("E%d", i)}}
		pq, err := query.New(c19Text(q))
		if err != nil {
			panic(err)
		}
		qs = append(qs, q)
		queries = append(queries, pq)
		qcoq = append(qcoq, c19QueryCoq(q))
		qtext = append(qtext, fmt.Sprintf("q%d = %q", i, c19Text(q)))
	}
	return qs, queries, qcoq, qtext
}

// c19OvCase runs the steps on a fresh Server and adds the case.
func c19OvCase(t *testing.T, cs *vg.Cases, kind string, nclients int, steps []c19OvStep) {
	id := cs.NextID()
	if !cs.Want(id) {
		return
	}
	_, queries, qcoq, qtext := c19OvQueries()
	srv := NewServer()
	if err := srv.Start(); err != nil {
		t.Fatal(err)
	}
	run := &c19OvRun{srv: srv, orig: srv.cmds, queries: queries}
	run.barrier() // the loop goroutine has evaluated s.cmds (it ranges over the original channel)
	var ops, descr []string
	observe := func() {
		if run.stuck {
			return
		}
		per := make([]string, nclients)
		var pt []string
		for c := 0; c < nclients; c++ {
			n := srv.NumClientSubscriptions(fmt.Sprintf("c%d", c))
			per[c] = vg.Nat(n)
			pt = append(pt, fmt.Sprintf("c%d:%d", c, n))
		}
		ops = append(ops, vg.App("OObs", vg.Nat(srv.NumClients()), vg.L(per)))
		descr = append(descr, fmt.Sprintf("NumClients()=%d NumClientSubscriptions %s", srv.NumClients(), strings.Join(pt, " ")))
	}
	publish := func(m int, ev []c19KV) {
		em := c19EvMap(ev)
		var mi []string
		for _, q := range queries {
			mi = append(mi, vg.N(c19Matches(q, em)))
		}
		if !run.stuck {
			ctx, cancel := context.WithTimeout(context.Background(), 2*time.Second)
			if err := srv.PublishWithEvents(ctx, m, em); err != nil {
				run.stuck = true
			}
			cancel()
			run.barrier()
		}
		ops = append(ops, vg.App("OPub", vg.Nat(m), c19EvCoq(ev), vg.L(mi)))
		descr = append(descr, fmt.Sprintf("PublishWithEvents(%d, %s)", m, c19EvText(ev)))
	}
	m := 0
	for _, st := range steps {
		if st.pub {
			publish(m, st.ev)
			m++
			continue
		}
		order, rnd := st.order, st.rnd
		ordered := run.batch(st.calls, func(n int) []int {
			if rnd != 0 {
				return vg.NewRand(rnd).Perm(n)
			}
			if len(order) == n {
				return order
			}
			p := make([]int, n)
			for i := range p {
				p[i] = i
			}
			return p
		})
		var xs, ds []string
		for _, c := range ordered {
			xs = append(xs, c.coq())
			d := fmt.Sprintf("%s -> %d", c.text(), c.res)
			if !c.passed {
				d += " (refused by its check)"
			}
			ds = append(ds, d)
		}
		ops = append(ops, vg.App("OBatch", vg.L(xs)))
		if len(ordered) == 1 {
			descr = append(descr, ds[0])
		} else {
			descr = append(descr, "IN FLIGHT TOGETHER (all checks first, then commands and post phases in this order): "+strings.Join(ds, ", "))
		}
		observe()
	}
	// delivery: one publication per query, then everything is drained
	for q := 0; q < len(queries); q++ {
		publish(m, []c19KV{{"tm.event", []string{fmt.Sprintf("E%d", q)}}})
		m++
	}
	var incs, incText []string
	for _, in := range run.incs {
		for {
			select {
			case msg := <-in.sub.Out():
				in.got = append(in.got, msg.Data().(int))
				continue
			default:
			}
			break
		}
		got := make([]string, len(in.got))
		for i, x := range in.got {
			got[i] = vg.Nat(x)
		}
		var e uint64
		switch in.sub.Err() {
		case nil:
			e = 0
		case ErrUnsubscribed:
			e = 1
		case ErrOutOfCapacity:
			e = 2
		case ErrAlreadySubscribed:
			e = 3
		default:
			e = 9
		}
		incs = append(incs, vg.Tup(vg.Nat(in.c), vg.Nat(in.q), vg.Nat(in.cap), vg.L(got), vg.N(e)))
		incText = append(incText, fmt.Sprintf("c%d/q%d cap=%d received=%v err=%v", in.c, in.q, in.cap, in.got, in.sub.Err()))
	}
	observe()
	// probes: repeat Subscribe for every pair
	var probes, probeText []string
	for c := 0; c < nclients; c++ {
		for q := range queries {
			res := uint64(9)
			if !run.stuck {
				ctx, cancel := context.WithTimeout(context.Background(), 2*time.Second)
				_, err := srv.Subscribe(ctx, fmt.Sprintf("c%d", c), queries[q], 1)
				cancel()
				res = c19ErrCode(err)
			}
			probes = append(probes, vg.Tup(vg.Nat(c), vg.Nat(q), vg.N(res)))
			probeText = append(probeText, fmt.Sprintf("Subscribe(c%d,q%d)->%d", c, q, res))
		}
	}
	go func() { defer func() { _ = recover() }(); _ = srv.Stop() }()
	cs.Add(id, kind, len(run.incs) >= 2,
		vg.App("OCase", vg.L(qcoq), vg.L(ops), vg.L(incs), vg.L(probes)),
		fmt.Sprintf("queries: %s; on a fresh pubsub.Server (results: 0 nil, 1 ErrAlreadySubscribed, 2 ErrSubscriptionNotFound): %s; subscriptions handed out (in command order): %s; then every Subscribe repeated: %s; stuck=%v",
			strings.Join(qtext, ", "), strings.Join(descr, "; "), strings.Join(incText, " | "), strings.Join(probeText, " "), run.stuck))
}

func c19OvSub(c, q, cp int) *c19OvCall { return &c19OvCall{kind: 0, c: c, q: q, cap: cp} }
func c19OvUnsub(c, q int) *c19OvCall   { return &c19OvCall{kind: 1, c: c, q: q} }
func c19OvUnsubAll(c int) *c19OvCall   { return &c19OvCall{kind: 2, c: c} }
func c19OvB(calls ...*c19OvCall) c19OvStep {
	return c19OvStep{calls: calls}
}
func c19OvP(q ...int) c19OvStep {
	var vs []string
	for _, x := range q {
		vs = append(vs, fmt.Sprintf("E%d", x))
	}
	return c19OvStep{pub: true, ev: []c19KV{{"tm.event", vs}}}
}

func TestVerifC19Overlap(t *testing.T) {
	cs := vg.NewCases("C19", "c19_overlap", "TM.C19.ExecPhase")
	cs.CaseType = "ocase"
	cs.CheckFn = "ocheck_case"
	root := vg.NewRand(vg.Seed() ^ 0xc190e)

	// directed: two calls of one client in flight, every pairing of Subscribe(other query) /
	// Unsubscribe / UnsubscribeAll in both command orders, followed by a re-Subscribe
	two := [][2]func() *c19OvCall{
		{func() *c19OvCall { return c19OvSub(0, 1, 4) }, func() *c19OvCall { return c19OvUnsub(0, 0) }},
		{func() *c19OvCall { return c19OvSub(0, 1, 4) }, func() *c19OvCall { return c19OvUnsubAll(0) }},
		{func() *c19OvCall { return c19OvUnsub(0, 0) }, func() *c19OvCall { return c19OvUnsubAll(0) }},
		{func() *c19OvCall { return c19OvUnsub(0, 0) }, func() *c19OvCall { return c19OvUnsub(0, 0) }},
		{func() *c19OvCall { return c19OvSub(0, 0, 4) }, func() *c19OvCall { return c19OvUnsub(0, 0) }},
		{func() *c19OvCall { return c19OvSub(0, 1, 4) }, func() *c19OvCall { return c19OvSub(0, 2, 4) }},
	}
	for _, pr := range two {
		for _, order := range [][]int{{0, 1}, {1, 0}} {
			c19OvCase(t, cs, "directed-two-in-flight", 2, []c19OvStep{
				c19OvB(c19OvSub(0, 0, 4)), c19OvB(c19OvSub(1, 0, 4)), c19OvP(0),
				{calls: []*c19OvCall{pr[0](), pr[1]()}, order: order},
				c19OvP(0, 1), c19OvB(c19OvSub(0, 1, 4)), c19OvP(1, 2)})
		}
	}
	// directed: two Subscribe calls of the SAME pair in flight (both pass the check)
	c19OvCase(t, cs, "directed-same-pair-subscribes", 2, []c19OvStep{
		c19OvB(c19OvSub(1, 1, 4)), c19OvB(c19OvSub(0, 1, 4), c19OvSub(0, 1, 2)), c19OvP(1), c19OvP(1, 2),
		c19OvB(c19OvUnsub(0, 1)), c19OvP(1), c19OvB(c19OvSub(0, 1, 1)), c19OvP(1)})
	// directed: three calls of one client: an entry detached (UnsubscribeAll, or the last
	// Unsubscribe), re-created by a Subscribe, and an Unsubscribe whose check ran before both
	c19OvCase(t, cs, "directed-three-in-flight", 1, []c19OvStep{
		c19OvB(c19OvSub(0, 0, 4)), c19OvB(c19OvUnsubAll(0), c19OvSub(0, 1, 4), c19OvUnsub(0, 0)), c19OvP(0, 1)})
	c19OvCase(t, cs, "directed-three-in-flight", 1, []c19OvStep{
		c19OvB(c19OvSub(0, 0, 4)), c19OvB(c19OvUnsub(0, 0), c19OvSub(0, 1, 4), c19OvUnsub(0, 0)), c19OvP(0, 1)})
	c19OvCase(t, cs, "directed-three-in-flight", 2, []c19OvStep{
		c19OvB(c19OvSub(0, 0, 4)), c19OvB(c19OvSub(0, 2, 4)),
		c19OvB(c19OvUnsub(0, 2), c19OvUnsubAll(0), c19OvSub(0, 1, 4), c19OvSub(1, 1, 1)), c19OvP(1), c19OvP(1, 2)})

	// random: 1-3 clients (client 0 is the busy one), 3 query strings, 3-7 rounds of a batch of
	// 1-4 calls in a PRNG-chosen command order, publications in between
	n := vg.Scale(150, 4000)
	for k := 0; k < n; k++ {
		r := root.Fork(uint64(k))
		nclients := 1 + r.Intn(3)
		var steps []c19OvStep
		rounds := 3 + r.Intn(5)
		for i := 0; i < rounds; i++ {
			size := 1 + r.Intn(4)
			if i == 0 {
				size = 1 + r.Intn(2)
			}
			var calls []*c19OvCall
			for j := 0; j < size; j++ {
				c := 0
				if r.Chance(35) {
					c = r.Intn(nclients)
				}
				switch kk := r.Intn(100); {
				case kk < 45 || i == 0:
					calls = append(calls, c19OvSub(c, r.Intn(3), 1+r.Intn(4)))
				case kk < 80:
					calls = append(calls, c19OvUnsub(c, r.Intn(3)))
				default:
					calls = append(calls, c19OvUnsubAll(c))
				}
			}
			// the command order is drawn when the number of passing checks is known
			steps = append(steps, c19OvStep{calls: calls, rnd: r.Uint64() | 1})
			for p := r.Intn(3); p > 0; p-- {
				vs := []string{fmt.Sprintf("E%d", r.Intn(3))}
				if r.Chance(30) {
					vs = append(vs, fmt.Sprintf("E%d", r.Intn(3)))
				}
				steps = append(steps, c19OvStep{pub: true, ev: []c19KV{{"tm.event", vs}}})
			}
		}
		c19OvCase(t, cs, "random", nclients, steps)
	}
	if err := cs.Write(); err != nil {
		t.Fatal(err)
	}
}
