//go:build verif

package pubsub

// C19 correspondence harness for libs/pubsub (injected with `go test -overlay`).
//
//   TestVerifC19Match   single queries against single event maps (real query.Matches)
//   TestVerifC19Pubsub  whole histories on a real Server.  Every command is followed by a
//                       barrier (an empty publication: the unbuffered command channel accepts
//                       it only after the loop finished the previous command), so a history is
//                       sequential and deterministic whatever the map iteration order.  Only
//                       per-subscription observables are recorded.  Unbuffered subscriptions
//                       get a reader goroutine; buffered ones are read by explicit Read steps.
//                       The same history restricted to one client is replayed on a fresh server
//                       (isolation).
//   TestVerifC19State   histories on the loop's `state` value directly, tables read back.
//
// Queries are generated as condition lists (the AST of coq/C19/Query.v), printed to text and
// parsed by query.New; the PEG grammar itself is not under test here.

import (
	"context"
	"fmt"
	"sort"
	"strings"
	"sync"
	"testing"
	"time"

	vg "github.com/tendermint/tendermint/internal/verifgen"
	"github.com/tendermint/tendermint/libs/pubsub/query"
)

// ---------------------------------------------------------------- query / event generation

type c19Cond struct {
	key  string
	op   int // 0 <=, 1 >=, 2 <, 3 >, 4 =, 5 CONTAINS, 6 EXISTS
	kind int // 0 string, 1 int, 2 TIME, 3 DATE, 4 none
	s    string
	z    int64
}

var c19OpText = []string{"<=", ">=", "<", ">", "=", "CONTAINS", "EXISTS"}
var c19OprCoq = []string{"OpLe", "OpGe", "OpLt", "OpGt", "OpEq", "OpContains", "OpExists"}

var c19Keys = []string{"a.b", "a.c", "x.n", "x.t", "tm.event"}
var c19Bare = []string{"a", "x", "tm", "a.", "q"}
var c19Strs = []string{"Tx", "NewBlock", "abc", "ab", "b", "", "a b", "7"}
var c19Nums = []string{"7", "12", "5", "0", "6", "007", "x12y", "5.5", "3.", ".5", "1.2.3", ".", "-3",
	"99999999999999999999", "9223372036854775807", "9223372036854775808", "12abc34", "abc", "6.9"}
var c19Times = []string{"2020-01-01T10:00:00Z", "2020-01-01T12:00:00+02:00", "2019-12-31T23:59:59-01:00",
	"2020-02-29", "2021-02-29", "2020-13-01", "2020-01-01", "2020-01-01T25:00:00Z", "T", "2020-1-1",
	"2020-03-01T00:00:00Z", "1999-12-31", "abc", "2020-01-01T10:00:00", "2020-04-31"}
var c19IntOperands = []int64{0, 5, 6, 7, 12, 100, 9223372036854775807}
var c19TimeOperands = []string{"2020-01-01T10:00:00Z", "2020-01-01T00:00:00Z", "2019-12-31T22:59:59-02:00", "2020-03-01T00:00:00+00:00"}
var c19DateOperands = []string{"2020-01-01", "2020-02-29", "1999-12-31"}

func c19Text(q []c19Cond) string {
	var parts []string
	for _, c := range q {
		switch c.kind {
		case 4:
			parts = append(parts, c.key+" EXISTS")
		case 0:
			parts = append(parts, fmt.Sprintf("%s %s '%s'", c.key, c19OpText[c.op], c.s))
		case 1:
			parts = append(parts, fmt.Sprintf("%s %s %d", c.key, c19OpText[c.op], c.z))
		case 2:
			parts = append(parts, fmt.Sprintf("%s %s TIME %s", c.key, c19OpText[c.op], c.s))
		case 3:
			parts = append(parts, fmt.Sprintf("%s %s DATE %s", c.key, c19OpText[c.op], c.s))
		}
	}
	return strings.Join(parts, " AND ")
}

func c19Str(s string) string { return `"` + s + `"` }

func c19CondCoq(c c19Cond) string {
	arg := "ONone"
	switch c.kind {
	case 0:
		arg = "(OStr " + c19Str(c.s) + ")"
	case 1:
		arg = "(OInt " + vg.Z(c.z) + ")"
	case 2:
		t, err := time.Parse(time.RFC3339, c.s)
		if err != nil {
			panic(err)
		}
		arg = "(OTime " + vg.Z(t.Unix()) + ")"
	case 3:
		t, err := time.Parse("2006-01-02", c.s)
		if err != nil {
			panic(err)
		}
		arg = "(OTime " + vg.Z(t.Unix()) + ")"
	}
	return "(Build_cond " + c19Str(c.key) + " " + c19OprCoq[c.op] + " " + arg + ")"
}

func c19QueryCoq(q []c19Cond) string {
	xs := make([]string, len(q))
	for i, c := range q {
		xs[i] = c19CondCoq(c)
	}
	return vg.L(xs)
}

func c19GenCond(r *vg.Rand) c19Cond {
	key := c19Keys[r.Intn(len(c19Keys))]
	switch k := r.Intn(100); {
	case k < 10:
		if r.Chance(50) {
			key = c19Bare[r.Intn(len(c19Bare))]
		}
		return c19Cond{key: key, op: 6, kind: 4}
	case k < 35:
		if r.Chance(40) {
			key = "tm.event"
		}
		op := 4
		if r.Chance(35) {
			op = 5
		}
		return c19Cond{key: key, op: op, kind: 0, s: c19Strs[r.Intn(len(c19Strs))]}
	case k < 75:
		if r.Chance(60) {
			key = "x.n"
		}
		return c19Cond{key: key, op: r.Intn(5), kind: 1, z: c19IntOperands[r.Intn(len(c19IntOperands))]}
	case k < 90:
		if r.Chance(60) {
			key = "x.t"
		}
		return c19Cond{key: key, op: r.Intn(5), kind: 2, s: c19TimeOperands[r.Intn(len(c19TimeOperands))]}
	default:
		if r.Chance(60) {
			key = "x.t"
		}
		return c19Cond{key: key, op: r.Intn(5), kind: 3, s: c19DateOperands[r.Intn(len(c19DateOperands))]}
	}
}

func c19GenQuery(r *vg.Rand) []c19Cond {
	n := 1 + r.Intn(3)
	if r.Chance(50) {
		n = 1
	}
	q := make([]c19Cond, n)
	for i := range q {
		q[i] = c19GenCond(r)
	}
	return q
}

type c19KV struct {
	k  string
	vs []string
}

func c19GenValue(r *vg.Rand, key string) string {
	pool := c19Strs
	switch {
	case key == "x.n" && r.Chance(85):
		pool = c19Nums
	case key == "x.t" && r.Chance(85):
		pool = c19Times
	case key == "tm.event":
		return []string{"Tx", "NewBlock"}[r.Intn(2)]
	default:
		switch r.Intn(5) {
		case 0:
			pool = c19Nums
		case 1:
			pool = c19Times
		}
	}
	return pool[r.Intn(len(pool))]
}

func c19GenEvents(r *vg.Rand) []c19KV {
	if r.Chance(4) {
		return nil
	}
	perm := r.Perm(len(c19Keys))
	n := 1 + r.Intn(len(c19Keys))
	var ev []c19KV
	for _, i := range perm[:n] {
		k := c19Keys[i]
		nv := 1
		if r.Chance(30) {
			nv = 2 + r.Intn(2)
		}
		if r.Chance(3) {
			nv = 0
		}
		vs := make([]string, nv)
		for j := range vs {
			vs[j] = c19GenValue(r, k)
		}
		ev = append(ev, c19KV{k, vs})
	}
	return ev
}

func c19EvMap(ev []c19KV) map[string][]string {
	m := make(map[string][]string)
	for _, kv := range ev {
		m[kv.k] = kv.vs
	}
	return m
}

func c19EvCoq(ev []c19KV) string {
	xs := make([]string, len(ev))
	for i, kv := range ev {
		vs := make([]string, len(kv.vs))
		for j, v := range kv.vs {
			vs[j] = c19Str(v)
		}
		xs[i] = vg.Tup(c19Str(kv.k), vg.L(vs))
	}
	return vg.L(xs)
}

func c19EvText(ev []c19KV) string {
	xs := make([]string, len(ev))
	for i, kv := range ev {
		xs[i] = fmt.Sprintf("%q:%q", kv.k, kv.vs)
	}
	return "{" + strings.Join(xs, ", ") + "}"
}

// real Matches, panics recorded: 0 false, 1 true, 2 error, 9 panic
func c19Matches(q Query, ev map[string][]string) (code uint64) {
	defer func() {
		if recover() != nil {
			code = 9
		}
	}()
	ok, err := q.Matches(ev)
	switch {
	case err != nil:
		return 2
	case ok:
		return 1
	}
	return 0
}

// ---------------------------------------------------------------- TestVerifC19Match

func TestVerifC19Match(t *testing.T) {
	cs := vg.NewCases("C19", "c19_match", "TM.C19.Exec")
	root := vg.NewRand(vg.Seed() ^ 0xc19a)
	add := func(kind string, q []c19Cond, ev []c19KV) {
		id := cs.NextID()
		if !cs.Want(id) {
			return
		}
		text := c19Text(q)
		pq, err := query.New(text)
		if err != nil {
			t.Fatalf("case %d: generated query %q does not parse: %v", id, text, err)
		}
		code := c19Matches(pq, c19EvMap(ev))
		cs.Add(id, kind, len(q) > 0 && len(ev) > 0,
			vg.App("CMatch", c19QueryCoq(q), c19EvCoq(ev), vg.N(code)),
			fmt.Sprintf("query.MustParse(%q).Matches(%s) = %d (0 false, 1 true, 2 error)", text, c19EvText(ev), code))
	}
	// directed: every value shape against every operand kind and operator
	for _, v := range c19Nums {
		for op := 0; op < 5; op++ {
			add("directed-int", []c19Cond{{key: "x.n", op: op, kind: 1, z: 6}}, []c19KV{{"x.n", []string{v}}})
		}
	}
	for _, v := range c19Times {
		for i, lit := range c19TimeOperands[:2] {
			add("directed-time", []c19Cond{{key: "x.t", op: (i*2 + len(v)) % 5, kind: 2, s: lit}}, []c19KV{{"x.t", []string{v}}})
		}
		add("directed-date", []c19Cond{{key: "x.t", op: len(v) % 5, kind: 3, s: "2020-01-01"}}, []c19KV{{"x.t", []string{v}}})
		add("directed-date", []c19Cond{{key: "x.t", op: 4, kind: 3, s: "2020-02-29"}}, []c19KV{{"x.t", []string{v}}})
	}
	for _, b := range c19Bare {
		add("directed-exists", []c19Cond{{key: b, op: 6, kind: 4}}, []c19KV{{"a.b", []string{"1"}}, {"tm.event", []string{"Tx"}}})
	}
	add("directed-values-order", []c19Cond{{key: "x.n", op: 3, kind: 1, z: 5}}, []c19KV{{"x.n", []string{"abc", "7"}}})
	add("directed-values-order", []c19Cond{{key: "x.n", op: 3, kind: 1, z: 5}}, []c19KV{{"x.n", []string{"7", "abc"}}})
	add("directed-empty-events", []c19Cond{{key: "a.b", op: 6, kind: 4}}, nil)
	n := vg.Scale(260, 6000)
	for k := 0; k < n; k++ {
		r := root.Fork(uint64(k))
		add("random", c19GenQuery(r), c19GenEvents(r))
	}
	if err := cs.Write(); err != nil {
		t.Fatal(err)
	}
}

// ---------------------------------------------------------------- TestVerifC19Pubsub

type c19Op struct {
	kind   int // 0 sub, 1 unsub, 2 unsuball, 3 pub, 4 read
	c, q   int
	cap, n int
	m      int
	ev     []c19KV
}

type c19Inc struct {
	c, q, cap int
	sub       *Subscription
	mu        sync.Mutex
	got       []int
	ping      chan chan struct{}
	stop      chan struct{}
}

func (in *c19Inc) reader() {
	for {
		select {
		case msg := <-in.sub.Out():
			in.mu.Lock()
			in.got = append(in.got, msg.Data().(int))
			in.mu.Unlock()
		case ack := <-in.ping:
			close(ack)
		case <-in.stop:
			return
		}
	}
}

func (in *c19Inc) take(n int) {
	for i := 0; n < 0 || i < n; i++ {
		select {
		case msg := <-in.sub.Out():
			in.got = append(in.got, msg.Data().(int))
		default:
			return
		}
	}
}

const c19Timeout = 400 * time.Millisecond

type c19Run struct {
	res   []uint64 // per sub/unsub/unsuball
	incs  []*c19Inc
	stuck bool
}

func c19ErrCode(err error) uint64 {
	switch err {
	case nil:
		return 0
	case ErrAlreadySubscribed:
		return 1
	case ErrSubscriptionNotFound:
		return 2
	}
	return 9
}

// c19Drive runs a history on a fresh real Server.
func c19Drive(ops []c19Op, queries []Query) *c19Run {
	run := &c19Run{}
	srv := NewServer()
	if err := srv.Start(); err != nil {
		panic(err)
	}
	cur := map[[2]int]*c19Inc{}
	barrier := func() {
		if run.stuck {
			return
		}
		ctx, cancel := context.WithTimeout(context.Background(), c19Timeout)
		defer cancel()
		if err := srv.PublishWithEvents(ctx, -1, map[string][]string{}); err != nil {
			run.stuck = true
		}
	}
	for _, o := range ops {
		ctx, cancel := context.WithTimeout(context.Background(), c19Timeout)
		client := fmt.Sprintf("c%d", o.c)
		switch o.kind {
		case 0:
			if run.stuck {
				run.res = append(run.res, 9)
				break
			}
			var sub *Subscription
			var err error
			if o.cap == 0 {
				sub, err = srv.SubscribeUnbuffered(ctx, client, queries[o.q])
			} else {
				sub, err = srv.Subscribe(ctx, client, queries[o.q], o.cap)
			}
			run.res = append(run.res, c19ErrCode(err))
			if err == nil {
				in := &c19Inc{c: o.c, q: o.q, cap: o.cap, sub: sub}
				if o.cap == 0 {
					in.ping = make(chan chan struct{})
					in.stop = make(chan struct{})
					go in.reader()
				}
				run.incs = append(run.incs, in)
				cur[[2]int{o.c, o.q}] = in
			}
		case 1:
			if run.stuck {
				run.res = append(run.res, 9)
				break
			}
			run.res = append(run.res, c19ErrCode(srv.Unsubscribe(ctx, client, queries[o.q])))
		case 2:
			if run.stuck {
				run.res = append(run.res, 9)
				break
			}
			run.res = append(run.res, c19ErrCode(srv.UnsubscribeAll(ctx, client)))
		case 3:
			if !run.stuck {
				if err := srv.PublishWithEvents(ctx, o.m, c19EvMap(o.ev)); err != nil {
					run.stuck = true
				}
			}
		case 4:
			if in := cur[[2]int{o.c, o.q}]; in != nil && in.cap > 0 {
				in.take(o.n)
			}
		}
		cancel()
		if o.kind != 4 {
			barrier()
		}
	}
	// final drain
	for _, in := range run.incs {
		if in.cap == 0 {
			if !run.stuck {
				ack := make(chan struct{})
				select {
				case in.ping <- ack:
					<-ack
				case <-time.After(c19Timeout):
				}
			}
			close(in.stop)
			in.mu.Lock()
			in.got = append([]int(nil), in.got...)
			in.mu.Unlock()
		} else {
			in.take(-1)
		}
	}
	go func() { defer func() { _ = recover() }(); _ = srv.Stop() }()
	return run
}

func c19IncCoq(in *c19Inc) string {
	got := make([]string, len(in.got))
	for i, m := range in.got {
		got[i] = vg.Nat(m)
	}
	var e uint64
	switch in.sub.Err() {
	case nil:
		e = 0
	case ErrUnsubscribed:
		e = 1
	case ErrOutOfCapacity:
		e = 2
	default:
		e = 9
	}
	return vg.Tup(vg.Nat(in.c), vg.Nat(in.q), vg.Nat(in.cap), vg.L(got), vg.N(e))
}

func c19IncText(in *c19Inc) string {
	return fmt.Sprintf("c%d/q%d cap=%d received=%v err=%v", in.c, in.q, in.cap, in.got, in.sub.Err())
}

func c19GenHistory(r *vg.Rand, nq int, directed int) (ops []c19Op, nclients int) {
	nclients = 1 + r.Intn(6)
	nops := 6 + r.Intn(22)
	caps := []int{0, 1, 1, 2, 5}
	m := 0
	// start with a few subscriptions so that publications have readers
	for i := 0; i < 1+r.Intn(3); i++ {
		ops = append(ops, c19Op{kind: 0, c: r.Intn(nclients), q: r.Intn(nq), cap: caps[r.Intn(len(caps))]})
	}
	for len(ops) < nops {
		switch k := r.Intn(100); {
		case k < 20:
			ops = append(ops, c19Op{kind: 0, c: r.Intn(nclients), q: r.Intn(nq), cap: caps[r.Intn(len(caps))]})
		case k < 28:
			ops = append(ops, c19Op{kind: 1, c: r.Intn(nclients), q: r.Intn(nq)})
		case k < 32:
			ops = append(ops, c19Op{kind: 2, c: r.Intn(nclients)})
		case k < 82:
			ops = append(ops, c19Op{kind: 3, m: m, ev: c19GenEvents(r)})
			m++
		default:
			ops = append(ops, c19Op{kind: 4, c: r.Intn(nclients), q: r.Intn(nq), n: 1 + r.Intn(3)})
		}
	}
	return ops, nclients
}

func c19OpCoq(o c19Op, res uint64, mi []uint64) string {
	switch o.kind {
	case 0:
		return vg.App("XSub", vg.Nat(o.c), vg.Nat(o.q), vg.Nat(o.cap), vg.N(res))
	case 1:
		return vg.App("XUnsub", vg.Nat(o.c), vg.Nat(o.q), vg.N(res))
	case 2:
		return vg.App("XUnsubAll", vg.Nat(o.c), vg.N(res))
	case 3:
		xs := make([]string, len(mi))
		for i, x := range mi {
			xs[i] = vg.N(x)
		}
		return vg.App("XPub", vg.Nat(o.m), c19EvCoq(o.ev), vg.L(xs))
	}
	return vg.App("XRead", vg.Nat(o.c), vg.Nat(o.q), vg.Nat(o.n))
}

func c19OpText2(o c19Op, qtexts []string) string {
	switch o.kind {
	case 0:
		if o.cap == 0 {
			return fmt.Sprintf("SubscribeUnbuffered(c%d, q%d)", o.c, o.q)
		}
		return fmt.Sprintf("Subscribe(c%d, q%d, cap %d)", o.c, o.q, o.cap)
	case 1:
		return fmt.Sprintf("Unsubscribe(c%d, q%d)", o.c, o.q)
	case 2:
		return fmt.Sprintf("UnsubscribeAll(c%d)", o.c)
	case 3:
		return fmt.Sprintf("PublishWithEvents(%d, %s)", o.m, c19EvText(o.ev))
	}
	return fmt.Sprintf("c%d reads <=%d from q%d", o.c, o.n, o.q)
}

func c19AddPubCase(t *testing.T, cs *vg.Cases, kind string, qs [][]c19Cond, ops []c19Op, cstar int) {
	id := cs.NextID()
	if !cs.Want(id) {
		return
	}
	qtexts := make([]string, len(qs))
	queries := make([]Query, len(qs))
	qcoq := make([]string, len(qs))
	for i, q := range qs {
		qtexts[i] = c19Text(q)
		pq, err := query.New(qtexts[i])
		if err != nil {
			t.Fatalf("case %d: generated query %q does not parse: %v", id, qtexts[i], err)
		}
		queries[i] = pq
		qcoq[i] = c19QueryCoq(q)
	}
	full := c19Drive(ops, queries)
	var sops []c19Op
	for _, o := range ops {
		if o.kind == 3 || o.c == cstar {
			sops = append(sops, o)
		}
	}
	solo := c19Drive(sops, queries)

	var xs, descr []string
	ri := 0
	for _, o := range ops {
		var res uint64
		var mi []uint64
		if o.kind <= 2 {
			res = full.res[ri]
			ri++
		}
		if o.kind == 3 {
			em := c19EvMap(o.ev)
			for _, q := range queries {
				mi = append(mi, c19Matches(q, em))
			}
		}
		xs = append(xs, c19OpCoq(o, res, mi))
		d := c19OpText2(o, qtexts)
		if o.kind <= 2 {
			d += fmt.Sprintf(" -> %d", res)
		}
		descr = append(descr, d)
	}
	incs := make([]string, len(full.incs))
	var incText []string
	for i, in := range full.incs {
		incs[i] = c19IncCoq(in)
		incText = append(incText, c19IncText(in))
	}
	sincs := make([]string, len(solo.incs))
	var sincText []string
	for i, in := range solo.incs {
		sincs[i] = c19IncCoq(in)
		sincText = append(sincText, c19IncText(in))
	}
	qd := make([]string, len(qtexts))
	for i, s := range qtexts {
		qd[i] = fmt.Sprintf("q%d = %q", i, s)
	}
	cs.Add(id, kind, len(full.incs) >= 2,
		vg.App("CPub", vg.L(qcoq), vg.L(xs), vg.L(incs), vg.Nat(cstar), vg.L(sincs)),
		fmt.Sprintf("queries: %s; history on a fresh pubsub.Server (each command waited for): %s; subscriptions handed out: %s; stuck=%v; same history with client c%d only: %s",
			strings.Join(qd, ", "), strings.Join(descr, "; "), strings.Join(incText, " | "), full.stuck, cstar, strings.Join(sincText, " | ")))
}

func TestVerifC19Pubsub(t *testing.T) {
	cs := vg.NewCases("C19", "c19_pubsub", "TM.C19.Exec")
	root := vg.NewRand(vg.Seed() ^ 0xc19b)

	// directed regression for F10: another client's query errors on the event's value
	// (transfer-amount style comparison against "abc"); 8 such subscribers make it
	// practically certain that one of them is visited before the honest subscriber.
	{
		good := []c19Cond{{key: "tm.event", op: 4, kind: 0, s: "Tx"}}
		qs := [][]c19Cond{good}
		var ops []c19Op
		ops = append(ops, c19Op{kind: 0, c: 0, q: 0, cap: 0})
		for i := 1; i <= 8; i++ {
			qs = append(qs, []c19Cond{{key: "x.n", op: 3, kind: 1, z: int64(i)}})
			ops = append(ops, c19Op{kind: 0, c: i, q: i, cap: 5})
		}
		for m := 0; m < 4; m++ {
			ops = append(ops, c19Op{kind: 3, m: m, ev: []c19KV{{"tm.event", []string{"Tx"}}, {"x.n", []string{"abc"}}}})
		}
		c19AddPubCase(t, cs, "directed-F10", qs, ops, 0)
	}
	// directed: capacity exhaustion, resubscription after it
	{
		qs := [][]c19Cond{{{key: "tm.event", op: 4, kind: 0, s: "Tx"}}}
		ev := []c19KV{{"tm.event", []string{"Tx"}}}
		ops := []c19Op{{kind: 0, c: 0, q: 0, cap: 1}, {kind: 0, c: 1, q: 0, cap: 2}, {kind: 3, m: 0, ev: ev}, {kind: 3, m: 1, ev: ev},
			{kind: 0, c: 0, q: 0, cap: 1}, {kind: 1, c: 0, q: 0}, {kind: 0, c: 0, q: 0, cap: 1}, {kind: 3, m: 2, ev: ev},
			{kind: 4, c: 1, q: 0, n: 1}, {kind: 3, m: 3, ev: ev}, {kind: 2, c: 1}, {kind: 3, m: 4, ev: ev}}
		c19AddPubCase(t, cs, "directed-capacity", qs, ops, 0)
		c19AddPubCase(t, cs, "directed-capacity", qs, ops, 1)
	}
	n := vg.Scale(300, 8000)
	for k := 0; k < n; k++ {
		r := root.Fork(uint64(k))
		nq := 1 + r.Intn(4)
		qs := make([][]c19Cond, 0, nq)
		seen := map[string]bool{}
		for len(qs) < nq {
			q := c19GenQuery(r)
			if s := c19Text(q); !seen[s] {
				seen[s] = true
				qs = append(qs, q)
			}
		}
		ops, nclients := c19GenHistory(r, nq, 0)
		c19AddPubCase(t, cs, "random", qs, ops, r.Intn(nclients))
	}
	// (appended after the random family so that its case ids stay what they were)
	// directed: three buffered subscribers under the IDENTICAL query string whose buffers are
	// full at the same publication (each must be cancelled with ErrOutOfCapacity after a strict
	// prefix), next to one that keeps up; then resubscription of one of them
	{
		qs := [][]c19Cond{{{key: "tm.event", op: 4, kind: 0, s: "Tx"}}}
		ev := []c19KV{{"tm.event", []string{"Tx"}}}
		ops := []c19Op{{kind: 0, c: 0, q: 0, cap: 1}, {kind: 0, c: 1, q: 0, cap: 1}, {kind: 0, c: 2, q: 0, cap: 1},
			{kind: 0, c: 3, q: 0, cap: 5}, {kind: 3, m: 0, ev: ev}, {kind: 3, m: 1, ev: ev}, {kind: 3, m: 2, ev: ev},
			{kind: 4, c: 3, q: 0, n: 3}, {kind: 0, c: 1, q: 0, cap: 2}, {kind: 3, m: 3, ev: ev}, {kind: 1, c: 0, q: 0},
			{kind: 3, m: 4, ev: ev}, {kind: 3, m: 5, ev: ev}, {kind: 3, m: 6, ev: ev}}
		for c := 0; c < 4; c++ {
			c19AddPubCase(t, cs, "directed-shared-query-overflow", qs, ops, c)
		}
	}
	// random family: 2-5 clients subscribed with the identical query string (1-2 query strings
	// in all), capacities 1-3 (one of them possibly roomy or unbuffered), bursts of matching
	// publications with few or no reads in between, so that several buffers are full at the
	// same publication; occasional unsubscribe / resubscribe
	nb := vg.Scale(40, 1500)
	for k := 0; k < nb; k++ {
		r := root.Fork(uint64(1000000 + k))
		nq := 1 + r.Intn(2)
		qs := [][]c19Cond{{{key: "tm.event", op: 4, kind: 0, s: "Tx"}}}
		if nq == 2 {
			qs = append(qs, []c19Cond{{key: "x.n", op: 6, kind: 4}})
		}
		evs := [][]c19KV{{{"tm.event", []string{"Tx"}}, {"x.n", []string{"7"}}}, {{"tm.event", []string{"Tx"}}},
			{{"x.n", []string{"1"}}}, {{"tm.event", []string{"NewBlock"}}}}
		nclients := 2 + r.Intn(4)
		var ops []c19Op
		for c := 0; c < nclients; c++ {
			cp := 1 + r.Intn(3)
			if r.Chance(12) {
				cp = []int{0, 5}[r.Intn(2)]
			}
			ops = append(ops, c19Op{kind: 0, c: c, q: 0, cap: cp})
			if nq == 2 && r.Chance(40) {
				ops = append(ops, c19Op{kind: 0, c: c, q: 1, cap: 1 + r.Intn(2)})
			}
		}
		m := 0
		for burst := 0; burst < 2+r.Intn(3); burst++ {
			for i := 0; i < 2+r.Intn(4); i++ {
				ops = append(ops, c19Op{kind: 3, m: m, ev: evs[r.Intn(len(evs))]})
				m++
				if r.Chance(15) {
					ops = append(ops, c19Op{kind: 4, c: r.Intn(nclients), q: r.Intn(nq), n: 1 + r.Intn(2)})
				}
			}
			switch r.Intn(4) {
			case 0:
				ops = append(ops, c19Op{kind: 0, c: r.Intn(nclients), q: r.Intn(nq), cap: 1 + r.Intn(2)})
			case 1:
				ops = append(ops, c19Op{kind: 1, c: r.Intn(nclients), q: r.Intn(nq)})
			case 2:
				ops = append(ops, c19Op{kind: 4, c: r.Intn(nclients), q: r.Intn(nq), n: 1 + r.Intn(3)})
			}
		}
		c19AddPubCase(t, cs, "random-shared-query-bursts", qs, ops, r.Intn(nclients))
	}
	if err := cs.Write(); err != nil {
		t.Fatal(err)
	}
}

// ---------------------------------------------------------------- TestVerifC19State

func c19Tables(s *state) string {
	var qk []string
	for q := range s.subscriptions {
		qk = append(qk, q)
	}
	sort.Strings(qk)
	var tb []string
	for _, q := range qk {
		var cl []int
		for c := range s.subscriptions[q] {
			var ci int
			fmt.Sscanf(c, "c%d", &ci)
			cl = append(cl, ci)
		}
		sort.Ints(cl)
		xs := make([]string, len(cl))
		for i, c := range cl {
			xs[i] = vg.Nat(c)
		}
		var qi int
		fmt.Sscanf(q, "q%d", &qi)
		tb = append(tb, vg.Tup(vg.Nat(qi), vg.L(xs)))
	}
	qk = qk[:0]
	for q := range s.queries {
		qk = append(qk, q)
	}
	sort.Strings(qk)
	var rc []string
	for _, q := range qk {
		var qi int
		fmt.Sscanf(q, "q%d", &qi)
		rc = append(rc, vg.Tup(vg.Nat(qi), vg.Z(int64(s.queries[q].refCount))))
	}
	return vg.Tup(vg.L(tb), vg.L(rc))
}

// a Query whose String() is a short stable name "q<i>" (the tables are keyed by it)
type c19NamedQuery struct {
	Query
	name string
}

func (q c19NamedQuery) String() string { return q.name }

func TestVerifC19State(t *testing.T) {
	cs := vg.NewCases("C19", "c19_state", "TM.C19.Exec")
	root := vg.NewRand(vg.Seed() ^ 0xc19c)
	n := vg.Scale(120, 4000)
	for k := 0; k < n; k++ {
		id := cs.NextID()
		if !cs.Want(id) {
			continue
		}
		r := root.Fork(uint64(k))
		nq := 1 + r.Intn(4)
		if nq > 9 {
			nq = 9
		}
		var qs [][]c19Cond
		var queries []Query
		var qcoq, qd []string
		for i := 0; i < nq; i++ {
			q := c19GenQuery(r)
			pq, err := query.New(c19Text(q))
			if err != nil {
				t.Fatalf("case %d: %q: %v", id, c19Text(q), err)
			}
			qs = append(qs, q)
			queries = append(queries, c19NamedQuery{pq, fmt.Sprintf("q%d", i)})
			qcoq = append(qcoq, c19QueryCoq(q))
			qd = append(qd, fmt.Sprintf("q%d = %q", i, c19Text(q)))
		}
		nclients := 1 + r.Intn(5)
		st := state{subscriptions: make(map[string]map[string]*Subscription), queries: make(map[string]*queryPlusRefCount)}
		present := map[[2]int]bool{}
		var steps, descr []string
		nops := 5 + r.Intn(16)
		m := 0
		// the body runs in its own goroutine: a send that blocks (or panics) must not take the
		// whole run down; it is recorded as a final step whose tables fail clause 5
		var mu sync.Mutex
		done := make(chan struct{})
		go func() {
			defer close(done)
			defer func() {
				if p := recover(); p != nil {
					mu.Lock()
					descr = append(descr, fmt.Sprintf("PANIC %v", p))
					mu.Unlock()
				}
			}()
			for i := 0; i < nops; i++ {
				var term, d string
				switch kk := r.Intn(100); {
				case kk < 35:
					c, q, cp := r.Intn(nclients), r.Intn(nq), 1+r.Intn(2)
					if present[[2]int{c, q}] { // Server.subscribe refuses; not a state operation
						continue
					}
					present[[2]int{c, q}] = true
					st.add(fmt.Sprintf("c%d", c), queries[q], NewSubscription(cp))
					term, d = vg.App("SAdd", vg.Nat(c), vg.Nat(q), vg.Nat(cp)), fmt.Sprintf("add(c%d,q%d,cap %d)", c, q, cp)
				case kk < 50:
					c, q := r.Intn(nclients), r.Intn(nq)
					st.remove(fmt.Sprintf("c%d", c), fmt.Sprintf("q%d", q), ErrUnsubscribed)
					delete(present, [2]int{c, q})
					term, d = vg.App("SRemove", vg.Nat(c), vg.Nat(q)), fmt.Sprintf("remove(c%d,q%d)", c, q)
				case kk < 58:
					c := r.Intn(nclients)
					st.removeClient(fmt.Sprintf("c%d", c), ErrUnsubscribed)
					for q := 0; q < nq; q++ {
						delete(present, [2]int{c, q})
					}
					term, d = vg.App("SRemoveClient", vg.Nat(c)), fmt.Sprintf("removeClient(c%d)", c)
				default:
					ev := c19GenEvents(r)
					_ = st.send(m, c19EvMap(ev))
					// a subscription cancelled for capacity may be added again (after the
					// client's Unsubscribe at Server level); reflect the table
					for key := range present {
						if cl, ok := st.subscriptions[fmt.Sprintf("q%d", key[1])]; !ok || cl[fmt.Sprintf("c%d", key[0])] == nil {
							delete(present, key)
						}
					}
					term, d = vg.App("SSend", vg.Nat(m), c19EvCoq(ev)), fmt.Sprintf("send(%d,%s)", m, c19EvText(ev))
					m++
				}
				mu.Lock()
				steps = append(steps, vg.Tup(term, c19Tables(&st)))
				descr = append(descr, d)
				mu.Unlock()
			}
			mu.Lock()
			descr = append(descr, "END")
			mu.Unlock()
		}()
		select {
		case <-done:
		case <-time.After(2 * time.Second):
		}
		mu.Lock()
		if len(descr) == 0 || descr[len(descr)-1] != "END" {
			if len(descr) == 0 || !strings.HasPrefix(descr[len(descr)-1], "PANIC") {
				descr = append(descr, "BLOCKED (the next step did not return within 2s)")
			}
			steps = append(steps, vg.Tup("(SSend 999999 [])", "([(0%nat, [])], [])"))
		} else {
			descr = descr[:len(descr)-1]
		}
		steps = append([]string(nil), steps...)
		descr = append([]string(nil), descr...)
		mu.Unlock()
		cs.Add(id, "random", len(steps) >= 4,
			vg.App("CState", vg.L(qcoq), vg.L(steps)),
			fmt.Sprintf("queries: %s; on a fresh pubsub state: %s (tables read back after every step)", strings.Join(qd, ", "), strings.Join(descr, "; ")))
	}
	if err := cs.Write(); err != nil {
		t.Fatal(err)
	}
}
