//go:build verif

package statesync

// C14 correspondence harness, provenance part: the real lightClientStateProvider over a real
// light.Client (mock primary + witness serving one honestly signed chain, deterministic keys)
// and a JSON-RPC stub answering consensus_params PER REQUESTED HEIGHT.  The chains change their
// consensus params (ConsensusHash), validator set, app version, app hash and results hash from
// height to height (chain A: at every height; chain B: at seeded heights), so that a field taken
// from the wrong one of the blocks h, h+1, h+2 is visible.  AppHash / Commit / State are compared
// with the specification coq/C14/Spec.v (clauses 14, 15, 17) and with the model (Model.v
// lc_apphash, lc_commit, lc_state over lrpc_params).
// Header times are taken relative to time.Now() (the provider calls time.Now() itself), so the
// hashes in the cases differ from run to run; the structure of the cases does not.

import (
	"context"
	"encoding/json"
	"fmt"
	"io"
	"net/http"
	"net/http/httptest"
	"strings"
	"testing"
	"time"

	dbm "github.com/tendermint/tm-db"

	"github.com/tendermint/tendermint/crypto/ed25519"
	"github.com/tendermint/tendermint/crypto/tmhash"
	vg "github.com/tendermint/tendermint/internal/verifgen"
	"github.com/tendermint/tendermint/libs/log"
	"github.com/tendermint/tendermint/light"
	lightprovider "github.com/tendermint/tendermint/light/provider"
	mockp "github.com/tendermint/tendermint/light/provider/mock"
	lightdb "github.com/tendermint/tendermint/light/store/db"
	tmstate "github.com/tendermint/tendermint/proto/tendermint/state"
	tmproto "github.com/tendermint/tendermint/proto/tendermint/types"
	tmversion "github.com/tendermint/tendermint/proto/tendermint/version"
	ctypes "github.com/tendermint/tendermint/rpc/core/types"
	rpctypes "github.com/tendermint/tendermint/rpc/jsonrpc/types"
	sm "github.com/tendermint/tendermint/state"
	"github.com/tendermint/tendermint/types"
	"github.com/tendermint/tendermint/version"
)

const c14Chain = "c14-chain"

type c14Block struct {
	sh   *types.SignedHeader
	vals *types.ValidatorSet
}

// what varies along a chain; index = height, entries 1..top+1 (the validator set of top+1 is the
// NextValidatorsHash of top)
type c14ChainSpec struct {
	top      int
	maxBytes []int64  // ConsensusParams.Block.MaxBytes in force at the height
	power0   []int64  // voting power of validator 0
	third    []bool   // a third validator is in the set
	appv     []uint64 // Header.Version.App
	appHash  [][]byte // Header.AppHash (may be empty)
}

func (c c14ChainSpec) params(h int64) tmproto.ConsensusParams {
	p := *types.DefaultConsensusParams()
	p.Block.MaxBytes = c.maxBytes[h]
	return p
}

func (c c14ChainSpec) String() string {
	var sb strings.Builder
	for h := 1; h <= c.top; h++ {
		fmt.Fprintf(&sb, " h%d:{Block.MaxBytes:%d power(val0):%d third:%v App:%d AppHash:%x}", h, c.maxBytes[h], c.power0[h], c.third[h], c.appv[h], c.appHash[h])
	}
	return sb.String()
}

// chain A: everything differs between any two adjacent heights; header 4 has an empty AppHash
func c14ChainA(top int) c14ChainSpec {
	c := c14ChainSpec{top: top}
	for h := 0; h <= top+1; h++ {
		c.maxBytes = append(c.maxBytes, int64(5000000+1000*h))
		c.power0 = append(c.power0, int64(10+h))
		c.third = append(c.third, h%2 == 0)
		c.appv = append(c.appv, uint64(h))
		ah := []byte{0xa0, byte(h)}
		if h == 4 {
			ah = nil
		}
		c.appHash = append(c.appHash, ah)
	}
	return c
}

// chain B: each quantity changes at a height with probability 1/2
func c14ChainB(top int, r *vg.Rand) c14ChainSpec {
	c := c14ChainSpec{top: top}
	mb, pw, th, av := int64(2000000), int64(10), false, uint64(1)
	for h := 0; h <= top+1; h++ {
		if r.Bool() {
			mb += int64(1 + r.Intn(500))
		}
		if r.Bool() {
			pw += int64(1 + r.Intn(3))
		}
		if r.Chance(30) {
			th = !th
		}
		if r.Bool() {
			av++
		}
		ah := []byte{0xb0, byte(h), byte(r.Intn(256))}
		if r.Chance(20) {
			ah = nil
		}
		c.maxBytes, c.power0, c.third, c.appv, c.appHash = append(c.maxBytes, mb), append(c.power0, pw), append(c.third, th), append(c.appv, av), append(c.appHash, ah)
	}
	return c
}

var c14PVs = []types.MockPV{
	types.NewMockPVWithParams(ed25519.GenPrivKeyFromSecret([]byte("c14-val-0")), false, false),
	types.NewMockPVWithParams(ed25519.GenPrivKeyFromSecret([]byte("c14-val-1")), false, false),
	types.NewMockPVWithParams(ed25519.GenPrivKeyFromSecret([]byte("c14-val-2")), false, false),
}

// the chain's validator set at height h (1..top+1)
func (c c14ChainSpec) valsAt(h int64) *types.ValidatorSet {
	var vs []*types.Validator
	for i, pv := range c14PVs {
		pk, _ := pv.GetPubKey()
		power := int64(10)
		if i == 0 {
			power = c.power0[h]
		}
		if i == 2 {
			if !c.third[h] {
				continue
			}
			power = 4
		}
		vs = append(vs, types.NewValidator(pk, power))
	}
	return types.NewValidatorSet(vs)
}

// chain D: changes are sparse - the validator set changes at heights 3 and 6 only, the params at
// 4 and 7, the app version at 5 - so that the states following a snapshot mostly write records
// that POINT to the height of the last change (resolved through the records Bootstrap wrote)
func c14ChainD(top int) c14ChainSpec {
	c := c14ChainSpec{top: top}
	for h := 0; h <= top+1; h++ {
		mb, pw, av := int64(3000000), int64(10), uint64(1)
		if h >= 4 {
			mb = 3000400
		}
		if h >= 7 {
			mb = 3000700
		}
		if h >= 3 {
			pw = 13
		}
		if h >= 6 {
			pw = 17
		}
		if h >= 5 {
			av = 2
		}
		c.maxBytes, c.power0, c.third, c.appv, c.appHash = append(c.maxBytes, mb), append(c.power0, pw), append(c.third, h >= 6), append(c.appv, av), append(c.appHash, []byte{0xd0, byte(h)})
	}
	return c
}

func c14MakeChain(c c14ChainSpec, t0 time.Time) map[int64]c14Block {
	pvs := c14PVs
	valsAt := c.valsAt
	chain := map[int64]c14Block{}
	lastID := types.BlockID{}
	for h := int64(1); h <= int64(c.top); h++ {
		vals := valsAt(h)
		hdr := &types.Header{
			Version:            tmversion.Consensus{Block: version.BlockProtocol, App: c.appv[h]},
			ChainID:            c14Chain,
			Height:             h,
			Time:               t0.Add(time.Duration(h) * time.Second),
			LastBlockID:        lastID,
			ValidatorsHash:     vals.Hash(),
			NextValidatorsHash: valsAt(h + 1).Hash(),
			ConsensusHash:      types.HashConsensusParams(c.params(h)),
			AppHash:            c.appHash[h],
			LastResultsHash:    tmhash.Sum([]byte{0xd0, byte(h), byte(c.maxBytes[h])}),
			ProposerAddress:    vals.Validators[0].Address,
		}
		bid := types.BlockID{Hash: hdr.Hash(), PartSetHeader: types.PartSetHeader{Total: 1, Hash: tmhash.Sum([]byte{0xe0, byte(h)})}}
		// privvals in validator-set order
		var ordered []types.PrivValidator
		for _, v := range vals.Validators {
			for _, pv := range pvs {
				pk, _ := pv.GetPubKey()
				if string(pk.Address()) == string(v.Address) {
					ordered = append(ordered, pv)
				}
			}
		}
		vs := types.NewVoteSet(c14Chain, h, 0, tmproto.PrecommitType, vals)
		commit, err := types.MakeCommit(bid, h, 0, vs, ordered, hdr.Time)
		if err != nil {
			panic(err)
		}
		chain[h] = c14Block{sh: &types.SignedHeader{Header: hdr, Commit: commit}, vals: vals}
		lastID = bid
	}
	return chain
}

func c14LB(b c14Block) string {
	h := b.sh.Header
	return vg.Tup(vg.Z(h.Height), vg.Z(h.Time.UnixNano()), vg.Z(int64(h.Version.Block)), vg.Z(int64(h.Version.App)),
		vg.Hx(h.AppHash), vg.Hx(h.LastResultsHash), vg.Hx(b.sh.Commit.BlockID.Hash), vg.Hx(b.sh.Commit.Hash()), vg.Hx(b.vals.Hash()),
		vg.Hx(h.ConsensusHash))
}

// The consensus_params stub.  Modes (what it answers to a request for height req):
//
//	0 honest: {BlockHeight: req, params in force at req}
//	1 params that are nobody's (MaxBytes 12345) labelled req            -> hash check must fail
//	2 an RPC error
//	3 the params of an adjacent height labelled req                     -> fails iff they differ
//	4 label 0                                                           -> refused
//	5 params ValidateConsensusParams refuses (MaxBytes 0) labelled req  -> refused
//	6 the params of req labelled with an adjacent height                -> fails iff they differ
//	7 label beyond the chain (the light client cannot verify it)        -> error
//	8 LYING LABEL: the genuine params of an adjacent height under that height's label: light/rpc
//	  verifies them against the header of the LABEL and relays them (finding F66, repaired: State() now
//	  compares them with the header it verified; always generated)
const c14StubModes = 8

func c14Adjacent(c c14ChainSpec, req int64, up bool) int64 {
	if (up && req+1 <= int64(c.top)) || req-1 < 1 {
		return req + 1
	}
	return req - 1
}

// ok=false: transport error; otherwise the label and the params served
func c14StubAnswer(c c14ChainSpec, mode int, up bool, req int64) (label int64, params tmproto.ConsensusParams, ok bool) {
	if req < 1 || req > int64(c.top) {
		return 0, params, false
	}
	switch mode {
	case 0:
		return req, c.params(req), true
	case 1:
		p := c.params(req)
		p.Block.MaxBytes = 12345
		return req, p, true
	case 3:
		return req, c.params(c14Adjacent(c, req, up)), true
	case 4:
		return 0, c.params(req), true
	case 5:
		p := c.params(req)
		p.Block.MaxBytes = 0
		return req, p, true
	case 6:
		return c14Adjacent(c, req, up), c.params(req), true
	case 7:
		return int64(c.top) + 3, c.params(req), true
	case 8:
		a := c14Adjacent(c, req, up)
		return a, c.params(a), true
	}
	return 0, params, false
}

func TestVerifC14Prov(t *testing.T) {
	cs := vg.NewCases("C14", "c14_prov", "TM.C14.Exec")
	root := vg.NewRand(vg.Seed())
	t0 := time.Now().Add(-time.Hour)
	const top = 9
	specs := []c14ChainSpec{c14ChainA(top), c14ChainB(top, root.Fork(777001)), c14ChainB(top, root.Fork(777002)), c14ChainD(top)}
	type built struct {
		headers map[int64]*types.SignedHeader
		vals    map[int64]*types.ValidatorSet
		lbTerms []string
	}
	var chains []built
	for i, spec := range specs {
		for h := int64(1); h <= top+1; h++ {
			if err := types.ValidateConsensusParams(spec.params(h)); err != nil {
				t.Fatalf("C14 harness: chain %d has invalid consensus params at height %d: %v", i, h, err)
			}
		}
		chain := c14MakeChain(spec, t0)
		b := built{headers: map[int64]*types.SignedHeader{}, vals: map[int64]*types.ValidatorSet{}}
		for h := int64(1); h <= top; h++ {
			b.headers[h], b.vals[h] = chain[h].sh, chain[h].vals
			b.lbTerms = append(b.lbTerms, c14LB(chain[h]))
		}
		chains = append(chains, b)
	}

	// the stub serves the chain / mode of the current case
	var curSpec c14ChainSpec
	stubMode, stubUp := 0, false
	var asked []int64
	srv := httptest.NewServer(http.HandlerFunc(func(w http.ResponseWriter, r *http.Request) {
		body, _ := io.ReadAll(r.Body)
		var req rpctypes.RPCRequest
		_ = json.Unmarshal(body, &req)
		var hp struct {
			Height string `json:"height"`
		}
		_ = json.Unmarshal(req.Params, &hp)
		var height int64
		fmt.Sscanf(hp.Height, "%d", &height)
		asked = append(asked, height)
		var resp rpctypes.RPCResponse
		label, params, ok := c14StubAnswer(curSpec, stubMode, stubUp, height)
		if req.Method != "consensus_params" || !ok {
			resp = rpctypes.RPCInternalError(req.ID, fmt.Errorf("scripted failure"))
		} else {
			resp = rpctypes.NewRPCSuccessResponse(req.ID, &ctypes.ResultConsensusParams{BlockHeight: label, ConsensusParams: params})
		}
		js, _ := json.Marshal(resp)
		w.Header().Set("Content-Type", "application/json")
		_, _ = w.Write(js)
	}))
	defer srv.Close()

	type cfg struct {
		chain, mode int
		up          bool
		h           uint64
		initial     int64
		trust       int64
		pre         bool // the genesis state was saved to the state store before the bootstrap
	}
	var cfgs []cfg
	// every height of chain A and of one seeded chain against the honest stub
	for h := uint64(1); h <= top; h++ {
		cfgs = append(cfgs, cfg{chain: 0, h: h, initial: []int64{0, 1, 5}[h%3], trust: 1})
	}
	for h := uint64(1); h <= top; h++ {
		cfgs = append(cfgs, cfg{chain: 1, h: h, initial: []int64{0, 1, 5}[(h+1)%3], trust: 1, pre: h%2 == 0})
	}
	for h := uint64(1); h <= top-2; h++ {
		cfgs = append(cfgs, cfg{chain: 3, h: h, initial: []int64{0, 1, 5}[(h+2)%3], trust: 1, pre: h%2 == 1})
	}
	// heights the light client cannot vouch for
	for _, h := range []uint64{0, 1<<63 - 3, 1<<63 - 2, 1<<63 - 1, 1 << 63, 1<<64 - 2, 1<<64 - 1} {
		cfgs = append(cfgs, cfg{chain: 0, h: h, trust: 1})
	}
	// every stub mode on chain A at a height where all three blocks exist
	for m := 1; m < c14StubModes; m++ {
		cfgs = append(cfgs, cfg{chain: 0, mode: m, up: m%2 == 0, h: uint64(2 + m%5), trust: 1})
	}
	n := vg.Scale(64, 600)
	for k := len(cfgs); k < n; k++ {
		r := root.Fork(uint64(k))
		c := cfg{chain: r.Intn(len(specs)), h: uint64(1 + r.Intn(top)), initial: []int64{0, 1, 5}[r.Intn(3)], up: r.Bool(),
			trust: []int64{1, 1, 4, top}[r.Intn(4)], pre: r.Bool()}
		if r.Chance(60) {
			c.mode = r.Intn(c14StubModes)
		}
		cfgs = append(cfgs, c)
	}
	{
		// regression cases of finding F66 (fixed in /repo 242de00)
		for _, h := range []uint64{2, 5, 7} {
			cfgs = append(cfgs, cfg{chain: 0, mode: 8, up: h == 5, h: h, trust: 1})
		}
		cfgs = append(cfgs, cfg{chain: 1, mode: 8, up: true, h: 3, trust: 1}, cfg{chain: 2, mode: 8, h: 4, trust: 4})
	}

	for _, c := range cfgs {
		id, idBoot := cs.NextID(), cs.NextID()
		if !cs.Want(id) && !cs.Want(idBoot) {
			continue
		}
		spec, ch := specs[c.chain], chains[c.chain]
		primary := mockp.New(c14Chain, ch.headers, ch.vals)
		witness := primary.Copy(c14Chain)
		lc, err := light.NewClient(context.Background(), c14Chain,
			light.TrustOptions{Period: 10 * time.Hour, Height: c.trust, Hash: ch.headers[c.trust].Hash()},
			primary, []lightprovider.Provider{witness}, lightdb.New(dbm.NewMemDB(), ""), light.Logger(log.NewNopLogger()))
		if err != nil {
			t.Fatal(err)
		}
		sp := &lightClientStateProvider{
			lc:            lc,
			version:       tmstate.Version{Consensus: tmversion.Consensus{Block: 1, App: 77}, Software: "x"},
			initialHeight: c.initial,
			providers:     map[lightprovider.Provider]string{primary: srv.URL},
		}
		curSpec, stubMode, stubUp, asked = spec, c.mode, c.up, nil
		h := c.h
		ctx := context.Background()
		var (
			ah               []byte
			cm               *types.Commit
			st               sm.State
			errA, errC, errS error
		)
		func() {
			defer func() {
				if p := recover(); p != nil {
					errA, errC, errS = fmt.Errorf("panic: %v", p), fmt.Errorf("panic: %v", p), fmt.Errorf("panic: %v", p)
				}
			}()
			ah, errA = sp.AppHash(ctx, h)
			cm, errC = sp.Commit(ctx, h)
			st, errS = sp.State(ctx, h)
		}()
		code := func(e error) int64 {
			if e != nil {
				return 1
			}
			return 0
		}
		var cmHash []byte
		if errC == nil {
			cmHash = cm.Hash()
		}
		stTerm := vg.Tup("0", "0", "0", "0", "0", `""`, `""`, `""`, `""`, `""`, `""`, "0", `""`, "0")
		stDescr := "error"
		chainID := ""
		if errS == nil {
			chainID = st.ChainID
			stTerm = c14StateTerm(st)
			stDescr = fmt.Sprintf("{ChainID:%s InitialHeight:%d Version.Consensus:{Block:%d App:%d} LastBlockHeight:%d LastBlockID:%X AppHash:%x LastResultsHash:%X LastValidators:%X Validators:%X NextValidators:%X LastHeightValidatorsChanged:%d ConsensusParams.Block.MaxBytes:%d LastHeightConsensusParamsChanged:%d}",
				st.ChainID, st.InitialHeight, st.Version.Consensus.Block, st.Version.Consensus.App, st.LastBlockHeight, st.LastBlockID.Hash, st.AppHash,
				st.LastResultsHash, st.LastValidators.Hash(), st.Validators.Hash(), st.NextValidators.Hash(), st.LastHeightValidatorsChanged,
				st.ConsensusParams.Block.MaxBytes, st.LastHeightConsensusParamsChanged)
		}
		// the stub as a table: requested height -> answer
		var rpcTerms []string
		for req := int64(1); req <= top; req++ {
			label, params, ok := c14StubAnswer(spec, c.mode, c.up, req)
			if ok && types.ValidateConsensusParams(params) != nil {
				ok = false
			}
			ans := "None"
			if ok {
				ans = vg.Opt(true, vg.Tup(vg.Z(label), vg.Hx(types.HashConsensusParams(params))))
			}
			rpcTerms = append(rpcTerms, vg.Tup(vg.Z(req), ans))
		}
		term := vg.App("CProv", vg.L(ch.lbTerms), vg.L(rpcTerms), vg.Z(c.initial), c14U(h),
			vg.Tup(vg.Hx([]byte(chainID)), vg.Hx([]byte(c14Chain))),
			vg.Tup(vg.Z(code(errA)), vg.Hx(ah)), vg.Tup(vg.Z(code(errC)), vg.Hx(cmHash)), vg.Tup(vg.Z(code(errS)), stTerm))
		if cs.Want(id) {
			cs.Add(id, fmt.Sprintf("prov-chain%d-rpc%d", c.chain, c.mode), errS == nil, term,
				fmt.Sprintf("honest chain of %d blocks, light client trusted at height %d:%s; initialHeight %d; consensus_params stub mode %d (0 honest, 1 foreign params, 2 error, 3 params of the adjacent height (up=%v) labelled as asked, 4 label 0, 5 invalid params, 6 params as asked under the adjacent label, 7 label %d, 8 adjacent height's params under its own label), asked for heights %v: AppHash(%d)=(%x,%v) Commit(%d)=(%x,%v) State(%d)=%s err=%v",
					top, c.trust, spec, c.initial, c.mode, c.up, top+3, asked, h, ah, errA, h, cmHash, errC, h, stDescr, errS))
		}
		// what node.startStateSync does with this state and commit, on real stores
		if errS == nil && errC == nil && cm != nil && cs.Want(idBoot) {
			var pre, succs []sm.State
			if c.pre {
				ini := c.initial
				if ini == 0 {
					ini = 1
				}
				g1 := spec.valsAt(1)
				pre = append(pre, sm.State{
					Version: st.Version, ChainID: c14Chain, InitialHeight: ini, LastBlockTime: t0,
					NextValidators: g1.CopyIncrementProposerPriority(1), Validators: g1, LastValidators: types.NewValidatorSet(nil),
					LastHeightValidatorsChanged: ini, ConsensusParams: spec.params(1), LastHeightConsensusParamsChanged: ini,
				})
			}
			prev := st
			for z := int64(h); z+3 <= top && len(succs) < 2; z++ {
				hd := ch.headers[z+1]
				nx, err := c14Successor(prev, hd.Header, hd.Commit.BlockID, spec.valsAt(z+2), spec.valsAt(z+3),
					spec.maxBytes[z+2] != spec.maxBytes[z+1], spec.params(z+2), ch.headers[z+2].LastResultsHash, ch.headers[z+2].AppHash)
				if err != nil {
					t.Fatal(err)
				}
				succs = append(succs, nx)
				prev = nx
			}
			bterm, bdescr := c14BootCase(ch.lbTerms, pre, st, cm, succs)
			cs.Add(idBoot, fmt.Sprintf("boot-chain%d-succ%d", c.chain, len(succs)), len(succs) > 0, bterm,
				fmt.Sprintf("honest chain of %d blocks:%s; real state store + block store (MemDB); State(%d), Commit(%d) of the real lightClientStateProvider (light client trusted at %d, honest consensus_params stub mode %d); %s",
					top, spec, h, h, c.trust, c.mode, bdescr))
		}
	}
	if err := cs.Write(); err != nil {
		t.Fatal(err)
	}
}
