//go:build verif

package statesync

// C14 correspondence harness, provenance part: the real lightClientStateProvider over a real
// light.Client (mock primary + witness serving one honestly signed chain, deterministic keys)
// and a JSON-RPC stub answering consensus_params.  AppHash / Commit / State are compared with the
// projections of the verified light blocks (coq/C14/Model.v lc_apphash, lc_commit, lc_state).
// Header times are taken relative to time.Now() (the provider calls time.Now() itself), so the
// hashes in the cases differ from run to run; the structure of the cases does not.

import (
	"context"
	"encoding/json"
	"fmt"
	"io"
	"net/http"
	"net/http/httptest"
	"sort"
	"testing"
	"time"

	dbm "github.com/tendermint/tm-db"

	"github.com/tendermint/tendermint/crypto/ed25519"
	"github.com/tendermint/tendermint/crypto/tmhash"
	vg "github.com/tendermint/tendermint/internal/verifgen"
	"github.com/tendermint/tendermint/libs/log"
	"github.com/tendermint/tendermint/light"
	lightprovider "github.com/tendermint/tendermint/light/provider"
	mockp "github.com/tendermint/tendermint/light/provider/mock"
	lightdb "github.com/tendermint/tendermint/light/store/db"
	tmstate "github.com/tendermint/tendermint/proto/tendermint/state"
	tmproto "github.com/tendermint/tendermint/proto/tendermint/types"
	tmversion "github.com/tendermint/tendermint/proto/tendermint/version"
	ctypes "github.com/tendermint/tendermint/rpc/core/types"
	rpctypes "github.com/tendermint/tendermint/rpc/jsonrpc/types"
	"github.com/tendermint/tendermint/types"
	"github.com/tendermint/tendermint/version"
)

const c14Chain = "c14-chain"

type c14Block struct {
	sh   *types.SignedHeader
	vals *types.ValidatorSet
}

// an honestly signed chain of n blocks; the validator set changes at height 4, the app version
// at height 3
func c14MakeChain(n int, params tmproto.ConsensusParams, t0 time.Time) map[int64]c14Block {
	pvs := []types.MockPV{
		types.NewMockPVWithParams(ed25519.GenPrivKeyFromSecret([]byte("c14-val-0")), false, false),
		types.NewMockPVWithParams(ed25519.GenPrivKeyFromSecret([]byte("c14-val-1")), false, false),
	}
	valsAt := func(h int64) *types.ValidatorSet {
		var vs []*types.Validator
		for i, pv := range pvs {
			pk, _ := pv.GetPubKey()
			power := int64(10)
			if i == 0 && h >= 4 {
				power = 15
			}
			vs = append(vs, types.NewValidator(pk, power))
		}
		return types.NewValidatorSet(vs)
	}
	chain := map[int64]c14Block{}
	lastID := types.BlockID{}
	for h := int64(1); h <= int64(n); h++ {
		vals := valsAt(h)
		appv := uint64(1)
		if h >= 3 {
			appv = 2
		}
		hdr := &types.Header{
			Version:            tmversion.Consensus{Block: version.BlockProtocol, App: appv},
			ChainID:            c14Chain,
			Height:             h,
			Time:               t0.Add(time.Duration(h) * time.Second),
			LastBlockID:        lastID,
			ValidatorsHash:     vals.Hash(),
			NextValidatorsHash: valsAt(h + 1).Hash(),
			ConsensusHash:      types.HashConsensusParams(params),
			AppHash:            []byte{0xa0, byte(h)},
			LastResultsHash:    tmhash.Sum([]byte{0xd0, byte(h)}),
			ProposerAddress:    vals.Validators[0].Address,
		}
		bid := types.BlockID{Hash: hdr.Hash(), PartSetHeader: types.PartSetHeader{Total: 1, Hash: tmhash.Sum([]byte{0xe0, byte(h)})}}
		// privvals in validator-set order
		var ordered []types.PrivValidator
		for _, v := range vals.Validators {
			for _, pv := range pvs {
				pk, _ := pv.GetPubKey()
				if string(pk.Address()) == string(v.Address) {
					ordered = append(ordered, pv)
				}
			}
		}
		vs := types.NewVoteSet(c14Chain, h, 0, tmproto.PrecommitType, vals)
		commit, err := types.MakeCommit(bid, h, 0, vs, ordered, hdr.Time)
		if err != nil {
			panic(err)
		}
		chain[h] = c14Block{sh: &types.SignedHeader{Header: hdr, Commit: commit}, vals: vals}
		lastID = bid
	}
	return chain
}

func c14LB(b c14Block) string {
	h := b.sh.Header
	return vg.Tup(vg.Z(h.Height), vg.Z(h.Time.UnixNano()), vg.Z(int64(h.Version.Block)), vg.Z(int64(h.Version.App)),
		vg.Hx(h.AppHash), vg.Hx(h.LastResultsHash), vg.Hx(b.sh.Commit.BlockID.Hash), vg.Hx(b.sh.Commit.Hash()), vg.Hx(b.vals.Hash()))
}

func TestVerifC14Prov(t *testing.T) {
	cs := vg.NewCases("C14", "c14_prov", "TM.C14.Exec")
	root := vg.NewRand(vg.Seed())
	params := *types.DefaultConsensusParams()
	other := params
	other.Block.MaxBytes = 12345
	t0 := time.Now().Add(-time.Hour)
	const top = 9
	chain := c14MakeChain(top, params, t0)
	headers := map[int64]*types.SignedHeader{}
	vals := map[int64]*types.ValidatorSet{}
	var hs []int64
	for h, b := range chain {
		headers[h], vals[h] = b.sh, b.vals
		hs = append(hs, h)
	}
	sort.Slice(hs, func(i, j int) bool { return hs[i] < hs[j] })
	var lbTerms []string
	for _, h := range hs {
		lbTerms = append(lbTerms, c14LB(chain[h]))
	}

	// what the RPC stub answers: 0 the right params, 1 other params (hash check must fail),
	// 2 an RPC error
	rpcMode := 0
	srv := httptest.NewServer(http.HandlerFunc(func(w http.ResponseWriter, r *http.Request) {
		body, _ := io.ReadAll(r.Body)
		var req rpctypes.RPCRequest
		_ = json.Unmarshal(body, &req)
		var hp struct {
			Height string `json:"height"`
		}
		_ = json.Unmarshal(req.Params, &hp)
		var height int64
		fmt.Sscanf(hp.Height, "%d", &height)
		var resp rpctypes.RPCResponse
		switch {
		case req.Method != "consensus_params" || rpcMode == 2:
			resp = rpctypes.RPCInternalError(req.ID, fmt.Errorf("scripted failure"))
		case rpcMode == 1:
			resp = rpctypes.NewRPCSuccessResponse(req.ID, &ctypes.ResultConsensusParams{BlockHeight: height, ConsensusParams: other})
		default:
			resp = rpctypes.NewRPCSuccessResponse(req.ID, &ctypes.ResultConsensusParams{BlockHeight: height, ConsensusParams: params})
		}
		js, _ := json.Marshal(resp)
		w.Header().Set("Content-Type", "application/json")
		_, _ = w.Write(js)
	}))
	defer srv.Close()

	n := vg.Scale(24, 400)
	for k := 0; k < n; k++ {
		id := cs.NextID()
		if !cs.Want(id) {
			continue
		}
		r := root.Fork(uint64(k))
		primary := mockp.New(c14Chain, headers, vals)
		witness := primary.Copy(c14Chain)
		lc, err := light.NewClient(context.Background(), c14Chain,
			light.TrustOptions{Period: 10 * time.Hour, Height: 1, Hash: headers[1].Hash()},
			primary, []lightprovider.Provider{witness}, lightdb.New(dbm.NewMemDB(), ""), light.Logger(log.NewNopLogger()))
		if err != nil {
			t.Fatal(err)
		}
		initial := []int64{0, 1, 5}[r.Intn(3)]
		sp := &lightClientStateProvider{
			lc:            lc,
			version:       tmstate.Version{Consensus: tmversion.Consensus{Block: 1, App: 77}, Software: "x"},
			initialHeight: initial,
			providers:     map[lightprovider.Provider]string{primary: srv.URL},
		}
		h := uint64(1 + k%top) // top-1 and top lack h+2 / h+1
		rpcMode = 0
		if k >= top {
			rpcMode = r.Intn(3)
		}
		ctx := context.Background()
		ah, errA := sp.AppHash(ctx, h)
		cm, errC := sp.Commit(ctx, h)
		st, errS := sp.State(ctx, h)
		code := func(e error) int64 {
			if e != nil {
				return 1
			}
			return 0
		}
		var cmHash []byte
		if errC == nil {
			cmHash = cm.Hash()
		}
		stTerm := vg.Tup("0", "0", "0", "0", "0", `""`, `""`, `""`, `""`, `""`, `""`, "0", `""`, "0")
		stDescr := "error"
		if errS == nil {
			stTerm = vg.Tup(vg.Z(st.InitialHeight), vg.Z(int64(st.Version.Consensus.Block)), vg.Z(int64(st.Version.Consensus.App)),
				vg.Z(st.LastBlockHeight), vg.Z(st.LastBlockTime.UnixNano()), vg.Hx(st.LastBlockID.Hash), vg.Hx(st.AppHash),
				vg.Hx(st.LastResultsHash), vg.Hx(st.LastValidators.Hash()), vg.Hx(st.Validators.Hash()), vg.Hx(st.NextValidators.Hash()),
				vg.Z(st.LastHeightValidatorsChanged), vg.Hx(types.HashConsensusParams(st.ConsensusParams)), vg.Z(st.LastHeightConsensusParamsChanged))
			stDescr = fmt.Sprintf("{InitialHeight:%d App:%d LastBlockHeight:%d AppHash:%x LastHeightValidatorsChanged:%d ...}",
				st.InitialHeight, st.Version.Consensus.App, st.LastBlockHeight, st.AppHash, st.LastHeightValidatorsChanged)
		}
		ptrm := "None"
		switch rpcMode {
		case 0:
			ptrm = vg.Opt(true, vg.Hx(types.HashConsensusParams(params)))
		}
		term := vg.App("CProv", vg.L(lbTerms), ptrm, vg.Z(initial), vg.Z(int64(h)),
			vg.Tup(vg.Z(code(errA)), vg.Hx(ah)), vg.Tup(vg.Z(code(errC)), vg.Hx(cmHash)), vg.Tup(vg.Z(code(errS)), stTerm))
		cs.Add(id, fmt.Sprintf("prov-rpc%d", rpcMode), errS == nil, term,
			fmt.Sprintf("honest chain of %d blocks (validator set changes at 4, app version at 3), trusted height 1, initialHeight %d, consensus_params stub mode %d (0 right, 1 wrong params, 2 error): AppHash(%d)=(%x,%v) Commit(%d)=(%x,%v) State(%d)=%s err=%v",
				top, initial, rpcMode, h, ah, errA, h, cmHash, errC, h, stDescr, errS))
	}
	if err := cs.Write(); err != nil {
		t.Fatal(err)
	}
}
