//go:build verif

package statesync

// C14 correspondence harness — injected with `go test -overlay`, nothing is written to the repo.
//
//   TestVerifC14Queue  real chunkQueue under generated operation sequences
//   TestVerifC14Pool   real snapshotPool under generated operation sequences
//   TestVerifC14Sync   real syncer.SyncAny run as a co-routine: the ABCI application, the peers
//                      and the state provider are scripted by the driver; SyncAny runs in its own
//                      goroutine but only one of the two goroutines is ever runnable (the other
//                      is blocked in an application call, in chunkQueue.Next's WaitFor, or has
//                      returned), so every history is deterministic.  ChunkFetchers = 0: the
//                      fetcher goroutines are not started, chunk arrival is an input.
//
// Peers are numbered: peer n has p2p.ID "pNN" (0 = the empty id), string order = numeric order.

import (
	"bytes"
	"context"
	"errors"
	"fmt"
	"math"
	"runtime"
	"strconv"
	"strings"
	"testing"
	"time"

	abci "github.com/tendermint/tendermint/abci/types"
	"github.com/tendermint/tendermint/config"
	"github.com/tendermint/tendermint/crypto/ed25519"
	"github.com/tendermint/tendermint/crypto/tmhash"
	vg "github.com/tendermint/tendermint/internal/verifgen"
	"github.com/tendermint/tendermint/libs/log"
	"github.com/tendermint/tendermint/light"
	"github.com/tendermint/tendermint/p2p"
	p2pmocks "github.com/tendermint/tendermint/p2p/mocks"
	tmstate "github.com/tendermint/tendermint/proto/tendermint/state"
	tmproto "github.com/tendermint/tendermint/proto/tendermint/types"
	tmversion "github.com/tendermint/tendermint/proto/tendermint/version"
	sm "github.com/tendermint/tendermint/state"
	"github.com/tendermint/tendermint/types"
)

func c14PID(n int) p2p.ID {
	if n == 0 {
		return ""
	}
	return p2p.ID(fmt.Sprintf("p%02d", n))
}

func c14PNum(id p2p.ID) int {
	if id == "" {
		return 0
	}
	n, err := strconv.Atoi(strings.TrimPrefix(string(id), "p"))
	if err != nil {
		return 999
	}
	return n
}

var c14PeerCache = map[int]*p2pmocks.Peer{}

func c14Peer(n int) *p2pmocks.Peer {
	if p, ok := c14PeerCache[n]; ok {
		return p
	}
	p := &p2pmocks.Peer{}
	p.On("ID").Return(c14PID(n))
	c14PeerCache[n] = p
	return p
}

type c14Snap struct {
	H        uint64
	F, C     uint32
	Hash, MD []byte
}

func (s c14Snap) mk() *snapshot {
	return &snapshot{Height: s.H, Format: s.F, Chunks: s.C, Hash: s.Hash, Metadata: s.MD}
}
func (s c14Snap) term() string {
	return vg.Tup(c14U(s.H), vg.Z(int64(s.F)), vg.Z(int64(s.C)), vg.Hx(s.Hash), vg.Hx(s.MD))
}
func (s c14Snap) String() string {
	return fmt.Sprintf("{Height:%d Format:%d Chunks:%d Hash:%x Metadata:%x}", s.H, s.F, s.C, s.Hash, s.MD)
}

// uint64 as a Coq Z literal
func c14U(u uint64) string { return strconv.FormatUint(u, 10) + "%Z" }

func c14NL(ns []int) string {
	xs := make([]string, len(ns))
	for i, n := range ns {
		xs[i] = vg.N(uint64(n))
	}
	return vg.L(xs)
}
func c14ZL(ns []uint32) string {
	xs := make([]string, len(ns))
	for i, n := range ns {
		xs[i] = vg.Z(int64(n))
	}
	return vg.L(xs)
}
func c14Body(b []byte) string { return vg.Opt(b != nil, vg.Hx(b)) }

// small alphabet so that collisions (same key, duplicate bytes) happen
func c14Bytes(r *vg.Rand, max int) []byte {
	n := r.Intn(max + 1)
	b := make([]byte, n)
	for i := range b {
		b[i] = byte(0x30 + r.Intn(4))
	}
	return b
}

func c14GenSnap(r *vg.Rand) c14Snap {
	s := c14Snap{H: uint64(1 + r.Intn(4)), F: uint32(1 + r.Intn(2)), C: uint32(1 + r.Intn(4))}
	s.Hash = c14Bytes(r, 2)
	if r.Chance(30) {
		s.MD = c14Bytes(r, 1)
	}
	return s
}

// ------------------------------------------------------------------ chunk queue

func TestVerifC14Queue(t *testing.T) {
	cs := vg.NewCases("C14", "c14_queue", "TM.C14.Exec")
	root := vg.NewRand(vg.Seed())
	n := vg.Scale(120, 6000)
	for k := 0; k < n; k++ {
		id := cs.NextID()
		if !cs.Want(id) {
			continue
		}
		r := root.Fork(uint64(k))
		sn := c14Snap{H: uint64(1 + r.Intn(3)), F: uint32(1 + r.Intn(2)), C: uint32(1 + r.Intn(5)), Hash: []byte{1}}
		if k == 0 {
			sn.C = 0
		}
		q, err := newChunkQueue(sn.mk(), t.TempDir())
		if err != nil {
			cs.Add(id, "queue-nochunks", false, vg.App("CQueue", sn.term(), "[]", "[]"), "newChunkQueue("+sn.String()+") fails")
			continue
		}
		nops := 6 + r.Intn(30)
		var ops, ans, descr []string
		nontriv := false
		idx := func() uint32 {
			if r.Chance(8) {
				return sn.C + uint32(r.Intn(2))
			}
			return uint32(r.Intn(int(sn.C)))
		}
		for j := 0; j < nops; j++ {
			code, ri, rp := int64(0), int64(0), 0
			var rb []byte
			var op, d string
			switch c := r.Intn(100); {
			case c < 34:
				ch := &chunk{Height: sn.H, Format: sn.F, Index: idx(), Chunk: c14Bytes(r, 2), Sender: c14PID(1 + r.Intn(3))}
				switch m := r.Intn(40); m {
				case 0:
					ch.Height++
				case 1:
					ch.Format++
				case 2:
					ch.Chunk = nil
				case 3:
					ch.Sender = ""
				}
				if ch.Chunk != nil && len(ch.Chunk) == 0 {
					ch.Chunk = []byte{}
				}
				added, err := q.Add(ch)
				switch {
				case err != nil:
					code = 2
				case added:
					code = 1
				}
				op = vg.App("QAdd", c14U(ch.Height), vg.Z(int64(ch.Format)), vg.Z(int64(ch.Index)), c14Body(ch.Chunk), vg.N(uint64(c14PNum(ch.Sender))))
				d = fmt.Sprintf("Add{H:%d F:%d Index:%d Chunk:%x(nil=%v) Sender:%q}=%d", ch.Height, ch.Format, ch.Index, ch.Chunk, ch.Chunk == nil, ch.Sender, code)
			case c < 40:
				i, err := q.Allocate()
				if err == nil {
					code, ri = 1, int64(i)
				}
				op, d = "QAllocate", fmt.Sprintf("Allocate=(%d,%v)", i, err)
			case c < 42:
				_ = q.Close()
				op, d = "QClose", "Close"
			case c < 50:
				i := idx()
				_ = q.Discard(i)
				nontriv = true
				op, d = vg.App("QDiscard", vg.Z(int64(i))), fmt.Sprintf("Discard(%d)", i)
			case c < 57:
				p := r.Intn(4)
				_ = q.DiscardSender(c14PID(p))
				nontriv = true
				op, d = vg.App("QDiscardSender", vg.N(uint64(p))), fmt.Sprintf("DiscardSender(%q)", c14PID(p))
			case c < 60:
				i := idx()
				rp = c14PNum(q.GetSender(i))
				op, d = vg.App("QGetSender", vg.Z(int64(i))), fmt.Sprintf("GetSender(%d)=%d", i, rp)
			case c < 63:
				i := idx()
				if q.Has(i) {
					code = 1
				}
				op, d = vg.App("QHas", vg.Z(int64(i))), fmt.Sprintf("Has(%d)=%d", i, code)
			case c < 85:
				// Next, unless it would block: then report the index it would wait for
				q.Lock()
				i, err := q.nextUp()
				has := err == nil && q.chunkFiles[i] != ""
				q.Unlock()
				if err == nil && !has {
					code, ri = 1, int64(i)
				} else {
					ch, err := q.Next()
					switch {
					case err == errDone:
						code = 0
					case err != nil:
						code = 9
					case ch == nil:
						code = 3
					default:
						code, ri, rb, rp = 2, int64(ch.Index), ch.Chunk, c14PNum(ch.Sender)
					}
				}
				op, d = "QNext", fmt.Sprintf("Next=(code %d, index %d, %x, sender %d)", code, ri, rb, rp)
			case c < 91:
				i := idx()
				q.Retry(i)
				nontriv = true
				op, d = vg.App("QRetry", vg.Z(int64(i))), fmt.Sprintf("Retry(%d)", i)
			case c < 93:
				q.RetryAll()
				nontriv = true
				op, d = "QRetryAll", "RetryAll"
			case c < 95:
				ri = int64(q.Size())
				op, d = "QSize", fmt.Sprintf("Size=%d", ri)
			default:
				i := idx()
				select {
				case _, ok := <-q.WaitFor(i):
					if ok {
						code = 1
					}
				default:
					code = 2
				}
				op, d = vg.App("QWaitFor", vg.Z(int64(i))), fmt.Sprintf("WaitFor(%d)=%d", i, code)
			}
			ops = append(ops, op)
			ans = append(ans, vg.Tup(vg.Z(code), vg.Z(ri), vg.Hx(rb), vg.N(uint64(rp))))
			descr = append(descr, d)
		}
		_ = q.Close()
		cs.Add(id, "queue", nontriv, vg.App("CQueue", sn.term(), vg.L(ops), vg.L(ans)),
			"chunkQueue for "+sn.String()+": "+strings.Join(descr, "; "))
	}
	if err := cs.Write(); err != nil {
		t.Fatal(err)
	}
}

// ------------------------------------------------------------------ snapshot pool

func TestVerifC14Pool(t *testing.T) {
	cs := vg.NewCases("C14", "c14_pool", "TM.C14.Exec")
	root := vg.NewRand(vg.Seed())
	n := vg.Scale(100, 5000)
	for k := 0; k < n; k++ {
		id := cs.NextID()
		if !cs.Want(id) {
			continue
		}
		r := root.Fork(uint64(k))
		ntbl := 3 + r.Intn(6)
		if k%10 == 1 {
			ntbl = 14 // per-peer cap
		}
		var tbl []c14Snap
		for i := 0; i < ntbl; i++ {
			s := c14GenSnap(r)
			if k%10 == 1 {
				s.Hash = []byte{byte(i)}
			}
			tbl = append(tbl, s)
		}
		if k%10 == 2 && ntbl >= 2 {
			// same key pre-image, different fields: Hash ‖ Metadata is not separated
			tbl[1] = tbl[0]
			tbl[0].Hash, tbl[0].MD = []byte{0x31, 0x32}, []byte{0x33}
			tbl[1].Hash, tbl[1].MD = []byte{0x31}, []byte{0x32, 0x33}
		}
		ptrs := make([]*snapshot, ntbl)
		back := map[*snapshot]int{}
		terms := make([]string, ntbl)
		var tdescr []string
		for i, s := range tbl {
			ptrs[i] = s.mk()
			back[ptrs[i]] = i
			terms[i] = s.term()
			tdescr = append(tdescr, fmt.Sprintf("s%d=%s", i, s))
		}
		pool := newSnapshotPool()
		nops := 6 + r.Intn(25)
		if k%10 == 1 {
			nops = 30
		}
		var ops, obs, descr []string
		nrej := 0
		for j := 0; j < nops; j++ {
			code := int64(0)
			var op, d string
			c := r.Intn(100)
			if k%10 == 1 && j < 14 {
				c = 0
			}
			switch {
			case c < 62:
				p, si := 1+r.Intn(4), r.Intn(ntbl)
				if k%10 == 1 && j < 14 {
					p, si = 1, j
				}
				added, err := pool.Add(c14Peer(p), ptrs[si])
				if err != nil {
					code = 2
				} else if added {
					code = 1
				}
				op, d = vg.App("PAdd", vg.N(uint64(p)), vg.Nat(si)), fmt.Sprintf("Add(%s, s%d)=%d", c14PID(p), si, code)
			case c < 72:
				si := r.Intn(ntbl)
				pool.Reject(ptrs[si])
				nrej++
				op, d = vg.App("PReject", vg.Nat(si)), fmt.Sprintf("Reject(s%d)", si)
			case c < 78:
				f := uint32(1 + r.Intn(2))
				pool.RejectFormat(f)
				nrej++
				op, d = vg.App("PRejectFormat", vg.Z(int64(f))), fmt.Sprintf("RejectFormat(%d)", f)
			case c < 88:
				p := r.Intn(5)
				pool.RejectPeer(c14PID(p))
				nrej++
				op, d = vg.App("PRejectPeer", vg.N(uint64(p))), fmt.Sprintf("RejectPeer(%q)", c14PID(p))
			default:
				p := 1 + r.Intn(4)
				pool.RemovePeer(c14PID(p))
				op, d = vg.App("PRemovePeer", vg.N(uint64(p))), fmt.Sprintf("RemovePeer(%s)", c14PID(p))
			}
			var rk, rd []string
			for _, s := range pool.Ranked() {
				var ps []int
				for _, p := range pool.GetPeers(s) {
					ps = append(ps, c14PNum(p.ID()))
				}
				i, ok := back[s]
				if !ok {
					i = 99
				}
				rk = append(rk, vg.Tup(vg.Nat(i), c14NL(ps)))
				rd = append(rd, fmt.Sprintf("s%d%v", i, ps))
			}
			ops = append(ops, op)
			obs = append(obs, vg.Tup(vg.Z(code), vg.L(rk)))
			descr = append(descr, d+" Ranked="+strings.Join(rd, ","))
		}
		cs.Add(id, "pool", nrej > 0, vg.App("CPool", vg.L(terms), vg.L(ops), vg.L(obs)),
			"snapshotPool; "+strings.Join(tdescr, " ")+": "+strings.Join(descr, "; "))
	}
	if err := cs.Write(); err != nil {
		t.Fatal(err)
	}
}

// ------------------------------------------------------------------ SyncAny as a co-routine

type c14Req struct {
	kind  int // 1 offer, 2 apply, 3 info
	offer abci.RequestOfferSnapshot
	apply abci.RequestApplySnapshotChunk
}
type c14Rep struct {
	offer abci.ResponseOfferSnapshot
	apply abci.ResponseApplySnapshotChunk
	info  abci.ResponseInfo
}

type c14App struct {
	req chan c14Req
	rep chan c14Rep
}

func (a *c14App) Error() error { return nil }
func (a *c14App) ListSnapshotsSync(abci.RequestListSnapshots) (*abci.ResponseListSnapshots, error) {
	return &abci.ResponseListSnapshots{}, nil
}
func (a *c14App) LoadSnapshotChunkSync(abci.RequestLoadSnapshotChunk) (*abci.ResponseLoadSnapshotChunk, error) {
	return &abci.ResponseLoadSnapshotChunk{}, nil
}
func (a *c14App) OfferSnapshotSync(r abci.RequestOfferSnapshot) (*abci.ResponseOfferSnapshot, error) {
	a.req <- c14Req{kind: 1, offer: r}
	rep := <-a.rep
	return &rep.offer, nil
}
func (a *c14App) ApplySnapshotChunkSync(r abci.RequestApplySnapshotChunk) (*abci.ResponseApplySnapshotChunk, error) {
	a.req <- c14Req{kind: 2, apply: r}
	rep := <-a.rep
	return &rep.apply, nil
}
func (a *c14App) EchoSync(s string) (*abci.ResponseEcho, error) {
	return &abci.ResponseEcho{Message: s}, nil
}
func (a *c14App) QuerySync(abci.RequestQuery) (*abci.ResponseQuery, error) {
	return &abci.ResponseQuery{}, nil
}
func (a *c14App) InfoSync(abci.RequestInfo) (*abci.ResponseInfo, error) {
	a.req <- c14Req{kind: 3}
	rep := <-a.rep
	return &rep.info, nil
}

// stub state provider: per height (code, value); code 0 ok, 1 error, 2 light.ErrNoWitnesses
type c14ProvEntry struct {
	ahCode, stCode, cmCode int
	appHash, mark, commit  []byte
	appV                   uint64
}
type c14Prov struct{ tbl map[uint64]c14ProvEntry }

func c14Err(code int) error {
	if code == 2 {
		return light.ErrNoWitnesses
	}
	return errors.New("scripted state provider failure")
}
func (p *c14Prov) AppHash(_ context.Context, h uint64) ([]byte, error) {
	e, ok := p.tbl[h]
	if !ok {
		return nil, c14Err(1)
	}
	if e.ahCode != 0 {
		return nil, c14Err(e.ahCode)
	}
	return e.appHash, nil
}
func (p *c14Prov) Commit(_ context.Context, h uint64) (*types.Commit, error) {
	e, ok := p.tbl[h]
	if !ok {
		return nil, c14Err(1)
	}
	if e.cmCode != 0 {
		return nil, c14Err(e.cmCode)
	}
	return &types.Commit{Height: int64(h),
		BlockID:    types.BlockID{Hash: e.commit, PartSetHeader: types.PartSetHeader{Total: 1, Hash: tmhash.Sum(e.commit)}},
		Signatures: []types.CommitSig{types.NewCommitSigAbsent()}}, nil
}
func (p *c14Prov) State(_ context.Context, h uint64) (sm.State, error) {
	e, ok := p.tbl[h]
	if !ok {
		return sm.State{}, c14Err(1)
	}
	if e.stCode != 0 {
		return sm.State{}, c14Err(e.stCode)
	}
	return sm.State{
		ChainID:                          "c14",
		InitialHeight:                    1,
		Version:                          tmstate.Version{Consensus: tmversion.Consensus{Block: 11, App: e.appV}},
		LastBlockHeight:                  int64(h),
		LastBlockID:                      types.BlockID{Hash: e.commit, PartSetHeader: types.PartSetHeader{Total: 1, Hash: tmhash.Sum(e.commit)}},
		AppHash:                          e.mark,
		LastValidators:                   c14StubVals(h),
		Validators:                       c14StubVals(h + 1),
		NextValidators:                   c14StubVals(h + 2),
		LastHeightValidatorsChanged:      int64(h + 2),
		ConsensusParams:                  c14StubParams(h + 1),
		LastHeightConsensusParamsChanged: int64(h + 1),
	}, nil
}

// what the stub "chain" has at a height: a validator set and consensus params that differ from
// height to height (the bootstrap part reads them back from a real store by height)
var c14StubValCache = map[uint64]*types.ValidatorSet{}

func c14StubVals(h uint64) *types.ValidatorSet {
	k := h % 7
	if vs, ok := c14StubValCache[k]; ok {
		return vs.Copy()
	}
	vs := types.NewValidatorSet([]*types.Validator{
		types.NewValidator(ed25519.GenPrivKeyFromSecret([]byte("c14-stub-0")).PubKey(), int64(10+k)),
		types.NewValidator(ed25519.GenPrivKeyFromSecret([]byte("c14-stub-1")).PubKey(), 10),
	})
	c14StubValCache[k] = vs
	return vs.Copy()
}

func c14StubParams(h uint64) tmproto.ConsensusParams {
	p := *types.DefaultConsensusParams()
	p.Block.MaxBytes = int64(4000000 + h%1000)
	return p
}

type c14Result struct {
	state  sm.State
	commit *types.Commit
	err    error
	panicv interface{}
}

type c14Driver struct {
	s     *syncer
	app   *c14App
	done  chan c14Result
	items []string
	descr []string
}

// yield kinds: 1 offer, 2 apply, 3 info, 4 blocked in Next on idx, 5 SyncAny returned
type c14Yield struct {
	kind int
	req  c14Req
	idx  uint32
	res  c14Result
}

func (d *c14Driver) blockedOn() (uint32, bool) {
	d.s.mtx.RLock()
	q := d.s.chunks
	d.s.mtx.RUnlock()
	if q == nil {
		return 0, false
	}
	q.Lock()
	defer q.Unlock()
	for idx, ws := range q.waiters {
		if len(ws) > 0 {
			return idx, true
		}
	}
	return 0, false
}

func (d *c14Driver) waitYield(t *testing.T) c14Yield {
	deadline := time.Now().Add(20 * time.Second)
	for {
		select {
		case r := <-d.app.req:
			return c14Yield{kind: r.kind, req: r}
		case res := <-d.done:
			return c14Yield{kind: 5, res: res}
		default:
		}
		if idx, ok := d.blockedOn(); ok {
			return c14Yield{kind: 4, idx: idx}
		}
		if time.Now().After(deadline) {
			t.Fatalf("C14 driver: SyncAny goroutine reached no yield point; history so far: %s", strings.Join(d.descr, "; "))
		}
		runtime.Gosched()
		time.Sleep(20 * time.Microsecond)
	}
}

func (d *c14Driver) ev(term string, code int, descr string) {
	d.items = append(d.items, vg.App("IEv", term, vg.Z(int64(code))))
	d.descr = append(d.descr, descr)
}

func (d *c14Driver) addSnapshot(p int, s c14Snap) {
	added, err := d.s.AddSnapshot(c14Peer(p), s.mk())
	code := 0
	if err != nil {
		code = 2
	} else if added {
		code = 1
	}
	d.ev(vg.App("TAddSnapshot", vg.N(uint64(p)), s.term()), code, fmt.Sprintf("AddSnapshot(%s, %s)=%d", c14PID(p), s, code))
}

func (d *c14Driver) removePeer(p int) {
	d.s.RemovePeer(c14Peer(p))
	d.ev(vg.App("TRemovePeer", vg.N(uint64(p))), 0, fmt.Sprintf("RemovePeer(%s)", c14PID(p)))
}

func (d *c14Driver) addChunk(p int, h uint64, f, idx uint32, body []byte) bool {
	added, err := d.s.AddChunk(&chunk{Height: h, Format: f, Index: idx, Chunk: body, Sender: c14PID(p)})
	code := 0
	if err != nil {
		code = 2
	} else if added {
		code = 1
	}
	d.ev(vg.App("TAddChunk", vg.N(uint64(p)), c14U(h), vg.Z(int64(f)), vg.Z(int64(idx)), c14Body(body)), code,
		fmt.Sprintf("AddChunk{H:%d F:%d Index:%d Chunk:%x(nil=%v) Sender:%q}=%d", h, f, idx, body, body == nil, c14PID(p), code))
	return code == 1
}

func c14ErrCode(res c14Result) int {
	switch {
	case res.panicv != nil:
		return 18
	case res.err == nil:
		return 0
	case errors.Is(res.err, errAbort):
		return 1
	case errors.Is(res.err, errNoSnapshots):
		return 2
	case errors.Is(res.err, light.ErrNoWitnesses):
		return 12
	case errors.Is(res.err, errVerifyFailed):
		return 16
	}
	return 19
}

// one generated history; directed > 0 selects a scripted scenario
func c14SyncCase(t *testing.T, r *vg.Rand, directed int) (term, descr string, kind string, nontrivial bool, bootTerm, bootDescr string) {
	app := &c14App{req: make(chan c14Req), rep: make(chan c14Rep)}
	prov := &c14Prov{tbl: map[uint64]c14ProvEntry{}}
	var provTerms, provDescr []string
	bigH := uint64(1<<64 - 1)
	// heights >= 2^63-2 are refused by the real provider (int64(height+2) is not positive)
	heights := []uint64{1, 2, 3, 4, 5}
	var vt *c14VerifyCase
	if directed >= 100 {
		vt = &c14VerifyTable[directed-100]
		if vt.H > 5 {
			heights = append(heights, vt.H)
		}
	}
	for _, h := range heights {
		e := c14ProvEntry{appHash: []byte{0xa0, byte(h)}, mark: []byte{0xb0, byte(h)}, commit: tmhash.Sum([]byte{0xc0, byte(h)}), appV: uint64(1 + r.Intn(2))}
		if directed == 0 {
			switch m := r.Intn(30); m {
			case 0, 1:
				e.ahCode = 1
			case 2:
				e.ahCode = 2
			case 3:
				e.stCode = 1
			case 4:
				e.stCode = 2
			case 5:
				e.cmCode = 1
			case 6:
				e.cmCode = 2
			}
		}
		if directed == 0 {
			// boundary values of the trusted app hash (the genesis app hash is often empty) and version
			switch r.Intn(10) {
			case 0:
				e.appHash = nil
			case 1:
				e.appHash = []byte{}
			case 2:
				e.appHash = append(bytes.Repeat([]byte{0}, 31), byte(h))
			}
			if r.Chance(12) {
				e.appV = 0
			}
		}
		if vt != nil && h == vt.H {
			e.appHash, e.appV = vt.trusted, vt.trustedV
		}
		prov.tbl[h] = e
		provTerms = append(provTerms, vg.Tup(c14U(h), vg.Tup(vg.Z(int64(e.ahCode)), vg.Hx(e.appHash)),
			vg.Tup(vg.Z(int64(e.stCode)), c14U(e.appV), vg.Hx(e.mark)), vg.Tup(vg.Z(int64(e.cmCode)), vg.Hx(e.commit))))
		provDescr = append(provDescr, fmt.Sprintf("h%d:{AppHash:(%d,%x) State:(%d,app version %d,AppHash %x) Commit:(%d,%x)}",
			h, e.ahCode, e.appHash, e.stCode, e.appV, e.mark, e.cmCode, e.commit))
	}
	cfg := config.DefaultStateSyncConfig()
	cfg.ChunkFetchers = 0
	s := newSyncer(*cfg, log.NewNopLogger(), app, app, prov, t.TempDir())
	d := &c14Driver{s: s, app: app, done: make(chan c14Result, 1)}

	// discovery phase: snapshots arrive; chunks are refused (no sync in progress)
	var known []c14Snap
	nsn := 1 + r.Intn(5)
	if r.Chance(5) {
		nsn = 0
	}
	switch directed {
	case 1, 2, 4:
		known = []c14Snap{{H: 2, F: 1, C: 3, Hash: []byte{0x31}}}
		d.addSnapshot(1, known[0])
		d.addSnapshot(2, known[0])
		d.addSnapshot(3, known[0])
	case 3:
		known = []c14Snap{{H: bigH, F: 1, C: 1, Hash: []byte{0x31}}}
		d.addSnapshot(1, known[0])
	default:
		if vt != nil {
			known = []c14Snap{{H: vt.H, F: 1, C: 1, Hash: []byte{0x31}}}
			d.addSnapshot(1, known[0])
			break
		}
		for i := 0; i < nsn; i++ {
			sn := c14GenSnap(r)
			if r.Chance(4) {
				// a snapshot without chunks: only with a (height, format) of its own, see rule
				sn.H, sn.C = uint64(6+i), 0
			}
			known = append(known, sn)
			for j, np := 0, 1+r.Intn(3); j < np; j++ {
				d.addSnapshot(1+r.Intn(5), sn)
			}
		}
		if r.Chance(30) {
			d.addChunk(1, 1, 1, 0, []byte{1})
		}
		if r.Chance(15) {
			d.removePeer(1 + r.Intn(5))
		}
	}

	go func() {
		var res c14Result
		defer func() {
			if p := recover(); p != nil {
				res.panicv = p
			}
			d.done <- res
		}()
		res.state, res.commit, res.err = s.SyncAny(0, func() {})
	}()
	d.ev("TStart", 0, "SyncAny(0)")

	var cur c14Snap // snapshot offered last
	rejected := map[int]bool{}
	budget := 60 + r.Intn(60)
	steps := 0
	nApply, nVerdictKinds := 0, map[int]bool{}
	script := 0 // position in a directed scenario

	// a random reactor event while the syncer goroutine is parked
	noise := func() {
		switch c := r.Intn(100); {
		case c < 50 && cur.C > 0:
			p := 1 + r.Intn(5)
			if len(rejected) > 0 && r.Chance(40) {
				p = c14MinKey(rejected)
			}
			h, f, idx := cur.H, cur.F, uint32(r.Intn(int(cur.C)))
			body := c14Bytes(r, 2)
			switch r.Intn(25) {
			case 0:
				h++
			case 1:
				f++
			case 2:
				idx = cur.C
			case 3:
				body = nil
			}
			d.addChunk(p, h, f, idx, body)
		case c < 70:
			sn := c14GenSnap(r)
			if len(known) > 0 && r.Chance(60) {
				sn = known[r.Intn(len(known))]
			} else {
				known = append(known, sn)
			}
			p := 1 + r.Intn(5)
			if len(rejected) > 0 && r.Chance(30) {
				p = c14MinKey(rejected)
			}
			d.addSnapshot(p, sn)
		case c < 80:
			d.removePeer(1 + r.Intn(5))
		}
	}

	var finalTerm, finalDescr string
	for {
		y := d.waitYield(t)
		steps++
		if y.kind == 5 {
			code := c14ErrCode(y.res)
			var appv uint64
			var mark, cm []byte
			var lh int64
			if code == 0 {
				appv, mark, lh = y.res.state.Version.Consensus.App, y.res.state.AppHash, y.res.state.LastBlockHeight
				if y.res.commit != nil {
					cm = y.res.commit.BlockID.Hash
				}
			}
			finalTerm = vg.App("IDone", vg.Z(int64(code)), c14U(appv), vg.Hx(mark), vg.Z(lh), vg.Hx(cm))
			// what node.startStateSync does with the state and commit SyncAny returned, on real
			// stores; the "chain" is the stub provider's (pseudo light blocks h, h+1, h+2)
			if code == 0 && y.res.commit != nil && lh >= 1 && lh < math.MaxInt64-4 {
				h := uint64(lh)
				var blocks []string
				for z := h; z <= h+2; z++ {
					var cmh, bid []byte
					if z == h {
						cmh, bid = y.res.commit.Hash(), y.res.commit.BlockID.Hash
					}
					blocks = append(blocks, vg.Tup(c14U(z), "0%Z", "11%Z", "0%Z", `""`, `""`, vg.Hx(bid), vg.Hx(cmh), vg.Hx(c14StubVals(z).Hash()),
						vg.Hx(types.HashConsensusParams(c14StubParams(z)))))
				}
				bootTerm, bootDescr = c14BootCase(blocks, nil, y.res.state, y.res.commit, nil)
				bootDescr = fmt.Sprintf("stub state provider: validator set of height z = {c14-stub-0: 10+z%%7, c14-stub-1: 10}, params Block.MaxBytes 4000000+z%%1000; the state and commit SyncAny returned for the snapshot of height %d; real state store + block store (MemDB); %s", h, bootDescr)
			}
			finalDescr = fmt.Sprintf("SyncAny returned class %d (err=%v panic=%v) state{App:%d AppHash:%x LastBlockHeight:%d} commit %x",
				code, y.res.err, y.res.panicv, appv, mark, lh, cm)
			break
		}
		over := steps > budget
		switch y.kind {
		case 1: // OfferSnapshot
			o := y.req.offer
			cur = c14Snap{H: o.Snapshot.Height, F: o.Snapshot.Format, C: o.Snapshot.Chunks, Hash: o.Snapshot.Hash, MD: o.Snapshot.Metadata}
			d.items = append(d.items, vg.App("IOffer", cur.term(), vg.Hx(o.AppHash)))
			d.descr = append(d.descr, fmt.Sprintf("app<-OfferSnapshot(%s, AppHash %x)", cur, o.AppHash))
			if directed == 0 && r.Chance(25) {
				noise()
			}
			v := 1
			if directed == 0 {
				switch c := r.Intn(100); {
				case c < 70:
					v = 1
				case c < 74:
					v = 2
				case c < 83:
					v = 3
				case c < 89:
					v = 4
				case c < 96:
					v = 5
				default:
					v = 0 // UNKNOWN
				}
			}
			if over {
				v = 2
			}
			if v == 5 {
				var ps []int
				for _, p := range s.snapshots.GetPeers(cur.mk()) {
					ps = append(ps, c14PNum(p.ID()))
					rejected[c14PNum(p.ID())] = true
				}
				d.items = append(d.items, vg.App("IPeers", c14NL(ps)))
				d.descr = append(d.descr, fmt.Sprintf("GetPeers=%v", ps))
			}
			d.ev(vg.App("TOfferReply", vg.Z(int64(v))), 0, "OfferSnapshot reply "+c14OfferName(v))
			app.rep <- c14Rep{offer: abci.ResponseOfferSnapshot{Result: c14OfferResult(v)}}
		case 2: // ApplySnapshotChunk
			a := y.req.apply
			sender := c14PNum(p2p.ID(a.Sender))
			nApply++
			d.items = append(d.items, vg.App("IApply", vg.Z(int64(a.Index)), vg.Hx(a.Chunk), vg.N(uint64(sender))))
			d.descr = append(d.descr, fmt.Sprintf("app<-ApplySnapshotChunk(Index %d, Chunk %x, Sender %q)", a.Index, a.Chunk, a.Sender))
			if directed == 0 && r.Chance(30) {
				noise()
			}
			v := 1
			var refetch []uint32
			var rejects []int
			if directed == 0 {
				switch c := r.Intn(100); {
				case c < 66:
					v = 1
				case c < 69:
					v = 2
				case c < 81:
					v = 3
				case c < 88:
					v = 4
				case c < 93:
					v = 5
				case c < 95:
					v = 0
				}
				if r.Chance(18) {
					for j, n := 0, 1+r.Intn(2); j < n; j++ {
						refetch = append(refetch, uint32(r.Intn(int(cur.C)+1)))
					}
				}
				if r.Chance(18) {
					switch r.Intn(4) {
					case 0, 1:
						rejects = append(rejects, sender)
					case 2:
						rejects = append(rejects, 1+r.Intn(5))
					default:
						rejects = append(rejects, 0, 1+r.Intn(5))
					}
				}
			} else {
				v, refetch, rejects = c14Directed(directed, &script, a.Index, sender)
			}
			if over {
				v = 2
			}
			for _, p := range rejects {
				if p != 0 {
					rejected[p] = true
				}
			}
			nVerdictKinds[v] = true
			rs := make([]string, len(rejects))
			for i, p := range rejects {
				rs[i] = string(c14PID(p))
			}
			d.ev(vg.App("TApplyReply", vg.Z(int64(v)), c14ZL(refetch), c14NL(rejects)), 0,
				fmt.Sprintf("ApplySnapshotChunk reply %s RefetchChunks %v RejectSenders %q", c14ApplyName(v), refetch, rs))
			app.rep <- c14Rep{apply: abci.ResponseApplySnapshotChunk{Result: c14ApplyResult(v), RefetchChunks: refetch, RejectSenders: rs}}
		case 3: // Info
			d.items = append(d.items, "IInfo")
			d.descr = append(d.descr, "app<-Info")
			e := prov.tbl[cur.H]
			hash, height, appv := e.appHash, int64(cur.H), e.appV
			if directed == 0 {
				// boundary values around the three comparisons of verifyApp
				switch r.Intn(30) {
				case 0:
					hash = []byte{0xee}
				case 1:
					height++
				case 2:
					appv++
				case 3:
					height = 0
				case 4:
					height = -height
				case 5:
					hash = nil // an empty report
				case 6:
					hash = append(append([]byte{}, hash...), 0) // longer
				case 7:
					if len(hash) > 0 {
						hash = hash[:len(hash)-1] // a proper prefix
					} else {
						hash = []byte{0}
					}
				case 8:
					height--
				case 9:
					height = math.MaxInt64
				case 10:
					if appv == 0 {
						appv = 1
					} else {
						appv = 0
					}
				case 11:
					appv-- // wraps to 2^64-1 from 0
				case 12:
					height = math.MinInt64
				case 13:
					if len(hash) > 0 {
						hash = append([]byte{}, hash...)
						hash[len(hash)-1] ^= 1
					} else {
						hash = bytes.Repeat([]byte{0}, 32)
					}
				case 14:
					height += 1 << 32
				}
			}
			if vt != nil {
				hash, height, appv = vt.hash, vt.height, vt.appV
			}
			d.ev(vg.App("TInfoReply", c14U(appv), vg.Hx(hash), vg.Z(height)), 0,
				fmt.Sprintf("Info reply {AppVersion:%d LastBlockAppHash:%x LastBlockHeight:%d}", appv, hash, height))
			app.rep <- c14Rep{info: abci.ResponseInfo{AppVersion: appv, LastBlockAppHash: hash, LastBlockHeight: height}}
		case 4: // Next is blocked on y.idx: the peers act until it arrives
			if directed != 0 {
				c14DirectedArrival(d, directed, &script, cur, y.idx)
				continue
			}
			if !over && r.Chance(35) {
				noise()
				continue
			}
			p := 1 + r.Intn(5)
			if !over && len(rejected) > 0 && r.Chance(35) {
				p = c14MinKey(rejected)
			}
			if over {
				p = 6 + steps // a peer nobody has rejected
			}
			d.addChunk(p, cur.H, cur.F, y.idx, append([]byte{byte(0x40 + y.idx)}, c14Bytes(r, 1)...))
		}
	}
	d.items = append(d.items, finalTerm)
	d.descr = append(d.descr, finalDescr)
	if directed == 0 && r.Chance(30) {
		d.addChunk(1, cur.H, cur.F, 0, []byte{1})
	}
	kind = "sync"
	if directed != 0 {
		kind = fmt.Sprintf("sync-directed-%d", directed)
	}
	if vt != nil {
		kind = "sync-verifyapp-boundary"
	}
	return vg.App("CSync", vg.L(provTerms), vg.L(d.items)),
		"state provider " + strings.Join(provDescr, " ") + "; ChunkFetchers=0; " + strings.Join(d.descr, "; "),
		kind, nApply >= 2 && len(nVerdictKinds) >= 2, bootTerm, bootDescr
}

func c14MinKey(m map[int]bool) int {
	best := -1
	for k := range m {
		if best < 0 || k < best {
			best = k
		}
	}
	return best
}

func c14OfferResult(v int) abci.ResponseOfferSnapshot_Result {
	switch v {
	case 1:
		return abci.ResponseOfferSnapshot_ACCEPT
	case 2:
		return abci.ResponseOfferSnapshot_ABORT
	case 3:
		return abci.ResponseOfferSnapshot_REJECT
	case 4:
		return abci.ResponseOfferSnapshot_REJECT_FORMAT
	case 5:
		return abci.ResponseOfferSnapshot_REJECT_SENDER
	}
	return abci.ResponseOfferSnapshot_UNKNOWN
}
func c14OfferName(v int) string { return c14OfferResult(v).String() }

func c14ApplyResult(v int) abci.ResponseApplySnapshotChunk_Result {
	switch v {
	case 1:
		return abci.ResponseApplySnapshotChunk_ACCEPT
	case 2:
		return abci.ResponseApplySnapshotChunk_ABORT
	case 3:
		return abci.ResponseApplySnapshotChunk_RETRY
	case 4:
		return abci.ResponseApplySnapshotChunk_RETRY_SNAPSHOT
	case 5:
		return abci.ResponseApplySnapshotChunk_REJECT_SNAPSHOT
	}
	return abci.ResponseApplySnapshotChunk_UNKNOWN
}
func c14ApplyName(v int) string { return c14ApplyResult(v).String() }

// Directed scenarios (snapshot {2,1,3 chunks} known from peers 1,2,3):
//
//	1  F20: the application rejects the sender of chunk 0 and asks to refetch it; the rejected
//	   sender delivers index 0 again
//	2  F20 variant: reject-sender + RETRY_SNAPSHOT, then the rejected sender supplies a later index
//	3  snapshot height 2^64-1: no state provider entry, the snapshot is rejected
//	4  refetch of an already applied chunk and RETRY of the current one
func c14Directed(directed int, script *int, index uint32, sender int) (int, []uint32, []int) {
	*script++
	switch directed {
	case 1:
		if *script == 1 {
			return 1, []uint32{0}, []int{sender}
		}
	case 2:
		if *script == 1 {
			return 4, nil, []int{sender}
		}
	case 4:
		if *script == 2 {
			return 3, []uint32{0}, nil
		}
	}
	return 1, nil, nil
}

func c14DirectedArrival(d *c14Driver, directed int, script *int, cur c14Snap, idx uint32) {
	switch directed {
	case 1:
		// peer 1 always answers first, peer 2 afterwards
		if !d.addChunk(1, cur.H, cur.F, idx, []byte{0x10 + byte(idx)}) {
			d.addChunk(2, cur.H, cur.F, idx, []byte{0x20 + byte(idx)})
		}
	case 2:
		if !d.addChunk(1, cur.H, cur.F, idx, []byte{0x10 + byte(idx)}) {
			d.addChunk(2, cur.H, cur.F, idx, []byte{0x20 + byte(idx)})
		}
	default:
		d.addChunk(1+int(idx)%3, cur.H, cur.F, idx, []byte{0x10 + byte(idx)})
	}
}

// Directed boundary table of verifyApp (directed = 100 + index): a one-chunk snapshot of height H
// whose trusted (state provider) app hash / app version are trusted / trustedV is restored without
// incident, then the application's Info reports (hash, height, appV).  The node may start only if
// hash == trusted byte for byte (an empty trusted hash is matched by an empty report only),
// height == H and appV == trustedV.
type c14VerifyCase struct {
	H        uint64
	trusted  []byte
	trustedV uint64
	hash     []byte
	height   int64
	appV     uint64
}

var (
	c14T1  = []byte{0xa0, 0x03}
	c14T32 = append(bytes.Repeat([]byte{0x5a}, 31), 0x03)
)

var c14VerifyTable = []c14VerifyCase{
	// empty trusted hash
	{3, nil, 2, []byte{0xee}, 3, 2},
	{3, nil, 2, nil, 3, 2},
	{3, []byte{}, 2, []byte{}, 3, 2},
	{3, []byte{}, 2, []byte{0}, 3, 2},
	{3, nil, 2, bytes.Repeat([]byte{0}, 32), 3, 2},
	{3, nil, 2, c14T32, 3, 2},
	// non-empty trusted hash: empty report, prefix, longer, different, equal
	{3, c14T1, 2, nil, 3, 2},
	{3, c14T1, 2, []byte{}, 3, 2},
	{3, c14T1, 2, []byte{0xa0}, 3, 2},
	{3, c14T1, 2, []byte{0xa0, 0x03, 0x00}, 3, 2},
	{3, c14T1, 2, []byte{0xa0, 0x02}, 3, 2},
	{3, c14T1, 2, []byte{0x03, 0xa0}, 3, 2},
	{3, c14T1, 2, c14T1, 3, 2},
	{3, c14T32, 2, c14T32[:31], 3, 2},
	{3, c14T32, 2, append(append([]byte{}, c14T32...), 0x03), 3, 2},
	{3, c14T32, 2, c14T32, 3, 2},
	// heights
	{3, c14T1, 2, c14T1, 0, 2},
	{3, c14T1, 2, c14T1, 2, 2},
	{3, c14T1, 2, c14T1, 4, 2},
	{3, c14T1, 2, c14T1, math.MaxInt64, 2},
	{3, c14T1, 2, c14T1, math.MaxInt64 - 1, 2},
	{3, c14T1, 2, c14T1, math.MinInt64, 2},
	{3, c14T1, 2, c14T1, -3, 2},
	{3, c14T1, 2, c14T1, -1, 2},
	{3, c14T1, 2, c14T1, 3 + 1<<32, 2},
	{1, c14T1, 2, c14T1, 0, 2},
	{1, c14T1, 2, c14T1, 1, 2},
	{math.MaxInt64, c14T1, 2, c14T1, math.MaxInt64, 2},
	{math.MaxInt64, c14T1, 2, c14T1, math.MaxInt64 - 1, 2},
	{math.MaxInt64, c14T1, 2, c14T1, -1, 2},
	{math.MaxInt64, c14T1, 2, c14T1, math.MinInt64, 2},
	// app versions
	{3, c14T1, 2, c14T1, 3, 0},
	{3, c14T1, 2, c14T1, 3, 1},
	{3, c14T1, 2, c14T1, 3, 3},
	{3, c14T1, 2, c14T1, 3, 2 + 1<<32},
	{3, c14T1, 0, c14T1, 3, 0},
	{3, c14T1, 0, c14T1, 3, 1},
	{3, c14T1, 0, c14T1, 3, math.MaxUint64},
	{3, c14T1, math.MaxUint64, c14T1, 3, math.MaxUint64},
	{3, c14T1, math.MaxUint64, c14T1, 3, math.MaxUint64 - 1},
	{3, c14T1, 1, c14T1, 3, 0},
	// two things wrong at once, one of them hidden behind an empty trusted hash
	{3, nil, 2, nil, 4, 2},
	{3, nil, 2, []byte{0xee}, 3, 3},
	{3, nil, 0, []byte{0xee}, 0, 0},
}

func TestVerifC14Sync(t *testing.T) {
	cs := vg.NewCases("C14", "c14_sync", "TM.C14.Exec")
	root := vg.NewRand(vg.Seed())
	one := func(rr *vg.Rand, directed int, nontrivialAlways bool) {
		id, idBoot := cs.NextID(), cs.NextID()
		if !cs.Want(id) && !cs.Want(idBoot) {
			return
		}
		term, descr, kind, nt, bootTerm, bootDescr := c14SyncCase(t, rr, directed)
		if cs.Want(id) {
			cs.Add(id, kind, nt || nontrivialAlways, term, descr)
		}
		if bootTerm != "" && cs.Want(idBoot) {
			cs.Add(idBoot, "sync-boot", false, bootTerm, bootDescr)
		}
	}
	for directed := 1; directed <= 4; directed++ {
		one(root.Fork(uint64(1000000+directed)), directed, true)
	}
	for i := range c14VerifyTable {
		one(root.Fork(uint64(2000000+i)), 100+i, false)
	}
	n := vg.Scale(240, 20000)
	for k := 0; k < n; k++ {
		one(root.Fork(uint64(k)), 0, false)
	}
	if err := cs.Write(); err != nil {
		t.Fatal(err)
	}
}
