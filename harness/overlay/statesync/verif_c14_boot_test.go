//go:build verif

package statesync

// C14 correspondence harness, bootstrap part: what node.startStateSync does with the (state,
// commit) a successful Sync returned -
//
//	stateStore.Bootstrap(state); blockStore.SaveSeenCommit(state.LastBlockHeight, commit)
//
// - on a REAL state.Store and store.BlockStore (MemDB), and what the node reads back from them by
// height afterwards: LoadValidators, LoadConsensusParams, Load, LoadSeenCommit.  Then the states of
// the following blocks are saved (built like state.updateState builds them, from the chain's
// validator sets and params) and the lookups are read again: records that only point to the
// height of the last change have to resolve through the records Bootstrap wrote.  The answers are
// compared with what the chain has at each height (coq/C14/Spec.v bootstrapped_store_spec,
// store_tracks_chain: clauses 18, 19) and with the model of state/store.go (Model.v).

import (
	"fmt"
	"strings"

	dbm "github.com/tendermint/tm-db"

	vg "github.com/tendermint/tendermint/internal/verifgen"
	tmproto "github.com/tendermint/tendermint/proto/tendermint/types"
	sm "github.com/tendermint/tendermint/state"
	"github.com/tendermint/tendermint/store"
	"github.com/tendermint/tendermint/types"
)

// the stateT tuple of coq/C14/Exec.v
func c14StateTerm(st sm.State) string {
	return vg.Tup(vg.Z(st.InitialHeight), vg.Z(int64(st.Version.Consensus.Block)), c14U(st.Version.Consensus.App),
		vg.Z(st.LastBlockHeight), vg.Z(st.LastBlockTime.UnixNano()), vg.Hx(st.LastBlockID.Hash), vg.Hx(st.AppHash),
		vg.Hx(st.LastResultsHash), vg.Hx(st.LastValidators.Hash()), vg.Hx(st.Validators.Hash()), vg.Hx(st.NextValidators.Hash()),
		vg.Z(st.LastHeightValidatorsChanged), vg.Hx(types.HashConsensusParams(st.ConsensusParams)), vg.Z(st.LastHeightConsensusParamsChanged))
}

func c14StateDescr(st sm.State) string {
	return fmt.Sprintf("{LastBlockHeight:%d LastValidators:%X Validators:%X NextValidators:%X LastHeightValidatorsChanged:%d ConsensusParams.Block.MaxBytes:%d LastHeightConsensusParamsChanged:%d}",
		st.LastBlockHeight, st.LastValidators.Hash()[:4], st.Validators.Hash()[:4], st.NextValidators.Hash()[:4], st.LastHeightValidatorsChanged,
		st.ConsensusParams.Block.MaxBytes, st.LastHeightConsensusParamsChanged)
}

// validator updates that turn the set a into the set b (as EndBlock would return them)
func c14ValDiff(a, b *types.ValidatorSet) []*types.Validator {
	var ups []*types.Validator
	for _, v := range b.Validators {
		_, old := a.GetByAddress(v.Address)
		if old == nil || old.VotingPower != v.VotingPower {
			ups = append(ups, types.NewValidator(v.PubKey, v.VotingPower))
		}
	}
	for _, v := range a.Validators {
		if _, nv := b.GetByAddress(v.Address); nv == nil {
			ups = append(ups, types.NewValidator(v.PubKey, 0))
		}
	}
	return ups
}

// the state after the block prev.LastBlockHeight+1, as state.updateState derives it from prev
// when the block's effects are the chain's: valsNext2 / valsNext3 = the chain's validator sets at
// t+2 / t+3 (the difference is what EndBlock of t+1 returned), paramsChanged = EndBlock of t+1
// returned consensus param updates leading to newParams
func c14Successor(prev sm.State, hdr *types.Header, bid types.BlockID, valsNext2, valsNext3 *types.ValidatorSet,
	paramsChanged bool, newParams tmproto.ConsensusParams, results, appHash []byte) (sm.State, error) {
	nValSet := prev.NextValidators.Copy()
	lastHeightValsChanged := prev.LastHeightValidatorsChanged
	if ups := c14ValDiff(valsNext2, valsNext3); len(ups) > 0 {
		if err := nValSet.UpdateWithChangeSet(ups); err != nil {
			return sm.State{}, err
		}
		lastHeightValsChanged = hdr.Height + 1 + 1
	}
	nValSet.IncrementProposerPriority(1)
	nextParams, lastHeightParamsChanged := prev.ConsensusParams, prev.LastHeightConsensusParamsChanged
	if paramsChanged {
		nextParams, lastHeightParamsChanged = newParams, hdr.Height+1
	}
	return sm.State{
		Version:                          prev.Version,
		ChainID:                          prev.ChainID,
		InitialHeight:                    prev.InitialHeight,
		LastBlockHeight:                  hdr.Height,
		LastBlockID:                      bid,
		LastBlockTime:                    hdr.Time,
		NextValidators:                   nValSet,
		Validators:                       prev.NextValidators.Copy(),
		LastValidators:                   prev.Validators.Copy(),
		LastHeightValidatorsChanged:      lastHeightValsChanged,
		ConsensusParams:                  nextParams,
		LastHeightConsensusParamsChanged: lastHeightParamsChanged,
		LastResultsHash:                  results,
		AppHash:                          appHash,
	}, nil
}

type c14BootRun struct {
	ss    sm.Store
	bs    *store.BlockStore
	obs   []string
	descr []string
}

func (b *c14BootRun) guard(what string, f func()) {
	defer func() {
		if p := recover(); p != nil {
			b.descr = append(b.descr, fmt.Sprintf("%s PANIC %v", what, p))
		}
	}()
	f()
}

// read the lookups back: validators in [lo-1, hi+1], params in [lo, hi], the state, the seen commit
func (b *c14BootRun) observe(phase int, h, hi int64) {
	ph := vg.Z(int64(phase))
	for z := h - 1; z <= hi+1; z++ {
		z := z
		code, val := int64(1), []byte(nil)
		b.guard(fmt.Sprintf("LoadValidators(%d)", z), func() {
			if vs, err := b.ss.LoadValidators(z); err == nil && vs != nil {
				code, val = 0, vs.Hash()
			}
		})
		b.obs = append(b.obs, vg.App("OVals", ph, vg.Z(z), vg.Z(code), vg.Hx(val)))
		b.descr = append(b.descr, fmt.Sprintf("LoadValidators(%d)=(%d,%X)", z, code, val))
	}
	for z := h; z <= hi; z++ {
		z := z
		code, val, mb := int64(1), []byte(nil), int64(0)
		b.guard(fmt.Sprintf("LoadConsensusParams(%d)", z), func() {
			if p, err := b.ss.LoadConsensusParams(z); err == nil {
				empty := tmproto.ConsensusParams{}
				if p.Equal(&empty) {
					code = 2
				} else {
					code, val, mb = 0, types.HashConsensusParams(p), p.Block.MaxBytes
				}
			}
		})
		b.obs = append(b.obs, vg.App("OParams", ph, vg.Z(z), vg.Z(code), vg.Hx(val)))
		b.descr = append(b.descr, fmt.Sprintf("LoadConsensusParams(%d)=(%d,Block.MaxBytes %d)", z, code, mb))
	}
	stTerm, stDescr, code := vg.Tup("0", "0", "0", "0", "0", `""`, `""`, `""`, `""`, `""`, `""`, "0", `""`, "0"), "error", int64(1)
	b.guard("Load()", func() {
		if st, err := b.ss.Load(); err == nil && !st.IsEmpty() {
			stTerm, stDescr, code = c14StateTerm(st), c14StateDescr(st), 0
		}
	})
	b.obs = append(b.obs, vg.App("OState", ph, vg.Z(code), stTerm))
	b.descr = append(b.descr, "Load()="+stDescr)
	for _, z := range []int64{h, h + 1} {
		z := z
		code, val := int64(1), []byte(nil)
		b.guard(fmt.Sprintf("LoadSeenCommit(%d)", z), func() {
			if c := b.bs.LoadSeenCommit(z); c != nil {
				code, val = 0, c.Hash()
			}
		})
		b.obs = append(b.obs, vg.App("OSeen", ph, vg.Z(z), vg.Z(code), vg.Hx(val)))
		b.descr = append(b.descr, fmt.Sprintf("LoadSeenCommit(%d)=(%d,%X)", z, code, val))
	}
}

// one CBoot case.  blocks = the lbT terms of the chain; pre = states saved before the bootstrap;
// succs = the successor states saved after it
func c14BootCase(blocks []string, pre []sm.State, st sm.State, cm *types.Commit, succs []sm.State) (term, descr string) {
	b := &c14BootRun{ss: sm.NewStore(dbm.NewMemDB(), sm.StoreOptions{}), bs: store.NewBlockStore(dbm.NewMemDB())}
	h := st.LastBlockHeight
	var preTerms, succTerms []string
	for _, p := range pre {
		p := p
		b.guard("Save(pre)", func() {
			if err := b.ss.Save(p); err != nil {
				b.descr = append(b.descr, fmt.Sprintf("Save(pre) err=%v", err))
			}
		})
		preTerms = append(preTerms, c14StateTerm(p))
		b.descr = append(b.descr, "Save"+c14StateDescr(p))
	}
	// node.startStateSync
	b.guard("Bootstrap", func() {
		err := b.ss.Bootstrap(st)
		if err == nil {
			err = b.bs.SaveSeenCommit(st.LastBlockHeight, cm)
		}
		b.descr = append(b.descr, fmt.Sprintf("Bootstrap%s; SaveSeenCommit(%d, commit %X) err=%v", c14StateDescr(st), st.LastBlockHeight, cm.Hash(), err))
	})
	b.observe(0, h, h+2)
	for k, s := range succs {
		s := s
		b.guard("Save", func() {
			err := b.ss.Save(s)
			b.descr = append(b.descr, fmt.Sprintf("Save%s err=%v", c14StateDescr(s), err))
		})
		succTerms = append(succTerms, c14StateTerm(s))
		b.observe(k+1, h, h+2+int64(k+1))
	}
	return vg.App("CBoot", vg.L(blocks), vg.Z(h), vg.L(preTerms), c14StateTerm(st), vg.Hx(cm.Hash()), vg.L(succTerms), vg.L(b.obs)),
		strings.Join(b.descr, "; ")
}
