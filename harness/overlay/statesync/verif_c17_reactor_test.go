//go:build verif

package statesync

// C17 reactor sweep, statesync reactor (reactor number 5) — injected with `go test -overlay`.
//
// One case = one hostile input delivered to a fresh, started statesync Reactor through
// Reactor.Receive (what the p2p layer does) on the snapshot channel 0x60 or the chunk channel
// 0x61.  The ABCI connections are a small in-file fake application (it serves two local snapshots,
// accepts exactly one "honest" snapshot for restoration and checks every chunk's content:
// a wrong chunk is answered with RETRY + RefetchChunks + RejectSenders), the StateProvider is a
// fake that knows the app hash of the honest snapshot's height only (any other height fails
// verification, as the light client would).  State = sync*3 + peer:
//   sync 0: no state sync in progress (r.syncer == nil);
//   sync 1: a sync is in its discovery phase (r.syncer set exactly as Reactor.Sync does, an honest
//           peer has advertised the honest snapshot); after the hostile input the harness runs
//           syncer.SyncAny(0, hook) — the body of Reactor.Sync — to completion;
//   sync 2: a sync is restoring the honest snapshot (SyncAny running, chunk queue open, the honest
//           peer's chunk responses held back); after the hostile input the honest chunks arrive;
//   peer 0: unknown to the reactor, 1: added with AddPeer, 2: added and removed again.
//
// Goroutines:
//   - the state sync goroutine (in production node.startStateSync runs `go func(){ ssR.Sync(..) }`
//     without recover, so a panic there kills the node): WRAPPED — the harness runs SyncAny under
//     recover.
//   - syncer.fetchChunks (spawned inside syncer.Sync, one per chunk fetcher) cannot be intercepted:
//     CHILD PROCESS — all cases run in a re-exec'ed copy of the test binary; when it dies (also
//     with "fatal error: out of memory") the case in progress is recorded with bg_panic, or stuck
//     when the parent had to kill it.
//
// alive probe: a SnapshotsRequest and a ChunkRequest from a fresh honest peer are answered; when a
// sync was in progress it must complete with the honest snapshot restored.
// alloc covers Receive plus, for sync 1 and 2, the remainder of the sync (the honest data is tiny).

import (
	"bytes"
	"context"
	"crypto/sha256"
	"encoding/hex"
	"encoding/json"
	"fmt"
	"math"
	"os"
	"os/exec"
	"runtime"
	"strconv"
	"strings"
	"sync"
	"testing"
	"time"

	"github.com/gogo/protobuf/proto"

	abci "github.com/tendermint/tendermint/abci/types"
	cfg "github.com/tendermint/tendermint/config"
	"github.com/tendermint/tendermint/crypto/ed25519"
	vg "github.com/tendermint/tendermint/internal/verifgen"
	"github.com/tendermint/tendermint/libs/log"
	"github.com/tendermint/tendermint/p2p"
	"github.com/tendermint/tendermint/p2p/conn"
	"github.com/tendermint/tendermint/p2p/mock"
	ssproto "github.com/tendermint/tendermint/proto/tendermint/statesync"
	sm "github.com/tendermint/tendermint/state"
	"github.com/tendermint/tendermint/types"
)

// ------------------------------------------------------------------ shared skeleton (duplicated in the five files)

type c17Rec struct {
	Phase     string `json:"phase"` // "B" written before the input is delivered, "E" after
	ID        int    `json:"id"`
	Kind      int    `json:"kind"`
	KindName  string `json:"kind_name"`
	InLen     int    `json:"in_len"`
	Descr     string `json:"descr"`
	RecvPanic bool   `json:"recv_panic"`
	Stopped   bool   `json:"stopped"`
	BgPanic   bool   `json:"bg_panic"`
	Stuck     bool   `json:"stuck"`
	Alive     bool   `json:"alive"`
	Alloc     int64  `json:"alloc"`
	Note      string `json:"note,omitempty"`
}

type c17Input struct {
	kind     int
	kindName string
	chID     byte
	state    int
	data     []byte
	msg      string // Go-literal-ish form for kind 2
	extra    string
}

// c17BG collects panics of wrapped background goroutines.
type c17BG struct {
	mtx    sync.Mutex
	panics []string
	wg     sync.WaitGroup
}

func (b *c17BG) Go(name string, f func()) {
	b.wg.Add(1)
	go func() {
		defer b.wg.Done()
		defer func() {
			if r := recover(); r != nil {
				b.mtx.Lock()
				b.panics = append(b.panics, fmt.Sprintf("%s: %v", name, r))
				b.mtx.Unlock()
			}
		}()
		f()
	}()
}
func (b *c17BG) Panicked() (bool, string) {
	b.mtx.Lock()
	defer b.mtx.Unlock()
	return len(b.panics) > 0, strings.Join(b.panics, " | ")
}

// c17Timed runs f under recover in its own goroutine; done=false when it did not return in time.
func c17Timed(d time.Duration, f func()) (done bool, panicked bool, pv string) {
	ch := make(chan struct{})
	go func() {
		defer close(ch)
		defer func() {
			if r := recover(); r != nil {
				panicked = true
				pv = fmt.Sprint(r)
			}
		}()
		f()
	}()
	select {
	case <-ch:
		return true, panicked, pv
	case <-time.After(d):
		return false, false, ""
	}
}

func c17TotalAlloc() int64 {
	var ms runtime.MemStats
	runtime.ReadMemStats(&ms)
	return int64(ms.TotalAlloc)
}

func c17Trunc(s string, n int) string {
	if len(s) > n {
		return s[:n] + fmt.Sprintf("…(%d more)", len(s)-n)
	}
	return s
}

func c17HexDescr(b []byte) string {
	if len(b) <= 2048 {
		return hex.EncodeToString(b)
	}
	return hex.EncodeToString(b[:1024]) + fmt.Sprintf("…(%d bytes in total; regenerate with VERIF_ONLY)", len(b))
}

func c17RandomBytes(r *vg.Rand, k int, tags []byte) []byte {
	var n int
	switch {
	case k < 24:
		n = k // lengths 0,1,2,… in order
	case r.Chance(70):
		n = r.Intn(64)
	default:
		n = 64 + r.Intn(400)
	}
	b := r.Bytes(n)
	if len(tags) > 0 && n > 0 && r.Chance(40) {
		b[0] = tags[r.Intn(len(tags))]
		if n > 1 && r.Chance(60) {
			b[1] = byte(n - 2) // plausible length prefix
		}
	}
	return b
}

func c17Mutate(r *vg.Rand, valid []byte) ([]byte, string) {
	b := append([]byte{}, valid...)
	if len(b) == 0 {
		return b, "none"
	}
	switch r.Intn(5) {
	case 0:
		i := r.Intn(len(b))
		b[i] ^= 1 << uint(r.Intn(8))
		return b, fmt.Sprintf("bitflip@%d", i)
	case 1:
		i, j := r.Intn(len(b)), r.Intn(len(b))
		b[i] = byte(r.Uint64())
		b[j] = byte(r.Uint64())
		return b, fmt.Sprintf("bytes@%d,%d", i, j)
	case 2:
		n := r.Intn(len(b))
		return b[:n], fmt.Sprintf("truncate@%d", n)
	case 3:
		i := r.Intn(len(b))
		b[i] = 0xff
		return b, fmt.Sprintf("ff@%d", i)
	default:
		i := r.Intn(len(b))
		c := append(append([]byte{}, b[:i]...), byte(r.Uint64()))
		return append(c, b[i:]...), fmt.Sprintf("insert@%d", i)
	}
}

// c17Peer is the mock peer (hostile sender, honest prober, observer): a p2p/mock.Peer that
// records what the reactor sends to it.
type c17Peer struct {
	*mock.Peer
	mtx    sync.Mutex
	sent   []proto.Message
	onSend func(e p2p.Envelope)
}

func c17NewPeer(ip byte, outbound bool) *c17Peer {
	p := &c17Peer{Peer: mock.NewPeer([]byte{37, 120, 3, ip})}
	p.Peer.Outbound = outbound
	return p
}
func (p *c17Peer) record(e p2p.Envelope) bool {
	p.mtx.Lock()
	p.sent = append(p.sent, e.Message)
	f := p.onSend
	p.mtx.Unlock()
	if f != nil {
		f(e)
	}
	return true
}
func (p *c17Peer) SendEnvelope(e p2p.Envelope) bool    { return p.record(e) }
func (p *c17Peer) TrySendEnvelope(e p2p.Envelope) bool { return p.record(e) }
func (p *c17Peer) Sent() []proto.Message {
	p.mtx.Lock()
	defer p.mtx.Unlock()
	return append([]proto.Message{}, p.sent...)
}

func c17Key() ed25519.PrivKey { return ed25519.GenPrivKey() }

// c17Drive is the parent/child orchestration.  gen builds case k from its own PRNG stream; exec
// delivers it.  The parent never delivers anything itself.
func c17Drive(t *testing.T, testName, casesName string, reactorNo uint64, n int,
	gen func(k int, r *vg.Rand) c17Input, run func(in c17Input, rec *c17Rec)) {

	root := vg.NewRand(vg.Seed())
	if fromS := os.Getenv("VERIF_C17_CHILD"); fromS != "" {
		// ---- child: run cases from..n-1, journal to the file
		from, _ := strconv.Atoi(fromS)
		f, err := os.OpenFile(os.Getenv("VERIF_C17_FILE"), os.O_APPEND|os.O_WRONLY|os.O_CREATE, 0o644)
		if err != nil {
			t.Fatal(err)
		}
		defer f.Close()
		put := func(rec c17Rec) {
			js, _ := json.Marshal(rec)
			f.Write(append(js, '\n'))
			f.Sync()
		}
		for k := from; k < n; k++ {
			if o := vg.Only(); o >= 0 && o != k {
				continue
			}
			var in c17Input
			func() {
				defer func() {
					if r := recover(); r != nil { // a generator bug must not kill the run: visible as its own kind
						in = c17Input{kind: 0, kindName: "harness-generator-panic", extra: fmt.Sprintf(" GENERATOR PANIC: %v", r)}
					}
				}()
				in = gen(k, root.Fork(uint64(k)))
			}()
			rec := c17Rec{Phase: "B", ID: k, Kind: in.kind, KindName: in.kindName, InLen: len(in.data)}
			rec.Descr = fmt.Sprintf("reactor=%d(%s) ch=0x%02x peer_state=%d%s input(hex)=%s", reactorNo, casesName,
				in.chID, in.state, in.extra, c17HexDescr(in.data))
			if in.msg != "" {
				rec.Descr += " msg=" + c17Trunc(in.msg, 1500)
			}
			put(rec)
			func() {
				defer func() {
					if r := recover(); r != nil { // the harness itself must not die
						rec.Note += fmt.Sprintf(" harness-panic: %v", r)
					}
				}()
				run(in, &rec)
			}()
			rec.Phase = "E"
			put(rec)
		}
		return
	}

	// ---- parent
	cs := vg.NewCases("C17", casesName, "TM.C17.Exec")
	add := func(rec c17Rec) {
		term := vg.App("CReactor", vg.N(reactorNo), vg.N(uint64(rec.Kind)), vg.Z(int64(rec.InLen)),
			vg.B(rec.RecvPanic), vg.B(rec.Stopped), vg.B(rec.BgPanic), vg.B(rec.Stuck), vg.B(rec.Alive), vg.Z(rec.Alloc))
		d := rec.Descr
		if rec.Note != "" {
			d += " note=" + rec.Note
		}
		cs.Add(rec.ID, rec.KindName, rec.Kind != 0 || rec.InLen > 0, term, d)
		out := "ignored"
		switch {
		case rec.BgPanic:
			out = "BG_PANIC"
		case rec.Stuck:
			out = "STUCK"
		case !rec.Alive:
			out = "NOT_ALIVE"
		case rec.RecvPanic:
			out = "recv_panic"
		case rec.Stopped:
			out = "stopped"
		}
		cs.Count("outcome:"+out, 1)
	}
	for k := 0; k < n; k++ {
		cs.NextID() // ids are dense: id = k
	}
	dir, err := os.MkdirTemp("", "c17child")
	if err != nil {
		t.Fatal(err)
	}
	defer os.RemoveAll(dir)
	from, spawn := 0, 0
	for from < n {
		spawn++
		file := fmt.Sprintf("%s/journal%d", dir, spawn)
		ctx, cancel := context.WithTimeout(context.Background(), time.Duration(120+4*(n-from))*time.Second)
		cmd := exec.CommandContext(ctx, os.Args[0], "-test.run=^"+testName+"$", "-test.count=1", "-test.timeout=0")
		cmd.Env = append(os.Environ(), "VERIF_C17_CHILD="+strconv.Itoa(from), "VERIF_C17_FILE="+file)
		var outb bytes.Buffer
		cmd.Stdout, cmd.Stderr = &outb, &outb
		runErr := cmd.Run()
		timedOut := ctx.Err() != nil
		cancel()
		js, _ := os.ReadFile(file)
		var pending *c17Rec
		for _, line := range bytes.Split(js, []byte{'\n'}) {
			if len(line) == 0 {
				continue
			}
			var rec c17Rec
			if err := json.Unmarshal(line, &rec); err != nil {
				continue
			}
			if rec.Phase == "B" {
				r2 := rec
				pending = &r2
			} else {
				pending = nil
				add(rec)
			}
		}
		if runErr == nil && pending == nil {
			break
		}
		outS := outb.String()
		if pending == nil {
			t.Fatalf("c17 child died outside a case (from=%d): %v\n%s", from, runErr, c17Trunc(outS, 4000))
		}
		// the child died while case pending.ID was being handled
		crashed := strings.Contains(outS, "panic:") || strings.Contains(outS, "fatal error:")
		pending.BgPanic = crashed && !timedOut
		pending.Stuck = !pending.BgPanic
		pending.Alive = false
		tail := outS
		if i := strings.Index(tail, "panic:"); i >= 0 {
			tail = tail[i:]
		} else if i := strings.Index(tail, "fatal error:"); i >= 0 {
			tail = tail[i:]
		}
		pending.Note = "child process died: " + c17Trunc(strings.ReplaceAll(tail, "\n", " / "), 700)
		add(*pending)
		cs.Notes = append(cs.Notes, fmt.Sprintf("case %d killed the child process", pending.ID))
		from = pending.ID + 1
		if vg.Only() >= 0 {
			break
		}
	}
	if err := cs.Write(); err != nil {
		t.Fatal(err)
	}
}

// ------------------------------------------------------------------ statesync specifics

const (
	c17SsH      = uint64(10)
	c17SsF      = uint32(1)
	c17SsChunks = uint32(3)
)

var (
	c17SsHash    = sha256.Sum256([]byte("c17 honest snapshot"))
	c17SsAppHash = []byte("c17-app-hash-after-height-10....")
	c17SsMeta    = []byte("meta")
)

func c17SsChunk(i uint32) []byte { return []byte(fmt.Sprintf("honest-chunk-%d", i)) }

// fake application (both proxy.AppConnSnapshot and proxy.AppConnQuery)
type c17SsApp struct {
	mtx      sync.Mutex
	applied  map[uint32]bool
	restored bool
	offers   int
	retries  int
}

func (a *c17SsApp) Error() error { return nil }
func (a *c17SsApp) ListSnapshotsSync(abci.RequestListSnapshots) (*abci.ResponseListSnapshots, error) {
	return &abci.ResponseListSnapshots{Snapshots: []*abci.Snapshot{
		{Height: 5, Format: 1, Chunks: 2, Hash: []byte("local5"), Metadata: []byte("m")},
		{Height: 7, Format: 1, Chunks: 2, Hash: []byte("local7")}}}, nil
}
func (a *c17SsApp) LoadSnapshotChunkSync(rq abci.RequestLoadSnapshotChunk) (*abci.ResponseLoadSnapshotChunk, error) {
	if (rq.Height == 5 || rq.Height == 7) && rq.Format == 1 && rq.Chunk < 2 {
		return &abci.ResponseLoadSnapshotChunk{Chunk: []byte(fmt.Sprintf("local-%d-%d", rq.Height, rq.Chunk))}, nil
	}
	return &abci.ResponseLoadSnapshotChunk{}, nil
}
func (a *c17SsApp) OfferSnapshotSync(rq abci.RequestOfferSnapshot) (*abci.ResponseOfferSnapshot, error) {
	a.mtx.Lock()
	defer a.mtx.Unlock()
	a.offers++
	s := rq.Snapshot
	if s != nil && s.Height == c17SsH && s.Format == c17SsF && s.Chunks == c17SsChunks && bytes.Equal(s.Hash, c17SsHash[:]) &&
		bytes.Equal(s.Metadata, c17SsMeta) && bytes.Equal(rq.AppHash, c17SsAppHash) {
		a.applied = map[uint32]bool{}
		return &abci.ResponseOfferSnapshot{Result: abci.ResponseOfferSnapshot_ACCEPT}, nil
	}
	return &abci.ResponseOfferSnapshot{Result: abci.ResponseOfferSnapshot_REJECT}, nil
}
func (a *c17SsApp) ApplySnapshotChunkSync(rq abci.RequestApplySnapshotChunk) (*abci.ResponseApplySnapshotChunk, error) {
	a.mtx.Lock()
	defer a.mtx.Unlock()
	if rq.Index < c17SsChunks && bytes.Equal(rq.Chunk, c17SsChunk(rq.Index)) {
		a.applied[rq.Index] = true
		if len(a.applied) == int(c17SsChunks) {
			a.restored = true
		}
		return &abci.ResponseApplySnapshotChunk{Result: abci.ResponseApplySnapshotChunk_ACCEPT}, nil
	}
	a.retries++
	return &abci.ResponseApplySnapshotChunk{Result: abci.ResponseApplySnapshotChunk_RETRY,
		RefetchChunks: []uint32{rq.Index}, RejectSenders: []string{rq.Sender}}, nil
}
func (a *c17SsApp) EchoSync(s string) (*abci.ResponseEcho, error) {
	return &abci.ResponseEcho{Message: s}, nil
}
func (a *c17SsApp) InfoSync(abci.RequestInfo) (*abci.ResponseInfo, error) {
	a.mtx.Lock()
	defer a.mtx.Unlock()
	if a.restored {
		return &abci.ResponseInfo{LastBlockHeight: int64(c17SsH), LastBlockAppHash: c17SsAppHash}, nil
	}
	return &abci.ResponseInfo{}, nil
}
func (a *c17SsApp) QuerySync(abci.RequestQuery) (*abci.ResponseQuery, error) {
	return &abci.ResponseQuery{}, nil
}

type c17SsProvider struct{}

func (c17SsProvider) AppHash(ctx context.Context, h uint64) ([]byte, error) {
	if h == c17SsH {
		return c17SsAppHash, nil
	}
	return nil, fmt.Errorf("light client: cannot verify height %d", h)
}
func (c17SsProvider) Commit(ctx context.Context, h uint64) (*types.Commit, error) {
	if h == c17SsH {
		return &types.Commit{Height: int64(h)}, nil
	}
	return nil, fmt.Errorf("light client: cannot verify height %d", h)
}
func (c17SsProvider) State(ctx context.Context, h uint64) (sm.State, error) {
	if h == c17SsH {
		return sm.State{ChainID: "c17-chain", LastBlockHeight: int64(h)}, nil
	}
	return sm.State{}, fmt.Errorf("light client: cannot verify height %d", h)
}

func c17SsWrap(m interface{ Wrap() proto.Message }) []byte {
	b, err := proto.Marshal(m.Wrap())
	if err != nil {
		panic(err)
	}
	return b
}

func c17SsHonestSnapshot() *ssproto.SnapshotsResponse {
	return &ssproto.SnapshotsResponse{Height: c17SsH, Format: c17SsF, Chunks: c17SsChunks, Hash: c17SsHash[:], Metadata: c17SsMeta}
}

type c17SsEnv struct {
	r   *Reactor
	app *c17SsApp
	sw  *p2p.Switch
	bg  *c17BG
}

func c17NewSsEnv() *c17SsEnv {
	app := &c17SsApp{}
	sscfg := *cfg.DefaultStateSyncConfig()
	// a source that advertises a snapshot and then never serves a chunk costs ChunkRequestTimeout
	// (default 10 s) per request by design; scaled down so that progress shows within the probe deadline
	sscfg.ChunkRequestTimeout = 200 * time.Millisecond
	r := NewReactor(sscfg, app, app, "")
	r.SetLogger(log.NewNopLogger())
	nk := p2p.NodeKey{PrivKey: ed25519.GenPrivKey()}
	tr := p2p.NewMultiplexTransport(p2p.DefaultNodeInfo{DefaultNodeID: nk.ID()}, nk, conn.DefaultMConnConfig())
	sw := p2p.NewSwitch(cfg.DefaultP2PConfig(), tr)
	sw.SetLogger(log.NewNopLogger())
	sw.AddReactor("STATESYNC", r)
	if err := r.Start(); err != nil {
		panic(err)
	}
	return &c17SsEnv{r: r, app: app, sw: sw, bg: &c17BG{}}
}

func (e *c17SsEnv) toSwitch(p *c17Peer) {
	_ = e.sw.Peers().(*p2p.PeerSet).Add(p)
	e.r.InitPeer(p)
	e.r.AddPeer(p)
}

func (e *c17SsEnv) close() {
	e.r.mtx.RLock()
	s := e.r.syncer
	e.r.mtx.RUnlock()
	if s != nil { // end a sync that is still waiting for chunks
		s.mtx.RLock()
		q := s.chunks
		s.mtx.RUnlock()
		if q != nil {
			q.Close() //nolint:errcheck
		}
	}
	e.r.Stop() //nolint:errcheck
	for _, p := range e.sw.Peers().List() {
		p.Stop() //nolint:errcheck
	}
}

func c17SsGen(k int, r *vg.Rand) c17Input {
	in := c17Input{chID: SnapshotChannel, state: r.Intn(9)}
	hostile := func(name string, ch byte, m interface {
		Wrap() proto.Message
		String() string
	}) {
		in.kind, in.kindName, in.chID, in.data = 2, "hostile:"+name, ch, c17SsWrap(m)
		in.msg = fmt.Sprintf("&%T{%s}", m, c17Trunc(m.String(), 600))
	}
	if k < len(c17SsDirected) {
		c17SsDirected[k](&in, hostile)
		return in
	}
	switch sel := r.Intn(100); {
	case sel < 22:
		in.kind, in.kindName = 0, "random"
		in.data = c17RandomBytes(r, k, []byte{0x0a, 0x12, 0x1a, 0x22})
		in.chID = []byte{SnapshotChannel, ChunkChannel}[r.Intn(2)]
	case sel < 42:
		var valid []byte
		var what string
		switch r.Intn(4) {
		case 0:
			valid, what = c17SsWrap(c17SsHonestSnapshot()), "the honest SnapshotsResponse"
			in.chID = SnapshotChannel
		case 1:
			i := uint32(r.Intn(3))
			valid, what = c17SsWrap(&ssproto.ChunkResponse{Height: c17SsH, Format: c17SsF, Index: i, Chunk: c17SsChunk(i)}), fmt.Sprintf("the honest ChunkResponse %d", i)
			in.chID = ChunkChannel
		case 2:
			valid, what = c17SsWrap(&ssproto.ChunkRequest{Height: 5, Format: 1, Index: 1}), "ChunkRequest{5,1,1}"
			in.chID = ChunkChannel
		default:
			valid, what = c17SsWrap(&ssproto.SnapshotsRequest{}), "SnapshotsRequest{}"
		}
		var how string
		in.kind, in.kindName = 1, "mutated"
		in.data, how = c17Mutate(r, valid)
		in.extra = " mutation=" + how + " of " + what
	default:
		u64 := func() uint64 { return []uint64{0, 1, 5, c17SsH, c17SsH + 1, math.MaxInt64, math.MaxUint64}[r.Intn(7)] }
		u32 := func() uint32 { return []uint32{0, 1, 2, 3, 1000, math.MaxInt32, math.MaxUint32}[r.Intn(7)] }
		switch r.Intn(16) {
		case 0, 1: // snapshot advertisement with boundary values (chunk counts kept small here; see the directed case)
			m := &ssproto.SnapshotsResponse{Height: u64(), Format: u32(), Chunks: []uint32{0, 1, 2, 3, 4, 1000, 65536}[r.Intn(7)],
				Hash: r.Bytes([]int{0, 1, 32, 1000}[r.Intn(4)]), Metadata: r.Bytes([]int{0, 4, 100000}[r.Intn(3)])}
			hostile("snapshot-boundary", SnapshotChannel, m)
		case 2: // the honest snapshot with one field changed
			m := c17SsHonestSnapshot()
			var f string
			switch r.Intn(5) {
			case 0:
				m.Chunks, f = []uint32{1, 2, 4, 64}[r.Intn(4)], "chunks"
			case 1:
				m.Hash, f = r.Bytes(32), "hash"
			case 2:
				m.Metadata, f = r.Bytes(8), "metadata"
			case 3:
				m.Format, f = 2, "format"
			default:
				m.Height, f = c17SsH+1, "height"
			}
			hostile("snapshot-near-honest:"+f, SnapshotChannel, m)
		case 3:
			hostile("snapshot-3MB-metadata", SnapshotChannel, &ssproto.SnapshotsResponse{Height: 12, Format: 1, Chunks: 1,
				Hash: []byte{1}, Metadata: bytes.Repeat([]byte{7}, 3<<20)})
		case 4, 5: // chunk for the snapshot being restored, content wrong or right
			i := []uint32{0, 1, 2, 3, 4, math.MaxUint32}[r.Intn(6)]
			m := &ssproto.ChunkResponse{Height: c17SsH, Format: c17SsF, Index: i, Chunk: r.Bytes(1 + r.Intn(30))}
			name := "chunk-garbage"
			if r.Chance(30) && i < c17SsChunks {
				m.Chunk, name = c17SsChunk(i), "chunk-genuine"
			}
			hostile(name, ChunkChannel, m)
		case 6:
			m := &ssproto.ChunkResponse{Height: u64(), Format: u32(), Index: u32(), Chunk: r.Bytes(r.Intn(20)), Missing: r.Chance(40)}
			hostile("chunk-boundary", ChunkChannel, m)
		case 7:
			hostile("chunk-missing", ChunkChannel, &ssproto.ChunkResponse{Height: c17SsH, Format: c17SsF, Index: uint32(r.Intn(4)), Missing: true})
		case 8:
			hostile("chunk-4MB", ChunkChannel, &ssproto.ChunkResponse{Height: c17SsH, Format: c17SsF, Index: uint32(r.Intn(3)),
				Chunk: bytes.Repeat([]byte{byte(r.Uint64())}, 4<<20)})
		case 9, 10:
			hostile("chunk-request", ChunkChannel, &ssproto.ChunkRequest{Height: u64(), Format: u32(), Index: u32()})
		case 11:
			hostile("snapshots-request", SnapshotChannel, &ssproto.SnapshotsRequest{})
		case 12:
			b, _ := proto.Marshal(&ssproto.Message{})
			in.kind, in.kindName, in.data, in.msg = 2, "hostile:empty-message", b, "&Message{Sum: nil}"
			in.chID = []byte{SnapshotChannel, ChunkChannel}[r.Intn(2)]
		case 13: // right message, other channel of this reactor
			if r.Bool() {
				hostile("wrong-channel", ChunkChannel, c17SsHonestSnapshot())
			} else {
				hostile("wrong-channel", SnapshotChannel, &ssproto.ChunkResponse{Height: c17SsH, Format: c17SsF, Index: 0, Chunk: r.Bytes(5)})
			}
		case 14:
			hostile("foreign-channel", byte(0x20+r.Intn(0x30)), c17SsHonestSnapshot())
		default:
			m := c17SsHonestSnapshot()
			hostile("snapshot-honest-copy", SnapshotChannel, m)
		}
	}
	return in
}

type c17SsHostile = func(name string, ch byte, m interface {
	Wrap() proto.Message
	String() string
})

// directed cases first
var c17SsDirected = []func(in *c17Input, hostile c17SsHostile){
	// chunk count of an advertised snapshot is used as a map size hint (newChunkQueue) before anything is verified
	func(in *c17Input, hostile c17SsHostile) {
		in.state = 4 // sync in discovery, sender added
		hostile("snapshot-chunks-2^22", SnapshotChannel, &ssproto.SnapshotsResponse{Height: c17SsH + 1, Format: 1, Chunks: 1 << 22, Hash: []byte{1}})
	},
}

func c17SsExec(in c17Input, rec *c17Rec) {
	env := c17NewSsEnv()
	defer env.close()
	syncSt, peerSt := in.state/3, in.state%3
	hostile := c17NewPeer(2, false)
	honest := c17NewPeer(4, true)

	// the honest peer answers chunk requests (after the gate opens)
	gate := make(chan struct{})
	var gateOnce sync.Once
	openGate := func() { gateOnce.Do(func() { close(gate) }) }
	defer openGate()
	reqs := make(chan *ssproto.ChunkRequest, 256)
	honest.onSend = func(e p2p.Envelope) {
		if rq, ok := e.Message.(*ssproto.ChunkRequest); ok {
			select {
			case reqs <- rq:
			default:
			}
		}
	}
	stopServe := make(chan struct{})
	defer close(stopServe)
	env.bg.Go("harness: honest chunk server", func() {
		select {
		case <-gate:
		case <-stopServe:
			return
		}
		for {
			select {
			case <-stopServe:
				return
			case rq := <-reqs:
				m := &ssproto.ChunkResponse{Height: rq.Height, Format: rq.Format, Index: rq.Index, Missing: true}
				if rq.Height == c17SsH && rq.Format == c17SsF && rq.Index < c17SsChunks {
					m.Missing, m.Chunk = false, c17SsChunk(rq.Index)
				}
				env.r.Receive(ChunkChannel, honest, c17SsWrap(m))
			}
		}
	})

	var syncDone chan struct{}
	var syncErr error
	startSync := func() {
		syncDone = make(chan struct{})
		s := env.r.syncer
		env.bg.Go("state sync goroutine (Reactor.Sync body)", func() {
			defer close(syncDone)
			defer func() {
				env.r.mtx.Lock()
				env.r.syncer = nil
				env.r.mtx.Unlock()
			}()
			syncErr = fmt.Errorf("panicked")
			_, _, syncErr = s.SyncAny(0, func() {})
		})
	}
	if syncSt >= 1 {
		env.r.mtx.Lock()
		env.r.syncer = newSyncer(env.r.cfg, env.r.Logger, env.r.conn, env.r.connQuery, c17SsProvider{}, env.r.tempDir)
		env.r.mtx.Unlock()
		env.toSwitch(honest)
		env.r.Receive(SnapshotChannel, honest, c17SsWrap(c17SsHonestSnapshot()))
	}
	switch peerSt {
	case 1:
		env.toSwitch(hostile)
	case 2:
		env.toSwitch(hostile)
		env.r.RemovePeer(hostile, "removed earlier")
		_ = env.sw.Peers().(*p2p.PeerSet).Remove(hostile)
	}
	if syncSt == 2 {
		startSync()
		ok := false
		for dl := time.Now().Add(2 * time.Second); time.Now().Before(dl) && !ok; time.Sleep(time.Millisecond) {
			env.r.syncer.mtx.RLock()
			ok = env.r.syncer.chunks != nil
			env.r.syncer.mtx.RUnlock()
		}
		if !ok {
			rec.Note += " setup: chunk queue did not open"
		}
	}

	a0 := c17TotalAlloc()
	done, pan, pv := c17Timed(2*time.Second, func() { env.r.Receive(in.chID, hostile, in.data) })
	rec.Stuck = !done
	rec.RecvPanic = pan
	if pan {
		rec.Note += " recv-panic: " + c17Trunc(pv, 160)
		env.sw.StopPeerForError(hostile, pv) // what MConnection._recover -> onPeerError does
	}
	syncOK := true
	if done && syncSt >= 1 {
		if syncSt == 1 {
			startSync()
		}
		openGate()
		select {
		case <-syncDone:
			if syncErr != nil {
				syncOK = false
				rec.Note += " sync failed: " + c17Trunc(syncErr.Error(), 160)
			} else if !env.app.restored {
				syncOK = false
				rec.Note += " sync returned without restoring"
			}
		case <-time.After(9 * time.Second):
			syncOK = false
			rec.Note += " sync did not complete in 9 s"
		}
		rec.Note += fmt.Sprintf(" offers=%d chunk-retries=%d", env.app.offers, env.app.retries)
	} else if done {
		time.Sleep(5 * time.Millisecond)
	}
	rec.Alloc = c17TotalAlloc() - a0
	rec.Stopped = !hostile.IsRunning()

	alive := false
	if !rec.Stuck {
		ok, ppan, ppv := c17Timed(3*time.Second, func() {
			asker := c17NewPeer(5, false)
			env.toSwitch(asker)
			env.r.Receive(SnapshotChannel, asker, c17SsWrap(&ssproto.SnapshotsRequest{}))
			env.r.Receive(ChunkChannel, asker, c17SsWrap(&ssproto.ChunkRequest{Height: 7, Format: 1, Index: 1}))
			ns, nc := 0, 0
			for _, m := range asker.Sent() {
				switch x := m.(type) {
				case *ssproto.SnapshotsResponse:
					ns++
				case *ssproto.ChunkResponse:
					if bytes.Equal(x.Chunk, []byte("local-7-1")) {
						nc++
					}
				}
			}
			if ns != 2 || nc != 1 {
				rec.Note += fmt.Sprintf(" probe: honest requests not served (snapshots %d, chunk %d)", ns, nc)
				return
			}
			alive = syncOK
		})
		if !ok {
			rec.Note += " probe: timed out"
		}
		if ppan {
			rec.Note += " probe panicked: " + c17Trunc(ppv, 200)
		}
	}
	bgp, bgs := env.bg.Panicked()
	rec.BgPanic = bgp
	if bgp {
		rec.Note += " bg-panic: " + c17Trunc(bgs, 200)
	}
	rec.Alive = alive
}

func TestVerifC17ReactorStatesync(t *testing.T) {
	c17Drive(t, "TestVerifC17ReactorStatesync", "c17_reactor_statesync", 5, vg.Scale(40, 4000), c17SsGen, c17SsExec)
}

var _ = hex.EncodeToString
