//go:build verif

package store

// C18 correspondence harness for store/store.go (injected with `go test -overlay`).
//
// The real BlockStore runs on a memdb behind c18RecDB, which journals every atomic write step
// (Set, SetSync, batch Write/WriteSync) and can kill the process at the k-th step of an
// operation (panic with c18Crash, recovered here; the store is then re-opened from the DB).
// After the history the journal is replayed step by step into a fresh memdb; after every step
// a BlockStore is opened on it and audited with the real loaders.  Keys and values are parsed
// back into the structured form of coq/C18/Model.v and written as a Coq case.

import (
	"bytes"
	"crypto/sha256"
	"encoding/hex"
	"fmt"
	"strconv"
	"strings"
	"testing"
	"time"

	"github.com/gogo/protobuf/proto"
	dbm "github.com/tendermint/tm-db"

	vg "github.com/tendermint/tendermint/internal/verifgen"
	tmstore "github.com/tendermint/tendermint/proto/tendermint/store"
	tmproto "github.com/tendermint/tendermint/proto/tendermint/types"
	tmversion "github.com/tendermint/tendermint/proto/tendermint/version"
	"github.com/tendermint/tendermint/types"
	"github.com/tendermint/tendermint/version"
)

// ---------------------------------------------------------------- recording / crashing DB

type c18Crash struct{}

type c18Op struct {
	del      bool
	key, val []byte
}
type c18Step struct {
	kind int // 0 Set, 1 SetSync, 2 batch Write, 3 batch WriteSync, 4 Delete, 5 DeleteSync
	ops  []c18Op
}

type c18RecDB struct {
	dbm.DB
	journal []c18Step
	budget  int // < 0: unlimited; otherwise number of write steps still allowed before the crash
}

func c18NewRecDB() *c18RecDB { return &c18RecDB{DB: dbm.NewMemDB(), budget: -1} }

func c18cp(b []byte) []byte { return append([]byte{}, b...) }

func (d *c18RecDB) step(s c18Step) error {
	if d.budget == 0 {
		panic(c18Crash{})
	}
	if d.budget > 0 {
		d.budget--
	}
	d.journal = append(d.journal, s)
	return c18Apply(d.DB, s)
}

func c18Apply(db dbm.DB, s c18Step) error {
	for _, o := range s.ops {
		var err error
		if o.del {
			err = db.Delete(o.key)
		} else {
			err = db.Set(o.key, o.val)
		}
		if err != nil {
			return err
		}
	}
	return nil
}

func (d *c18RecDB) Set(k, v []byte) error {
	return d.step(c18Step{0, []c18Op{{false, c18cp(k), c18cp(v)}}})
}
func (d *c18RecDB) SetSync(k, v []byte) error {
	return d.step(c18Step{1, []c18Op{{false, c18cp(k), c18cp(v)}}})
}
func (d *c18RecDB) Delete(k []byte) error {
	return d.step(c18Step{4, []c18Op{{true, c18cp(k), nil}}})
}
func (d *c18RecDB) DeleteSync(k []byte) error {
	return d.step(c18Step{5, []c18Op{{true, c18cp(k), nil}}})
}
func (d *c18RecDB) NewBatch() dbm.Batch { return &c18Batch{db: d} }

type c18Batch struct {
	db     *c18RecDB
	ops    []c18Op
	closed bool
}

func (b *c18Batch) Set(k, v []byte) error {
	if b.closed {
		return fmt.Errorf("batch closed")
	}
	b.ops = append(b.ops, c18Op{false, c18cp(k), c18cp(v)})
	return nil
}
func (b *c18Batch) Delete(k []byte) error {
	if b.closed {
		return fmt.Errorf("batch closed")
	}
	b.ops = append(b.ops, c18Op{true, c18cp(k), nil})
	return nil
}
func (b *c18Batch) write(kind int) error {
	if b.closed {
		return fmt.Errorf("batch closed")
	}
	err := b.db.step(c18Step{kind, b.ops})
	b.closed = true
	return err
}
func (b *c18Batch) Write() error     { return b.write(2) }
func (b *c18Batch) WriteSync() error { return b.write(3) }
func (b *c18Batch) Close() error     { b.closed = true; return nil }

// ---------------------------------------------------------------- registry (hash -> small id)

type c18Reg struct {
	blocks  map[string]int64 // block hash hex -> id
	parts   map[string][2]int64
	commits map[string]int64 // sha256(commit proto) -> tag
	hashes  map[string]int64 // validators / consensus hashes -> small id
	nextID  int64
}

func c18NewReg() *c18Reg {
	return &c18Reg{blocks: map[string]int64{}, parts: map[string][2]int64{}, commits: map[string]int64{},
		hashes: map[string]int64{}, nextID: 1}
}
func (r *c18Reg) blockID(hash []byte) int64 {
	if len(hash) == 0 {
		return -1
	}
	k := hex.EncodeToString(hash)
	if id, ok := r.blocks[k]; ok {
		return id
	}
	id := r.nextID
	r.nextID++
	r.blocks[k] = id
	return id
}
func (r *c18Reg) small(m map[string]int64, b []byte) int64 {
	k := hex.EncodeToString(b)
	if id, ok := m[k]; ok {
		return id
	}
	id := int64(len(m) + 1)
	m[k] = id
	return id
}
func c18Sum(b []byte) []byte { s := sha256.Sum256(b); return s[:] }

func (r *c18Reg) commitTerm(c *types.Commit) (int64, int64) {
	bz, err := proto.Marshal(c.ToProto())
	if err != nil {
		panic(err)
	}
	return r.blockID(c.BlockID.Hash), r.small(r.commits, c18Sum(bz))
}

func (r *c18Reg) registerParts(id int64, ps *types.PartSet) {
	for i := 0; i < int(ps.Total()); i++ {
		pb, err := ps.GetPart(i).ToProto()
		if err != nil {
			panic(err)
		}
		bz, err := proto.Marshal(pb)
		if err != nil {
			panic(err)
		}
		r.parts[hex.EncodeToString(c18Sum(bz))] = [2]int64{id, int64(i)}
	}
}

func c18z(n int64) string {
	if n < 0 {
		return "(" + strconv.FormatInt(n, 10) + ")"
	}
	return strconv.FormatInt(n, 10)
}

// keyTerm parses a block store key into the Coq constructor and tells its type.
func (r *c18Reg) keyTerm(k []byte) (string, byte, error) {
	s := string(k)
	num := func(x string) (int64, error) { return strconv.ParseInt(x, 10, 64) }
	switch {
	case s == "blockStore":
		return "KDesc", 'D', nil
	case strings.HasPrefix(s, "H:"):
		h, err := num(s[2:])
		return "(KMeta " + c18z(h) + ")", 'H', err
	case strings.HasPrefix(s, "P:"):
		f := strings.Split(s[2:], ":")
		if len(f) != 2 {
			return "", 0, fmt.Errorf("bad part key %q", s)
		}
		h, err := num(f[0])
		if err != nil {
			return "", 0, err
		}
		i, err := num(f[1])
		return "(KPart " + c18z(h) + " " + c18z(i) + ")", 'P', err
	case strings.HasPrefix(s, "C:"):
		h, err := num(s[2:])
		return "(KCommit " + c18z(h) + ")", 'C', err
	case strings.HasPrefix(s, "SC:"):
		h, err := num(s[3:])
		return "(KSeen " + c18z(h) + ")", 'C', err
	case strings.HasPrefix(s, "BH:"):
		raw, err := hex.DecodeString(s[3:])
		return "(KHash " + c18z(r.blockID(raw)) + ")", 'B', err
	}
	return "", 0, fmt.Errorf("unknown key %q", s)
}

func (r *c18Reg) valTerm(typ byte, v []byte) (string, error) {
	switch typ {
	case 'D':
		var bss tmstore.BlockStoreState
		if err := proto.Unmarshal(v, &bss); err != nil {
			return "", err
		}
		return "(VDesc " + c18z(bss.Base) + " " + c18z(bss.Height) + ")", nil
	case 'H':
		pb := new(tmproto.BlockMeta)
		if err := proto.Unmarshal(v, pb); err != nil {
			return "", err
		}
		bm, err := types.BlockMetaFromProto(pb)
		if err != nil {
			return "", err
		}
		return fmt.Sprintf("(VMeta %s %d%%nat %s %s)", c18z(r.blockID(bm.BlockID.Hash)), bm.BlockID.PartSetHeader.Total,
			c18z(r.small(r.hashes, bm.Header.ValidatorsHash)), c18z(r.small(r.hashes, bm.Header.ConsensusHash))), nil
	case 'P':
		if p, ok := r.parts[hex.EncodeToString(c18Sum(v))]; ok {
			return "(VPart " + c18z(p[0]) + " " + c18z(p[1]) + ")", nil
		}
		return "(VPart (-2) (-2))", nil
	case 'C':
		pb := new(tmproto.Commit)
		if err := proto.Unmarshal(v, pb); err != nil {
			return "", err
		}
		c, err := types.CommitFromProto(pb)
		if err != nil {
			return "", err
		}
		return "(VCommit " + c18z(r.blockID(c.BlockID.Hash)) + " " + c18z(r.small(r.commits, c18Sum(v))) + ")", nil
	case 'B':
		h, err := strconv.ParseInt(string(v), 10, 64)
		return "(VHeight " + c18z(h) + ")", err
	}
	return "", fmt.Errorf("unknown value type")
}

func (r *c18Reg) stepTerm(s c18Step) (string, error) {
	if s.kind == 0 || s.kind == 1 {
		k, typ, err := r.keyTerm(s.ops[0].key)
		if err != nil {
			return "", err
		}
		v, err := r.valTerm(typ, s.ops[0].val)
		if err != nil {
			return "", err
		}
		if s.kind == 0 {
			return "bS " + k + " " + v, nil
		}
		return "bY " + k + " " + v, nil
	}
	if s.kind >= 4 { // a bare Delete: the model has no such step; encode as a one-element batch
		k, _, err := r.keyTerm(s.ops[0].key)
		return "bB [bD " + k + "] " + vg.B(s.kind == 5), err
	}
	var ws []string
	for _, o := range s.ops {
		k, typ, err := r.keyTerm(o.key)
		if err != nil {
			return "", err
		}
		if o.del {
			ws = append(ws, "bD "+k)
		} else {
			v, err := r.valTerm(typ, o.val)
			if err != nil {
				return "", err
			}
			ws = append(ws, "bP "+k+" "+v)
		}
	}
	return "bB " + vg.L(ws) + " " + vg.B(s.kind == 3), nil
}

// compact form for the large pruning case (deletions only)
func (r *c18Reg) cstepTerm(s c18Step) (string, error) {
	if s.kind == 1 && string(s.ops[0].key) == "blockStore" {
		var bss tmstore.BlockStoreState
		if err := proto.Unmarshal(s.ops[0].val, &bss); err != nil {
			return "", err
		}
		return "BD " + c18z(bss.Base) + " " + c18z(bss.Height), nil
	}
	if s.kind != 3 {
		return "", fmt.Errorf("unexpected step kind %d in prune journal", s.kind)
	}
	var ws []string
	for _, o := range s.ops {
		if !o.del {
			return "", fmt.Errorf("unexpected Set in prune batch")
		}
		k, _, err := r.keyTerm(o.key)
		if err != nil {
			return "", err
		}
		f := strings.Fields(strings.Trim(k, "()"))
		kind := map[string]string{"KMeta": "1", "KHash": "2", "KCommit": "3", "KSeen": "4", "KPart": "5"}[f[0]]
		if kind == "" {
			return "", fmt.Errorf("unexpected key %s in prune batch", k)
		}
		b := "0"
		if len(f) > 2 {
			b = f[2]
		}
		ws = append(ws, "("+kind+","+f[1]+","+b+")")
	}
	return "BB " + vg.L(ws), nil
}

// ---------------------------------------------------------------- audit with the real loaders

// c18Audit returns Base(), Height() and the first failing height with the reason
// (1 meta missing, 2 block does not load or does not hash to its id, 3 hash index, 4 commit /
// seen commit missing or for another block, (0,5) malformed range), (0,0) when consistent.
func c18Audit(bs *BlockStore) (base, height, fh, reason int64) {
	base, height = bs.Base(), bs.Height()
	if height == 0 {
		if base == 0 {
			return base, height, 0, 0
		}
		return base, height, 0, 5
	}
	if base < 1 || height < base {
		return base, height, 0, 5
	}
	for h := base; h <= height; h++ {
		if r := c18AuditHeight(bs, h, height); r != 0 {
			return base, height, h, r
		}
	}
	return base, height, 0, 0
}

func c18AuditHeight(bs *BlockStore, h, tip int64) (reason int64) {
	stage := int64(1)
	defer func() {
		if r := recover(); r != nil {
			reason = stage
		}
	}()
	meta := bs.LoadBlockMeta(h)
	if meta == nil {
		return 1
	}
	stage = 2
	for i := 0; i < int(meta.BlockID.PartSetHeader.Total); i++ {
		if bs.LoadBlockPart(h, i) == nil {
			return 2
		}
	}
	block := bs.LoadBlock(h)
	if block == nil || block.Height != h || !bytes.Equal(block.Hash(), meta.BlockID.Hash) {
		return 2
	}
	stage = 3
	b2 := bs.LoadBlockByHash(meta.BlockID.Hash)
	if b2 == nil || b2.Height != h || !bytes.Equal(b2.Hash(), meta.BlockID.Hash) {
		return 3
	}
	stage = 4
	var c *types.Commit
	if h == tip {
		c = bs.LoadSeenCommit(h)
	} else {
		c = bs.LoadBlockCommit(h)
	}
	if c == nil || !bytes.Equal(c.BlockID.Hash, meta.BlockID.Hash) || c.Height != h {
		return 4
	}
	return 0
}

// ---------------------------------------------------------------- chain generator

type c18Chain struct {
	reg     *c18Reg
	r       *vg.Rand
	chainID string
	valH    [][]byte
	parH    [][]byte
	clock   int64
}

func c18NewChain(r *vg.Rand) *c18Chain {
	c := &c18Chain{reg: c18NewReg(), r: r, chainID: "c18-chain"}
	for i := 0; i < 3; i++ {
		c.valH = append(c.valH, c18Sum([]byte{byte(i), 'v'}))
		c.parH = append(c.parH, c18Sum([]byte{byte(i), 'p'}))
	}
	return c
}

func (c *c18Chain) now() time.Time {
	c.clock++
	return time.Unix(1600000000+c.clock, 0).UTC()
}

func (c *c18Chain) commit(height int64, bid types.BlockID) *types.Commit {
	if height == 0 {
		return types.NewCommit(0, 0, types.BlockID{}, nil)
	}
	sigs := []types.CommitSig{{
		BlockIDFlag:      types.BlockIDFlagCommit,
		ValidatorAddress: c18Sum([]byte(fmt.Sprintf("addr%d", c.clock)))[:20],
		Timestamp:        c.now(),
		Signature:        c18Sum([]byte(fmt.Sprintf("sig%d", c.clock))),
	}}
	return types.NewCommit(height, 0, bid, sigs)
}

func (c *c18Chain) randBlockID() types.BlockID {
	return types.BlockID{Hash: c.r.Bytes(32), PartSetHeader: types.PartSetHeader{Total: 1, Hash: c.r.Bytes(32)}}
}

// block builds a block at height h on top of lastID with nparts parts (as close as the size allows).
func (c *c18Chain) block(h int64, lastCommit *types.Commit, lastID types.BlockID, nparts, vi, pi int) (*types.Block, *types.PartSet, types.BlockID) {
	var txs []types.Tx
	for i := 0; i < 4; i++ {
		txs = append(txs, types.Tx(c.r.Bytes(20)))
	}
	b := types.MakeBlock(h, txs, lastCommit, nil)
	b.Header.Populate(tmversion.Consensus{Block: version.BlockProtocol, App: 1}, c.chainID, c.now(), lastID,
		c.valH[vi], c.valH[vi], c.parH[pi], c18Sum([]byte("app")), c18Sum([]byte("res")), c18Sum([]byte("proposer"))[:20])
	pb, err := b.ToProto()
	if err != nil {
		panic(err)
	}
	size := pb.Size()
	psz := (size + nparts - 1) / nparts
	if psz < 1 {
		psz = 1
	}
	ps := b.MakePartSet(uint32(psz))
	bid := types.BlockID{Hash: b.Hash(), PartSetHeader: ps.Header()}
	id := c.reg.blockID(bid.Hash)
	c.reg.registerParts(id, ps)
	return b, ps, bid
}

func (c *c18Chain) blockTerm(b *types.Block, ps *types.PartSet) string {
	lb, lt := c.reg.commitTerm(b.LastCommit)
	return fmt.Sprintf("(%s, %s, %d%%nat, %s, %s, (%s, %s))", c18z(b.Height), c18z(c.reg.blockID(b.Hash())), ps.Total(),
		c18z(c.reg.small(c.reg.hashes, b.ValidatorsHash)), c18z(c.reg.small(c.reg.hashes, b.ConsensusHash)), c18z(lb), c18z(lt))
}

// ---------------------------------------------------------------- running operations

type c18Res struct {
	code, base, height, nsteps, fh, fr int64
}

func (x c18Res) term() string {
	return vg.Tup(c18z(x.code), c18z(x.base), c18z(x.height), c18z(x.nsteps), c18z(x.fh), c18z(x.fr))
}

// c18Run runs f against the store with the crash budget; returns the (possibly re-opened) store.
func c18Run(db *c18RecDB, bs *BlockStore, crash int, f func(bs *BlockStore) int64) (*BlockStore, c18Res) {
	n0 := len(db.journal)
	db.budget = crash
	code := func() (code int64) {
		defer func() {
			if r := recover(); r != nil {
				if _, ok := r.(c18Crash); ok {
					code = 99
				} else {
					code = 10
				}
			}
		}()
		return f(bs)
	}()
	db.budget = -1
	if crash >= 0 {
		bs = NewBlockStore(db) // restart
	}
	res := c18Res{code: code, nsteps: int64(len(db.journal) - n0)}
	res.base, res.height, res.fh, res.fr = c18Audit(bs)
	return bs, res
}

func c18PruneCode(err error) int64 {
	if err == nil {
		return 0
	}
	s := err.Error()
	switch {
	case strings.Contains(s, "must be greater than 0"):
		return 1
	case strings.Contains(s, "beyond the latest height"):
		return 2
	case strings.Contains(s, "lower than base height"):
		return 3
	}
	return 7
}

// c18PrefixAudits replays the journal into a fresh memdb and audits a store opened after every step.
func c18PrefixAudits(t *testing.T, init func(dbm.DB), journal []c18Step) ([]string, string) {
	db := dbm.NewMemDB()
	if init != nil {
		init(db)
	}
	var out []string
	why := []string{"", "LoadBlockMeta = nil", "LoadBlock/LoadBlockPart = nil or block does not hash to its id", "LoadBlockByHash does not return the block", "LoadBlockCommit/LoadSeenCommit = nil or for another block", "malformed range"}
	fail := ""
	for k := 0; ; k++ {
		b, h, fh, fr := c18Audit(NewBlockStore(db))
		out = append(out, vg.Tup(c18z(b), c18z(h), c18z(fh), c18z(fr)))
		if fr != 0 && fail == "" {
			fail = fmt.Sprintf(" AUDIT FAILS on the store re-opened after the first %d write steps: Base()=%d Height()=%d, height %d: %s", k, b, h, fh, why[fr])
		}
		if k == len(journal) {
			break
		}
		if err := c18Apply(db, journal[k]); err != nil {
			t.Fatal(err)
		}
	}
	return out, fail
}

func c18Dump(t *testing.T, reg *c18Reg, db dbm.DB) []string {
	it, err := db.Iterator(nil, nil)
	if err != nil {
		t.Fatal(err)
	}
	defer it.Close()
	var out []string
	for ; it.Valid(); it.Next() {
		k, typ, err := reg.keyTerm(it.Key())
		if err != nil {
			t.Fatal(err)
		}
		v, err := reg.valTerm(typ, it.Value())
		if err != nil {
			t.Fatal(err)
		}
		out = append(out, "("+k+", "+v+")")
	}
	return out
}

// ---------------------------------------------------------------- histories

func TestVerifC18Hist(t *testing.T) {
	root := vg.NewRand(vg.Seed() ^ 0xc18)
	cs := vg.NewCases("C18", "c18_hist", "TM.C18.Exec")
	n := vg.Scale(60, 2000)
	for k := 0; k < n; k++ {
		id := cs.NextID()
		if !cs.Want(id) {
			continue
		}
		r := root.Fork(uint64(k))
		ch := c18NewChain(r)
		db := c18NewRecDB()
		bs := NewBlockStore(db)
		nops := 4 + r.Intn(vg.Scale(26, 40))
		withCrashes := r.Chance(60)
		first := int64(1)
		if r.Chance(30) {
			first = int64(2 + r.Intn(40))
		}
		var (
			opsT, resT, descr []string
			tipID             types.BlockID // block id stored at the tip
			pendingRedo       bool
			nPrunes, nCrash   int
		)
		vi, pi := 0, 0
		for j := 0; j < nops; j++ {
			crash := -1
			if withCrashes && r.Chance(25) {
				crash = r.Intn(9)
				nCrash++
			}
			height, base := bs.Height(), bs.Base()
			doPrune := height > 0 && r.Chance(30) && !pendingRedo
			if doPrune {
				var ret int64
				switch r.Intn(10) {
				case 0:
					ret = int64(r.Intn(3)) - 1 // -1, 0, 1
				case 1:
					ret = height + 1 + int64(r.Intn(2))
				case 2:
					ret = base - 1 - int64(r.Intn(2))
				case 3:
					ret = height
				case 4:
					ret = base
				default:
					ret = base + r.Int63n(height-base+1)
				}
				var res c18Res
				bs, res = c18Run(db, bs, crash, func(bs *BlockStore) int64 {
					_, err := bs.PruneBlocks(ret)
					return c18PruneCode(err)
				})
				nPrunes++
				opsT = append(opsT, "TPrune "+c18z(ret)+" "+c18z(int64(crash)))
				resT = append(resT, res.term())
				descr = append(descr, fmt.Sprintf("PruneBlocks(%d)%s -> code %d base %d height %d", ret, c18CrashStr(crash), res.code, res.base, res.height))
				continue
			}
			// save the next block (sometimes a non-contiguous one, which must panic)
			h := height + 1
			if height == 0 {
				h = first
			}
			wrong := height > 0 && r.Chance(6)
			if wrong {
				h = height + int64([]int{0, 2, -1}[r.Intn(3)])
				if h < 1 {
					h = height + 2
				}
			}
			if r.Chance(20) {
				vi = r.Intn(3)
			}
			if r.Chance(15) {
				pi = r.Intn(3)
			}
			var lastCommit *types.Commit
			lastID := tipID
			switch {
			case h == 1:
				lastCommit = ch.commit(0, types.BlockID{})
				lastID = types.BlockID{}
			case height == 0 || wrong:
				lastID = ch.randBlockID()
				if wrong && h == height+2 {
					lastID = ch.randBlockID()
				}
				lastCommit = ch.commit(h-1, lastID)
			default:
				lastCommit = ch.commit(h-1, tipID)
			}
			nparts := 1 + r.Intn(4)
			b, ps, bid := ch.block(h, lastCommit, lastID, nparts, vi, pi)
			seen := ch.commit(h, bid)
			sb, st := ch.reg.commitTerm(seen)
			var res c18Res
			bs, res = c18Run(db, bs, crash, func(bs *BlockStore) int64 {
				bs.SaveBlock(b, ps, seen)
				return 0
			})
			if res.code == 0 {
				tipID = bid
			}
			pendingRedo = res.code == 99
			opsT = append(opsT, "TSave "+ch.blockTerm(b, ps)+" "+vg.Tup(c18z(sb), c18z(st))+" "+c18z(int64(crash)))
			resT = append(resT, res.term())
			descr = append(descr, fmt.Sprintf("SaveBlock(h=%d id=%d parts=%d)%s -> code %d base %d height %d", h, ch.reg.blockID(bid.Hash), ps.Total(), c18CrashStr(crash), res.code, res.base, res.height))
		}
		var stepsT []string
		for _, s := range db.journal {
			st, err := ch.reg.stepTerm(s)
			if err != nil {
				t.Fatalf("case %d: %v", id, err)
			}
			stepsT = append(stepsT, st)
		}
		audits, failTxt := c18PrefixAudits(t, nil, db.journal)
		final := c18Dump(t, ch.reg, db.DB)
		term := "CHist " + vg.L(opsT) + "\n  " + vg.L(resT) + "\n  " + vg.L(stepsT) + "\n  " + vg.L(audits) + "\n  " + vg.L(final)
		kind := "hist"
		if nCrash > 0 {
			kind += "+crash"
		}
		if nPrunes > 0 {
			kind += "+prune"
		}
		if first > 1 {
			kind += "+offset"
		}
		cs.Add(id, kind, nPrunes > 0 || nCrash > 0, term,
			fmt.Sprintf("fresh BlockStore on memdb; %d write steps, audit after each; ops: %s.%s", len(db.journal), strings.Join(descr, "; "), failTxt))
		cs.Count("write-prefixes audited", len(audits))
	}
	if err := cs.Write(); err != nil {
		t.Fatal(err)
	}
}

func c18CrashStr(crash int) string {
	if crash < 0 {
		return ""
	}
	return fmt.Sprintf(" [process dies after %d write steps, store re-opened]", crash)
}

// TestVerifC18Big: more than one pruning batch.  n blocks of one part, then prunes whose
// ranges cross the 1000-block batch boundary; every write step of the prunes is a crash point.
// Directed regression for F9 (intermediate flush must move base past the deleted block).
func TestVerifC18Big(t *testing.T) {
	root := vg.NewRand(vg.Seed() ^ 0xc18b16)
	cs := vg.NewCases("C18", "c18_big", "TM.C18.Exec")
	oldShard := vg.ShardSize
	vg.ShardSize = 1 // each large case is evaluated by its own coqc process
	defer func() { vg.ShardSize = oldShard }()
	type big struct {
		n      int64
		prunes [][2]int64 // retain, crash
	}
	cases := []big{
		{1100, [][2]int64{{1050, -1}}},                        // F9: crash points between the two batches
		{1100, [][2]int64{{1001, 1}, {1001, -1}, {1100, -1}}}, // crash after the first descriptor write, then again
	}
	if vg.Thorough() {
		cases = append(cases, big{2600, [][2]int64{{2300, 3}, {2500, -1}}}, big{1500, [][2]int64{{1200, -1}, {1300, -1}, {1500, -1}}})
	}
	for k, bc := range cases {
		id := cs.NextID()
		if !cs.Want(id) {
			continue
		}
		ch := c18NewChain(root.Fork(uint64(k)))
		base := c18NewRecDB()
		bs := NewBlockStore(base)
		var tipID types.BlockID
		for h := int64(1); h <= bc.n; h++ {
			lc := ch.commit(h-1, tipID)
			b, ps, bid := ch.block(h, lc, tipID, 1, 0, 0)
			if ps.Total() != 1 || ch.reg.blockID(bid.Hash) != h {
				t.Fatalf("big case: block %d has %d parts, id %d", h, ps.Total(), ch.reg.blockID(bid.Hash))
			}
			bs.SaveBlock(b, ps, ch.commit(h, bid))
			tipID = bid
		}
		saved := base.journal
		base.journal = nil
		var prT, resT, descr []string
		for _, p := range bc.prunes {
			var res c18Res
			ret := p[0]
			bs, res = c18Run(base, bs, int(p[1]), func(bs *BlockStore) int64 {
				_, err := bs.PruneBlocks(ret)
				return c18PruneCode(err)
			})
			prT = append(prT, vg.Tup(c18z(p[0]), c18z(p[1])))
			resT = append(resT, res.term())
			descr = append(descr, fmt.Sprintf("PruneBlocks(%d)%s -> code %d base %d height %d", ret, c18CrashStr(int(p[1])), res.code, res.base, res.height))
		}
		var stepsT []string
		for _, s := range base.journal {
			st, err := ch.reg.cstepTerm(s)
			if err != nil {
				t.Fatalf("big case %d: %v", id, err)
			}
			stepsT = append(stepsT, st)
		}
		audits, failTxt := c18PrefixAudits(t, func(db dbm.DB) {
			for _, s := range saved {
				if err := c18Apply(db, s); err != nil {
					t.Fatal(err)
				}
			}
		}, base.journal)
		term := "CBig " + c18z(bc.n) + " " + vg.L(prT) + "\n  " + vg.L(resT) + "\n  " + vg.L(stepsT) + "\n  " + vg.L(audits)
		cs.Add(id, "multi-batch prune", true, term,
			fmt.Sprintf("fresh BlockStore on memdb; SaveBlock heights 1..%d (one part each); then %s; the store is re-opened and audited after every write step of the prunes (%d steps).%s",
				bc.n, strings.Join(descr, "; "), len(base.journal), failTxt))
		cs.Count("write-prefixes audited", len(audits))
	}
	if err := cs.Write(); err != nil {
		t.Fatal(err)
	}
}
