//go:build verif

package state

// C06 correspondence harness, finding F84: commits whose signatures are genuine but whose
// ValidatorAddress fields were relabelled by a byzantine proposer.  VerifyCommit matches slots
// to validators by position and never reads the address; MedianTime weighs the timestamp of a
// slot by looking the address up.  Everything runs on the real code: MakeGenesisState,
// updateState, State.MakeBlock (MedianTime), validateBlock, BlockExecutor.CreateProposalBlock.
//
// THE GATE: these cases (and the comparison of every validateBlock case with the transcription of
// the REPAIRED function, constructor CValidate84) are on only with VERIF_C06_F84=1 until
// fixes/F84-lastcommit-slot-address-matches-validator.diff is applied to the repository; then
// make c06F84 return true by default (this function is the one place to flip).

import (
	"fmt"
	"os"
	"testing"
	"time"

	abci "github.com/tendermint/tendermint/abci/types"
	vg "github.com/tendermint/tendermint/internal/verifgen"
	tmstate "github.com/tendermint/tendermint/proto/tendermint/state"
	tmproto "github.com/tendermint/tendermint/proto/tendermint/types"
	"github.com/tendermint/tendermint/types"
)

func c06F84() bool { return os.Getenv("VERIF_C06_F84") != "0" } // on by default: the finding is recorded in known_findings.json

// one block further with an ordinary commit, no validator or parameter changes
func (c *c06Chain) advance() {
	st := c.st
	height := st.LastBlockHeight + 1
	if st.LastBlockHeight == 0 {
		height = st.InitialHeight
	}
	cc := c.makeCommit(height)
	proposer := st.Validators.Validators[c.r.Intn(st.Validators.Size())].Address
	b, ps := st.MakeBlock(height, types.Txs{types.Tx(c.r.Bytes(8))}, cc.c, nil, proposer)
	id := types.BlockID{Hash: b.Hash(), PartSetHeader: ps.Header()}
	resp := &tmstate.ABCIResponses{BeginBlock: &abci.ResponseBeginBlock{}, EndBlock: &abci.ResponseEndBlock{}}
	ns, class, _ := c06Apply(st, id, &b.Header, resp)
	if class != 0 {
		panic(fmt.Sprintf("c06 advance: class %d", class))
	}
	ns.AppHash = c.r.Bytes(32)
	c.st = ns
}

var c06RelabelKinds = []string{
	"all-honest-slots-to-a-stranger", "some-honest-slots-to-strangers", "faulty-swapped-with-strongest-honest",
	"honest-slots-to-the-weakest-validator", "honest-slots-to-a-faulty-validator", "addresses-rotated",
	"two-honest-swapped", "own-addresses",
}

func c06RelabelCase(cs *vg.Cases, id int, r *vg.Rand, k int) {
	c := c06Genesis(r, 4)
	c.scenario = 0
	variant := k % len(c06RelabelKinds)
	future := r.Bool()
	if k < 2*len(c06RelabelKinds) {
		future = k < len(c06RelabelKinds) // every kind once ahead, once behind
	}
	for i := 1 + r.Intn(2); i > 0; i-- {
		c.advance()
	}
	st := c.st
	height := st.LastBlockHeight + 1
	vals := st.LastValidators
	n := vals.Size()

	// who signs: everybody for the block, sometimes one validator absent or for nil (keeping +2/3)
	kinds := make([]byte, n)
	for i := range kinds {
		kinds[i] = 'B'
	}
	total := vals.TotalVotingPower()
	if r.Chance(40) {
		i := r.Intn(n)
		if (total-vals.Validators[i].VotingPower)*3 > total*2 {
			kinds[i] = []byte{'A', 'N'}[r.Intn(2)]
		}
	}
	var signed int64
	for i, v := range vals.Validators {
		if kinds[i] != 'A' {
			signed += v.VotingPower
		}
	}
	// the byzantine signers: less than a third of the power the commit carries
	faulty := make([]bool, n)
	var fp int64
	nf := 0
	for _, i := range r.Perm(n) {
		p := vals.Validators[i].VotingPower
		if kinds[i] != 'A' && 3*(fp+p) < signed && (nf == 0 || r.Chance(30)) {
			faulty[i], fp, nf = true, fp+p, nf+1
		}
	}
	if nf == 0 { // one validator dominates: take the weakest signer if that is allowed
		w := -1
		for i, v := range vals.Validators {
			if kinds[i] != 'A' && (w < 0 || v.VotingPower < vals.Validators[w].VotingPower) {
				w = i
			}
		}
		if w >= 0 && 3*vals.Validators[w].VotingPower < signed {
			faulty[w], fp, nf = true, vals.Validators[w].VotingPower, 1
		}
	}

	// genuine precommits; correct validators stamp shortly after the block, the byzantine ones
	// ten years ahead or a few nanoseconds after the last block
	round := int32(r.Intn(3))
	cc := &c06Commit{chain: st.ChainID, h: height - 1, r: round, bid: st.LastBlockID, sd: make([]c06Sig, n)}
	sigs := make([]types.CommitSig, n)
	for i, v := range vals.Validators {
		if kinds[i] == 'A' {
			sigs[i] = types.NewCommitSigAbsent()
			cc.sd[i] = c06Sig{kind: 'G'}
			continue
		}
		ts := st.LastBlockTime.Add(time.Duration(1000000000 + r.Int63n(4000000000)))
		if faulty[i] {
			if future {
				ts = st.LastBlockTime.Add(time.Duration(10*365*24*3600)*time.Second + time.Duration(r.Int63n(1000000000)))
			} else {
				ts = st.LastBlockTime.Add(time.Duration(1 + r.Int63n(1000)))
			}
		}
		key := c06KeyOf(c.keys, v.Address)
		vote := &types.Vote{Type: tmproto.PrecommitType, Height: height - 1, Round: round, Timestamp: ts,
			ValidatorAddress: v.Address, ValidatorIndex: int32(i)}
		kind := byte('N')
		if kinds[i] == 'B' {
			vote.BlockID = st.LastBlockID
			kind = 'B'
		}
		c06SignVote(key, st.ChainID, vote)
		sigs[i] = vote.CommitSig()
		cc.sd[i] = c06Sig{kind: kind, pub: key.pub.Bytes(), ts: ts}
	}

	// the relabelling: only the unsigned ValidatorAddress fields change
	var honest, bad []int
	for i := range sigs {
		if kinds[i] == 'A' {
			continue
		}
		if faulty[i] {
			bad = append(bad, i)
		} else {
			honest = append(honest, i)
		}
	}
	addrOf := func(i int) []byte { return append([]byte(nil), vals.Validators[i].Address...) }
	strongest, weakest := -1, -1
	for _, i := range honest {
		if strongest < 0 || vals.Validators[i].VotingPower > vals.Validators[strongest].VotingPower {
			strongest = i
		}
	}
	for i := range sigs {
		if weakest < 0 || vals.Validators[i].VotingPower < vals.Validators[weakest].VotingPower {
			weakest = i
		}
	}
	switch c06RelabelKinds[variant] {
	case "all-honest-slots-to-a-stranger":
		nobody := r.Bytes(20)
		for _, i := range honest {
			sigs[i].ValidatorAddress = nobody
		}
	case "some-honest-slots-to-strangers":
		m := 1 + r.Intn(len(honest))
		for _, j := range r.Perm(len(honest))[:m] {
			sigs[honest[j]].ValidatorAddress = r.Bytes(20)
		}
	case "faulty-swapped-with-strongest-honest":
		if len(bad) > 0 && strongest >= 0 {
			sigs[bad[0]].ValidatorAddress, sigs[strongest].ValidatorAddress = addrOf(strongest), addrOf(bad[0])
		}
	case "honest-slots-to-the-weakest-validator":
		m := 1 + r.Intn(len(honest))
		for _, j := range r.Perm(len(honest))[:m] {
			sigs[honest[j]].ValidatorAddress = addrOf(weakest)
		}
	case "honest-slots-to-a-faulty-validator":
		if len(bad) > 0 {
			m := 1 + r.Intn(len(honest))
			for _, j := range r.Perm(len(honest))[:m] {
				sigs[honest[j]].ValidatorAddress = addrOf(bad[0])
			}
		}
	case "addresses-rotated":
		var present []int
		for i := range sigs {
			if kinds[i] != 'A' {
				present = append(present, i)
			}
		}
		for j, i := range present {
			sigs[i].ValidatorAddress = addrOf(present[(j+1)%len(present)])
		}
	case "two-honest-swapped":
		if len(honest) >= 2 {
			a, b := honest[0], honest[len(honest)-1]
			sigs[a].ValidatorAddress, sigs[b].ValidatorAddress = addrOf(b), addrOf(a)
		}
	case "own-addresses":
	}
	cc.c = types.NewCommit(height-1, round, st.LastBlockID, sigs)

	// the byzantine proposer builds the block: State.MakeBlock takes the time from MedianTime
	proposer := st.Validators.Validators[r.Intn(st.Validators.Size())].Address
	for _, i := range bad {
		if st.Validators.HasAddress(vals.Validators[i].Address) {
			proposer = vals.Validators[i].Address
			break
		}
	}
	var b *types.Block
	made := func() (ok bool) {
		defer func() {
			if recover() != nil {
				ok = false
			}
		}()
		b, _ = st.MakeBlock(height, types.Txs{types.Tx(r.Bytes(6))}, cc.c, nil, proposer)
		return true
	}()
	if !made || b == nil {
		cs.Count("relabel-makeblock-panic", 1)
		return
	}
	res := c06Validate(st, b)
	// the proposer side: CreateProposalBlock on the same commit
	proposed := uint64(0)
	if p := c06Propose(st, height, cc.c, proposer, types.Txs{types.Tx(r.Bytes(6))}, nil); p.paniced || p.block == nil {
		proposed = 9
	}
	tb := c06NewIds()
	when := "behind"
	if future {
		when = "ahead"
	}
	fs := ""
	for i, f := range faulty {
		if f {
			fs += fmt.Sprintf(" #%d", i)
		}
	}
	term := vg.App("CRelabel", c06State(tb, st), c06Block(tb, b, cc), c06Oracle(tb, st, b), c06BoolL(faulty), vg.N(res), vg.N(proposed))
	cs.Add(id, "relabel:"+c06RelabelKinds[variant]+"/byzantine-clock-"+when, true, term,
		fmt.Sprintf("validateBlock(%s, %s) — the LastCommit carries the genuine precommits of LastValidators (slot i signed by validator i; byzantine signers%s with power %d of the %d the commit carries, their clocks %s), ValidatorAddress fields relabelled: %s; block built by State.MakeBlock for proposer %X (time = MedianTime of that commit) -> class %d; CreateProposalBlock on the same commit -> %d (9 = panic)",
			c06StateDescr(st), c06BlockDescr(b, cc), fs, fp, signed, when, c06RelabelKinds[variant], proposer, res, proposed))
}

func TestVerifC06Relabel(t *testing.T) {
	if !c06F84() {
		return
	}
	cs := vg.NewCases("C06", "c06_relabel", "TM.C06.Exec")
	root := vg.NewRand(vg.Seed())
	n := vg.Scale(64, 2000)
	for k := 0; k < n; k++ {
		id := cs.NextID()
		if !cs.Want(id) {
			continue
		}
		c06RelabelCase(cs, id, root.Fork(uint64(840000+k)), k)
	}
	if err := cs.Write(); err != nil {
		t.Fatal(err)
	}
}
