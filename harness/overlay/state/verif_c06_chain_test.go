//go:build verif

package state

// C06 correspondence harness, chains: states grown from a random genesis by random valid
// validator / parameter updates, transaction sets and evidence.  At every height
//   * BlockExecutor.CreateProposalBlock builds the block from a (stub) mempool and evidence pool
//     (CPropose: header vs make_block, size vs the size model and MaxBytes, validateBlock accepts),
//   * the block and each single perturbation of it are given to validateBlock (CValidate),
//   * updateState computes the next state on two replicas (CUpdate),
//   * two nodes whose applications answer DeliverTx differently apply the block; the second
//     node validates the block the first one proposes next (CResults).

import (
	"bytes"
	"fmt"
	"math"
	"strings"
	"testing"
	"time"

	dbm "github.com/tendermint/tm-db"

	abci "github.com/tendermint/tendermint/abci/types"
	cryptoenc "github.com/tendermint/tendermint/crypto/encoding"
	vg "github.com/tendermint/tendermint/internal/verifgen"
	"github.com/tendermint/tendermint/libs/log"
	tmstate "github.com/tendermint/tendermint/proto/tendermint/state"
	tmproto "github.com/tendermint/tendermint/proto/tendermint/types"
	"github.com/tendermint/tendermint/types"
)

type c06Chain struct {
	r      *vg.Rand
	keys   []c06Key
	st     State
	lastID types.BlockID
	// directed scenario: 0 random, 1 validator set shrinks while the mempool is full,
	// 2 one of four equal validators stamps its precommit in the past,
	// 3 everything as large as the types allow: many validators all signing with timestamps of
	// maximal encoded size, 50-byte chain id, heights/round/app version/part count near the top
	// of their ranges, a 182-byte application hash, a mempool filled to the byte
	scenario int
}

func c06Power(r *vg.Rand) int64 {
	switch r.Intn(6) {
	case 0:
		return 1
	case 1:
		return 1 + r.Int63n(1000000)
	default:
		return 1 + r.Int63n(20)
	}
}

func c06Genesis(r *vg.Rand, scenario int) *c06Chain {
	n := 1 + r.Intn(6)
	if scenario == 1 {
		n = 7
	}
	if scenario == 2 {
		n = 4
	}
	if scenario == 4 {
		n = 4 + r.Intn(4)
	}
	nkeys := 10
	if scenario == 3 {
		n = vg.Scale(25, 90) + r.Intn(vg.Scale(30, 60))
		nkeys = n + 1
	}
	keys := c06Keys(r, nkeys)
	gvs := make([]types.GenesisValidator, n)
	for i := 0; i < n; i++ {
		p := c06Power(r)
		if scenario == 1 {
			p = 10
		}
		if scenario == 2 {
			p = 1 // N = 3f+1 with f = 1: a commit of exactly 2f+1
		}
		gvs[i] = types.GenesisValidator{Address: keys[i].addr, PubKey: keys[i].pub, Power: p, Name: fmt.Sprintf("v%d", i)}
	}
	chain := "c06-" + fmt.Sprintf("%x", r.Bytes(1+r.Intn(5)))
	if r.Chance(15) {
		chain = string(bytes.Repeat([]byte("x"), types.MaxChainIDLen-8)) + fmt.Sprintf("%08x", r.Uint64()&0xffffffff)
	}
	initial := int64(1)
	if r.Chance(40) {
		initial = 2 + r.Int63n(1000)
	}
	params := types.DefaultConsensusParams()
	params.Block.MaxBytes = 6000 + r.Int63n(30000)
	params.Evidence.MaxBytes = []int64{0, 600, 2500}[r.Intn(3)]
	if scenario != 0 {
		params.Block.MaxBytes = 8000
		params.Evidence.MaxBytes = 0
	}
	var appHash []byte
	if r.Chance(50) {
		appHash = r.Bytes(32)
	}
	genTime := time.Unix(1600000000+r.Int63n(100000000), r.Int63n(1000000000)).UTC()
	if scenario == 3 {
		chain = string(bytes.Repeat([]byte("m"), types.MaxChainIDLen-8)) + fmt.Sprintf("%08x", r.Uint64()&0xffffffff)
		initial = 1<<62 + r.Int63n(1<<61)
		// room for header, commit and evidence, and a few thousand bytes of transactions
		params.Block.MaxBytes = types.MaxOverheadForBlock + types.MaxHeaderBytes + types.MaxCommitBytes(n) + 2500 + 1500 + r.Int63n(6000)
		params.Evidence.MaxBytes = 2500
		params.Version.AppVersion = math.MaxUint64
		appHash = r.Bytes(182)
		// before 1970: the seconds of a timestamp are negative and take ten bytes
		genTime = time.Unix(-1000000000-r.Int63n(1000000000), 268435456+r.Int63n(731564543)).UTC()
	}
	gd := &types.GenesisDoc{
		GenesisTime: genTime, ChainID: chain,
		InitialHeight: initial, ConsensusParams: params, Validators: gvs, AppHash: appHash,
	}
	st, err := MakeGenesisState(gd)
	if err != nil {
		panic(err)
	}
	if scenario == 3 {
		st.Version.Consensus.App = math.MaxUint64
	}
	return &c06Chain{r: r, keys: keys, st: st, scenario: scenario}
}

func c06SignVote(k *c06Key, chain string, v *types.Vote) {
	sig, err := k.priv.Sign(types.VoteSignBytes(chain, v.ToProto()))
	if err != nil {
		panic(err)
	}
	v.Signature = sig
}

// a commit for the state's last block by LastValidators: > 2/3 for the block, the rest nil or
// absent; timestamps after the last block time
func (c *c06Chain) makeCommit(height int64) *c06Commit {
	st, r := c.st, c.r
	if height == st.InitialHeight {
		return &c06Commit{c: types.NewCommit(0, 0, types.BlockID{}, nil), chain: st.ChainID}
	}
	vals := st.LastValidators
	round := int32(r.Intn(3))
	if c.scenario == 3 {
		round = math.MaxInt32 - round
	}
	cc := &c06Commit{chain: st.ChainID, h: height - 1, r: round, bid: st.LastBlockID}
	n := len(vals.Validators)
	kinds := make([]byte, n) // 'B', 'N', 'A'
	total := vals.TotalVotingPower()
	for {
		var forBlock int64
		for i, v := range vals.Validators {
			switch x := r.Intn(10); {
			case x < 8:
				kinds[i] = 'B'
				forBlock += v.VotingPower
			case x < 9:
				kinds[i] = 'N'
			default:
				kinds[i] = 'A'
			}
		}
		if c.scenario == 3 {
			forBlock = total
			for i := range kinds {
				kinds[i] = 'B'
			}
		}
		if c.scenario == 2 {
			forBlock = 0
			a := r.Intn(n)
			for i, v := range vals.Validators {
				kinds[i] = 'B'
				if i == a {
					kinds[i] = 'A'
				} else {
					forBlock += v.VotingPower
				}
			}
		}
		if forBlock*3 > total*2 {
			break
		}
	}
	tie := st.LastBlockTime.Add(time.Duration(1 + r.Int63n(3000000000)))
	sigs := make([]types.CommitSig, n)
	cc.sd = make([]c06Sig, n)
	past := -1
	if c.scenario == 2 {
		for i := range kinds {
			if kinds[i] == 'B' {
				past = i
				break
			}
		}
	}
	for i, v := range vals.Validators {
		if kinds[i] == 'A' {
			sigs[i] = types.NewCommitSigAbsent()
			cc.sd[i] = c06Sig{kind: 'G'}
			continue
		}
		ts := st.LastBlockTime.Add(time.Duration(1 + r.Int63n(5000000000)))
		if r.Chance(25) {
			ts = tie
		}
		if i == past {
			ts = st.LastBlockTime.Add(-time.Duration(r.Int63n(1000000)))
		}
		if c.scenario == 3 {
			// a later second, nanoseconds that need five varint bytes
			ts = time.Unix(st.LastBlockTime.Unix()+1+r.Int63n(5), 268435456+r.Int63n(731564543)).UTC()
		}
		k := c06KeyOf(c.keys, v.Address)
		vote := &types.Vote{Type: tmproto.PrecommitType, Height: height - 1, Round: round, Timestamp: ts,
			ValidatorAddress: v.Address, ValidatorIndex: int32(i)}
		kind := byte('N')
		if kinds[i] == 'B' {
			vote.BlockID = st.LastBlockID
			kind = 'B'
		}
		c06SignVote(k, st.ChainID, vote)
		sigs[i] = vote.CommitSig()
		cc.sd[i] = c06Sig{kind: kind, pub: k.pub.Bytes(), ts: ts}
	}
	cc.c = types.NewCommit(height-1, round, st.LastBlockID, sigs)
	return cc
}

func (c *c06Chain) evidence(height int64, n int) types.EvidenceList {
	var evs types.EvidenceList
	for i := 0; i < n; i++ {
		k := c.keys[c.r.Intn(len(c.keys))]
		pv := types.NewMockPVWithParams(k.priv, false, false)
		evs = append(evs, types.NewMockDuplicateVoteEvidenceWithValidator(height-1, c.st.LastBlockTime, pv, c.st.ChainID))
	}
	return evs
}

func c06Pool(r *vg.Rand, maxBytes int64, full bool) types.Txs {
	var txs types.Txs
	var sum int64
	target := int64(r.Intn(400))
	if full {
		target = maxBytes + maxBytes/2
	}
	for sum < target {
		l := r.Intn(40)
		if r.Chance(10) {
			l = 100 + r.Intn(300)
		}
		txs = append(txs, types.Tx(r.Bytes(l)))
		sum += int64(l) + 2
	}
	return txs
}

// proto size of one transaction inside Data (types.ComputeProtoSizeForTxs of a single tx)
func c06TxProtoSize(l int64) int64 {
	return types.ComputeProtoSizeForTxs([]types.Tx{make(types.Tx, l)})
}

// a mempool whose head fills the byte budget [budget] exactly (when that is possible), followed
// by transactions that do not fit any more
func c06ExactPool(r *vg.Rand, budget int64) types.Txs {
	var lens []int64
	rem := budget
	for rem > 2100 {
		l := int64(100 + r.Intn(1900))
		lens = append(lens, l)
		rem -= c06TxProtoSize(l)
	}
	single := func(want int64) int64 {
		for l := want - 5; l <= want-2; l++ {
			if l >= 0 && c06TxProtoSize(l) == want {
				return l
			}
		}
		return -1
	}
	switch l := single(rem); {
	case l >= 0:
		lens = append(lens, l)
	case rem >= 4 && single(rem-2) >= 0:
		lens = append(lens, 0, single(rem-2)) // an empty transaction takes two bytes
	case rem >= 2:
		l := rem - 5 // cannot be hit exactly: stay below
		if l < 0 {
			l = 0
		}
		lens = append(lens, l)
	}
	lens = append(lens, int64(r.Intn(30)), int64(200+r.Intn(300)), int64(r.Intn(30)))
	txs := make(types.Txs, len(lens))
	for i, l := range lens {
		txs[i] = types.Tx(r.Bytes(int(l)))
	}
	return txs
}

type c06Proposal struct {
	block   *types.Block
	parts   *types.PartSet
	asked   int64
	paniced bool
}

func c06Propose(st State, height int64, commit *types.Commit, proposer []byte, pool types.Txs, evs types.EvidenceList) (p c06Proposal) {
	mp := &c06Mempool{txs: pool, asked: -1}
	ep := &c06EvPool{evs: evs}
	be := NewBlockExecutor(nil, log.NewNopLogger(), nil, mp, ep)
	defer func() {
		if r := recover(); r != nil {
			p.paniced = true
			p.asked = mp.asked
		}
	}()
	b, ps := be.CreateProposalBlock(height, st, commit, proposer)
	return c06Proposal{block: b, parts: ps, asked: mp.asked}
}

// ---------------------------------------------------------------- perturbations

type c06Blk struct {
	b  *types.Block
	cc *c06Commit
}

func c06CloneBlk(x c06Blk) c06Blk {
	cc := x.cc.clone()
	nb := &types.Block{Header: x.b.Header,
		Data:     types.Data{Txs: append(types.Txs(nil), x.b.Data.Txs...)},
		Evidence: types.EvidenceData{Evidence: append(types.EvidenceList(nil), x.b.Evidence.Evidence...)},
	}
	if cc != nil {
		nb.LastCommit = cc.c
	}
	return c06Blk{b: nb, cc: cc}
}

func c06Flip(b []byte) []byte {
	o := append([]byte(nil), b...)
	if len(o) == 0 {
		return []byte{1}
	}
	o[len(o)/2] ^= 0x40
	return o
}

type c06Pert struct {
	name string
	f    func(c *c06Chain, x *c06Blk) bool // false = not applicable
}

func c06FirstSigned(x *c06Blk, flag types.BlockIDFlag) int {
	if x.b.LastCommit == nil {
		return -1
	}
	for i, s := range x.b.LastCommit.Signatures {
		if s.BlockIDFlag == flag {
			return i
		}
	}
	return -1
}

func c06Rehash(x *c06Blk) { x.b.LastCommitHash = x.b.LastCommit.Hash() }

func c06Perts() []c06Pert {
	hdr := func(name string, f func(c *c06Chain, h *types.Header)) c06Pert {
		return c06Pert{name, func(c *c06Chain, x *c06Blk) bool { f(c, &x.b.Header); return true }}
	}
	slot := func(name string, rehash bool, f func(c *c06Chain, x *c06Blk, i int) bool) c06Pert {
		return c06Pert{name, func(c *c06Chain, x *c06Blk) bool {
			i := c06FirstSigned(x, types.BlockIDFlagCommit)
			if i < 0 {
				return false
			}
			if c.r.Bool() {
				// a later slot, if any
				for j := len(x.b.LastCommit.Signatures) - 1; j > i; j-- {
					if x.b.LastCommit.Signatures[j].BlockIDFlag == types.BlockIDFlagCommit {
						i = j
						break
					}
				}
			}
			if !f(c, x, i) {
				return false
			}
			if rehash {
				c06Rehash(x)
			}
			return true
		}}
	}
	ps := []c06Pert{
		{"none", func(c *c06Chain, x *c06Blk) bool { return true }},
		hdr("version.block+1", func(c *c06Chain, h *types.Header) { h.Version.Block++ }),
		hdr("version.app+1", func(c *c06Chain, h *types.Header) { h.Version.App++ }),
		hdr("chainid.other", func(c *c06Chain, h *types.Header) { h.ChainID = h.ChainID[:len(h.ChainID)-1] + "~" }),
		hdr("chainid.long", func(c *c06Chain, h *types.Header) {
			h.ChainID = string(bytes.Repeat([]byte("y"), types.MaxChainIDLen+1))
		}),
		hdr("height+1", func(c *c06Chain, h *types.Header) { h.Height++ }),
		hdr("height-1", func(c *c06Chain, h *types.Header) { h.Height-- }),
		hdr("height=0", func(c *c06Chain, h *types.Header) { h.Height = 0 }),
		hdr("height<0", func(c *c06Chain, h *types.Header) { h.Height = -h.Height }),
		hdr("time+1ns", func(c *c06Chain, h *types.Header) { h.Time = h.Time.Add(1) }),
		hdr("time-1ns", func(c *c06Chain, h *types.Header) { h.Time = h.Time.Add(-1) }),
		hdr("time=last", func(c *c06Chain, h *types.Header) { h.Time = c.st.LastBlockTime }),
		hdr("time=last-1ns", func(c *c06Chain, h *types.Header) { h.Time = c.st.LastBlockTime.Add(-1) }),
		hdr("time=last+1ns", func(c *c06Chain, h *types.Header) { h.Time = c.st.LastBlockTime.Add(1) }),
		hdr("lastid.hash", func(c *c06Chain, h *types.Header) { h.LastBlockID.Hash = c06Flip(h.LastBlockID.Hash) }),
		hdr("lastid.hash32", func(c *c06Chain, h *types.Header) { h.LastBlockID.Hash = c.r.Bytes(32) }),
		hdr("lastid.total+1", func(c *c06Chain, h *types.Header) { h.LastBlockID.PartSetHeader.Total++ }),
		hdr("lastid.parthash", func(c *c06Chain, h *types.Header) {
			h.LastBlockID.PartSetHeader.Hash = c06Flip(h.LastBlockID.PartSetHeader.Hash)
		}),
		hdr("lastid.parthash32", func(c *c06Chain, h *types.Header) { h.LastBlockID.PartSetHeader.Hash = c.r.Bytes(32) }),
		hdr("lastid.zero", func(c *c06Chain, h *types.Header) { h.LastBlockID = types.BlockID{} }),
		hdr("lastid.hash31", func(c *c06Chain, h *types.Header) { h.LastBlockID.Hash = c.r.Bytes(31) }),
		hdr("lchash.flip", func(c *c06Chain, h *types.Header) { h.LastCommitHash = c06Flip(h.LastCommitHash) }),
		hdr("lchash.empty", func(c *c06Chain, h *types.Header) { h.LastCommitHash = nil }),
		hdr("lchash.31", func(c *c06Chain, h *types.Header) { h.LastCommitHash = h.LastCommitHash[:31] }),
		hdr("datahash.flip", func(c *c06Chain, h *types.Header) { h.DataHash = c06Flip(h.DataHash) }),
		hdr("datahash.empty", func(c *c06Chain, h *types.Header) { h.DataHash = nil }),
		hdr("datahash.33", func(c *c06Chain, h *types.Header) { h.DataHash = append(append([]byte(nil), h.DataHash...), 0) }),
		hdr("valshash.flip", func(c *c06Chain, h *types.Header) { h.ValidatorsHash = c06Flip(h.ValidatorsHash) }),
		hdr("valshash.empty", func(c *c06Chain, h *types.Header) { h.ValidatorsHash = nil }),
		hdr("valshash=next", func(c *c06Chain, h *types.Header) { h.ValidatorsHash = h.NextValidatorsHash }),
		hdr("nextvalshash.flip", func(c *c06Chain, h *types.Header) { h.NextValidatorsHash = c06Flip(h.NextValidatorsHash) }),
		hdr("nextvalshash.empty", func(c *c06Chain, h *types.Header) { h.NextValidatorsHash = nil }),
		hdr("nextvalshash=last", func(c *c06Chain, h *types.Header) { h.NextValidatorsHash = c.st.LastValidators.Hash() }),
		hdr("conshash.flip", func(c *c06Chain, h *types.Header) { h.ConsensusHash = c06Flip(h.ConsensusHash) }),
		hdr("conshash.empty", func(c *c06Chain, h *types.Header) { h.ConsensusHash = nil }),
		hdr("conshash.other-params", func(c *c06Chain, h *types.Header) {
			p := c.st.ConsensusParams
			p.Block.MaxGas++
			h.ConsensusHash = types.HashConsensusParams(p)
		}),
		hdr("conshash.unhashed-param", func(c *c06Chain, h *types.Header) { // same hash: stays valid
			p := c.st.ConsensusParams
			p.Evidence.MaxBytes++
			h.ConsensusHash = types.HashConsensusParams(p)
		}),
		hdr("apphash.flip", func(c *c06Chain, h *types.Header) { h.AppHash = c06Flip(h.AppHash) }),
		hdr("apphash.append", func(c *c06Chain, h *types.Header) { h.AppHash = append(append([]byte(nil), h.AppHash...), 7) }),
		hdr("apphash.other", func(c *c06Chain, h *types.Header) { h.AppHash = c.r.Bytes(len(h.AppHash) + 1) }),
		hdr("resultshash.flip", func(c *c06Chain, h *types.Header) { h.LastResultsHash = c06Flip(h.LastResultsHash) }),
		hdr("resultshash.32", func(c *c06Chain, h *types.Header) { h.LastResultsHash = c.r.Bytes(32) }),
		hdr("resultshash.31", func(c *c06Chain, h *types.Header) { h.LastResultsHash = c.r.Bytes(31) }),
		hdr("evhash.flip", func(c *c06Chain, h *types.Header) { h.EvidenceHash = c06Flip(h.EvidenceHash) }),
		hdr("evhash.empty", func(c *c06Chain, h *types.Header) { h.EvidenceHash = nil }),
		hdr("proposer.unknown", func(c *c06Chain, h *types.Header) { h.ProposerAddress = c.r.Bytes(20) }),
		hdr("proposer.19", func(c *c06Chain, h *types.Header) { h.ProposerAddress = h.ProposerAddress[:19] }),
		hdr("proposer.lastval", func(c *c06Chain, h *types.Header) { // member of LastValidators/NextValidators only
			for _, vs := range []*types.ValidatorSet{c.st.LastValidators, c.st.NextValidators} {
				for _, v := range vs.Validators {
					if !c.st.Validators.HasAddress(v.Address) {
						h.ProposerAddress = v.Address
						return
					}
				}
			}
			h.ProposerAddress = c.keys[9].addr
		}),
		{"proposer.other-validator", func(c *c06Chain, x *c06Blk) bool { // stays valid
			vs := c.st.Validators.Validators
			if len(vs) < 2 {
				return false
			}
			for _, v := range vs {
				if !bytes.Equal(v.Address, x.b.ProposerAddress) {
					x.b.ProposerAddress = v.Address
					return true
				}
			}
			return false
		}},
		// contents
		{"txs.add", func(c *c06Chain, x *c06Blk) bool { x.b.Data.Txs = append(x.b.Data.Txs, types.Tx("extra")); return true }},
		{"txs.add+hash", func(c *c06Chain, x *c06Blk) bool { // a different valid block
			x.b.Data.Txs = append(x.b.Data.Txs, types.Tx("extra"))
			x.b.DataHash = x.b.Data.Hash()
			return true
		}},
		{"txs.drop", func(c *c06Chain, x *c06Blk) bool {
			if len(x.b.Data.Txs) == 0 {
				return false
			}
			x.b.Data.Txs = x.b.Data.Txs[1:]
			return true
		}},
		{"txs.swap", func(c *c06Chain, x *c06Blk) bool {
			t := x.b.Data.Txs
			if len(t) < 2 || bytes.Equal(t[0], t[1]) {
				return false
			}
			t[0], t[1] = t[1], t[0]
			return true
		}},
		{"ev.add", func(c *c06Chain, x *c06Blk) bool {
			x.b.Evidence.Evidence = append(x.b.Evidence.Evidence, c.evidence(x.b.Height, 1)...)
			return true
		}},
		{"ev.add+hash", func(c *c06Chain, x *c06Blk) bool { // valid iff still within Evidence.MaxBytes
			x.b.Evidence.Evidence = append(x.b.Evidence.Evidence, c.evidence(x.b.Height, 1)...)
			x.b.EvidenceHash = x.b.Evidence.Hash()
			return true
		}},
		{"ev.add-many+hash", func(c *c06Chain, x *c06Blk) bool {
			x.b.Evidence.Evidence = append(x.b.Evidence.Evidence, c.evidence(x.b.Height, 7)...)
			x.b.EvidenceHash = x.b.Evidence.Hash()
			return true
		}},
		{"ev.add-malformed+hash", func(c *c06Chain, x *c06Blk) bool {
			e := c.evidence(x.b.Height, 1)[0].(*types.DuplicateVoteEvidence)
			e.VoteA, e.VoteB = e.VoteB, e.VoteA
			x.b.Evidence.Evidence = append(x.b.Evidence.Evidence, e)
			x.b.EvidenceHash = x.b.Evidence.Hash()
			return true
		}},
		{"ev.drop", func(c *c06Chain, x *c06Blk) bool {
			if len(x.b.Evidence.Evidence) == 0 {
				return false
			}
			x.b.Evidence.Evidence = x.b.Evidence.Evidence[1:]
			return true
		}},
		// last commit
		{"commit.nil", func(c *c06Chain, x *c06Blk) bool { x.b.LastCommit = nil; x.cc = nil; return true }},
		{"commit.height+1", func(c *c06Chain, x *c06Blk) bool { x.b.LastCommit.Height++; return true }},
		{"commit.height-1", func(c *c06Chain, x *c06Blk) bool { x.b.LastCommit.Height--; return true }},
		{"commit.round+1", func(c *c06Chain, x *c06Blk) bool { x.b.LastCommit.Round++; return true }},
		{"commit.round<0", func(c *c06Chain, x *c06Blk) bool { x.b.LastCommit.Round = -1; return true }},
		{"commit.blockid.hash", func(c *c06Chain, x *c06Blk) bool {
			x.b.LastCommit.BlockID.Hash = c06Flip(x.b.LastCommit.BlockID.Hash)
			return true
		}},
		{"commit.blockid.total", func(c *c06Chain, x *c06Blk) bool { x.b.LastCommit.BlockID.PartSetHeader.Total++; return true }},
		{"commit.blockid.zero", func(c *c06Chain, x *c06Blk) bool { x.b.LastCommit.BlockID = types.BlockID{}; return true }},
		{"commit.add-slot+hash", func(c *c06Chain, x *c06Blk) bool {
			i := c06FirstSigned(x, types.BlockIDFlagCommit)
			if i < 0 {
				x.b.LastCommit.Signatures = append(x.b.LastCommit.Signatures, types.NewCommitSigAbsent())
				x.cc.sd = append(x.cc.sd, c06Sig{kind: 'G'})
			} else {
				x.b.LastCommit.Signatures = append(x.b.LastCommit.Signatures, x.b.LastCommit.Signatures[i])
				x.cc.sd = append(x.cc.sd, x.cc.sd[i])
			}
			c06Rehash(x)
			return true
		}},
		{"commit.drop-slot+hash", func(c *c06Chain, x *c06Blk) bool {
			n := len(x.b.LastCommit.Signatures)
			if n == 0 {
				return false
			}
			x.b.LastCommit.Signatures = x.b.LastCommit.Signatures[:n-1]
			x.cc.sd = x.cc.sd[:n-1]
			c06Rehash(x)
			return true
		}},
		{"commit.swap-slots+hash", func(c *c06Chain, x *c06Blk) bool {
			s := x.b.LastCommit.Signatures
			if len(s) < 2 {
				return false
			}
			s[0], s[1] = s[1], s[0]
			x.cc.sd[0], x.cc.sd[1] = x.cc.sd[1], x.cc.sd[0]
			c06Rehash(x)
			return true
		}},
		{"commit.all-absent+hash", func(c *c06Chain, x *c06Blk) bool {
			if len(x.b.LastCommit.Signatures) == 0 {
				return false
			}
			for i := range x.b.LastCommit.Signatures {
				x.b.LastCommit.Signatures[i] = types.NewCommitSigAbsent()
				x.cc.sd[i] = c06Sig{kind: 'G'}
			}
			c06Rehash(x)
			return true
		}},
		{"commit.resign-all-at-last-block-time+hash+time", func(c *c06Chain, x *c06Blk) bool {
			// median == last block time: must be rejected (not strictly later)
			if len(x.b.LastCommit.Signatures) == 0 {
				return false
			}
			for i := range x.b.LastCommit.Signatures {
				s := &x.b.LastCommit.Signatures[i]
				if s.BlockIDFlag == types.BlockIDFlagAbsent {
					continue
				}
				k := c06KeyOf(c.keys, s.ValidatorAddress)
				v := &types.Vote{Type: tmproto.PrecommitType, Height: x.cc.h, Round: x.cc.r, Timestamp: c.st.LastBlockTime,
					ValidatorAddress: s.ValidatorAddress, ValidatorIndex: int32(i)}
				kind := byte('N')
				if s.BlockIDFlag == types.BlockIDFlagCommit {
					v.BlockID = x.cc.bid
					kind = 'B'
				}
				c06SignVote(k, x.cc.chain, v)
				s.Timestamp, s.Signature = c.st.LastBlockTime, v.Signature
				x.cc.sd[i] = c06Sig{kind: kind, pub: k.pub.Bytes(), ts: c.st.LastBlockTime}
			}
			c06Rehash(x)
			x.b.Time = MedianTime(x.b.LastCommit, c.st.LastValidators)
			return true
		}},
		slot("slot.sig-flip", false, func(c *c06Chain, x *c06Blk, i int) bool {
			x.b.LastCommit.Signatures[i].Signature = c06Flip(x.b.LastCommit.Signatures[i].Signature)
			x.cc.sd[i] = c06Sig{kind: 'G'}
			return true
		}),
		slot("slot.sig-flip+hash", true, func(c *c06Chain, x *c06Blk, i int) bool {
			x.b.LastCommit.Signatures[i].Signature = c06Flip(x.b.LastCommit.Signatures[i].Signature)
			x.cc.sd[i] = c06Sig{kind: 'G'}
			return true
		}),
		slot("slot.ts+1ns+hash", true, func(c *c06Chain, x *c06Blk, i int) bool {
			x.b.LastCommit.Signatures[i].Timestamp = x.b.LastCommit.Signatures[i].Timestamp.Add(1)
			return true
		}),
		slot("slot.ts-1ns+hash", true, func(c *c06Chain, x *c06Blk, i int) bool {
			x.b.LastCommit.Signatures[i].Timestamp = x.b.LastCommit.Signatures[i].Timestamp.Add(-1)
			return true
		}),
		slot("slot.resign-later+hash", true, func(c *c06Chain, x *c06Blk, i int) bool { // a valid commit, maybe another median
			s := &x.b.LastCommit.Signatures[i]
			k := c06KeyOf(c.keys, s.ValidatorAddress)
			ts := s.Timestamp.Add(time.Duration(1 + c.r.Int63n(7000000000)))
			v := &types.Vote{Type: tmproto.PrecommitType, Height: x.cc.h, Round: x.cc.r, Timestamp: ts,
				BlockID: x.cc.bid, ValidatorAddress: s.ValidatorAddress, ValidatorIndex: int32(i)}
			c06SignVote(k, x.cc.chain, v)
			s.Timestamp, s.Signature = ts, v.Signature
			x.cc.sd[i] = c06Sig{kind: 'B', pub: k.pub.Bytes(), ts: ts}
			return true
		}),
		slot("slot.resign-later+hash+time", true, func(c *c06Chain, x *c06Blk, i int) bool { // valid again
			s := &x.b.LastCommit.Signatures[i]
			k := c06KeyOf(c.keys, s.ValidatorAddress)
			ts := s.Timestamp.Add(time.Duration(1 + c.r.Int63n(7000000000)))
			v := &types.Vote{Type: tmproto.PrecommitType, Height: x.cc.h, Round: x.cc.r, Timestamp: ts,
				BlockID: x.cc.bid, ValidatorAddress: s.ValidatorAddress, ValidatorIndex: int32(i)}
			c06SignVote(k, x.cc.chain, v)
			s.Timestamp, s.Signature = ts, v.Signature
			x.cc.sd[i] = c06Sig{kind: 'B', pub: k.pub.Bytes(), ts: ts}
			x.b.Time = MedianTime(x.b.LastCommit, c.st.LastValidators)
			return true
		}),
		slot("slot.resign-other-chain+hash", true, func(c *c06Chain, x *c06Blk, i int) bool {
			s := &x.b.LastCommit.Signatures[i]
			k := c06KeyOf(c.keys, s.ValidatorAddress)
			v := &types.Vote{Type: tmproto.PrecommitType, Height: x.cc.h, Round: x.cc.r, Timestamp: s.Timestamp,
				BlockID: x.cc.bid, ValidatorAddress: s.ValidatorAddress, ValidatorIndex: int32(i)}
			other := x.cc.chain + "2"
			c06SignVote(k, other, v)
			s.Signature = v.Signature
			x.cc.sd[i] = c06Sig{kind: 'O', pub: k.pub.Bytes(), ts: s.Timestamp, chain: other, h: x.cc.h, r: x.cc.r, bid: x.cc.bid}
			return true
		}),
		slot("slot.resign-other-key+hash", true, func(c *c06Chain, x *c06Blk, i int) bool {
			s := &x.b.LastCommit.Signatures[i]
			k := &c.keys[9]
			v := &types.Vote{Type: tmproto.PrecommitType, Height: x.cc.h, Round: x.cc.r, Timestamp: s.Timestamp,
				BlockID: x.cc.bid, ValidatorAddress: s.ValidatorAddress, ValidatorIndex: int32(i)}
			c06SignVote(k, x.cc.chain, v)
			s.Signature = v.Signature
			x.cc.sd[i] = c06Sig{kind: 'B', pub: k.pub.Bytes(), ts: s.Timestamp}
			return true
		}),
		slot("slot.flag-nil+hash", true, func(c *c06Chain, x *c06Blk, i int) bool {
			x.b.LastCommit.Signatures[i].BlockIDFlag = types.BlockIDFlagNil
			return true
		}),
		slot("slot.flag-unknown+hash", true, func(c *c06Chain, x *c06Blk, i int) bool {
			x.b.LastCommit.Signatures[i].BlockIDFlag = 4
			return true
		}),
		slot("slot.absent+hash", true, func(c *c06Chain, x *c06Blk, i int) bool { // valid iff still > 2/3 and time = new median
			x.b.LastCommit.Signatures[i] = types.NewCommitSigAbsent()
			x.cc.sd[i] = c06Sig{kind: 'G'}
			return true
		}),
		slot("slot.absent+hash+time", true, func(c *c06Chain, x *c06Blk, i int) bool {
			x.b.LastCommit.Signatures[i] = types.NewCommitSigAbsent()
			x.cc.sd[i] = c06Sig{kind: 'G'}
			x.b.Time = MedianTime(x.b.LastCommit, c.st.LastValidators)
			return true
		}),
		slot("slot.absent-with-address+hash", true, func(c *c06Chain, x *c06Blk, i int) bool {
			x.b.LastCommit.Signatures[i].BlockIDFlag = types.BlockIDFlagAbsent
			return true
		}),
		slot("slot.addr-unknown+hash", true, func(c *c06Chain, x *c06Blk, i int) bool { // VerifyCommit ignores it, the median does not
			x.b.LastCommit.Signatures[i].ValidatorAddress = c.r.Bytes(20)
			return true
		}),
		slot("slot.addr-other-validator+hash", true, func(c *c06Chain, x *c06Blk, i int) bool {
			vs := c.st.LastValidators.Validators
			if len(vs) < 2 {
				return false
			}
			x.b.LastCommit.Signatures[i].ValidatorAddress = vs[(i+1)%len(vs)].Address
			return true
		}),
		slot("slot.addr-19+hash", true, func(c *c06Chain, x *c06Blk, i int) bool {
			x.b.LastCommit.Signatures[i].ValidatorAddress = x.b.LastCommit.Signatures[i].ValidatorAddress[:19]
			return true
		}),
		slot("slot.sig-65+hash", true, func(c *c06Chain, x *c06Blk, i int) bool {
			x.b.LastCommit.Signatures[i].Signature = append(x.b.LastCommit.Signatures[i].Signature, 0)
			x.cc.sd[i] = c06Sig{kind: 'G'}
			return true
		}),
		slot("slot.sig-empty+hash", true, func(c *c06Chain, x *c06Blk, i int) bool {
			x.b.LastCommit.Signatures[i].Signature = nil
			x.cc.sd[i] = c06Sig{kind: 'G'}
			return true
		}),
	}
	return ps
}

// ---------------------------------------------------------------- the state transition

type c06Step struct {
	abciUps []abci.ValidatorUpdate
	pu      *abci.ConsensusParams
	results []*abci.ResponseDeliverTx
	appHash []byte
}

func (c *c06Chain) genStep(height int64, ntxs int) c06Step {
	r := c.r
	var s c06Step
	for i := 0; i < ntxs; i++ {
		s.results = append(s.results, &abci.ResponseDeliverTx{Code: uint32(r.Intn(3)), Data: r.Bytes(r.Intn(5)),
			GasWanted: r.Int63n(100), GasUsed: r.Int63n(100), Log: fmt.Sprintf("log%d", r.Intn(1000))})
	}
	nv := c.st.NextValidators
	up := func(k c06Key, p int64) {
		pk, err := cryptoenc.PubKeyToProto(k.pub)
		if err != nil {
			panic(err)
		}
		s.abciUps = append(s.abciUps, abci.ValidatorUpdate{PubKey: pk, Power: p})
	}
	switch x := r.Intn(10); {
	case c.scenario == 1:
		if nv.Size() > 2 && height >= c.st.InitialHeight+1 {
			for _, v := range nv.Validators[2:] {
				up(*c06KeyOf(c.keys, v.Address), 0)
			}
		}
	case c.scenario == 2:
	case c.scenario == 3:
		if r.Bool() {
			up(*c06KeyOf(c.keys, nv.Validators[r.Intn(nv.Size())].Address), c06Power(r))
		}
	case x < 3:
		// add / change
		k := c.keys[r.Intn(9)]
		up(k, c06Power(r))
	case x < 5:
		// remove one (never the last)
		if nv.Size() > 1 {
			up(*c06KeyOf(c.keys, nv.Validators[r.Intn(nv.Size())].Address), 0)
		}
	case x < 6:
		// several at once
		for _, i := range r.Perm(9)[:3] {
			k := c.keys[i]
			if nv.HasAddress(k.addr) && r.Bool() && nv.Size() > len(s.abciUps)+1 {
				up(k, 0)
			} else {
				up(k, c06Power(r))
			}
		}
	case x < 7:
		// invalid: removal of a non-member (UpdateWithChangeSet fails)
		for _, k := range c.keys[:9] {
			if !nv.HasAddress(k.addr) {
				up(k, 0)
				break
			}
		}
	}
	switch x := r.Intn(12); {
	case c.scenario != 0:
	case x < 2:
		s.pu = &abci.ConsensusParams{Block: &abci.BlockParams{MaxBytes: 6000 + r.Int63n(30000), MaxGas: -1 + r.Int63n(3)}}
	case x < 3:
		s.pu = &abci.ConsensusParams{Evidence: &tmproto.EvidenceParams{MaxAgeNumBlocks: 1 + r.Int63n(100),
			MaxAgeDuration: time.Duration(1 + r.Int63n(1000000)), MaxBytes: r.Int63n(3000)}}
	case x < 4:
		s.pu = &abci.ConsensusParams{Version: &tmproto.VersionParams{AppVersion: uint64(r.Intn(5))}}
	case x < 5:
		s.pu = &abci.ConsensusParams{Validator: &tmproto.ValidatorParams{PubKeyTypes: []string{types.ABCIPubKeyTypeEd25519, types.ABCIPubKeyTypeSecp256k1}[:1+r.Intn(2)]},
			Block: &abci.BlockParams{MaxBytes: 7000 + r.Int63n(1000), MaxGas: 5}}
	case x < 6:
		// invalid
		switch r.Intn(4) {
		case 0:
			s.pu = &abci.ConsensusParams{Block: &abci.BlockParams{MaxBytes: 0, MaxGas: -1}}
		case 1:
			s.pu = &abci.ConsensusParams{Block: &abci.BlockParams{MaxBytes: 10000, MaxGas: -2}}
		case 2:
			s.pu = &abci.ConsensusParams{Evidence: &tmproto.EvidenceParams{MaxAgeNumBlocks: 1, MaxAgeDuration: 1, MaxBytes: types.MaxBlockSizeBytes}}
		default:
			s.pu = &abci.ConsensusParams{Validator: &tmproto.ValidatorParams{PubKeyTypes: []string{"rsa"}}}
		}
	case x < 7:
		s.pu = &abci.ConsensusParams{} // present but empty
	}
	switch r.Intn(8) {
	case 0:
		s.appHash = nil
	case 1:
		s.appHash = r.Bytes(20)
	case 2:
		s.appHash = r.Bytes(64)
	default:
		s.appHash = r.Bytes(32)
	}
	if c.scenario == 3 {
		s.appHash = r.Bytes(182)
	}
	return s
}

func c06PUpd(pu *abci.ConsensusParams) string {
	if pu == nil {
		return "None"
	}
	b, e, v, a := "None", "None", "None", "None"
	if pu.Block != nil {
		b = "(Some " + vg.Tup(vg.Z(pu.Block.MaxBytes), vg.Z(pu.Block.MaxGas)) + ")"
	}
	if pu.Evidence != nil {
		e = "(Some " + vg.Tup(vg.Z(pu.Evidence.MaxAgeNumBlocks), vg.Z(int64(pu.Evidence.MaxAgeDuration)), vg.Z(pu.Evidence.MaxBytes)) + ")"
	}
	if pu.Validator != nil {
		ts := make([]int64, len(pu.Validator.PubKeyTypes))
		for i, s := range pu.Validator.PubKeyTypes {
			ts[i] = c06KeyType(s)
		}
		v = "(Some " + vg.ZL(ts) + ")"
	}
	if pu.Version != nil {
		a = "(Some " + vg.Z(int64(pu.Version.AppVersion)) + ")"
	}
	return "(Some " + vg.Tup(b, e, v, a) + ")"
}

// updateState as ApplyBlock calls it; class 0 ok, 1 validator set error, 2 params error, 9 panic
func c06Apply(st State, id types.BlockID, h *types.Header, resp *tmstate.ABCIResponses) (ns State, class uint64, ups []*types.Validator) {
	defer func() {
		if r := recover(); r != nil {
			ns, class = st, 9
		}
	}()
	if err := validateValidatorUpdates(resp.EndBlock.ValidatorUpdates, st.ConsensusParams.Validator); err != nil {
		return st, 3, nil
	}
	ups, err := types.PB2TM.ValidatorUpdates(resp.EndBlock.ValidatorUpdates)
	if err != nil {
		return st, 3, nil
	}
	ns, err = updateState(st, id, h, resp, ups)
	if err != nil {
		if strings.HasPrefix(err.Error(), "error changing validator set") {
			return st, 1, ups
		}
		return st, 2, ups
	}
	return ns, 0, ups
}

// ---------------------------------------------------------------- DeliverTx responses of two nodes

func c06Gas(r *vg.Rand) int64 {
	switch r.Intn(6) {
	case 0:
		return 0
	case 1:
		return -1 - r.Int63n(10)
	case 2:
		return math.MaxInt64
	case 3:
		return math.MinInt64
	default:
		return r.Int63n(1000000)
	}
}

func c06Events(r *vg.Rand) []abci.Event {
	evs := make([]abci.Event, 1+r.Intn(2))
	for i := range evs {
		evs[i].Type = fmt.Sprintf("ev%d", r.Intn(10))
		for j := r.Intn(3); j > 0; j-- {
			evs[i].Attributes = append(evs[i].Attributes, abci.EventAttribute{Key: r.Bytes(1 + r.Intn(3)), Value: r.Bytes(r.Intn(4)), Index: r.Bool()})
		}
	}
	return evs
}

func c06GenResp(r *vg.Rand) *abci.ResponseDeliverTx {
	d := &abci.ResponseDeliverTx{}
	switch r.Intn(4) {
	case 0:
	case 1:
		d.Code = uint32(1 + r.Intn(5))
	case 2:
		d.Code = math.MaxUint32
	default:
		d.Code = uint32(r.Uint64())
	}
	switch x := r.Intn(10); {
	case x < 2:
	case x < 3:
		d.Data = r.Bytes(128 + r.Intn(3)) // length needs two bytes
	default:
		d.Data = r.Bytes(1 + r.Intn(6))
	}
	d.GasWanted, d.GasUsed = c06Gas(r), c06Gas(r)
	if r.Chance(60) {
		d.Log = fmt.Sprintf("log%d", r.Intn(1000))
	}
	if r.Chance(30) {
		d.Info = fmt.Sprintf("info%d", r.Intn(10))
	}
	if r.Chance(40) {
		d.Events = c06Events(r)
	}
	if r.Chance(30) {
		d.Codespace = []string{"sdk", "app"}[r.Intn(2)]
	}
	return d
}

func c06CloneResps(rs []*abci.ResponseDeliverTx) []*abci.ResponseDeliverTx {
	out := make([]*abci.ResponseDeliverTx, len(rs))
	for i, d := range rs {
		bz, err := d.Marshal()
		if err != nil {
			panic(err)
		}
		out[i] = new(abci.ResponseDeliverTx)
		if err := out[i].Unmarshal(bz); err != nil {
			panic(err)
		}
	}
	return out
}

// the responses of a second node: the same transactions, answered by an application that differs
// from the first one either in fields it is free to fill as it likes (Log, Info, Events,
// Codespace) or in one field that has to be deterministic (Code, Data, GasWanted, GasUsed)
func c06MutResps(r *vg.Rand, ra []*abci.ResponseDeliverTx, det bool) ([]*abci.ResponseDeliverTx, string) {
	rb := c06CloneResps(ra)
	i := r.Intn(len(rb))
	d := rb[i]
	if !det {
		switch r.Intn(8) {
		case 0:
			d.Log += "!"
			return rb, "log"
		case 1:
			d.Info += "?"
			return rb, "info"
		case 2:
			d.Events = append(d.Events, c06Events(r)...)
			return rb, "events-added"
		case 3:
			d.Codespace += "x"
			return rb, "codespace"
		case 4:
			for _, e := range rb {
				e.Log, e.Info, e.Events, e.Codespace = "", "", nil, ""
			}
			for _, e := range ra {
				if e.Log == "" {
					e.Log = "ok"
				}
			}
			return rb, "nothing-but-the-deterministic-fields"
		case 5:
			for k, e := range rb {
				e.Log, e.Info, e.Codespace = fmt.Sprintf("node B tx %d", k), "B", "nodeb"
				e.Events = c06Events(r)
			}
			return rb, "all-four-on-every-response"
		case 6:
			if len(d.Events) > 0 && len(d.Events[0].Attributes) > 0 {
				d.Events[0].Attributes[0].Index = !d.Events[0].Attributes[0].Index
				return rb, "event-attribute-index"
			}
			d.Events = c06Events(r)
			return rb, "events-replaced"
		default:
			d.Log = ""
			if ra[i].Log == "" {
				d.Log = "x"
			}
			return rb, "log-emptiness"
		}
	}
	switch r.Intn(11) {
	case 0:
		d.Code++
		return rb, "code+1"
	case 1:
		if d.Code == 0 {
			d.Code = 1
		} else {
			d.Code = 0
		}
		return rb, "code-zero-nonzero"
	case 2:
		d.Data = c06Flip(d.Data)
		return rb, "data-flip"
	case 3:
		d.Data = append(append([]byte(nil), d.Data...), 0)
		return rb, "data-append-zero-byte"
	case 4:
		d.GasWanted++
		if d.GasWanted == math.MinInt64 {
			d.GasWanted = 0
		}
		return rb, "gas-wanted+1"
	case 5:
		d.GasUsed--
		if d.GasUsed == math.MaxInt64 {
			d.GasUsed = 0
		}
		return rb, "gas-used-1"
	case 6:
		if d.GasWanted != d.GasUsed {
			d.GasWanted, d.GasUsed = d.GasUsed, d.GasWanted
			return rb, "gas-wanted<->gas-used"
		}
		d.GasUsed++
		if d.GasUsed == math.MinInt64 {
			d.GasUsed = 0
		}
		return rb, "gas-used+1"
	case 7:
		return rb[:len(rb)-1], "last-response-dropped"
	case 8:
		return append(rb, &abci.ResponseDeliverTx{}), "zero-response-appended"
	case 9:
		// the log text moves into Data
		d.Data = append(append([]byte(nil), d.Data...), []byte(d.Log+"#")...)
		d.Log = ""
		return rb, "log-moved-into-data"
	default:
		j := (i + 1) % len(rb)
		ea, _ := types.NewResults(rb[i : i+1])[0].Marshal()
		eb, _ := types.NewResults(rb[j : j+1])[0].Marshal()
		if !bytes.Equal(ea, eb) {
			rb[i], rb[j] = rb[j], rb[i]
			return rb, "two-responses-swapped"
		}
		d.Code ^= 1
		return rb, "code-flip"
	}
}

func c06RespL(rs []*abci.ResponseDeliverTx) string {
	xs := make([]string, len(rs))
	for i, d := range rs {
		evs := make([]string, len(d.Events))
		for j := range d.Events {
			bz, err := d.Events[j].Marshal()
			if err != nil {
				panic(err)
			}
			evs[j] = vg.Hx(bz)
		}
		xs[i] = vg.Tup(vg.Z(int64(d.Code)), vg.Hx(d.Data), vg.Hx([]byte(d.Log)), vg.Hx([]byte(d.Info)),
			vg.Z(d.GasWanted), vg.Z(d.GasUsed), vg.L(evs), vg.Hx([]byte(d.Codespace)))
	}
	return vg.L(xs)
}

func c06Leaves(rs []*abci.ResponseDeliverTx) (out []string) {
	defer func() {
		if recover() != nil {
			out = []string{vg.Hx([]byte("panic"))}
		}
	}()
	res := types.NewResults(rs)
	out = make([]string, len(res))
	for i := range res {
		bz, err := res[i].Marshal()
		if err != nil {
			panic(err)
		}
		out[i] = vg.Hx(bz)
	}
	return out
}

// CResults: nodes A and B apply the block (id, hdr) to st; their applications answered ra / rb
func (c *c06Chain) resultsCase(cs *vg.Cases, id int, rr *vg.Rand, det bool, st State, blockID types.BlockID,
	hdr *types.Header, end *abci.ResponseEndBlock, appHash []byte) {
	ra := make([]*abci.ResponseDeliverTx, 1+rr.Intn(4))
	for i := range ra {
		ra[i] = c06GenResp(rr)
	}
	rb, kind := c06MutResps(rr, ra, det)
	apply := func(rs []*abci.ResponseDeliverTx, wire bool) (State, uint64) {
		resp := &tmstate.ABCIResponses{DeliverTxs: rs, BeginBlock: &abci.ResponseBeginBlock{}, EndBlock: end}
		if wire {
			bz, err := resp.Marshal()
			if err != nil {
				panic(err)
			}
			resp = new(tmstate.ABCIResponses)
			if err := resp.Unmarshal(bz); err != nil {
				panic(err)
			}
			if resp.EndBlock == nil {
				resp.EndBlock = &abci.ResponseEndBlock{}
			}
		}
		ns, class, _ := c06Apply(st, blockID, hdr, resp)
		return ns, class
	}
	nsA, clA := apply(ra, false)
	nsB, clB := apply(rb, true)
	if clA != 0 || clB != 0 {
		cs.Count("results-not-applicable", 1)
		return
	}
	sameNext := bytes.Equal(nsA.Bytes(), nsB.Bytes())
	// both applications computed the same application hash; node A proposes the next block
	nsA.AppHash, nsB.AppHash = appHash, appHash
	savedSt, savedR, savedSc := c.st, c.r, c.scenario
	c.st, c.r = nsA, rr.Fork(1)
	if c.scenario == 2 {
		c.scenario = 0
	}
	cc := c.makeCommit(hdr.Height + 1)
	c.st, c.r, c.scenario = savedSt, savedR, savedSc
	proposer := nsA.Validators.Validators[rr.Intn(nsA.Validators.Size())].Address
	next, _ := nsA.MakeBlock(hdr.Height+1, types.Txs{types.Tx(rr.Bytes(5))}, cc.c, nil, proposer)
	accA, accB := c06Validate(nsA, next), c06Validate(nsB, next)
	tb := c06NewIds()
	group := "results-nondeterministic-fields-differ:"
	if det {
		group = "results-deterministic-field-differs:"
	}
	term := vg.App("CResults", c06RespL(ra), c06RespL(rb), vg.L(c06Leaves(ra)), vg.L(c06Leaves(rb)),
		tb.hv(nsA.LastResultsHash), tb.hv(nsB.LastResultsHash), vg.B(sameNext), vg.N(accA), vg.N(accB))
	cs.Add(id, group+kind, true, term, fmt.Sprintf("updateState(%s, blockID=%X/%d, header{h=%d time=%d}) on node A with DeliverTx responses %v and on node B with %v [B's application differs in: %s] -> LastResultsHash A=%X B=%X, same State.Bytes=%v; the block A proposes next (h=%d, LastResultsHash=%X): validateBlock class %d on A, %d on B",
		c06StateDescr(st), []byte(blockID.Hash), blockID.PartSetHeader.Total, hdr.Height, c06Nano(hdr.Time), ra, rb, kind,
		[]byte(nsA.LastResultsHash), []byte(nsB.LastResultsHash), sameNext, hdr.Height+1, []byte(next.LastResultsHash), accA, accB))
}

func TestVerifC06Chains(t *testing.T) {
	cs := vg.NewCases("C06", "c06_chains", "TM.C06.Exec")
	root := vg.NewRand(vg.Seed())
	nchains := vg.Scale(10, 150)
	nheights := vg.Scale(5, 6)
	perts := c06Perts()
	for ci := 0; ci < nchains; ci++ {
		r := root.Fork(uint64(ci))
		scenario := 0
		if ci == 0 {
			scenario = 1
		}
		if ci == 1 {
			scenario = 2
		}
		if ci == 2 {
			scenario = 3
		}
		c := c06Genesis(r, scenario)
		for hi := 0; hi < nheights; hi++ {
			if scenario == 3 && hi >= 3 {
				break // large cases: the first block and two blocks with a full commit
			}
			st := c.st
			height := st.LastBlockHeight + 1
			if st.LastBlockHeight == 0 {
				height = st.InitialHeight
			}
			cc := c.makeCommit(height)
			proposer := st.Validators.Validators[r.Intn(st.Validators.Size())].Address
			full := r.Chance(50) || scenario == 1 || scenario == 3
			pool := c06Pool(r, st.ConsensusParams.Block.MaxBytes, full)
			nev := 0
			if r.Chance(40) && (scenario == 0 || scenario == 3) {
				nev = 1 + r.Intn(3)
			}
			evs := c.evidence(height, nev)
			// half of the full mempools hold exactly as many bytes as CreateProposalBlock asks for
			exact := full && (scenario == 3 || r.Chance(50))
			if exact {
				probe := c06Propose(st, height, cc.c, proposer, nil, evs)
				if !probe.paniced && probe.asked > 0 {
					pool = c06ExactPool(r, probe.asked)
				} else {
					exact = false
				}
			}
			prop := c06Propose(st, height, cc.c, proposer, pool, evs)

			// ---- CPropose
			id := cs.NextID()
			if prop.paniced || prop.block == nil {
				// MaxBytes too small for header + commit + evidence: build a small block by hand
				cs.Count("propose-panic", 1)
				b, ps := st.MakeBlock(height, pool[:0], cc.c, nil, proposer)
				prop.block, prop.parts = b, ps
			} else if cs.Want(id) {
				tb := c06NewIds()
				b := prop.block
				kind := "propose"
				if full {
					kind = "propose-full-mempool"
				}
				if exact {
					kind = "propose-mempool-exactly-at-budget"
				}
				if scenario != 0 {
					kind = fmt.Sprintf("propose-directed-%d", scenario)
				}
				res := c06Validate(st, b)
				term := vg.App("CPropose", c06State(tb, st), vg.Z(height), c06CommitTerm(tb, cc), vg.ZL(c06TxLens(pool)),
					c06BoolL(c06EvValid(b.Evidence.Evidence)), tb.hv(proposer), c06Oracle(tb, st, b), vg.Z(prop.asked),
					c06Header(tb, &b.Header), vg.ZL(c06TxLens(b.Data.Txs)), vg.Z(int64(b.Size())), vg.N(res))
				cs.Add(id, kind, true, term, fmt.Sprintf("CreateProposalBlock(height=%d, %s, %s, proposer=%X) with mempool tx lengths %v and %d pending evidence -> mempool asked for %d bytes, block %s, proto size %d (MaxBytes %d), validateBlock class %d",
					height, c06StateDescr(st), c06CommitDescr(cc), proposer, c06TxLens(pool), len(evs), prop.asked,
					c06BlockDescr(b, cc), b.Size(), st.ConsensusParams.Block.MaxBytes, res))
			}

			// ---- CValidate: the block and its perturbations
			base := c06Blk{b: prop.block, cc: cc}
			allPerts := hi < 2 || vg.Thorough()
			for pi, p := range perts {
				id := cs.NextID()
				if scenario == 3 && pi != 0 {
					continue
				}
				if !allPerts && pi != 0 && !r.Chance(25) {
					continue
				}
				if !cs.Want(id) {
					continue
				}
				x := c06CloneBlk(base)
				saved := c.r
				c.r = r.Fork(uint64(pi) + 7777)
				ok := p.f(c, &x)
				c.r = saved
				if !ok {
					continue
				}
				res := c06Validate(st, x.b)
				tb := c06NewIds()
				ctor := "CValidate"
				if c06F84() {
					ctor = "CValidate84" // compared with the transcription of the repaired validateBlock
				}
				term := vg.App(ctor, c06State(tb, st), c06Block(tb, x.b, x.cc), c06Oracle(tb, st, x.b), vg.N(res))
				cs.Add(id, p.name, pi != 0, term, fmt.Sprintf("validateBlock(%s, %s) [perturbation %s] -> class %d",
					c06StateDescr(st), c06BlockDescr(x.b, x.cc), p.name, res))
			}

			// ---- CUpdate: apply the block on two replicas
			b := prop.block
			blockID := types.BlockID{Hash: b.Hash(), PartSetHeader: prop.parts.Header()}
			step := c.genStep(height, len(b.Data.Txs))
			resp := &tmstate.ABCIResponses{DeliverTxs: step.results, BeginBlock: &abci.ResponseBeginBlock{},
				EndBlock: &abci.ResponseEndBlock{ValidatorUpdates: step.abciUps, ConsensusParamUpdates: step.pu}}
			nsA, classA, ups := c06Apply(st, blockID, &b.Header, resp)

			// replica B: state through its own store, block and responses through the wire encoding
			sameState, sameHash := true, true
			func() {
				defer func() {
					if r := recover(); r != nil {
						sameState = false
					}
				}()
				db := dbm.NewMemDB()
				store := NewStore(db, StoreOptions{})
				stB := st
				{
					if err := store.Save(st); err != nil {
						panic(err)
					}
					var err error
					stB, err = store.Load()
					if err != nil {
						panic(err)
					}
				}
				pb, err := b.ToProto()
				if err != nil {
					panic(err)
				}
				bz, err := pb.Marshal()
				if err != nil {
					panic(err)
				}
				pb2 := new(tmproto.Block)
				if err := pb2.Unmarshal(bz); err != nil {
					panic(err)
				}
				bB, err := types.BlockFromProto(pb2)
				if err != nil {
					panic(err)
				}
				rz, err := resp.Marshal()
				if err != nil {
					panic(err)
				}
				respB := new(tmstate.ABCIResponses)
				if err := respB.Unmarshal(rz); err != nil {
					panic(err)
				}
				if respB.EndBlock == nil {
					respB.EndBlock = &abci.ResponseEndBlock{}
				}
				idB := types.BlockID{Hash: bB.Hash(), PartSetHeader: bB.MakePartSet(types.BlockPartSizeBytes).Header()}
				nsB, classB, _ := c06Apply(stB, idB, &bB.Header, respB)
				sameHash = bytes.Equal(bB.Hash(), b.Hash()) && idB.Equals(blockID)
				sameState = classA == classB && bytes.Equal(st.Bytes(), stB.Bytes())
				if classA == 0 && classB == 0 {
					sameState = sameState && bytes.Equal(nsA.Bytes(), nsB.Bytes())
				}
			}()

			id = cs.NextID()
			if cs.Want(id) && classA != 3 {
				tb := c06NewIds()
				// what UpdateWithChangeSet (C08) makes of NextValidators and these updates
				oracle := "None"
				if len(ups) > 0 {
					func() {
						defer func() { _ = recover() }()
						nv := st.NextValidators.Copy()
						ups2, _ := types.PB2TM.ValidatorUpdates(step.abciUps)
						if err := nv.UpdateWithChangeSet(ups2); err == nil {
							oracle = "(Some " + c06Vals(tb, nv) + ")"
						}
					}()
				}
				upd := ""
				for _, u := range ups {
					upd += fmt.Sprintf(" %X:%d", u.Address[:3], u.VotingPower)
				}
				kind := fmt.Sprintf("update-class-%d", classA)
				term := vg.App("CUpdate", c06State(tb, st), tb.bid(blockID), c06Header(tb, &b.Header), c06ValList(tb, ups),
					c06PUpd(step.pu), tb.hv(ABCIResponsesResultsHash(resp)), oracle, vg.N(classA), c06State(tb, nsA),
					vg.B(sameState), vg.B(sameHash))
				cs.Add(id, kind, true, term, fmt.Sprintf("updateState(%s, blockID=%X/%d, header{h=%d time=%d}, %d validator updates [%s ], param updates %v) -> class %d, %s; replica built from store/wire bytes: same State.Bytes=%v same Block.Hash=%v",
					c06StateDescr(st), []byte(blockID.Hash), blockID.PartSetHeader.Total, b.Height, c06Nano(b.Time), len(ups), upd, step.pu,
					classA, c06StateDescr(nsA), sameState, sameHash))
			}
			if classA != 0 {
				// the application returned an unusable update: the node would halt; continue the
				// chain with the update dropped
				resp.EndBlock = &abci.ResponseEndBlock{}
				nsA, classA, _ = c06Apply(st, blockID, &b.Header, resp)
				if classA != 0 {
					t.Fatalf("cannot continue chain %d at height %d", ci, height)
				}
			}
			// ---- CResults: a second node whose application answers differently
			for vi := 0; vi < 2; vi++ {
				id := cs.NextID()
				if cs.Want(id) {
					c.resultsCase(cs, id, r.Fork(uint64(880000+hi*2+vi)), vi == 1, st, blockID, &b.Header, resp.EndBlock, step.appHash)
				}
			}
			nsA.AppHash = step.appHash
			if scenario == 3 {
				// a block of the maximal number of parts
				nsA.LastBlockID.PartSetHeader.Total = math.MaxUint32
			}
			c.st = nsA
		}
	}
	if err := cs.Write(); err != nil {
		t.Fatal(err)
	}
}
