//go:build verif

package state

// C18 correspondence harness for state/store.go (injected with `go test -overlay`).
//
// The real dbStore runs on a memdb behind a recording wrapper (every Set / SetSync / batch
// Write / WriteSync is one journalled atomic step; the k-th step of an operation can be made
// to kill the process).  The chain is produced by the real updateState with validator-power
// and consensus-parameter changes; the block store range [base, height] whose heights must
// resolve is emulated as the consensus state machine drives it (SaveBlock(h) before Save(state
// h); PruneBlocks(r) before PruneStates(base, r)).  After the history the journal is replayed
// step by step into a fresh memdb and after every step LoadValidators / LoadConsensusParams
// are called for every height of the range required at that point.

import (
	"crypto/sha256"
	"encoding/hex"
	"fmt"
	"strconv"
	"strings"
	"testing"
	"time"

	dbm "github.com/tendermint/tm-db"

	abci "github.com/tendermint/tendermint/abci/types"
	"github.com/tendermint/tendermint/crypto/ed25519"
	cryptoenc "github.com/tendermint/tendermint/crypto/encoding"
	vg "github.com/tendermint/tendermint/internal/verifgen"
	tmstate "github.com/tendermint/tendermint/proto/tendermint/state"
	tmproto "github.com/tendermint/tendermint/proto/tendermint/types"
	"github.com/tendermint/tendermint/types"
)

// ---------------------------------------------------------------- recording / crashing DB

type c18sCrash struct{}

type c18sOp struct {
	del      bool
	key, val []byte
}
type c18sStep struct {
	kind int // 0 Set, 1 SetSync, 2 batch Write, 3 batch WriteSync, 4 Delete, 5 DeleteSync
	ops  []c18sOp
}

type c18sRecDB struct {
	dbm.DB
	journal []c18sStep
	budget  int
}

func c18sNewRecDB() *c18sRecDB { return &c18sRecDB{DB: dbm.NewMemDB(), budget: -1} }
func c18scp(b []byte) []byte   { return append([]byte{}, b...) }

func (d *c18sRecDB) step(s c18sStep) error {
	if d.budget == 0 {
		panic(c18sCrash{})
	}
	if d.budget > 0 {
		d.budget--
	}
	d.journal = append(d.journal, s)
	return c18sApply(d.DB, s)
}
func c18sApply(db dbm.DB, s c18sStep) error {
	for _, o := range s.ops {
		var err error
		if o.del {
			err = db.Delete(o.key)
		} else {
			err = db.Set(o.key, o.val)
		}
		if err != nil {
			return err
		}
	}
	return nil
}
func (d *c18sRecDB) Set(k, v []byte) error {
	return d.step(c18sStep{0, []c18sOp{{false, c18scp(k), c18scp(v)}}})
}
func (d *c18sRecDB) SetSync(k, v []byte) error {
	return d.step(c18sStep{1, []c18sOp{{false, c18scp(k), c18scp(v)}}})
}
func (d *c18sRecDB) Delete(k []byte) error {
	return d.step(c18sStep{4, []c18sOp{{true, c18scp(k), nil}}})
}
func (d *c18sRecDB) DeleteSync(k []byte) error {
	return d.step(c18sStep{5, []c18sOp{{true, c18scp(k), nil}}})
}
func (d *c18sRecDB) NewBatch() dbm.Batch { return &c18sBatch{db: d} }

type c18sBatch struct {
	db     *c18sRecDB
	ops    []c18sOp
	closed bool
}

func (b *c18sBatch) Set(k, v []byte) error {
	if b.closed {
		return fmt.Errorf("batch closed")
	}
	b.ops = append(b.ops, c18sOp{false, c18scp(k), c18scp(v)})
	return nil
}
func (b *c18sBatch) Delete(k []byte) error {
	if b.closed {
		return fmt.Errorf("batch closed")
	}
	b.ops = append(b.ops, c18sOp{true, c18scp(k), nil})
	return nil
}
func (b *c18sBatch) write(kind int) error {
	if b.closed {
		return fmt.Errorf("batch closed")
	}
	err := b.db.step(c18sStep{kind, b.ops})
	b.closed = true
	return err
}
func (b *c18sBatch) Write() error     { return b.write(2) }
func (b *c18sBatch) WriteSync() error { return b.write(3) }
func (b *c18sBatch) Close() error     { b.closed = true; return nil }

// ---------------------------------------------------------------- projection to Coq terms

type c18sReg struct{ hashes map[string]int64 }

func (r *c18sReg) id(h []byte) int64 {
	k := hex.EncodeToString(h)
	if v, ok := r.hashes[k]; ok {
		return v
	}
	v := int64(len(r.hashes) + 1)
	r.hashes[k] = v
	return v
}

func c18sz(n int64) string {
	if n < 0 {
		return "(" + strconv.FormatInt(n, 10) + ")"
	}
	return strconv.FormatInt(n, 10)
}
func c18sOpt(present bool, v int64) string {
	if present {
		return "(Some " + c18sz(v) + ")"
	}
	return "None"
}

func (r *c18sReg) keyTerm(k []byte) (string, byte, error) {
	s := string(k)
	for _, p := range []struct {
		prefix, ctor string
		typ          byte
	}{{"validatorsKey:", "SKVals", 'V'}, {"consensusParamsKey:", "SKParams", 'P'}, {"abciResponsesKey:", "SKABCI", 'A'}} {
		if strings.HasPrefix(s, p.prefix) {
			h, err := strconv.ParseInt(s[len(p.prefix):], 10, 64)
			return "(" + p.ctor + " " + c18sz(h) + ")", p.typ, err
		}
	}
	if s == "stateKey" {
		return "SKState", 'S', nil
	}
	return "", 0, fmt.Errorf("unknown state store key %q", s)
}

func (r *c18sReg) valTerm(typ byte, v []byte) (string, error) {
	switch typ {
	case 'V':
		vi := new(tmstate.ValidatorsInfo)
		if err := vi.Unmarshal(v); err != nil {
			return "", err
		}
		if vi.ValidatorSet == nil {
			return "(SVVals " + c18sz(vi.LastHeightChanged) + " None)", nil
		}
		vs, err := types.ValidatorSetFromProto(vi.ValidatorSet)
		if err != nil {
			return "", err
		}
		return "(SVVals " + c18sz(vi.LastHeightChanged) + " " + c18sOpt(true, r.id(vs.Hash())) + ")", nil
	case 'P':
		pi := new(tmstate.ConsensusParamsInfo)
		if err := pi.Unmarshal(v); err != nil {
			return "", err
		}
		if pi.ConsensusParams.Equal(&tmproto.ConsensusParams{}) {
			return "(SVParams " + c18sz(pi.LastHeightChanged) + " None)", nil
		}
		return "(SVParams " + c18sz(pi.LastHeightChanged) + " " + c18sOpt(true, r.id(types.HashConsensusParams(pi.ConsensusParams))) + ")", nil
	case 'A':
		return "SVABCI", nil
	case 'S':
		sp := new(tmstate.State)
		if err := sp.Unmarshal(v); err != nil {
			return "", err
		}
		return "(SVState " + c18sz(sp.LastBlockHeight) + ")", nil
	}
	return "", fmt.Errorf("unknown value type")
}

func (r *c18sReg) stepTerm(s c18sStep) (string, error) {
	if s.kind == 0 || s.kind == 1 {
		k, typ, err := r.keyTerm(s.ops[0].key)
		if err != nil {
			return "", err
		}
		v, err := r.valTerm(typ, s.ops[0].val)
		if err != nil {
			return "", err
		}
		if s.kind == 0 {
			return "sS " + k + " " + v, nil
		}
		return "sY " + k + " " + v, nil
	}
	if s.kind >= 4 {
		k, _, err := r.keyTerm(s.ops[0].key)
		return "sB [sD " + k + "] " + vg.B(s.kind == 5), err
	}
	var ws []string
	for _, o := range s.ops {
		k, typ, err := r.keyTerm(o.key)
		if err != nil {
			return "", err
		}
		if o.del {
			ws = append(ws, "sD "+k)
		} else {
			v, err := r.valTerm(typ, o.val)
			if err != nil {
				return "", err
			}
			ws = append(ws, "sP "+k+" "+v)
		}
	}
	return "sB " + vg.L(ws) + " " + vg.B(s.kind == 3), nil
}

func (r *c18sReg) stateTerm(s State) string {
	return strings.Join([]string{c18sz(s.LastBlockHeight), c18sz(s.InitialHeight), c18sz(r.id(s.Validators.Hash())),
		c18sz(r.id(s.NextValidators.Hash())), c18sz(s.LastHeightValidatorsChanged),
		c18sz(r.id(types.HashConsensusParams(s.ConsensusParams))), c18sz(s.LastHeightConsensusParamsChanged)}, " ")
}

// c18sRLE run-length encodes a list of pairs as (count, a, b) triples.
func c18sRLE(xs [][2]int64) string {
	var out []string
	for i := 0; i < len(xs); {
		j := i
		for j < len(xs) && xs[j] == xs[i] {
			j++
		}
		out = append(out, vg.Tup(c18sz(int64(j-i)), c18sz(xs[i][0]), c18sz(xs[i][1])))
		i = j
	}
	return vg.L(out)
}

// ---------------------------------------------------------------- audit with the real loaders

// c18sAudit: first height of [lo, hi] that does not resolve (1: LoadValidators fails,
// 2: LoadConsensusParams fails or returns empty params), (0,0) if all resolve.
func c18sAudit(db dbm.DB, lo, hi int64) (fh, reason int64) {
	st := dbStore{db, StoreOptions{}}
	for h := lo; h <= hi; h++ {
		if r := c18sAuditHeight(st, h); r != 0 {
			return h, r
		}
	}
	return 0, 0
}

func c18sAuditHeight(st dbStore, h int64) (reason int64) {
	stage := int64(1)
	defer func() {
		if r := recover(); r != nil {
			reason = stage
		}
	}()
	vs, err := st.LoadValidators(h)
	if err != nil || vs == nil || vs.IsNilOrEmpty() {
		return 1
	}
	stage = 2
	p, err := st.LoadConsensusParams(h)
	if err != nil || p.Equal(&tmproto.ConsensusParams{}) {
		return 2
	}
	return 0
}

func (r *c18sReg) resolved(db dbm.DB, lo, hi int64) []string {
	st := dbStore{db, StoreOptions{}}
	var out []string
	for h := lo; h <= hi; h++ {
		v, p := int64(-1), int64(-1)
		func() {
			defer func() { _ = recover() }()
			if vs, err := st.LoadValidators(h); err == nil && vs != nil {
				v = r.id(vs.Hash())
			}
			if cp, err := st.LoadConsensusParams(h); err == nil && !cp.Equal(&tmproto.ConsensusParams{}) {
				p = r.id(types.HashConsensusParams(cp))
			}
		}()
		out = append(out, vg.Tup(c18sz(v), c18sz(p)))
	}
	return out
}

// ---------------------------------------------------------------- chain

type c18sChain struct {
	reg   *c18sReg
	r     *vg.Rand
	state State
	keys  []ed25519.PrivKey
	// truth[h - ih] = (validators hash id, params hash id) of height h
	ih    int64
	truth [][2]int64
}

func c18sNewChain(r *vg.Rand, ih int64, nvals int) *c18sChain {
	c := &c18sChain{reg: &c18sReg{hashes: map[string]int64{}}, r: r, ih: ih}
	var gvals []types.GenesisValidator
	for i := 0; i < nvals; i++ {
		sk := ed25519.GenPrivKeyFromSecret([]byte(fmt.Sprintf("c18-%d", i)))
		c.keys = append(c.keys, sk)
		gvals = append(gvals, types.GenesisValidator{Address: sk.PubKey().Address(), PubKey: sk.PubKey(), Power: int64(10 + i), Name: fmt.Sprintf("v%d", i)})
	}
	s, err := MakeGenesisState(&types.GenesisDoc{
		ChainID: "c18-state", GenesisTime: time.Unix(1600000000, 0).UTC(), InitialHeight: ih, Validators: gvals,
	})
	if err != nil {
		panic(err)
	}
	c.state = s
	c.record()
	return c
}

// record the truth for the height the current state is about to process
func (c *c18sChain) record() {
	c.truth = append(c.truth, [2]int64{c.reg.id(c.state.Validators.Hash()), c.reg.id(types.HashConsensusParams(c.state.ConsensusParams))})
}

// next applies block (LastBlockHeight+1 or InitialHeight) with optional changes through the real updateState.
func (c *c18sChain) next(valChange, paramChange bool) string {
	h := c.state.LastBlockHeight + 1
	if c.state.LastBlockHeight == 0 {
		h = c.state.InitialHeight
	}
	resp := &tmstate.ABCIResponses{BeginBlock: &abci.ResponseBeginBlock{}, EndBlock: &abci.ResponseEndBlock{}}
	descr := fmt.Sprintf("block %d", h)
	if valChange {
		i := c.r.Intn(len(c.keys))
		pk, err := cryptoenc.PubKeyToProto(c.keys[i].PubKey())
		if err != nil {
			panic(err)
		}
		pw := int64(5 + c.r.Intn(50))
		resp.EndBlock.ValidatorUpdates = []abci.ValidatorUpdate{{PubKey: pk, Power: pw}}
		descr += fmt.Sprintf(" (validator %d power:=%d)", i, pw)
	}
	if paramChange {
		mb := int64(2000000 + c.r.Intn(1000)*1000)
		resp.EndBlock.ConsensusParamUpdates = &abci.ConsensusParams{Block: &abci.BlockParams{MaxBytes: mb, MaxGas: -1}}
		descr += fmt.Sprintf(" (block.max_bytes:=%d)", mb)
	}
	vu, err := types.PB2TM.ValidatorUpdates(resp.EndBlock.ValidatorUpdates)
	if err != nil {
		panic(err)
	}
	hdr := &types.Header{Height: h, Time: time.Unix(1600000000+h, 0).UTC()}
	bid := types.BlockID{Hash: c18sSum([]byte(fmt.Sprintf("b%d", h))), PartSetHeader: types.PartSetHeader{Total: 1, Hash: c18sSum([]byte(fmt.Sprintf("p%d", h)))}}
	ns, err := updateState(c.state, bid, hdr, resp, vu)
	if err != nil {
		panic(err)
	}
	c.state = ns
	c.record()
	return descr
}

func c18sSum(b []byte) []byte { s := sha256.Sum256(b); return s[:] }

// ---------------------------------------------------------------- running operations

func c18sRun(db *c18sRecDB, crash int, f func() int64) (code, nsteps int64) {
	n0 := len(db.journal)
	db.budget = crash
	code = func() (code int64) {
		defer func() {
			if r := recover(); r != nil {
				if _, ok := r.(c18sCrash); ok {
					code = 99
				} else {
					code = 98
				}
			}
		}()
		return f()
	}()
	db.budget = -1
	return code, int64(len(db.journal) - n0)
}

func c18sPruneCode(err error) int64 {
	if err == nil {
		return 0
	}
	s := err.Error()
	switch {
	case strings.Contains(s, "must be greater than 0"):
		return 1
	case strings.Contains(s, "must be lower than to height"):
		return 2
	case strings.HasPrefix(s, "validators at height"):
		return 3
	case strings.HasPrefix(s, "consensus params at height"):
		return 4
	}
	return 5
}

type c18sHist struct {
	ch                *c18sChain
	db                *c18sRecDB
	st                Store
	opsT, resT, descr []string
	ranges            [][2]int64 // per journal prefix
	lo, hi            int64      // currently required range (hi from the last completed Save)
	quietUntil        int        // journal prefixes below this index are not audited (large case)
}

func c18sNewHist(r *vg.Rand, ih int64, nvals int) *c18sHist {
	h := &c18sHist{ch: c18sNewChain(r, ih, nvals), db: c18sNewRecDB()}
	h.st = NewStore(h.db, StoreOptions{})
	h.lo, h.hi = 1, 0
	h.ranges = append(h.ranges, [2]int64{1, 0})
	return h
}

// fill the per-prefix ranges for the steps just journalled
func (h *c18sHist) fill(lo int64) {
	for len(h.ranges) < len(h.db.journal)+1 {
		k := len(h.ranges) - 1 // step index just applied
		s := h.db.journal[k]
		if s.kind == 1 && string(s.ops[0].key) == "stateKey" {
			sp := new(tmstate.State)
			if err := sp.Unmarshal(s.ops[0].val); err != nil {
				panic(err)
			}
			if sp.LastBlockHeight == 0 {
				h.hi = sp.InitialHeight
			} else {
				h.hi = sp.LastBlockHeight + 1
			}
		}
		h.ranges = append(h.ranges, [2]int64{lo, h.hi})
	}
}

func (h *c18sHist) save(crash int) int64 {
	s := h.ch.state
	code, n := c18sRun(h.db, crash, func() int64 {
		if err := h.st.Save(s); err != nil {
			return 10
		}
		return 0
	})
	if h.lo == 1 && h.hi == 0 {
		h.lo = h.ch.ih
	}
	h.fill(h.lo)
	h.opsT = append(h.opsT, "TSSave "+h.ch.reg.stateTerm(s)+" "+c18sz(int64(crash)))
	h.resT = append(h.resT, vg.Tup(c18sz(code), c18sz(n)))
	h.descr = append(h.descr, fmt.Sprintf("Save(state LastBlockHeight=%d lhvc=%d lhpc=%d)%s -> %d", s.LastBlockHeight, s.LastHeightValidatorsChanged, s.LastHeightConsensusParamsChanged, c18sCrashStr(crash), code))
	return code
}

func (h *c18sHist) prune(from, to int64, crash int, moveBase bool) int64 {
	code, n := c18sRun(h.db, crash, func() int64 { return c18sPruneCode(h.st.PruneStates(from, to)) })
	if moveBase {
		h.lo = to
	}
	h.fill(h.lo)
	h.opsT = append(h.opsT, "TSPrune "+c18sz(from)+" "+c18sz(to)+" "+c18sz(int64(crash)))
	h.resT = append(h.resT, vg.Tup(c18sz(code), c18sz(n)))
	h.descr = append(h.descr, fmt.Sprintf("PruneStates(%d, %d)%s -> %d", from, to, c18sCrashStr(crash), code))
	return code
}

func c18sCrashStr(crash int) string {
	if crash < 0 {
		return ""
	}
	return fmt.Sprintf(" [process dies after %d write steps]", crash)
}

func (h *c18sHist) finish(t *testing.T, cs *vg.Cases, id int, kind string, nontrivial bool) {
	reg := h.ch.reg
	var stepsT []string
	for _, s := range h.db.journal[h.quietUntil:] {
		st, err := reg.stepTerm(s)
		if err != nil {
			t.Fatalf("case %d: %v", id, err)
		}
		stepsT = append(stepsT, st)
	}
	// audits after every prefix
	db := dbm.NewMemDB()
	var audT, rngT [][2]int64
	fail := ""
	for k := 0; ; k++ {
		rg := h.ranges[k]
		if k < h.quietUntil {
			rg = [2]int64{1, 0}
		}
		fh, fr := c18sAudit(db, rg[0], rg[1])
		audT = append(audT, [2]int64{fh, fr})
		rngT = append(rngT, rg)
		if fr != 0 && fail == "" {
			what := "LoadValidators"
			if fr == 2 {
				what = "LoadConsensusParams"
			}
			fail = fmt.Sprintf(" RESOLUTION FAILS on the database after the first %d write steps: %s(%d) fails although the block store range is [%d, %d]", k, what, fh, rg[0], rg[1])
		}
		if k == len(h.db.journal) {
			break
		}
		if err := c18sApply(db, h.db.journal[k]); err != nil {
			t.Fatal(err)
		}
	}
	last := h.ranges[len(h.ranges)-1]
	resolved := reg.resolved(h.db.DB, last[0], last[1])
	var truthT []string
	for _, tr := range h.ch.truth {
		truthT = append(truthT, vg.Tup(c18sz(tr[0]), c18sz(tr[1])))
	}
	// final dump
	it, err := h.db.DB.Iterator(nil, nil)
	if err != nil {
		t.Fatal(err)
	}
	var final []string
	for ; it.Valid(); it.Next() {
		k, typ, err := reg.keyTerm(it.Key())
		if err != nil {
			t.Fatal(err)
		}
		v, err := reg.valTerm(typ, it.Value())
		if err != nil {
			t.Fatal(err)
		}
		final = append(final, "("+k+", "+v+")")
	}
	it.Close()
	term := "CState " + vg.L(h.opsT) + "\n  " + vg.L(h.resT) + "\n  " + c18sz(int64(h.quietUntil)) + " " + vg.L(stepsT) + "\n  " + c18sRLE(rngT) + "\n  " + c18sRLE(audT) +
		"\n  " + c18sz(h.ch.ih) + " " + vg.L(truthT) + " " + vg.L(resolved) + "\n  " + vg.L(final)
	d := strings.Join(h.descr, "; ")
	if len(d) > 3000 {
		d = d[:1200] + " … " + d[len(d)-1500:]
	}
	cs.Add(id, kind, nontrivial, term,
		fmt.Sprintf("state.Store on memdb, genesis InitialHeight=%d, %d validators; %d write steps, resolution of the block-store range checked after each; ops: %s.%s",
			h.ch.ih, len(h.ch.keys), len(h.db.journal), d, fail))
	cs.Count("write-prefixes audited", len(audT))
}

func TestVerifC18State(t *testing.T) {
	root := vg.NewRand(vg.Seed() ^ 0xc185)
	cs := vg.NewCases("C18", "c18_state", "TM.C18.Exec")
	n := vg.Scale(50, 1500)
	for k := 0; k < n; k++ {
		id := cs.NextID()
		if !cs.Want(id) {
			continue
		}
		r := root.Fork(uint64(k))
		ih := int64(1)
		switch r.Intn(4) {
		case 0:
			ih = int64(2 + r.Intn(30))
		case 1:
			ih = valSetCheckpointInterval - int64(2+r.Intn(12)) // the chain crosses a checkpoint height
		}
		h := c18sNewHist(r, ih, 2+r.Intn(3))
		withCrashes := r.Chance(50)
		nblocks := 4 + r.Intn(vg.Scale(22, 40))
		nPrunes, nCrash, nChanges := 0, 0, 0
		crashOf := func() int {
			if withCrashes && r.Chance(20) {
				nCrash++
				return r.Intn(5)
			}
			return -1
		}
		// genesis state
		for h.save(crashOf()) == 99 {
		}
		for b := 0; b < nblocks; b++ {
			vc, pc := r.Chance(20), r.Chance(15)
			if vc || pc {
				nChanges++
			}
			h.descr = append(h.descr, h.ch.next(vc, pc))
			for h.save(crashOf()) == 99 { // the node restarts and replays the block
			}
			last := h.ch.state.LastBlockHeight
			if r.Chance(25) && last > h.lo {
				nPrunes++
				switch r.Intn(8) {
				case 0: // refused calls
					h.prune(0, last, -1, false)
					h.prune(last, last, -1, false)
					h.prune(h.lo, last+5, -1, false)
				case 1: // PruneBlocks done, crash before PruneStates: base moves, states stay
					to := h.lo + 1 + r.Int63n(last-h.lo)
					h.lo = to
					h.fill(h.lo)
				default:
					to := h.lo + 1 + r.Int63n(last-h.lo)
					h.prune(h.lo, to, crashOf(), true)
				}
			}
		}
		kind := "state"
		if nCrash > 0 {
			kind += "+crash"
		}
		if nPrunes > 0 {
			kind += "+prune"
		}
		if ih > 1000 {
			kind += "+checkpoint"
		} else if ih > 1 {
			kind += "+offset"
		}
		h.finish(t, cs, id, kind, nPrunes > 0 && nChanges > 0)
	}
	if err := cs.Write(); err != nil {
		t.Fatal(err)
	}
}

// TestVerifC18StateBig: PruneStates over more than one batch (1000 heights), with and without a
// crash between the batches, on a chain whose last validator change and last parameter change
// lie below the pruned range (the records LastHeightChanged points to must survive).
func TestVerifC18StateBig(t *testing.T) {
	root := vg.NewRand(vg.Seed() ^ 0xc185b16)
	cs := vg.NewCases("C18", "c18_state_big", "TM.C18.Exec")
	oldShard := vg.ShardSize
	vg.ShardSize = 1
	defer func() { vg.ShardSize = oldShard }()
	type big struct {
		nblocks int
		to      int64
		crash   int
	}
	cases := []big{{1060, 1050, -1}, {1060, 1040, 1}}
	if vg.Thorough() {
		cases = append(cases, big{2300, 2250, 2}, big{1500, 1001, -1})
	}
	for k, bc := range cases {
		id := cs.NextID()
		if !cs.Want(id) {
			continue
		}
		h := c18sNewHist(root.Fork(uint64(k)), 1, 3)
		h.save(-1)
		for b := 0; b < bc.nblocks; b++ {
			h.ch.next(b == 3 || b == 20, b == 5)
			h.save(-1)
		}
		h.descr = []string{fmt.Sprintf("genesis, then %d blocks saved (validator changes in blocks 4 and 21, parameter change in block 6)", bc.nblocks)}
		h.quietUntil = len(h.db.journal)
		if h.prune(1, bc.to, bc.crash, true) == 99 {
			h.prune(1, bc.to, -1, true)
		}
		h.finish(t, cs, id, "multi-batch prune", true)
	}
	if err := cs.Write(); err != nil {
		t.Fatal(err)
	}
}
