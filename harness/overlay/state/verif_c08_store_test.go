//go:build verif

package state

// C08 correspondence harness for state/store.go (injected with `go test -overlay`): a real
// state.Store (MemDB) is driven through blocks with validator updates (updateState + Save) and
// PruneStates; at the end LoadValidators(h) is asked for every height and compared (in Coq) with
// the set recorded when h became known.

import (
	"bytes"
	"fmt"
	"testing"
	"time"

	dbm "github.com/tendermint/tm-db"

	abci "github.com/tendermint/tendermint/abci/types"
	"github.com/tendermint/tendermint/crypto/ed25519"
	vg "github.com/tendermint/tendermint/internal/verifgen"
	tmstate "github.com/tendermint/tendermint/proto/tendermint/state"
	"github.com/tendermint/tendermint/types"
)

type c08Key struct {
	pub  ed25519.PubKey
	addr []byte
}

func c08Keys(r *vg.Rand, n int) []c08Key {
	ks := make([]c08Key, n)
	for i := range ks {
		pk := ed25519.GenPrivKeyFromSecret(r.Bytes(16)).PubKey().(ed25519.PubKey)
		ks[i] = c08Key{pub: pk, addr: pk.Address()}
	}
	return ks
}

func c08Idx(ks []c08Key, addr []byte) uint64 {
	for i, k := range ks {
		if bytes.Equal(k.addr, addr) {
			return uint64(i)
		}
	}
	return 99999
}

func c08IVal(ks []c08Key, v *types.Validator) string {
	return vg.Tup(vg.N(c08Idx(ks, v.Address)), vg.Z(v.VotingPower), vg.Z(v.ProposerPriority))
}

// (validators, proposer) of a set, validators named by their index in the key table
func c08ISet(ks []c08Key, vs *types.ValidatorSet) string {
	xs := make([]string, len(vs.Validators))
	for i, v := range vs.Validators {
		xs[i] = c08IVal(ks, v)
	}
	p := vg.Tup(vg.N(99999), vg.Z(0), vg.Z(0))
	if vs.Proposer != nil {
		p = c08IVal(ks, vs.Proposer)
	}
	return vg.Tup(vg.L(xs), p)
}

func c08SetDescr(ks []c08Key, vs *types.ValidatorSet) string {
	s := "["
	for i, v := range vs.Validators {
		if i > 0 {
			s += " "
		}
		s += fmt.Sprintf("v%d:%d/%d", c08Idx(ks, v.Address), v.VotingPower, v.ProposerPriority)
	}
	s += "]"
	if vs.Proposer != nil {
		s += fmt.Sprintf(" proposer=v%d/%d", c08Idx(ks, vs.Proposer.Address), vs.Proposer.ProposerPriority)
	}
	return s
}

func c08StorePower(r *vg.Rand) int64 {
	switch r.Intn(8) {
	case 0:
		return types.MaxTotalVotingPower / int64(8+r.Intn(8))
	case 1, 2:
		return 1 + r.Int63n(1000000)
	case 3:
		return 1
	default:
		return 1 + r.Int63n(20)
	}
}

func c08UpdateState(st State, h int64, ups []*types.Validator) (ns State, code uint64) {
	defer func() {
		if r := recover(); r != nil {
			ns, code = st, 9
		}
	}()
	header := &types.Header{Height: h, Time: time.Unix(1700000000+h, 0).UTC()}
	resp := &tmstate.ABCIResponses{BeginBlock: &abci.ResponseBeginBlock{}, EndBlock: &abci.ResponseEndBlock{}}
	ns, err := updateState(st, types.BlockID{}, header, resp, ups)
	if err != nil {
		return st, 2
	}
	return ns, 0
}

func c08Load(store Store, h int64) (vs *types.ValidatorSet, code uint64) {
	defer func() {
		if r := recover(); r != nil {
			vs, code = nil, 9
		}
	}()
	vs, err := store.LoadValidators(h)
	if err != nil {
		if _, ok := err.(ErrNoValSetForHeight); ok {
			return nil, 1
		}
		return nil, 2
	}
	return vs, 0
}

func c08Prune(store Store, from, to int64) (code uint64) {
	defer func() {
		if r := recover(); r != nil {
			code = 9
		}
	}()
	if err := store.PruneStates(from, to); err != nil {
		return 2
	}
	return 0
}

func TestVerifC08Store(t *testing.T) {
	root := vg.NewRand(vg.Seed() ^ 0xc08d)
	cs := vg.NewCases("C08", "c08_store", "TM.C08.Exec")
	n := vg.Scale(40, 3000)
	for k := 0; k < n; k++ {
		id := cs.NextID()
		if !cs.Want(id) {
			continue
		}
		c08StoreCase(t, cs, id, root.Fork(uint64(k)), k, false)
	}
	if err := cs.Write(); err != nil {
		t.Fatal(err)
	}
}

// Long histories: runs of hundreds of heights WITHOUT a validator change (one SAdvance op = that
// many empty blocks), so that LoadValidators has to replay hundreds of proposer-priority
// increments from the last stored set — also across the checkpoint the store writes every
// valSetCheckpointInterval heights — and PruneStates has to rebuild the set of a height far
// from the last change.  The sets of all heights are recorded while the chain runs; the case
// carries (and LoadValidators is asked for) a sample of them: around every op, around the
// checkpoint, at distances around 128/256/384/512 from the places where a set was stored, the
// far end, and random heights in between.
func TestVerifC08StoreLong(t *testing.T) {
	root := vg.NewRand(vg.Seed() ^ 0xc08e)
	cs := vg.NewCases("C08", "c08_storelong", "TM.C08.Exec")
	old := vg.ShardSize
	vg.ShardSize = 1 // a long history costs seconds in Coq: one file each, evaluated in parallel
	defer func() { vg.ShardSize = old }()
	n := vg.Scale(8, 200)
	for k := 0; k < n; k++ {
		id := cs.NextID()
		if !cs.Want(id) {
			continue
		}
		c08StoreCase(t, cs, id, root.Fork(uint64(k)), k, true)
	}
	if err := cs.Write(); err != nil {
		t.Fatal(err)
	}
}

func c08StoreCase(t *testing.T, cs *vg.Cases, id int, r *vg.Rand, k int, long bool) {
	{
		ks := c08Keys(r, 6)
		// initial height: 1, or shortly before a multiple of the checkpoint interval so that the
		// history straddles a checkpoint
		initial := int64(1)
		switch r.Intn(4) {
		case 0:
			initial = 1
		case 1:
			initial = int64(1+r.Intn(3))*valSetCheckpointInterval - int64(1+r.Intn(12))
		case 2:
			initial = valSetCheckpointInterval - int64(r.Intn(3))
		default:
			initial = 2 + r.Int63n(50)
		}
		nGen := 1 + r.Intn(4)
		below := 0 // long histories: distance of InitialHeight below a checkpoint height
		if long {
			// every third long history starts 130..330 heights below a checkpoint height
			switch k % 3 {
			case 0:
				below = 130 + r.Intn(130)
				initial = int64(1+r.Intn(2))*valSetCheckpointInterval - int64(below)
			case 1:
				initial = 1
			}
			nGen = 2 + r.Intn(3)
		}
		// F1 class (directed): genesis powers (1, 100); a third validator with power 100 joins;
		// two blocks later one of the large validators shrinks to 10; then blocks without
		// updates: a few heights later RescalePriorities fires between two heights
		directed := k%4 == 0 && !long
		if directed {
			nGen = 2
		}
		gen := &types.GenesisDoc{ChainID: "c08", InitialHeight: initial, GenesisTime: time.Unix(1700000000, 0).UTC()}
		var genT []string
		for i := 0; i < nGen; i++ {
			p := c08StorePower(r)
			if directed {
				p = []int64{1, 100 + r.Int63n(3)}[i]
			}
			if long && r.Chance(70) { // small distinct powers: a rotation with a long period
				p = 1 + int64(i) + r.Int63n(12)
			}
			gen.Validators = append(gen.Validators, types.GenesisValidator{Address: ks[i].addr, PubKey: ks[i].pub, Power: p})
			genT = append(genT, vg.Tup(vg.N(uint64(i)), vg.Z(p)))
		}
		st, err := MakeGenesisState(gen)
		if err != nil {
			t.Fatal(err)
		}
		db := dbm.NewMemDB()
		store := NewStore(db, StoreOptions{})
		if err := store.Save(st); err != nil {
			t.Fatal(err)
		}
		type recT struct {
			h  int64
			vs *types.ValidatorSet
		}
		recs := []recT{{initial, st.Validators.Copy()}, {initial + 1, st.NextValidators.Copy()}}
		var opsT, resT []string
		descr := fmt.Sprintf("InitialHeight=%d genesis(index,power)=%v; ops:", initial, genT)
		nOps := 8 + r.Intn(vg.Scale(22, 60))
		// long histories: op index -> number of empty blocks to advance by
		advance := map[int]int{}
		if long {
			nOps = 5 + r.Intn(8)
			runLen := func() int {
				switch r.Intn(6) {
				case 0: // around the powers of two of a narrow counter
					return []int{127, 128, 129, 255, 256, 257, 383, 384, 385}[r.Intn(9)]
				case 1:
					return 1 + r.Intn(126)
				default:
					return 130 + r.Intn(vg.Scale(280, 900))
				}
			}
			first := r.Intn(3)
			advance[first] = 130 + r.Intn(vg.Scale(280, 900))
			if below > 0 { // at least 128 heights on either side of the checkpoint
				advance[first] = below + 128 + r.Intn(100)
			}
			if r.Chance(60) {
				advance[first+1+r.Intn(nOps-first-1)] = runLen()
			}
		}
		base := initial
		marks := []int64{initial} // long histories: the heights around which the sets are observed
		for o := 0; o < nOps; o++ {
			tip := st.LastBlockHeight
			marks = append(marks, tip+2)
			if nAdv := advance[o]; nAdv > 0 {
				code, done := uint64(0), 0
				for ; done < nAdv && code == 0; done++ {
					h := st.LastBlockHeight + 1
					if st.LastBlockHeight == 0 {
						h = st.InitialHeight
					}
					var ns State
					ns, code = c08UpdateState(st, h, nil)
					if code == 0 {
						if err := store.Save(ns); err != nil {
							code = 2
						} else {
							st = ns
							recs = append(recs, recT{st.LastBlockHeight + 2, st.NextValidators.Copy()})
						}
					}
				}
				opsT = append(opsT, vg.App("SAdvance", vg.N(uint64(nAdv))))
				resT = append(resT, vg.N(code))
				descr += fmt.Sprintf(" %dxBlock(no updates, up to height %d)=%d", nAdv, st.LastBlockHeight, code)
				continue
			}
			if tip > 0 && tip+1 > base && !(directed && o < 10) && r.Chance(12) { // prune
				// PruneStates also needs the consensus params of `to`, which Save has written
				// up to tip+1: retain heights are chosen in [base+1, tip+1]
				from := base
				to := base + 1 + r.Int63n(tip+1-base)
				switch r.Intn(8) {
				case 0:
					from = to // from >= to: error
				case 1:
					to = tip + 3 + r.Int63n(3) // beyond the stored heights: error
				case 2:
					from = base + r.Int63n(3)
				}
				code := c08Prune(store, from, to)
				if code == 0 && to > base {
					base = to
				}
				opsT = append(opsT, vg.App("SPrune", vg.Z(from), vg.Z(to)))
				resT = append(resT, vg.N(code))
				descr += fmt.Sprintf(" PruneStates(%d,%d)=%d", from, to, code)
				marks = append(marks, from, to)
				continue
			}
			// a block
			var ups []*types.Validator
			var upsT []string
			cur := st.NextValidators
			addUp := func(i int, p int64) {
				ups = append(ups, types.NewValidator(ks[i].pub, p))
				upsT = append(upsT, vg.Tup(vg.N(uint64(i)), vg.Z(p)))
			}
			switch d := r.Intn(20); {
			case directed && o == 0:
				addUp(2, 100)
			case directed && o == 2:
				addUp(1, 10)
			case directed && o < 10: // no updates
			case d < 12: // no updates
			case d < 15:
				addUp(r.Intn(len(ks)), c08StorePower(r))
			case d < 17:
				addUp(int(c08Idx(ks, cur.Validators[r.Intn(cur.Size())].Address)), 0)
				if r.Bool() {
					j := r.Intn(len(ks))
					if !cur.HasAddress(ks[j].addr) {
						addUp(j, c08StorePower(r))
					}
				}
			case d == 17:
				i := r.Intn(len(ks))
				addUp(i, c08StorePower(r))
				if r.Bool() {
					addUp(i, 0) // duplicate: the block's updates are refused
				} else {
					addUp((i+1)%len(ks), -1)
				}
			default:
				for _, i := range r.Perm(len(ks))[:2+r.Intn(2)] {
					p := c08StorePower(r)
					if cur.HasAddress(ks[i].addr) && r.Chance(40) {
						p = 0
					}
					addUp(i, p)
				}
			}
			h := st.LastBlockHeight + 1
			if st.LastBlockHeight == 0 {
				h = st.InitialHeight
			}
			ns, code := c08UpdateState(st, h, ups)
			if code == 0 {
				if err := store.Save(ns); err != nil {
					code = 2
				} else {
					st = ns
					recs = append(recs, recT{st.LastBlockHeight + 2, st.NextValidators.Copy()})
				}
			}
			opsT = append(opsT, vg.App("SBlock", vg.L(upsT)))
			resT = append(resT, vg.N(code))
			descr += fmt.Sprintf(" Block@%d(updates=%v)=%d", h, upsT, code)
		}
		var recT2, loadT []string
		descr += "; recorded:"
		recDescr := map[int64]string{}
		top := recs[len(recs)-1].h
		observed := map[int64]bool{}
		if long {
			near := func(m int64) {
				for e := int64(-2); e <= 2; e++ {
					observed[m+e] = true
				}
			}
			marks = append(marks, top, base)
			for _, m := range marks {
				near(m)
				for _, d := range []int64{128, 256, 384, 512} {
					if m+d <= top {
						near(m + d)
					}
				}
			}
			for c := initial / valSetCheckpointInterval; c*valSetCheckpointInterval <= top; c++ {
				if c > 0 {
					near(c * valSetCheckpointInterval)
				}
			}
			for i := 0; i < 16; i++ {
				observed[initial+r.Int63n(top-initial+1)] = true
			}
		}
		for _, rc := range recs {
			if long && !observed[rc.h] {
				continue
			}
			recT2 = append(recT2, vg.Tup(vg.Z(rc.h), c08ISet(ks, rc.vs)))
			recDescr[rc.h] = c08SetDescr(ks, rc.vs)
			if rc.h >= base && !long {
				descr += fmt.Sprintf(" h=%d:%s", rc.h, c08SetDescr(ks, rc.vs))
			}
		}
		if long {
			descr += fmt.Sprintf(" (%d heights observed out of %d; only those whose LoadValidators answer differs are listed below, as h=<height>:<loaded> WAS <recorded>)", len(recT2), len(recs))
		}
		descr += "; LoadValidators:"
		for h := initial - 1; h <= top+1; h++ {
			if h < 0 || (long && !observed[h]) {
				continue
			}
			vs, code := c08Load(store, h)
			if vs != nil {
				loadT = append(loadT, vg.Tup(vg.Z(h), vg.N(code), "(Some "+c08ISet(ks, vs)+")"))
				if d := c08SetDescr(ks, vs); h >= base && !long {
					descr += fmt.Sprintf(" h=%d:%s", h, d)
				} else if h >= base && d != recDescr[h] {
					descr += fmt.Sprintf(" h=%d:%s WAS %s", h, d, recDescr[h])
				}
			} else {
				loadT = append(loadT, vg.Tup(vg.Z(h), vg.N(code), "None"))
				if h >= base {
					descr += fmt.Sprintf(" h=%d:err%d", h, code)
				}
			}
		}
		var addrT [][]byte
		for _, kk := range ks {
			addrT = append(addrT, kk.addr)
		}
		kind := "store"
		if directed {
			kind = "store/dominant-leaves"
		}
		if long {
			kind = "store/long-run-without-changes"
			if initial > 1000 && initial < top-1 && (top-1)/valSetCheckpointInterval > initial/valSetCheckpointInterval {
				kind += "/across-checkpoint"
			}
		}
		ctor := "CStore"
		if long {
			ctor = "CStoreSampled"
		}
		cs.Add(id, kind, len(recs) > 4,
			vg.App(ctor, vg.HxL(addrT), vg.Z(initial), vg.L(genT), vg.L(opsT), vg.L(resT), vg.L(recT2), vg.L(loadT)),
			descr)
	}
}
