//go:build verif

package kv

// C19 (search half) correspondence harness for state/txindex/kv/kv.go and
// state/indexer/query_range.go (injected with `go test -overlay`).
//
// One case = one history of AddBatch / Index calls on a fresh NewTxIndex(MemDB) plus several
// queries. For every query the harness records what TxIndex.Search answered and what the real
// query.Matches says about the event map of every transaction of the history (the brute-force
// reference); the Coq side (coq/C19/ExecSearch.v, scheck) evaluates the monitors on these
// answers and compares them with the model.

import (
	"context"
	"fmt"
	"sort"
	"strings"
	"testing"
	"time"

	db "github.com/tendermint/tm-db"

	abci "github.com/tendermint/tendermint/abci/types"
	vg "github.com/tendermint/tendermint/internal/verifgen"
	"github.com/tendermint/tendermint/libs/pubsub/query"
	"github.com/tendermint/tendermint/state/txindex"
	"github.com/tendermint/tendermint/types"
)

type c19Attr struct {
	k, v string
	idx  bool
}
type c19Event struct {
	typ   string
	attrs []c19Attr
}
type c19Tx struct {
	tok    string // short token standing for the hash in the Coq case
	bytes  []byte
	height int64
	index  uint32
	code   uint32
	events []c19Event
}
type c19Op struct {
	batch bool // AddBatch(txs) or Index(txs[0])
	txs   []*c19Tx
}

const (
	c19Le = iota
	c19Ge
	c19Lt
	c19Gt
	c19Eq
	c19Contains
	c19Exists
)

var c19OpText = []string{"<=", ">=", "<", ">", "=", "CONTAINS", "EXISTS"}
var c19OpCoq = []string{"OpLe", "OpGe", "OpLt", "OpGt", "OpEq", "OpContains", "OpExists"}

const (
	c19Str = iota
	c19Int
	c19Time // TIME <RFC3339>
	c19Date // DATE <YYYY-MM-DD>
	c19None
	c19Hash // string operand that is the hash of tx `n` (or of unknown bytes when n < 0)
)

type c19Cond struct {
	key  string
	op   int
	kind int
	s    string
	n    int64
}

func (t *c19Tx) hash() []byte { return types.Tx(t.bytes).Hash() }

func (t *c19Tx) result() *abci.TxResult {
	var evs []abci.Event
	for _, e := range t.events {
		ev := abci.Event{Type: e.typ}
		for _, a := range e.attrs {
			ev.Attributes = append(ev.Attributes, abci.EventAttribute{Key: []byte(a.k), Value: []byte(a.v), Index: a.idx})
		}
		evs = append(evs, ev)
	}
	return &abci.TxResult{Height: t.height, Index: t.index, Tx: t.bytes,
		Result: abci.ResponseDeliverTx{Code: t.code, Events: evs}}
}

// the event map the query matcher is applied to: what the indexer is asked to index
func (t *c19Tx) eventMap() map[string][]string {
	m := map[string][]string{}
	for _, e := range t.events {
		if len(e.typ) == 0 {
			continue
		}
		for _, a := range e.attrs {
			if len(a.k) == 0 || !a.idx {
				continue
			}
			tag := e.typ + "." + a.k
			m[tag] = append(m[tag], a.v)
		}
	}
	m[types.TxHeightKey] = append(m[types.TxHeightKey], fmt.Sprintf("%d", t.height))
	m[types.TxHashKey] = append(m[types.TxHashKey], fmt.Sprintf("%X", t.hash()))
	return m
}

func c19S(s string) string {
	if strings.ContainsAny(s, "\"") {
		panic("c19: double quote in a generated string")
	}
	return `"` + s + `"`
}

func (t *c19Tx) coq() string {
	var evs []string
	for _, e := range t.events {
		var as []string
		for _, a := range e.attrs {
			as = append(as, vg.Tup(c19S(a.k), c19S(a.v), vg.B(a.idx)))
		}
		evs = append(evs, vg.Tup(c19S(e.typ), vg.L(as)))
	}
	return vg.Tup(c19S(t.tok), vg.Z(t.height), vg.Z(int64(t.index)), vg.Z(int64(t.code)), vg.L(evs))
}

func (t *c19Tx) text() string {
	var evs []string
	for _, e := range t.events {
		var as []string
		for _, a := range e.attrs {
			as = append(as, fmt.Sprintf("%q=%q idx=%v", a.k, a.v, a.idx))
		}
		evs = append(evs, fmt.Sprintf("%q{%s}", e.typ, strings.Join(as, ", ")))
	}
	return fmt.Sprintf("tx %s bytes=%q h=%d i=%d code=%d events=[%s]", t.tok, t.bytes, t.height, t.index, t.code, strings.Join(evs, " "))
}

func c19UnknownBytes() []byte { return []byte("c19-never-indexed") }

func (c c19Cond) text(all []*c19Tx) string {
	switch c.kind {
	case c19None:
		return c.key + " EXISTS"
	case c19Str:
		return fmt.Sprintf("%s %s '%s'", c.key, c19OpText[c.op], c.s)
	case c19Int:
		return fmt.Sprintf("%s %s %d", c.key, c19OpText[c.op], c.n)
	case c19Time:
		return fmt.Sprintf("%s %s TIME %s", c.key, c19OpText[c.op], c.s)
	case c19Date:
		return fmt.Sprintf("%s %s DATE %s", c.key, c19OpText[c.op], c.s)
	case c19Hash:
		b := c19UnknownBytes()
		if c.n >= 0 {
			b = all[c.n].bytes
		}
		return fmt.Sprintf("%s %s '%X'", c.key, c19OpText[c.op], types.Tx(b).Hash())
	}
	panic("c19: kind")
}

func (c c19Cond) coq(all []*c19Tx) string {
	arg := "ONone"
	switch c.kind {
	case c19Str:
		arg = vg.App("OStr", c19S(c.s))
	case c19Int:
		arg = vg.App("OInt", vg.Z(c.n))
	case c19Time:
		tm, err := time.Parse(time.RFC3339, c.s)
		if err != nil {
			panic(err)
		}
		arg = vg.App("OTime", vg.Z(tm.Unix()))
	case c19Date:
		tm, err := time.Parse("2006-01-02", c.s)
		if err != nil {
			panic(err)
		}
		arg = vg.App("OTime", vg.Z(tm.Unix()))
	case c19Hash:
		tok := "zz"
		if c.n >= 0 {
			tok = all[c.n].tok
		}
		arg = vg.App("OStr", c19S(tok))
	}
	return vg.Tup(c19S(c.key), c19OpCoq[c.op], arg)
}

// c19Run executes one case on the real indexer and returns (Coq term, description, nontrivial).
func c19Run(ops []c19Op, queries [][]c19Cond) (string, string, bool) {
	var all []*c19Tx
	for _, o := range ops {
		all = append(all, o.txs...)
	}
	tokOf := map[string]string{} // equal bytes (equal hashes) get equal tokens
	for i, t := range all {
		if tok, ok := tokOf[string(t.bytes)]; ok {
			t.tok = tok
			continue
		}
		t.tok = fmt.Sprintf("%d", i)
		tokOf[string(t.bytes)] = t.tok
	}
	txi := NewTxIndex(db.NewMemDB())
	var opsT, descr []string
	for _, o := range ops {
		var ts []string
		for _, t := range o.txs {
			ts = append(ts, t.coq())
		}
		if o.batch {
			b := &txindex.Batch{}
			for _, t := range o.txs {
				b.Ops = append(b.Ops, t.result())
			}
			if err := txi.AddBatch(b); err != nil {
				panic(err)
			}
			opsT = append(opsT, vg.App("SBatch", vg.L(ts)))
			descr = append(descr, "AddBatch:")
		} else {
			if err := txi.Index(o.txs[0].result()); err != nil {
				panic(err)
			}
			opsT = append(opsT, vg.App("SIndex", ts[0]))
			descr = append(descr, "Index:")
		}
		for _, t := range o.txs {
			descr = append(descr, "  "+t.text())
		}
	}
	var gets []string
	for _, t := range all {
		r, err := txi.Get(t.hash())
		if err != nil || r == nil {
			gets = append(gets, "None")
			continue
		}
		gets = append(gets, vg.Opt(true, vg.Tup(vg.Z(r.Height), vg.Z(int64(r.Index)), vg.Z(int64(r.Result.Code)))))
	}
	nontrivial := false
	var qsT []string
	for _, conds := range queries {
		var parts, condsT []string
		for _, c := range conds {
			parts = append(parts, c.text(all))
			condsT = append(condsT, c.coq(all))
		}
		text := strings.Join(parts, " AND ")
		q, err := query.New(text)
		if err != nil {
			panic(fmt.Sprintf("c19: generated query %q does not parse: %v", text, err))
		}
		// the implementation's answer
		ir := "IPanic"
		func() {
			defer func() { recover() }()
			res, err := txi.Search(context.Background(), q)
			if err != nil {
				ir = "IErr"
				return
			}
			var ids []string
			for _, r := range res {
				switch {
				case r == nil:
					ids = append(ids, "nil")
				default:
					if tok, ok := tokOf[string(r.Tx)]; ok {
						ids = append(ids, tok)
					} else {
						ids = append(ids, "?")
					}
				}
			}
			sort.Strings(ids)
			if len(ids) > 0 {
				nontrivial = true
			}
			for i := range ids {
				ids[i] = c19S(ids[i])
			}
			ir = vg.App("IOk", vg.L(ids))
		}()
		// the reference: the real matcher on every transaction of the history
		var mv []string
		for _, t := range all {
			code := uint64(2)
			func() {
				defer func() { recover() }()
				ok, err := q.Matches(t.eventMap())
				switch {
				case err != nil:
					code = 2
				case ok:
					code = 1
				default:
					code = 0
				}
			}()
			mv = append(mv, vg.N(code))
		}
		qsT = append(qsT, vg.Tup(vg.L(condsT), ir, vg.L(mv)))
		descr = append(descr, fmt.Sprintf("Search(%q) -> %s ; Matches per tx -> %s", text, ir, vg.L(mv)))
	}
	return vg.App("SCase", vg.L(opsT), vg.L(gets), vg.L(qsT)), strings.Join(descr, "\n"), nontrivial
}

// ---------------------------------------------------------------- generation

var c19Types = []string{"a", "b"}
var c19Keys = []string{"x", "y"}
var c19StrVals = []string{"p", "q", "pq", "qp", "pp", ""}

func c19GenTx(r *vg.Rand, caseID, n int, height int64, index uint32) *c19Tx {
	t := &c19Tx{bytes: []byte(fmt.Sprintf("c%d-%d", caseID, n)), height: height, index: index}
	if r.Chance(15) {
		t.code = uint32(1 + r.Intn(3))
	}
	ne := r.Intn(4)
	for e := 0; e < ne; e++ {
		ev := c19Event{typ: c19Types[r.Intn(len(c19Types))]}
		if r.Chance(6) {
			ev.typ = ""
		}
		na := 1 + r.Intn(3)
		for a := 0; a < na; a++ {
			at := c19Attr{k: c19Keys[r.Intn(len(c19Keys))], idx: !r.Chance(20)}
			if at.k == "x" { // numeric attribute: canonical decimals only
				at.v = fmt.Sprintf("%d", r.Intn(13))
			} else {
				at.v = c19StrVals[r.Intn(len(c19StrVals))]
			}
			if r.Chance(5) {
				at.k = ""
			}
			ev.attrs = append(ev.attrs, at)
		}
		t.events = append(t.events, ev)
	}
	return t
}

func c19GenHistory(r *vg.Rand, caseID int) []c19Op {
	var ops []c19Op
	n := 0
	nh := 1 + r.Intn(4)
	height := int64(0)
	for h := 0; h < nh; h++ {
		height += int64(1 + r.Intn(2))
		nt := r.Intn(5)
		var txs []*c19Tx
		for i := 0; i < nt; i++ {
			txs = append(txs, c19GenTx(r, caseID, n, height, uint32(i)))
			n++
		}
		if r.Chance(25) {
			for _, t := range txs {
				ops = append(ops, c19Op{batch: false, txs: []*c19Tx{t}})
			}
		} else {
			ops = append(ops, c19Op{batch: true, txs: txs})
		}
	}
	return ops
}

// number of indexed values of tag in the transaction with most of them
func c19MaxValues(all []*c19Tx, tag string) int {
	m := 0
	for _, t := range all {
		if n := len(t.eventMap()[tag]); n > m {
			m = n
		}
	}
	return m
}

// a query inside the value domain: no '/', integer operands only on numeric tags and tx.height,
// no TIME/DATE, tx.hash only alone, EXISTS only on dotted keys, per key at most one lower and
// one upper bound and both only when no transaction has two values under the key
func c19GenQuery(r *vg.Rand, all []*c19Tx) []c19Cond {
	if r.Chance(8) {
		n := int64(-1)
		if len(all) > 0 && !r.Chance(20) {
			n = int64(r.Intn(len(all)))
		}
		return []c19Cond{{key: types.TxHashKey, op: c19Eq, kind: c19Hash, n: n}}
	}
	maxH := int64(1)
	for _, t := range all {
		if t.height > maxH {
			maxH = t.height
		}
	}
	nc := 1 + r.Intn(3)
	var conds []c19Cond
	lower := map[string]bool{}
	upper := map[string]bool{}
	for len(conds) < nc {
		tag := c19Types[r.Intn(2)] + "." + c19Keys[r.Intn(2)]
		numeric := strings.HasSuffix(tag, ".x")
		if r.Chance(25) {
			tag, numeric = types.TxHeightKey, true
		}
		var c c19Cond
		switch k := r.Intn(10); {
		case k < 3 && numeric: // range
			c = c19Cond{key: tag, op: r.Intn(4), kind: c19Int, n: int64(r.Intn(13))}
			if tag == types.TxHeightKey {
				c.n = int64(r.Intn(int(maxH) + 2))
			}
			isLower := c.op == c19Ge || c.op == c19Gt
			if (isLower && lower[tag]) || (!isLower && upper[tag]) {
				continue
			}
			if (lower[tag] || upper[tag]) && c19MaxValues(all, tag) > 1 {
				continue
			}
			if isLower {
				lower[tag] = true
			} else {
				upper[tag] = true
			}
		case k < 5 && numeric: // integer equality
			c = c19Cond{key: tag, op: c19Eq, kind: c19Int, n: int64(r.Intn(13))}
			if tag == types.TxHeightKey {
				c.n = int64(r.Intn(int(maxH) + 2))
			}
		case k < 7:
			if tag == types.TxHeightKey {
				continue
			}
			c = c19Cond{key: tag, op: c19Eq, kind: c19Str, s: c19StrVals[r.Intn(len(c19StrVals))]}
			if numeric {
				c.s = fmt.Sprintf("%d", r.Intn(13))
			}
		case k < 9:
			if tag == types.TxHeightKey {
				continue
			}
			c = c19Cond{key: tag, op: c19Contains, kind: c19Str, s: []string{"p", "q", "pq", "1", ""}[r.Intn(5)]}
		default:
			c = c19Cond{key: tag, op: c19Exists, kind: c19None}
		}
		conds = append(conds, c)
	}
	return conds
}

func c19Tx1(n int, height int64, index uint32, attrs ...c19Attr) *c19Tx {
	return &c19Tx{bytes: []byte(fmt.Sprintf("d-%d", n)), height: height, index: index,
		events: []c19Event{{typ: "a", attrs: attrs}}}
}
func c19A(k, v string) c19Attr        { return c19Attr{k: k, v: v, idx: true} }
func c19Q(conds ...c19Cond) []c19Cond { return conds }
func c19CS(key string, op int, s string) c19Cond {
	return c19Cond{key: key, op: op, kind: c19Str, s: s}
}
func c19CI(key string, op int, n int64) c19Cond {
	return c19Cond{key: key, op: op, kind: c19Int, n: n}
}
func c19CE(key string) c19Cond       { return c19Cond{key: key, op: c19Exists, kind: c19None} }
func c19Batch(txs ...*c19Tx) []c19Op { return []c19Op{{batch: true, txs: txs}} }

type c19Directed struct {
	kind    string
	ops     []c19Op
	queries [][]c19Cond
}

func c19DirectedCases() []c19Directed {
	var ds []c19Directed
	// (a) F17: '/' in a value: prefix scan false positive, CONTAINS / range false negative
	ds = append(ds, c19Directed{"known17_slash_value",
		c19Batch(c19Tx1(0, 1, 0, c19A("y", "p/q")), c19Tx1(1, 1, 1, c19A("y", "p")), c19Tx1(2, 2, 0, c19A("y", "q"))),
		[][]c19Cond{c19Q(c19CS("a.y", c19Eq, "p")), c19Q(c19CS("a.y", c19Contains, "p")), c19Q(c19CE("a.y")),
			c19Q(c19CS("a.y", c19Eq, "p/q"))}})
	ds = append(ds, c19Directed{"known17_slash_number",
		c19Batch(c19Tx1(0, 1, 0, c19A("x", "7/1")), c19Tx1(1, 1, 1, c19A("x", "7"))),
		[][]c19Cond{c19Q(c19CI("a.x", c19Eq, 7)), c19Q(c19CI("a.x", c19Ge, 7))}})
	// '/' in a query operand: "a.y = 'p/1'" finds value "p" at height 1
	ds = append(ds, c19Directed{"known17_slash_operand",
		c19Batch(c19Tx1(0, 1, 0, c19A("y", "p")), c19Tx1(1, 2, 0, c19A("y", "p"))),
		[][]c19Cond{c19Q(c19CS("a.y", c19Eq, "p/1")), c19Q(c19CS("a.y", c19Eq, "p"))}})
	// '/' in a tag
	ds = append(ds, c19Directed{"known17_slash_tag",
		c19Batch(c19Tx1(0, 1, 0, c19A("y/z", "p")), c19Tx1(1, 1, 1, c19A("y", "z"))),
		[][]c19Cond{c19Q(c19CE("a.y")), c19Q(c19CS("a.y", c19Eq, "z")), c19Q(c19CS("a.y/z", c19Contains, "p"))}})
	// numeric strictness: the matcher reads the first run of [0-9.], the indexer the whole value
	ds = append(ds, c19Directed{"known17_numeric",
		c19Batch(c19Tx1(0, 1, 0, c19A("x", "x12y")), c19Tx1(1, 1, 1, c19A("x", "007")), c19Tx1(2, 1, 2, c19A("x", "5.0")),
			c19Tx1(3, 2, 0, c19A("x", "-5")), c19Tx1(4, 2, 1, c19A("x", "12"))),
		[][]c19Cond{c19Q(c19CI("a.x", c19Gt, 6)), c19Q(c19CI("a.x", c19Eq, 7)), c19Q(c19CI("a.x", c19Eq, 5)),
			c19Q(c19CI("a.x", c19Lt, 0)), c19Q(c19CI("a.x", c19Eq, 12)), c19Q(c19CI("a.x", c19Le, 12))}})
	// a non-numeric value before a numeric one under the same key: the matcher errors
	ds = append(ds, c19Directed{"known17_numeric_multi",
		c19Batch(c19Tx1(0, 1, 0, c19A("x", "p"), c19A("x", "9")), c19Tx1(1, 1, 1, c19A("x", "9"), c19A("x", "p")),
			c19Tx1(2, 1, 2, c19A("x", "p"))),
		[][]c19Cond{c19Q(c19CI("a.x", c19Gt, 5)), c19Q(c19CI("a.x", c19Eq, 9))}})
	// (b) tx.hash short-cut ignores the other conditions
	ds = append(ds, c19Directed{"known24_hash_shortcut",
		c19Batch(c19Tx1(0, 1, 0, c19A("y", "p")), c19Tx1(1, 2, 0, c19A("y", "q"))),
		[][]c19Cond{
			c19Q(c19Cond{key: types.TxHashKey, op: c19Eq, kind: c19Hash, n: 0}, c19CI(types.TxHeightKey, c19Eq, 99)),
			c19Q(c19CS("a.y", c19Eq, "q"), c19Cond{key: types.TxHashKey, op: c19Eq, kind: c19Hash, n: 0}),
			c19Q(c19Cond{key: types.TxHashKey, op: c19Eq, kind: c19Hash, n: 0}, c19CI(types.TxHeightKey, c19Eq, 1)),
			c19Q(c19Cond{key: types.TxHashKey, op: c19Eq, kind: c19Hash, n: 1}),
			c19Q(c19Cond{key: types.TxHashKey, op: c19Eq, kind: c19Hash, n: -1})}})
	// (c) merged ranges
	ds = append(ds, c19Directed{"known25_merged_ranges",
		c19Batch(c19Tx1(0, 1, 0, c19A("x", "3")), c19Tx1(1, 1, 1, c19A("x", "1")), c19Tx1(2, 1, 2, c19A("x", "8")),
			c19Tx1(3, 2, 0, c19A("x", "1"), c19A("x", "10"))),
		[][]c19Cond{
			c19Q(c19CI("a.x", c19Gt, 5), c19CI("a.x", c19Gt, 1)),
			c19Q(c19CI("a.x", c19Ge, 5), c19CI("a.x", c19Gt, 1)),
			c19Q(c19CI("a.x", c19Lt, 2), c19CI("a.x", c19Lt, 9)),
			c19Q(c19CI("a.x", c19Gt, 5), c19CI("a.x", c19Lt, 3)),
			c19Q(c19CI("a.x", c19Gt, 1), c19CI("a.x", c19Gt, 5)),
			c19Q(c19CI(types.TxHeightKey, c19Gt, 1), c19CI(types.TxHeightKey, c19Ge, 1))}})
	// (d) TIME / DATE operands
	ds = append(ds, c19Directed{"known26_time",
		c19Batch(c19Tx1(0, 1, 0, c19A("y", "2013-05-03T14:45:00Z")), c19Tx1(1, 1, 1, c19A("y", "2013-05-03")),
			c19Tx1(2, 1, 2, c19A("y", "2020-01-01T00:00:00Z"))),
		[][]c19Cond{
			c19Q(c19Cond{key: "a.y", op: c19Eq, kind: c19Time, s: "2013-05-03T14:45:00Z"}),
			c19Q(c19Cond{key: "a.y", op: c19Ge, kind: c19Time, s: "2013-05-03T14:45:00Z"}),
			c19Q(c19Cond{key: "a.y", op: c19Eq, kind: c19Date, s: "2013-05-03"}),
			c19Q(c19Cond{key: "a.y", op: c19Lt, kind: c19Date, s: "2030-01-01"}, c19CI(types.TxHeightKey, c19Eq, 1))}})
	// EXISTS on a key without a dot: the matcher takes it as a prefix of the composite keys
	ds = append(ds, c19Directed{"known27_exists_undotted",
		c19Batch(c19Tx1(0, 1, 0, c19A("y", "p")), c19Tx1(1, 2, 0, c19Attr{k: "y", v: "p", idx: false})),
		[][]c19Cond{c19Q(c19CE("a")), c19Q(c19CE("tx")), c19Q(c19CE("a.y")), c19Q(c19CE("b"))}})
	// (h) tx.height = H narrows every "=" scan; tx.height = 0 does not
	ds = append(ds, c19Directed{"height_suffix",
		c19Batch(c19Tx1(0, 1, 0, c19A("y", "p"), c19A("x", "1")), c19Tx1(1, 2, 0, c19A("y", "p"), c19A("x", "2")),
			c19Tx1(2, 2, 1, c19A("y", "q"), c19A("x", "2")), c19Tx1(3, 12, 0, c19A("y", "p"))),
		[][]c19Cond{
			c19Q(c19CI(types.TxHeightKey, c19Eq, 2), c19CS("a.y", c19Eq, "p")),
			c19Q(c19CS("a.y", c19Eq, "p"), c19CI(types.TxHeightKey, c19Eq, 2)),
			c19Q(c19CI(types.TxHeightKey, c19Eq, 0), c19CS("a.y", c19Eq, "p")),
			c19Q(c19CI(types.TxHeightKey, c19Eq, 1), c19CI(types.TxHeightKey, c19Eq, 2)),
			c19Q(c19CI(types.TxHeightKey, c19Eq, 2), c19CI("a.x", c19Eq, 2), c19CS("a.y", c19Contains, "q")),
			c19Q(c19CI(types.TxHeightKey, c19Eq, 1)), c19Q(c19CI(types.TxHeightKey, c19Eq, 2)),
			c19Q(c19CI(types.TxHeightKey, c19Eq, 12)), c19Q(c19CI(types.TxHeightKey, c19Ge, 2), c19CI(types.TxHeightKey, c19Lt, 12)),
			c19Q(c19CI("a.x", c19Eq, 1), c19CI(types.TxHeightKey, c19Eq, 12))}})
	// range boundaries inside the value domain (exclusive / inclusive, one- and two-sided)
	ds = append(ds, c19Directed{"range_boundaries",
		c19Batch(c19Tx1(0, 1, 0, c19A("x", "4")), c19Tx1(1, 2, 0, c19A("x", "5")), c19Tx1(2, 3, 0, c19A("x", "6")),
			c19Tx1(3, 3, 1, c19A("x", "0"), c19A("x", "12"))),
		[][]c19Cond{
			c19Q(c19CI("a.x", c19Gt, 5)), c19Q(c19CI("a.x", c19Ge, 5)), c19Q(c19CI("a.x", c19Lt, 5)), c19Q(c19CI("a.x", c19Le, 5)),
			c19Q(c19CI("a.x", c19Gt, 12)), c19Q(c19CI("a.x", c19Lt, 0)), c19Q(c19CI("a.x", c19Le, 0)),
			c19Q(c19CI(types.TxHeightKey, c19Gt, 1), c19CI(types.TxHeightKey, c19Lt, 3)),
			c19Q(c19CI(types.TxHeightKey, c19Ge, 1), c19CI(types.TxHeightKey, c19Le, 3)),
			c19Q(c19CI(types.TxHeightKey, c19Lt, 3), c19CI("a.x", c19Ge, 5)),
			c19Q(c19CI("a.x", c19Gt, 4), c19CS("a.x", c19Contains, "5"))}})
	// multi-valued attributes, Index=false attributes, empty type / key, repeated pairs
	ds = append(ds, c19Directed{"multi_valued",
		c19Batch(
			&c19Tx{bytes: []byte("d-0"), height: 3, index: 0, events: []c19Event{
				{typ: "a", attrs: []c19Attr{c19A("y", "p"), c19A("y", "q"), c19A("y", "p"), {k: "y", v: "pq", idx: false}}},
				{typ: "", attrs: []c19Attr{c19A("y", "qp")}},
				{typ: "a", attrs: []c19Attr{c19A("", "qp"), c19A("x", "4"), c19A("x", "11")}}}},
			&c19Tx{bytes: []byte("d-1"), height: 3, index: 1, code: 1, events: []c19Event{
				{typ: "a", attrs: []c19Attr{c19A("y", "q")}}, {typ: "b", attrs: []c19Attr{c19A("y", "p")}}}}),
		[][]c19Cond{
			c19Q(c19CS("a.y", c19Eq, "p"), c19CS("a.y", c19Eq, "q")),
			c19Q(c19CS("a.y", c19Eq, "pq")), c19Q(c19CS("a.y", c19Contains, "pq")), c19Q(c19CS("a.y", c19Eq, "qp")),
			c19Q(c19CI("a.x", c19Gt, 5)), c19Q(c19CI("a.x", c19Lt, 5)), c19Q(c19CI("a.x", c19Eq, 11), c19CS("a.y", c19Contains, "")),
			c19Q(c19CE("b.y"), c19CE("a.y")), c19Q(c19CE("b.y"), c19CS("a.y", c19Eq, "p"))}})
	// (e),(g) the same transaction bytes twice: premises do not hold, model comparison only
	dup := func(h int64, code uint32, v string) *c19Tx {
		return &c19Tx{bytes: []byte("dup"), height: h, index: 0, code: code,
			events: []c19Event{{typ: "a", attrs: []c19Attr{c19A("y", v)}}}}
	}
	ds = append(ds, c19Directed{"dup_batch",
		[]c19Op{{batch: true, txs: []*c19Tx{dup(1, 0, "p")}}, {batch: true, txs: []*c19Tx{dup(2, 1, "q")}}},
		[][]c19Cond{c19Q(c19CS("a.y", c19Eq, "p")), c19Q(c19CS("a.y", c19Eq, "q")), c19Q(c19CI(types.TxHeightKey, c19Eq, 1))}})
	ds = append(ds, c19Directed{"dup_index_failed_after_ok",
		[]c19Op{{batch: false, txs: []*c19Tx{dup(1, 0, "p")}}, {batch: false, txs: []*c19Tx{dup(2, 1, "q")}}},
		[][]c19Cond{c19Q(c19CS("a.y", c19Eq, "p")), c19Q(c19CS("a.y", c19Eq, "q")), c19Q(c19CI(types.TxHeightKey, c19Eq, 2))}})
	ds = append(ds, c19Directed{"dup_index_ok_after_failed",
		[]c19Op{{batch: false, txs: []*c19Tx{dup(1, 2, "p")}}, {batch: false, txs: []*c19Tx{dup(2, 0, "q")}}},
		[][]c19Cond{c19Q(c19CS("a.y", c19Eq, "p")), c19Q(c19CS("a.y", c19Eq, "q")), c19Q(c19CI(types.TxHeightKey, c19Eq, 2))}})
	return ds
}

func TestVerifC19Search(t *testing.T) {
	root := vg.NewRand(vg.Seed() ^ 0xc195)
	cs := vg.NewCases("C19", "c19_search", "TM.C19.Exec")
	cs.CaseType = "scase"
	cs.CheckFn = "scheck"
	for _, d := range c19DirectedCases() {
		id := cs.NextID()
		if !cs.Want(id) {
			continue
		}
		term, descr, nt := c19Run(d.ops, d.queries)
		cs.Add(id, "directed_"+d.kind, nt, term, descr)
	}
	n := vg.Scale(200, 6000)
	for k := 0; k < n; k++ {
		id := cs.NextID()
		if !cs.Want(id) {
			continue
		}
		r := root.Fork(uint64(k))
		ops := c19GenHistory(r, id)
		var all []*c19Tx
		for _, o := range ops {
			all = append(all, o.txs...)
		}
		nq := 4 + r.Intn(5)
		var queries [][]c19Cond
		for j := 0; j < nq; j++ {
			queries = append(queries, c19GenQuery(r, all))
		}
		// every height is searched for (clause 13: retrievable by tx.height)
		seen := map[int64]bool{}
		for _, tx := range all {
			if !seen[tx.height] {
				seen[tx.height] = true
				queries = append(queries, c19Q(c19CI(types.TxHeightKey, c19Eq, tx.height)))
			}
		}
		term, descr, nt := c19Run(ops, queries)
		cs.Add(id, "random_in_domain", nt, term, descr)
		cs.Count("queries", len(queries))
		cs.Count("transactions", len(all))
	}
	if err := cs.Write(); err != nil {
		t.Fatal(err)
	}
}
