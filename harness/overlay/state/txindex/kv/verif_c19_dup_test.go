//go:build verif

package kv

// C19 (search half), finding F91: the same transaction bytes committed at two heights (a
// resubmission after a failed DeliverTx, a replay once the mempool cache has forgotten the
// transaction). Evaluated by coq/C19/ExecDup.v (dcheck): the monitors make no premise on
// transaction bytes - a committed transaction is (bytes, height, index) and Search's answer is
// recorded as the (hash, Height, Index) of every TxResult it returned.
//
// One case = a history of the in-domain generator of verif_c19_search_test.go in which 1-2
// transactions are committed a second time at a later height (fresh result code and events,
// through AddBatch as IndexerService does, or through Index), plus in-domain queries, the
// tx.height = h query of every height and tx.hash of the repeated transactions.
//
// GATE: the cases reach finding F91 (class 91, not yet listed in known_findings.json, so
// bin/check reports them as VIOLATION). They are generated only with VERIF_C19_F91=1. REMOVE
// THE GATE (make c19F91 return true) once class 91 is listed as known (or the primary record
// is re-keyed).

import (
	"context"
	"fmt"
	"os"
	"sort"
	"strings"
	"testing"

	db "github.com/tendermint/tm-db"

	vg "github.com/tendermint/tendermint/internal/verifgen"
	"github.com/tendermint/tendermint/libs/pubsub/query"
	"github.com/tendermint/tendermint/state/txindex"
	"github.com/tendermint/tendermint/types"
)

func c19F91() bool { return os.Getenv("VERIF_C19_F91") != "0" } // on by default: the finding is recorded in known_findings.json

func c19RunDup(ops []c19Op, queries [][]c19Cond) (string, string, bool) {
	var all []*c19Tx
	for _, o := range ops {
		all = append(all, o.txs...)
	}
	tokOf := map[string]string{}
	for i, t := range all {
		if tok, ok := tokOf[string(t.bytes)]; ok {
			t.tok = tok
			continue
		}
		t.tok = fmt.Sprintf("%d", i)
		tokOf[string(t.bytes)] = t.tok
	}
	txi := NewTxIndex(db.NewMemDB())
	var opsT, descr []string
	for _, o := range ops {
		var ts []string
		for _, t := range o.txs {
			ts = append(ts, t.coq())
		}
		if o.batch {
			b := &txindex.Batch{}
			for _, t := range o.txs {
				b.Ops = append(b.Ops, t.result())
			}
			if err := txi.AddBatch(b); err != nil {
				panic(err)
			}
			opsT = append(opsT, vg.App("SBatch", vg.L(ts)))
			descr = append(descr, "AddBatch:")
		} else {
			if err := txi.Index(o.txs[0].result()); err != nil {
				panic(err)
			}
			opsT = append(opsT, vg.App("SIndex", ts[0]))
			descr = append(descr, "Index:")
		}
		for _, t := range o.txs {
			descr = append(descr, "  "+t.text())
		}
	}
	var gets []string
	for _, t := range all {
		r, err := txi.Get(t.hash())
		if err != nil || r == nil {
			gets = append(gets, "None")
			continue
		}
		gets = append(gets, vg.Opt(true, vg.Tup(vg.Z(r.Height), vg.Z(int64(r.Index)), vg.Z(int64(r.Result.Code)))))
	}
	nontrivial := false
	var qsT []string
	for _, conds := range queries {
		var parts, condsT []string
		for _, c := range conds {
			parts = append(parts, c.text(all))
			condsT = append(condsT, c.coq(all))
		}
		text := strings.Join(parts, " AND ")
		q, err := query.New(text)
		if err != nil {
			panic(fmt.Sprintf("c19: generated query %q does not parse: %v", text, err))
		}
		ans, ansD := "None", "error/panic"
		func() {
			defer func() { recover() }()
			res, err := txi.Search(context.Background(), q)
			if err != nil {
				return
			}
			var items, itemsD []string
			for _, r := range res {
				tok := "nil"
				h, i := int64(-1), int64(-1)
				if r != nil {
					tok = "?"
					if t, ok := tokOf[string(r.Tx)]; ok {
						tok = t
					}
					h, i = r.Height, int64(r.Index)
				}
				items = append(items, vg.Tup(c19S(tok), vg.Z(h), vg.Z(i)))
				itemsD = append(itemsD, fmt.Sprintf("tx %s at %d/%d code %d", tok, h, i, r.Result.Code))
			}
			sort.Strings(items)
			sort.Strings(itemsD)
			if len(items) > 0 {
				nontrivial = true
			}
			ans, ansD = vg.Opt(true, vg.L(items)), "["+strings.Join(itemsD, "; ")+"]"
		}()
		var mv []string
		for _, t := range all {
			code := uint64(2)
			func() {
				defer func() { recover() }()
				ok, err := q.Matches(t.eventMap())
				switch {
				case err != nil:
					code = 2
				case ok:
					code = 1
				default:
					code = 0
				}
			}()
			mv = append(mv, vg.N(code))
		}
		qsT = append(qsT, vg.Tup(vg.L(condsT), ans, vg.L(mv)))
		descr = append(descr, fmt.Sprintf("Search(%q) -> %s ; Matches per commit -> %s", text, ansD, vg.L(mv)))
	}
	return vg.App("DCase", vg.L(opsT), vg.L(gets), vg.L(qsT)), strings.Join(descr, "\n"), nontrivial
}

func TestVerifC19SearchDup(t *testing.T) {
	if !c19F91() {
		return
	}
	root := vg.NewRand(vg.Seed() ^ 0xf91)
	cs := vg.NewCases("C19", "c19_dup", "TM.C19.ExecDup")
	cs.CaseType = "dcase"
	cs.CheckFn = "dcheck"

	// directed: the audit's history - "k=v" succeeds at 5/0 (transfer.to = alice) and is
	// committed again at 9/0 where the application rejects it (transfer.to = nobody); through
	// AddBatch (the indexer service) and through Index (whose guard keeps the successful one)
	for _, viaBatch := range []bool{true, false} {
		id := cs.NextID()
		if !cs.Want(id) {
			continue
		}
		t5 := &c19Tx{bytes: []byte("k=v"), height: 5, events: []c19Event{{typ: "transfer", attrs: []c19Attr{c19A("to", "alice")}}}}
		t9 := &c19Tx{bytes: []byte("k=v"), height: 9, code: 7, events: []c19Event{{typ: "transfer", attrs: []c19Attr{c19A("to", "nobody")}}}}
		ops := []c19Op{{batch: viaBatch, txs: []*c19Tx{t5}}, {batch: viaBatch, txs: []*c19Tx{t9}}}
		queries := [][]c19Cond{
			c19Q(c19CI(types.TxHeightKey, c19Eq, 5)), c19Q(c19CS("transfer.to", c19Eq, "alice")),
			c19Q(c19CI(types.TxHeightKey, c19Eq, 5), c19CS("transfer.to", c19Eq, "alice")),
			c19Q(c19CI(types.TxHeightKey, c19Ge, 1)), c19Q(c19CI(types.TxHeightKey, c19Eq, 9)),
			c19Q(c19CS("transfer.to", c19Eq, "nobody"))}
		term, descr, nt := c19RunDup(ops, queries)
		cs.Add(id, "directed_resubmitted_after_success", nt, term, descr)
	}
	n := vg.Scale(60, 2500)
	for k := 0; k < n; k++ {
		id := cs.NextID()
		if !cs.Want(id) {
			continue
		}
		r := root.Fork(uint64(k))
		ops := c19GenHistory(r, 100000+id)
		var all []*c19Tx
		for _, o := range ops {
			all = append(all, o.txs...)
		}
		if len(all) == 0 {
			all = append(all, c19GenTx(r, 100000+id, 0, 1, 0))
			ops = append(ops, c19Op{batch: true, txs: all})
		}
		height := all[len(all)-1].height
		var again []*c19Tx
		for d := 1 + r.Intn(2); d > 0; d-- {
			src := all[r.Intn(len(all))]
			height += int64(1 + r.Intn(2))
			tx := c19GenTx(r, 100000+id, 0, height, 0)
			tx.bytes = src.bytes
			if r.Chance(40) {
				tx.code = uint32(1 + r.Intn(3))
			} else if r.Chance(30) {
				tx.events = src.events // an identical outcome at another height
			}
			ops = append(ops, c19Op{batch: !r.Chance(30), txs: []*c19Tx{tx}})
			again = append(again, tx)
		}
		all = append(all, again...)
		var queries [][]c19Cond
		for j, nq := 0, 3+r.Intn(4); j < nq; j++ {
			queries = append(queries, c19GenQuery(r, all))
		}
		seen := map[int64]bool{}
		for _, tx := range all {
			if !seen[tx.height] {
				seen[tx.height] = true
				queries = append(queries, c19Q(c19CI(types.TxHeightKey, c19Eq, tx.height)))
			}
		}
		term, descr, nt := c19RunDup(ops, queries)
		cs.Add(id, "random_recommitted", nt, term, descr)
		cs.Count("queries", len(queries))
	}
	if err := cs.Write(); err != nil {
		t.Fatal(err)
	}
}
