//go:build verif

package kv

// C19 (search half), finding F92: query texts that query.New accepts and Query.Matches
// evaluates, with operand types the other families never generate - float64 operands, and the
// reserved keys tx.hash / tx.height with an operand of another type or EXISTS. Evaluated by
// coq/C19/ExecTyped.v (tcheck): Search must not panic, and must return the Matches-set or an
// error (clause 21); the repaired model is TypedModel.v (observable 31).
//
// One case = an in-domain history of verif_c19_search_test.go and 4-7 queries, each an
// in-domain query (without tx.hash) followed by 1-2 extra conditions.
//
// GATE: the cases reach finding F92 on the unrepaired tree. They are generated only with
// VERIF_C19_F92=1. REMOVE THE GATE (make c19F92 return true) once
// fixes/F92-search-operand-types.diff is applied to the repository.

import (
	"context"
	"fmt"
	"os"
	"sort"
	"strings"
	"testing"

	db "github.com/tendermint/tm-db"

	vg "github.com/tendermint/tendermint/internal/verifgen"
	"github.com/tendermint/tendermint/libs/pubsub/query"
	"github.com/tendermint/tendermint/state/txindex"
	"github.com/tendermint/tendermint/types"
)

func c19F92() bool { return os.Getenv("VERIF_C19_F92") != "0" } // on by default: the finding is recorded in known_findings.json

// an extra condition: its text and its Coq term (string * opr * xarg)
type c19Extra struct{ text, coq string }

func c19XFloat(key string, op int, n int64, half bool) c19Extra {
	lit := fmt.Sprintf("%d.0", n)
	if half {
		lit = fmt.Sprintf("%d.5", n)
	}
	return c19Extra{fmt.Sprintf("%s %s %s", key, c19OpText[op], lit),
		vg.Tup(c19S(key), c19OpCoq[op], vg.App("XFloat", vg.Z(n), vg.B(half)))}
}
func c19XArg(key string, op int, text, arg string) c19Extra {
	return c19Extra{text, vg.Tup(c19S(key), c19OpCoq[op], "(XA "+arg+")")}
}

func c19GenExtra(r *vg.Rand, all []*c19Tx) c19Extra {
	h := int64(1)
	if len(all) > 0 {
		h = all[r.Intn(len(all))].height
	}
	switch r.Intn(10) {
	case 0, 1, 2, 3: // a float bound
		return c19XFloat([]string{"a.x", "b.x"}[r.Intn(2)], r.Intn(4), int64(1+r.Intn(12)), r.Bool())
	case 4: // a float equality
		return c19XFloat([]string{"a.x", "b.x"}[r.Intn(2)], c19Eq, int64(1+r.Intn(12)), r.Chance(30))
	case 5:
		return c19XArg(types.TxHashKey, c19Exists, types.TxHashKey+" EXISTS", "ONone")
	case 6:
		return c19XArg(types.TxHashKey, c19Eq, fmt.Sprintf("%s = %d", types.TxHashKey, h), vg.App("OInt", vg.Z(h)))
	case 7:
		return c19XArg(types.TxHeightKey, c19Eq, fmt.Sprintf("%s = '%d'", types.TxHeightKey, h), vg.App("OStr", c19S(fmt.Sprintf("%d", h))))
	case 8:
		return c19XFloat(types.TxHeightKey, c19Eq, h, false)
	default:
		return c19XArg(types.TxHeightKey, c19Eq, types.TxHeightKey+" = DATE 2020-01-01", vg.App("OTime", vg.Z(1577836800)))
	}
}

type c19TypedQuery struct {
	base  []c19Cond
	extra []c19Extra
}

func c19RunTyped(ops []c19Op, queries []c19TypedQuery) (string, string, bool) {
	var all []*c19Tx
	for _, o := range ops {
		all = append(all, o.txs...)
	}
	tokOf := map[string]string{}
	for i, t := range all {
		t.tok = fmt.Sprintf("%d", i)
		tokOf[string(t.bytes)] = t.tok
	}
	txi := NewTxIndex(db.NewMemDB())
	var opsT, descr []string
	for _, o := range ops {
		var ts []string
		for _, t := range o.txs {
			ts = append(ts, t.coq())
		}
		if o.batch {
			b := &txindex.Batch{}
			for _, t := range o.txs {
				b.Ops = append(b.Ops, t.result())
			}
			if err := txi.AddBatch(b); err != nil {
				panic(err)
			}
			opsT = append(opsT, vg.App("SBatch", vg.L(ts)))
			descr = append(descr, "AddBatch:")
		} else {
			if err := txi.Index(o.txs[0].result()); err != nil {
				panic(err)
			}
			opsT = append(opsT, vg.App("SIndex", ts[0]))
			descr = append(descr, "Index:")
		}
		for _, t := range o.txs {
			descr = append(descr, "  "+t.text())
		}
	}
	nontrivial := false
	var qsT []string
	for _, tq := range queries {
		var parts, condsT, extraT []string
		for _, c := range tq.base {
			parts = append(parts, c.text(all))
			condsT = append(condsT, c.coq(all))
		}
		for _, e := range tq.extra {
			parts = append(parts, e.text)
			extraT = append(extraT, e.coq)
		}
		text := strings.Join(parts, " AND ")
		q, err := query.New(text)
		if err != nil {
			panic(fmt.Sprintf("c19: generated query %q does not parse: %v", text, err))
		}
		ir := "IPanic"
		func() {
			defer func() { recover() }()
			res, err := txi.Search(context.Background(), q)
			if err != nil {
				ir = "IErr"
				return
			}
			var ids []string
			for _, r := range res {
				tok := "nil"
				if r != nil {
					tok = "?"
					if t, ok := tokOf[string(r.Tx)]; ok {
						tok = t
					}
				}
				ids = append(ids, tok)
			}
			sort.Strings(ids)
			if len(ids) > 0 {
				nontrivial = true
			}
			for i := range ids {
				ids[i] = c19S(ids[i])
			}
			ir = vg.App("IOk", vg.L(ids))
		}()
		if ir != "IOk []" {
			nontrivial = true
		}
		var mv []string
		for _, t := range all {
			code := uint64(2)
			func() {
				defer func() { recover() }()
				ok, err := q.Matches(t.eventMap())
				switch {
				case err != nil:
					code = 2
				case ok:
					code = 1
				default:
					code = 0
				}
			}()
			mv = append(mv, vg.N(code))
		}
		qsT = append(qsT, vg.Tup(vg.L(condsT), vg.L(extraT), ir, vg.L(mv)))
		descr = append(descr, fmt.Sprintf("Search(%q) -> %s ; Matches per tx -> %s", text, ir, vg.L(mv)))
	}
	return vg.App("TCase", vg.L(opsT), vg.L(qsT)), strings.Join(descr, "\n"), nontrivial
}

func c19HasKey(q []c19Cond, key string) bool {
	for _, c := range q {
		if c.key == key {
			return true
		}
	}
	return false
}

func TestVerifC19SearchTyped(t *testing.T) {
	if !c19F92() {
		return
	}
	root := vg.NewRand(vg.Seed() ^ 0xf92)
	cs := vg.NewCases("C19", "c19_typed", "TM.C19.ExecTyped")
	cs.CaseType = "tcase"
	cs.CheckFn = "tcheck"

	// directed: the audit's queries on one transaction (height 1, a.x = 2)
	{
		id := cs.NextID()
		if cs.Want(id) {
			ops := c19Batch(c19Tx1(0, 1, 0, c19A("x", "2")), c19Tx1(1, 2, 0, c19A("x", "3")))
			X := func(e ...c19Extra) c19TypedQuery { return c19TypedQuery{extra: e} }
			queries := []c19TypedQuery{
				X(c19XFloat("a.x", c19Gt, 1, true)), X(c19XFloat("a.x", c19Lt, 2, true)),
				X(c19XFloat("a.x", c19Ge, 1, true)), X(c19XFloat("a.x", c19Eq, 2, false)),
				{base: c19Q(c19CI("a.x", c19Gt, 1)), extra: []c19Extra{c19XFloat("a.x", c19Le, 2, true)}},
				X(c19XArg(types.TxHashKey, c19Exists, "tx.hash EXISTS", "ONone")),
				X(c19XArg(types.TxHashKey, c19Eq, "tx.hash = 5", "(OInt 5)")),
				X(c19XArg(types.TxHeightKey, c19Eq, "tx.height = '1'", `(OStr "1")`)),
				X(c19XFloat(types.TxHeightKey, c19Eq, 1, false)),
				X(c19XArg(types.TxHeightKey, c19Eq, "tx.height = DATE 2020-01-01", "(OTime 1577836800)")),
				{base: c19Q(c19CI("a.x", c19Eq, 2)), extra: []c19Extra{c19XArg(types.TxHeightKey, c19Eq, "tx.height = '1'", `(OStr "1")`)}},
			}
			term, descr, nt := c19RunTyped(ops, queries)
			cs.Add(id, "directed_operand_types", nt, term, descr)
		}
	}
	n := vg.Scale(80, 3000)
	for k := 0; k < n; k++ {
		id := cs.NextID()
		if !cs.Want(id) {
			continue
		}
		r := root.Fork(uint64(k))
		ops := c19GenHistory(r, 200000+id)
		var all []*c19Tx
		for _, o := range ops {
			all = append(all, o.txs...)
		}
		var queries []c19TypedQuery
		for j, nq := 0, 4+r.Intn(4); j < nq; j++ {
			var base []c19Cond
			if !r.Chance(25) {
				for tries := 0; tries < 20; tries++ {
					base = c19GenQuery(r, all)
					if !c19HasKey(base, types.TxHashKey) {
						break
					}
					base = nil
				}
			}
			tq := c19TypedQuery{base: base, extra: []c19Extra{c19GenExtra(r, all)}}
			if r.Chance(20) {
				tq.extra = append(tq.extra, c19GenExtra(r, all))
			}
			queries = append(queries, tq)
		}
		term, descr, nt := c19RunTyped(ops, queries)
		cs.Add(id, "random_operand_types", nt, term, descr)
		cs.Count("queries", len(queries))
	}
	if err := cs.Write(); err != nil {
		t.Fatal(err)
	}
}
