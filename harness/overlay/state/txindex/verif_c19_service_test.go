//go:build verif

package txindex_test

// C19 correspondence harness for state/txindex/indexer_service.go (IndexerService.OnStart):
// a real EventBus, the real IndexerService, the kv transaction indexer and the kv block
// indexer on one MemDB (the block indexer behind the "block_events" prefix, as in node.go).
// Injected with `go test -overlay`; evaluated by coq/C19/ExecService.v.
//
// One case = one history of block publications: PublishEventNewBlockHeader(height, NumTxs,
// BeginBlock/EndBlock events) followed by its NumTxs PublishEventTx in a PRNG-chosen order
// (Batch.Add files them by TxResult.Index). The service's contract is respected: a header
// is followed by exactly NumTxs Tx events with the indices 0..NumTxs-1 before the next header
// (anything else parks the unbuffered subscriptions, i.e. the whole event bus, for good, or
// panics in AddBatch: not generated). The history is drained deterministically by a last,
// empty block: when the block index Has it, every earlier block has been through the loop.
// Then the real Get / Search(tx.height = h) / Has are asked.

import (
	"context"
	"fmt"
	"sort"
	"strings"
	"testing"
	"time"

	db "github.com/tendermint/tm-db"

	abci "github.com/tendermint/tendermint/abci/types"
	vg "github.com/tendermint/tendermint/internal/verifgen"
	"github.com/tendermint/tendermint/libs/log"
	"github.com/tendermint/tendermint/libs/pubsub/query"
	blockidxkv "github.com/tendermint/tendermint/state/indexer/block/kv"
	"github.com/tendermint/tendermint/state/txindex"
	"github.com/tendermint/tendermint/state/txindex/kv"
	"github.com/tendermint/tendermint/types"
)

type v19Attr struct {
	k, v string
	idx  bool
}
type v19Event struct {
	typ   string
	attrs []v19Attr
}
type v19Tx struct {
	tok    string
	bytes  []byte
	height int64
	index  uint32
	code   uint32
	events []v19Event
}
type v19Block struct {
	height     int64
	begin, end []v19Event
	txs        []*v19Tx // in index order
	order      []int    // publication order of the Tx events
	accepted   bool     // a fresh block indexer accepts the header's events
}

func v19Abci(evs []v19Event) []abci.Event {
	var out []abci.Event
	for _, e := range evs {
		ev := abci.Event{Type: e.typ}
		for _, a := range e.attrs {
			ev.Attributes = append(ev.Attributes, abci.EventAttribute{Key: []byte(a.k), Value: []byte(a.v), Index: a.idx})
		}
		out = append(out, ev)
	}
	return out
}

func v19S(s string) string {
	if strings.ContainsAny(s, "\"") {
		panic("v19: double quote in a generated string")
	}
	return `"` + s + `"`
}

func v19EventsCoq(evs []v19Event) string {
	var out []string
	for _, e := range evs {
		var as []string
		for _, a := range e.attrs {
			as = append(as, vg.Tup(v19S(a.k), v19S(a.v), vg.B(a.idx)))
		}
		out = append(out, vg.Tup(v19S(e.typ), vg.L(as)))
	}
	return vg.L(out)
}

func v19EventsText(evs []v19Event) string {
	var out []string
	for _, e := range evs {
		var as []string
		for _, a := range e.attrs {
			as = append(as, fmt.Sprintf("%q=%q idx=%v", a.k, a.v, a.idx))
		}
		out = append(out, fmt.Sprintf("%q{%s}", e.typ, strings.Join(as, ", ")))
	}
	return "[" + strings.Join(out, " ") + "]"
}

func (b *v19Block) header() types.EventDataNewBlockHeader {
	return types.EventDataNewBlockHeader{
		Header:           types.Header{Height: b.height},
		NumTxs:           int64(len(b.txs)),
		ResultBeginBlock: abci.ResponseBeginBlock{Events: v19Abci(b.begin)},
		ResultEndBlock:   abci.ResponseEndBlock{Events: v19Abci(b.end)},
	}
}

func (t *v19Tx) result() abci.TxResult {
	return abci.TxResult{Height: t.height, Index: t.index, Tx: t.bytes,
		Result: abci.ResponseDeliverTx{Code: t.code, Events: v19Abci(t.events)}}
}

func (t *v19Tx) coq() string {
	return vg.Tup(v19S(t.tok), vg.Z(t.height), vg.Z(int64(t.index)), vg.Z(int64(t.code)), v19EventsCoq(t.events))
}

var v19Types = []string{"a", "b"}
var v19Keys = []string{"x", "y"}
var v19StrVals = []string{"p", "q", "pq", ""}

func v19GenEvents(r *vg.Rand, max int) []v19Event {
	var evs []v19Event
	for e := r.Intn(max + 1); e > 0; e-- {
		ev := v19Event{typ: v19Types[r.Intn(2)]}
		if r.Chance(5) {
			ev.typ = ""
		}
		for a := 1 + r.Intn(2); a > 0; a-- {
			at := v19Attr{k: v19Keys[r.Intn(2)], idx: !r.Chance(20)}
			if at.k == "x" {
				at.v = fmt.Sprintf("%d", r.Intn(13))
			} else {
				at.v = v19StrVals[r.Intn(len(v19StrVals))]
			}
			if r.Chance(4) {
				at.k = ""
			}
			ev.attrs = append(ev.attrs, at)
		}
		evs = append(evs, ev)
	}
	return evs
}

type v19Hist struct {
	term   bool
	blocks []*v19Block
}

func v19Gen(r *vg.Rand, caseID int) *v19Hist {
	h := &v19Hist{term: r.Chance(25)}
	nb := 1 + r.Intn(5)
	height := int64(0)
	n := 0
	var all []*v19Tx
	for i := 0; i < nb; i++ {
		height += int64(1 + r.Intn(2))
		b := &v19Block{height: height, begin: v19GenEvents(r, 2), end: v19GenEvents(r, 2)}
		if r.Chance(22) { // the reserved composite key: the block indexer rejects the block's events
			ev := v19Event{typ: "block", attrs: []v19Attr{{k: "height", v: "1", idx: r.Bool()}}}
			if r.Bool() {
				b.begin = append(b.begin, ev)
			} else {
				b.end = append([]v19Event{ev}, b.end...)
			}
		}
		for j, nt := 0, r.Intn(5); j < nt; j++ {
			t := &v19Tx{bytes: []byte(fmt.Sprintf("s%d-%d", caseID, n)), height: height, index: uint32(j), events: v19GenEvents(r, 2)}
			if r.Chance(15) {
				t.code = uint32(1 + r.Intn(3))
			}
			if len(all) > 0 && r.Chance(4) { // the same transaction bytes again
				t.bytes = all[r.Intn(len(all))].bytes
			}
			n++
			b.txs = append(b.txs, t)
			all = append(all, t)
		}
		b.order = r.Perm(len(b.txs))
		h.blocks = append(h.blocks, b)
	}
	return h
}

// v19Run publishes the history on a fresh bus/service/indexers and returns (term, descr, nontrivial).
func v19Run(h *v19Hist) (string, string, bool) {
	// the draining block
	last := h.blocks[len(h.blocks)-1].height + 1
	blocks := append(append([]*v19Block(nil), h.blocks...), &v19Block{height: last})
	tokOf := map[string]string{}
	var all []*v19Tx
	for _, b := range blocks {
		b.accepted = blockidxkv.New(db.NewMemDB()).Index(b.header()) == nil
		for _, t := range b.txs {
			if tok, ok := tokOf[string(t.bytes)]; ok {
				t.tok = tok
			} else {
				t.tok = fmt.Sprintf("%d", len(all))
				tokOf[string(t.bytes)] = t.tok
			}
			all = append(all, t)
		}
	}

	eventBus := types.NewEventBus()
	eventBus.SetLogger(log.NewNopLogger())
	if err := eventBus.Start(); err != nil {
		panic(err)
	}
	store := db.NewMemDB()
	txIndexer := kv.NewTxIndex(store)
	blockIndexer := blockidxkv.New(db.NewPrefixDB(store, []byte("block_events")))
	service := txindex.NewIndexerService(txIndexer, blockIndexer, eventBus, h.term)
	service.SetLogger(log.NewNopLogger())
	if err := service.Start(); err != nil {
		panic(err)
	}

	var descr []string
	stuck := false
	published := make(chan struct{})
	go func() {
		defer close(published)
		for _, b := range blocks {
			if err := eventBus.PublishEventNewBlockHeader(b.header()); err != nil {
				return
			}
			for _, i := range b.order {
				if err := eventBus.PublishEventTx(types.EventDataTx{TxResult: b.txs[i].result()}); err != nil {
					return
				}
			}
			if h.term && !b.accepted {
				// the service stops itself; let it finish before the next publication (a
				// publication that the bus tries to hand over while the service is inside
				// Stop() -> UnsubscribeAll would park the bus: liveness, not this property)
				select {
				case <-service.Quit():
				case <-time.After(2 * time.Second):
				}
			}
		}
	}()
	select {
	case <-published:
	case <-time.After(4 * time.Second):
		stuck = true
	}
	// drain
	deadline := time.Now().Add(3 * time.Second)
	for !stuck {
		if ok, _ := blockIndexer.Has(last); ok || !service.IsRunning() {
			break
		}
		if time.Now().After(deadline) {
			stuck = true
		}
		time.Sleep(50 * time.Microsecond)
	}
	running := service.IsRunning()

	var blocksT []string
	for _, b := range blocks {
		var txsT, txsD []string
		for _, i := range b.order {
			t := b.txs[i]
			txsT = append(txsT, t.coq())
			txsD = append(txsD, fmt.Sprintf("Tx{%s bytes=%q height=%d index=%d code=%d events=%s}", t.tok, t.bytes, t.height, t.index, t.code, v19EventsText(t.events)))
		}
		blocksT = append(blocksT, vg.Tup(vg.Tup(vg.Z(b.height), v19EventsCoq(b.begin), v19EventsCoq(b.end), vg.B(b.accepted)), vg.L(txsT)))
		descr = append(descr, fmt.Sprintf("PublishEventNewBlockHeader(height=%d NumTxs=%d begin=%s end=%s) [a fresh block indexer accepts these events: %v] then PublishEventTx: %s",
			b.height, len(b.txs), v19EventsText(b.begin), v19EventsText(b.end), b.accepted, strings.Join(txsD, ", ")))
	}
	// observations, in publication order of the Tx events
	nontrivial := false
	var gets []string
	for _, b := range blocks {
		for _, i := range b.order {
			t := b.txs[i]
			r, err := txIndexer.Get(types.Tx(t.bytes).Hash())
			if err != nil || r == nil {
				gets = append(gets, "None")
				descr = append(descr, fmt.Sprintf("Get(hash of %s) -> not found", t.tok))
				continue
			}
			nontrivial = true
			gets = append(gets, vg.Opt(true, vg.Tup(vg.Z(r.Height), vg.Z(int64(r.Index)), vg.Z(int64(r.Result.Code)))))
			descr = append(descr, fmt.Sprintf("Get(hash of %s) -> height=%d index=%d code=%d", t.tok, r.Height, r.Index, r.Result.Code))
		}
	}
	var byh, has []string
	for _, b := range blocks {
		q := query.MustParse(fmt.Sprintf("%s = %d", types.TxHeightKey, b.height))
		ir := "IPanic"
		func() {
			defer func() { recover() }()
			res, err := txIndexer.Search(context.Background(), q)
			if err != nil {
				ir = "IErr"
				return
			}
			var ids []string
			for _, r := range res {
				if r == nil {
					ids = append(ids, "nil")
				} else if tok, ok := tokOf[string(r.Tx)]; ok {
					ids = append(ids, tok)
				} else {
					ids = append(ids, "?")
				}
			}
			sort.Strings(ids)
			for i := range ids {
				ids[i] = v19S(ids[i])
			}
			ir = vg.App("IOk", vg.L(ids))
		}()
		byh = append(byh, vg.Tup(vg.Z(b.height), ir))
		ok, err := blockIndexer.Has(b.height)
		if err != nil {
			ok = false
		}
		has = append(has, vg.Tup(vg.Z(b.height), vg.B(ok)))
		descr = append(descr, fmt.Sprintf("Search(tx.height = %d) -> %s ; block index Has(%d) -> %v", b.height, ir, b.height, ok))
	}
	descr = append(descr, fmt.Sprintf("service running afterwards: %v; stuck=%v", running, stuck))
	if service.IsRunning() {
		_ = service.Stop()
	}
	go func() { defer func() { _ = recover() }(); _ = eventBus.Stop() }()
	return vg.App("VCase", vg.B(h.term), vg.L(blocksT), vg.B(running && !stuck), vg.L(gets), vg.L(byh), vg.L(has)),
		fmt.Sprintf("EventBus + IndexerService(terminateOnError=%v) + kv tx indexer + kv block indexer: %s", h.term, strings.Join(descr, "; ")), nontrivial
}

func v19A(k, v string) v19Attr { return v19Attr{k: k, v: v, idx: true} }
func v19E(typ string, attrs ...v19Attr) []v19Event {
	return []v19Event{{typ: typ, attrs: attrs}}
}
func v19T(n int, h int64, i uint32, evs []v19Event) *v19Tx {
	return &v19Tx{bytes: []byte(fmt.Sprintf("d-%d", n)), height: h, index: i, events: evs}
}

func TestVerifC19Service(t *testing.T) {
	cs := vg.NewCases("C19", "c19_service", "TM.C19.ExecService")
	cs.CaseType = "vcase"
	cs.CheckFn = "vcheck"
	root := vg.NewRand(vg.Seed() ^ 0x5e19)

	reserved := v19E("block", v19A("height", "1"))
	directed := func(term bool) *v19Hist {
		return &v19Hist{term: term, blocks: []*v19Block{
			{height: 1, begin: v19E("a", v19A("y", "p")), txs: []*v19Tx{v19T(0, 1, 0, v19E("a", v19A("x", "1"))), v19T(1, 1, 1, nil)}, order: []int{1, 0}},
			// the block indexer rejects this block's events; its three transactions are committed all the same
			{height: 2, begin: v19E("a", v19A("y", "q")), end: reserved,
				txs:   []*v19Tx{v19T(2, 2, 0, v19E("a", v19A("x", "2"))), v19T(3, 2, 1, v19E("b", v19A("y", "p"))), v19T(4, 2, 2, nil)},
				order: []int{2, 0, 1}},
			{height: 3, txs: []*v19Tx{v19T(5, 3, 0, v19E("a", v19A("x", "3")))}, order: []int{0}},
			{height: 4, begin: reserved},
			{height: 5, end: v19E("b", v19A("x", "7")), txs: []*v19Tx{v19T(6, 5, 0, nil), v19T(7, 5, 1, nil)}, order: []int{0, 1}},
		}}
	}
	for _, term := range []bool{false, true} {
		id := cs.NextID()
		if cs.Want(id) {
			term, descr, nt := v19Run(directed(term))
			cs.Add(id, "directed_rejected_block_events", nt, term, descr)
		}
	}
	n := vg.Scale(120, 4000)
	for k := 0; k < n; k++ {
		id := cs.NextID()
		if !cs.Want(id) {
			continue
		}
		term, descr, nt := v19Run(v19Gen(root.Fork(uint64(k)), id))
		cs.Add(id, "random", nt, term, descr)
	}
	if err := cs.Write(); err != nil {
		t.Fatal(err)
	}
}
