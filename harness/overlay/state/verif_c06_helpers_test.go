//go:build verif

package state

// C06 correspondence harness, shared helpers: keys, the per-case table that names byte strings
// by integers, printers of Go values as the Coq terms of coq/C06/Exec.v, the classification of
// validateBlock's error, and the mempool / evidence pool stubs handed to BlockExecutor.

import (
	"errors"
	"fmt"
	"strconv"
	"strings"
	"time"

	"github.com/tendermint/tendermint/crypto"
	"github.com/tendermint/tendermint/crypto/ed25519"
	vg "github.com/tendermint/tendermint/internal/verifgen"
	"github.com/tendermint/tendermint/mempool/mock"
	tmproto "github.com/tendermint/tendermint/proto/tendermint/types"
	"github.com/tendermint/tendermint/types"
)

type c06Key struct {
	priv ed25519.PrivKey
	pub  crypto.PubKey
	addr []byte
}

func c06Keys(r *vg.Rand, n int) []c06Key {
	ks := make([]c06Key, n)
	for i := range ks {
		p := ed25519.GenPrivKeyFromSecret(r.Bytes(16))
		ks[i] = c06Key{priv: p, pub: p.PubKey(), addr: p.PubKey().Address()}
	}
	return ks
}

func c06KeyOf(ks []c06Key, addr []byte) *c06Key {
	for i := range ks {
		if string(ks[i].addr) == string(addr) {
			return &ks[i]
		}
	}
	return nil
}

// c06Ids names byte strings by integers in order of first appearance within one case
// (equal bytes <-> equal integer; empty -> 0).
type c06Ids struct {
	m map[string]int64
	n int64
}

func c06NewIds() *c06Ids { return &c06Ids{m: map[string]int64{}} }

func (t *c06Ids) id(b []byte) int64 {
	if len(b) == 0 {
		return 0
	}
	if v, ok := t.m[string(b)]; ok {
		return v
	}
	t.n++
	t.m[string(b)] = t.n
	return t.n
}
func (t *c06Ids) hv(b []byte) string { return vg.Tup(vg.Z(t.id(b)), vg.Z(int64(len(b)))) }
func (t *c06Ids) bidCode(b types.BlockID) int64 {
	if b.IsZero() {
		return 0
	}
	return t.id([]byte(fmt.Sprintf("bid:%x|%d|%x", []byte(b.Hash), b.PartSetHeader.Total, []byte(b.PartSetHeader.Hash))))
}
func (t *c06Ids) bid(b types.BlockID) string {
	return vg.Tup(vg.Z(t.bidCode(b)), vg.Z(int64(len(b.Hash))), vg.Z(int64(b.PartSetHeader.Total)),
		vg.Z(int64(len(b.PartSetHeader.Hash))))
}

const c06ZeroTime = "(-62135596800000000000)%Z"

func c06T(t time.Time) string {
	if t.IsZero() {
		return c06ZeroTime
	}
	return vg.Z(t.UnixNano())
}

func c06Val(t *c06Ids, v *types.Validator) string {
	return vg.Tup(vg.Z(t.id(v.Address)), vg.Z(t.id(v.PubKey.Bytes())), vg.Z(v.VotingPower))
}
func c06Vals(t *c06Ids, vs *types.ValidatorSet) string {
	if vs == nil {
		return "[]"
	}
	xs := make([]string, len(vs.Validators))
	for i, v := range vs.Validators {
		xs[i] = c06Val(t, v)
	}
	return vg.L(xs)
}
func c06ValList(t *c06Ids, vs []*types.Validator) string {
	xs := make([]string, len(vs))
	for i, v := range vs {
		xs[i] = c06Val(t, v)
	}
	return vg.L(xs)
}

func c06KeyType(s string) int64 {
	switch s {
	case types.ABCIPubKeyTypeEd25519:
		return 1
	case types.ABCIPubKeyTypeSecp256k1:
		return 2
	}
	return 3
}

func c06Params(p tmproto.ConsensusParams) string {
	ts := make([]int64, len(p.Validator.PubKeyTypes))
	for i, s := range p.Validator.PubKeyTypes {
		ts[i] = c06KeyType(s)
	}
	return vg.Tup(vg.Z(p.Block.MaxBytes), vg.Z(p.Block.MaxGas), vg.Z(p.Block.TimeIotaMs),
		vg.Z(p.Evidence.MaxAgeNumBlocks), vg.Z(int64(p.Evidence.MaxAgeDuration)), vg.Z(p.Evidence.MaxBytes),
		vg.ZL(ts), vg.Z(int64(p.Version.AppVersion)))
}

func c06State(t *c06Ids, s State) string {
	return vg.App("St",
		vg.Tup(c06U64(s.Version.Consensus.Block), c06U64(s.Version.Consensus.App)),
		t.hv([]byte(s.ChainID)), vg.Z(s.InitialHeight), vg.Z(s.LastBlockHeight), t.bid(s.LastBlockID),
		c06T(s.LastBlockTime), c06Vals(t, s.NextValidators), c06Vals(t, s.Validators), c06Vals(t, s.LastValidators),
		vg.Z(s.LastHeightValidatorsChanged), c06Params(s.ConsensusParams), vg.Z(s.LastHeightConsensusParamsChanged),
		t.hv(s.LastResultsHash), t.hv(s.AppHash))
}

func c06StateDescr(s State) string {
	vs := func(v *types.ValidatorSet) string {
		if v == nil {
			return "nil"
		}
		xs := []string{}
		for _, x := range v.Validators {
			xs = append(xs, fmt.Sprintf("%X:%d", x.Address[:3], x.VotingPower))
		}
		return "[" + strings.Join(xs, " ") + "]"
	}
	return fmt.Sprintf("state{chain=%q initial=%d last=%d lastID=%X/%d lastTime=%d vals=%s next=%s lastVals=%s maxBytes=%d evMaxBytes=%d appHash=%X results=%X appVersion=%d}",
		s.ChainID, s.InitialHeight, s.LastBlockHeight, []byte(s.LastBlockID.Hash), s.LastBlockID.PartSetHeader.Total,
		s.LastBlockTime.UnixNano(), vs(s.Validators), vs(s.NextValidators), vs(s.LastValidators),
		s.ConsensusParams.Block.MaxBytes, s.ConsensusParams.Evidence.MaxBytes, s.AppHash, s.LastResultsHash,
		s.Version.Consensus.App)
}

func c06Header(t *c06Ids, h *types.Header) string {
	hs := []string{t.hv(h.LastCommitHash), t.hv(h.DataHash), t.hv(h.ValidatorsHash), t.hv(h.NextValidatorsHash),
		t.hv(h.ConsensusHash), t.hv(h.AppHash), t.hv(h.LastResultsHash), t.hv(h.EvidenceHash), t.hv(h.ProposerAddress)}
	return vg.Tup(c06U64(h.Version.Block), c06U64(h.Version.App), t.hv([]byte(h.ChainID)), vg.Z(h.Height),
		c06T(h.Time), t.bid(h.LastBlockID), vg.L(hs))
}

// a uint64 as a Coq Z, exact above MaxInt64 too
func c06U64(x uint64) string { return strconv.FormatUint(x, 10) + "%Z" }

// c06Commit is a commit together with what every slot's signature was made over (Coq sdesc
// terms with the key still symbolic: "B"/"N"/"G" + key + timestamp), and the base the honest
// signers signed.
type c06Sig struct {
	kind byte // 'B' for the block, 'N' nil, 'G' garbage, 'O' explicit
	pub  []byte
	ts   time.Time
	// explicit message ('O')
	chain string
	h     int64
	r     int32
	bid   types.BlockID
}

type c06Commit struct {
	c     *types.Commit
	sd    []c06Sig
	chain string
	h     int64
	r     int32
	bid   types.BlockID
}

func (cc *c06Commit) clone() *c06Commit {
	if cc == nil {
		return nil
	}
	n := &c06Commit{chain: cc.chain, h: cc.h, r: cc.r, bid: cc.bid}
	if cc.c != nil {
		sigs := make([]types.CommitSig, len(cc.c.Signatures))
		for i, s := range cc.c.Signatures {
			s.ValidatorAddress = append([]byte(nil), s.ValidatorAddress...)
			s.Signature = append([]byte(nil), s.Signature...)
			sigs[i] = s
		}
		n.c = types.NewCommit(cc.c.Height, cc.c.Round, cc.c.BlockID, sigs)
	}
	n.sd = append([]c06Sig(nil), cc.sd...)
	return n
}

func c06SigTerm(t *c06Ids, s c06Sig) string {
	switch s.kind {
	case 'B':
		return vg.App("SB", vg.Z(t.id(s.pub)), c06T(s.ts))
	case 'N':
		return vg.App("SN", vg.Z(t.id(s.pub)), c06T(s.ts))
	case 'O':
		return vg.App("SO", vg.Z(t.id(s.pub)), vg.Z(t.id([]byte(s.chain))), vg.Z(s.h), vg.Z(int64(s.r)),
			vg.Z(t.bidCode(s.bid)), c06T(s.ts))
	}
	return "SG"
}

func c06CommitTerm(t *c06Ids, cc *c06Commit) string {
	xs := make([]string, len(cc.c.Signatures))
	for i, s := range cc.c.Signatures {
		sd := c06Sig{kind: 'G'}
		if i < len(cc.sd) {
			sd = cc.sd[i]
		}
		xs[i] = vg.Tup(vg.Z(int64(s.BlockIDFlag)), vg.Z(t.id(s.ValidatorAddress)), vg.Z(int64(len(s.ValidatorAddress))),
			c06T(s.Timestamp), c06SigTerm(t, sd), vg.Z(int64(len(s.Signature))))
	}
	base := vg.Tup(vg.Z(t.id([]byte(cc.chain))), vg.Z(cc.h), vg.Z(int64(cc.r)), vg.Z(t.bidCode(cc.bid)))
	return vg.Tup(vg.Z(cc.c.Height), vg.Z(int64(cc.c.Round)), t.bid(cc.c.BlockID), base, vg.L(xs))
}

func c06CommitDescr(cc *c06Commit) string {
	if cc == nil || cc.c == nil {
		return "nil"
	}
	xs := []string{}
	for i, s := range cc.c.Signatures {
		k := byte('G')
		if i < len(cc.sd) {
			k = cc.sd[i].kind
		}
		xs = append(xs, fmt.Sprintf("{flag=%d addr=%X ts=%d sig=%c/%dB}", s.BlockIDFlag, s.ValidatorAddress, c06Nano(s.Timestamp), k, len(s.Signature)))
	}
	return fmt.Sprintf("commit{h=%d r=%d id=%X/%d %s}", cc.c.Height, cc.c.Round, []byte(cc.c.BlockID.Hash), cc.c.BlockID.PartSetHeader.Total, strings.Join(xs, " "))
}

func c06Nano(t time.Time) int64 {
	if t.IsZero() {
		return 0
	}
	return t.UnixNano()
}

func c06EvValid(evs types.EvidenceList) []bool {
	out := make([]bool, len(evs))
	for i, e := range evs {
		func() {
			defer func() {
				if recover() != nil {
					out[i] = false
				}
			}()
			out[i] = e.ValidateBasic() == nil
		}()
	}
	return out
}

func c06BoolL(bs []bool) string {
	xs := make([]string, len(bs))
	for i, b := range bs {
		xs[i] = vg.B(b)
	}
	return vg.L(xs)
}

func c06TxLens(txs types.Txs) []int64 {
	out := make([]int64, len(txs))
	for i, tx := range txs {
		out[i] = int64(len(tx))
	}
	return out
}

// block as the blkt term; cc describes b.LastCommit (nil for a nil LastCommit)
func c06Block(t *c06Ids, b *types.Block, cc *c06Commit) string {
	cm := "None"
	if b.LastCommit != nil {
		cm = "(Some " + c06CommitTerm(t, cc) + ")"
	}
	return vg.Tup(c06Header(t, &b.Header), vg.ZL(c06TxLens(b.Data.Txs)), c06BoolL(c06EvValid(b.Evidence.Evidence)), cm)
}

func c06BlockDescr(b *types.Block, cc *c06Commit) string {
	h := b.Header
	return fmt.Sprintf("block{ver=%d/%d chain=%q h=%d time=%d lastID=%X/%d/%X lc=%X data=%X vals=%X next=%X cons=%X app=%X res=%X ev=%X proposer=%X txs=%v nev=%d %s}",
		h.Version.Block, h.Version.App, h.ChainID, h.Height, c06Nano(h.Time), []byte(h.LastBlockID.Hash), h.LastBlockID.PartSetHeader.Total,
		[]byte(h.LastBlockID.PartSetHeader.Hash), []byte(h.LastCommitHash), []byte(h.DataHash), []byte(h.ValidatorsHash),
		[]byte(h.NextValidatorsHash), []byte(h.ConsensusHash), []byte(h.AppHash), []byte(h.LastResultsHash), []byte(h.EvidenceHash),
		[]byte(h.ProposerAddress), c06TxLens(b.Data.Txs), len(b.Evidence.Evidence), c06CommitDescr(cc))
}

func c06EvProtoSize(evs types.EvidenceList) int64 {
	d := types.EvidenceData{Evidence: evs}
	pb, err := d.ToProto()
	if err != nil {
		return -1
	}
	return int64(pb.Size())
}

// the implementation's values of the shared hash functions on this case's objects
func c06Oracle(t *c06Ids, s State, b *types.Block) string {
	var lc []byte
	if b.LastCommit != nil {
		lc = types.NewCommit(b.LastCommit.Height, b.LastCommit.Round, b.LastCommit.BlockID, b.LastCommit.Signatures).Hash()
	}
	d := types.Data{Txs: b.Data.Txs}
	e := types.EvidenceData{Evidence: b.Evidence.Evidence}
	return vg.Tup(t.hv(lc), t.hv(d.Hash()), t.hv(e.Hash()), t.hv(s.Validators.Hash()), t.hv(s.NextValidators.Hash()),
		t.hv(types.HashConsensusParams(s.ConsensusParams)), vg.Z(c06EvProtoSize(b.Evidence.Evidence)))
}

// error class of validateBlock: the number of the failing check in source order (coq/C06/Exec.v
// verr_code); 0 = nil, 98 = panic, 99 = an error the table does not know
func c06Class(err error) uint64 {
	if err == nil {
		return 0
	}
	var eo *types.ErrEvidenceOverflow
	if errors.As(err, &eo) {
		return 46
	}
	var es types.ErrInvalidCommitSignatures
	if errors.As(err, &es) {
		return 31
	}
	var eh types.ErrInvalidCommitHeight
	if errors.As(err, &eh) {
		return 32
	}
	var ep types.ErrNotEnoughVotingPowerSigned
	if errors.As(err, &ep) {
		return 35
	}
	m := err.Error()
	table := []struct {
		s string
		c uint64
	}{
		{"invalid header: block protocol is incorrect", 1}, {"invalid header: chainID is too long", 2},
		{"invalid header: negative Height", 3}, {"invalid header: zero Height", 4},
		{"invalid header: wrong LastBlockID", 5}, {"invalid header: wrong LastCommitHash", 6},
		{"invalid header: wrong DataHash", 7}, {"invalid header: wrong EvidenceHash", 8},
		{"invalid header: invalid ProposerAddress length", 9}, {"invalid header: wrong ValidatorsHash", 10},
		{"invalid header: wrong NextValidatorsHash", 11}, {"invalid header: wrong ConsensusHash", 12},
		{"invalid header: wrong LastResultsHash", 13}, {"nil LastCommit", 14}, {"wrong LastCommit:", 15},
		{"wrong Header.LastCommitHash", 16}, {"wrong Header.DataHash", 17}, {"invalid evidence (#", 18},
		{"wrong Header.EvidenceHash", 19}, {"wrong Block.Header.Version", 20}, {"wrong Block.Header.ChainID", 21},
		{"for initial block", 22}, {"wrong Block.Header.Height", 23}, {"wrong Block.Header.LastBlockID", 24},
		{"wrong Block.Header.AppHash", 25}, {"wrong Block.Header.ConsensusHash", 26},
		{"wrong Block.Header.LastResultsHash", 27}, {"wrong Block.Header.ValidatorsHash", 28},
		{"wrong Block.Header.NextValidatorsHash", 29}, {"initial block can't have LastCommit signatures", 30},
		{"invalid commit -- wrong block ID", 33}, {"wrong signature (#", 34},
		{"wrong validator address in LastCommit signature", 37},
		{"expected ProposerAddress size", 40}, {"is not a validator", 41},
		{"not greater than last block time", 42}, {"invalid block time. Expected", 43},
		{"is not equal to genesis time", 44}, {"lower than initial height", 45},
	}
	for _, e := range table {
		if strings.Contains(m, e.s) {
			return e.c
		}
	}
	return 99
}

func c06Validate(s State, b *types.Block) (code uint64) {
	defer func() {
		if r := recover(); r != nil {
			code = 98
		}
	}()
	return c06Class(validateBlock(s, b))
}

// ---------------------------------------------------------------- stubs for BlockExecutor

// mempool holding a fixed list; ReapMaxBytesMaxGas as mempool/v0 and v1 implement it (longest
// prefix whose summed proto size stays within maxBytes)
type c06Mempool struct {
	mock.Mempool
	txs   types.Txs
	asked int64
}

func (m *c06Mempool) ReapMaxBytesMaxGas(maxBytes, maxGas int64) types.Txs {
	m.asked = maxBytes
	var running int64
	out := make(types.Txs, 0, len(m.txs))
	for _, tx := range m.txs {
		sz := types.ComputeProtoSizeForTxs([]types.Tx{tx})
		if maxBytes > -1 && running+sz > maxBytes {
			return out
		}
		running += sz
		out = append(out, tx)
	}
	return out
}

// evidence pool holding a fixed list; PendingEvidence as evidence.Pool.listEvidence (longest
// prefix whose EvidenceList proto size stays within maxBytes)
type c06EvPool struct {
	evs types.EvidenceList
}

func (p *c06EvPool) PendingEvidence(maxBytes int64) ([]types.Evidence, int64) {
	var out []types.Evidence
	var total int64
	for i := range p.evs {
		sz := c06EvProtoSize(p.evs[:i+1])
		if maxBytes != -1 && sz > maxBytes {
			return out, total
		}
		total = sz
		out = append(out, p.evs[i])
	}
	return out, total
}
func (p *c06EvPool) AddEvidence(types.Evidence) error       { return nil }
func (p *c06EvPool) Update(State, types.EvidenceList)       {}
func (p *c06EvPool) CheckEvidence(types.EvidenceList) error { return nil }
