//go:build verif

package state

// C06 correspondence harness, pure functions: WeightedMedian / MedianTime on hostile inputs
// (ties, shuffles, unknown and repeated addresses), protobuf sizes of headers and commits at
// extreme field values against the size model and the MaxHeaderBytes / MaxCommitBytes budget,
// MaxDataBytes arithmetic, and the Go variables the model holds as literals.

import (
	"fmt"
	"math"
	"testing"
	"time"

	vg "github.com/tendermint/tendermint/internal/verifgen"
	tmproto "github.com/tendermint/tendermint/proto/tendermint/types"
	tmversion "github.com/tendermint/tendermint/proto/tendermint/version"
	"github.com/tendermint/tendermint/types"
	tmtime "github.com/tendermint/tendermint/types/time"
	"github.com/tendermint/tendermint/version"
)

func c06Median(ws []*tmtime.WeightedTime, total int64) (res time.Time, ok bool) {
	defer func() {
		if r := recover(); r != nil {
			ok = false
		}
	}()
	cp := make([]*tmtime.WeightedTime, len(ws))
	for i, w := range ws {
		if w != nil {
			cp[i] = tmtime.NewWeightedTime(w.Time, w.Weight)
		}
	}
	return tmtime.WeightedMedian(cp, total), true
}

func TestVerifC06Median(t *testing.T) {
	cs := vg.NewCases("C06", "c06_median", "TM.C06.Exec")
	root := vg.NewRand(vg.Seed())
	n := vg.Scale(150, 6000)
	for k := 0; k < n; k++ {
		id := cs.NextID()
		if !cs.Want(id) {
			continue
		}
		r := root.Fork(uint64(k))
		m := 1 + r.Intn(7)
		base := int64(1600000000000000000) + r.Int63n(1000000000)
		var ws []*tmtime.WeightedTime
		var sum int64
		kind := "random"
		equal := r.Chance(35) // equal weights: the threshold is hit exactly
		for i := 0; i < m; i++ {
			ts := base + r.Int63n(5)
			if r.Chance(30) {
				ts = base + r.Int63n(1000000000)
			}
			w := 1 + r.Int63n(10)
			if equal {
				w = 1
			}
			if r.Chance(5) {
				w = 0
			}
			sum += w
			ws = append(ws, tmtime.NewWeightedTime(time.Unix(0, ts).UTC(), w))
		}
		total := sum
		if r.Chance(12) {
			kind = "total-not-sum"
			total = sum + r.Int63n(2*sum+2)
		}
		if equal && kind == "random" {
			kind = "equal-weights"
		}
		res, ok := c06Median(ws, total)
		if !ok {
			t.Fatalf("WeightedMedian panicked")
		}
		// shuffles with nil entries interspersed (MedianTime leaves nil for absent slots)
		var shuf []string
		for j := 0; j < 4; j++ {
			p := r.Perm(len(ws))
			var l []*tmtime.WeightedTime
			for _, i := range p {
				if r.Chance(20) {
					l = append(l, nil)
				}
				l = append(l, ws[i])
			}
			rs, _ := c06Median(l, total)
			shuf = append(shuf, c06T(rs))
		}
		es := make([]string, len(ws))
		ds := ""
		for i, w := range ws {
			es[i] = vg.Tup(vg.Z(w.Time.UnixNano()), vg.Z(w.Weight))
			ds += fmt.Sprintf("(%d,%d)", w.Time.UnixNano(), w.Weight)
		}
		cs.Add(id, kind, m >= 2, vg.App("CMedian", vg.L(es), vg.Z(total), c06T(res), vg.L(shuf)),
			fmt.Sprintf("WeightedMedian([(time ns, weight)] = %s, total=%d) = %s; on 4 shuffles: %v", ds, total, c06T(res), shuf))
	}

	// MedianTime on commits whose slots name unknown, repeated or swapped addresses
	nm := vg.Scale(60, 2000)
	for k := 0; k < nm; k++ {
		id := cs.NextID()
		if !cs.Want(id) {
			continue
		}
		r := root.Fork(uint64(100000 + k))
		keys := c06Keys(r, 6)
		nv := 1 + r.Intn(5)
		vals := make([]*types.Validator, nv)
		for i := range vals {
			vals[i] = types.NewValidator(keys[i].pub, c06Power(r))
		}
		vs := types.NewValidatorSet(vals)
		base := int64(1600000000000000000)
		sigs := make([]types.CommitSig, nv+r.Intn(2))
		for i := range sigs {
			addr := keys[r.Intn(6)].addr
			if i < len(vs.Validators) && r.Chance(70) {
				addr = vs.Validators[i].Address
			}
			flag := []types.BlockIDFlag{types.BlockIDFlagCommit, types.BlockIDFlagCommit, types.BlockIDFlagNil, types.BlockIDFlagAbsent}[r.Intn(4)]
			sigs[i] = types.CommitSig{BlockIDFlag: flag, ValidatorAddress: addr,
				Timestamp: time.Unix(0, base+r.Int63n(4)).UTC(), Signature: []byte{1}}
			if flag == types.BlockIDFlagAbsent && r.Bool() {
				sigs[i] = types.NewCommitSigAbsent()
			}
		}
		commit := types.NewCommit(5, 0, types.BlockID{Hash: r.Bytes(32), PartSetHeader: types.PartSetHeader{Total: 1, Hash: r.Bytes(32)}}, sigs)
		res := MedianTime(commit, vs)
		tb := c06NewIds()
		cc := &c06Commit{c: commit, sd: make([]c06Sig, len(sigs)), chain: "x", h: 5, bid: commit.BlockID}
		for i := range cc.sd {
			cc.sd[i] = c06Sig{kind: 'G'}
		}
		cs.Add(id, "median-time", true, vg.App("CMedianTime", c06CommitTerm(tb, cc), c06Vals(tb, vs), c06T(res)),
			fmt.Sprintf("MedianTime(%s, %v) = %s", c06CommitDescr(cc), vs.Validators, c06T(res)))
	}
	if err := cs.Write(); err != nil {
		t.Fatal(err)
	}
}

func c06PickI64(r *vg.Rand) int64 {
	switch r.Intn(8) {
	case 0:
		return math.MaxInt64
	case 1:
		return 1
	case 2:
		return 127 + r.Int63n(3)
	case 3:
		return 16383 + r.Int63n(3)
	case 4:
		return 1<<35 - 1 + r.Int63n(3)
	default:
		return 1 + r.Int63n(1<<uint(1+r.Intn(62)))
	}
}

func c06PickTime(r *vg.Rand) time.Time {
	switch r.Intn(8) {
	case 0:
		return time.Time{}
	case 1:
		return time.Date(9999, 12, 31, 23, 59, 59, 999999999, time.UTC)
	case 2:
		return time.Unix(0, 0).UTC()
	case 3:
		return time.Unix(-1-r.Int63n(1000000), r.Int63n(1000000000)).UTC()
	case 4:
		return time.Unix(r.Int63n(1<<34), 0).UTC()
	default:
		return time.Unix(1600000000+r.Int63n(1000000000), r.Int63n(1000000000)).UTC()
	}
}

// nanoseconds since the epoch as a Coq Z, exact also outside the int64 range of UnixNano
func c06TBig(t time.Time) string {
	if t.IsZero() {
		return c06ZeroTime
	}
	s, ns := t.Unix(), int64(t.Nanosecond())
	if s > -9000000000 && s < 9000000000 {
		return vg.Z(s*1000000000 + ns)
	}
	return fmt.Sprintf("(%d * 1000000000 + %d)%%Z", s, ns)
}

func c06HashLen(r *vg.Rand, ok int) []byte {
	switch r.Intn(10) {
	case 0:
		return nil
	case 1:
		return r.Bytes(1 + r.Intn(70))
	default:
		return r.Bytes(ok)
	}
}

func TestVerifC06Sizes(t *testing.T) {
	cs := vg.NewCases("C06", "c06_sizes", "TM.C06.Exec")
	root := vg.NewRand(vg.Seed())
	n := vg.Scale(120, 5000)
	for k := 0; k < n; k++ {
		id := cs.NextID()
		if !cs.Want(id) {
			continue
		}
		r := root.Fork(uint64(k))
		extreme := k%3 == 0
		h := types.Header{
			Version: tmversion.Consensus{Block: version.BlockProtocol, App: uint64(c06PickI64(r))},
			ChainID: string(r.Bytes(r.Intn(types.MaxChainIDLen + 1))), Height: c06PickI64(r), Time: c06PickTime(r),
			LastBlockID:    types.BlockID{Hash: c06HashLen(r, 32), PartSetHeader: types.PartSetHeader{Total: uint32(c06PickI64(r)), Hash: c06HashLen(r, 32)}},
			LastCommitHash: c06HashLen(r, 32), DataHash: c06HashLen(r, 32), ValidatorsHash: c06HashLen(r, 32),
			NextValidatorsHash: c06HashLen(r, 32), ConsensusHash: c06HashLen(r, 32), AppHash: c06HashLen(r, 32),
			LastResultsHash: c06HashLen(r, 32), EvidenceHash: c06HashLen(r, 32), ProposerAddress: c06HashLen(r, 20),
		}
		if extreme {
			// the largest header ValidateBasic lets through with a 32-byte application hash
			h.Version.App = math.MaxUint64
			h.ChainID = string(r.Bytes(types.MaxChainIDLen))
			h.Height = math.MaxInt64
			h.Time = time.Unix(-1-r.Int63n(1000), 999999999).UTC()
			h.LastBlockID = types.BlockID{Hash: r.Bytes(32), PartSetHeader: types.PartSetHeader{Total: math.MaxUint32, Hash: r.Bytes(32)}}
			for _, p := range []*[]byte{(*[]byte)(&h.LastCommitHash), (*[]byte)(&h.DataHash), (*[]byte)(&h.ValidatorsHash),
				(*[]byte)(&h.NextValidatorsHash), (*[]byte)(&h.ConsensusHash), (*[]byte)(&h.AppHash),
				(*[]byte)(&h.LastResultsHash), (*[]byte)(&h.EvidenceHash)} {
				*p = r.Bytes(32)
			}
			h.ProposerAddress = r.Bytes(20)
		}
		if r.Chance(5) {
			h.Version.Block++
		}
		if r.Chance(5) {
			h.Height = -h.Height
		}
		// commit
		ns := r.Intn(6)
		if k%17 == 0 {
			ns = 130 // commit size crosses the two-byte length boundary
		}
		// every slot as large as CommitSig.ValidateBasic allows: the commit reaches the bound
		maximal := extreme && k%2 == 0
		if maximal && ns < 130 {
			ns = 1 + r.Intn(9)
		}
		sigs := make([]types.CommitSig, ns)
		for i := range sigs {
			x := r.Intn(6)
			if maximal {
				x = 5
			}
			switch x {
			case 0:
				sigs[i] = types.NewCommitSigAbsent()
			case 1:
				sigs[i] = types.CommitSig{BlockIDFlag: types.BlockIDFlag(r.Intn(6)), ValidatorAddress: c06HashLen(r, 20),
					Timestamp: c06PickTime(r), Signature: r.Bytes(r.Intn(70))}
			default:
				sigs[i] = types.CommitSig{BlockIDFlag: types.BlockIDFlagCommit + types.BlockIDFlag(r.Intn(2)), ValidatorAddress: r.Bytes(20),
					Timestamp: c06PickTime(r), Signature: r.Bytes(1 + r.Intn(64))}
				if extreme {
					sigs[i].Signature = r.Bytes(64)
					sigs[i].Timestamp = time.Unix(-1-r.Int63n(1000), 999999999).UTC()
				}
			}
		}
		commit := types.NewCommit(c06PickI64(r), int32(c06PickI64(r)&0x7fffffff), types.BlockID{Hash: c06HashLen(r, 32),
			PartSetHeader: types.PartSetHeader{Total: uint32(c06PickI64(r)), Hash: c06HashLen(r, 32)}}, sigs)
		if extreme {
			commit.Height, commit.Round = math.MaxInt64, math.MaxInt32
			commit.BlockID = h.LastBlockID
		}
		if r.Chance(5) && !maximal {
			commit.Round = -commit.Round
		}
		ssz := make([]int64, len(sigs))
		for i := range sigs {
			ssz[i] = int64(sigs[i].ToProto().Size())
		}
		hsz, csz := int64(h.ToProto().Size()), int64(commit.ToProto().Size())
		hvb, cvb := h.ValidateBasic() == nil, commit.ValidateBasic() == nil
		tb := c06NewIds()
		cc := &c06Commit{c: commit, sd: make([]c06Sig, len(sigs)), chain: "x"}
		for i := range cc.sd {
			cc.sd[i] = c06Sig{kind: 'G'}
		}
		// header/commit terms with exact times
		ht := c06HeaderBig(tb, &h)
		ct := c06CommitTermBig(tb, cc)
		kind := "random"
		if extreme {
			kind = "extreme"
		}
		if maximal {
			kind = "maximal-commit"
		}
		cs.Add(id, kind, true, vg.App("CSizes", ht, ct, vg.Z(hsz), vg.Z(csz), vg.ZL(ssz), vg.B(hvb), vg.B(cvb),
			vg.Z(types.MaxCommitBytes(len(sigs)))),
			fmt.Sprintf("Header%+v.ToProto().Size()=%d ValidateBasic ok=%v; %s ToProto().Size()=%d (MaxCommitBytes(%d)=%d) slot sizes %v ValidateBasic ok=%v",
				h, hsz, hvb, c06CommitDescr(cc), csz, len(sigs), types.MaxCommitBytes(len(sigs)), ssz, cvb))
	}

	// MaxDataBytes arithmetic
	nb := vg.Scale(60, 2000)
	for k := 0; k < nb; k++ {
		id := cs.NextID()
		if !cs.Want(id) {
			continue
		}
		r := root.Fork(uint64(200000 + k))
		nvals := r.Intn(20)
		if r.Chance(10) {
			nvals = types.MaxVotesCount
		}
		ev := r.Int63n(2000)
		limit := types.MaxOverheadForBlock + types.MaxHeaderBytes + types.MaxCommitBytes(nvals)
		maxBytes := limit + ev - 2 + r.Int63n(5)
		if r.Chance(30) {
			maxBytes = r.Int63n(types.MaxBlockSizeBytes + 1)
		}
		call := func(f func() int64) (v int64) {
			defer func() {
				if recover() != nil {
					v = -1
				}
			}()
			return f()
		}
		a := call(func() int64 { return types.MaxDataBytes(maxBytes, ev, nvals) })
		b := call(func() int64 { return types.MaxDataBytesNoEvidence(maxBytes, nvals) })
		cs.Add(id, "budget", true, vg.App("CBudget", vg.Z(maxBytes), vg.Z(ev), vg.Z(int64(nvals)), vg.Z(a), vg.Z(b), vg.Z(types.MaxCommitBytes(nvals))),
			fmt.Sprintf("MaxDataBytes(%d,%d,%d)=%d MaxDataBytesNoEvidence=%d MaxCommitBytes=%d (-1 = panic)", maxBytes, ev, nvals, a, b, types.MaxCommitBytes(nvals)))
	}
	id := cs.NextID()
	if cs.Want(id) {
		cs.Add(id, "consts", false, vg.App("CConsts", vg.Z(int64(version.BlockProtocol)), vg.Z(int64(types.MaxSignatureSize))),
			fmt.Sprintf("version.BlockProtocol=%d types.MaxSignatureSize=%d", version.BlockProtocol, types.MaxSignatureSize))
	}
	if err := cs.Write(); err != nil {
		t.Fatal(err)
	}
}

func c06HeaderBig(t *c06Ids, h *types.Header) string {
	hs := []string{t.hv(h.LastCommitHash), t.hv(h.DataHash), t.hv(h.ValidatorsHash), t.hv(h.NextValidatorsHash),
		t.hv(h.ConsensusHash), t.hv(h.AppHash), t.hv(h.LastResultsHash), t.hv(h.EvidenceHash), t.hv(h.ProposerAddress)}
	app := fmt.Sprintf("%d%%Z", h.Version.App)
	return vg.Tup(vg.Z(int64(h.Version.Block)), app, t.hv([]byte(h.ChainID)), vg.Z(h.Height),
		c06TBig(h.Time), t.bid(h.LastBlockID), vg.L(hs))
}

func c06CommitTermBig(t *c06Ids, cc *c06Commit) string {
	xs := make([]string, len(cc.c.Signatures))
	for i, s := range cc.c.Signatures {
		xs[i] = vg.Tup(vg.Z(int64(s.BlockIDFlag)), vg.Z(t.id(s.ValidatorAddress)), vg.Z(int64(len(s.ValidatorAddress))),
			c06TBig(s.Timestamp), "SG", vg.Z(int64(len(s.Signature))))
	}
	base := vg.Tup(vg.Z(0), vg.Z(0), vg.Z(0), vg.Z(0))
	return vg.Tup(vg.Z(cc.c.Height), vg.Z(int64(cc.c.Round)), t.bid(cc.c.BlockID), base, vg.L(xs))
}

var _ = tmproto.PrecommitType
