//go:build verif

package kv

// C19 (search half), finding F92, block indexer: query texts that query.New accepts and
// Query.Matches evaluates, with float64 operands (the other families never generate them).
// Evaluated by coq/C19/ExecTyped.v (btcheck): Search must not panic, and must return the
// Matches-set or an error (clause 21); the repaired model is TypedModel.v (observable 41).
//
// One case = an in-domain history (every height indexed once) and 4-7 queries, each an
// in-domain query of verif_c19_block_test.go followed by 1-2 float conditions.
//
// GATE: VERIF_C19_F92=1, see state/txindex/kv/verif_c19_typed_test.go.

import (
	"context"
	"fmt"
	"os"
	"strings"
	"testing"

	db "github.com/tendermint/tm-db"

	vg "github.com/tendermint/tendermint/internal/verifgen"
	"github.com/tendermint/tendermint/libs/pubsub/query"
)

func b19F92() bool { return os.Getenv("VERIF_C19_F92") != "0" } // on by default: the finding is recorded in known_findings.json

type b19Extra struct{ text, coq string }

func b19XFloat(key string, op int, n int64, half bool) b19Extra {
	lit := fmt.Sprintf("%d.0", n)
	if half {
		lit = fmt.Sprintf("%d.5", n)
	}
	return b19Extra{fmt.Sprintf("%s %s %s", key, b19OpText[op], lit),
		vg.Tup(b19S(key), b19OpCoq[op], vg.App("XFloat", vg.Z(n), vg.B(half)))}
}

type b19TypedQuery struct {
	base  []b19Cond
	extra []b19Extra
}

func b19RunTyped(hist []*b19Block, queries []b19TypedQuery) (string, string, bool) {
	idx := New(db.NewMemDB())
	var histT, descr []string
	for _, b := range hist {
		err := idx.Index(b.data())
		b.ok = err == nil
		histT = append(histT, vg.Tup(vg.Z(b.height), b19EventsCoq(b.begin), b19EventsCoq(b.end), vg.B(b.ok)))
		descr = append(descr, fmt.Sprintf("Index(height=%d begin=%s end=%s) -> nil? %v", b.height,
			b19EventsText(b.begin), b19EventsText(b.end), b.ok))
	}
	nontrivial := false
	var qsT []string
	for _, tq := range queries {
		var parts, condsT, extraT []string
		for _, c := range tq.base {
			parts = append(parts, c.text())
			condsT = append(condsT, c.coq())
		}
		for _, e := range tq.extra {
			parts = append(parts, e.text)
			extraT = append(extraT, e.coq)
		}
		text := strings.Join(parts, " AND ")
		q, err := query.New(text)
		if err != nil {
			panic(fmt.Sprintf("b19: generated query %q does not parse: %v", text, err))
		}
		ir := "BPanic"
		func() {
			defer func() { recover() }()
			res, err := idx.Search(context.Background(), q)
			if err != nil {
				ir = "BErr"
				return
			}
			ir = vg.App("BOk", vg.ZL(res))
		}()
		if ir != "BOk []" {
			nontrivial = true
		}
		var mv []string
		for _, b := range hist {
			code := uint64(2)
			func() {
				defer func() { recover() }()
				ok, err := q.Matches(b.eventMap())
				switch {
				case err != nil:
					code = 2
				case ok:
					code = 1
				default:
					code = 0
				}
			}()
			mv = append(mv, vg.N(code))
		}
		qsT = append(qsT, vg.Tup(vg.L(condsT), vg.L(extraT), ir, vg.L(mv)))
		descr = append(descr, fmt.Sprintf("Search(%q) -> %s ; Matches per Index call -> %s", text, ir, vg.L(mv)))
	}
	return vg.App("BTCase", vg.L(histT), vg.L(qsT)), strings.Join(descr, "\n"), nontrivial
}

func TestVerifC19BlockTyped(t *testing.T) {
	if !b19F92() {
		return
	}
	root := vg.NewRand(vg.Seed() ^ 0xb92)
	cs := vg.NewCases("C19", "c19_block_typed", "TM.C19.ExecTyped")
	cs.CaseType = "btcase"
	cs.CheckFn = "btcheck"
	{
		id := cs.NextID()
		if cs.Want(id) {
			hist := []*b19Block{b19B(1, b19E("a", b19A("x", "2")), nil), b19B(2, nil, b19E("a", b19A("x", "3")))}
			X := func(e ...b19Extra) b19TypedQuery { return b19TypedQuery{extra: e} }
			queries := []b19TypedQuery{
				X(b19XFloat("a.x", b19Gt, 1, true)), X(b19XFloat("a.x", b19Lt, 2, true)),
				X(b19XFloat("a.x", b19Ge, 1, true)), X(b19XFloat("a.x", b19Eq, 2, false)),
				{base: b19Q(b19CI("a.x", b19Gt, 1)), extra: []b19Extra{b19XFloat("a.x", b19Le, 2, true)}},
				X(b19XFloat("block.height", b19Ge, 1, false)),
			}
			term, descr, nt := b19RunTyped(hist, queries)
			cs.Add(id, "directed_float_operands", nt, term, descr)
		}
	}
	n := vg.Scale(60, 2500)
	for k := 0; k < n; k++ {
		id := cs.NextID()
		if !cs.Want(id) {
			continue
		}
		r := root.Fork(uint64(k))
		var hist []*b19Block
		seen := map[int64]bool{}
		for _, b := range b19GenHistory(r, false) {
			if !seen[b.height] {
				seen[b.height] = true
				hist = append(hist, b)
			}
		}
		keys := []string{"a.x", "a.y", "b.x", "b.y", "block.height"}
		var queries []b19TypedQuery
		for j, nq := 0, 4+r.Intn(4); j < nq; j++ {
			var base []b19Cond
			if !r.Chance(25) {
				for tries := 0; tries < 20; tries++ {
					base = b19GenQuery(r, hist, false)
					if b19Class(hist, base) == "" {
						break
					}
					base = nil
				}
			}
			gen := func() b19Extra {
				op := r.Intn(5)
				return b19XFloat(keys[r.Intn(len(keys))], op, int64(1+r.Intn(12)), r.Chance(50) && true)
			}
			tq := b19TypedQuery{base: base, extra: []b19Extra{gen()}}
			if r.Chance(20) {
				tq.extra = append(tq.extra, gen())
			}
			queries = append(queries, tq)
		}
		term, descr, nt := b19RunTyped(hist, queries)
		cs.Add(id, "random_float_operands", nt, term, descr)
		cs.Count("queries", len(queries))
	}
	if err := cs.Write(); err != nil {
		t.Fatal(err)
	}
}
