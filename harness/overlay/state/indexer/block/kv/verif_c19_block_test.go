//go:build verif

package kv

// C19 (search half, blocks) correspondence harness for state/indexer/block/kv/kv.go, util.go
// and state/indexer/query_range.go (injected with `go test -overlay`).
//
// One case = one history of BlockerIndexer.Index calls on a fresh New(MemDB) plus a few
// queries. For every query the harness records what Search answered (heights in the order
// returned / error / panic) and what the real query.Matches says about the event map of every
// block of the history (the brute-force reference); the Coq side (coq/C19/ExecBlock.v, bcheck)
// evaluates the monitors on these answers and compares them with the model (BlockModel.v).
//
// Queries are generated over the whole query language; a Go copy of the decidable known
// classes (coq/C19/ExecBlock.v) only decides into which CASE a query goes: queries outside
// every known class share one case per history ("domain"), the others get cases of their
// own ("wild_<class>"), so that a known-finding verdict never hides a domain query.

import (
	"context"
	"fmt"
	"strconv"
	"strings"
	"testing"
	"time"

	db "github.com/tendermint/tm-db"

	abci "github.com/tendermint/tendermint/abci/types"
	vg "github.com/tendermint/tendermint/internal/verifgen"
	"github.com/tendermint/tendermint/libs/pubsub/query"
	"github.com/tendermint/tendermint/types"
)

type b19Attr struct {
	k, v string
	idx  bool
}
type b19Event struct {
	typ   string
	attrs []b19Attr
}
type b19Block struct {
	height     int64
	begin, end []b19Event
	ok         bool // Index returned nil
}

const (
	b19Le = iota
	b19Ge
	b19Lt
	b19Gt
	b19Eq
	b19Contains
	b19Exists
)

var b19OpText = []string{"<=", ">=", "<", ">", "=", "CONTAINS", "EXISTS"}
var b19OpCoq = []string{"OpLe", "OpGe", "OpLt", "OpGt", "OpEq", "OpContains", "OpExists"}

const (
	b19Str = iota
	b19Int
	b19Time // TIME <RFC3339>
	b19Date // DATE <YYYY-MM-DD>
	b19None
)

type b19Cond struct {
	key  string
	op   int
	kind int
	s    string
	n    int64
}

func b19Abci(evs []b19Event) []abci.Event {
	var out []abci.Event
	for _, e := range evs {
		ev := abci.Event{Type: e.typ}
		for _, a := range e.attrs {
			ev.Attributes = append(ev.Attributes, abci.EventAttribute{Key: []byte(a.k), Value: []byte(a.v), Index: a.idx})
		}
		out = append(out, ev)
	}
	return out
}

func (b *b19Block) data() types.EventDataNewBlockHeader {
	return types.EventDataNewBlockHeader{
		Header:           types.Header{Height: b.height},
		ResultBeginBlock: abci.ResponseBeginBlock{Events: b19Abci(b.begin)},
		ResultEndBlock:   abci.ResponseEndBlock{Events: b19Abci(b.end)},
	}
}

// (type.key, value) of what the indexer is asked to index, BeginBlock first, then the height
func (b *b19Block) attrs() [][2]string {
	var out [][2]string
	for _, evs := range [][]b19Event{b.begin, b.end} {
		for _, e := range evs {
			if len(e.typ) == 0 {
				continue
			}
			for _, a := range e.attrs {
				if len(a.k) == 0 || !a.idx {
					continue
				}
				out = append(out, [2]string{e.typ + "." + a.k, a.v})
			}
		}
	}
	return append(out, [2]string{types.BlockHeightKey, strconv.FormatInt(b.height, 10)})
}

// the event map the query matcher is applied to
func (b *b19Block) eventMap() map[string][]string {
	m := map[string][]string{}
	for _, kv := range b.attrs() {
		m[kv[0]] = append(m[kv[0]], kv[1])
	}
	return m
}

func (b *b19Block) vals(k string) []string {
	var out []string
	for _, kv := range b.attrs() {
		if kv[0] == k {
			out = append(out, kv[1])
		}
	}
	return out
}

func b19S(s string) string {
	if strings.ContainsAny(s, "\"") {
		panic("b19: double quote in a generated string")
	}
	return `"` + s + `"`
}

func b19EventsCoq(evs []b19Event) string {
	var out []string
	for _, e := range evs {
		var as []string
		for _, a := range e.attrs {
			as = append(as, vg.Tup(b19S(a.k), b19S(a.v), vg.B(a.idx)))
		}
		out = append(out, vg.Tup(b19S(e.typ), vg.L(as)))
	}
	return vg.L(out)
}

func b19EventsText(evs []b19Event) string {
	var out []string
	for _, e := range evs {
		var as []string
		for _, a := range e.attrs {
			as = append(as, fmt.Sprintf("%q=%q idx=%v", a.k, a.v, a.idx))
		}
		out = append(out, fmt.Sprintf("%q{%s}", e.typ, strings.Join(as, ", ")))
	}
	return "[" + strings.Join(out, " ") + "]"
}

func (c b19Cond) text() string {
	switch c.kind {
	case b19None:
		return c.key + " EXISTS"
	case b19Str:
		return fmt.Sprintf("%s %s '%s'", c.key, b19OpText[c.op], c.s)
	case b19Int:
		return fmt.Sprintf("%s %s %d", c.key, b19OpText[c.op], c.n)
	case b19Time:
		return fmt.Sprintf("%s %s TIME %s", c.key, b19OpText[c.op], c.s)
	case b19Date:
		return fmt.Sprintf("%s %s DATE %s", c.key, b19OpText[c.op], c.s)
	}
	panic("b19: kind")
}

func (c b19Cond) coq() string {
	arg := "ONone"
	switch c.kind {
	case b19Str:
		arg = vg.App("OStr", b19S(c.s))
	case b19Int:
		arg = vg.App("OInt", vg.Z(c.n))
	case b19Time:
		tm, err := time.Parse(time.RFC3339, c.s)
		if err != nil {
			panic(err)
		}
		arg = vg.App("OTime", vg.Z(tm.Unix()))
	case b19Date:
		tm, err := time.Parse("2006-01-02", c.s)
		if err != nil {
			panic(err)
		}
		arg = vg.App("OTime", vg.Z(tm.Unix()))
	}
	return vg.Tup(b19S(c.key), b19OpCoq[c.op], arg)
}

func b19QueryText(conds []b19Cond) string {
	var parts []string
	for _, c := range conds {
		parts = append(parts, c.text())
	}
	return strings.Join(parts, " AND ")
}

// b19Run executes one case on the real indexer and returns (Coq term, description, nontrivial).
func b19Run(hist []*b19Block, queries [][]b19Cond) (string, string, bool) {
	idx := New(db.NewMemDB())
	var histT, descr []string
	for _, b := range hist {
		err := idx.Index(b.data())
		b.ok = err == nil
		histT = append(histT, vg.Tup(vg.Z(b.height), b19EventsCoq(b.begin), b19EventsCoq(b.end), vg.B(b.ok)))
		descr = append(descr, fmt.Sprintf("Index(height=%d begin=%s end=%s) -> nil? %v", b.height,
			b19EventsText(b.begin), b19EventsText(b.end), b.ok))
	}
	// Has for every height of the history, its successor and 0
	var hasT []string
	seen := map[int64]bool{}
	ask := func(h int64) {
		if seen[h] {
			return
		}
		seen[h] = true
		ok, err := idx.Has(h)
		if err != nil {
			ok = false
		}
		hasT = append(hasT, vg.Tup(vg.Z(h), vg.B(ok)))
		descr = append(descr, fmt.Sprintf("Has(%d) -> %v", h, ok))
	}
	for _, b := range hist {
		ask(b.height)
		ask(b.height + 1)
	}
	ask(0)
	nontrivial := false
	var qsT []string
	for _, conds := range queries {
		var condsT []string
		for _, c := range conds {
			condsT = append(condsT, c.coq())
		}
		text := b19QueryText(conds)
		q, err := query.New(text)
		if err != nil {
			panic(fmt.Sprintf("b19: generated query %q does not parse: %v", text, err))
		}
		// the implementation's answer: heights in the order returned
		ir := "BPanic"
		func() {
			defer func() { recover() }()
			res, err := idx.Search(context.Background(), q)
			if err != nil {
				ir = "BErr"
				return
			}
			if len(res) > 0 {
				nontrivial = true
			}
			ir = vg.App("BOk", vg.ZL(res))
		}()
		// the reference: the real matcher on every block of the history
		var mv []string
		for _, b := range hist {
			code := uint64(2)
			func() {
				defer func() { recover() }()
				ok, err := q.Matches(b.eventMap())
				switch {
				case err != nil:
					code = 2
				case ok:
					code = 1
				default:
					code = 0
				}
			}()
			mv = append(mv, vg.N(code))
		}
		qsT = append(qsT, vg.Tup(vg.L(condsT), ir, vg.L(mv)))
		descr = append(descr, fmt.Sprintf("Search(%q) -> %s ; Matches per Index call -> %s", text, ir, vg.L(mv)))
	}
	return vg.App("BCase", vg.L(histT), vg.L(hasT), vg.L(qsT)), strings.Join(descr, "\n"), nontrivial
}

// ---------------------------------------------------------------- Go copy of the known classes
// (only used to sort queries into cases; the verdicts are computed in Coq)

func b19Canonical(v string) bool {
	n, err := strconv.ParseInt(v, 10, 64)
	return err == nil && n >= 0 && strconv.FormatInt(n, 10) == v
}
func b19DigitFree(v string) bool { return !strings.ContainsAny(v, "0123456789.") }

func b19NumBad(b *b19Block, k string) bool {
	vs := b.vals(k)
	allFree := true
	for _, v := range vs {
		allFree = allFree && b19DigitFree(v)
	}
	for _, v := range vs {
		if !b19Canonical(v) && !allFree {
			return true
		}
	}
	return false
}

// the first known class the query is in ("" = domain)
func b19Class(hist []*b19Block, conds []b19Cond) string {
	for _, c := range conds {
		if c.kind == b19Time || c.kind == b19Date {
			return "36_time"
		}
	}
	for _, c := range conds {
		lo, hi := 0, 0
		for _, d := range conds {
			if d.key != c.key {
				continue
			}
			switch d.op {
			case b19Gt, b19Ge:
				lo++
			case b19Lt, b19Le:
				hi++
			}
		}
		if lo > 1 || hi > 1 {
			return "25_merged_ranges"
		}
		if lo > 0 && hi > 0 {
			for _, b := range hist {
				if len(b.vals(c.key)) > 1 {
					return "25_merged_ranges"
				}
			}
		}
	}
	for _, c := range conds {
		if c.op == b19Exists && !strings.Contains(c.key, ".") {
			return "38_exists_undotted"
		}
	}
	for _, c := range conds {
		if c.key == types.BlockHeightKey && (c.op == b19Contains || (c.op == b19Eq && c.kind == b19Str)) {
			return "34_height_as_string"
		}
	}
	for _, c := range conds {
		if c.kind != b19Int {
			continue
		}
		for _, b := range hist {
			if b19NumBad(b, c.key) {
				return "37_numeric"
			}
		}
	}
	return ""
}

// ---------------------------------------------------------------- generation

var b19Types = []string{"a", "b"}
var b19Keys = []string{"x", "y"}
var b19StrVals = []string{"p", "q", "pq", "qp", "pp", ""}
var b19OddNums = []string{"007", "x12y", "5.0", "-5", "+3", "1e1", "12.", "p", "", "9223372036854775808"}
var b19Times = []string{"2013-05-03T14:45:00Z", "2013-05-03", "2020-01-01T00:00:00Z", "2013-05-03T16:45:00+02:00", "2013-02-30"}

func b19GenEvents(r *vg.Rand, wild bool, max int) []b19Event {
	var evs []b19Event
	ne := r.Intn(max + 1)
	for e := 0; e < ne; e++ {
		ev := b19Event{typ: b19Types[r.Intn(len(b19Types))]}
		if r.Chance(5) {
			ev.typ = ""
		}
		na := 1 + r.Intn(3)
		for a := 0; a < na; a++ {
			at := b19Attr{k: b19Keys[r.Intn(len(b19Keys))], idx: !r.Chance(20)}
			if at.k == "x" { // numeric attribute
				at.v = fmt.Sprintf("%d", r.Intn(13))
				if wild && r.Chance(25) {
					at.v = b19OddNums[r.Intn(len(b19OddNums))]
				}
			} else {
				at.v = b19StrVals[r.Intn(len(b19StrVals))]
				if wild && r.Chance(25) {
					at.v = b19Times[r.Intn(len(b19Times))]
				}
			}
			if r.Chance(4) {
				at.k = ""
			}
			ev.attrs = append(ev.attrs, at)
		}
		evs = append(evs, ev)
	}
	return evs
}

func b19GenHistory(r *vg.Rand, wild bool) []*b19Block {
	var hist []*b19Block
	nb := 1 + r.Intn(6)
	height := int64(0)
	if r.Chance(10) {
		height = []int64{60, 8188, 1048570, 134217720}[r.Intn(4)] // orderedcode / varint length boundaries
	}
	for i := 0; i < nb; i++ {
		height += int64(1 + r.Intn(3))
		b := &b19Block{height: height, begin: b19GenEvents(r, wild, 2), end: b19GenEvents(r, wild, 2)}
		if r.Chance(3) { // the reserved composite key: Index rejects the whole block
			b.end = append(b.end, b19Event{typ: "block", attrs: []b19Attr{{k: "height", v: "1", idx: r.Bool()}}})
		}
		hist = append(hist, b)
		if r.Chance(8) { // the same block again (replay after a crash)
			hist = append(hist, &b19Block{height: b.height, begin: b.begin, end: b.end})
		} else if r.Chance(4) && len(hist) > 1 { // an earlier height again, with other events
			old := hist[r.Intn(len(hist)-1)]
			hist = append(hist, &b19Block{height: old.height, begin: b19GenEvents(r, wild, 2), end: b19GenEvents(r, wild, 2)})
		}
	}
	return hist
}

// a query of the query language over the history's vocabulary (any class)
func b19GenQuery(r *vg.Rand, hist []*b19Block, wild bool) []b19Cond {
	maxH, minH := int64(1), int64(1)
	if len(hist) > 0 {
		minH = hist[0].height
	}
	for _, b := range hist {
		if b.height > maxH {
			maxH = b.height
		}
	}
	height := func() int64 {
		switch k := r.Intn(10); {
		case k < 6:
			return hist[r.Intn(len(hist))].height
		case k < 7:
			return maxH + 1
		case k < 8:
			return 0
		default:
			return minH + r.Int63n(maxH-minH+2)
		}
	}
	num := func() int64 {
		if r.Chance(10) {
			return int64(50 + r.Intn(50)) // matches nothing
		}
		return int64(r.Intn(14))
	}
	nc := 1 + r.Intn(4)
	var conds []b19Cond
	for len(conds) < nc {
		tag := b19Types[r.Intn(2)] + "." + b19Keys[r.Intn(2)]
		isHeight := false
		switch k := r.Intn(100); {
		case k < 18:
			tag, isHeight = types.BlockHeightKey, true
		case k < 24:
			tag = []string{"c.z", "a.z", "block.x"}[r.Intn(3)] // never indexed
		case k < 27 && wild:
			tag = []string{"a", "b", "block", "c"}[r.Intn(4)] // no dot
		}
		numeric := isHeight || strings.HasSuffix(tag, ".x")
		var c b19Cond
		switch k := r.Intn(100); {
		case k < 28: // range, integer operand (also over string-valued keys)
			if !numeric && !r.Chance(30) {
				continue
			}
			c = b19Cond{key: tag, op: r.Intn(4), kind: b19Int, n: num()}
			if isHeight {
				c.n = height()
			}
		case k < 42: // integer equality
			if !numeric && !r.Chance(20) {
				continue
			}
			c = b19Cond{key: tag, op: b19Eq, kind: b19Int, n: num()}
			if isHeight {
				c.n = height()
			}
		case k < 60: // string equality
			c = b19Cond{key: tag, op: b19Eq, kind: b19Str, s: b19StrVals[r.Intn(len(b19StrVals))]}
			switch {
			case isHeight:
				if !wild || !r.Chance(30) {
					continue
				}
				c.s = strconv.FormatInt(height(), 10)
			case numeric:
				c.s = fmt.Sprintf("%d", r.Intn(13))
				if wild && r.Chance(30) {
					c.s = b19OddNums[r.Intn(len(b19OddNums))]
				}
			case r.Chance(10):
				c.s = "zz" // matches nothing
			case wild && r.Chance(20):
				c.s = b19Times[r.Intn(len(b19Times))]
			}
		case k < 76:
			if isHeight && (!wild || !r.Chance(30)) {
				continue
			}
			c = b19Cond{key: tag, op: b19Contains, kind: b19Str, s: []string{"p", "q", "pq", "1", "", "zz", "-"}[r.Intn(7)]}
		case k < 92:
			c = b19Cond{key: tag, op: b19Exists, kind: b19None}
		default: // TIME / DATE operands
			if !wild {
				continue
			}
			c = b19Cond{key: tag, op: r.Intn(5), kind: b19Time, s: []string{"2013-05-03T14:45:00Z", "2019-01-01T00:00:00Z"}[r.Intn(2)]}
			if r.Bool() {
				c.kind, c.s = b19Date, []string{"2013-05-03", "2019-01-01"}[r.Intn(2)]
			}
		}
		if !strings.Contains(c.key, ".") && c.op != b19Exists && !r.Chance(20) {
			continue
		}
		conds = append(conds, c)
	}
	return conds
}

// ---------------------------------------------------------------- directed cases

func b19A(k, v string) b19Attr { return b19Attr{k: k, v: v, idx: true} }
func b19E(typ string, attrs ...b19Attr) []b19Event {
	return []b19Event{{typ: typ, attrs: attrs}}
}
func b19B(h int64, begin, end []b19Event) *b19Block {
	return &b19Block{height: h, begin: begin, end: end}
}
func b19Q(conds ...b19Cond) []b19Cond { return conds }
func b19CS(key string, op int, s string) b19Cond {
	return b19Cond{key: key, op: op, kind: b19Str, s: s}
}
func b19CI(key string, op int, n int64) b19Cond {
	return b19Cond{key: key, op: op, kind: b19Int, n: n}
}
func b19CE(key string) b19Cond { return b19Cond{key: key, op: b19Exists, kind: b19None} }
func b19CT(key string, op int, s string) b19Cond {
	return b19Cond{key: key, op: op, kind: b19Time, s: s}
}
func b19CD(key string, op int, s string) b19Cond {
	return b19Cond{key: key, op: op, kind: b19Date, s: s}
}

type b19Directed struct {
	kind    string
	hist    func() []*b19Block
	queries [][]b19Cond
}

// ten blocks: a.y = p (q at heights divisible by 3) in BeginBlock, b.x = height in EndBlock
func b19Ten() []*b19Block {
	var hist []*b19Block
	for h := int64(1); h <= 10; h++ {
		y := "p"
		if h%3 == 0 {
			y = "q"
		}
		hist = append(hist, b19B(h, b19E("a", b19A("y", y)), b19E("b", b19A("x", fmt.Sprintf("%d", h)))))
	}
	return hist
}

func b19DirectedCases() []b19Directed {
	H := types.BlockHeightKey
	var ds []b19Directed
	// a range condition that matches nothing next to =, CONTAINS, EXISTS conditions that do
	// (first condition empty => every later condition is skipped), in both textual orders,
	// with one and with two range keys
	ds = append(ds, b19Directed{"empty_range_then_others", b19Ten, [][]b19Cond{
		b19Q(b19CI("b.x", b19Gt, 100), b19CS("a.y", b19Eq, "p")),
		b19Q(b19CS("a.y", b19Eq, "q"), b19CI("b.x", b19Lt, 1)),
		b19Q(b19CI("b.x", b19Ge, 11), b19CS("a.y", b19Contains, "p")),
		b19Q(b19CI("b.x", b19Gt, 100), b19CE("a.y")),
		b19Q(b19CI("b.x", b19Gt, 100), b19CE(H)),
		b19Q(b19CI("c.z", b19Gt, 0), b19CS("a.y", b19Eq, "p")),
		b19Q(b19CI(H, b19Gt, 10), b19CS("a.y", b19Eq, "p")),
		b19Q(b19CI(H, b19Lt, 1), b19CE("b.x"), b19CS("a.y", b19Contains, "")),
		b19Q(b19CI("b.x", b19Gt, 100), b19CI("b.x", b19Eq, 4)),
	}})
	ds = append(ds, b19Directed{"empty_range_two_range_keys", b19Ten, [][]b19Cond{
		b19Q(b19CI("b.x", b19Gt, 100), b19CI(H, b19Ge, 1), b19CS("a.y", b19Eq, "p")),
		b19Q(b19CI(H, b19Ge, 1), b19CI("b.x", b19Gt, 100), b19CS("a.y", b19Eq, "p")),
		b19Q(b19CI(H, b19Gt, 10), b19CI("b.x", b19Ge, 1), b19CE("a.y")),
		b19Q(b19CI("b.x", b19Ge, 4), b19CI(H, b19Le, 7), b19CS("a.y", b19Eq, "q")),
	}})
	// an "=" / CONTAINS / EXISTS condition that matches nothing first, then conditions that do
	ds = append(ds, b19Directed{"empty_first_condition", b19Ten, [][]b19Cond{
		b19Q(b19CS("a.y", b19Eq, "zz"), b19CE("b.x")),
		b19Q(b19CS("a.y", b19Contains, "zz"), b19CS("a.y", b19Eq, "p")),
		b19Q(b19CE("c.z"), b19CS("a.y", b19Eq, "p")),
		b19Q(b19CS("a.y", b19Eq, "p"), b19CS("a.y", b19Eq, "zz"), b19CE("b.x")),
		b19Q(b19CI("b.x", b19Ge, 4), b19CS("a.y", b19Eq, "zz"), b19CE("b.x")),
	}})
	// F47: block.height = H next to other conditions
	ds = append(ds, b19Directed{"f47_height_with_other_conditions", b19Ten, [][]b19Cond{
		b19Q(b19CI(H, b19Eq, 3), b19CS("a.y", b19Eq, "p")),
		b19Q(b19CS("a.y", b19Eq, "p"), b19CI(H, b19Eq, 3)),
		b19Q(b19CI(H, b19Eq, 3), b19CS("a.y", b19Eq, "q")),
		b19Q(b19CI(H, b19Eq, 3), b19CI(H, b19Eq, 5)),
		b19Q(b19CI(H, b19Eq, 3), b19CI(H, b19Eq, 3)),
		b19Q(b19CI(H, b19Eq, 4), b19CI("b.x", b19Gt, 4)),
		b19Q(b19CI(H, b19Eq, 4), b19CI("b.x", b19Ge, 4)),
		b19Q(b19CI(H, b19Eq, 4), b19CI(H, b19Lt, 4)),
		b19Q(b19CI(H, b19Eq, 11), b19CE("a.y")),
		b19Q(b19CE("c.z"), b19CI(H, b19Eq, 2)),
		b19Q(b19CI(H, b19Eq, 2), b19CE("c.z")),
		b19Q(b19CI(H, b19Eq, 5)), b19Q(b19CI(H, b19Eq, 11)), b19Q(b19CI(H, b19Eq, 0)),
	}})
	// F47 (guard): "=" on block.height with an operand that is not an integer must not panic
	ds = append(ds, b19Directed{"f47_height_operand_not_int", b19Ten, [][]b19Cond{
		b19Q(b19CS(H, b19Eq, "zz")),
		b19Q(b19CS("a.y", b19Eq, "p"), b19CS(H, b19Eq, "zz")),
		b19Q(b19CD(H, b19Eq, "2013-05-03")),
	}})
	// known 34: block.height compared as a string
	ds = append(ds, b19Directed{"known34_height_as_string", b19Ten, [][]b19Cond{
		b19Q(b19CS(H, b19Eq, "5")),
		b19Q(b19CS(H, b19Contains, "1")),
		b19Q(b19CE("a.y"), b19CS(H, b19Contains, "")),
	}})
	// known 25: merged ranges
	ds = append(ds, b19Directed{"known25_merged_ranges", func() []*b19Block {
		return []*b19Block{
			b19B(1, b19E("a", b19A("x", "3")), nil), b19B(2, b19E("a", b19A("x", "1")), nil),
			b19B(3, nil, b19E("a", b19A("x", "8"))), b19B(4, b19E("a", b19A("x", "1")), b19E("a", b19A("x", "10")))}
	}, [][]b19Cond{
		b19Q(b19CI("a.x", b19Gt, 5), b19CI("a.x", b19Gt, 1)),
		b19Q(b19CI("a.x", b19Ge, 5), b19CI("a.x", b19Gt, 1)),
		b19Q(b19CI("a.x", b19Lt, 2), b19CI("a.x", b19Lt, 9)),
		b19Q(b19CI("a.x", b19Gt, 5), b19CI("a.x", b19Lt, 3)),
		b19Q(b19CI("a.x", b19Gt, 1), b19CI("a.x", b19Gt, 5)),
		b19Q(b19CI(H, b19Gt, 1), b19CI(H, b19Ge, 1)),
	}})
	// known 36: TIME / DATE operands (and the panic of a range mixing an integer bound with an
	// inclusive TIME bound)
	ds = append(ds, b19Directed{"known36_time", func() []*b19Block {
		return []*b19Block{
			b19B(1, b19E("a", b19A("y", "2013-05-03T14:45:00Z")), nil), b19B(2, b19E("a", b19A("y", "2013-05-03")), nil),
			b19B(3, nil, b19E("a", b19A("y", "2020-01-01T00:00:00Z"), b19A("x", "7")))}
	}, [][]b19Cond{
		b19Q(b19CT("a.y", b19Eq, "2013-05-03T14:45:00Z")),
		b19Q(b19CT("a.y", b19Ge, "2013-05-03T14:45:00Z")),
		b19Q(b19CD("a.y", b19Eq, "2013-05-03")),
		b19Q(b19CD("a.y", b19Lt, "2030-01-01"), b19CI(H, b19Ge, 1)),
		b19Q(b19CI("a.x", b19Gt, 5), b19CT("a.x", b19Le, "2013-05-03T14:45:00Z")),
		b19Q(b19CI("a.x", b19Gt, 5), b19CT("a.x", b19Lt, "2013-05-03T14:45:00Z")),
		b19Q(b19CT("a.x", b19Gt, "2013-05-03T14:45:00Z"), b19CI("a.x", b19Le, 9)),
	}})
	// known 37: the matcher reads the first run of [0-9.], the indexer the whole value
	ds = append(ds, b19Directed{"known37_numeric", func() []*b19Block {
		return []*b19Block{
			b19B(1, b19E("a", b19A("x", "x12y")), nil), b19B(2, b19E("a", b19A("x", "007")), nil),
			b19B(3, b19E("a", b19A("x", "5.0")), nil), b19B(4, b19E("a", b19A("x", "-5")), nil),
			b19B(5, b19E("a", b19A("x", "12")), nil), b19B(6, b19E("a", b19A("x", "p"), b19A("x", "9")), nil),
			b19B(7, b19E("a", b19A("x", "9")), b19E("a", b19A("x", "p"))), b19B(8, b19E("a", b19A("x", "p")), nil)}
	}, [][]b19Cond{
		b19Q(b19CI("a.x", b19Gt, 6)), b19Q(b19CI("a.x", b19Eq, 7)), b19Q(b19CI("a.x", b19Eq, 5)),
		b19Q(b19CI("a.x", b19Lt, 0)), b19Q(b19CI("a.x", b19Eq, 12)), b19Q(b19CI("a.x", b19Le, 12)),
		b19Q(b19CI("a.x", b19Eq, 9)),
	}})
	// ranges over values without any digit (single-valued): matcher and indexer agree
	ds = append(ds, b19Directed{"range_over_non_numeric", func() []*b19Block {
		return []*b19Block{b19B(1, b19E("a", b19A("y", "p")), nil), b19B(2, b19E("a", b19A("y", "7")), nil),
			b19B(3, b19E("a", b19A("y", "")), nil)}
	}, [][]b19Cond{
		b19Q(b19CI("a.y", b19Gt, 5)), b19Q(b19CI("a.y", b19Le, 7)), b19Q(b19CI("a.y", b19Eq, 7)),
		b19Q(b19CI("a.y", b19Ge, 0), b19CE("a.y")),
	}})
	// known 38: EXISTS on a key without a dot
	ds = append(ds, b19Directed{"known38_exists_undotted", func() []*b19Block {
		return []*b19Block{b19B(1, b19E("a", b19A("y", "p")), nil), b19B(2, b19E("a", b19Attr{k: "y", v: "p", idx: false}), nil)}
	}, [][]b19Cond{b19Q(b19CE("a")), b19Q(b19CE("block")), b19Q(b19CE("a.y")), b19Q(b19CE("b")), b19Q(b19CE(H))}})
	// the reserved composite key: Index rejects the whole block (nothing of it is written)
	ds = append(ds, b19Directed{"reserved_key", func() []*b19Block {
		return []*b19Block{
			b19B(1, b19E("a", b19A("y", "p")), nil),
			b19B(2, b19E("a", b19A("y", "p")), b19E("block", b19A("height", "1"))),
			b19B(3, b19E("block", b19Attr{k: "height", v: "9", idx: false}), b19E("a", b19A("y", "p"))),
			b19B(4, b19E("a", b19A("y", "q")), b19E("block", b19A("", "1"), b19A("heigh", "1")))}
	}, [][]b19Cond{b19Q(b19CS("a.y", b19Eq, "p")), b19Q(b19CE(H)), b19Q(b19CI(H, b19Eq, 2)), b19Q(b19CI(H, b19Ge, 2)),
		b19Q(b19CS("block.heigh", b19Eq, "1"))}})
	// re-indexing a height: with the same events (replay), with other events (union of keys)
	ds = append(ds, b19Directed{"reindex_same", func() []*b19Block {
		return []*b19Block{b19B(1, b19E("a", b19A("y", "p")), nil), b19B(2, b19E("a", b19A("y", "q")), nil),
			b19B(1, b19E("a", b19A("y", "p")), nil)}
	}, [][]b19Cond{b19Q(b19CS("a.y", b19Eq, "p")), b19Q(b19CE("a.y")), b19Q(b19CI(H, b19Le, 1))}})
	ds = append(ds, b19Directed{"reindex_other_events", func() []*b19Block {
		return []*b19Block{b19B(1, b19E("a", b19A("y", "p")), nil), b19B(1, b19E("a", b19A("y", "q")), nil)}
	}, [][]b19Cond{b19Q(b19CS("a.y", b19Eq, "p")), b19Q(b19CS("a.y", b19Eq, "q")), b19Q(b19CI(H, b19Eq, 1))}})
	// heights around the length boundaries of the orderedcode / varint encodings
	ds = append(ds, b19Directed{"large_heights", func() []*b19Block {
		var hist []*b19Block
		for _, h := range []int64{63, 64, 8191, 8192, 1048575, 1048576, 1 << 40} {
			hist = append(hist, b19B(h, b19E("a", b19A("x", fmt.Sprintf("%d", h%10))), nil))
		}
		return hist
	}, [][]b19Cond{
		b19Q(b19CI(H, b19Gt, 63)), b19Q(b19CI(H, b19Le, 8191)), b19Q(b19CI(H, b19Ge, 64), b19CI(H, b19Lt, 1048576)),
		b19Q(b19CI(H, b19Eq, 8192)), b19Q(b19CI(H, b19Eq, 8192), b19CI("a.x", b19Eq, 2)), b19Q(b19CE(H)),
		b19Q(b19CI("a.x", b19Ge, 0)), b19Q(b19CI(H, b19Eq, 1<<40), b19CE("a.x")),
	}})
	// multi-valued attributes (within and across BeginBlock / EndBlock), Index=false, empty
	// type / key, repeated pairs; range boundaries
	ds = append(ds, b19Directed{"multi_valued", func() []*b19Block {
		return []*b19Block{
			{height: 3, begin: []b19Event{
				{typ: "a", attrs: []b19Attr{b19A("y", "p"), b19A("y", "q"), b19A("y", "p"), {k: "y", v: "pq", idx: false}}},
				{typ: "", attrs: []b19Attr{b19A("y", "qp")}}},
				end: []b19Event{{typ: "a", attrs: []b19Attr{b19A("", "qp"), b19A("x", "4"), b19A("x", "11"), b19A("y", "p")}}}},
			{height: 4, begin: b19E("a", b19A("y", "q")), end: b19E("b", b19A("y", "p"))}}
	}, [][]b19Cond{
		b19Q(b19CS("a.y", b19Eq, "p"), b19CS("a.y", b19Eq, "q")),
		b19Q(b19CS("a.y", b19Eq, "pq")), b19Q(b19CS("a.y", b19Contains, "pq")), b19Q(b19CS("a.y", b19Eq, "qp")),
		b19Q(b19CI("a.x", b19Gt, 5)), b19Q(b19CI("a.x", b19Lt, 5)), b19Q(b19CI("a.x", b19Eq, 11), b19CS("a.y", b19Contains, "")),
		b19Q(b19CE("b.y"), b19CE("a.y")), b19Q(b19CE("b.y"), b19CS("a.y", b19Eq, "p")),
		b19Q(b19CI("a.x", b19Gt, 4)), b19Q(b19CI("a.x", b19Ge, 4)), b19Q(b19CI("a.x", b19Lt, 4)), b19Q(b19CI("a.x", b19Le, 4)),
		b19Q(b19CI("a.x", b19Gt, 11)),
	}})
	return ds
}

// ---------------------------------------------------------------- the test

func TestVerifC19Block(t *testing.T) {
	root := vg.NewRand(vg.Seed() ^ 0xb10c19)
	cs := vg.NewCases("C19", "c19_block", "TM.C19.Exec")
	cs.CaseType = "bcase"
	cs.CheckFn = "bcheck"
	for _, d := range b19DirectedCases() {
		id := cs.NextID()
		if !cs.Want(id) {
			continue
		}
		term, descr, nt := b19Run(d.hist(), d.queries)
		cs.Add(id, "directed_"+d.kind, nt, term, descr)
	}
	// every random history owns a fixed block of ids: 1 domain case + up to b19Wild wild cases
	const b19Wild = 3
	n := vg.Scale(170, 3000)
	for k := 0; k < n; k++ {
		ids := make([]int, 1+b19Wild)
		want := false
		for i := range ids {
			ids[i] = cs.NextID()
			want = want || cs.Want(ids[i])
		}
		if !want {
			continue
		}
		r := root.Fork(uint64(k))
		wild := k%3 == 2 // histories with odd numbers, time-like values
		hist := b19GenHistory(r, wild)
		nq := 5 + r.Intn(5)
		var domain [][]b19Cond
		var wildQs [][]b19Cond
		var wildKinds []string
		for j := 0; j < nq; j++ {
			q := b19GenQuery(r, hist, wild || j%3 == 2)
			if cl := b19Class(hist, q); cl != "" {
				if len(wildQs) < b19Wild {
					wildQs = append(wildQs, q)
					wildKinds = append(wildKinds, cl)
				}
				continue
			}
			domain = append(domain, q)
		}
		// every height is searched for (retrievable by block.height)
		seen := map[int64]bool{}
		for _, b := range hist {
			if !seen[b.height] && len(seen) < 3 {
				seen[b.height] = true
				domain = append(domain, b19Q(b19CI(types.BlockHeightKey, b19Eq, b.height)))
			}
		}
		fresh := func() []*b19Block { // Index sets b.ok: give every run its own copies
			var out []*b19Block
			for _, b := range hist {
				out = append(out, &b19Block{height: b.height, begin: b.begin, end: b.end})
			}
			return out
		}
		if cs.Want(ids[0]) {
			term, descr, nt := b19Run(fresh(), domain)
			cs.Add(ids[0], "random_domain", nt, term, descr)
			cs.Count("queries", len(domain))
			cs.Count("blocks", len(hist))
		}
		for i, q := range wildQs {
			if cs.Want(ids[1+i]) {
				term, descr, nt := b19Run(fresh(), [][]b19Cond{q})
				cs.Add(ids[1+i], "random_wild_"+wildKinds[i], nt, term, descr)
				cs.Count("queries", 1)
			}
		}
	}
	if err := cs.Write(); err != nil {
		t.Fatal(err)
	}
}
