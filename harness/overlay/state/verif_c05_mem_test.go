//go:build verif

package state

// C05 (mempool lock clause) correspondence harness — injected with `go test -overlay`.
//
// The REAL BlockExecutor.Commit (state/execution.go) is driven with the REAL mempools
// (mempool/v0 CListMempool, mempool/v1 TxMempool) over the real ABCI clients (local client and
// socket client + socket server) and a recording application, concurrently with submitter
// goroutines calling Mempool.CheckTx.  Thin recording delegates are placed
//   - around proxy.AppConnMempool (every CheckTxAsync/CheckTxSync New|Recheck issue, FlushSync
//     start/return, FlushAsync),
//   - around proxy.AppConnConsensus (CommitSync request),
//   - around the mempool.Mempool handed to the BlockExecutor (Lock, FlushAppConn entry/return,
//     Update entry/return, Unlock; the pre/post-check hooks passed to Update are composed with
//     recording hooks: the pre-check runs under the read lock in both mempools, the post-check
//     runs under the write lock in v1's addNewTransaction/handleRecheckResult),
//   - in the application (CheckTx New|Recheck executed, Commit executed).
// All events go to one mutex-protected list, which is the case handed to Coq
// (coq/C05/ExecMem.v: monitors of the clause + replay through the interleaving model).
//
// Event log discipline (needed so that the log order is a real order): lock acquisitions are
// logged after they happened, releases before they happen; the issue of a request and its
// entering the connection are made atomic by issueMu (for sync calls it is held until the call
// returns: with the local client that is what the client's own mutex does anyway, with the
// socket client it serialises v1's CheckTxSync calls — a restriction of the sampled schedules,
// never a source of false alarms).
//
// Schedules: "free" = free-running goroutines with PRNG-chosen yields/sleeps (SAMPLED real
// scheduling, not exhaustive); "dirB", "dirA", "dirW", "dirF" = directed schedules that force
// the interesting orders with rendezvous hooks (each wait has a timeout, so variants in which
// the forced order is impossible simply proceed).

import (
	"encoding/binary"
	"fmt"
	"os"
	"os/exec"
	"path/filepath"
	"runtime"
	"strconv"
	"strings"
	"sync"
	"testing"
	"time"

	abcicli "github.com/tendermint/tendermint/abci/client"
	abciserver "github.com/tendermint/tendermint/abci/server"
	abci "github.com/tendermint/tendermint/abci/types"
	"github.com/tendermint/tendermint/config"
	vg "github.com/tendermint/tendermint/internal/verifgen"
	"github.com/tendermint/tendermint/libs/log"
	mempl "github.com/tendermint/tendermint/mempool"
	mempoolv0 "github.com/tendermint/tendermint/mempool/v0"
	mempoolv1 "github.com/tendermint/tendermint/mempool/v1"
	"github.com/tendermint/tendermint/proxy"
	"github.com/tendermint/tendermint/types"
)

// ---------------------------------------------------------------- event log

type c05mEv struct {
	k    string // Coq constructor
	a, b int
	blk  []int
	args int // number of nat arguments printed (0, 1, 2); EUpdate prints blk and a
}

type c05mRec struct {
	out    *os.File // every event is appended here as it is logged (survives an abort of the process)
	mu     sync.Mutex
	closed bool
	evs    []c05mEv
	anom   []string
	// rendezvous hooks of the directed schedules (nil = none)
	beforeIssue func(recheck bool, t int)
	onCommitReq func()
	afterCommit func()
	inPre       func(t int)
}

func (r *c05mRec) log(e c05mEv) int {
	r.mu.Lock()
	defer r.mu.Unlock()
	if r.closed { // a straggler goroutine of a finished run must not write into the next one
		return len(r.evs)
	}
	r.evs = append(r.evs, e)
	if r.out != nil {
		b := make([]string, len(e.blk))
		for i, t := range e.blk {
			b[i] = strconv.Itoa(t)
		}
		fmt.Fprintf(r.out, "E %s %d %d %d %s\n", e.k, e.args, e.a, e.b, strings.Join(b, ","))
	}
	return len(r.evs) - 1
}
func (r *c05mRec) patchA(i, a int) {
	r.mu.Lock()
	if r.closed || i >= len(r.evs) {
		r.mu.Unlock()
		return
	}
	r.evs[i].a = a
	if r.out != nil {
		fmt.Fprintf(r.out, "P %d %d\n", i, a)
	}
	r.mu.Unlock()
}
func (r *c05mRec) anomaly(s string) {
	r.mu.Lock()
	if r.closed {
		r.mu.Unlock()
		return
	}
	r.anom = append(r.anom, s)
	if r.out != nil {
		fmt.Fprintf(r.out, "A %s\n", strings.ReplaceAll(s, "\n", " "))
	}
	r.mu.Unlock()
}
func (r *c05mRec) count(pred func(c05mEv) bool) int {
	r.mu.Lock()
	defer r.mu.Unlock()
	n := 0
	for _, e := range r.evs {
		if pred(e) {
			n++
		}
	}
	return n
}

// waitFor polls until pred holds for some logged event; false on timeout.
func (r *c05mRec) waitFor(pred func(c05mEv) bool, d time.Duration) bool {
	deadline := time.Now().Add(d)
	for {
		if r.count(pred) > 0 {
			return true
		}
		if time.Now().After(deadline) {
			return false
		}
		time.Sleep(20 * time.Microsecond)
	}
}
func (r *c05mRec) finish() ([]c05mEv, []string) {
	r.mu.Lock()
	defer r.mu.Unlock()
	r.closed = true
	return append([]c05mEv{}, r.evs...), append([]string{}, r.anom...)
}
func (r *c05mRec) snapshot() ([]c05mEv, []string) {
	r.mu.Lock()
	defer r.mu.Unlock()
	return append([]c05mEv{}, r.evs...), append([]string{}, r.anom...)
}

func c05mIs(k string, a, b int) func(c05mEv) bool {
	return func(e c05mEv) bool { return e.k == k && (a < 0 || e.a == a) && (b < 0 || e.b == b) }
}

// transactions: id t = (submitter+1)*100 + seq, 4 bytes big endian
func c05mTx(i, seq int) (int, types.Tx) {
	t := (i+1)*100 + seq
	b := make([]byte, 4)
	binary.BigEndian.PutUint32(b, uint32(t))
	return t, types.Tx(b)
}
func c05mTxID(tx []byte) int {
	if len(tx) != 4 {
		return 0
	}
	return int(binary.BigEndian.Uint32(tx))
}
func c05mSub(t int) int { return t/100 - 1 }

// ---------------------------------------------------------------- recording application

type c05mApp struct {
	abci.BaseApplication
	rec *c05mRec
}

func (a *c05mApp) CheckTx(req abci.RequestCheckTx) abci.ResponseCheckTx {
	t := c05mTxID(req.Tx)
	if req.Type == abci.CheckTxType_Recheck {
		a.rec.log(c05mEv{k: "EProcRe", a: t, args: 1})
		return abci.ResponseCheckTx{Code: abci.CodeTypeOK, GasWanted: 1, Info: "r"}
	}
	a.rec.log(c05mEv{k: "EProcNew", a: c05mSub(t), b: t, args: 2})
	return abci.ResponseCheckTx{Code: abci.CodeTypeOK, GasWanted: 1, Info: "n"}
}
func (a *c05mApp) Commit() abci.ResponseCommit {
	a.rec.log(c05mEv{k: "ECommitProc"})
	return abci.ResponseCommit{}
}

// ---------------------------------------------------------------- recording connections

type c05mMemConn struct {
	inner   proxy.AppConnMempool
	rec     *c05mRec
	issueMu sync.Mutex
}

func (c *c05mMemConn) SetResponseCallback(cb abcicli.Callback) { c.inner.SetResponseCallback(cb) }
func (c *c05mMemConn) Error() error                            { return c.inner.Error() }

func (c *c05mMemConn) issue(req abci.RequestCheckTx) {
	t := c05mTxID(req.Tx)
	if req.Type == abci.CheckTxType_Recheck {
		c.rec.log(c05mEv{k: "EIssueRe", a: t, args: 1})
	} else {
		c.rec.log(c05mEv{k: "EIssueNew", a: c05mSub(t), b: t, args: 2})
	}
}
func (c *c05mMemConn) CheckTxAsync(req abci.RequestCheckTx) *abcicli.ReqRes {
	if h := c.rec.beforeIssue; h != nil {
		h(req.Type == abci.CheckTxType_Recheck, c05mTxID(req.Tx))
	}
	c.issueMu.Lock()
	defer c.issueMu.Unlock()
	c.issue(req)
	return c.inner.CheckTxAsync(req)
}
func (c *c05mMemConn) CheckTxSync(req abci.RequestCheckTx) (*abci.ResponseCheckTx, error) {
	if h := c.rec.beforeIssue; h != nil {
		h(req.Type == abci.CheckTxType_Recheck, c05mTxID(req.Tx))
	}
	c.issueMu.Lock()
	defer c.issueMu.Unlock()
	c.issue(req)
	return c.inner.CheckTxSync(req)
}
func (c *c05mMemConn) FlushAsync() *abcicli.ReqRes {
	c.issueMu.Lock()
	defer c.issueMu.Unlock()
	c.rec.log(c05mEv{k: "EFlushAsync"})
	return c.inner.FlushAsync()
}
func (c *c05mMemConn) FlushSync() error {
	c.issueMu.Lock()
	defer c.issueMu.Unlock()
	c.rec.log(c05mEv{k: "EFlushReq"})
	err := c.inner.FlushSync()
	c.rec.log(c05mEv{k: "EFlushRet"})
	return err
}

type c05mConsConn struct {
	proxy.AppConnConsensus
	rec *c05mRec
}

func (c *c05mConsConn) CommitSync() (*abci.ResponseCommit, error) {
	c.rec.log(c05mEv{k: "ECommitReq"})
	if h := c.rec.onCommitReq; h != nil {
		h()
	}
	res, err := c.AppConnConsensus.CommitSync()
	if h := c.rec.afterCommit; h != nil {
		h()
	}
	return res, err
}

// ---------------------------------------------------------------- recording mempool delegate

type c05mPool struct {
	mempl.Mempool // the real CListMempool / TxMempool
	rec           *c05mRec
	v1, recheck   bool
}

func (p *c05mPool) Lock() { p.Mempool.Lock(); p.rec.log(c05mEv{k: "ELock"}) }
func (p *c05mPool) Unlock() {
	p.rec.log(c05mEv{k: "EUnlock"})
	p.Mempool.Unlock()
}
func (p *c05mPool) FlushAppConn() error {
	p.rec.log(c05mEv{k: "EFlushCall"})
	err := p.Mempool.FlushAppConn()
	p.rec.log(c05mEv{k: "EFlushDone"})
	return err
}
func (p *c05mPool) pre(orig mempl.PreCheckFunc) mempl.PreCheckFunc {
	return func(tx types.Tx) error {
		t := c05mTxID(tx)
		p.rec.log(c05mEv{k: "EPre", a: c05mSub(t), b: t, args: 2})
		if h := p.rec.inPre; h != nil {
			h(t)
		}
		if orig != nil {
			return orig(tx)
		}
		return nil
	}
}
func (p *c05mPool) post(orig mempl.PostCheckFunc) mempl.PostCheckFunc {
	return func(tx types.Tx, res *abci.ResponseCheckTx) error {
		if p.v1 {
			t := c05mTxID(tx)
			if res != nil && res.Info == "r" {
				p.rec.log(c05mEv{k: "EPostRe", a: t, args: 1})
			} else {
				p.rec.log(c05mEv{k: "EPostNew", a: c05mSub(t), b: t, args: 2})
			}
		}
		if orig != nil {
			return orig(tx, res)
		}
		return nil
	}
}
func (p *c05mPool) Update(h int64, txs types.Txs, rs []*abci.ResponseDeliverTx,
	pre mempl.PreCheckFunc, post mempl.PostCheckFunc) error {
	blk := make([]int, len(txs))
	for i, tx := range txs {
		blk[i] = c05mTxID(tx)
	}
	idx := p.rec.log(c05mEv{k: "EUpdate", blk: blk, a: 0})
	err := p.Mempool.Update(h, txs, rs, p.pre(pre), p.post(post))
	// number of rechecks this Update announced = transactions left in the pool (the write lock
	// is still held by the caller; the application accepts every recheck)
	if p.recheck {
		p.rec.patchA(idx, p.Mempool.Size())
	}
	p.rec.log(c05mEv{k: "EUpdRet"})
	return err
}

// ---------------------------------------------------------------- one run

type c05mCfg struct {
	v1, socket, recheck bool
	k, perSub, rounds   int
	kind                string // free | dirB | dirA | dirW | dirF
	overlap             bool   // v1: do not wait for the recheck round before the next Commit
}

type c05mEnv struct {
	rec    *c05mRec
	pool   *c05mPool
	exec   *BlockExecutor
	st     State
	memCli abcicli.Client
	stop   []func()
	height int64
	done   map[int]bool // committed txs
}

func c05mSetup(t *testing.T, cfg c05mCfg, sockDir string, out *os.File) *c05mEnv {
	rec := &c05mRec{out: out}
	app := &c05mApp{rec: rec}
	env := &c05mEnv{rec: rec, done: map[int]bool{}}
	var cc proxy.ClientCreator
	if cfg.socket {
		addr := "unix://" + filepath.Join(sockDir, "a.sock")
		srv := abciserver.NewSocketServer(addr, app)
		if err := srv.Start(); err != nil {
			t.Fatal(err)
		}
		env.stop = append(env.stop, func() { _ = srv.Stop() })
		cc = proxy.NewRemoteClientCreator(addr, "socket", true)
	} else {
		cc = proxy.NewLocalClientCreator(app)
	}
	mk := func() abcicli.Client {
		c, err := cc.NewABCIClient()
		if err != nil {
			t.Fatal(err)
		}
		if err := c.Start(); err != nil {
			t.Fatal(err)
		}
		env.stop = append(env.stop, func() { _ = c.Stop() })
		return c
	}
	env.memCli = mk()
	consCli := mk()
	memConn := &c05mMemConn{inner: proxy.NewAppConnMempool(env.memCli), rec: rec}
	consConn := &c05mConsConn{AppConnConsensus: proxy.NewAppConnConsensus(consCli), rec: rec}
	mc := config.DefaultMempoolConfig()
	mc.Recheck = cfg.recheck
	mc.Broadcast = false
	pool := &c05mPool{rec: rec, v1: cfg.v1, recheck: cfg.recheck}
	if cfg.v1 {
		mc.Version = config.MempoolV1
		pool.Mempool = mempoolv1.NewTxMempool(log.NewNopLogger(), mc, memConn, 0,
			mempoolv1.WithPreCheck(pool.pre(nil)), mempoolv1.WithPostCheck(pool.post(nil)))
	} else {
		pool.Mempool = mempoolv0.NewCListMempool(mc, memConn, 0,
			mempoolv0.WithPreCheck(pool.pre(nil)), mempoolv0.WithPostCheck(pool.post(nil)))
	}
	env.pool = pool
	env.exec = NewBlockExecutor(nil, log.NewNopLogger(), consConn, pool, EmptyEvidencePool{})
	env.st = State{ConsensusParams: *types.DefaultConsensusParams(), Validators: types.NewValidatorSet(nil)}
	return env
}

func (env *c05mEnv) close() {
	for i := len(env.stop) - 1; i >= 0; i-- {
		env.stop[i]()
	}
}

// submit calls the real CheckTx; errors and panics are anomalies.
func (env *c05mEnv) submit(i, seq int) {
	defer func() {
		if r := recover(); r != nil {
			env.rec.anomaly(fmt.Sprintf("panic in CheckTx: %v", r))
		}
	}()
	_, tx := c05mTx(i, seq)
	if err := env.pool.CheckTx(tx, nil, mempl.TxInfo{}); err != nil {
		env.rec.anomaly("CheckTx error: " + err.Error())
	}
}

// commit runs the real BlockExecutor.Commit on a block holding the given txs.
func (env *c05mEnv) commit(blk []int) {
	defer func() {
		if r := recover(); r != nil {
			env.rec.anomaly(fmt.Sprintf("panic in Commit: %v", r))
		}
	}()
	env.height++
	var txs types.Txs
	var rs []*abci.ResponseDeliverTx
	for _, t := range blk {
		b := make([]byte, 4)
		binary.BigEndian.PutUint32(b, uint32(t))
		txs = append(txs, types.Tx(b))
		rs = append(rs, &abci.ResponseDeliverTx{Code: abci.CodeTypeOK})
		env.done[t] = true
	}
	block := &types.Block{Header: types.Header{Height: env.height}, Data: types.Data{Txs: txs}}
	if _, _, err := env.exec.Commit(env.st, block, rs); err != nil {
		env.rec.anomaly("Commit error: " + err.Error())
	}
}

// processed returns the new transactions the application has executed and no block contains.
func (env *c05mEnv) processed() []int {
	env.rec.mu.Lock()
	defer env.rec.mu.Unlock()
	var out []int
	for _, e := range env.rec.evs {
		if e.k == "EProcNew" && !env.done[e.b] {
			out = append(out, e.b)
		}
	}
	return out
}

// drain makes the connection deliver everything queued (socket client; not logged) and waits
// until every announced recheck was executed and the log is stable.
func (env *c05mEnv) quiesce(cfg c05mCfg, strict bool) {
	if cfg.socket {
		_ = env.memCli.FlushSync()
	}
	// Every announced recheck and every issued new check must have been executed.  In v1 the
	// result of a recheck is applied (EPostRe) only if the transaction is still in the pool: with
	// overlapping rounds a later Update may have removed it, which is legal; so the EPostRe events
	// are only waited for during a short grace period and their absence is no anomaly.
	deadline := time.Now().Add(30 * time.Second)
	var grace time.Time
	for {
		evs, _ := env.rec.snapshot()
		want, re, post, issued, procd := 0, 0, 0, 0, 0
		for _, e := range evs {
			switch e.k {
			case "EUpdate":
				want += e.a
			case "EProcRe":
				re++
			case "EPostRe":
				post++
			case "EIssueNew":
				issued++
			case "EProcNew":
				procd++
			}
		}
		if re >= want && issued == procd {
			if !cfg.v1 || post >= re {
				return
			}
			if grace.IsZero() {
				grace = time.Now().Add(30 * time.Millisecond)
			} else if time.Now().After(grace) {
				return
			}
		}
		if time.Now().After(deadline) {
			if strict {
				env.rec.anomaly("run did not become quiescent")
			}
			return
		}
		time.Sleep(100 * time.Microsecond)
	}
}

func c05mDelay(r *vg.Rand) {
	switch r.Intn(5) {
	case 0:
	case 1:
		runtime.Gosched()
	case 2:
		time.Sleep(time.Duration(r.Intn(100)) * time.Microsecond)
	case 3:
		time.Sleep(time.Duration(r.Intn(600)) * time.Microsecond)
	case 4:
		for i := 0; i < r.Intn(3); i++ {
			runtime.Gosched()
		}
	}
}

const c05mWait = 150 * time.Millisecond

func c05mRun(t *testing.T, cfg c05mCfg, rnd *vg.Rand, sockDir string, out *os.File) ([]c05mEv, []string, string) {
	env := c05mSetup(t, cfg, sockDir, out)
	defer env.close()
	rec := env.rec
	note := ""
	switch cfg.kind {
	case "free":
		// SAMPLED: k free-running submitters against `rounds` Commit rounds; yields, sleeps and
		// the block contents are drawn from the case's PRNG stream, the interleaving itself is
		// whatever the Go scheduler does.
		delays := map[int]int{}
		for i := 0; i < cfg.k; i++ {
			for s := 0; s < cfg.perSub; s++ {
				tt, _ := c05mTx(i, s)
				delays[tt] = rnd.Intn(4) * rnd.Intn(150)
			}
		}
		rec.beforeIssue = func(recheck bool, tt int) {
			if d := delays[tt]; !recheck && d > 0 {
				time.Sleep(time.Duration(d) * time.Microsecond)
			}
		}
		var wg sync.WaitGroup
		for i := 0; i < cfg.k; i++ {
			wg.Add(1)
			go func(i int, r *vg.Rand) {
				defer wg.Done()
				for s := 0; s < cfg.perSub; s++ {
					c05mDelay(r)
					env.submit(i, s)
				}
			}(i, rnd.Fork(uint64(100+i)))
		}
		cr := rnd.Fork(7)
		for r := 0; r < cfg.rounds; r++ {
			c05mDelay(cr)
			c05mDelay(cr)
			var blk []int
			for _, tt := range env.processed() {
				if cr.Chance(45) {
					blk = append(blk, tt)
				}
			}
			env.commit(blk)
			if cfg.v1 && !cfg.overlap {
				env.quiesceRechecks()
			}
		}
		wg.Wait()
	default:
		// warm-up: three transactions in the pool, one of them committed in round 1
		for s := 0; s < 3; s++ {
			env.submit(0, s)
		}
		env.quiesce(cfg, false)
		env.commit([]int{100})
		env.quiesce(cfg, false)
		x, _ := c05mTx(1, 0)
		var wg sync.WaitGroup
		switch cfg.kind {
		case "dirB":
			// F13(b): submitter 1 finishes its pre-check phase, is held just before the request
			// reaches the connection until the application has executed Commit; the consensus
			// thread waits after CommitSync for that request to be executed.
			base := rec.count(c05mIs("ECommitProc", -1, -1))
			rec.beforeIssue = func(recheck bool, tt int) {
				if !recheck && tt == x {
					dl := time.Now().Add(c05mWait)
					for rec.count(c05mIs("ECommitProc", -1, -1)) <= base {
						if time.Now().After(dl) {
							note = "order-not-forced"
							return
						}
						time.Sleep(20 * time.Microsecond)
					}
				}
			}
			rec.afterCommit = func() { rec.waitFor(c05mIs("EProcNew", 1, x), c05mWait) }
			wg.Add(1)
			go func() { defer wg.Done(); env.submit(1, 0) }()
			rec.waitFor(c05mIs("EPre", 1, x), c05mWait)
			env.commit([]int{101})
		case "dirA":
			// F13(a): submitter 1 calls CheckTx as soon as the application has executed Commit
			// (it blocks on the mempool lock until Commit returns); the first recheck request is
			// held until that new transaction was executed.
			first := true
			var fm sync.Mutex
			rec.beforeIssue = func(recheck bool, tt int) {
				if recheck {
					fm.Lock()
					f := first
					first = false
					fm.Unlock()
					if f && !rec.waitFor(c05mIs("EProcNew", 1, x), c05mWait) {
						note = "order-not-forced"
					}
				}
			}
			rec.afterCommit = func() {
				wg.Add(1)
				go func() { defer wg.Done(); env.submit(1, 0) }()
			}
			env.commit([]int{101})
		case "dirW":
			// a submitter enters CheckTx when CommitSync is requested; the consensus thread gives
			// it time after the application's Commit.  With a working lock it stays blocked.
			rec.onCommitReq = func() {
				wg.Add(1)
				go func() { defer wg.Done(); env.submit(1, 0) }()
			}
			rec.afterCommit = func() {
				if !rec.waitFor(c05mIs("EProcNew", 1, x), c05mWait/3) {
					note = "blocked-as-expected"
				}
			}
			env.commit([]int{101})
		case "dirF":
			// a burst of CheckTx calls directly followed by Commit: the flush has to drain them
			for s := 0; s < 4; s++ {
				env.submit(1, s)
			}
			env.commit([]int{101})
		}
		wg.Wait()
		rec.beforeIssue, rec.afterCommit, rec.onCommitReq = nil, nil, nil
		env.quiesce(cfg, false)
		// one more ordinary round so that the pool's content after the directed round is checked
		env.commit([]int{102})
	}
	env.quiesce(cfg, true)
	evs, anom := rec.finish()
	return evs, anom, note
}

// quiesceRechecks waits until every announced recheck was executed and applied (v1).
func (env *c05mEnv) quiesceRechecks() {
	deadline := time.Now().Add(5 * time.Second)
	for time.Now().Before(deadline) {
		evs, _ := env.rec.snapshot()
		want, re, post := 0, 0, 0
		for _, e := range evs {
			switch e.k {
			case "EUpdate":
				want += e.a
			case "EProcRe":
				re++
			case "EPostRe":
				post++
			}
		}
		if re >= want && post >= re {
			return
		}
		time.Sleep(50 * time.Microsecond)
	}
}

// ---------------------------------------------------------------- Coq term / description

func c05mTerm(cfg c05mCfg, evs []c05mEv, nanom int) string {
	xs := make([]string, len(evs))
	for i, e := range evs {
		switch {
		case e.k == "EUpdate":
			b := make([]string, len(e.blk))
			for j, t := range e.blk {
				b[j] = vg.Nat(t)
			}
			xs[i] = vg.App("EUpdate", vg.L(b), vg.Nat(e.a))
		case e.args == 0:
			xs[i] = e.k
		case e.args == 1:
			xs[i] = vg.App(e.k, vg.Nat(e.a))
		default:
			xs[i] = vg.App(e.k, vg.Nat(e.a), vg.Nat(e.b))
		}
	}
	return vg.App("Case", vg.B(cfg.v1), vg.B(cfg.recheck), vg.Nat(cfg.k), vg.L(xs), vg.Nat(nanom))
}

func c05mDescr(cfg c05mCfg, evs []c05mEv, anom []string, note string) string {
	var sb strings.Builder
	v, cl := "v0 (CListMempool)", "local ABCI client"
	if cfg.v1 {
		v = "v1 (TxMempool)"
	}
	if cfg.socket {
		cl = "socket ABCI client+server"
	}
	fmt.Fprintf(&sb, "mempool %s, %s, config.Recheck=%v, %d submitters, schedule %s", v, cl, cfg.recheck, cfg.k, cfg.kind)
	if cfg.kind == "free" {
		fmt.Fprintf(&sb, " (sampled goroutine scheduling; %d txs per submitter, %d Commit rounds, overlap=%v)", cfg.perSub, cfg.rounds, cfg.overlap)
	}
	if note != "" {
		sb.WriteString(" [" + note + "]")
	}
	sb.WriteString("; tx id = (submitter+1)*100+seq; recorded events in order:")
	for _, e := range evs {
		switch {
		case e.k == "EUpdate":
			fmt.Fprintf(&sb, " Update(block=%v; %d rechecks announced)", e.blk, e.a)
		case e.args == 0:
			sb.WriteString(" " + e.k[1:])
		case e.args == 1:
			fmt.Fprintf(&sb, " %s(tx %d)", e.k[1:], e.a)
		default:
			fmt.Fprintf(&sb, " %s(sub %d, tx %d)", e.k[1:], e.a, e.b)
		}
	}
	if len(anom) > 0 {
		sb.WriteString("; anomalies: " + strings.Join(anom, " | "))
	}
	return sb.String()
}

// ---------------------------------------------------------------- the test
//
// A broken lock discipline can abort the process in ways no recover() catches: "fatal error:
// sync: Unlock of unlocked RWMutex" in TxMempool.FlushAppConn, or the panic "recheck cursor is
// not nil in reqResCb" raised in the socket client's receive goroutine.  The runs therefore
// execute in a child process (this test binary, TestVerifC05MemChild) that streams every event
// to a file as it is logged; when the child dies the parent keeps the events of the aborted run
// (anomaly "process aborted") and restarts the child behind it.

func c05mCfgs(v1 bool) ([]c05mCfg, int, int) {
	root := vg.NewRand(vg.Seed() ^ 0xc05e)
	var cfgs []c05mCfg
	// directed schedules: every kind, both clients
	for _, kind := range []string{"dirB", "dirA", "dirW", "dirF"} {
		for _, sock := range []bool{false, true} {
			cfgs = append(cfgs, c05mCfg{v1: v1, socket: sock, recheck: true, k: 2, kind: kind})
		}
	}
	cfgs = append(cfgs, c05mCfg{v1: v1, recheck: false, k: 2, kind: "dirB"})
	ndir := len(cfgs)
	nfree := vg.Scale(50, 2000)
	for j := 0; j < nfree; j++ {
		r := root.Fork(uint64(1000 + j))
		cfgs = append(cfgs, c05mCfg{v1: v1, socket: j%2 == 1, recheck: r.Intn(5) != 0,
			k: 2 + r.Intn(3), perSub: 2 + r.Intn(4), rounds: 1 + r.Intn(3), kind: "free", overlap: r.Bool()})
	}
	return cfgs, ndir, nfree
}

func TestVerifC05MemChild(t *testing.T) {
	which := os.Getenv("C05M_CHILD")
	if which == "" {
		return // only meaningful when started by c05mTest
	}
	from, _ := strconv.Atoi(os.Getenv("C05M_FROM"))
	only, err := strconv.Atoi(os.Getenv("C05M_ONLY"))
	if err != nil {
		only = -1
	}
	out, err := os.OpenFile(os.Getenv("C05M_OUT"), os.O_APPEND|os.O_WRONLY|os.O_CREATE, 0o644)
	if err != nil {
		t.Fatal(err)
	}
	defer out.Close()
	root := vg.NewRand(vg.Seed() ^ 0xc05e)
	cfgs, _, _ := c05mCfgs(which == "v1")
	sockDir := t.TempDir()
	for j := from; j < len(cfgs); j++ {
		if only >= 0 && j != only {
			continue
		}
		dir := filepath.Join(sockDir, fmt.Sprintf("c%d", j))
		if err := os.MkdirAll(dir, 0o755); err != nil {
			t.Fatal(err)
		}
		fmt.Fprintf(out, "CASE %d\n", j)
		// watchdog: a broken lock discipline can also deadlock the run (e.g. v1 FlushAppConn
		// re-locking a mutex nobody unlocks); give up on this process, the parent restarts behind it
		done := make(chan string, 1)
		go func(j int) {
			_, _, note := c05mRun(t, cfgs[j], root.Fork(uint64(j)), dir, out)
			done <- note
		}(j)
		select {
		case note := <-done:
			fmt.Fprintf(out, "END %d %s\n", j, note)
		case <-time.After(20 * time.Second):
			fmt.Fprintf(out, "A run hung for 20s (deadlock)\nEND %d hung\n", j)
			_ = out.Sync()
			os.Exit(3)
		}
	}
}

type c05mResult struct {
	evs      []c05mEv
	anom     []string
	note     string
	complete bool
}

func c05mParse(path string) map[int]*c05mResult {
	res := map[int]*c05mResult{}
	data, _ := os.ReadFile(path)
	var cur *c05mResult
	for _, ln := range strings.Split(string(data), "\n") {
		f := strings.SplitN(ln, " ", 2)
		if len(f) < 2 {
			continue
		}
		switch f[0] {
		case "CASE":
			j, _ := strconv.Atoi(f[1])
			cur = &c05mResult{}
			res[j] = cur
		case "END":
			if cur != nil {
				g := strings.SplitN(f[1], " ", 2)
				if len(g) == 2 {
					cur.note = g[1]
				}
				cur.complete = true
			}
		case "A":
			if cur != nil {
				cur.anom = append(cur.anom, f[1])
			}
		case "P":
			g := strings.Fields(f[1])
			if cur != nil && len(g) == 2 {
				i, _ := strconv.Atoi(g[0])
				a, _ := strconv.Atoi(g[1])
				if i < len(cur.evs) {
					cur.evs[i].a = a
				}
			}
		case "E":
			g := strings.Split(f[1], " ")
			if cur != nil && len(g) == 5 {
				e := c05mEv{k: g[0]}
				e.args, _ = strconv.Atoi(g[1])
				e.a, _ = strconv.Atoi(g[2])
				e.b, _ = strconv.Atoi(g[3])
				if g[4] != "" {
					for _, x := range strings.Split(g[4], ",") {
						n, _ := strconv.Atoi(x)
						e.blk = append(e.blk, n)
					}
				}
				cur.evs = append(cur.evs, e)
			}
		}
	}
	return res
}

// v0 first: its cases are on disk before anything v1 does.
func TestVerifC05MemV0(t *testing.T) { c05mTest(t, false) }
func TestVerifC05MemV1(t *testing.T) { c05mTest(t, true) }

func c05mTest(t *testing.T, v1 bool) {
	name, which := "c05_mem_v0", "v0"
	if v1 {
		name, which = "c05_mem_v1", "v1"
	}
	cs := vg.NewCases("C05", name, "TM.C05.ExecMem")
	vg.ShardSize = 12
	cfgs, ndir, nfree := c05mCfgs(v1)
	outPath := filepath.Join(t.TempDir(), "events.log")
	aborts := 0
	retried := map[int]bool{}
	results := map[int]*c05mResult{}
	t0 := time.Now()
	budget := time.Duration(vg.Scale(90, 3600)) * time.Second // restarts after aborts stop here
	for from := 0; from < len(cfgs) && aborts < 40 && (aborts == 0 || time.Since(t0) < budget); {
		cmd := exec.Command(os.Args[0], "-test.run=^TestVerifC05MemChild$", "-test.timeout=3000s")
		cmd.Env = append(os.Environ(), "C05M_CHILD="+which, "C05M_FROM="+strconv.Itoa(from),
			"C05M_OUT="+outPath, "C05M_ONLY="+strconv.Itoa(vg.Only()))
		outb, err := cmd.CombinedOutput()
		results = c05mParse(outPath)
		last := -1
		for j := range results {
			if j > last {
				last = j
			}
		}
		if err == nil {
			break
		}
		aborts++
		why := "process aborted"
		for _, ln := range strings.Split(string(outb), "\n") {
			if strings.HasPrefix(ln, "panic:") || strings.HasPrefix(ln, "fatal error:") {
				why = "process aborted: " + ln
				break
			}
		}
		if last < 0 {
			t.Fatalf("child failed before the first case: %v\n%s", err, outb)
		}
		if r := results[last]; !r.complete {
			if !retried[last] {
				// a run that died is played once more before it is recorded as aborted: the socket
				// ABCI client has a shutdown race of its own (flushQueue and didRecvResponse can both
				// call Done on one request: "sync: negative WaitGroup counter") that has nothing to do
				// with the schedule under test; an abort that the history itself causes comes back
				retried[last] = true
				cs.Count("aborted-once-replayed: "+why, 1)
				from = last
				aborts--
				continue
			}
			f, _ := os.OpenFile(outPath, os.O_APPEND|os.O_WRONLY, 0o644)
			fmt.Fprintf(f, "A %s\nEND %d aborted\n", why, last)
			f.Close()
		}
		from = last + 1
		results = c05mParse(outPath)
	}
	for j, cfg := range cfgs {
		id := cs.NextID()
		if !cs.Want(id) {
			continue
		}
		r := results[j]
		if r == nil {
			cs.Count("not-run", 1)
			continue
		}
		evs, anom, note := r.evs, r.anom, r.note
		kind := cfg.kind
		if cfg.v1 {
			kind += "-v1"
		} else {
			kind += "-v0"
		}
		if cfg.socket {
			kind += "-socket"
		} else {
			kind += "-local"
		}
		if note != "" {
			kind += "-" + note
		}
		rechecks := 0
		for _, e := range evs {
			if e.k == "EProcRe" {
				rechecks++
			}
		}
		cs.Add(id, kind, cfg.k >= 2 && rechecks > 0, c05mTerm(cfg, evs, len(anom)), c05mDescr(cfg, evs, anom, note))
	}
	cs.Notes = append(cs.Notes, fmt.Sprintf("directed=%d sampled=%d child-process-aborts=%d", ndir, nfree, aborts))
	if err := cs.Write(); err != nil {
		t.Fatal(err)
	}
}
