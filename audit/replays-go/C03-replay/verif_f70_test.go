//go:build verif

package consensus

// F70 replay: a directed scenario on the REAL consensus.State.
//
// 4 validators of equal power.  With q = proposer rotation of height 1 (rounds 0..3):
//   F = q[0] (faulty; proposes X in round 0, later silent), C = q[1] (proposes Y in round 1),
//   D = q[2] (re-proposes Y with POLRound 1 in round 2), A = q[3] (the node under observation).
// A locks X in round 0, learns of the round-1 polka for Y while still in round 0, is carried to
// round 1 and then to round 2 by +2/3-any prevotes without ever prevoting/precommitting in round 1.

import (
	"bytes"
	"fmt"
	"testing"

	cstypes "github.com/tendermint/tendermint/consensus/types"
	vg "github.com/tendermint/tendermint/internal/verifgen"
	tmproto "github.com/tendermint/tendermint/proto/tendermint/types"
	"github.com/tendermint/tendermint/types"
)

func f70Hash(b []byte) string {
	if len(b) == 0 {
		return "nil"
	}
	return fmt.Sprintf("%X", b[:4])
}

func f70BlockHash(b *types.Block) string {
	if b == nil {
		return "nil"
	}
	return f70Hash(b.Hash())
}

func f70Snap(h *c02Harness) string {
	cs := h.cs
	return fmt.Sprintf("H/R/S=%d/%d/%s LockedRound=%d LockedBlock=%s ValidRound=%d ValidBlock=%s ProposalBlock=%s POLRound(prop)=%s",
		cs.Height, cs.Round, c02Step(cs.Step), cs.LockedRound, f70BlockHash(cs.LockedBlock), cs.ValidRound, f70BlockHash(cs.ValidBlock),
		f70BlockHash(cs.ProposalBlock), func() string {
			if cs.Proposal == nil {
				return "-"
			}
			return fmt.Sprint(cs.Proposal.POLRound)
		}())
}

func f70Fire(h *c02Harness, step cstypes.RoundStepType) bool {
	cs := h.cs
	s := h.ticker.scheduled
	for i := len(s) - 1; i >= 0; i-- {
		if s[i].Height == cs.Height && s[i].Round == cs.Round && s[i].Step == step {
			h.fire(s[i], "f70/timeout")
			return true
		}
	}
	return false
}

// own vote of the node in a round ("none" if it has not voted)
func f70Own(h *c02Harness, ty tmproto.SignedMsgType, round int32) string {
	var vs *types.VoteSet
	if ty == tmproto.PrevoteType {
		vs = h.cs.Votes.Prevotes(round)
	} else {
		vs = h.cs.Votes.Precommits(round)
	}
	if vs == nil {
		return "none(no voteset)"
	}
	v := vs.GetByIndex(int32(h.me))
	if v == nil {
		return "none"
	}
	return f70Hash(v.BlockID.Hash)
}

func f70Bid(e *c02Block) types.BlockID {
	return types.BlockID{Hash: e.block.Hash(), PartSetHeader: e.parts.Header()}
}

func f70Single(t *testing.T, withR1Precommits bool) {
	r := vg.NewRand(vg.Seed() ^ 0xf70)
	state, pvs := c02Genesis(r, 4, []int64{10, 10, 10, 10})
	q := c01Rotation(state, 8)
	F, C, D, A := q[0], q[1], q[2], q[3]
	t.Logf("proposer rotation (validator index by round 0..7) = %v ; F=%d (round-0 proposer, faulty) C=%d (round-1 proposer) D=%d (round-2 proposer) A=%d (observed node, round-3 proposer)", q, F, C, D, A)
	if F == C || F == D || F == A || C == D || C == A || D == A {
		t.Fatalf("rotation is not a permutation: %v", q)
	}
	h := c02NewNode(r, state, pvs, A, false, nil)
	h.hardCap = 100000
	var own []string
	h.onOwn = func(mi msgInfo) {
		switch m := mi.Msg.(type) {
		case *VoteMessage:
			own = append(own, fmt.Sprintf("vote{type %d r %d block %s}", m.Vote.Type, m.Vote.Round, f70Hash(m.Vote.BlockID.Hash)))
		case *ProposalMessage:
			own = append(own, fmt.Sprintf("proposal{r %d polr %d block %s}", m.Proposal.Round, m.Proposal.POLRound, f70Hash(m.Proposal.BlockID.Hash)))
		}
	}
	takeOwn := func() []string { o := own; own = nil; return o }

	commit := types.NewCommit(0, 0, types.BlockID{}, nil)
	mk := func(tx string, proposer int) *c02Block {
		pk, _ := pvs[proposer].GetPubKey()
		b, ps := h.cs.state.MakeBlock(1, []types.Tx{types.Tx(tx)}, commit, nil, pk.Address())
		return h.register(b, ps)
	}
	X, Y := mk("x=1", F), mk("y=2", C)
	bX, bY := f70Bid(X), f70Bid(Y)
	t.Logf("block X = %s (valid=%v, %d parts)  block Y = %s (valid=%v, %d parts)", f70Hash(bX.Hash), X.valid, X.parts.Total(), f70Hash(bY.Hash), Y.valid, Y.parts.Total())
	if !X.valid || !Y.valid || bytes.Equal(bX.Hash, bY.Hash) {
		t.Fatalf("blocks not usable")
	}
	cs := h.cs
	pv := func(idx int, round int32, bid types.BlockID) {
		h.sendVote(h.mkVote(r, idx, tmproto.PrevoteType, 1, round, bid), "p2", "f70/prevote")
	}
	pc := func(idx int, round int32, bid types.BlockID) {
		h.sendVote(h.mkVote(r, idx, tmproto.PrecommitType, 1, round, bid), "p2", "f70/precommit")
	}
	sendBlock := func(signer int, round, polr int32, e *c02Block) {
		h.sendProposal(signer, 1, round, polr, f70Bid(e), false, "f70/proposal")
		for i := 0; i < int(e.parts.Total()); i++ {
			h.sendPart(1, round, e, i, "f70/part")
		}
	}
	expect := func(what string, ok bool) {
		if !ok {
			t.Errorf("UNEXPECTED at %s: %s", what, f70Snap(h))
		}
	}

	// 1. NewHeight timeout
	expect("step1: fire NewHeight", f70Fire(h, cstypes.RoundStepNewHeight))
	t.Logf("step1 after NewHeight timeout: %s own=%v", f70Snap(h), takeOwn())
	expect("step1", cs.Round == 0 && cs.Step == cstypes.RoundStepPropose)

	// 2. round-0 proposal X (POLRound -1) signed by F (= round-0 proposer), all parts
	sendBlock(F, 0, -1, X)
	t.Logf("step2 after proposal X r0 from F + parts: %s own=%v", f70Snap(h), takeOwn())
	expect("step2", cs.Step == cstypes.RoundStepPrevote && f70Own(h, tmproto.PrevoteType, 0) == f70Hash(bX.Hash))

	// 3. round-0 prevotes for X from C and F (A's own is already in) -> polka -> lock X, precommit X
	pv(C, 0, bX)
	t.Logf("step3 after prevote r0 X from C: %s", f70Snap(h))
	pv(F, 0, bX)
	t.Logf("step3 after prevote r0 X from F: %s own=%v", f70Snap(h), takeOwn())
	expect("step3", cs.LockedRound == 0 && cs.LockedBlock != nil && cs.LockedBlock.HashesTo(bX.Hash) &&
		f70Own(h, tmproto.PrecommitType, 0) == f70Hash(bX.Hash) && cs.Round == 0)

	// 4. still in round 0: round-1 prevotes for Y from C, D, F
	for _, i := range []int{C, D, F} {
		pv(i, 1, bY)
		t.Logf("step4 after prevote r1 Y from %d: %s", i, f70Snap(h))
	}
	maj1, ok1 := cs.Votes.Prevotes(1).TwoThirdsMajority()
	t.Logf("step4 result: Prevotes(1).TwoThirdsMajority=(%s,%v) own=%v", f70Hash(maj1.Hash), ok1, takeOwn())
	expect("step4", cs.Round == 1 && cs.Step == cstypes.RoundStepPropose && cs.LockedRound == 0 && cs.LockedBlock != nil && ok1 && maj1.Equals(bY))

	// 5. immediately: round-2 prevotes C:Y D:Y F:nil
	pv(C, 2, bY)
	t.Logf("step5 after prevote r2 Y from C: %s", f70Snap(h))
	pv(D, 2, bY)
	t.Logf("step5 after prevote r2 Y from D: %s", f70Snap(h))
	pv(F, 2, types.BlockID{})
	t.Logf("step5 after prevote r2 nil from F: %s own=%v", f70Snap(h), takeOwn())

	// CHECKPOINT 1
	maj1, ok1 = cs.Votes.Prevotes(1).TwoThirdsMajority()
	polR, polB := cs.Votes.POLInfo()
	t.Logf("CHECKPOINT 1: %s ; Prevotes(1).TwoThirdsMajority=(%s, %v) [Y=%s X=%s] ; Votes.POLInfo()=(round %d, %s) ; A's prevote r1=%s precommit r1=%s",
		f70Snap(h), f70Hash(maj1.Hash), ok1, f70Hash(bY.Hash), f70Hash(bX.Hash), polR, f70Hash(polB.Hash),
		f70Own(h, tmproto.PrevoteType, 1), f70Own(h, tmproto.PrecommitType, 1))
	expect("checkpoint1", cs.Height == 1 && cs.Round == 2 && cs.Step == cstypes.RoundStepPropose && cs.LockedRound == 0 &&
		cs.LockedBlock != nil && cs.LockedBlock.HashesTo(bX.Hash) && ok1 && maj1.Equals(bY) &&
		f70Own(h, tmproto.PrevoteType, 1) == "none" && f70Own(h, tmproto.PrecommitType, 1) == "none")

	if withR1Precommits {
		// what C and D (locked on Y in round 1) signed in round 1 also reaches A now
		pc(C, 1, bY)
		pc(D, 1, bY)
		t.Logf("extra: round-1 precommits for Y from C and D delivered: %s own=%v", f70Snap(h), takeOwn())
	}

	// 6. round 2: proposal Y with POLRound 1 from D (= round-2 proposer) + parts
	sendBlock(D, 2, 1, Y)
	o := takeOwn()
	t.Logf("CHECKPOINT 2: after proposal Y r2 polr 1 from D + parts: %s ; A signed: %v ; A's prevote r2 = %s (X=%s Y=%s)",
		f70Snap(h), o, f70Own(h, tmproto.PrevoteType, 2), f70Hash(bX.Hash), f70Hash(bY.Hash))
	expect("checkpoint2: A prevoted in round 2", f70Own(h, tmproto.PrevoteType, 2) != "none")

	// 7. rounds 2..12
	everUnlocked, everPrevotedY, everDecided := false, false, false
	for rho := int32(2); rho <= 12; rho++ {
		if cs.Height != 1 {
			everDecided = true
			break
		}
		if cs.Round != rho {
			t.Errorf("round %d: node is at %s", rho, f70Snap(h))
			break
		}
		p := q[int(rho)%4]
		propDesc := ""
		if rho > 2 {
			switch p {
			case C, D:
				sendBlock(p, rho, 1, Y)
				propDesc = fmt.Sprintf("proposal Y polr 1 from %d", p)
			case A:
				propDesc = "A is proposer"
			default:
				f70Fire(h, cstypes.RoundStepPropose)
				propDesc = "F is proposer: silent, propose timeout fired"
			}
		} else {
			propDesc = "proposal Y polr 1 from D (step 6)"
		}
		pv(C, rho, bY)
		pv(D, rho, bY)
		stepAfterPrevotes := c02Step(cs.Step)
		firedPW := false
		if cs.Round == rho && cs.Step == cstypes.RoundStepPrevoteWait {
			firedPW = f70Fire(h, cstypes.RoundStepPrevoteWait)
		}
		pc(C, rho, types.BlockID{})
		pc(D, rho, types.BlockID{})
		stepAfterPrecommits := fmt.Sprintf("%s/TriggeredTimeoutPrecommit=%v", c02Step(cs.Step), cs.TriggeredTimeoutPrecommit)
		pmaj, pok := cs.Votes.Prevotes(rho).TwoThirdsMajority()
		myPV, myPC := f70Own(h, tmproto.PrevoteType, rho), f70Own(h, tmproto.PrecommitType, rho)
		lockedR, lockedB := cs.LockedRound, f70BlockHash(cs.LockedBlock)
		firedPCW := false
		if cs.Height == 1 && cs.Round == rho && cs.TriggeredTimeoutPrecommit { // v0.34: precommit-wait is a flag, the step stays Precommit
			firedPCW = f70Fire(h, cstypes.RoundStepPrecommitWait)
		}
		t.Logf("CHECKPOINT 3 round %2d: proposer=%d (%s) ; A signed %v ; A prevote=%s precommit=%s ; polka(r)=(%s,%v) ; step after prevotes=%s (prevote-wait fired %v) after precommits=%s (precommit-wait fired %v) ; end of round: LockedRound=%d LockedBlock=%s ; now %s",
			rho, p, propDesc, takeOwn(), myPV, myPC, f70Hash(pmaj.Hash), pok, stepAfterPrevotes, firedPW, stepAfterPrecommits, firedPCW, lockedR, lockedB, f70Snap(h))
		if cs.LockedBlock == nil || cs.LockedRound != 0 {
			everUnlocked = true
		}
		if myPV == f70Hash(bY.Hash) {
			everPrevotedY = true
		}
	}
	if cs.Height != 1 {
		everDecided = true
	}
	t.Logf("SUMMARY (single node, withR1Precommits=%v): A ever unlocked/changed lock: %v ; A ever prevoted Y: %v ; A decided height 1: %v ; final %s ; X=%s Y=%s",
		withR1Precommits, everUnlocked, everPrevotedY, everDecided, f70Snap(h), f70Hash(bX.Hash), f70Hash(bY.Hash))
}

// f70Net: the same story with THREE real nodes A, C, D (F's messages are signed by the test and F
// falls silent after its round-2 prevote), a directed prefix and then the synchronous suffix c03Sync.
func f70Net(t *testing.T) {
	r := vg.NewRand(vg.Seed() ^ 0xf70a)
	state, pvs := c02Genesis(r, 4, []int64{10, 10, 10, 10})
	q := c01Rotation(state, 8)
	F, C, D, A := q[0], q[1], q[2], q[3]
	t.Logf("NET proposer rotation = %v ; F=%d C=%d D=%d A=%d", q, F, C, D, A)
	net := &c01Net{kinds: map[string]int{}, inbox: map[*c02Harness][]msgInfo{}}
	net.faulty = []int{F}
	nodeOf := map[int]*c02Harness{}
	var shared *c02Harness
	for i := 0; i < 4; i++ {
		if i == F {
			continue
		}
		h := c02NewNode(r, state, pvs, i, false, shared)
		if shared == nil {
			shared = h
		}
		hh := h
		h.net = net
		h.onOwn = func(mi msgInfo) { net.publish(hh, mi) }
		h.hardCap = 100000
		net.nodes = append(net.nodes, h)
		nodeOf[i] = h
	}
	hA, hC, hD := nodeOf[A], nodeOf[C], nodeOf[D]
	name := map[*c02Harness]string{hA: "A", hC: "C", hD: "D"}
	dl := func(h *c02Harness, mi msgInfo) {
		h.got = append(h.got, mi)
		tm, d := h.inputTerm(mi)
		h.deliver(tm, d, func() { h.cs.handleMsg(mi) })
	}
	pull := func(h *c02Harness, what string, pred func(mi msgInfo) bool) {
		n := 0
		for {
			idx := -1
			for i, mi := range net.inbox[h] {
				if pred(mi) {
					idx = i
					break
				}
			}
			if idx < 0 {
				break
			}
			mi := net.inbox[h][idx]
			net.inbox[h] = append(net.inbox[h][:idx:idx], net.inbox[h][idx+1:]...)
			dl(h, mi)
			n++
		}
		if n == 0 {
			t.Errorf("NET nothing to pull for node %s: %s", name[h], what)
		}
		t.Logf("NET %s <- %-40s (%d msgs): %s", name[h], what, n, f70Snap(h))
	}
	isVote := func(ty tmproto.SignedMsgType, round int32, from ...int) func(msgInfo) bool {
		return func(mi msgInfo) bool {
			vm, ok := mi.Msg.(*VoteMessage)
			if !ok || vm.Vote.Type != ty || vm.Vote.Round != round {
				return false
			}
			for _, f := range from {
				if int(vm.Vote.ValidatorIndex) == f {
					return true
				}
			}
			return false
		}
	}
	isBlock := func(round int32) func(msgInfo) bool {
		return func(mi msgInfo) bool {
			switch m := mi.Msg.(type) {
			case *ProposalMessage:
				return m.Proposal.Round == round
			case *BlockPartMessage:
				return m.Round == round
			}
			return false
		}
	}
	fire := func(h *c02Harness, step cstypes.RoundStepType) {
		if !f70Fire(h, step) {
			t.Errorf("NET node %s: no %s timeout scheduled at %s", name[h], c02Step(step), f70Snap(h))
		}
		t.Logf("NET %s timeout %-14s: %s", name[h], c02Step(step), f70Snap(h))
	}
	fVote := func(ty tmproto.SignedMsgType, round int32, bid types.BlockID) {
		net.publish(nil, msgInfo{&VoteMessage{hA.mkVote(r, F, ty, 1, round, bid)}, "p9"})
	}
	PV, PC := tmproto.PrevoteType, tmproto.PrecommitType

	// F's round-0 proposal X and prevote X
	pkF, _ := pvs[F].GetPubKey()
	bx, psx := hA.cs.state.MakeBlock(1, []types.Tx{types.Tx("x=1")}, types.NewCommit(0, 0, types.BlockID{}, nil), nil, pkF.Address())
	X := hA.register(bx, psx)
	bX := f70Bid(X)
	prop := types.NewProposal(1, 0, -1, bX)
	pp := prop.ToProto()
	if err := pvs[F].SignProposal(state.ChainID, pp); err != nil {
		t.Fatal(err)
	}
	prop.Signature = pp.Signature
	net.publish(nil, msgInfo{&ProposalMessage{prop}, "p9"})
	for i := 0; i < int(X.parts.Total()); i++ {
		net.publish(nil, msgInfo{&BlockPartMessage{1, 0, X.parts.GetPart(i)}, "p9"})
	}
	fVote(PV, 0, bX)

	// round 0
	for _, h := range []*c02Harness{hA, hC, hD} {
		fire(h, cstypes.RoundStepNewHeight)
	}
	pull(hA, "proposal X r0 + parts", isBlock(0))
	pull(hC, "proposal X r0 + parts", isBlock(0))
	fire(hD, cstypes.RoundStepPropose) // D does not get the proposal in time: prevotes nil
	pull(hA, "prevotes r0 of C,F (X,X)", isVote(PV, 0, C, F))
	pull(hC, "prevotes r0 of D,F (nil,X)", isVote(PV, 0, D, F))
	fire(hC, cstypes.RoundStepPrevoteWait)
	pull(hD, "prevotes r0 of C,F (X,X)", isVote(PV, 0, C, F))
	fire(hD, cstypes.RoundStepPrevoteWait)
	pull(hC, "precommits r0 of D,A (nil,X)", isVote(PC, 0, D, A))
	fire(hC, cstypes.RoundStepPrecommitWait) // C enters round 1 and proposes Y
	pull(hD, "precommits r0 of C,A (nil,X)", isVote(PC, 0, C, A))
	fire(hD, cstypes.RoundStepPrecommitWait)
	if hC.cs.ProposalBlock == nil || hC.cs.Round != 1 {
		t.Fatalf("NET C did not propose in round 1: %s", f70Snap(hC))
	}
	bY := types.BlockID{Hash: hC.cs.ProposalBlock.Hash(), PartSetHeader: hC.cs.ProposalBlockParts.Header()}
	t.Logf("NET X=%s Y=%s (Y created by the real node C in round 1)", f70Hash(bX.Hash), f70Hash(bY.Hash))
	// round 1
	pull(hD, "proposal Y r1 + parts", isBlock(1))
	fVote(PV, 1, bY)
	pull(hC, "prevotes r1 of D,F (Y,Y)", isVote(PV, 1, D, F))
	pull(hD, "prevotes r1 of C,F (Y,Y)", isVote(PV, 1, C, F))
	pull(hA, "prevotes r1 of C,D,F (Y,Y,Y) while in r0", isVote(PV, 1, C, D, F))
	fVote(PC, 1, types.BlockID{}) // F saw no polka in time: precommits nil
	pull(hC, "precommits r1 of D,F (Y,nil)", isVote(PC, 1, D, F))
	fire(hC, cstypes.RoundStepPrecommitWait)
	pull(hD, "precommits r1 of C,F (Y,nil)", isVote(PC, 1, C, F))
	fire(hD, cstypes.RoundStepPrecommitWait) // D enters round 2 and re-proposes Y with POLRound 1
	// round 2
	pull(hC, "proposal Y r2 polr 1 + parts", isBlock(2))
	fVote(PV, 2, types.BlockID{})
	pull(hA, "prevotes r2 of C,D,F (Y,Y,nil) while in r1", isVote(PV, 2, C, D, F))
	for _, h := range []*c02Harness{hA, hC, hD} {
		m1, ok1 := h.cs.Votes.Prevotes(1).TwoThirdsMajority()
		t.Logf("NET CHECKPOINT before synchrony: node %s: %s ; Prevotes(1) maj=(%s,%v) ; own prevote r1=%s r2=%s ; inbox %d msgs",
			name[h], f70Snap(h), f70Hash(m1.Hash), ok1, f70Own(h, PV, 1), f70Own(h, PV, 2), len(net.inbox[h]))
	}
	if !(hA.cs.Round == 2 && hA.cs.LockedRound == 0 && hA.cs.LockedBlock != nil && hA.cs.LockedBlock.HashesTo(bX.Hash) &&
		hC.cs.LockedRound == 1 && hC.cs.LockedBlock != nil && hC.cs.LockedBlock.HashesTo(bY.Hash) &&
		hD.cs.LockedRound == 1 && hD.cs.LockedBlock != nil && hD.cs.LockedBlock.HashesTo(bY.Hash)) {
		t.Errorf("NET prefix did not produce the intended locks")
	}
	// synchrony: everything in the pool reaches everybody (as c03Run does), F silent (byzPct 0)
	for _, h := range net.nodes {
		have := map[msgInfo]bool{}
		for _, mi := range net.inbox[h] {
			have[mi] = true
		}
		for _, mi := range net.pool {
			if !have[mi] && c01Height(mi) >= h.cs.Height {
				net.inbox[h] = append(net.inbox[h], mi)
				have[mi] = true
			}
		}
	}
	marks := map[*c02Harness]int{}
	for _, h := range net.nodes {
		marks[h] = len(h.steps)
	}
	c03Sync(r, net, pvs, 1, 12, 0)
	anyDecided := false
	for _, h := range []*c02Harness{hA, hC, hD} {
		if h.cs.Height > 1 {
			anyDecided = true
		}
		var pvs_, pcs_ []string
		for rr := int32(0); rr <= h.cs.Round && h.cs.Height == 1; rr++ {
			pvs_ = append(pvs_, fmt.Sprintf("%d:%s", rr, f70Own(h, PV, rr)))
			pcs_ = append(pcs_, fmt.Sprintf("%d:%s", rr, f70Own(h, PC, rr)))
		}
		t.Logf("NET after c03Sync: node %s: %s ; decided=%v ; inputs in sync phase=%d ; panicked=%v ; own prevotes by round %v ; own precommits by round %v",
			name[h], f70Snap(h), h.cs.Height > 1, len(h.steps)-marks[h], h.panicked, pvs_, pcs_)
	}
	t.Logf("NET SUMMARY: any node decided height 1 during the synchronous suffix (rounds 2..%d, F silent): %v ; sync kinds=%v",
		hA.cs.Round, anyDecided, net.kinds)
}

func TestVerifF70Replay(t *testing.T) {
	t.Run("single", func(t *testing.T) { f70Single(t, false) })
	t.Run("single-with-round1-precommits", func(t *testing.T) { f70Single(t, true) })
	t.Run("three-real-nodes", f70Net)
}
