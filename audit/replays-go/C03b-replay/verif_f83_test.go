//go:build verif

package consensus

// F83 replay: a directed scenario on THREE REAL consensus.State nodes A, B, C plus a faulty validator D
// whose messages are signed by the test (D equivocates in prevotes, tells different nodes different
// things, relays B's and C's genuine votes to A early, and is SILENT after round 6).
//
// 4 validators of equal power; q = proposer rotation of height 1: B = q[0], C = q[1], D = q[2], A = q[3].
//   round 0: B proposes X; A sees the polka (A, B, D) and locks X; B and C precommit nil.
//   round 1: C proposes Y; A prevotes X (locked), B and C prevote Y and precommit nil; D's prevote for Y
//            reaches B and C after that (valid block Y, round 1, not locked) and never reaches A.
//   round 2: D re-proposes (Y, POL round 1); B, C prevote Y.  A, still in round 1, is given the three
//            round-2 prevotes for Y (polka): it is carried to round 2; it then receives the proposal, whose
//            POL it does not hold: ValidBlock = Y, ValidRound = 2, step Propose, STILL LOCKED on X.
//   rounds 3..5: nothing forms (A receives nothing).
//   round 6: D proposes (X, POL round 0); B, C prevote X, D tells them nil; A is given the three round-6
//            prevotes for X (polka) and is carried from round 2 to round 6 (step Propose); the +2/3
//            precommits for nil of round 6 make addVote run enterPrecommit(6): A RE-LOCKS X with
//            LockedRound = 6; ValidBlock stays Y.
//   then synchrony (c03Sync, D silent): A prevotes X in every round and proposes Y in its own rounds.

import (
	"fmt"
	"testing"

	cstypes "github.com/tendermint/tendermint/consensus/types"
	vg "github.com/tendermint/tendermint/internal/verifgen"
	tmproto "github.com/tendermint/tendermint/proto/tendermint/types"
	"github.com/tendermint/tendermint/types"
)

func f83Hash(b []byte) string {
	if len(b) == 0 {
		return "nil"
	}
	return fmt.Sprintf("%X", b[:4])
}

func f83BlockHash(b *types.Block) string {
	if b == nil {
		return "nil"
	}
	return f83Hash(b.Hash())
}

func f83Snap(h *c02Harness) string {
	cs := h.cs
	return fmt.Sprintf("H/R/S=%d/%d/%s LockedRound=%d LockedBlock=%s ValidRound=%d ValidBlock=%s ProposalBlock=%s",
		cs.Height, cs.Round, c02Step(cs.Step), cs.LockedRound, f83BlockHash(cs.LockedBlock), cs.ValidRound, f83BlockHash(cs.ValidBlock),
		f83BlockHash(cs.ProposalBlock))
}

func f83Fire(h *c02Harness, step cstypes.RoundStepType) bool {
	cs := h.cs
	s := h.ticker.scheduled
	for i := len(s) - 1; i >= 0; i-- {
		if s[i].Height == cs.Height && s[i].Round == cs.Round && s[i].Step == step {
			h.fire(s[i], "f83/timeout")
			return true
		}
	}
	return false
}

func f83Own(h *c02Harness, ty tmproto.SignedMsgType, round int32) string {
	var vs *types.VoteSet
	if ty == tmproto.PrevoteType {
		vs = h.cs.Votes.Prevotes(round)
	} else {
		vs = h.cs.Votes.Precommits(round)
	}
	if vs == nil {
		return "none(no voteset)"
	}
	v := vs.GetByIndex(int32(h.me))
	if v == nil {
		return "none"
	}
	return f83Hash(v.BlockID.Hash)
}

func TestVerifF83Replay(t *testing.T) {
	r := vg.NewRand(vg.Seed() ^ 0xf83a)
	state, pvs := c02Genesis(r, 4, []int64{10, 10, 10, 10})
	q := c01Rotation(state, 8)
	B, C, D, A := q[0], q[1], q[2], q[3]
	t.Logf("NET proposer rotation = %v ; B=%d (round 0,4) C=%d (round 1,5) D=%d (faulty; round 2,6) A=%d (round 3,7)", q, B, C, D, A)
	if q[4] != B || q[5] != C || q[6] != D || q[7] != A || A == B || A == C || A == D || B == C || B == D || C == D {
		t.Fatalf("rotation is not a repeated permutation: %v", q)
	}
	net := &c01Net{kinds: map[string]int{}, inbox: map[*c02Harness][]msgInfo{}}
	net.faulty = []int{D}
	nodeOf := map[int]*c02Harness{}
	var shared *c02Harness
	for i := 0; i < 4; i++ {
		if i == D {
			continue
		}
		h := c02NewNode(r, state, pvs, i, false, shared)
		if shared == nil {
			shared = h
		}
		hh := h
		h.net = net
		h.onOwn = func(mi msgInfo) { net.publish(hh, mi) }
		h.hardCap = 100000
		net.nodes = append(net.nodes, h)
		nodeOf[i] = h
	}
	hA, hB, hC := nodeOf[A], nodeOf[B], nodeOf[C]
	name := map[*c02Harness]string{hA: "A", hB: "B", hC: "C"}
	all := []*c02Harness{hA, hB, hC}
	dl := func(h *c02Harness, mi msgInfo) {
		h.got = append(h.got, mi)
		tm, d := h.inputTerm(mi)
		h.deliver(tm, d, func() { h.cs.handleMsg(mi) })
	}
	pull := func(h *c02Harness, what string, pred func(mi msgInfo) bool) {
		n := 0
		for {
			idx := -1
			for i, mi := range net.inbox[h] {
				if pred(mi) {
					idx = i
					break
				}
			}
			if idx < 0 {
				break
			}
			mi := net.inbox[h][idx]
			net.inbox[h] = append(net.inbox[h][:idx:idx], net.inbox[h][idx+1:]...)
			dl(h, mi)
			n++
		}
		if n == 0 {
			t.Errorf("NET nothing to pull for node %s: %s", name[h], what)
		}
		t.Logf("NET %s <- %-46s (%d msgs): %s", name[h], what, n, f83Snap(h))
	}
	isVote := func(ty tmproto.SignedMsgType, round int32, from ...int) func(msgInfo) bool {
		return func(mi msgInfo) bool {
			vm, ok := mi.Msg.(*VoteMessage)
			if !ok || vm.Vote.Type != ty || vm.Vote.Round != round {
				return false
			}
			for _, f := range from {
				if int(vm.Vote.ValidatorIndex) == f {
					return true
				}
			}
			return false
		}
	}
	isBlock := func(round int32) func(msgInfo) bool {
		return func(mi msgInfo) bool {
			switch m := mi.Msg.(type) {
			case *ProposalMessage:
				return m.Proposal.Round == round
			case *BlockPartMessage:
				return m.Round == round
			}
			return false
		}
	}
	fire := func(h *c02Harness, step cstypes.RoundStepType) {
		if !f83Fire(h, step) {
			t.Errorf("NET node %s: no %s timeout scheduled at %s", name[h], c02Step(step), f83Snap(h))
		}
		t.Logf("NET %s timeout %-14s: %s", name[h], c02Step(step), f83Snap(h))
	}
	PV, PC := tmproto.PrevoteType, tmproto.PrecommitType
	nilID := types.BlockID{}
	// D's vote, told to the given nodes only
	dVote := func(to []*c02Harness, ty tmproto.SignedMsgType, round int32, bid types.BlockID) {
		net.publishTo(to, msgInfo{&VoteMessage{hA.mkVote(r, D, ty, 1, round, bid)}, "p9"})
	}
	// D's proposal of a block whose parts are known, told to the given nodes
	dPropose := func(to []*c02Harness, round, polr int32, bid types.BlockID, parts *types.PartSet) {
		prop := types.NewProposal(1, round, polr, bid)
		pp := prop.ToProto()
		if err := pvs[D].SignProposal(state.ChainID, pp); err != nil {
			t.Fatal(err)
		}
		prop.Signature = pp.Signature
		net.publishTo(to, msgInfo{&ProposalMessage{prop}, "p9"})
		for i := 0; i < int(parts.Total()); i++ {
			net.publishTo(to, msgInfo{&BlockPartMessage{1, round, parts.GetPart(i)}, "p9"})
		}
	}
	// the round in which nothing forms for B and C: prevotes (own, other, D: nil), precommits nil
	quietRest := func(round int32) {
		dVote([]*c02Harness{hB, hC}, PV, round, nilID)
		pull(hB, fmt.Sprintf("prevotes r%d of C,D", round), isVote(PV, round, C, D))
		pull(hC, fmt.Sprintf("prevotes r%d of B,D", round), isVote(PV, round, B, D))
		for _, h := range []*c02Harness{hB, hC} {
			if h.cs.Round == round && h.cs.Step == cstypes.RoundStepPrevoteWait {
				fire(h, cstypes.RoundStepPrevoteWait)
			}
		}
		dVote([]*c02Harness{hB, hC}, PC, round, nilID)
		pull(hB, fmt.Sprintf("precommits r%d of C,D", round), isVote(PC, round, C, D))
		pull(hC, fmt.Sprintf("precommits r%d of B,D", round), isVote(PC, round, B, D))
		fire(hB, cstypes.RoundStepPrecommitWait)
		fire(hC, cstypes.RoundStepPrecommitWait)
	}

	// ---------------- round 0: B proposes X
	for _, h := range all {
		fire(h, cstypes.RoundStepNewHeight)
	}
	if hB.cs.ProposalBlock == nil {
		t.Fatalf("B did not propose in round 0: %s", f83Snap(hB))
	}
	bX := types.BlockID{Hash: hB.cs.ProposalBlock.Hash(), PartSetHeader: hB.cs.ProposalBlockParts.Header()}
	partsX := hB.cs.ProposalBlockParts
	pull(hA, "proposal X r0 + parts", isBlock(0))
	fire(hC, cstypes.RoundStepPropose) // C does not get the proposal in time: prevotes nil
	dVote([]*c02Harness{hA}, PV, 0, bX)
	pull(hA, "prevotes r0 of B,D (X,X): polka", isVote(PV, 0, B, D))
	pull(hB, "prevotes r0 of A,C (X,nil)", isVote(PV, 0, A, C))
	fire(hB, cstypes.RoundStepPrevoteWait)
	pull(hC, "prevotes r0 of A,B (X,X)", isVote(PV, 0, A, B))
	fire(hC, cstypes.RoundStepPrevoteWait)
	pull(hB, "precommits r0 of A,C (X,nil)", isVote(PC, 0, A, C))
	fire(hB, cstypes.RoundStepPrecommitWait)
	pull(hC, "precommits r0 of A,B (X,nil)", isVote(PC, 0, A, B))
	fire(hC, cstypes.RoundStepPrecommitWait) // C enters round 1 and proposes Y
	pull(hA, "precommits r0 of B,C (nil,nil)", isVote(PC, 0, B, C))
	fire(hA, cstypes.RoundStepPrecommitWait)
	// D's round-0 prevote for X now also reaches B and C (they are in round 1): they hold the polka of round 0
	dVote([]*c02Harness{hB, hC}, PV, 0, bX)
	pull(hB, "prevote r0 of D (X), late", isVote(PV, 0, D))
	pull(hC, "prevote r0 of D (X), late", isVote(PV, 0, D))
	if hC.cs.ProposalBlock == nil || hC.cs.Round != 1 {
		t.Fatalf("C did not propose in round 1: %s", f83Snap(hC))
	}
	bY := types.BlockID{Hash: hC.cs.ProposalBlock.Hash(), PartSetHeader: hC.cs.ProposalBlockParts.Header()}
	partsY := hC.cs.ProposalBlockParts
	t.Logf("NET X=%s (created by the real node B in round 0)  Y=%s (created by the real node C in round 1)", f83Hash(bX.Hash), f83Hash(bY.Hash))
	if !(hA.cs.LockedRound == 0 && hA.cs.LockedBlock != nil && hA.cs.LockedBlock.HashesTo(bX.Hash) && hB.cs.LockedBlock == nil && hC.cs.LockedBlock == nil) {
		t.Errorf("round 0 did not produce the intended locks")
	}

	// ---------------- round 1: C proposes Y; A does not get it
	pull(hB, "proposal Y r1 + parts", isBlock(1))
	fire(hA, cstypes.RoundStepPropose) // A prevotes its locked block X
	pull(hB, "prevotes r1 of A,C (X,Y)", isVote(PV, 1, A, C))
	fire(hB, cstypes.RoundStepPrevoteWait)
	pull(hC, "prevotes r1 of A,B (X,Y)", isVote(PV, 1, A, B))
	fire(hC, cstypes.RoundStepPrevoteWait)
	pull(hA, "prevotes r1 of B,C (Y,Y)", isVote(PV, 1, B, C))
	fire(hA, cstypes.RoundStepPrevoteWait)
	dVote([]*c02Harness{hB, hC}, PV, 1, bY) // late: polka Y of round 1 at B and C, after their precommit
	pull(hB, "prevote r1 of D (Y), late: polka", isVote(PV, 1, D))
	pull(hC, "prevote r1 of D (Y), late: polka", isVote(PV, 1, D))
	pull(hB, "precommits r1 of A,C (nil,nil)", isVote(PC, 1, A, C))
	fire(hB, cstypes.RoundStepPrecommitWait)
	pull(hC, "precommits r1 of A,B (nil,nil)", isVote(PC, 1, A, B))
	fire(hC, cstypes.RoundStepPrecommitWait)
	// A does NOT receive the round-1 precommits yet: it stays in round 1

	// ---------------- round 2: D re-proposes (Y, POL round 1)
	dPropose([]*c02Harness{hB, hC}, 2, 1, bY, partsY)
	pull(hB, "proposal Y r2 polr 1 from D + parts", isBlock(2))
	pull(hC, "proposal Y r2 polr 1 from D + parts", isBlock(2))
	// D: prevote Y to A, nil to B and C; D relays B's and C's round-2 prevotes to A
	dVote([]*c02Harness{hA}, PV, 2, bY)
	pull(hA, "prevotes r2 of B,C,D (Y,Y,Y) while in round 1", isVote(PV, 2, B, C, D))
	t.Logf("CHECKPOINT a0: A carried to round 2 by the polka: %s", f83Snap(hA))
	dPropose([]*c02Harness{hA}, 2, 1, bY, partsY)
	pull(hA, "proposal Y r2 polr 1 from D + parts", isBlock(2))
	_, okA1 := hA.cs.Votes.Prevotes(1).TwoThirdsMajority()
	t.Logf("CHECKPOINT a: A holds the round-2 polka for Y, not the round-1 polka (%v): %s ; A's prevote r2 = %s", okA1, f83Snap(hA), f83Own(hA, PV, 2))
	if !(hA.cs.Round == 2 && hA.cs.Step == cstypes.RoundStepPropose && hA.cs.LockedRound == 0 && hA.cs.LockedBlock != nil && hA.cs.LockedBlock.HashesTo(bX.Hash) &&
		hA.cs.ValidRound == 2 && hA.cs.ValidBlock != nil && hA.cs.ValidBlock.HashesTo(bY.Hash)) {
		t.Errorf("UNEXPECTED at checkpoint a")
	}
	quietRest(2)

	// ---------------- round 3 (proposer A, which is still in round 2): B and C time out
	fire(hB, cstypes.RoundStepPropose)
	fire(hC, cstypes.RoundStepPropose)
	quietRest(3)
	// ---------------- round 4 (proposer B: re-proposes its valid block Y), round 5 (proposer C: the same)
	pull(hC, "proposal r4 from B + parts", isBlock(4))
	t.Logf("round 4: B proposed %s with POL round %d", f83BlockHash(hB.cs.ProposalBlock), hB.cs.Proposal.POLRound)
	quietRest(4)
	pull(hB, "proposal r5 from C + parts", isBlock(5))
	quietRest(5)

	// ---------------- round 6: D proposes (X, POL round 0) to B and C
	dPropose([]*c02Harness{hB, hC}, 6, 0, bX, partsX)
	pull(hB, "proposal X r6 polr 0 from D + parts", isBlock(6))
	pull(hC, "proposal X r6 polr 0 from D + parts", isBlock(6))
	t.Logf("round 6: B prevoted %s, C prevoted %s (X=%s)", f83Own(hB, PV, 6), f83Own(hC, PV, 6), f83Hash(bX.Hash))
	dVote([]*c02Harness{hA}, PV, 6, bX)
	pull(hA, "prevotes r6 of B,C,D (X,X,X) while in round 2", isVote(PV, 6, B, C, D))
	t.Logf("CHECKPOINT b0: A carried to round 6 by the polka for X: %s", f83Snap(hA))
	quietRest(6) // B, C: D tells them nil; they precommit nil; D precommits nil
	dVote([]*c02Harness{hA}, PC, 6, nilID)
	pull(hA, "precommits r6 of B,C,D (nil,nil,nil)", isVote(PC, 6, B, C, D))
	t.Logf("CHECKPOINT b: A re-locked: %s ; A's prevote r6 = %s precommit r6 = %s", f83Snap(hA), f83Own(hA, PV, 6), f83Own(hA, PC, 6))
	fire(hA, cstypes.RoundStepPrecommitWait)
	for _, h := range all {
		t.Logf("NET CHECKPOINT before synchrony: node %s: %s ; inbox %d msgs", name[h], f83Snap(h), len(net.inbox[h]))
	}
	if !(hA.cs.Round == 7 && hA.cs.LockedRound == 6 && hA.cs.LockedBlock != nil && hA.cs.LockedBlock.HashesTo(bX.Hash) &&
		hA.cs.ValidRound == 2 && hA.cs.ValidBlock != nil && hA.cs.ValidBlock.HashesTo(bY.Hash)) {
		t.Errorf("RESULT: the prefix did NOT produce LockedBlock = X (round 6) with ValidBlock = Y (round 2) at A")
	} else {
		t.Logf("RESULT: A is locked on X since round 6 and holds Y (round 2) as its valid block")
	}
	if hA.cs.Proposal != nil {
		t.Logf("RESULT: A's own proposal of round 7: block %s POL round %d", f83Hash(hA.cs.Proposal.BlockID.Hash), hA.cs.Proposal.POLRound)
	}

	// ---------------- synchrony: everything in the pool reaches everybody, D silent
	for _, h := range net.nodes {
		have := map[msgInfo]bool{}
		for _, mi := range net.inbox[h] {
			have[mi] = true
		}
		for _, mi := range net.pool {
			if !have[mi] && c01Height(mi) >= h.cs.Height {
				net.inbox[h] = append(net.inbox[h], mi)
				have[mi] = true
			}
		}
	}
	marks := map[*c02Harness]int{}
	for _, h := range net.nodes {
		marks[h] = len(h.steps)
	}
	c03Sync(r, net, pvs, 1, 16, 0)
	anyDecided := false
	for _, h := range all {
		if h.cs.Height > 1 {
			anyDecided = true
		}
		var pvs_, pcs_ []string
		for rr := int32(0); rr <= h.cs.Round && h.cs.Height == 1; rr++ {
			pvs_ = append(pvs_, fmt.Sprintf("%d:%s", rr, f83Own(h, PV, rr)))
			pcs_ = append(pcs_, fmt.Sprintf("%d:%s", rr, f83Own(h, PC, rr)))
		}
		t.Logf("NET after c03Sync: node %s: %s ; decided=%v ; inputs in sync phase=%d ; panicked=%v ; own prevotes by round %v ; own precommits by round %v",
			name[h], f83Snap(h), h.cs.Height > 1, len(h.steps)-marks[h], h.panicked, pvs_, pcs_)
	}
	t.Logf("NET SUMMARY: any node decided height 1 during the synchronous suffix (rounds 7..%d, D silent): %v ; X=%s Y=%s ; sync kinds=%v",
		hA.cs.Round, anyDecided, f83Hash(bX.Hash), f83Hash(bY.Hash), net.kinds)
}
