package conn

// Audit C17: a message is delivered to onReceive AFTER the connection was stopped
// from inside onReceive (what Switch.StopPeerForError -> peer.Stop does when a
// reactor refuses a message): recvRoutine goes on reading the packets that are
// already in its bufio.Reader and never looks at IsRunning()/quitRecvRoutine
// before it dispatches them.

import (
	"bytes"
	"net"
	"testing"
	"time"

	"github.com/tendermint/tendermint/libs/log"
	"github.com/tendermint/tendermint/libs/protoio"
	tmp2p "github.com/tendermint/tendermint/proto/tendermint/p2p"
)

func TestAAC17DeliveryAfterStop(t *testing.T) {
	server, client := net.Pipe()
	defer client.Close()

	type rec struct {
		msg     string
		running bool
	}
	got := make(chan rec, 16)
	var mconn *MConnection
	onReceive := func(chID byte, msgBytes []byte) {
		got <- rec{string(msgBytes), mconn.IsRunning()}
		if string(msgBytes) == "semantically-invalid" {
			// the reactor's verdict: Switch.StopPeerForError(peer) -> peer.Stop() -> mconn.Stop()
			if err := mconn.Stop(); err != nil {
				t.Error(err)
			}
		}
	}
	errs := make(chan interface{}, 4)
	chDescs := []*ChannelDescriptor{{ID: 0x40, Priority: 1, SendQueueCapacity: 1}}
	mconn = NewMConnectionWithConfig(server, chDescs, onReceive, func(r interface{}) { errs <- r }, DefaultMConnConfig())
	mconn.SetLogger(log.NewNopLogger())
	if err := mconn.Start(); err != nil {
		t.Fatal(err)
	}

	// the peer writes three complete messages with ONE Write (one TCP segment / one secret-connection frame)
	var buf bytes.Buffer
	w := protoio.NewDelimitedWriter(&buf)
	for _, m := range []string{"semantically-invalid", "after-stop-1", "after-stop-2"} {
		if _, err := w.WriteMsg(mustWrapPacket(&tmp2p.PacketMsg{ChannelID: 0x40, EOF: true, Data: []byte(m)})); err != nil {
			t.Fatal(err)
		}
	}
	go client.Write(buf.Bytes()) //nolint:errcheck

	var after []rec
	timeout := time.After(2 * time.Second)
LOOP:
	for {
		select {
		case r := <-got:
			t.Logf("onReceive(%q) with IsRunning()=%v", r.msg, r.running)
			if !r.running {
				after = append(after, r)
			}
		case <-timeout:
			break LOOP
		}
	}
	if len(after) > 0 {
		t.Errorf("clause 7: %d message(s) delivered to onReceive after the connection had been stopped", len(after))
	}
}
