package consensus

// Abstraction audit A-2 (property C05): the harness and coq/C05/Model.v fix InitialHeight = 1
// (props/C05.json, assumption 2).  With genesis.initial_height = N > 1 the saved state's
// LastBlockHeight is 0 until the first block has been applied, while finalizeCommit stores that
// first block under height N BEFORE it applies it (SaveBlock; fail.Fail(); #ENDHEIGHT;
// fail.Fail(); ApplyBlock ... Save(state)).  A crash anywhere between SaveBlock(N) and the state
// Save leaves store height = N, state height = 0, and Handshaker.ReplayBlocks panics with
// "StoreBlockHeight (N) > StateBlockHeight + 1 (1)" on EVERY restart: the node never comes back.
//
// The test drives a real single-validator consensus.State (real WAL, real block store, state
// store, BlockExecutor, kvstore application) to its first commit; the block store wrapper lets the
// real SaveBlock complete and then "kills" the node (panic, exactly at the first fail.Fail() of
// finalizeCommit).  Then it restarts the way node.go does: load state, Handshake.

import (
	"fmt"
	"os"
	"testing"
	"time"

	"github.com/stretchr/testify/require"

	dbm "github.com/tendermint/tm-db"

	"github.com/tendermint/tendermint/abci/example/kvstore"
	abcitypes "github.com/tendermint/tendermint/abci/types"
	"github.com/tendermint/tendermint/libs/log"
	"github.com/tendermint/tendermint/proxy"
	sm "github.com/tendermint/tendermint/state"
	"github.com/tendermint/tendermint/store"
	"github.com/tendermint/tendermint/types"
)

type aaCrashAfterSaveBlock struct {
	sm.BlockStore
	saved chan int64
}

func (b *aaCrashAfterSaveBlock) SaveBlock(block *types.Block, parts *types.PartSet, seen *types.Commit) {
	b.BlockStore.SaveBlock(block, parts, seen) // the real write completes
	select {
	case b.saved <- block.Height:
	default:
	}
	panic("aa: node killed right after SaveBlock (first fail.Fail() of finalizeCommit)")
}

func aaRunC05(t *testing.T, initialHeight int64) (handshakeErr error, handshakePanic interface{}) {
	cfg := ResetConfig(fmt.Sprintf("aa_c05_ih_%d", initialHeight))
	defer os.RemoveAll(cfg.RootDir)
	cfg.Consensus.SkipTimeoutCommit = true

	genDoc, privVals := randGenesisDoc(1, false, 10)
	genDoc.InitialHeight = initialHeight
	require.NoError(t, genDoc.ValidateAndComplete())

	app := kvstore.NewApplication() // in-process application: its committed state survives the node
	db := dbm.NewMemDB()            // the node's databases survive the crash
	stateStore := sm.NewStore(db, sm.StoreOptions{})
	blockStore := store.NewBlockStore(db)
	logger := log.NewNopLogger()

	// ---- first incarnation, as node.go: genesis state, handshake (InitChain), consensus
	state, err := stateStore.LoadFromDBOrGenesisDoc(genDoc)
	require.NoError(t, err)
	proxyApp := proxy.NewAppConns(proxy.NewLocalClientCreator(app))
	require.NoError(t, proxyApp.Start())
	h := NewHandshaker(stateStore, state, blockStore, genDoc)
	h.SetLogger(logger)
	require.NoError(t, h.Handshake(proxyApp))
	state, err = stateStore.Load()
	require.NoError(t, err)
	require.EqualValues(t, 0, state.LastBlockHeight)

	crashing := &aaCrashAfterSaveBlock{BlockStore: blockStore, saved: make(chan int64, 1)}
	blockExec := sm.NewBlockExecutor(stateStore, logger, proxyApp.Consensus(), emptyMempool{}, sm.EmptyEvidencePool{})
	cs := NewState(cfg.Consensus, state, blockExec, crashing, emptyMempool{}, sm.EmptyEvidencePool{})
	cs.SetLogger(logger)
	cs.SetPrivValidator(privVals[0])
	eventBus := types.NewEventBus()
	require.NoError(t, eventBus.Start())
	defer eventBus.Stop() //nolint:errcheck
	cs.SetEventBus(eventBus)
	require.NoError(t, cs.Start())

	select {
	case hgt := <-crashing.saved:
		require.EqualValues(t, initialHeight, hgt)
	case <-time.After(30 * time.Second):
		t.Fatal("first block never reached SaveBlock")
	}
	cs.Wait() // receiveRoutine recovered the panic ("CONSENSUS FAILURE"), the WAL is closed
	proxyApp.Stop() //nolint:errcheck

	st, _ := stateStore.Load()
	info := app.Info(abciInfoReq())
	t.Logf("initial_height=%d after the crash: block store height %d, saved state height %d, application height %d",
		initialHeight, blockStore.Height(), st.LastBlockHeight, info.LastBlockHeight)

	// ---- restart, as node.go: load state, new app connections, handshake
	state2, err := stateStore.LoadFromDBOrGenesisDoc(genDoc)
	require.NoError(t, err)
	proxyApp2 := proxy.NewAppConns(proxy.NewLocalClientCreator(app))
	require.NoError(t, proxyApp2.Start())
	defer proxyApp2.Stop() //nolint:errcheck
	h2 := NewHandshaker(stateStore, state2, store.NewBlockStore(db), genDoc)
	h2.SetLogger(logger)
	func() {
		defer func() { handshakePanic = recover() }()
		handshakeErr = h2.Handshake(proxyApp2)
	}()
	if handshakeErr == nil && handshakePanic == nil {
		st2, _ := stateStore.Load()
		t.Logf("initial_height=%d recovered: state height %d, store height %d, app height %d",
			initialHeight, st2.LastBlockHeight, blockStore.Height(), app.Info(abciInfoReq()).LastBlockHeight)
	}
	return
}

func TestAuditC05InitialHeightCrashAfterSaveBlock(t *testing.T) {
	// control: the harness's configuration recovers
	err, p := aaRunC05(t, 1)
	require.NoError(t, err)
	require.Nil(t, p)

	// any other initial height: the handshake can never complete again
	err, p = aaRunC05(t, 10)
	t.Logf("initial_height=10 restart: Handshake err=%v panic=%v", err, p)
	if err == nil && p == nil {
		t.Fatal("defect absent: the node recovered")
	}
	t.Logf("VIOLATION C05 (recovery clause): after a crash between SaveBlock and the state Save of the FIRST block of a chain with initial_height > 1 the node cannot restart")
}

func abciInfoReq() abcitypes.RequestInfo { return abcitypes.RequestInfo{} }
