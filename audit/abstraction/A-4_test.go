package state_test

// Abstraction audit A-4 (properties C05 recovery clause / C06 "reachable through arbitrary valid
// parameter updates"): the harness applications never lower Block.MaxBytes; the models treat
// types.MaxDataBytes / MaxDataBytesNoEvidence as partial functions (None = panic) and the
// theorems assume they are defined.
//
// A consensus-parameter update that types.ConsensusParams.Validate ACCEPTS (0 < MaxBytes,
// Evidence.MaxBytes <= Block.MaxBytes) but that is smaller than header + last commit overhead
// (11 + 626 + 94 + 109 * #validators) makes sm.TxPreCheck(newState) panic inside
// BlockExecutor.Commit: AFTER the application has committed the block, BEFORE the state is
// saved.  On restart the handshake finds app == store == state+1, replays the block through
// ApplyBlock with the mock application and hits the same panic: every node of the chain is in a
// crash loop, none can ever save the state of that height.

import (
	"testing"
	"time"

	"github.com/stretchr/testify/require"

	abci "github.com/tendermint/tendermint/abci/types"
	"github.com/tendermint/tendermint/crypto/tmhash"
	"github.com/tendermint/tendermint/libs/log"
	memmock "github.com/tendermint/tendermint/mempool/mock"
	tmproto "github.com/tendermint/tendermint/proto/tendermint/types"
	"github.com/tendermint/tendermint/proxy"
	sm "github.com/tendermint/tendermint/state"
	"github.com/tendermint/tendermint/types"
)

type aaShrinkApp struct {
	abci.BaseApplication
	commits int
}

func (a *aaShrinkApp) EndBlock(abci.RequestEndBlock) abci.ResponseEndBlock {
	return abci.ResponseEndBlock{ConsensusParamUpdates: &abci.ConsensusParams{
		Block: &abci.BlockParams{MaxBytes: 1000, MaxGas: -1},
		Evidence: &tmproto.EvidenceParams{MaxAgeNumBlocks: 100000, MaxAgeDuration: 48 * time.Hour,
			MaxBytes: 500},
	}}
}
func (a *aaShrinkApp) Commit() abci.ResponseCommit { a.commits++; return abci.ResponseCommit{} }

func TestAuditC05ValidParamUpdateCrashLoop(t *testing.T) {
	app := &aaShrinkApp{}
	proxyApp := proxy.NewAppConns(proxy.NewLocalClientCreator(app))
	require.NoError(t, proxyApp.Start())
	defer proxyApp.Stop() //nolint:errcheck

	state, stateDB, _ := makeState(4, 1)
	stateStore := sm.NewStore(stateDB, sm.StoreOptions{})
	blockExec := sm.NewBlockExecutor(stateStore, log.NewNopLogger(), proxyApp.Consensus(),
		memmock.Mempool{}, sm.EmptyEvidencePool{})

	// the update is a valid one for the code
	p := types.UpdateConsensusParams(state.ConsensusParams, app.EndBlock(abci.RequestEndBlock{}).ConsensusParamUpdates)
	require.NoError(t, types.ValidateConsensusParams(p))

	block, _ := state.MakeBlock(1, makeTxs(1), types.NewCommit(0, 0, types.BlockID{}, nil), nil,
		state.Validators.GetProposer().Address)
	require.NoError(t, blockExec.ValidateBlock(state, block))
	bid := types.BlockID{Hash: block.Hash(), PartSetHeader: types.PartSetHeader{Total: 1, Hash: tmhash.Sum([]byte("p"))}}

	apply := func() (pv interface{}, err error) {
		defer func() { pv = recover() }()
		_, _, err = blockExec.ApplyBlock(state, bid, block)
		return
	}
	pv, err := apply()
	saved, _ := stateStore.Load()
	t.Logf("ApplyBlock(1): err=%v panic=%v", err, pv)
	t.Logf("application commits: %d, saved state height: %d", app.commits, saved.LastBlockHeight)
	require.NotNil(t, pv, "defect absent")
	require.Equal(t, 1, app.commits)
	require.EqualValues(t, 0, saved.LastBlockHeight)

	// what the handshake does on restart (app == store == state+1): ApplyBlock again -> same panic
	pv2, _ := apply()
	require.NotNil(t, pv2)
	t.Logf("VIOLATION C05 recovery: block committed by the application, state can never be saved: %v", pv2)
}
