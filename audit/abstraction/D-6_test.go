package conn

// Audit C17: FlushStop on a connection whose peer does not read (net.Pipe: Write blocks
// until the other side reads - the state of a TCP connection whose send buffer is full
// because the peer advertises a zero window) waits for sendRoutine for ever; a later
// Stop() finds quitSendRoutine closed and returns WITHOUT closing the net.Conn, so
// nothing ever unblocks sendRoutine, recvRoutine or FlushStop: goroutines and the
// socket stay for ever (pex seed mode calls FlushStop for every inbound PexRequest and
// only afterwards removes the peer from the switch).

import (
	"net"
	"testing"
	"time"

	"github.com/tendermint/tendermint/libs/log"
)

type aaCloseSpy struct {
	net.Conn
	closed chan struct{}
}

func (c *aaCloseSpy) Close() error {
	select {
	case <-c.closed:
	default:
		close(c.closed)
	}
	return c.Conn.Close()
}

func TestAAC17FlushStopNonReadingPeer(t *testing.T) {
	server, client := net.Pipe()
	defer client.Close() // the peer keeps the connection open and never reads
	spy := &aaCloseSpy{Conn: server, closed: make(chan struct{})}
	cfg := DefaultMConnConfig()
	cfg.FlushThrottle = 10 * time.Millisecond
	mconn := NewMConnectionWithConfig(spy, []*ChannelDescriptor{{ID: 0x00, Priority: 1, SendQueueCapacity: 10}},
		func(byte, []byte) {}, func(interface{}) {}, cfg)
	mconn.SetLogger(log.NewNopLogger())
	if err := mconn.Start(); err != nil {
		t.Fatal(err)
	}
	if !mconn.Send(0x00, make([]byte, 3000)) { // the PexAddrs answer of a seed
		t.Fatal("send refused")
	}
	time.Sleep(200 * time.Millisecond) // sendRoutine is now inside conn.Write

	flushed := make(chan struct{})
	go func() { mconn.FlushStop(); close(flushed) }() // pex_reactor.go:267 e.Src.FlushStop()
	time.Sleep(200 * time.Millisecond)
	stopErr := mconn.Stop() // what StopPeerForError / StopPeerGracefully / attemptDisconnects / Switch.OnStop would do
	select {
	case <-flushed:
		t.Log("FlushStop returned")
	case <-time.After(3 * time.Second):
		t.Errorf("FlushStop still blocked 3 s after Stop() (Stop err=%v)", stopErr)
	}
	select {
	case <-spy.closed:
		t.Log("net.Conn closed")
	default:
		t.Errorf("Stop() returned but the net.Conn was never closed: send/recv routines and the socket leak for ever")
	}
}
