package v0

import (
	"math"
	"testing"

	"github.com/tendermint/tendermint/abci/example/kvstore"
	abci "github.com/tendermint/tendermint/abci/types"
	"github.com/tendermint/tendermint/mempool"
	"github.com/tendermint/tendermint/proxy"
)

// B-3 (C12: "Reaping returns a prefix of the pool ... that respects the byte, gas and count limits given",
// for all application verdicts). The model sums GasWanted in Z; the code sums int64 and wraps.
type gasApp struct{ *kvstore.Application }

func (a gasApp) CheckTx(req abci.RequestCheckTx) abci.ResponseCheckTx {
	g := int64(10)
	if req.Tx[0] == 'B' {
		g = math.MaxInt64
	}
	return abci.ResponseCheckTx{Code: abci.CodeTypeOK, GasWanted: g}
}

func TestAuditB3ReapGasOverflow(t *testing.T) {
	cc := proxy.NewLocalClientCreator(gasApp{kvstore.NewApplication()})
	mp, cleanup := newMempoolWithApp(cc) // no post-check filter (= block MaxGas -1 when the txs came in)
	defer cleanup()
	for _, tx := range []string{"A1", "B2", "A3"} {
		if err := mp.CheckTx([]byte(tx), nil, mempool.TxInfo{}); err != nil {
			t.Fatal(err)
		}
	}
	got := mp.ReapMaxBytesMaxGas(-1, 10)
	t.Logf("pool gas = [10, MaxInt64, 10]; ReapMaxBytesMaxGas(-1, maxGas=10) = %q", got)
	if len(got) != 1 {
		t.Errorf("reap under maxGas=10 returned %d txs %q (gas 10 + 9223372036854775807 wrapped negative); "+
			"the maximal prefix within the gas limit is [A1]", len(got), got)
	}
}
