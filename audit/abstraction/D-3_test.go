package consensus

// D-3 (low/medium): the C01/C02 harness replaces the evidence pool by
// sm.EmptyEvidencePool, whose ReportConflictingVotes does nothing. With the real
// evidence.Pool every REDELIVERY of one and the same conflicting vote is
// appended to Pool.consensusBuffer: VoteSet.addVote does not remember a
// conflicting vote it refused (votesByBlock not tracked), so the duplicate test
// never fires, the signature is verified again and ErrVoteConflictingVotes is
// returned again; tryAddVote reports it again; the peer is never disconnected.
// The buffer is only emptied by the next commit (Pool.Update).

import (
	"reflect"
	"runtime"
	"testing"
	"time"

	"github.com/tendermint/tendermint/crypto/tmhash"
	"github.com/tendermint/tendermint/libs/log"
	tmrand "github.com/tendermint/tendermint/libs/rand"
	"github.com/tendermint/tendermint/p2p"
	tmproto "github.com/tendermint/tendermint/proto/tendermint/types"
	sm "github.com/tendermint/tendermint/state"
	"github.com/tendermint/tendermint/types"
)

func TestAAD3ConflictingVoteRedelivery(t *testing.T) {
	// three validators of equal power; only ours is up, so height 1 does not end by itself
	genDoc, pvs := randGenesisDoc(3, false, 10)
	genesis, err := sm.MakeGenesisState(genDoc)
	if err != nil {
		t.Fatal(err)
	}
	cfgA := ResetConfig("aa_d3_A")
	A := aaD2Make(cfgA, genesis, nil, nil, pvs[0], log.NewNopLogger())
	if err := A.cs.Start(); err != nil {
		t.Fatal(err)
	}
	defer A.cs.Stop() //nolint:errcheck
	time.Sleep(100 * time.Millisecond)

	pub, _ := pvs[1].GetPubKey()
	idx, _ := genesis.Validators.GetByAddress(pub.Address())
	mk := func() *types.Vote {
		v := &types.Vote{Type: tmproto.PrevoteType, Height: 1, Round: 0,
			BlockID:          types.BlockID{Hash: tmhash.Sum(tmrand.Bytes(8)), PartSetHeader: types.PartSetHeader{Total: 1, Hash: tmhash.Sum(tmrand.Bytes(8))}},
			Timestamp:        time.Now(),
			ValidatorAddress: pub.Address(), ValidatorIndex: idx}
		pb := v.ToProto()
		if err := pvs[1].SignVote(genesis.ChainID, pb); err != nil {
			t.Fatal(err)
		}
		v.Signature = pb.Signature
		return v
	}
	x, y := mk(), mk()
	bufLen := func() int {
		return reflect.ValueOf(A.evpool).Elem().FieldByName("consensusBuffer").Len()
	}
	var m0, m1 runtime.MemStats
	runtime.GC()
	runtime.ReadMemStats(&m0)
	const N = 40000
	A.cs.peerMsgQueue <- msgInfo{&VoteMessage{x}, p2p.ID("peerB")}
	for i := 0; i < N; i++ {
		// what the reactor does with every VoteMessage off the wire: a fresh decoded copy
		A.cs.peerMsgQueue <- msgInfo{&VoteMessage{y.Copy()}, p2p.ID("peerB")}
	}
	// wait until the queue is drained
	for i := 0; i < 3000 && len(A.cs.peerMsgQueue) > 0; i++ {
		time.Sleep(10 * time.Millisecond)
	}
	time.Sleep(50 * time.Millisecond)
	runtime.GC()
	runtime.ReadMemStats(&m1)
	rs := A.cs.GetRoundState()
	t.Logf("node at %d/%d/%v; one conflicting prevote delivered %d times: evidence.Pool.consensusBuffer holds %d entries, live heap grew by %d KiB",
		rs.Height, rs.Round, rs.Step, N, bufLen(), (int64(m1.HeapAlloc)-int64(m0.HeapAlloc))/1024)
	if bufLen() > 1 {
		t.Fatalf("VIOLATION: %d buffered reports for ONE pair of conflicting votes (unbounded while the height lasts; peer not disconnected)", bufLen())
	}
}
