package consensus

// D-2: "block validity is a per-block oracle" (C01/C02 assumption; the harness
// uses sm.EmptyEvidencePool and every node has the whole chain). With the REAL
// evidence pool validity is per NODE: evidence.Pool.verify needs the block meta
// and the validator set of the evidence's height. A state-synced node (block
// store empty below the snapshot, state store bootstrapped) has neither, so it
// regards a VALID block that carries evidence of a height before its snapshot
// as invalid: ValidateBlock fails ("don't have header #h") and, because +2/3
// of the honest network commits that block, finalizeCommit panics
// ("+2/3 committed an invalid block") - CONSENSUS FAILURE on an honest chain.

import (
	"fmt"
	"sync"
	"testing"
	"time"

	dbm "github.com/tendermint/tm-db"

	abcicli "github.com/tendermint/tendermint/abci/client"
	"github.com/tendermint/tendermint/abci/example/kvstore"
	cfg "github.com/tendermint/tendermint/config"
	"github.com/tendermint/tendermint/crypto/tmhash"
	"github.com/tendermint/tendermint/evidence"
	"github.com/tendermint/tendermint/libs/log"
	tmrand "github.com/tendermint/tendermint/libs/rand"
	tmsync "github.com/tendermint/tendermint/libs/sync"
	mempoolv0 "github.com/tendermint/tendermint/mempool/v0"
	"github.com/tendermint/tendermint/p2p"
	tmproto "github.com/tendermint/tendermint/proto/tendermint/types"
	sm "github.com/tendermint/tendermint/state"
	"github.com/tendermint/tendermint/store"
	"github.com/tendermint/tendermint/types"
)

type aaD2Node struct {
	cs         *State
	blockStore *store.BlockStore
	stateStore sm.Store
	evpool     *evidence.Pool
	blockExec  *sm.BlockExecutor
}

// node.go order: state store holds the genesis state, the evidence pool is made
// from it, and only then (state sync) Bootstrap + SaveSeenCommit happen.
func aaD2Make(thisConfig *cfg.Config, genesis sm.State, synced *sm.State, seen *types.Commit,
	pv types.PrivValidator, lg log.Logger) *aaD2Node {
	n := &aaD2Node{}
	n.blockStore = store.NewBlockStore(dbm.NewMemDB())
	n.stateStore = sm.NewStore(dbm.NewMemDB(), sm.StoreOptions{DiscardABCIResponses: false})
	if err := n.stateStore.Save(genesis); err != nil {
		panic(err)
	}
	var err error
	n.evpool, err = evidence.NewPool(dbm.NewMemDB(), n.stateStore, n.blockStore)
	if err != nil {
		panic(err)
	}
	state := genesis
	if synced != nil {
		if err := n.stateStore.Bootstrap(*synced); err != nil {
			panic(err)
		}
		if err := n.blockStore.SaveSeenCommit(synced.LastBlockHeight, seen); err != nil {
			panic(err)
		}
		state = *synced
	}
	app := kvstore.NewApplication()
	mtx := new(tmsync.Mutex)
	proxyAppConnCon := abcicli.NewLocalClient(mtx, app)
	proxyAppConnConMem := abcicli.NewLocalClient(mtx, app)
	mempool := mempoolv0.NewCListMempool(thisConfig.Mempool, proxyAppConnConMem, state.LastBlockHeight,
		mempoolv0.WithPreCheck(sm.TxPreCheck(state)), mempoolv0.WithPostCheck(sm.TxPostCheck(state)))
	n.blockExec = sm.NewBlockExecutor(n.stateStore, log.NewNopLogger(), proxyAppConnCon, mempool, n.evpool)
	n.cs = NewState(thisConfig.Consensus, state, n.blockExec, n.blockStore, mempool, n.evpool)
	n.cs.SetLogger(lg)
	n.cs.SetPrivValidator(pv)
	eventBus := types.NewEventBus()
	eventBus.SetLogger(log.NewNopLogger())
	if err := eventBus.Start(); err != nil {
		panic(err)
	}
	n.cs.SetEventBus(eventBus)
	return n
}

// hand the node what its peers gossip for a committed height: the precommits of
// the commit and the block parts
func aaD2Feed(n *aaD2Node, from *store.BlockStore, h int64, commit *types.Commit) {
	for i := range commit.Signatures {
		if commit.Signatures[i].Absent() {
			continue
		}
		n.cs.peerMsgQueue <- msgInfo{&VoteMessage{commit.GetVote(int32(i))}, p2p.ID("peerA")}
	}
	meta := from.LoadBlockMeta(h)
	for i := 0; i < int(meta.BlockID.PartSetHeader.Total); i++ {
		n.cs.peerMsgQueue <- msgInfo{&BlockPartMessage{Height: h, Round: commit.Round, Part: from.LoadBlockPart(h, i)}, p2p.ID("peerA")}
	}
}

func aaD2Wait(n *aaD2Node, h int64, lg *aaD1Log) (string, int64) {
	deadline := time.After(5 * time.Second)
	for {
		select {
		case <-n.cs.done:
			return lg.failure(), n.blockStore.Height()
		case <-deadline:
			return lg.failure(), n.blockStore.Height()
		case <-time.After(10 * time.Millisecond):
			if n.blockStore.Height() >= h && n.cs.GetState().LastBlockHeight >= h {
				return lg.failure(), n.blockStore.Height()
			}
		}
	}
}

func TestAAD2StateSyncedNodeEvidenceBeforeSnapshot(t *testing.T) {
	// chain: V0 (power 100) runs node A and makes every block; V1 (power 1) is the offender
	genDoc, pvs := randGenesisDoc(2, false, 1)
	big, small := 0, 1
	genDoc.Validators[big].Power = 100
	genDoc.Validators[small].Power = 1
	genesis, err := sm.MakeGenesisState(genDoc)
	if err != nil {
		t.Fatal(err)
	}
	cfgA := ResetConfig("aa_d2_A")
	cfgA.Consensus.SkipTimeoutCommit = false
	cfgA.Consensus.TimeoutCommit = 150 * time.Millisecond
	A := aaD2Make(cfgA, genesis, nil, nil, pvs[big], log.NewNopLogger())
	blockCh := subscribe(A.cs.eventBus, types.EventQueryNewBlock)

	// remember the state after every height (what a state provider would hand out)
	var smtx sync.Mutex
	states := map[int64]sm.State{}
	stopPoll := make(chan struct{})
	go func() {
		for {
			select {
			case <-stopPoll:
				return
			case <-time.After(5 * time.Millisecond):
				if s, err := A.stateStore.Load(); err == nil {
					smtx.Lock()
					if _, ok := states[s.LastBlockHeight]; !ok {
						states[s.LastBlockHeight] = s.Copy()
					}
					smtx.Unlock()
				}
			}
		}
	}()
	if err := A.cs.Start(); err != nil {
		t.Fatal(err)
	}
	nextBlock := func() *types.Block {
		select {
		case m := <-blockCh:
			return m.Data().(types.EventDataNewBlock).Block
		case <-time.After(30 * time.Second):
			t.Fatal("node A made no block")
			return nil
		}
	}
	for nextBlock().Height < 3 {
	}
	// V1 equivocated at height 2: two prevotes of round 0
	const evH = 2
	pub, _ := pvs[small].GetPubKey()
	idx, _ := genesis.Validators.GetByAddress(pub.Address())
	mk := func() *types.Vote {
		v := &types.Vote{Type: tmproto.PrevoteType, Height: evH, Round: 0,
			BlockID:          types.BlockID{Hash: tmhash.Sum(tmrand.Bytes(8)), PartSetHeader: types.PartSetHeader{Total: 1, Hash: tmhash.Sum(tmrand.Bytes(8))}},
			Timestamp:        time.Now(),
			ValidatorAddress: pub.Address(), ValidatorIndex: idx}
		pb := v.ToProto()
		if err := pvs[small].SignVote(genesis.ChainID, pb); err != nil {
			t.Fatal(err)
		}
		v.Signature = pb.Signature
		return v
	}
	ev := types.NewDuplicateVoteEvidence(mk(), mk(), A.blockStore.LoadBlockMeta(evH).Header.Time, genesis.Validators)
	if err := A.evpool.AddEvidence(ev); err != nil {
		t.Fatalf("node A refuses the evidence: %v", err)
	}
	var E int64
	for E == 0 {
		b := nextBlock()
		if len(b.Evidence.Evidence) > 0 {
			E = b.Height
		}
	}
	for nextBlock().Height < E+2 {
	}
	if err := A.cs.Stop(); err != nil {
		t.Fatal(err)
	}
	A.cs.Wait()
	close(stopPoll)
	smtx.Lock()
	sBefore, ok1 := states[E-1]
	sAfter, ok2 := states[E]
	smtx.Unlock()
	if !ok1 || !ok2 {
		t.Fatalf("state of height %d/%d not captured", E-1, E)
	}
	t.Logf("honest chain: offence at height %d, evidence committed in block %d (chain tip %d)", evH, E, A.blockStore.Height())

	outsider := types.NewMockPV()

	// control: state-synced AFTER the evidence block, receives block E+1
	lgC := &aaD1Log{}
	C := aaD2Make(ResetConfig("aa_d2_C"), genesis, &sAfter, A.blockStore.LoadBlockCommit(E), outsider, lgC)
	if err := C.cs.Start(); err != nil {
		t.Fatal(err)
	}
	aaD2Feed(C, A.blockStore, E+1, A.blockStore.LoadBlockCommit(E+1))
	fC, hC := aaD2Wait(C, E+1, lgC)
	t.Logf("control: state-synced at %d, fed block %d: block store height %d, failure=%q", E, E+1, hC, fC)
	if fC != "" || hC != E+1 {
		t.Fatalf("control does not work")
	}

	// node B: state-synced at E-1 (>= the offence height), receives the valid block E
	lgB := &aaD1Log{}
	B := aaD2Make(ResetConfig("aa_d2_B"), genesis, &sBefore, A.blockStore.LoadBlockCommit(E-1), outsider, lgB)
	blockE := A.blockStore.LoadBlock(E)
	verr := B.blockExec.ValidateBlock(sBefore, blockE)
	t.Logf("B.ValidateBlock(state %d, block %d of the honest chain) = %v", E-1, E, verr)
	if err := B.cs.Start(); err != nil {
		t.Fatal(err)
	}
	aaD2Feed(B, A.blockStore, E, A.blockStore.LoadBlockCommit(E))
	fB, hB := aaD2Wait(B, E, lgB)
	t.Logf("state-synced at %d, fed block %d (+2/3 precommits and parts): block store height %d, failure=%q", E-1, E, hB, fB)
	if verr != nil || fB != "" || hB != E {
		t.Fatalf("VIOLATION: a state-synced node cannot follow the honest chain: ValidateBlock=%v; consensus: %s", verr, fmt.Sprint(fB))
	}
}
