package rpc_test

import (
	"context"
	"os"
	"testing"
	"time"

	dbm "github.com/tendermint/tm-db"

	"github.com/tendermint/tendermint/abci/example/kvstore"
	"github.com/tendermint/tendermint/libs/log"
	"github.com/tendermint/tendermint/light"
	"github.com/tendermint/tendermint/light/provider"
	httpp "github.com/tendermint/tendermint/light/provider/http"
	lrpc "github.com/tendermint/tendermint/light/rpc"
	dbs "github.com/tendermint/tendermint/light/store/db"
	rpchttp "github.com/tendermint/tendermint/rpc/client/http"
	rpctest "github.com/tendermint/tendermint/rpc/test"
)

// B-2 (C20, completeness: "is returned whenever an honest full node answers").
// Everything is real: an in-process tendermint node (kvstore), its RPC server, rpc/client/http,
// light/provider/http, light.Client over light/store/db, light/rpc.Client.
// rpc/core.ConsensusParams(nil) answers for latestUncommittedHeight() = blockstore height + 1
// (the params the NEXT block will be made under). light/rpc.ConsensusParams then asks the light
// client for the header of res.BlockHeight - a block that does not exist yet - and fails.
func TestMain(m *testing.M) {
	cfg := rpctest.GetConfig()
	cfg.Consensus.TimeoutCommit = 1 * time.Second // a (short) realistic block interval
	cfg.Consensus.SkipTimeoutCommit = false
	app := kvstore.NewApplication()
	node := rpctest.StartTendermint(app, rpctest.SuppressStdout)
	code := m.Run()
	rpctest.StopTendermint(node)
	os.Exit(code)
}

func TestAuditB2LatestConsensusParams(t *testing.T) {
	cfg := rpctest.GetConfig()
	chainID := cfg.ChainID()
	ctx := context.Background()

	next, err := rpchttp.New(cfg.RPC.ListenAddress, "/websocket")
	if err != nil {
		t.Fatal(err)
	}
	// wait for a few blocks
	for {
		st, err := next.Status(ctx)
		if err == nil && st.SyncInfo.LatestBlockHeight >= 3 {
			break
		}
		time.Sleep(100 * time.Millisecond)
	}
	primary, err := httpp.New(chainID, cfg.RPC.ListenAddress)
	if err != nil {
		t.Fatal(err)
	}
	witness, err := httpp.New(chainID, cfg.RPC.ListenAddress) // same honest node, second connection
	if err != nil {
		t.Fatal(err)
	}
	root, err := primary.LightBlock(ctx, 2)
	if err != nil {
		t.Fatal(err)
	}
	lc, err := light.NewClient(ctx, chainID,
		light.TrustOptions{Period: 504 * time.Hour, Height: 2, Hash: root.Hash()},
		primary, []provider.Provider{witness}, dbs.New(dbm.NewMemDB(), chainID),
		light.Logger(log.NewNopLogger()))
	if err != nil {
		t.Fatal(err)
	}
	cl := lrpc.NewClient(next, lc)

	const n = 8
	failLatest, failExplicit := 0, 0
	for i := 0; i < n; i++ {
		time.Sleep(300 * time.Millisecond)
		// what the honest node answers
		direct, derr := next.ConsensusParams(ctx, nil)
		st, _ := next.Status(ctx)
		if derr != nil {
			t.Fatalf("honest node: %v", derr)
		}
		// control: explicit height = latest committed height: relayed
		h := st.SyncInfo.LatestBlockHeight
		if _, err := cl.ConsensusParams(ctx, &h); err != nil {
			failExplicit++
			t.Logf("#%d control ConsensusParams(%d) refused: %v", i, h, err)
		}
		// the call under audit
		res, err := cl.ConsensusParams(ctx, nil)
		if err != nil {
			failLatest++
			t.Logf("#%d honest answer {BlockHeight:%d} (store height %d) REFUSED: %v",
				i, direct.BlockHeight, st.SyncInfo.LatestBlockHeight, err)
		} else {
			t.Logf("#%d relayed BlockHeight=%d", i, res.BlockHeight)
		}
	}
	t.Logf("ConsensusParams(nil): %d of %d honest answers refused; control ConsensusParams(&latest): %d of %d refused",
		failLatest, n, failExplicit, n)
	if failLatest > 0 {
		t.Errorf("C20 completeness: %d of %d honest 'latest consensus params' answers were refused", failLatest, n)
	}
}
