package consensus

// D-1: consensus.State on a state-synced node (state store bootstrapped, block
// store holding only the seen commit - exactly what node/node.go startStateSync
// leaves behind) with create_empty_blocks=false (or an interval > 0):
// enterNewRound -> needProofBlock(H+1) -> LoadBlockMeta(H) == nil -> panic ->
// "CONSENSUS FAILURE!!!", receiveRoutine exits, the node never takes part in
// consensus again. The C02/C01 harness fixes CreateEmptyBlocks=true and always
// starts from genesis with a block store that was filled by consensus itself.

import (
	"fmt"
	"strings"
	"sync"
	"testing"
	"time"

	dbm "github.com/tendermint/tm-db"

	abcicli "github.com/tendermint/tendermint/abci/client"
	"github.com/tendermint/tendermint/abci/example/kvstore"
	abci "github.com/tendermint/tendermint/abci/types"
	cfg "github.com/tendermint/tendermint/config"
	"github.com/tendermint/tendermint/libs/log"
	tmsync "github.com/tendermint/tendermint/libs/sync"
	mempl "github.com/tendermint/tendermint/mempool"
	mempoolv0 "github.com/tendermint/tendermint/mempool/v0"
	sm "github.com/tendermint/tendermint/state"
	"github.com/tendermint/tendermint/store"
	"github.com/tendermint/tendermint/types"
)

type aaD1Log struct {
	mtx   sync.Mutex
	lines []string
}

func (l *aaD1Log) add(level, msg string, kv ...interface{}) {
	l.mtx.Lock()
	defer l.mtx.Unlock()
	s := level + " " + msg
	for i := 0; i+1 < len(kv); i += 2 {
		if k, ok := kv[i].(string); ok && k == "stack" {
			continue
		}
		s += fmt.Sprintf(" %v=%v", kv[i], kv[i+1])
	}
	l.lines = append(l.lines, s)
}
func (l *aaD1Log) Debug(msg string, kv ...interface{}) {}
func (l *aaD1Log) Info(msg string, kv ...interface{})  {}
func (l *aaD1Log) Error(msg string, kv ...interface{}) { l.add("E", msg, kv...) }
func (l *aaD1Log) With(kv ...interface{}) log.Logger   { return l }
func (l *aaD1Log) failure() string {
	l.mtx.Lock()
	defer l.mtx.Unlock()
	for _, s := range l.lines {
		if strings.Contains(s, "CONSENSUS FAILURE") {
			return s
		}
	}
	return ""
}

// the body of newStateWithConfigAndBlockStore, but the stores are prepared the
// way node.go does after a state sync: Bootstrap + SaveSeenCommit
func aaD1StateSyncedNode(thisConfig *cfg.Config, state sm.State, seen *types.Commit,
	pv types.PrivValidator, app abci.Application, lg log.Logger) (*State, *store.BlockStore) {
	blockStore := store.NewBlockStore(dbm.NewMemDB())
	stateStore := sm.NewStore(dbm.NewMemDB(), sm.StoreOptions{DiscardABCIResponses: false})
	if err := stateStore.Bootstrap(state); err != nil { // node.go startStateSync
		panic(err)
	}
	if err := blockStore.SaveSeenCommit(state.LastBlockHeight, seen); err != nil { // node.go startStateSync
		panic(err)
	}
	mtx := new(tmsync.Mutex)
	proxyAppConnCon := abcicli.NewLocalClient(mtx, app)
	proxyAppConnConMem := abcicli.NewLocalClient(mtx, app)
	mempool := mempoolv0.NewCListMempool(thisConfig.Mempool, proxyAppConnConMem, state.LastBlockHeight,
		mempoolv0.WithPreCheck(sm.TxPreCheck(state)), mempoolv0.WithPostCheck(sm.TxPostCheck(state)))
	if thisConfig.Consensus.WaitForTxs() { // node.go createMempoolAndMempoolReactor
		mempool.EnableTxsAvailable()
	}
	evpool := sm.EmptyEvidencePool{}
	blockExec := sm.NewBlockExecutor(stateStore, log.NewNopLogger(), proxyAppConnCon, mempool, evpool)
	cs := NewState(thisConfig.Consensus, state, blockExec, blockStore, mempool, evpool)
	cs.SetLogger(lg)
	cs.SetPrivValidator(pv)
	eventBus := types.NewEventBus()
	eventBus.SetLogger(log.NewNopLogger())
	if err := eventBus.Start(); err != nil {
		panic(err)
	}
	cs.SetEventBus(eventBus)
	return cs, blockStore
}

func aaD1Run(t *testing.T, createEmptyBlocks bool, interval time.Duration, sendTx bool) (failure string, storeHeight int64, h0 int64) {
	// --- node A: an ordinary single-validator chain, run by real consensus to height >= 4
	state0, pvs := randGenesisState(1, false, 10)
	cfgA := ResetConfig(fmt.Sprintf("aa_d1_A_%v_%v_%v", createEmptyBlocks, interval, sendTx))
	dbA := dbm.NewMemDB()
	csA := newStateWithConfigAndBlockStore(cfgA, state0, pvs[0], kvstore.NewApplication(), dbA)
	csA.SetLogger(log.NewNopLogger())
	blockCh := subscribe(csA.eventBus, types.EventQueryNewBlock)
	if err := csA.Start(); err != nil {
		t.Fatal(err)
	}
	for i := 0; i < 4; i++ {
		select {
		case <-blockCh:
		case <-time.After(30 * time.Second):
			t.Fatal("node A made no block")
		}
	}
	if err := csA.Stop(); err != nil {
		t.Fatal(err)
	}
	csA.Wait()
	stateA, err := sm.NewStore(dbA, sm.StoreOptions{}).Load()
	if err != nil {
		t.Fatal(err)
	}
	h0 = stateA.LastBlockHeight
	seen := store.NewBlockStore(dbA).LoadSeenCommit(h0)
	if seen == nil {
		t.Fatal("no seen commit on A")
	}
	if err := stateA.LastValidators.VerifyCommit(stateA.ChainID, stateA.LastBlockID, h0, seen); err != nil {
		t.Fatal(err)
	}

	// --- node B: state-synced to h0 (what ssR.Sync returns is A's state at h0 and the commit for h0)
	cfgB := ResetConfig(fmt.Sprintf("aa_d1_B_%v_%v_%v", createEmptyBlocks, interval, sendTx))
	cfgB.Consensus.CreateEmptyBlocks = createEmptyBlocks
	cfgB.Consensus.CreateEmptyBlocksInterval = interval
	lg := &aaD1Log{}
	csB, bsB := aaD1StateSyncedNode(cfgB, stateA.Copy(), seen, pvs[0], kvstore.NewApplication(), lg)
	if err := csB.Start(); err != nil { // conR.SwitchToConsensus -> conS.Start()
		t.Fatal(err)
	}
	if sendTx {
		// a transaction reaches the mempool while the node waits in NewHeight: handleTxsAvailable
		time.Sleep(5 * time.Millisecond)
		if err := assertMempool(csB.txNotifier).CheckTx([]byte("k=v"), nil, mempl.TxInfo{}); err != nil {
			t.Fatal(err)
		}
	}
	deadline := time.After(5 * time.Second)
	tick := time.NewTicker(20 * time.Millisecond)
	defer tick.Stop()
loop:
	for {
		select {
		case <-csB.done: // receiveRoutine left
			break loop
		case <-deadline:
			break loop
		case <-tick.C:
			if bsB.Height() > h0 {
				break loop
			}
		}
	}
	failure = lg.failure()
	storeHeight = bsB.Height()
	if csB.IsRunning() {
		_ = csB.Stop()
	}
	return
}

func TestAAD1StateSyncedNodeWaitForTxs(t *testing.T) {
	// control: create_empty_blocks = true
	f, sh, h0 := aaD1Run(t, true, 0, false)
	t.Logf("control create_empty_blocks=true : state-synced at %d, block store height afterwards %d, failure=%q", h0, sh, f)
	if f != "" || sh <= h0 {
		t.Fatalf("control does not work: %q %d", f, sh)
	}
	bad := 0
	for _, c := range []struct {
		ceb      bool
		interval time.Duration
		tx       bool
	}{{false, 0, false}, {true, 10 * time.Second, false}, {false, 0, true}} {
		f, sh, h0 := aaD1Run(t, c.ceb, c.interval, c.tx)
		t.Logf("create_empty_blocks=%v interval=%v tx=%v: state-synced at %d, block store height afterwards %d, failure=%q",
			c.ceb, c.interval, c.tx, h0, sh, f)
		if f != "" {
			bad++
		}
	}
	if bad > 0 {
		t.Fatalf("VIOLATION: %d of 3 configurations: consensus receiveRoutine panicked on a state-synced node (no peer input at all)", bad)
	}
}
