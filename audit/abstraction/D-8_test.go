package consensus

// Abstraction audit C18, confirmation run (expected to PASS): the state-sync entry into the stores
// (state.Store.Bootstrap + BlockStore.SaveSeenCommit) followed by the normal per-block sequence
// SaveBlock / ApplyBlock and the real (*State).pruneBlocks. Real stores on memdb, real
// BlockExecutor, commits signed by the current validator set; only the ABCI application is a
// (deterministic, height-driven) stub. Audited after every operation: every height of
// [Base(), Height()] loads from the block store and agrees, its validators / params / ABCI responses
// load from the state store and hash to what the block header names; validators of Height()+1 load.

import (
	"bytes"
	"fmt"
	"testing"
	"time"

	dbm "github.com/tendermint/tm-db"

	abci "github.com/tendermint/tendermint/abci/types"
	cryptoenc "github.com/tendermint/tendermint/crypto/encoding"
	"github.com/tendermint/tendermint/libs/log"
	tmproto "github.com/tendermint/tendermint/proto/tendermint/types"
	"github.com/tendermint/tendermint/proxy"
	sm "github.com/tendermint/tendermint/state"
	"github.com/tendermint/tendermint/store"
	"github.com/tendermint/tendermint/types"
)

type aaApp struct {
	abci.BaseApplication
	pvs        []types.PrivValidator
	valsUntil  int64 // validator changes only at heights below this
	paramUntil int64
}

func (a *aaApp) EndBlock(req abci.RequestEndBlock) abci.ResponseEndBlock {
	var res abci.ResponseEndBlock
	h := req.Height
	if h%3 == 0 && h < a.valsUntil {
		pk, _ := a.pvs[int(h/3)%len(a.pvs)].GetPubKey()
		pkp, _ := cryptoenc.PubKeyToProto(pk)
		res.ValidatorUpdates = []abci.ValidatorUpdate{{PubKey: pkp, Power: 10 + h%7}}
	}
	if h%5 == 0 && h < a.paramUntil {
		res.ConsensusParamUpdates = &abci.ConsensusParams{Block: &abci.BlockParams{MaxBytes: 2000000 + h, MaxGas: -1}}
	}
	return res
}

type aaNode struct {
	bdb, sdb dbm.DB
	bs       *store.BlockStore
	ss       sm.Store
	exec     *sm.BlockExecutor
	state    sm.State
}

func aaNewNode(t *testing.T, app abci.Application) *aaNode {
	n := &aaNode{bdb: dbm.NewMemDB(), sdb: dbm.NewMemDB()}
	n.bs = store.NewBlockStore(n.bdb)
	n.ss = sm.NewStore(n.sdb, sm.StoreOptions{})
	conns := proxy.NewAppConns(proxy.NewLocalClientCreator(app))
	if err := conns.Start(); err != nil {
		t.Fatal(err)
	}
	t.Cleanup(func() { _ = conns.Stop() })
	n.exec = sm.NewBlockExecutor(n.ss, log.NewNopLogger(), conns.Consensus(), emptyMempool{}, sm.EmptyEvidencePool{})
	return n
}

func aaSign(t *testing.T, chainID string, pvs map[string]types.PrivValidator, vals *types.ValidatorSet,
	h int64, bid types.BlockID, ts time.Time) *types.Commit {
	vs := types.NewVoteSet(chainID, h, 0, tmproto.PrecommitType, vals)
	for i, v := range vals.Validators {
		vote := &types.Vote{ValidatorAddress: v.Address, ValidatorIndex: int32(i), Height: h, Round: 0,
			Type: tmproto.PrecommitType, BlockID: bid, Timestamp: ts}
		vp := vote.ToProto()
		if err := pvs[string(v.Address)].SignVote(chainID, vp); err != nil {
			t.Fatal(err)
		}
		vote.Signature = vp.Signature
		if _, err := vs.AddVote(vote); err != nil {
			t.Fatal(err)
		}
	}
	return vs.MakeCommit()
}

func aaAudit(t *testing.T, what string, n *aaNode) {
	t.Helper()
	// re-open both stores on the databases, as after a restart
	bs := store.NewBlockStore(n.bdb)
	ss := sm.NewStore(n.sdb, sm.StoreOptions{})
	base, tip := bs.Base(), bs.Height()
	bad := func(h int64, f string, a ...interface{}) {
		t.Errorf("%s: [base %d, height %d] height %d: %s", what, base, tip, h, fmt.Sprintf(f, a...))
	}
	for h := base; h <= tip && h > 0; h++ {
		meta := bs.LoadBlockMeta(h)
		if meta == nil {
			bad(h, "no meta")
			continue
		}
		blk := bs.LoadBlock(h)
		if blk == nil || !bytes.Equal(blk.Hash(), meta.BlockID.Hash) {
			bad(h, "block missing / hash differs")
			continue
		}
		if b2 := bs.LoadBlockByHash(meta.BlockID.Hash); b2 == nil || b2.Height != h {
			bad(h, "hash index")
		}
		var c *types.Commit
		if h == tip {
			c = bs.LoadSeenCommit(h)
		} else {
			c = bs.LoadBlockCommit(h)
		}
		if c == nil || !bytes.Equal(c.BlockID.Hash, meta.BlockID.Hash) {
			bad(h, "commit missing / for another block")
		}
		vals, err := ss.LoadValidators(h)
		if err != nil {
			bad(h, "LoadValidators: %v", err)
		} else if !bytes.Equal(vals.Hash(), meta.Header.ValidatorsHash) {
			bad(h, "validators are not the header's")
		}
		ps, err := ss.LoadConsensusParams(h)
		if err != nil {
			bad(h, "LoadConsensusParams: %v", err)
		} else if !bytes.Equal(types.HashConsensusParams(ps), meta.Header.ConsensusHash) {
			bad(h, "params are not the header's")
		}
		stt, _ := ss.Load()
		if h > stt.LastBlockHeight { // block stored, not yet applied: no responses yet, by design
			continue
		}
		if _, err := ss.LoadABCIResponses(h); err != nil {
			bad(h, "LoadABCIResponses: %v", err)
		}
		if h == tip {
			nv, err := ss.LoadValidators(h + 1)
			if err != nil {
				bad(h+1, "LoadValidators(tip+1): %v", err)
			} else if !bytes.Equal(nv.Hash(), meta.Header.NextValidatorsHash) {
				bad(h+1, "validators(tip+1) are not NextValidatorsHash")
			}
		}
	}
}

func aaRun(t *testing.T, ih, syncH, last int64, valsUntil, paramUntil int64, retains map[int64]int64) {
	const chainID = "aa-c18-boot"
	pvs := map[string]types.PrivValidator{}
	var pvl []types.PrivValidator
	var gvals []types.GenesisValidator
	for i := 0; i < 4; i++ {
		pv := types.NewMockPV()
		pk, _ := pv.GetPubKey()
		pvs[string(pk.Address())] = pv
		pvl = append(pvl, pv)
		gvals = append(gvals, types.GenesisValidator{Address: pk.Address(), PubKey: pk, Power: 10})
	}
	t0 := time.Date(2024, 1, 1, 0, 0, 0, 0, time.UTC)
	genDoc := &types.GenesisDoc{ChainID: chainID, GenesisTime: t0, InitialHeight: ih,
		ConsensusParams: types.DefaultConsensusParams(), Validators: gvals}
	if err := genDoc.ValidateAndComplete(); err != nil {
		t.Fatal(err)
	}
	app := &aaApp{pvs: pvl, valsUntil: valsUntil, paramUntil: paramUntil}

	// ---- node A: from genesis
	a := aaNewNode(t, app)
	st, err := sm.MakeGenesisState(genDoc)
	if err != nil {
		t.Fatal(err)
	}
	if err := a.ss.Save(st); err != nil { // Handshake after InitChain
		t.Fatal(err)
	}
	lastCommit := types.NewCommit(0, 0, types.BlockID{}, nil)
	for h := ih; h <= last; h++ {
		blk, parts := st.MakeBlock(h, nil, lastCommit, nil, st.Validators.GetProposer().Address)
		if h == ih {
			blk.Time = t0
		}
		bid := types.BlockID{Hash: blk.Hash(), PartSetHeader: parts.Header()}
		seen := aaSign(t, chainID, pvs, st.Validators, h, bid, t0.Add(time.Duration(h-ih+1)*time.Second))
		a.bs.SaveBlock(blk, parts, seen)
		st, _, err = a.exec.ApplyBlock(st, bid, blk)
		if err != nil {
			t.Fatalf("A ApplyBlock %d: %v", h, err)
		}
		lastCommit = seen
	}
	a.state = st
	aaAudit(t, "node A", a)

	// ---- node B: state sync at syncH, as statesync/stateprovider.go State() + node/node.go startStateSync
	b := aaNewNode(t, app)
	mH, mH1 := a.bs.LoadBlockMeta(syncH), a.bs.LoadBlockMeta(syncH+1)
	lv, _ := a.ss.LoadValidators(syncH)
	cv, _ := a.ss.LoadValidators(syncH + 1)
	nv, _ := a.ss.LoadValidators(syncH + 2)
	cp, _ := a.ss.LoadConsensusParams(syncH + 1)
	sb := sm.State{ChainID: chainID, Version: st.Version, InitialHeight: ih,
		LastBlockHeight: syncH, LastBlockTime: mH.Header.Time, LastBlockID: mH.BlockID,
		AppHash: mH1.Header.AppHash, LastResultsHash: mH1.Header.LastResultsHash,
		LastValidators: lv, Validators: cv, NextValidators: nv, LastHeightValidatorsChanged: syncH + 2,
		ConsensusParams: cp, LastHeightConsensusParamsChanged: syncH + 1}
	if err := b.ss.Bootstrap(sb); err != nil {
		t.Fatal(err)
	}
	if err := b.bs.SaveSeenCommit(syncH, a.bs.LoadBlockCommit(syncH)); err != nil {
		t.Fatal(err)
	}
	aaAudit(t, "B after bootstrap", b)
	cs := &State{blockStore: b.bs, blockExec: b.exec}
	for h := syncH + 1; h <= last; h++ {
		blk := a.bs.LoadBlock(h)
		parts := blk.MakePartSet(types.BlockPartSizeBytes)
		bid := types.BlockID{Hash: blk.Hash(), PartSetHeader: parts.Header()}
		seen := a.bs.LoadSeenCommit(h)
		b.bs.SaveBlock(blk, parts, seen)
		aaAudit(t, fmt.Sprintf("B after SaveBlock %d", h), b)
		sb, _, err = b.exec.ApplyBlock(sb, bid, blk)
		if err != nil {
			t.Fatalf("B ApplyBlock %d: %v", h, err)
		}
		aaAudit(t, fmt.Sprintf("B after ApplyBlock %d", h), b)
		if r, ok := retains[h]; ok {
			oldBase := b.bs.Base()
			pruned, err := cs.pruneBlocks(r)
			t.Logf("B at %d: pruneBlocks(%d) base %d -> %d pruned=%d err=%v", h, r, oldBase, b.bs.Base(), pruned, err)
			if err != nil && r <= h { // r > tip is refused by design (logged by finalizeCommit)
				t.Errorf("pruneBlocks(%d) at height %d (base %d): %v", r, h, oldBase, err)
			}
			aaAudit(t, fmt.Sprintf("B after pruneBlocks(%d) at %d", r, h), b)
		}
	}
	// what of the heights below the final base is left behind (leak check)
	var left []string
	for _, db := range []dbm.DB{b.bdb, b.sdb} {
		it, _ := db.Iterator(nil, nil)
		for ; it.Valid(); it.Next() {
			k := string(it.Key())
			var h int64
			for _, p := range []string{"H:%d", "C:%d", "SC:%d", "validatorsKey:%d", "consensusParamsKey:%d", "abciResponsesKey:%d"} {
				if n, _ := fmt.Sscanf(k, p, &h); n == 1 && h < b.bs.Base() {
					left = append(left, k)
				}
			}
		}
		it.Close()
	}
	t.Logf("B final range [%d,%d]; records of heights below base still on disk: %v", b.bs.Base(), b.bs.Height(), left)
}

func TestAAC18BootstrapThenPruneSmall(t *testing.T) {
	// sync at 10, blocks 11..40, validator/param changes all along
	aaRun(t, 1, 10, 40, 1<<60, 1<<60, map[int64]int64{13: 12, 14: 12, 20: 11, 21: 20, 30: 30, 35: 36, 36: 33, 40: 39})
}

func TestAAC18BootstrapThenPruneAcrossCheckpoint(t *testing.T) {
	// genesis just below the validator checkpoint (100000); sync at 99992; last validator change at
	// 99993 (effective 99995), so the heights from 100000 on resolve through the checkpoint record
	aaRun(t, 99985, 99992, 100012, 99995, 99996, map[int64]int64{99996: 99994, 99999: 99998, 100003: 100001, 100004: 100002, 100010: 100010, 100012: 100011})
}

func TestAAC18BootstrapInitialHeightSync(t *testing.T) {
	// snapshot at the initial height itself
	aaRun(t, 7, 7, 30, 1<<60, 1<<60, map[int64]int64{9: 9, 15: 12, 30: 29})
}
