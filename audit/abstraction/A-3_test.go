package consensus

// Abstraction audit A-3 (abstraction of C07/C08: "validator sets are well-formed: total power at
// most MaxTotalVotingPower - what NewValidatorSet / updateWithChangeSet enforce"; consequence in
// the consensus state machine).
//
// A ValidatorSet is ALSO built from untrusted bytes: types.ValidatorSetFromProto, reached through
// LightClientAttackEvidenceFromProto -> LightBlockFromProto for every piece of light-client-attack
// evidence carried by a block.  It validates each validator on its own (power >= 0), and calls
// vals.TotalVotingPower() to refresh the cache BEFORE ValidateBasic: updateTotalVotingPower
// PANICS ("Total voting power should be guarded to not exceed ...") when the powers add up to
// more than MaxTotalVotingPower.  The enforcement the abstraction relies on is a panic, and the
// decoder runs inside consensus.State.addProposalBlockPart (types.BlockFromProto), i.e. inside
// receiveRoutine: the panic is a CONSENSUS FAILURE, the node halts; the parts are in the WAL, so
// it halts again during catch-up replay after a restart.
//
// One byzantine proposer (its turn in some round) halts every validator that receives the block.

import (
	"testing"
	"time"

	"github.com/stretchr/testify/require"

	"github.com/tendermint/tendermint/crypto/ed25519"
	tmproto "github.com/tendermint/tendermint/proto/tendermint/types"
	"github.com/tendermint/tendermint/types"
)

func aaOverflowingEvidence() *types.LightClientAttackEvidence {
	v1 := types.NewValidator(ed25519.GenPrivKey().PubKey(), types.MaxTotalVotingPower)
	v2 := types.NewValidator(ed25519.GenPrivKey().PubKey(), 1)
	return &types.LightClientAttackEvidence{
		ConflictingBlock: &types.LightBlock{
			// no signed header needed: the validator set is decoded (and panics) before any ValidateBasic
			ValidatorSet: &types.ValidatorSet{Validators: []*types.Validator{v1, v2}, Proposer: v1},
		},
		CommonHeight: 1,
	}
}

// the decoder on its own: bytes in, panic out
func TestAuditValidatorSetFromProtoPanics(t *testing.T) {
	evpb, err := types.EvidenceToProto(aaOverflowingEvidence())
	require.NoError(t, err)
	bz, err := evpb.Marshal()
	require.NoError(t, err)
	t.Logf("evidence is %d bytes on the wire", len(bz))
	var back tmproto.Evidence
	require.NoError(t, back.Unmarshal(bz))
	var p interface{}
	func() {
		defer func() { p = recover() }()
		_, err = types.EvidenceFromProto(&back)
	}()
	t.Logf("EvidenceFromProto: err=%v panic=%v", err, p)
	require.NotNil(t, p, "defect absent: decoder returned an error instead of panicking")
}

// the same bytes inside a proposed block, real consensus.State
func TestAuditProposalWithOverflowingEvidenceHaltsConsensus(t *testing.T) {
	cs1, vss := randState(2)
	height, round := cs1.Height, cs1.Round
	vs2 := vss[1]

	propBlock, _ := cs1.createProposalBlock()

	// make the second validator the (byzantine) proposer by incrementing the round
	round++
	incrementRound(vss[1:]...)

	propBlock.Evidence = types.EvidenceData{Evidence: types.EvidenceList{aaOverflowingEvidence()}}
	propBlock.EvidenceHash = propBlock.Evidence.Hash()
	propBlockParts := propBlock.MakePartSet(types.BlockPartSizeBytes)
	blockID := types.BlockID{Hash: propBlock.Hash(), PartSetHeader: propBlockParts.Header()}
	proposal := types.NewProposal(vs2.Height, round, -1, blockID)
	p := proposal.ToProto()
	require.NoError(t, vs2.SignProposal(config.ChainID(), p))
	proposal.Signature = p.Signature

	// the proposal and its parts arrive from a peer
	require.NoError(t, cs1.SetProposalAndBlock(proposal, propBlock, propBlockParts, "some peer"))

	startTestRound(cs1, height, round)

	halted := make(chan struct{})
	go func() { cs1.Wait(); close(halted) }() // Wait returns when receiveRoutine has exited
	select {
	case <-halted:
		t.Logf("VIOLATION: consensus.State halted (CONSENSUS FAILURE) on a block part sent by the round's proposer; height %d round %d", height, round)
	case <-time.After(10 * time.Second):
		t.Fatal("defect absent: consensus is still running after the proposal")
	}
}

// the constructor the light client's HTTP provider uses for a /validators answer (light/provider/http/http.go:171)
func TestAuditValidatorSetFromExistingValidatorsPanics(t *testing.T) {
	ev := aaOverflowingEvidence()
	var p interface{}
	func() {
		defer func() { p = recover() }()
		_, _ = types.ValidatorSetFromExistingValidators(ev.ConflictingBlock.ValidatorSet.Validators)
	}()
	t.Logf("ValidatorSetFromExistingValidators: panic=%v", p)
	require.NotNil(t, p)
}
