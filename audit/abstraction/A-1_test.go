package state_test

// Abstraction audit A-1 (property C06): block time vs. the weighted median of the previous commit.
//
// state.validateBlock verifies block.LastCommit with LastValidators.VerifyCommit, which looks the
// signer of slot i up BY POSITION and never reads CommitSig.ValidatorAddress (the address is not
// part of the vote's sign-bytes either).  state.MedianTime, which validateBlock then uses to decide
// the only admissible block time, looks the weight of slot i up BY CommitSig.ValidatorAddress and
// silently SKIPS a slot whose address is not in the set.
//
// So the proposer of height h+1 (one validator, < 1/3 of the power) takes the genuine +2/3 commit
// of height h, overwrites the 20-byte ValidatorAddress of every slot except its own with an
// address that is nobody's, and proposes the block whose time is its OWN precommit timestamp
// (any instant later than the last block, e.g. ten years ahead).  Every honest node's
// validateBlock accepts that block and ApplyBlock makes it the chain's LastBlockTime.

import (
	"testing"
	"time"

	"github.com/stretchr/testify/require"

	"github.com/tendermint/tendermint/crypto/tmhash"
	"github.com/tendermint/tendermint/libs/log"
	memmock "github.com/tendermint/tendermint/mempool/mock"
	sm "github.com/tendermint/tendermint/state"
	"github.com/tendermint/tendermint/types"
)

func TestAuditC06MedianTimeByForgedAddress(t *testing.T) {
	proxyApp := newTestApp()
	require.NoError(t, proxyApp.Start())
	defer proxyApp.Stop() //nolint:errcheck

	state, stateDB, privVals := makeState(4, 1) // 4 validators of power 1000
	stateStore := sm.NewStore(stateDB, sm.StoreOptions{})
	blockExec := sm.NewBlockExecutor(stateStore, log.TestingLogger(), proxyApp.Consensus(),
		memmock.Mempool{}, sm.EmptyEvidencePool{})

	// height 1: an ordinary block, committed by all four validators with honest clocks
	lastCommit := types.NewCommit(0, 0, types.BlockID{}, nil)
	proposer := state.Validators.GetProposer().Address
	state, blockID, _, err := makeAndCommitGoodBlock(state, 1, lastCommit, proposer, blockExec, privVals, nil)
	require.NoError(t, err)

	// the commit of height 1: three honest precommits stamped "now", one (the byzantine
	// validator, slot byz) stamped ten years ahead.  All four signatures are genuine.
	vals := state.Validators // == LastValidators of height 2 (no validator changes)
	now := time.Now()
	future := now.Add(10 * 365 * 24 * time.Hour)
	const byz = 2
	sigs := make([]types.CommitSig, vals.Size())
	for i := 0; i < vals.Size(); i++ {
		_, val := vals.GetByIndex(int32(i))
		ts := now.Add(time.Duration(i) * time.Millisecond)
		if i == byz {
			ts = future
		}
		vote, err := types.MakeVote(1, blockID, vals, privVals[val.Address.String()], chainID, ts)
		require.NoError(t, err)
		sigs[i] = vote.CommitSig()
	}
	honestCommit := types.NewCommit(1, 0, blockID, sigs)

	// control: with the genuine addresses the median is an honest time
	honestMedian := sm.MedianTime(honestCommit, state.LastValidators)
	require.True(t, honestMedian.Before(now.Add(time.Second)), "control: honest median %v", honestMedian)

	// the byzantine proposer of height 2 relabels the honest slots with an address that is nobody's
	forged := types.NewCommit(1, 0, blockID, append([]types.CommitSig{}, sigs...))
	nobody := tmhash.SumTruncated([]byte("nobody"))
	for i := range forged.Signatures {
		if i != byz {
			forged.Signatures[i].ValidatorAddress = nobody
		}
	}
	// the commit still is a valid +2/3 commit for every verification entry point
	require.NoError(t, state.LastValidators.VerifyCommit(chainID, blockID, 1, forged))

	_, byzVal := vals.GetByIndex(byz)
	block, _ := state.MakeBlock(2, makeTxs(2), forged, nil, byzVal.Address) // time := MedianTime(forged, LastValidators)
	t.Logf("last block time  %v", state.LastBlockTime)
	t.Logf("honest median    %v", honestMedian)
	t.Logf("proposed time    %v", block.Time)
	require.True(t, block.Time.After(now.Add(9*365*24*time.Hour)))

	// PROPERTY: a block whose time is not the power-weighted median of the signers' timestamps
	// must be refused.  Here 3000 of 4000 power stamped "now"; the block says now + 10 years.
	err = blockExec.ValidateBlock(state, block)
	require.NoError(t, err, "validateBlock refused the forged block (defect absent)")

	bid := types.BlockID{Hash: block.Hash(), PartSetHeader: types.PartSetHeader{Total: 1, Hash: tmhash.Sum([]byte("p"))}}
	state, _, err = blockExec.ApplyBlock(state, bid, block)
	require.NoError(t, err)
	require.True(t, state.LastBlockTime.After(now.Add(9*365*24*time.Hour)))
	t.Logf("VIOLATION C06: block accepted and applied; chain time is now %v although validators holding 3/4 of the power stamped %v",
		state.LastBlockTime, now)
}
