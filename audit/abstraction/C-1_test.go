package node

// Audit candidate C-1 (C14 / C13 hand-over): a node that finished state sync
// (state.Store.Bootstrap + BlockStore.SaveSeenCommit, the two store calls of
// node.startStateSync) and is restarted before block sync / consensus stored the first
// block cannot start any more: NewNode -> createBlockchainReactor ->
// bcv0.NewBlockchainReactor panics "state (h) and store (0) height mismatch".

import (
	"fmt"
	"os"
	"sort"
	"testing"
	"time"

	"github.com/stretchr/testify/require"
	dbm "github.com/tendermint/tm-db"

	abci "github.com/tendermint/tendermint/abci/types"
	cfg "github.com/tendermint/tendermint/config"
	"github.com/tendermint/tendermint/libs/log"
	"github.com/tendermint/tendermint/p2p"
	"github.com/tendermint/tendermint/privval"
	"github.com/tendermint/tendermint/proxy"
	sm "github.com/tendermint/tendermint/state"
	"github.com/tendermint/tendermint/store"
	"github.com/tendermint/tendermint/types"
	tmtime "github.com/tendermint/tendermint/types/time"
)

// the application after a successful snapshot restore: it reports the snapshot height and the
// trusted app hash (exactly what syncer.verifyApp has checked before SyncAny returned).
type aaRestoredApp struct {
	abci.BaseApplication
	height  int64
	appHash []byte
}

func (a *aaRestoredApp) Info(abci.RequestInfo) abci.ResponseInfo {
	return abci.ResponseInfo{LastBlockHeight: a.height, LastBlockAppHash: a.appHash}
}

func TestAuditC1RestartAfterStateSync(t *testing.T) {
	config := cfg.ResetTestRoot("aa_c1_restart_after_statesync")
	defer os.RemoveAll(config.RootDir)
	config.DBBackend = "goleveldb"   // persistent, like a real node (the test config default is memdb)
	config.StateSync.Enable = false // as an operator does after the restore (and NewNode skips it anyway)

	// chain with 3 validators, none of them this node
	const h = int64(7)
	vals := make([]*types.Validator, 3)
	pvs := make([]types.PrivValidator, 3)
	gvals := make([]types.GenesisValidator, 3)
	for i := range pvs {
		pvs[i] = types.NewMockPV()
	}
	sort.Sort(types.PrivValidatorsByAddress(pvs)) // validator-set order (equal powers)
	for i := range vals {
		pv := pvs[i]
		pk, _ := pv.GetPubKey()
		vals[i] = types.NewValidator(pk, 10)
		gvals[i] = types.GenesisValidator{PubKey: pk, Power: 10}
	}
	genDoc := &types.GenesisDoc{
		ChainID:         "aa-c1-chain",
		GenesisTime:     tmtime.Now().Add(-time.Hour),
		ConsensusParams: types.DefaultConsensusParams(),
		Validators:      gvals,
	}
	require.NoError(t, genDoc.ValidateAndComplete())

	// the state a lightClientStateProvider.State(h) builds (fields per statesync/stateprovider.go)
	state, err := sm.MakeGenesisState(genDoc)
	require.NoError(t, err)
	blockID := types.BlockID{Hash: make([]byte, 32), PartSetHeader: types.PartSetHeader{Total: 1, Hash: make([]byte, 32)}}
	blockID.Hash[0] = 7
	state.LastBlockHeight = h
	state.LastBlockID = blockID
	state.LastBlockTime = tmtime.Now().Add(-time.Minute)
	state.LastValidators = state.Validators.Copy()
	state.AppHash = []byte("trusted app hash of h")
	state.LastHeightValidatorsChanged = h + 2
	state.LastHeightConsensusParamsChanged = h + 1

	// a genuine +2/3 commit for height h
	vs := types.NewVoteSet(genDoc.ChainID, h, 0, 2 /* precommit */, state.LastValidators)
	commit, err := types.MakeCommit(blockID, h, 0, vs, pvs, state.LastBlockTime)
	require.NoError(t, err)
	require.NoError(t, state.LastValidators.VerifyCommit(genDoc.ChainID, blockID, h, commit))

	// --- the two store calls of node.startStateSync, on the node's real databases ---
	blockDB, err := DefaultDBProvider(&DBContext{"blockstore", config})
	require.NoError(t, err)
	stateDB, err := DefaultDBProvider(&DBContext{"state", config})
	require.NoError(t, err)
	require.NoError(t, sm.NewStore(stateDB, sm.StoreOptions{}).Bootstrap(state))
	require.NoError(t, store.NewBlockStore(blockDB).SaveSeenCommit(state.LastBlockHeight, commit))
	require.NoError(t, blockDB.Close())
	require.NoError(t, stateDB.Close())
	var _ dbm.DB = blockDB

	// --- the process is restarted before the first block after the snapshot was stored ---
	nodeKey, err := p2p.LoadOrGenNodeKey(config.NodeKeyFile())
	require.NoError(t, err)
	app := &aaRestoredApp{height: h, appHash: state.AppHash}

	var panicked interface{}
	var n *Node
	func() {
		defer func() { panicked = recover() }()
		n, err = NewNode(config,
			privval.LoadOrGenFilePV(config.PrivValidatorKeyFile(), config.PrivValidatorStateFile()),
			nodeKey,
			proxy.NewLocalClientCreator(app),
			func() (*types.GenesisDoc, error) { return genDoc, nil },
			DefaultDBProvider,
			DefaultMetricsProvider(config.Instrumentation),
			log.TestingLogger(),
		)
	}()
	fmt.Printf("AUDIT C-1: NewNode after state sync + restart: panic=%v err=%v node=%v\n", panicked, err, n != nil)
	if panicked != nil {
		t.Fatalf("PROPERTY VIOLATED: node restored to verified state at height %d cannot start again: panic: %v", h, panicked)
	}
	require.NoError(t, err)
}
