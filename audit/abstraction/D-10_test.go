package txindex_test

// Abstraction audit C19, candidate 2: the model's premise "transaction bytes
// pairwise distinct". The same transaction bytes committed at two heights (legal:
// tendermint never refuses a replayed tx, the builtin kvstore app accepts "k=v"
// any number of times, the mempool cache is per node, bounded and empty after a
// restart) go through the real EventBus -> IndexerService -> kv.TxIndex.AddBatch.

import (
	"context"
	"testing"
	"time"

	db "github.com/tendermint/tm-db"

	abci "github.com/tendermint/tendermint/abci/types"
	"github.com/tendermint/tendermint/libs/log"
	"github.com/tendermint/tendermint/libs/pubsub/query"
	blockidxkv "github.com/tendermint/tendermint/state/indexer/block/kv"
	"github.com/tendermint/tendermint/state/txindex"
	"github.com/tendermint/tendermint/state/txindex/kv"
	"github.com/tendermint/tendermint/types"
)

func ev(typ, k, v string) abci.Event {
	return abci.Event{Type: typ, Attributes: []abci.EventAttribute{{Key: []byte(k), Value: []byte(v), Index: true}}}
}

func TestAAC19DuplicateTxAcrossHeights(t *testing.T) {
	eventBus := types.NewEventBus()
	eventBus.SetLogger(log.NewNopLogger())
	if err := eventBus.Start(); err != nil {
		t.Fatal(err)
	}
	defer eventBus.Stop() //nolint

	store := db.NewMemDB()
	txIndexer := kv.NewTxIndex(store)
	blockIndexer := blockidxkv.New(db.NewPrefixDB(store, []byte("block_events")))
	service := txindex.NewIndexerService(txIndexer, blockIndexer, eventBus, false)
	service.SetLogger(log.NewNopLogger())
	if err := service.Start(); err != nil {
		t.Fatal(err)
	}
	defer service.Stop() //nolint

	tx := types.Tx("k=v")
	publish := func(h int64, res abci.ResponseDeliverTx) {
		if err := eventBus.PublishEventNewBlockHeader(types.EventDataNewBlockHeader{Header: types.Header{Height: h}, NumTxs: 1}); err != nil {
			t.Fatal(err)
		}
		if err := eventBus.PublishEventTx(types.EventDataTx{TxResult: abci.TxResult{Height: h, Index: 0, Tx: tx, Result: res}}); err != nil {
			t.Fatal(err)
		}
	}
	// height 5: the tx succeeds, the app emits transfer.to = 'alice'
	publish(5, abci.ResponseDeliverTx{Code: 0, Events: []abci.Event{ev("transfer", "to", "alice")}})
	// height 9: the same bytes again, this time the app rejects it (code 7), event transfer.to = 'nobody'
	publish(9, abci.ResponseDeliverTx{Code: 7, Events: []abci.Event{ev("transfer", "to", "nobody")}})
	time.Sleep(300 * time.Millisecond)

	bad := 0
	search := func(s string) []*abci.TxResult {
		q := query.MustParse(s)
		res, err := txIndexer.Search(context.Background(), q)
		if err != nil {
			t.Fatalf("%s: %v", s, err)
		}
		t.Logf("Search(%s): %d result(s)", s, len(res))
		for _, r := range res {
			evs := map[string][]string{
				types.TxHeightKey: {itoa(r.Height)},
			}
			for _, e := range r.Result.Events {
				for _, a := range e.Attributes {
					k := e.Type + "." + string(a.Key)
					evs[k] = append(evs[k], string(a.Value))
				}
			}
			m, _ := q.Matches(evs)
			t.Logf("    -> height=%d index=%d code=%d events=%v   satisfies the query (real Query.Matches): %v", r.Height, r.Index, r.Result.Code, evs, m)
			if !m {
				bad++
			}
		}
		return res
	}
	search("tx.height = 5")
	search("transfer.to = 'alice'")
	search("tx.height = 5 AND transfer.to = 'alice'")
	all := search("tx.height >= 1")
	if len(all) != 2 {
		t.Logf("two transactions were committed (5/0 and 9/0), Search(tx.height >= 1) knows %d", len(all))
		bad++
	}
	if bad > 0 {
		t.Fatalf("C19 violated on an honest history: %d finding(s): search returns an item that does not satisfy the query; the record of the commit at height 5 (the successful one) is gone", bad)
	}
}

func itoa(i int64) string {
	if i == 0 {
		return "0"
	}
	s := ""
	for i > 0 {
		s = string(rune('0'+i%10)) + s
		i /= 10
	}
	return s
}
