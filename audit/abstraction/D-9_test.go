package core_test

// Abstraction audit C19, candidate 1: "rpc/core/events.go is not modelled".
// The statement promises a subscriber every matching event "or is told explicitly
// that its subscription was cancelled". For a websocket subscriber the telling is
// done by the goroutine in rpc/core.Subscribe with TryWriteRPCResponse (non
// blocking): when the connection's write queue is full at that moment - the normal
// state of the very client that has just been cancelled for reading too slowly -
// the notice is dropped, the goroutine ends, the connection stays open.
//
// Real components: types.EventBus (real pubsub.Server), rpc/core.Routes (real
// Subscribe handler), the real websocket manager / wsConnection, default RPCConfig
// wired as node.go does; a real gorilla websocket client that reads steadily but
// more slowly than a block's transactions are published.

import (
	"context"
	"encoding/json"
	"fmt"
	"net"
	"net/http"
	"net/http/httptest"
	"os"
	"strings"
	"testing"
	"time"

	"github.com/gorilla/websocket"

	abci "github.com/tendermint/tendermint/abci/types"
	cfg "github.com/tendermint/tendermint/config"
	"github.com/tendermint/tendermint/libs/log"
	tmpubsub "github.com/tendermint/tendermint/libs/pubsub"
	"github.com/tendermint/tendermint/rpc/core"
	rpcserver "github.com/tendermint/tendermint/rpc/jsonrpc/server"
	"github.com/tendermint/tendermint/types"
)

var srvLogger = log.NewNopLogger()

const (
	burst         = 150                    // transactions per block (below SubscriptionBufferSize = 200)
	blockInterval = 100 * time.Millisecond // time between blocks
)

func runSlowClient(t *testing.T, nTxs, txSize int, perMsg time.Duration) (events int, told bool, alive bool, leftover int) {
	eventBus := types.NewEventBus()
	eventBus.SetLogger(log.NewNopLogger())
	if err := eventBus.Start(); err != nil {
		t.Fatal(err)
	}
	defer eventBus.Stop() //nolint

	rpcCfg := *cfg.DefaultRPCConfig()
	core.SetEnvironment(&core.Environment{EventBus: eventBus, Logger: srvLogger, Config: rpcCfg})

	// as node.go startRPC does
	wm := rpcserver.NewWebsocketManager(core.Routes,
		rpcserver.OnDisconnect(func(remoteAddr string) {
			err := eventBus.UnsubscribeAll(context.Background(), remoteAddr)
			if err != nil && err != tmpubsub.ErrSubscriptionNotFound {
				t.Log(err)
			}
		}),
		rpcserver.ReadLimit(rpcCfg.MaxBodyBytes),
		rpcserver.WriteChanCapacity(rpcCfg.WebSocketWriteBufferSize),
	)
	wm.SetLogger(srvLogger)
	mux := http.NewServeMux()
	mux.HandleFunc("/websocket", wm.WebsocketHandler)
	srv := httptest.NewServer(mux)
	defer srv.Close()

	d := websocket.Dialer{NetDial: func(network, addr string) (net.Conn, error) {
		c, err := net.Dial(network, addr)
		if err == nil {
			_ = c.(*net.TCPConn).SetReadBuffer(256 << 10)
		}
		return c, err
	}}
	ws, _, err := d.Dial("ws"+strings.TrimPrefix(srv.URL, "http")+"/websocket", nil)
	if err != nil {
		t.Fatal(err)
	}
	defer ws.Close()

	type resp struct {
		ID     json.RawMessage `json:"id"`
		Result json.RawMessage `json:"result"`
		Error  *struct {
			Code    int    `json:"code"`
			Message string `json:"message"`
			Data    string `json:"data"`
		} `json:"error"`
	}
	if err := ws.WriteMessage(websocket.TextMessage,
		[]byte(`{"jsonrpc":"2.0","id":1,"method":"subscribe","params":{"query":"tm.event='Tx'"}}`)); err != nil {
		t.Fatal(err)
	}
	var r resp
	if err := ws.ReadJSON(&r); err != nil || r.Error != nil {
		t.Fatalf("subscribe: %v %+v", err, r.Error)
	}

	// one block's transactions, published as state.fireEvents does
	pubDone := make(chan struct{})
	go func() {
		defer close(pubDone)
		tx := make([]byte, txSize)
		for i := 0; i < nTxs; i++ {
			if i > 0 && i%burst == 0 {
				time.Sleep(blockInterval) // the next block
			}
			copy(tx, fmt.Sprintf("%08d", i))
			_ = eventBus.PublishEventTx(types.EventDataTx{TxResult: abci.TxResult{
				Height: 1, Index: uint32(i), Tx: append([]byte(nil), tx...), Result: abci.ResponseDeliverTx{}}})
		}
	}()

	// the client: steady reader, perMsg per message; concludes after 4s of silence
	type in struct {
		m   resp
		err error
	}
	ch := make(chan in)
	go func() {
		for {
			var m resp
			err := ws.ReadJSON(&m)
			ch <- in{m, err}
			if err != nil {
				return
			}
			time.Sleep(perMsg)
		}
	}()
	last := -1
LOOP:
	for {
		select {
		case <-time.After(4 * time.Second):
			break LOOP
		case x := <-ch:
			if x.err != nil {
				t.Logf("client: connection ended after %d events: %v", events, x.err)
				return events, true, false, 0
			}
			m := x.m
			if m.Error != nil {
				t.Logf("client: TOLD after %d events: %s %s", events, m.Error.Message, m.Error.Data)
				told = true
				continue
			}
			var re struct {
				Data struct {
					Value struct {
						TxResult struct {
							Index uint32 `json:"index"`
						} `json:"TxResult"`
					} `json:"value"`
				} `json:"data"`
			}
			_ = json.Unmarshal(m.Result, &re)
			idx := int(re.Data.Value.TxResult.Index)
			if idx != last+1 {
				t.Logf("client: GAP: event index %d follows %d", idx, last)
			}
			last = idx
			events++
		}
	}
	<-pubDone

	// the connection is alive and serves the client: ask for health on it
	if err := ws.WriteMessage(websocket.TextMessage, []byte(`{"jsonrpc":"2.0","id":2,"method":"health","params":{}}`)); err != nil {
		t.Logf("client: health request: %v", err)
	} else {
		select {
		case x := <-ch:
			alive = x.err == nil && string(x.m.ID) == "2" && x.m.Error == nil
			t.Logf("client: after 4s of silence the same connection answers health: id=%s result=%s err=%v", x.m.ID, x.m.Result, x.err)
		case <-time.After(5 * time.Second):
			t.Logf("client: no answer to health")
		}
	}
	for addrSubs := 0; addrSubs < 1; addrSubs++ {
		leftover = eventBus.NumClients()
	}
	return events, told, alive, leftover
}

func TestAAC19SlowWebsocketSubscriberNotTold(t *testing.T) {
	const nTxs, txSize = 2000, 65536
	silent := 0
	runs := 4
	if os.Getenv("AA_LOG") != "" {
		runs = 1
		srvLogger = log.NewTMLogger(log.NewSyncWriter(os.Stdout))
	}
	for run := 0; run < runs; run++ {
		events, told, alive, left := runSlowClient(t, nTxs, txSize, 5*time.Millisecond)
		t.Logf("run %d: published %d matching events; client received %d, told of cancellation: %v, connection still open and serving: %v; clients still registered in the event bus: %d",
			run, nTxs, events, told, alive, left)
		if events < nTxs && !told && alive {
			silent++
		}
	}
	if silent > 0 {
		t.Fatalf("C19 violated in %d of the runs: the subscriber received a strict prefix of its matching events and was never told that its subscription was cancelled; its connection stayed open", silent)
	}
}
