package light_test

import (
	"context"
	"sync"
	"testing"
	"time"

	dbm "github.com/tendermint/tm-db"

	"github.com/tendermint/tendermint/libs/log"
	"github.com/tendermint/tendermint/light"
	"github.com/tendermint/tendermint/light/provider"
	mockp "github.com/tendermint/tendermint/light/provider/mock"
	dbs "github.com/tendermint/tendermint/light/store/db"
	"github.com/tendermint/tendermint/types"
)

// B-5: real light.Client over the real light/store/db. The model's store is a height-sorted list
// ("the size counter of light/store/db ... not modelled"). dbs.SaveLightBlock increments the size
// counter even when the height is already stored; two concurrent VerifyLightBlockAtHeight(h) calls
// (the light proxy serves RPC requests concurrently, each ends in lc.VerifyLightBlockAtHeight)
// both miss the store, both verify, both save: size drifts above the number of stored blocks for
// good (it is persisted), and Prune(size) deletes `counter - size` LOWEST blocks - up to and
// including the block just saved. slowProvider only delays answers (network latency).
type slowProvider struct{ provider.Provider }

func (p slowProvider) LightBlock(ctx context.Context, h int64) (*types.LightBlock, error) {
	time.Sleep(50 * time.Millisecond)
	return p.Provider.LightBlock(ctx, h)
}

func TestAuditB5StoreSizeDrift(t *testing.T) {
	chain, hdrs, valz := genMockNode("aab5", 9, 3, 0, time.Now().Add(-1*time.Hour))
	node := slowProvider{mockp.New(chain, hdrs, valz)}
	st := dbs.New(dbm.NewMemDB(), chain)
	c, err := light.NewClient(context.Background(), chain,
		light.TrustOptions{Period: 4 * time.Hour, Height: 1, Hash: hdrs[1].Hash()},
		node, []provider.Provider{slowProvider{mockp.New(chain, hdrs, valz)}}, st,
		light.PruningSize(2), light.Logger(log.NewNopLogger()))
	if err != nil {
		t.Fatal(err)
	}
	count := func() (n int) {
		for h := int64(1); h <= 9; h++ {
			if _, err := st.LightBlock(h); err == nil {
				n++
			}
		}
		return
	}
	for _, h := range []int64{3, 5, 7} {
		var wg sync.WaitGroup
		for i := 0; i < 2; i++ {
			wg.Add(1)
			go func() {
				defer wg.Done()
				if _, err := c.VerifyLightBlockAtHeight(context.Background(), h, time.Now()); err != nil {
					t.Errorf("VerifyLightBlockAtHeight(%d): %v", h, err)
				}
			}()
		}
		wg.Wait()
		last, _ := c.LastTrustedHeight()
		t.Logf("after 2 concurrent VerifyLightBlockAtHeight(%d): store.Size()=%d, blocks actually stored=%d, LastTrustedHeight=%d",
			h, st.Size(), count(), last)
	}
	if int(st.Size()) != count() {
		t.Errorf("size counter %d != %d stored blocks", st.Size(), count())
	}
	if _, err := c.TrustedLightBlock(0); err != nil {
		t.Errorf("the trusted store lost its latest verified header: TrustedLightBlock(0): %v", err)
	}
	lb, err := c.Update(context.Background(), time.Now())
	t.Logf("Update() = %v, %v (primary is at height 9)", lb, err)
	if lb == nil && err == nil {
		t.Errorf("Update() reports 'nothing newer' although the primary is at height 9: the client is stuck")
	}
}
