package rpc_test

import (
	"context"
	"testing"
	"time"

	dbm "github.com/tendermint/tm-db"

	"github.com/tendermint/tendermint/libs/log"
	"github.com/tendermint/tendermint/light"
	"github.com/tendermint/tendermint/light/provider"
	httpp "github.com/tendermint/tendermint/light/provider/http"
	lrpc "github.com/tendermint/tendermint/light/rpc"
	dbs "github.com/tendermint/tendermint/light/store/db"
	rpchttp "github.com/tendermint/tendermint/rpc/client/http"
	rpctest "github.com/tendermint/tendermint/rpc/test"
	"github.com/tendermint/tendermint/types"
)

// survey: every verifying method with "latest"/default arguments against a real honest node
func TestAuditB4Survey(t *testing.T) {
	cfg := rpctest.GetConfig()
	chainID := cfg.ChainID()
	ctx := context.Background()
	next, _ := rpchttp.New(cfg.RPC.ListenAddress, "/websocket")
	for {
		st, err := next.Status(ctx)
		if err == nil && st.SyncInfo.LatestBlockHeight >= 3 {
			break
		}
		time.Sleep(100 * time.Millisecond)
	}
	primary, _ := httpp.New(chainID, cfg.RPC.ListenAddress)
	witness, _ := httpp.New(chainID, cfg.RPC.ListenAddress)
	root, err := primary.LightBlock(ctx, 2)
	if err != nil {
		t.Fatal(err)
	}
	lc, err := light.NewClient(ctx, chainID,
		light.TrustOptions{Period: 504 * time.Hour, Height: 2, Hash: root.Hash()},
		primary, []provider.Provider{witness}, dbs.New(dbm.NewMemDB(), chainID),
		light.Logger(log.NewNopLogger()))
	if err != nil {
		t.Fatal(err)
	}
	cl := lrpc.NewClient(next, lc, lrpc.KeyPathFn(lrpc.DefaultMerkleKeyPathFn()))

	tx := types.Tx("aab4=1")
	bres, err := next.BroadcastTxCommit(ctx, tx)
	if err != nil {
		t.Fatal(err)
	}
	t.Logf("tx committed at %d", bres.Height)
	rep := func(name string, err error) {
		if err != nil {
			t.Errorf("%s: honest answer REFUSED: %v", name, err)
		} else {
			t.Logf("%s: ok", name)
		}
	}
	for round := 0; round < 2; round++ {
		_, err = cl.Block(ctx, nil)
		rep("Block(nil)", err)
		_, err = cl.Commit(ctx, nil)
		rep("Commit(nil)", err)
		_, err = cl.Commit(ctx, nil)
		rep("Commit(nil) again", err)
		_, err = cl.Validators(ctx, nil, nil, nil)
		rep("Validators(nil)", err)
		_, err = cl.BlockResults(ctx, nil)
		rep("BlockResults(nil)", err)
		_, err = cl.BlockResults(ctx, &bres.Height)
		rep("BlockResults(txheight)", err)
		_, err = cl.BlockchainInfo(ctx, 0, 0)
		rep("BlockchainInfo(0,0)", err)
		_, err = cl.BlockByHash(ctx, root.Hash())
		rep("BlockByHash(root)", err)
		_, err = cl.Tx(ctx, tx.Hash(), true)
		rep("Tx(prove)", err)
		_, err = cl.TxSearch(ctx, "tx.height>0", true, nil, nil, "asc")
		rep("TxSearch(prove)", err)
		_, err = cl.ConsensusParams(ctx, &bres.Height)
		rep("ConsensusParams(txheight)", err)
		time.Sleep(1200 * time.Millisecond)
	}
}
