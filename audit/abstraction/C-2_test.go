package v0

// Audit candidate C-2 (C13): a node that block-syncs after a state sync (the node's normal
// path: startStateSync -> Bootstrap -> SaveSeenCommit -> SwitchToFastSync) refuses the CANONICAL
// block that carries evidence of a height at or below the snapshot height, because the REAL
// evidence pool (evidence.Pool.verify) needs the block meta of the evidence height, which a
// state-synced node does not have. ValidateBlock fails, the honest peers that supplied the
// canonical pair are stopped for error and the node never reaches the tip.
// The C13 model has ValidateBlock as an oracle, the harness runs with sm.EmptyEvidencePool.

import (
	"bytes"
	"fmt"
	"os"
	"strings"
	"testing"
	"time"

	"github.com/stretchr/testify/require"
	dbm "github.com/tendermint/tm-db"

	cfg "github.com/tendermint/tendermint/config"
	"github.com/tendermint/tendermint/evidence"
	"github.com/tendermint/tendermint/libs/log"
	"github.com/tendermint/tendermint/mempool/mock"
	"github.com/tendermint/tendermint/p2p"
	"github.com/tendermint/tendermint/proxy"
	sm "github.com/tendermint/tendermint/state"
	"github.com/tendermint/tendermint/store"
	"github.com/tendermint/tendermint/types"
)

const (
	aaTip        = int64(9) // canonical chain 1..9
	aaEvOfHeight = int64(2) // the validator double-signed at height 2
	aaEvInBlock  = int64(6) // ... and block 6 carries the evidence
	aaSnapshot   = int64(4) // the syncing node restored a snapshot of height 4
)

type aaNode struct {
	reactor    *BlockchainReactor
	app        proxy.AppConns
	stateStore sm.Store
	blockStore *store.BlockStore
	blockExec  *sm.BlockExecutor
	states     map[int64]sm.State // honest node only: state after each height
	logs       *bytes.Buffer
}

func aaNewStores(t *testing.T) (proxy.AppConns, sm.Store, *store.BlockStore) {
	proxyApp := proxy.NewAppConns(proxy.NewLocalClientCreator(&testApp{}))
	require.NoError(t, proxyApp.Start())
	return proxyApp, sm.NewStore(dbm.NewMemDB(), sm.StoreOptions{}), store.NewBlockStore(dbm.NewMemDB())
}

// the honest full node: builds the canonical chain, every block validated and applied by a
// BlockExecutor with a REAL evidence pool (so the evidence block is valid for a full node).
func aaHonest(t *testing.T, genDoc *types.GenesisDoc, pv types.PrivValidator) *aaNode {
	app, stateStore, blockStore := aaNewStores(t)
	state, err := stateStore.LoadFromDBOrGenesisDoc(genDoc)
	require.NoError(t, err)
	require.NoError(t, stateStore.Save(state))
	evpool, err := evidence.NewPool(dbm.NewMemDB(), stateStore, blockStore)
	require.NoError(t, err)
	blockExec := sm.NewBlockExecutor(stateStore, log.NewNopLogger(), app.Consensus(), mock.Mempool{}, evpool)
	states := map[int64]sm.State{0: state.Copy()}

	for h := int64(1); h <= aaTip; h++ {
		lastCommit := types.NewCommit(h-1, 0, types.BlockID{}, nil)
		if h > 1 {
			meta := blockStore.LoadBlockMeta(h - 1)
			vote, err := types.MakeVote(h-1, meta.BlockID, state.Validators, pv, genDoc.ChainID, time.Now())
			require.NoError(t, err)
			lastCommit = types.NewCommit(vote.Height, vote.Round, meta.BlockID, []types.CommitSig{vote.CommitSig()})
		}
		var evs []types.Evidence
		if h == aaEvInBlock {
			evTime := blockStore.LoadBlockMeta(aaEvOfHeight).Header.Time
			evs = []types.Evidence{types.NewMockDuplicateVoteEvidenceWithValidator(aaEvOfHeight, evTime, pv, genDoc.ChainID)}
		}
		block, parts := state.MakeBlock(h, makeTxs(h), lastCommit, evs, state.Validators.GetProposer().Address)
		blockID := types.BlockID{Hash: block.Hash(), PartSetHeader: parts.Header()}
		// a full node accepts it (ValidateBlock incl. real evidence verification runs inside ApplyBlock)
		state, _, err = blockExec.ApplyBlock(state, blockID, block)
		require.NoError(t, err, "canonical block %d must be valid for a full node", h)
		blockStore.SaveBlock(block, parts, lastCommit)
		states[h] = state.Copy()
	}
	require.Len(t, blockStore.LoadBlock(aaEvInBlock).Evidence.Evidence, 1)

	r := NewBlockchainReactor(state.Copy(), blockExec, blockStore, true)
	r.SetLogger(log.NewNopLogger())
	return &aaNode{reactor: r, app: app, stateStore: stateStore, blockStore: blockStore, blockExec: blockExec, states: states}
}

// a syncing node as node.NewNode wires it: empty stores, real evidence pool on them.
func aaSyncing(t *testing.T, genDoc *types.GenesisDoc, fastSync bool) *aaNode {
	app, stateStore, blockStore := aaNewStores(t)
	state, err := stateStore.LoadFromDBOrGenesisDoc(genDoc)
	require.NoError(t, err)
	if fastSync { // plain block sync from genesis: the handshake has saved the genesis state
		require.NoError(t, stateStore.Save(state))
	}
	evpool, err := evidence.NewPool(dbm.NewMemDB(), stateStore, blockStore)
	require.NoError(t, err)
	logs := &bytes.Buffer{}
	logger := log.NewTMLogger(log.NewSyncWriter(logs))
	blockExec := sm.NewBlockExecutor(stateStore, logger, app.Consensus(), mock.Mempool{}, evpool)
	r := NewBlockchainReactor(state.Copy(), blockExec, blockStore, fastSync)
	r.SetLogger(logger)
	return &aaNode{reactor: r, app: app, stateStore: stateStore, blockStore: blockStore, blockExec: blockExec, logs: logs}
}

func aaConnect(nodes ...*aaNode) []*p2p.Switch {
	return p2p.MakeConnectedSwitches(config.P2P, len(nodes), func(i int, s *p2p.Switch) *p2p.Switch {
		s.AddReactor("BLOCKCHAIN", nodes[i].reactor)
		return s
	}, p2p.Connect2Switches)
}

func aaWait(d time.Duration, cond func() bool) bool {
	deadline := time.Now().Add(d)
	for time.Now().Before(deadline) {
		if cond() {
			return true
		}
		time.Sleep(20 * time.Millisecond)
	}
	return cond()
}

func TestAuditC2BlockSyncAfterStateSyncRefusesCanonicalEvidenceBlock(t *testing.T) {
	config = cfg.ResetTestRoot("aa_c2_blocksync_after_statesync")
	defer os.RemoveAll(config.RootDir)
	genDoc, privVals := randGenesisDoc(1, false, 10)

	honest := aaHonest(t, genDoc, privVals[0])

	// ---- control: plain block sync from genesis, real evidence pool: reaches the tip ----
	honestC := aaHonest2(t, honest)
	ctrl := aaSyncing(t, genDoc, true)
	swsC := aaConnect(honestC, ctrl)
	okC := aaWait(20*time.Second, func() bool { return ctrl.blockStore.Height() >= aaTip-1 })
	fmt.Printf("AUDIT C-2 control (block sync from genesis): store height %d of tip %d, peers %d\n",
		ctrl.blockStore.Height(), aaTip, swsC[1].Peers().Size())
	require.True(t, okC, "control: a node syncing from genesis must reach tip-1")
	for _, s := range swsC {
		_ = s.Stop()
	}

	// ---- the state-synced node ----
	node := aaSyncing(t, genDoc, false) // NewNode: fastSync && !stateSync
	sws := aaConnect(honest, node)

	// what startStateSync does once ssR.Sync returned the light-verified state and commit of h:
	st := honest.states[aaSnapshot].Copy()
	st.LastHeightValidatorsChanged = aaSnapshot + 2      // as lightClientStateProvider.State
	st.LastHeightConsensusParamsChanged = aaSnapshot + 1 // as lightClientStateProvider.State
	commit := honest.blockStore.LoadBlockCommit(aaSnapshot)
	require.NoError(t, st.LastValidators.VerifyCommit(genDoc.ChainID, st.LastBlockID, aaSnapshot, commit))
	require.NoError(t, node.stateStore.Bootstrap(st))
	require.NoError(t, node.blockStore.SaveSeenCommit(st.LastBlockHeight, commit))
	require.NoError(t, node.reactor.SwitchToFastSync(st))

	reached := aaWait(20*time.Second, func() bool { return node.blockStore.Height() >= aaTip-1 })
	time.Sleep(500 * time.Millisecond)
	var errLine string
	for _, l := range strings.Split(node.logs.String(), "\n") {
		if strings.Contains(l, "Error in validation") {
			errLine = l
			break
		}
	}
	fmt.Printf("AUDIT C-2 state-synced node (snapshot %d): store base %d height %d of tip %d, peers left %d, honest peer still connected: %v\n",
		aaSnapshot, node.blockStore.Base(), node.blockStore.Height(), aaTip, sws[1].Peers().Size(), sws[1].Peers().Size() == 1)
	fmt.Printf("AUDIT C-2 log: %s\n", errLine)
	for _, s := range sws {
		_ = s.Stop()
	}
	if !reached {
		t.Fatalf("PROPERTY VIOLATED (C13 'with one honest peer the node reaches the tip' / honest peer dropped for a canonical block): "+
			"stuck at height %d (< %d, the canonical block with evidence of height %d), peers left %d; %s",
			node.blockStore.Height(), aaEvInBlock, aaEvOfHeight, sws[1].Peers().Size(), errLine)
	}
}

// a second reactor serving the same canonical chain (a reactor can be added to one switch only)
func aaHonest2(t *testing.T, h *aaNode) *aaNode {
	r := NewBlockchainReactor(h.states[aaTip].Copy(), h.blockExec, h.blockStore, true)
	r.SetLogger(log.NewNopLogger())
	return &aaNode{reactor: r, app: h.app, stateStore: h.stateStore, blockStore: h.blockStore, blockExec: h.blockExec, states: h.states}
}
