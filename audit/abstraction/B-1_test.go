package http_test

import (
	"context"
	"encoding/json"
	"fmt"
	"io/ioutil"
	nethttp "net/http"
	"net/http/httptest"
	"testing"

	lighthttp "github.com/tendermint/tendermint/light/provider/http"
)

// B-1: the REAL light/provider/http provider over the REAL rpc/client/http client, talking to a
// server whose answer to /commit has no header ("signed_header":{"header":null,...}) - which is
// also what an honest rpc/core.Commit produces when it returns (nil, nil) (blockMeta == nil):
// the JSON-RPC result is null and decodes into a zero ResultCommit.
// http.LightBlock dereferences sh.Height (SignedHeader embeds *Header) before any validation.
func serveCommit(t *testing.T, result string) *httptest.Server {
	return httptest.NewServer(nethttp.HandlerFunc(func(w nethttp.ResponseWriter, r *nethttp.Request) {
		body, _ := ioutil.ReadAll(r.Body)
		var req struct {
			ID     json.RawMessage `json:"id"`
			Method string          `json:"method"`
		}
		_ = json.Unmarshal(body, &req)
		w.Header().Set("Content-Type", "application/json")
		fmt.Fprintf(w, `{"jsonrpc":"2.0","id":%s,"result":%s}`, string(req.ID), result)
	}))
}

func TestAuditB1NilHeaderCommit(t *testing.T) {
	for _, tc := range []struct{ name, result string }{
		{"lying: header null", `{"signed_header":{"header":null,"commit":null},"canonical":true}`},
		{"rpc/core.Commit returned (nil,nil): result null", `null`},
	} {
		for _, height := range []int64{7, 0} {
			srv := serveCommit(t, tc.result)
			p, err := lighthttp.New("chain-x", srv.URL)
			if err != nil {
				t.Fatal(err)
			}
			func() {
				defer func() {
					if r := recover(); r != nil {
						t.Errorf("%s, LightBlock(%d): PANIC in the provider (in light.Client this runs in an "+
							"unrecovered goroutine of detectDivergence/findNewPrimary: the process dies): %v",
							tc.name, height, r)
					}
				}()
				lb, err := p.LightBlock(context.Background(), height)
				t.Logf("%s, LightBlock(%d) = %v, err=%v", tc.name, height, lb, err)
			}()
			srv.Close()
		}
	}
}
