package node

// Abstraction audit, property C18 (store consistency "for whatever is on disk after a crash at any
// point of a save"): the state-sync save path (state.Store.Bootstrap + BlockStore.SaveSeenCommit,
// node/node.go startStateSync) is not modelled. It leaves on disk: state store at height H, block
// store EMPTY (base = height = 0). That on-disk state is reached by every state-synced node and it
// persists until fast sync / consensus stores block H+1. If the process stops in that window (crash,
// kill, or a clean shutdown), the node can never be started again.
//
// Everything below is the real code: real goleveldb databases in the node's data dir, real
// sm.Store.Bootstrap, real BlockStore.SaveSeenCommit, in the order startStateSync calls them, a
// commit really signed by the genesis validator, then the real node.NewNode on those databases.
// Only the ABCI application is a stub (it reports "I am at height H with app hash X", which is what
// an application restored from a snapshot reports).

import (
	"fmt"
	"os"
	"testing"
	"time"

	abci "github.com/tendermint/tendermint/abci/types"
	cfg "github.com/tendermint/tendermint/config"
	"github.com/tendermint/tendermint/crypto/tmhash"
	"github.com/tendermint/tendermint/libs/log"
	"github.com/tendermint/tendermint/p2p"
	"github.com/tendermint/tendermint/proxy"
	sm "github.com/tendermint/tendermint/state"
	"github.com/tendermint/tendermint/store"
	"github.com/tendermint/tendermint/types"
)

type aaSnapshotApp struct {
	abci.BaseApplication
	height  int64
	appHash []byte
}

func (a *aaSnapshotApp) Info(abci.RequestInfo) abci.ResponseInfo {
	return abci.ResponseInfo{LastBlockHeight: a.height, LastBlockAppHash: a.appHash}
}

// aaStateSyncedDisk produces, with the real store code, what startStateSync leaves on disk.
// withSeenCommit=false is the crash between stateStore.Bootstrap and blockStore.SaveSeenCommit.
func aaStateSyncedDisk(t *testing.T, config *cfg.Config, genDoc *types.GenesisDoc, valPV types.PrivValidator,
	h int64, appHash []byte, withSeenCommit bool) {
	t.Helper()
	blockStoreDB, err := DefaultDBProvider(&DBContext{"blockstore", config})
	if err != nil {
		t.Fatal(err)
	}
	stateDB, err := DefaultDBProvider(&DBContext{"state", config})
	if err != nil {
		t.Fatal(err)
	}
	blockStore := store.NewBlockStore(blockStoreDB)
	stateStore := sm.NewStore(stateDB, sm.StoreOptions{})

	// the state statesync's lightClientStateProvider.State(h) builds (statesync/stateprovider.go)
	state, err := sm.MakeGenesisState(genDoc)
	if err != nil {
		t.Fatal(err)
	}
	blockID := types.BlockID{Hash: tmhash.Sum([]byte("block at H")),
		PartSetHeader: types.PartSetHeader{Total: 1, Hash: tmhash.Sum([]byte("parts at H"))}}
	state.LastBlockHeight = h
	state.LastBlockTime = time.Now()
	state.LastBlockID = blockID
	state.AppHash = appHash
	state.LastValidators = state.Validators.Copy()
	state.LastHeightValidatorsChanged = h + 2
	state.LastHeightConsensusParamsChanged = h + 1

	voteSet := types.NewVoteSet(genDoc.ChainID, h, 0, 2 /* precommit */, state.LastValidators)
	commit, err := types.MakeCommit(blockID, h, 0, voteSet, []types.PrivValidator{valPV}, time.Now())
	if err != nil {
		t.Fatal(err)
	}

	// node/node.go:678 and :683, same order
	if err := stateStore.Bootstrap(state); err != nil {
		t.Fatal(err)
	}
	if withSeenCommit {
		if err := blockStore.SaveSeenCommit(state.LastBlockHeight, commit); err != nil {
			t.Fatal(err)
		}
	}
	t.Logf("on disk after state sync: state.LastBlockHeight=%d  blockStore base=%d height=%d  seen commit(%d) stored=%v",
		h, blockStore.Base(), blockStore.Height(), h, blockStore.LoadSeenCommit(h) != nil)

	// a CLEAN shutdown of both databases (a crash can only be worse)
	if err := blockStoreDB.Close(); err != nil {
		t.Fatal(err)
	}
	if err := stateDB.Close(); err != nil {
		t.Fatal(err)
	}
}

func aaRestartNode(t *testing.T, config *cfg.Config, genDoc *types.GenesisDoc, app abci.Application) (res string) {
	t.Helper()
	defer func() {
		if r := recover(); r != nil {
			res = fmt.Sprintf("PANIC: %v", r)
		}
	}()
	nodeKey, err := p2p.LoadOrGenNodeKey(config.NodeKeyFile())
	if err != nil {
		t.Fatal(err)
	}
	n, err := NewNode(config,
		types.NewMockPV(), // a full node / a validator that is not the only one
		nodeKey,
		proxy.NewLocalClientCreator(app),
		func() (*types.GenesisDoc, error) { return genDoc, nil },
		DefaultDBProvider,
		DefaultMetricsProvider(config.Instrumentation),
		log.NewNopLogger(),
	)
	if err != nil {
		return "error: " + err.Error()
	}
	_ = n
	return "ok"
}

func aaSetup(t *testing.T, name string) (*cfg.Config, *types.GenesisDoc, types.PrivValidator) {
	config := cfg.ResetTestRoot(name)
	config.DBBackend = "goleveldb" // real on-disk databases, re-opened by NewNode
	valPV := types.NewMockPV()
	pk, _ := valPV.GetPubKey()
	genDoc := &types.GenesisDoc{
		ChainID:         "aa-c18",
		GenesisTime:     time.Now().Add(-time.Hour),
		InitialHeight:   1,
		ConsensusParams: types.DefaultConsensusParams(),
		Validators:      []types.GenesisValidator{{Address: pk.Address(), PubKey: pk, Power: 10}},
	}
	if err := genDoc.ValidateAndComplete(); err != nil {
		t.Fatal(err)
	}
	return config, genDoc, valPV
}

func aaCase(t *testing.T, version string, fastSync, withSeenCommit bool) string {
	const h = int64(25)
	appHash := tmhash.Sum([]byte("app hash at H"))
	config, genDoc, valPV := aaSetup(t, "aa_c18_statesync")
	defer os.RemoveAll(config.RootDir)
	config.FastSync.Version = version
	config.FastSyncMode = fastSync
	aaStateSyncedDisk(t, config, genDoc, valPV, h, appHash, withSeenCommit)
	res := aaRestartNode(t, config, genDoc, &aaSnapshotApp{height: h, appHash: appHash})
	t.Logf("restart (blockchain %s, fast_sync=%v, seen commit on disk=%v): NewNode -> %s", version, fastSync, withSeenCommit, res)
	return res
}

// 1: state sync completed (both calls of startStateSync returned), the node is stopped before block
// H+1 is stored, and started again.
func TestAAC18StateSyncThenRestartBeforeFirstBlock(t *testing.T) {
	for _, c := range []struct {
		version string
		fast    bool
	}{{"v0", true}, {"v0", false}, {"v1", true}} {
		if res := aaCase(t, c.version, c.fast, true); res == "ok" {
			t.Errorf("expected the defect to show (node refuses to start)")
		}
	}
	// control: blockchain v2 has no such check; with the seen commit on disk the node is built
	if res := aaCase(t, "v2", true, true); res != "ok" {
		t.Errorf("control failed: %s", res)
	}
}

// 2: crash between stateStore.Bootstrap (SetSync) and blockStore.SaveSeenCommit (plain Set, never
// synced by itself): the state store says H, there is no seen commit for H. Shown with blockchain v2,
// which does not have the height check of v0/v1, so NewNode gets as far as consensus.NewState.
func TestAAC18CrashBetweenBootstrapAndSeenCommit(t *testing.T) {
	if res := aaCase(t, "v2", true, false); res == "ok" {
		t.Errorf("expected the defect to show")
	}
}
