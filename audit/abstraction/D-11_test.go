package txindex_test

// Abstraction audit C19, candidate 3: the PEG parser is not modelled and float64
// operands are never generated. Query texts that query.New accepts and that
// Query.Matches evaluates without complaint, given to the real kv.TxIndex.Search /
// BlockerIndexer.Search (what rpc/core TxSearch / BlockSearch do with the client's
// text).

import (
	"context"
	"fmt"
	"testing"

	db "github.com/tendermint/tm-db"

	abci "github.com/tendermint/tendermint/abci/types"
	"github.com/tendermint/tendermint/libs/pubsub/query"
	blockidxkv "github.com/tendermint/tendermint/state/indexer/block/kv"
	"github.com/tendermint/tendermint/state/txindex"
	"github.com/tendermint/tendermint/state/txindex/kv"
	"github.com/tendermint/tendermint/types"
)

func ev3(typ, k, v string) abci.Event {
	return abci.Event{Type: typ, Attributes: []abci.EventAttribute{{Key: []byte(k), Value: []byte(v), Index: true}}}
}

func TestAAC19OperandTypes(t *testing.T) {
	store := db.NewMemDB()
	txi := kv.NewTxIndex(store)
	bi := blockidxkv.New(db.NewPrefixDB(store, []byte("block_events")))

	b := txindex.NewBatch(1)
	txr := &abci.TxResult{Height: 1, Index: 0, Tx: types.Tx("t1"),
		Result: abci.ResponseDeliverTx{Events: []abci.Event{ev3("a", "x", "2")}}}
	if err := b.Add(txr); err != nil {
		t.Fatal(err)
	}
	if err := txi.AddBatch(b); err != nil {
		t.Fatal(err)
	}
	if err := bi.Index(types.EventDataNewBlockHeader{Header: types.Header{Height: 1},
		ResultBeginBlock: abci.ResponseBeginBlock{Events: []abci.Event{ev3("a", "x", "2")}}}); err != nil {
		t.Fatal(err)
	}
	hash := fmt.Sprintf("%X", types.Tx("t1").Hash())
	txEvents := map[string][]string{"a.x": {"2"}, "tx.height": {"1"}, "tx.hash": {hash}}
	blkEvents := map[string][]string{"a.x": {"2"}, "block.height": {"1"}}

	bad := 0
	run := func(kind, s string) {
		q, err := query.New(s)
		if err != nil {
			t.Logf("%-6s %-28s query.New refuses: %v", kind, s, err)
			return
		}
		evs := txEvents
		if kind == "block" {
			evs = blkEvents
		}
		m, merr := q.Matches(evs)
		var out string
		func() {
			defer func() {
				if r := recover(); r != nil {
					out = fmt.Sprintf("PANIC: %v", r)
					bad++
				}
			}()
			if kind == "tx" {
				res, err := txi.Search(context.Background(), q)
				out = fmt.Sprintf("%d result(s), err=%v", len(res), err)
				if err == nil && (len(res) == 1) != m {
					out += "   <-- differs from Matches"
					bad++
				}
			} else {
				res, err := bi.Search(context.Background(), q)
				out = fmt.Sprintf("%v, err=%v", res, err)
				if err == nil && (len(res) == 1) != m {
					out += "   <-- differs from Matches"
					bad++
				}
			}
		}()
		t.Logf("%-6s %-28s Matches=%v (err=%v)  Search: %s", kind, s, m, merr, out)
	}
	// plain float operands (exclusive bound: LowerBoundValue/UpperBoundValue panic "not implemented")
	run("tx", "a.x > 1.5")
	run("tx", "a.x < 2.5")
	run("tx", "a.x >= 1.5")
	run("tx", "a.x = 2.0")
	run("tx", "a.x > 1 AND a.x <= 2.5")
	run("block", "a.x > 1.5")
	run("block", "a.x < 2.5")
	run("block", "a.x >= 1.5")
	run("block", "a.x > 1 AND a.x <= 2.5")
	run("block", "block.height > 0.5")
	// reserved keys of the tx indexer with an operand of another type (type assertions in lookForHash / lookForHeight)
	run("tx", "tx.hash EXISTS")
	run("tx", "tx.hash = 5")
	run("tx", "tx.hash CONTAINS 'A'")
	run("tx", "tx.height = '1'")
	run("tx", "tx.height = 1.0")
	run("tx", "tx.height = DATE 2020-01-01")
	// accepted by the grammar, rejected when the conditions are read
	run("tx", "a.x = 99999999999999999999")
	run("tx", "a.x = DATE 2013-19-39")
	if bad > 0 {
		t.Fatalf("%d queries panic or answer differently from Query.Matches", bad)
	}
}
