package consensus

// Audit candidate C-3 (C15, last clause: "replaying the records of the unfinished height brings
// the node back to the height, round, step, lock and vote sets it had reached").
// Only finalizeCommit writes #ENDHEIGHT h. A node whose blocks 1..H came from block sync (or a
// state sync) starts consensus at H+1 on a WAL that has no #ENDHEIGHT H. Its own proposal and
// votes of height H+1 are written with WriteSync - but after a crash inside H+1 catchupReplay(H+1)
// searches for #ENDHEIGHT H, does not find it, returns "cannot replay height", and OnStart
// "proceeds to start state anyway": nothing of the unfinished height is replayed.

import (
	"context"
	"fmt"
	"os"
	"path/filepath"
	"runtime"
	"testing"
	"time"

	"github.com/stretchr/testify/require"
	dbm "github.com/tendermint/tm-db"

	"github.com/tendermint/tendermint/abci/example/kvstore"
	sm "github.com/tendermint/tendermint/state"
	tmproto "github.com/tendermint/tendermint/proto/tendermint/types"
	"github.com/tendermint/tendermint/types"
)

// forwards to the real WAL; "kills the process" (ends the receive routine) in front of the
// node's own precommit: proposal, block parts and own prevote of the height are synced by then.
type aaKillBeforePrecommitWAL struct {
	WAL
	killed chan struct{}
}

func (w *aaKillBeforePrecommitWAL) check(m WALMessage) {
	if mi, ok := m.(msgInfo); ok {
		if vm, ok := mi.Msg.(*VoteMessage); ok && mi.PeerID == "" && vm.Vote.Type == tmproto.PrecommitType {
			close(w.killed)
			runtime.Goexit()
		}
	}
}
func (w *aaKillBeforePrecommitWAL) Write(m WALMessage) error     { w.check(m); return w.WAL.Write(m) }
func (w *aaKillBeforePrecommitWAL) WriteSync(m WALMessage) error { w.check(m); return w.WAL.WriteSync(m) }

type aaC3Result struct {
	replayErr   error
	height      int64
	hasProposal bool
	prevotes    int
	walKinds    []string
}

func aaC3Run(t *testing.T, name string, blocksCameFromBlockSync bool) aaC3Result {
	config := ResetConfig(name)
	defer os.RemoveAll(config.RootDir)
	blockDB := dbm.NewMemDB()
	stateStore := sm.NewStore(blockDB, sm.StoreOptions{})
	state, err := sm.MakeGenesisStateFromFile(config.GenesisFile())
	require.NoError(t, err)
	require.NoError(t, stateStore.Save(state))
	pv := loadPrivValidator(config)
	walFile := config.Consensus.WalFile()

	// ---- blocks 1..2 exist in the stores -------------------------------------------------
	config.Consensus.SkipTimeoutCommit = false
	config.Consensus.TimeoutCommit = 3 * time.Second
	cs1 := newStateWithConfigAndBlockStore(config, state, pv, kvstore.NewApplication(), blockDB)
	sub, err := cs1.eventBus.Subscribe(context.Background(), "aa", types.EventQueryNewBlock, 10)
	require.NoError(t, err)
	require.NoError(t, cs1.Start())
	for i := 0; i < 2; i++ {
		select {
		case <-sub.Out():
		case <-time.After(30 * time.Second):
			t.Fatal("no block")
		}
	}
	require.NoError(t, cs1.Stop()) // inside the commit timeout of height 2: height 3 not begun
	cs1.Wait()
	if blocksCameFromBlockSync {
		// a node that received blocks 1..2 by block sync never wrote consensus records for them:
		// its WAL is the fresh one BaseWAL.OnStart creates (#ENDHEIGHT 0 only)
		require.NoError(t, os.RemoveAll(filepath.Dir(walFile)))
	}

	// ---- consensus runs height 3 and the process dies in front of its own precommit --------
	config.Consensus.TimeoutCommit = 10 * time.Millisecond
	state2, err := stateStore.Load()
	require.NoError(t, err)
	require.Equal(t, int64(2), state2.LastBlockHeight)
	cs2 := newStateWithConfigAndBlockStore(config, state2, pv, kvstore.NewApplication(), blockDB)
	if blocksCameFromBlockSync {
		cs2.doWALCatchup = false // consensus.Reactor.SwitchToConsensus(state, skipWAL = blocksSynced > 0)
	}
	realWAL, err := cs2.OpenWAL(walFile)
	require.NoError(t, err)
	kw := &aaKillBeforePrecommitWAL{WAL: realWAL, killed: make(chan struct{})}
	cs2.wal = kw
	require.NoError(t, cs2.Start())
	select {
	case <-kw.killed:
	case <-time.After(30 * time.Second):
		t.Fatal("never reached the precommit")
	}
	rs := cs2.GetRoundState()
	require.Equal(t, int64(3), rs.Height)
	require.NotNil(t, rs.Proposal)
	require.Equal(t, 1, aaCount(rs.Votes.Prevotes(0)))
	_ = cs2.Stop()
	_ = realWAL.Stop()
	realWAL.Wait()

	// ---- restart: no block was synced this time, so doWALCatchup stays true ----------------
	state3, err := stateStore.Load()
	require.NoError(t, err)
	require.Equal(t, int64(2), state3.LastBlockHeight)
	cs3 := newStateWithConfigAndBlockStore(config, state3, pv, kvstore.NewApplication(), blockDB)
	require.True(t, cs3.doWALCatchup)
	require.NoError(t, cs3.loadWalFile())     // as State.OnStart
	require.NoError(t, cs3.timeoutTicker.Start()) // as State.OnStart
	res := aaC3Result{replayErr: cs3.catchupReplay(cs3.Height)} // as State.OnStart
	res.height = cs3.Height
	res.hasProposal = cs3.Proposal != nil
	if pvs := cs3.Votes.Prevotes(0); pvs != nil {
		res.prevotes = aaCount(pvs)
	}
	// what a reader finds in the WAL (the records ARE there)
	if gr, found, err := cs3.wal.SearchForEndHeight(0, &WALSearchOptions{IgnoreDataCorruptionErrors: true}); err == nil && found {
		dec := NewWALDecoder(gr)
		for {
			m, err := dec.Decode()
			if err != nil {
				break
			}
			switch x := m.Msg.(type) {
			case EndHeightMessage:
				res.walKinds = append(res.walKinds, fmt.Sprintf("ENDHEIGHT/%d", x.Height))
			case msgInfo:
				switch y := x.Msg.(type) {
				case *ProposalMessage:
					res.walKinds = append(res.walKinds, fmt.Sprintf("Proposal/%d", y.Proposal.Height))
				case *VoteMessage:
					res.walKinds = append(res.walKinds, fmt.Sprintf("%v/%d", y.Vote.Type, y.Vote.Height))
				}
			}
		}
		gr.Close()
	}
	_ = cs3.wal.Stop()
	_ = cs3.timeoutTicker.Stop()
	return res
}

func aaCount(vs *types.VoteSet) int {
	n := 0
	ba := vs.BitArray()
	for i := 0; i < ba.Size(); i++ {
		if ba.GetIndex(i) {
			n++
		}
	}
	return n
}

func TestAuditC3NoReplayOfFirstHeightAfterBlockSync(t *testing.T) {
	ctrl := aaC3Run(t, "aa_c3_control", false)
	fmt.Printf("AUDIT C-3 control (blocks 1..2 made by consensus): catchupReplay err=%v height=%d proposal=%v prevotes=%d wal=%v\n",
		ctrl.replayErr, ctrl.height, ctrl.hasProposal, ctrl.prevotes, ctrl.walKinds)
	require.NoError(t, ctrl.replayErr)
	require.True(t, ctrl.hasProposal)
	require.Equal(t, 1, ctrl.prevotes)

	res := aaC3Run(t, "aa_c3_blocksync", true)
	fmt.Printf("AUDIT C-3 after block sync (blocks 1..2 synced): catchupReplay err=%v height=%d proposal=%v prevotes=%d wal=%v\n",
		res.replayErr, res.height, res.hasProposal, res.prevotes, res.walKinds)
	if res.replayErr != nil || !res.hasProposal || res.prevotes != 1 {
		t.Fatalf("PROPERTY VIOLATED (C15 replay clause): the durably written proposal and own prevote of height 3 are in the WAL %v "+
			"but the restart does not replay them: err=%v proposal=%v prevotes=%d", res.walKinds, res.replayErr, res.hasProposal, res.prevotes)
	}
}
