package v0

// Audit C17 (abstraction audit D): MConnection.recvRoutine keeps delivering the
// packets that are already in its bufio.Reader after a reactor stopped the peer
// from inside Receive (Switch.StopPeerForError -> peer.Stop -> RemovePeer on every
// reactor).  The blockchain reactor then re-creates the removed peer in the
// BlockPool (SetPeerRange) - a ghost that no RemovePeer will ever take out again.
// With base = height = 10^15 the ghost is never asked for a block, never times out,
// pins pool.maxPeerHeight for ever and IsCaughtUp() is false for ever: the node
// never leaves fast sync although the hostile peer is long gone.

import (
	"fmt"
	"os"
	"testing"
	"time"

	cfg "github.com/tendermint/tendermint/config"
	"github.com/tendermint/tendermint/libs/log"
	"github.com/tendermint/tendermint/p2p"
	bcproto "github.com/tendermint/tendermint/proto/tendermint/blockchain"
)

type aaHostileReactor struct {
	p2p.BaseReactor
	together bool // true: both messages back to back (one flush); false: status first, invalid message much later
	victim   p2p.ID
}

func (r *aaHostileReactor) GetChannels() []*p2p.ChannelDescriptor {
	return []*p2p.ChannelDescriptor{{ID: BlockchainChannel, Priority: 5, SendQueueCapacity: 1000,
		RecvBufferCapacity: 50 * 4096, RecvMessageCapacity: 10 << 20, MessageType: &bcproto.Message{}}}
}
func (r *aaHostileReactor) ReceiveEnvelope(p2p.Envelope)      {}
func (r *aaHostileReactor) Receive(byte, p2p.Peer, []byte)    {}
func (r *aaHostileReactor) RemovePeer(p2p.Peer, interface{}) {}
func (r *aaHostileReactor) AddPeer(peer p2p.Peer) {
	if peer.ID() != r.victim {
		return
	}
	const far = int64(1000000000000000)
	invalid := p2p.Envelope{ChannelID: BlockchainChannel, Message: &bcproto.BlockRequest{Height: -1}} // ValidateMsg refuses it
	status := p2p.Envelope{ChannelID: BlockchainChannel, Message: &bcproto.StatusResponse{Base: far, Height: far}}
	go func() {
		if r.together {
			p2p.SendEnvelopeShim(peer, invalid, log.NewNopLogger())
			p2p.SendEnvelopeShim(peer, status, log.NewNopLogger())
		} else {
			p2p.SendEnvelopeShim(peer, status, log.NewNopLogger())
			time.Sleep(1500 * time.Millisecond)
			p2p.SendEnvelopeShim(peer, invalid, log.NewNopLogger())
		}
	}()
}

func aaRunGhost(t *testing.T, together bool) (caughtUp bool, ghost bool, maxH int64, connected bool, storeH int64) {
	config = cfg.ResetTestRoot("aa_c17_ghost")
	defer os.RemoveAll(config.RootDir)
	genDoc, privVals := randGenesisDoc(1, false, 30)
	const maxBlockHeight = int64(10)

	victim := newBlockchainReactor(log.NewNopLogger(), genDoc, privVals, 0)
	honest := newBlockchainReactor(log.NewNopLogger(), genDoc, privVals, maxBlockHeight)
	hostile := &aaHostileReactor{together: together}
	hostile.BaseReactor = *p2p.NewBaseReactor("hostile", hostile)

	var victimSw *p2p.Switch
	switches := make([]*p2p.Switch, 3)
	initSw := func(i int, s *p2p.Switch) *p2p.Switch {
		switch i {
		case 0:
			s.AddReactor("BLOCKCHAIN", victim.reactor)
			victimSw = s
		case 1:
			s.AddReactor("BLOCKCHAIN", honest.reactor)
		default:
			s.AddReactor("BLOCKCHAIN", hostile)
		}
		return s
	}
	for i := range switches {
		switches[i] = p2p.MakeSwitch(config.P2P, i, p2p.TestHost, "123.123.123", initSw)
	}
	hostile.victim = victimSw.NodeInfo().ID()
	hostileID := switches[2].NodeInfo().ID()
	for _, s := range switches {
		if err := s.Start(); err != nil {
			t.Fatal(err)
		}
	}
	p2p.Connect2Switches(switches, 0, 1)
	p2p.Connect2Switches(switches, 0, 2)
	defer func() {
		for _, s := range switches {
			s.Stop() //nolint:errcheck
		}
		victim.app.Stop() //nolint:errcheck
		honest.app.Stop() //nolint:errcheck
	}()

	// let the victim sync everything the honest peer has and let the hostile peer be dropped
	deadline := time.Now().Add(20 * time.Second)
	for time.Now().Before(deadline) {
		if victim.reactor.store.Height() >= maxBlockHeight-1 && !victimSw.Peers().Has(hostileID) {
			break
		}
		time.Sleep(20 * time.Millisecond)
	}
	// poolRoutine looks at IsCaughtUp every second: give it 8 more seconds
	for i := 0; i < 400 && !caughtUp; i++ {
		caughtUp = victim.reactor.pool.IsCaughtUp() || !victim.reactor.pool.IsRunning()
		time.Sleep(20 * time.Millisecond)
	}
	pool := victim.reactor.pool
	pool.mtx.Lock()
	_, ghost = pool.peers[hostileID]
	maxH = pool.maxPeerHeight
	pool.mtx.Unlock()
	return caughtUp, ghost, maxH, victimSw.Peers().Has(hostileID), victim.reactor.store.Height()
}

func TestAAC17GhostPeerAfterStop(t *testing.T) {
	c1, g1, m1, conn1, h1 := aaRunGhost(t, false)
	fmt.Printf("CONTROL (status, later an invalid message): hostile still connected=%v ghost in pool=%v maxPeerHeight=%d store height=%d left fast sync=%v\n",
		conn1, g1, m1, h1, c1)
	c2, g2, m2, conn2, h2 := aaRunGhost(t, true)
	fmt.Printf("ATTACK  (invalid message + status in one flush): hostile still connected=%v ghost in pool=%v maxPeerHeight=%d store height=%d left fast sync=%v\n",
		conn2, g2, m2, h2, c2)
	if !c1 || g1 {
		t.Fatalf("control run did not behave as expected")
	}
	if conn2 {
		t.Fatalf("hostile peer was not disconnected")
	}
	if g2 || !c2 {
		t.Errorf("PROPERTY VIOLATED: the peer was stopped and removed, yet a message of it was delivered afterwards; "+
			"the pool keeps it (ghost=%v, maxPeerHeight=%d) and the node never leaves fast sync (caught up=%v)", g2, m2, c2)
	}
}
