(* C12 / F94 — the int64 reading of the gas accounting in ReapMaxBytesMaxGas.

   Model.v sums GasWanted in Z ([reap_bytes_gas]).  The Go code sums in int64.  This file
   transcribes, with explicit two's-complement wrap-around,
     - the UNREPAIRED loops ([reap0_gas_wrapping], [reap1_gas_wrapping]): add, then compare the
       (possibly wrapped) running total with maxGas  — mempool/v0/clist_mempool.go
       `newTotalGas := totalGas + memTx.gasWanted; if maxGas > -1 && newTotalGas > maxGas`,
       mempool/v1/mempool.go `totalGas += w.gasWanted; if maxGas >= 0 && totalGas > maxGas`;
     - the REPAIRED loops ([reap0_gas_checked], [reap1_gas_checked], fixes/F94-*.diff): compare
       before adding, `gasWanted > 0 && totalGas > maxGas-gasWanted`, then add.
   No proofs here (GasProofs.v).  Byte sizes stay in Z: they are bounded by the memory the
   transactions occupy. *)
From Coq Require Import List ZArith Bool.
From TM Require Import Common.Hex C12.Model.
Import ListNotations.
Open Scope Z_scope.

Definition two63 : Z := 9223372036854775808.
Definition two64 : Z := 18446744073709551616.
Definition max_int64 : Z := 9223372036854775807.

(* the value an int64 variable holds after an operation whose mathematical result is z *)
Definition wrap64 (z : Z) : Z := (z + two63) mod two64 - two63.

Definition is_int64 (z : Z) : Prop := - two63 <= z < two63.

(* ---- unrepaired, v0 order of checks: bytes, then add gas and compare *)
Fixpoint reap0_gas_wrapping {A} (txof : A -> tx) (gasof : A -> Z) (max_bytes max_gas : Z)
         (bs gs : Z) (l : list A) : list tx :=
  match l with
  | [] => []
  | m :: r =>
    let bs' := bs + proto_size (txof m) in
    if (max_bytes >? -1) && (bs' >? max_bytes) then []
    else
      let gs' := wrap64 (gs + gasof m) in                      (* newTotalGas *)
      if (max_gas >? -1) && (gs' >? max_gas) then []
      else txof m :: reap0_gas_wrapping txof gasof max_bytes max_gas bs' gs' r
  end.

(* ---- unrepaired, v1: add both, then compare both *)
Fixpoint reap1_gas_wrapping {A} (txof : A -> tx) (gasof : A -> Z) (max_bytes max_gas : Z)
         (bs gs : Z) (l : list A) : list tx :=
  match l with
  | [] => []
  | m :: r =>
    let gs' := wrap64 (gs + gasof m) in                        (* totalGas += *)
    let bs' := bs + proto_size (txof m) in
    if ((max_gas >=? 0) && (gs' >? max_gas)) || ((max_bytes >=? 0) && (bs' >? max_bytes)) then []
    else txof m :: reap1_gas_wrapping txof gasof max_bytes max_gas bs' gs' r
  end.

(* the repaired comparison: would adding [g] take [gs] over [max_gas]?  all in int64 *)
Definition gas_exceeds (max_gas gs g : Z) : bool :=
  (g >? 0) && (gs >? wrap64 (max_gas - g)).

(* ---- repaired, v0 *)
Fixpoint reap0_gas_checked {A} (txof : A -> tx) (gasof : A -> Z) (max_bytes max_gas : Z)
         (bs gs : Z) (l : list A) : list tx :=
  match l with
  | [] => []
  | m :: r =>
    let bs' := bs + proto_size (txof m) in
    if (max_bytes >? -1) && (bs' >? max_bytes) then []
    else if (max_gas >? -1) && gas_exceeds max_gas gs (gasof m) then []
    else txof m :: reap0_gas_checked txof gasof max_bytes max_gas bs' (wrap64 (gs + gasof m)) r
  end.

(* ---- repaired, v1 *)
Fixpoint reap1_gas_checked {A} (txof : A -> tx) (gasof : A -> Z) (max_bytes max_gas : Z)
         (bs gs : Z) (l : list A) : list tx :=
  match l with
  | [] => []
  | m :: r =>
    if (max_gas >=? 0) && gas_exceeds max_gas gs (gasof m) then []
    else
      let gs' := wrap64 (gs + gasof m) in
      let bs' := bs + proto_size (txof m) in
      if (max_bytes >=? 0) && (bs' >? max_bytes) then []
      else txof m :: reap1_gas_checked txof gasof max_bytes max_gas bs' gs' r
  end.

(* the mathematical running totals never fall below the int64 range (always true when no
   GasWanted is negative); the upper side needs no hypothesis *)
Fixpoint no_underflow {A} (gasof : A -> Z) (gs : Z) (l : list A) : Prop :=
  match l with
  | [] => True
  | m :: r => - two63 <= gs + gasof m /\ no_underflow gasof (gs + gasof m) r
  end.
