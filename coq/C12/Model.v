(* C12 — Mempool contents stay unique, bounded, current and correctly ordered.

   Gallina transcription of
     mempool/cache.go                 LRUTxCache / NopTxCache (Push, Remove, Reset)
     mempool/v0/clist_mempool.go      CheckTx, isFull, resCbFirstTime, resCbRecheck (cursor walk),
                                      addTx, removeTx, RemoveTxByKey, Update, recheckTxs, Flush,
                                      ReapMaxBytesMaxGas, ReapMaxTxs
     mempool/v1/mempool.go            CheckTx, addNewTransaction (sender index, eviction by
                                      priority), insertTx, removeTxByKey/Element, Update,
                                      purgeExpiredTxs, handleRecheckResult, canAddTx, Flush,
                                      allEntriesSorted, ReapMaxBytesMaxGas, ReapMaxTxs
     mempool/mempool.go               PreCheckMaxBytes, PostCheckMaxGas (the two filters
                                      state/tx_filter.go installs)
   No proofs here.

   Granularity: with the local ABCI client a CheckTx request, the application's answer and the
   mempool's callback are one atomic step, so every operation below is a total function from
   state to state; the application's answers are oracle inputs of the operation.

   A transaction is its byte string; the key (sha256 of the bytes, types.Tx.Key) is identified
   with the transaction itself (assumption: no SHA-256 collision among submitted transactions).

   The model describes the code WITH the repairs F5 (ReapMaxTxs loop bound), F6 (v0
   resCbFirstTime: a transaction that is still in the pool is not inserted a second time) and
   F12 (the same in v1 addNewTransaction); see /verif/fixes. *)
From Coq Require Import List ZArith NArith Bool.
From TM Require Import Common.Hex Generated.Consts.
Import ListNotations.
Open Scope Z_scope.

(* ------------------------------------------------------------------ transactions *)

Definition tx := bytes.
Definition tx_eqb (a b : tx) : bool := bytes_eqb a b.
Definition tx_size (t : tx) : Z := Z.of_nat (length t).

Definition mem_tx (t : tx) (l : list tx) : bool := existsb (tx_eqb t) l.
Definition remove_tx (t : tx) (l : list tx) : list tx := filter (fun x => negb (tx_eqb t x)) l.

(* size of the protobuf encoding of tmproto.Data{Txs: [tx]} (types.ComputeProtoSizeForTxs):
   one tag byte, the length as a varint, the bytes *)
Definition varint_len (n : Z) : Z :=
  if n <? 128 then 1 else if n <? 16384 then 2 else if n <? 2097152 then 3
  else if n <? 268435456 then 4 else 5.
Definition proto_size (t : tx) : Z := 1 + varint_len (tx_size t) + tx_size t.

(* ------------------------------------------------------------------ configuration *)

Record config := {
  cfg_size : Z;            (* config.Size *)
  cfg_max_txs_bytes : Z;   (* config.MaxTxsBytes *)
  cfg_max_tx_bytes : Z;    (* config.MaxTxBytes *)
  cfg_cache_size : Z;      (* config.CacheSize; <= 0 selects NopTxCache *)
  cfg_recheck : bool;      (* config.Recheck *)
  cfg_keep_invalid : bool; (* config.KeepInvalidTxsInCache *)
  cfg_ttl_blocks : Z;      (* config.TTLNumBlocks (v1) *)
  cfg_ttl_dur : Z          (* config.TTLDuration (v1), in clock units *)
}.

(* ------------------------------------------------------------------ mempool/cache.go *)

(* the cache is the list of keys, front (oldest) first *)
Definition cache_push (cap : Z) (c : list tx) (t : tx) : list tx * bool :=
  if cap <=? 0 then (c, true)                                   (* NopTxCache.Push *)
  else if mem_tx t c then (remove_tx t c ++ [t], false)         (* MoveToBack, not new *)
  else ((if Z.of_nat (length c) >=? cap then tl c else c) ++ [t], true).

Definition cache_remove (c : list tx) (t : tx) : list tx := remove_tx t c.
Definition cache_reset (c : list tx) : list tx := [].

(* ------------------------------------------------------------------ application answers *)

Record appres := {
  v_code : Z;      (* ResponseCheckTx.Code; abci_code_type_ok = CodeTypeOK (generated) *)
  v_gas : Z;       (* GasWanted *)
  v_prio : Z;      (* Priority (v1) *)
  v_sender : N     (* Sender (v1); 0 stands for the empty string *)
}.

(* PreCheckMaxBytes m / nil *)
Definition precheck_ok (pre : option Z) (t : tx) : bool :=
  match pre with None => true | Some m => proto_size t <=? m end.

(* PostCheckMaxGas g / nil *)
Definition postcheck_ok (post : option Z) (v : appres) : bool :=
  match post with
  | None => true
  | Some g => if g =? -1 then true
              else if v_gas v <? 0 then false
              else if v_gas v >? g then false else true
  end.

Definition accepted (post : option Z) (v : appres) : bool :=
  (v_code v =? abci_code_type_ok) && postcheck_ok post v.

(* answers of one recheck round, by transaction; no answer counts as a rejection (the harness
   compares the set of requests as well) *)
Definition reject_res : appres := {| v_code := 1; v_gas := 0; v_prio := 0; v_sender := 0%N |}.
Fixpoint lookup_res (rv : list (tx * appres)) (t : tx) : appres :=
  match rv with
  | [] => reject_res
  | (t', v) :: r => if tx_eqb t t' then v else lookup_res r t
  end.

(* error classes of CheckTx / RemoveTxByKey *)
Inductive err := ENone | EFull | ETooLarge | EPreCheck | EInCache | ENotFound.

(* cumulative reap under byte and gas limits; both mempools stop at the first entry that takes
   a running total over its limit (a negative limit = no limit). [bs]/[gs] running totals. *)
Fixpoint reap_bytes_gas {A} (txof : A -> tx) (gasof : A -> Z) (max_bytes max_gas : Z)
         (bs gs : Z) (l : list A) : list tx :=
  match l with
  | [] => []
  | m :: r =>
    let bs' := bs + proto_size (txof m) in
    let gs' := gs + gasof m in
    if (max_bytes >? -1) && (bs' >? max_bytes) then []
    else if (max_gas >? -1) && (gs' >? max_gas) then []
    else txof m :: reap_bytes_gas txof gasof max_bytes max_gas bs' gs' r
  end.

(* =================================================================== v0: CListMempool *)

Record mtx := {
  m_tx : tx;
  m_gas : Z;           (* gasWanted *)
  m_height : Z;        (* height at which it was validated *)
  m_senders : list N   (* peer ids that sent it *)
}.

Record state0 := {
  s_cache : list tx;     (* mem.cache *)
  s_txs : list mtx;      (* mem.txs, front first *)
  s_keys : list tx;      (* key set of mem.txsMap, in order of insertion *)
  s_bytes : Z;           (* mem.txsBytes *)
  s_height : Z;          (* mem.height *)
  s_pre : option Z;      (* mem.preCheck *)
  s_post : option Z      (* mem.postCheck *)
}.

Definition init0 (h : Z) (pre post : option Z) : state0 :=
  {| s_cache := []; s_txs := []; s_keys := []; s_bytes := 0; s_height := h;
     s_pre := pre; s_post := post |}.

Definition set_cache0 (s : state0) (c : list tx) : state0 :=
  {| s_cache := c; s_txs := s_txs s; s_keys := s_keys s; s_bytes := s_bytes s;
     s_height := s_height s; s_pre := s_pre s; s_post := s_post s |}.

Definition pool0 (s : state0) : list tx := map m_tx (s_txs s).

(* isFull *)
Definition is_full0 (cfg : config) (s : state0) (t : tx) : bool :=
  (Z.of_nat (length (s_txs s)) >=? cfg_size cfg)
  || (tx_size t + s_bytes s >? cfg_max_txs_bytes cfg).

Definition add_sender (p : N) (l : list N) : list N :=
  if existsb (N.eqb p) l then l else l ++ [p].

(* memTx.senders.LoadOrStore(peer) on the element the index points to *)
Definition record_sender0 (t : tx) (p : N) (l : list mtx) : list mtx :=
  map (fun m => if tx_eqb t (m_tx m)
                then {| m_tx := m_tx m; m_gas := m_gas m; m_height := m_height m;
                        m_senders := add_sender p (m_senders m) |}
                else m) l.

Definition store_key (t : tx) (ks : list tx) : list tx :=
  if mem_tx t ks then ks else ks ++ [t].

(* addTx *)
Definition add_tx0 (s : state0) (m : mtx) : state0 :=
  {| s_cache := s_cache s; s_txs := s_txs s ++ [m]; s_keys := store_key (m_tx m) (s_keys s);
     s_bytes := s_bytes s + tx_size (m_tx m);
     s_height := s_height s; s_pre := s_pre s; s_post := s_post s |}.

(* removeTx(tx, elem, removeFromCache); elem is the element the index holds for the key *)
Definition remove_tx0 (s : state0) (t : tx) (from_cache : bool) : state0 :=
  {| s_cache := if from_cache then cache_remove (s_cache s) t else s_cache s;
     s_txs := filter (fun m => negb (tx_eqb t (m_tx m))) (s_txs s);
     s_keys := remove_tx t (s_keys s);
     s_bytes := s_bytes s - tx_size t;
     s_height := s_height s; s_pre := s_pre s; s_post := s_post s |}.

(* resCbFirstTime *)
Definition res_cb_first_time (cfg : config) (s : state0) (t : tx) (peer : N) (v : appres) : state0 :=
  if accepted (s_post s) v then
    if is_full0 cfg s t then set_cache0 s (cache_remove (s_cache s) t)
    else if mem_tx t (s_keys s) then                       (* F6 repair: still in the pool *)
      {| s_cache := s_cache s; s_txs := record_sender0 t peer (s_txs s); s_keys := s_keys s;
         s_bytes := s_bytes s; s_height := s_height s; s_pre := s_pre s; s_post := s_post s |}
    else add_tx0 s {| m_tx := t; m_gas := v_gas v; m_height := s_height s; m_senders := [peer] |}
  else if cfg_keep_invalid cfg then s
  else set_cache0 s (cache_remove (s_cache s) t).

(* CheckTx: new state, error class, whether the application was asked *)
Definition checktx0 (cfg : config) (s : state0) (t : tx) (peer : N) (v : appres)
  : state0 * err * bool :=
  if is_full0 cfg s t then (s, EFull, false)
  else if tx_size t >? cfg_max_tx_bytes cfg then (s, ETooLarge, false)
  else if negb (precheck_ok (s_pre s) t) then (s, EPreCheck, false)
  else
    let '(c', fresh) := cache_push (cfg_cache_size cfg) (s_cache s) t in
    if negb fresh then
      ({| s_cache := c';
          s_txs := if mem_tx t (s_keys s) then record_sender0 t peer (s_txs s) else s_txs s;
          s_keys := s_keys s; s_bytes := s_bytes s; s_height := s_height s;
          s_pre := s_pre s; s_post := s_post s |}, EInCache, false)
    else (res_cb_first_time cfg (set_cache0 s c') t peer v, ENone, true).

(* RemoveTxByKey *)
Definition remove_by_key0 (s : state0) (t : tx) : state0 * err :=
  if mem_tx t (s_keys s) then (remove_tx0 s t false, ENone) else (s, ENotFound).

(* Flush *)
Definition flush0 (s : state0) : state0 :=
  {| s_cache := cache_reset (s_cache s); s_txs := []; s_keys := []; s_bytes := 0;
     s_height := s_height s; s_pre := s_pre s; s_post := s_post s |}.

(* resCbRecheck. While a recheck is running the list is [done ++ rest]; the head of [rest] is
   recheckCursor, its last element recheckEnd; [None] = cursor nil (further answers are ignored
   by globalCb).  [walk] is the search loop for the element matching the answered request. *)
Fixpoint recheck_walk (t : tx) (done rest : list mtx) : option (list mtx * mtx * list mtx) :=
  match rest with
  | [] => None
  | m :: rest' =>
    if tx_eqb t (m_tx m) then Some (done, m, rest')
    else match rest' with
         | [] => None                               (* cursor == recheckEnd: give up *)
         | _ => recheck_walk t (done ++ [m]) rest'
         end
  end.

(* one answer: returns the state and the new cursor position *)
Definition res_cb_recheck (cfg : config) (s : state0) (done rest : list mtx) (t : tx) (v : appres)
  : state0 * option (list mtx * list mtx) :=
  match recheck_walk t done rest with
  | None => (s, None)
  | Some (done', m, rest') =>
    let next d := match rest' with [] => None | _ => Some (d, rest') end in
    if accepted (s_post s) v then (s, next (done' ++ [m]))
    else (remove_tx0 s t (negb (cfg_keep_invalid cfg)), next done')
  end.

(* recheckTxs: one request per element, in list order; answers arrive in the same order *)
Fixpoint recheck_loop (cfg : config) (rv : list (tx * appres)) (reqs : list tx)
         (s : state0) (cur : option (list mtx * list mtx)) : state0 :=
  match reqs with
  | [] => s
  | t :: reqs' =>
    match cur with
    | None => recheck_loop cfg rv reqs' s None
    | Some (done, rest) =>
      let '(s', cur') := res_cb_recheck cfg s done rest t (lookup_res rv t) in
      recheck_loop cfg rv reqs' s' cur'
    end
  end.

Definition recheck0 (cfg : config) (rv : list (tx * appres)) (s : state0) : state0 :=
  recheck_loop cfg rv (pool0 s) s (Some ([], s_txs s)).

(* the per-transaction part of Update *)
Definition update_one0 (cfg : config) (s : state0) (tc : tx * Z) : state0 :=
  let '(t, code) := tc in
  let c := if code =? abci_code_type_ok then fst (cache_push (cfg_cache_size cfg) (s_cache s) t)
           else if cfg_keep_invalid cfg then s_cache s
           else cache_remove (s_cache s) t in
  let s1 := set_cache0 s c in
  if mem_tx t (s_keys s1) then remove_tx0 s1 t false else s1.

Definition set_checks (old : option Z) (new : option (option Z)) : option Z :=
  match new with None => old | Some f => f end.

(* Update(height, txs, responses, preCheck, postCheck); [pre]/[post] = None: nil argument *)
Definition update0 (cfg : config) (s : state0) (h : Z) (blk : list (tx * Z))
           (pre post : option (option Z)) (rv : list (tx * appres)) : state0 :=
  let s1 := {| s_cache := s_cache s; s_txs := s_txs s; s_keys := s_keys s; s_bytes := s_bytes s;
               s_height := h; s_pre := set_checks (s_pre s) pre;
               s_post := set_checks (s_post s) post |} in
  let s2 := fold_left (update_one0 cfg) blk s1 in
  match s_txs s2 with
  | [] => s2
  | _ => if cfg_recheck cfg then recheck0 cfg rv s2 else s2
  end.

(* which transactions Update asks the application about again *)
Definition update0_requests (cfg : config) (s : state0) (h : Z) (blk : list (tx * Z)) : list tx :=
  if cfg_recheck cfg then pool0 (fold_left (update_one0 cfg) blk s) else [].

(* ReapMaxTxs (with the F5 repair: at most max) *)
Definition reap_max_txs0 (s : state0) (max : Z) : list tx :=
  let max' := if max <? 0 then Z.of_nat (length (s_txs s)) else max in
  firstn (Z.to_nat max') (pool0 s).

(* ReapMaxBytesMaxGas *)
Definition reap_max_bytes_gas0 (s : state0) (max_bytes max_gas : Z) : list tx :=
  reap_bytes_gas m_tx m_gas max_bytes max_gas 0 0 (s_txs s).

(* state-changing operations of a history *)
Inductive op0 :=
| O0CheckTx (t : tx) (peer : N) (v : appres)
| O0Update (h : Z) (blk : list (tx * Z)) (pre post : option (option Z)) (rv : list (tx * appres))
| O0Flush
| O0Remove (t : tx).

Definition step0 (cfg : config) (s : state0) (o : op0) : state0 :=
  match o with
  | O0CheckTx t p v => fst (fst (checktx0 cfg s t p v))
  | O0Update h blk pre post rv => update0 cfg s h blk pre post rv
  | O0Flush => flush0 s
  | O0Remove t => fst (remove_by_key0 s t)
  end.

Definition run0 (cfg : config) (s : state0) (ops : list op0) : state0 :=
  fold_left (step0 cfg) ops s.

(* =================================================================== v1: TxMempool *)

Record wtx := {
  w_tx : tx;
  w_gas : Z;
  w_prio : Z;
  w_sender : N;        (* 0 = "" *)
  w_stamp : Z;         (* timestamp (arrival clock) *)
  w_height : Z;        (* height when first checked *)
  w_peers : list N
}.

Record state1 := {
  t_cache : list tx;
  t_txs : list wtx;        (* txmp.txs, arrival order *)
  t_keys : list tx;        (* key set of txByKey *)
  t_senders : list N;      (* key set of txBySender *)
  t_bytes : Z;
  t_height : Z;
  t_pre : option Z;
  t_post : option Z;
  t_clock : Z              (* stamp the next arrival gets: time.Now() is strictly increasing *)
}.

Definition init1 (h : Z) (pre post : option Z) : state1 :=
  {| t_cache := []; t_txs := []; t_keys := []; t_senders := []; t_bytes := 0; t_height := h;
     t_pre := pre; t_post := post; t_clock := 0 |}.

Definition pool1 (s : state1) : list tx := map w_tx (t_txs s).

Definition set_cache1 (s : state1) (c : list tx) : state1 :=
  {| t_cache := c; t_txs := t_txs s; t_keys := t_keys s; t_senders := t_senders s;
     t_bytes := t_bytes s; t_height := t_height s; t_pre := t_pre s; t_post := t_post s;
     t_clock := t_clock s |}.

Definition tick1 (s : state1) : state1 :=
  {| t_cache := t_cache s; t_txs := t_txs s; t_keys := t_keys s; t_senders := t_senders s;
     t_bytes := t_bytes s; t_height := t_height s; t_pre := t_pre s; t_post := t_post s;
     t_clock := t_clock s + 1 |}.

Definition mem_sender (a : N) (l : list N) : bool := existsb (N.eqb a) l.
Definition remove_sender (a : N) (l : list N) : list N := filter (fun x => negb (N.eqb a x)) l.

(* the element the key index points to *)
Fixpoint find_wtx (t : tx) (l : list wtx) : option wtx :=
  match l with
  | [] => None
  | w :: r => if tx_eqb t (w_tx w) then Some w else find_wtx t r
  end.

(* removeTxByElement / removeTxByKey: both indexes, the list, the byte counter *)
Definition remove_wtx1 (s : state1) (w : wtx) : state1 :=
  {| t_cache := t_cache s;
     t_txs := filter (fun x => negb (tx_eqb (w_tx w) (w_tx x))) (t_txs s);
     t_keys := remove_tx (w_tx w) (t_keys s);
     t_senders := remove_sender (w_sender w) (t_senders s);
     t_bytes := t_bytes s - tx_size (w_tx w);
     t_height := t_height s; t_pre := t_pre s; t_post := t_post s; t_clock := t_clock s |}.

Definition remove_by_key1 (s : state1) (t : tx) : state1 * err :=
  if mem_tx t (t_keys s) then
    match find_wtx t (t_txs s) with
    | Some w => (remove_wtx1 s w, ENone)
    | None => (s, ENotFound)
    end
  else (s, ENotFound).

(* canAddTx *)
Definition can_add1 (cfg : config) (s : state1) (t : tx) : bool :=
  negb ((Z.of_nat (length (t_txs s)) >=? cfg_size cfg)
        || (tx_size t + t_bytes s >? cfg_max_txs_bytes cfg)).

(* insertTx *)
Definition insert_wtx1 (s : state1) (w : wtx) : state1 :=
  {| t_cache := t_cache s; t_txs := t_txs s ++ [w];
     t_keys := store_key (w_tx w) (t_keys s);
     t_senders := if (w_sender w =? 0)%N then t_senders s
                  else if mem_sender (w_sender w) (t_senders s) then t_senders s
                  else t_senders s ++ [w_sender w];
     t_bytes := t_bytes s + tx_size (w_tx w);
     t_height := t_height s; t_pre := t_pre s; t_post := t_post s; t_clock := t_clock s |}.

(* eviction order: lowest priority first, ties: newer first *)
Definition victim_before (a b : wtx) : bool :=
  if w_prio a =? w_prio b then w_stamp a >? w_stamp b else w_prio a <? w_prio b.

Fixpoint insert_by {A} (before : A -> A -> bool) (x : A) (l : list A) : list A :=
  match l with
  | [] => [x]
  | y :: r => if before y x then y :: insert_by before x r else x :: l
  end.
Definition sort_by {A} (before : A -> A -> bool) (l : list A) : list A :=
  fold_right (insert_by before) [] l.

(* the eviction loop: evict in order until the evicted bytes reach the size needed *)
Fixpoint evict_loop (need : Z) (evicted : Z) (vs : list wtx) : list wtx :=
  match vs with
  | [] => []
  | w :: r =>
    let e := evicted + tx_size (w_tx w) in
    if e >=? need then [w] else w :: evict_loop need e r
  end.

Definition sum_sizes (l : list tx) : Z := fold_right (fun t a => tx_size t + a) 0 l.

Definition evict_one1 (s : state1) (w : wtx) : state1 :=
  let s' := remove_wtx1 s w in set_cache1 s' (cache_remove (t_cache s') (w_tx w)).

Definition record_peer1 (t : tx) (p : N) (l : list wtx) : list wtx :=
  map (fun w => if tx_eqb t (w_tx w)
                then {| w_tx := w_tx w; w_gas := w_gas w; w_prio := w_prio w;
                        w_sender := w_sender w; w_stamp := w_stamp w; w_height := w_height w;
                        w_peers := add_sender p (w_peers w) |}
                else w) l.

Definition set_txs1 (s : state1) (l : list wtx) : state1 :=
  {| t_cache := t_cache s; t_txs := l; t_keys := t_keys s; t_senders := t_senders s;
     t_bytes := t_bytes s; t_height := t_height s; t_pre := t_pre s; t_post := t_post s;
     t_clock := t_clock s |}.

(* which entries addNewTransaction evicts for a valid new transaction ([] when there is room),
   or None when the new transaction is dropped because the pool is full *)
Definition victims1 (cfg : config) (s : state1) (t : tx) (prio : Z) : option (list wtx) :=
  if can_add1 cfg s t then Some []
  else
    let victims := filter (fun w => w_prio w <? prio) (t_txs s) in
    let vbytes := sum_sizes (map w_tx victims) in
    if (Nat.eqb (length victims) 0) || (vbytes <? tx_size t) then None
    else Some (evict_loop (tx_size t) 0 (sort_by victim_before victims)).

(* addNewTransaction *)
Definition add_new_tx1 (cfg : config) (s : state1) (t : tx) (peer : N) (height stamp : Z)
           (v : appres) : state1 :=
  if negb (accepted (t_post s) v) then
    if cfg_keep_invalid cfg then s else set_cache1 s (cache_remove (t_cache s) t)
  else if mem_tx t (t_keys s) then                         (* F12 repair: still in the pool *)
    set_txs1 s (record_peer1 t peer (t_txs s))
  else if negb (v_sender v =? 0)%N && mem_sender (v_sender v) (t_senders s) then s
  else
    match victims1 cfg s t (v_prio v) with
    | None => set_cache1 s (cache_remove (t_cache s) t)
    | Some vs =>
      insert_wtx1 (fold_left evict_one1 vs s)
        {| w_tx := t; w_gas := v_gas v; w_prio := v_prio v; w_sender := v_sender v;
           w_stamp := stamp; w_height := height; w_peers := [peer] |}
    end.

(* CheckTx *)
Definition checktx1 (cfg : config) (s : state1) (t : tx) (peer : N) (v : appres)
  : state1 * err * bool :=
  if tx_size t >? cfg_max_tx_bytes cfg then (s, ETooLarge, false)
  else if negb (precheck_ok (t_pre s) t) then (s, EPreCheck, false)
  else
    let '(c', fresh) := cache_push (cfg_cache_size cfg) (t_cache s) t in
    if negb fresh then
      (set_txs1 (set_cache1 s c')
         (if mem_tx t (t_keys s) then record_peer1 t peer (t_txs s) else t_txs s),
       EInCache, false)
    else
      let s1 := tick1 (set_cache1 s c') in
      (add_new_tx1 cfg s1 t peer (t_height s) (t_clock s) v, ENone, true).

(* Flush *)
Definition flush1 (s : state1) : state1 :=
  {| t_cache := []; t_txs := []; t_keys := []; t_senders := []; t_bytes := 0;
     t_height := t_height s; t_pre := t_pre s; t_post := t_post s; t_clock := t_clock s |}.

(* purgeExpiredTxs *)
Definition expired1 (cfg : config) (h now : Z) (w : wtx) : bool :=
  if (cfg_ttl_blocks cfg >? 0) && (h - w_height w >? cfg_ttl_blocks cfg) then true
  else (cfg_ttl_dur cfg >? 0) && (now - w_stamp w >? cfg_ttl_dur cfg).

Definition purge1 (cfg : config) (s : state1) (h now : Z) : state1 :=
  if (cfg_ttl_blocks cfg =? 0) && (cfg_ttl_dur cfg =? 0) then s
  else fold_left (fun s w => if expired1 cfg h now w then evict_one1 s w else s) (t_txs s) s.

(* handleRecheckResult *)
Definition set_prio1 (t : tx) (p : Z) (l : list wtx) : list wtx :=
  map (fun w => if tx_eqb t (w_tx w)
                then {| w_tx := w_tx w; w_gas := w_gas w; w_prio := p;
                        w_sender := w_sender w; w_stamp := w_stamp w; w_height := w_height w;
                        w_peers := w_peers w |}
                else w) l.

Definition handle_recheck1 (cfg : config) (s : state1) (t : tx) (v : appres) : state1 :=
  if mem_tx t (t_keys s) then
    match find_wtx t (t_txs s) with
    | None => s
    | Some w =>
      if accepted (t_post s) v then set_txs1 s (set_prio1 t (v_prio v) (t_txs s))
      else
        let s' := remove_wtx1 s w in
        if cfg_keep_invalid cfg then s' else set_cache1 s' (cache_remove (t_cache s') t)
    end
  else s.

Definition update_one1 (cfg : config) (s : state1) (tc : tx * Z) : state1 :=
  let '(t, code) := tc in
  let c := if code =? abci_code_type_ok then fst (cache_push (cfg_cache_size cfg) (t_cache s) t)
           else if cfg_keep_invalid cfg then t_cache s
           else cache_remove (t_cache s) t in
  fst (remove_by_key1 (set_cache1 s c) t).

(* Update followed by the completion of the recheck tasks it starts (each task touches only its
   own transaction, so their order does not matter; the model runs them in list order) *)
Definition update1 (cfg : config) (s : state1) (h now : Z) (blk : list (tx * Z))
           (pre post : option (option Z)) (rv : list (tx * appres)) : state1 :=
  let s1 := {| t_cache := t_cache s; t_txs := t_txs s; t_keys := t_keys s;
               t_senders := t_senders s; t_bytes := t_bytes s; t_height := h;
               t_pre := set_checks (t_pre s) pre; t_post := set_checks (t_post s) post;
               t_clock := t_clock s |} in
  let s2 := fold_left (update_one1 cfg) blk s1 in
  let s3 := purge1 cfg s2 h now in
  if cfg_recheck cfg
  then fold_left (fun s t => handle_recheck1 cfg s t (lookup_res rv t)) (pool1 s3) s3
  else s3.

Definition update1_requests (cfg : config) (s : state1) (h now : Z) (blk : list (tx * Z)) : list tx :=
  if cfg_recheck cfg then pool1 (purge1 cfg (fold_left (update_one1 cfg) blk s) h now) else [].

(* allEntriesSorted: priority descending, ties by arrival *)
Definition reap_before (a b : wtx) : bool :=
  if w_prio a =? w_prio b then w_stamp a <? w_stamp b else w_prio a >? w_prio b.

Definition order1 (s : state1) : list wtx := sort_by reap_before (t_txs s).

Definition reap_max_txs1 (s : state1) (max : Z) : list tx :=
  if max <? 0 then map w_tx (order1 s) else firstn (Z.to_nat max) (map w_tx (order1 s)).

Definition reap_max_bytes_gas1 (s : state1) (max_bytes max_gas : Z) : list tx :=
  reap_bytes_gas w_tx w_gas max_bytes max_gas 0 0 (order1 s).

Inductive op1 :=
| O1CheckTx (t : tx) (peer : N) (v : appres)
| O1Update (h now : Z) (blk : list (tx * Z)) (pre post : option (option Z)) (rv : list (tx * appres))
| O1Flush
| O1Remove (t : tx).

Definition step1 (cfg : config) (s : state1) (o : op1) : state1 :=
  match o with
  | O1CheckTx t p v => fst (fst (checktx1 cfg s t p v))
  | O1Update h now blk pre post rv => update1 cfg s h now blk pre post rv
  | O1Flush => flush1 s
  | O1Remove t => fst (remove_by_key1 s t)
  end.

Definition run1 (cfg : config) (s : state1) (ops : list op1) : state1 :=
  fold_left (step1 cfg) ops s.
