(* C12 / F94 — the repaired int64 gas accounting of ReapMaxBytesMaxGas computes exactly what the
   Z-valued model [reap_bytes_gas] computes; the unrepaired one does not (witness). *)
From Coq Require Import List ZArith Bool Lia.
From TM Require Import Common.Hex C12.Model C12.GasInt64.
Import ListNotations.
Open Scope Z_scope.

Lemma wrap64_small : forall z, is_int64 z -> wrap64 z = z.
Proof.
  intros z [H1 H2]. unfold wrap64, two63, two64 in *. rewrite Z.mod_small; lia.
Qed.

(* the repaired comparison is the mathematical one, for int64 operands with gs <= max_gas *)
Lemma gas_exceeds_exact : forall mg gs g,
  0 <= mg -> is_int64 mg -> is_int64 g -> gs <= mg ->
  gas_exceeds mg gs g = (gs + g >? mg).
Proof.
  intros mg gs g Hmg [M1 M2] [G1 G2] Hle. unfold gas_exceeds.
  destruct (Z.gtb_spec g 0) as [Hg|Hg]; cbn [andb].
  - rewrite wrap64_small by (unfold is_int64, two63 in *; lia).
    destruct (Z.gtb_spec gs (mg - g)), (Z.gtb_spec (gs + g) mg); try reflexivity; lia.
  - destruct (Z.gtb_spec (gs + g) mg); [lia | reflexivity].
Qed.

Section Generic.
Context {A : Type} (txof : A -> tx) (gasof : A -> Z).

(* without a gas limit the running total is never looked at *)
Lemma reap0_checked_nolimit : forall mb mg l bs gs gs', mg <= -1 ->
  reap0_gas_checked txof gasof mb mg bs gs l = reap_bytes_gas txof gasof mb mg bs gs' l.
Proof.
  intros mb mg l. induction l as [|m l IH]; intros bs gs gs' H; [reflexivity|].
  cbn [reap0_gas_checked reap_bytes_gas].
  assert (E : (mg >? -1) = false) by (destruct (Z.gtb_spec mg (-1)); [lia | reflexivity]).
  rewrite E. cbn [andb]. destruct ((mb >? -1) && (bs + proto_size (txof m) >? mb)); [reflexivity|].
  f_equal. apply IH. assumption.
Qed.

Lemma reap1_checked_nolimit : forall mb mg l bs gs gs', mg <= -1 ->
  reap1_gas_checked txof gasof mb mg bs gs l = reap_bytes_gas txof gasof mb mg bs gs' l.
Proof.
  intros mb mg l. induction l as [|m l IH]; intros bs gs gs' H; [reflexivity|].
  cbn [reap1_gas_checked reap_bytes_gas].
  assert (E : (mg >? -1) = false) by (destruct (Z.gtb_spec mg (-1)); [lia | reflexivity]).
  assert (E' : (mg >=? 0) = false) by (destruct (Z.geb_spec mg 0); [lia | reflexivity]).
  rewrite E, E'. cbn [andb].
  assert (Eb : (mb >=? 0) = (mb >? -1)).
  { destruct (Z.geb_spec mb 0), (Z.gtb_spec mb (-1)); try reflexivity; lia. }
  rewrite Eb. destruct ((mb >? -1) && (bs + proto_size (txof m) >? mb)); [reflexivity|].
  f_equal. apply IH. assumption.
Qed.

Lemma reap0_checked_exact : forall mb mg l bs gs,
  0 <= mg -> is_int64 mg -> Forall (fun m => is_int64 (gasof m)) l ->
  gs <= mg -> no_underflow gasof gs l ->
  reap0_gas_checked txof gasof mb mg bs gs l = reap_bytes_gas txof gasof mb mg bs gs l.
Proof.
  intros mb mg l. induction l as [|m l IH]; intros bs gs Hmg Img Hall Hle Hlow; [reflexivity|].
  inversion Hall as [|? ? Hg Hall']; subst. destruct Hlow as [Hlo Hlow'].
  cbn [reap0_gas_checked reap_bytes_gas].
  destruct ((mb >? -1) && (bs + proto_size (txof m) >? mb)); [reflexivity|].
  rewrite gas_exceeds_exact by assumption.
  destruct ((mg >? -1) && (gs + gasof m >? mg)) eqn:E; [reflexivity|].
  assert (Hle' : gs + gasof m <= mg).
  { apply andb_false_iff in E as [E|E].
    - destruct (Z.gtb_spec mg (-1)); [discriminate | lia].
    - destruct (Z.gtb_spec (gs + gasof m) mg); [discriminate | lia]. }
  rewrite wrap64_small by (destruct Img; unfold is_int64 in *; lia).
  f_equal. apply IH; assumption.
Qed.

Lemma reap1_checked_exact : forall mb mg l bs gs,
  0 <= mg -> is_int64 mg -> Forall (fun m => is_int64 (gasof m)) l ->
  gs <= mg -> no_underflow gasof gs l ->
  reap1_gas_checked txof gasof mb mg bs gs l = reap_bytes_gas txof gasof mb mg bs gs l.
Proof.
  intros mb mg l. induction l as [|m l IH]; intros bs gs Hmg Img Hall Hle Hlow; [reflexivity|].
  inversion Hall as [|? ? Hg Hall']; subst. destruct Hlow as [Hlo Hlow'].
  cbn [reap1_gas_checked reap_bytes_gas].
  rewrite gas_exceeds_exact by assumption.
  assert (Eg : (mg >=? 0) = (mg >? -1)).
  { destruct (Z.geb_spec mg 0), (Z.gtb_spec mg (-1)); try reflexivity; lia. }
  assert (Eb : (mb >=? 0) = (mb >? -1)).
  { destruct (Z.geb_spec mb 0), (Z.gtb_spec mb (-1)); try reflexivity; lia. }
  rewrite Eg, Eb.
  destruct ((mg >? -1) && (gs + gasof m >? mg)) eqn:E.
  { destruct ((mb >? -1) && (bs + proto_size (txof m) >? mb)); reflexivity. }
  assert (Hle' : gs + gasof m <= mg).
  { apply andb_false_iff in E as [E|E].
    - destruct (Z.gtb_spec mg (-1)); [discriminate | lia].
    - destruct (Z.gtb_spec (gs + gasof m) mg); [discriminate | lia]. }
  destruct ((mb >? -1) && (bs + proto_size (txof m) >? mb)); [reflexivity|].
  rewrite wrap64_small by (destruct Img; unfold is_int64 in *; lia).
  f_equal. apply IH; assumption.
Qed.

(* both cases together, from the initial totals 0, 0 *)
Lemma reap0_checked_eq : forall mb mg l,
  is_int64 mg -> Forall (fun m => is_int64 (gasof m)) l -> no_underflow gasof 0 l ->
  reap0_gas_checked txof gasof mb mg 0 0 l = reap_bytes_gas txof gasof mb mg 0 0 l.
Proof.
  intros mb mg l Img Hall Hlow. destruct (Z_le_gt_dec 0 mg).
  - apply reap0_checked_exact; assumption.
  - apply reap0_checked_nolimit. lia.
Qed.

Lemma reap1_checked_eq : forall mb mg l,
  is_int64 mg -> Forall (fun m => is_int64 (gasof m)) l -> no_underflow gasof 0 l ->
  reap1_gas_checked txof gasof mb mg 0 0 l = reap_bytes_gas txof gasof mb mg 0 0 l.
Proof.
  intros mb mg l Img Hall Hlow. destruct (Z_le_gt_dec 0 mg).
  - apply reap1_checked_exact; assumption.
  - apply reap1_checked_nolimit. lia.
Qed.

(* no GasWanted negative: no hypothesis on the totals is needed *)
Lemma no_underflow_nonneg : forall l gs, 0 <= gs -> Forall (fun m => 0 <= gasof m) l -> no_underflow gasof gs l.
Proof.
  induction l as [|m l IH]; intros gs Hgs Hall; [exact I|]. inversion Hall; subst. cbn.
  split; [unfold two63; lia | apply IH; [lia | assumption]].
Qed.

End Generic.
