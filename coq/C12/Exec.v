(* C12 — executable side of the correspondence check.  One case = one whole operation history
   of a real mempool (v0 CListMempool or v1 TxMempool) over a scripted application, with what
   the implementation showed after every operation.  [check] (a) evaluates the clauses of the
   property on the implementation's own answers (V_violation) and (b) compares every observable
   with the model (V_mismatch).  Depends on Model.v only.

   Transactions are written as indices into the case's alphabet (hex strings). *)
From Coq Require Import String List ZArith NArith Bool.
From TM Require Import Common.Hex C12.Model.
Import ListNotations.
Open Scope Z_scope.

Definition vt := (Z * Z * Z * N)%type.                       (* code, gas, priority, sender *)
Definition mk_res (v : vt) : appres :=
  let '(c, g, p, s) := v in {| v_code := c; v_gas := g; v_prio := p; v_sender := s |}.

(* Size, MaxTxsBytes, MaxTxBytes, CacheSize, Recheck, KeepInvalidTxsInCache, TTLNumBlocks, TTLDuration *)
Definition cfgt := (Z * Z * Z * Z * bool * bool * Z * Z)%type.
Definition mk_cfg (c : cfgt) : config :=
  let '(a, b, c', d, e, f, g, h) := c in
  {| cfg_size := a; cfg_max_txs_bytes := b; cfg_max_tx_bytes := c'; cfg_cache_size := d;
     cfg_recheck := e; cfg_keep_invalid := f; cfg_ttl_blocks := g; cfg_ttl_dur := h |}.

(* what the implementation shows after an operation.
   v0: walk of mem.txs as (tx, gasWanted); v1: walk of txmp.txs (arrival order) as
   (tx, gasWanted, priority, sender); then ReapMaxTxs(-1), Size(), SizeBytes(), number of
   entries of txsMap / txByKey, number of entries of txBySender (v0: 0), the LRU list. *)
Definition ent := (N * Z * Z * N)%type.
Inductive obs := Obs (pool : list ent) (reapall : list N) (size bytes nkeys nsenders : Z)
                     (cache : list N).

Inductive xop :=
| XCheck (t peer : N) (v : vt) (err_i : N) (asked_i : bool)
| XUpdate (h now : Z) (blk : list (N * Z)) (pre post : option (option Z)) (rv : list (N * vt))
          (reqs_i : list N)
| XFlush
| XRemove (t : N) (err_i : N)
| XReapTxs (n : Z) (res_i : list N)
| XReapBG (b g : Z) (res_i : list N)
(* a run of CheckTx calls observed only at its end (large pools): per call
   (tx, peer, application answer, error class, application asked) *)
| XBulk (items : list (N * N * vt * N * bool)).

Inductive case :=
| CV0 (alphabet : list string) (cfg : cfgt) (h0 : Z) (pre post : option Z) (steps : list (xop * obs))
| CV1 (alphabet : list string) (cfg : cfgt) (h0 : Z) (pre post : option Z) (steps : list (xop * obs)).

(* ------------------------------------------------------------------ helpers *)

Definition mism (b : bool) (code : N) : verdict := if b then V_ok else V_mismatch code.
Definition viol (b : bool) (clause : N) : verdict := if b then V_ok else V_violation clause.

Definition txof (al : list tx) (i : N) : tx := nth (N.to_nat i) al [255%N; 255%N; 255%N].

Fixpoint list_eqb {A} (eqb : A -> A -> bool) (a b : list A) : bool :=
  match a, b with
  | [], [] => true
  | x :: a', y :: b' => eqb x y && list_eqb eqb a' b'
  | _, _ => false
  end.
Definition txs_eqb := list_eqb tx_eqb.

Fixpoint nodupb (l : list tx) : bool :=
  match l with [] => true | x :: r => negb (mem_tx x r) && nodupb r end.
Fixpoint nodupN (l : list N) : bool :=
  match l with [] => true | x :: r => negb (existsb (N.eqb x) r) && nodupN r end.

Definition err_code (e : err) : N :=
  match e with ENone => 0 | EFull => 1 | ETooLarge => 2 | EPreCheck => 3 | EInCache => 4
             | ENotFound => 5 end%N.

Definition ent_tx (al : list tx) (e : ent) : tx := let '(t, _, _, _) := e in txof al t.
Definition ent_gas (e : ent) : Z := let '(_, g, _, _) := e in g.
Definition ent_prio (e : ent) : Z := let '(_, _, p, _) := e in p.
Definition ent_sender (e : ent) : N := let '(_, _, _, s) := e in s.

Definition obs_pool (o : obs) := let '(Obs p _ _ _ _ _ _) := o in p.
Definition obs_reapall (o : obs) := let '(Obs _ r _ _ _ _ _) := o in r.
Definition obs_size (o : obs) := let '(Obs _ _ s _ _ _ _) := o in s.
Definition obs_bytes (o : obs) := let '(Obs _ _ _ b _ _ _) := o in b.
Definition obs_nkeys (o : obs) := let '(Obs _ _ _ _ k _ _) := o in k.
Definition obs_nsenders (o : obs) := let '(Obs _ _ _ _ _ s _) := o in s.
Definition obs_cache (o : obs) := let '(Obs _ _ _ _ _ _ c) := o in c.

Definition pool_txs (al : list tx) (o : obs) : list tx := map (ent_tx al) (obs_pool o).

Definition sumZ (l : list Z) : Z := fold_right Z.add 0 l.

(* position of a transaction in a list of entries (arrival rank) *)
Fixpoint rank_of (al : list tx) (t : tx) (l : list ent) (k : Z) : option (Z * ent) :=
  match l with
  | [] => None
  | e :: r => if tx_eqb t (ent_tx al e) then Some (k, e) else rank_of al t r (k + 1)
  end.

(* is [a] a subsequence of [b] *)
Fixpoint subseq (a b : list tx) : bool :=
  match a, b with
  | [], _ => true
  | _, [] => false
  | x :: a', y :: b' => if tx_eqb x y then subseq a' b' else subseq a b'
  end.

(* specification of a bounded reap: length of the longest prefix all of whose prefixes are
   within the byte and gas limits *)
Fixpoint spec_prefix_len (b g bs gs : Z) (l : list (tx * Z)) : nat :=
  match l with
  | [] => O
  | (t, gas) :: r =>
    let bs' := bs + proto_size t in
    let gs' := gs + gas in
    if ((0 <=? b) && (b <? bs')) || ((0 <=? g) && (g <? gs')) then O
    else S (spec_prefix_len b g bs' gs' r)
  end.

(* ------------------------------------------------------------------ monitors on the
   implementation's own answers.  [v1] selects the ordering rule. *)

(* the order reaps must follow, with gas, computed from the implementation's own list walk:
   v0 the walk itself (arrival order); v1 the walk sorted by priority descending, entries of
   equal priority staying in arrival order (stable insertion sort, independent of the model's) *)
Fixpoint ins_ent (e : ent) (l : list ent) : list ent :=
  match l with
  | [] => [e]
  | y :: r => if ent_prio y >? ent_prio e then y :: ins_ent e r else e :: l
  end.
Definition spec_order1 (pool : list ent) : list ent := fold_right ins_ent [] pool.

Definition impl_order (v1 : bool) (al : list tx) (o : obs) : list (tx * Z) :=
  map (fun e => (ent_tx al e, ent_gas e)) (if v1 then spec_order1 (obs_pool o) else obs_pool o).

(* v1: ReapMaxTxs(-1) is ordered by priority descending, ties by arrival *)
Fixpoint v1_sorted (al : list tx) (pool : list ent) (l : list tx) : bool :=
  match l with
  | a :: ((b :: _) as r) =>
    match rank_of al a pool 0, rank_of al b pool 0 with
    | Some (ka, ea), Some (kb, eb) =>
      ((ent_prio ea >? ent_prio eb) || ((ent_prio ea =? ent_prio eb) && (ka <? kb)))
      && v1_sorted al pool r
    | _, _ => false
    end
  | _ => true
  end.

(* clause numbers: n for v0, 100+n for v1 *)
Definition cl (v1 : bool) (n : N) : N := if v1 then (100 + n)%N else n.

Definition state_monitors (v1 : bool) (al : list tx) (cfg : config) (o : obs) : list verdict :=
  let p := pool_txs al o in
  let ra := map (txof al) (obs_reapall o) in
  [ viol (nodupb p && nodupb ra) (cl v1 1);
    viol ((obs_size o <=? Z.max 0 (cfg_size cfg)) && (obs_bytes o <=? Z.max 0 (cfg_max_txs_bytes cfg))) (cl v1 2);
    viol ((obs_size o =? Z.of_nat (length p)) && (obs_bytes o =? sumZ (map tx_size p))
          && (obs_nkeys o =? Z.of_nat (length p))
          && (negb v1 ||
              (let ss := filter (fun s => negb (s =? 0)%N) (map ent_sender (obs_pool o)) in
               nodupN ss && (obs_nsenders o =? Z.of_nat (length ss))))) (cl v1 3);
    viol (if v1
          then Nat.eqb (length ra) (length p) && forallb (fun t => mem_tx t p) ra
               && v1_sorted al (obs_pool o) ra
               && txs_eqb ra (map (ent_tx al) (spec_order1 (obs_pool o)))
          else txs_eqb ra p) (cl v1 11);
    viol (nodupN (obs_cache o) &&
          ((cfg_cache_size cfg <=? 0) || (Z.of_nat (length (obs_cache o)) <=? cfg_cache_size cfg))) (cl v1 12) ].

Definition op_monitors (v1 : bool) (al : list tx) (cfg : config) (post : option Z)
           (before : obs) (x : xop) (after : obs) : list verdict :=
  let pb := pool_txs al before in
  let pa := pool_txs al after in
  match x with
  | XCheck t peer v err_i asked_i =>
    let tt := txof al t in
    let remembered := existsb (N.eqb t) (obs_cache before) in
    let gone := filter (fun e => negb (mem_tx (ent_tx al e) pa)) (obs_pool before) in
    [ (* a remembered transaction is refused and the pool keeps its content *)
      viol (negb remembered || (negb (err_i =? 0)%N && txs_eqb pa pb)) (cl v1 6);
      (* v1 eviction: whatever left the pool had strictly lower priority than the newcomer,
         which was admitted; v0 CheckTx never removes *)
      viol (match gone with
            | [] => true
            | _ => v1 && mem_tx tt pa && negb (mem_tx tt pb)
                   && forallb (fun e => ent_prio e <? (let '(_, _, p, _) := v in p)) gone
            end) (cl v1 10) ]
  | XUpdate h now blk pre post' rv reqs_i =>
    let post2 := set_checks post post' in
    let blk_t := map (fun tc => (txof al (fst tc), snd tc)) blk in
    let all_ok t := forallb (fun tc => negb (tx_eqb t (fst tc)) || (snd tc =? 0)) blk_t in
    [ viol (forallb (fun tc => negb (mem_tx (fst tc) pa)) blk_t) (cl v1 4);
      viol ((cfg_cache_size cfg <=? 0)
            || (cfg_cache_size cfg <? Z.of_nat (length blk))
            || forallb (fun tc => negb (all_ok (fst tc))
                                  || existsb (fun i => tx_eqb (txof al i) (fst tc)) (obs_cache after))
                       blk_t) (cl v1 5);
      viol (subseq pa pb &&
            (negb (cfg_recheck cfg) ||
             forallb (fun t => existsb (fun iv => tx_eqb (txof al (fst iv)) t
                                                  && accepted post2 (mk_res (snd iv))) rv) pa)) (cl v1 9) ]
  | XFlush => [ viol (match pa with [] => true | _ => false end) (cl v1 13) ]
  | XRemove t err_i => [ viol (subseq pa pb && negb (mem_tx (txof al t) pa)) (cl v1 13) ]
  | XReapTxs n res_i =>
    let ord := map fst (impl_order v1 al before) in
    let res := map (txof al) res_i in
    [ viol (if n <? 0 then txs_eqb res ord else txs_eqb res (firstn (Z.to_nat n) ord)) (cl v1 7) ]
  | XReapBG b g res_i =>
    let ordg := impl_order v1 al before in
    let res := map (txof al) res_i in
    [ viol (txs_eqb res (firstn (spec_prefix_len b g 0 0 ordg) (map fst ordg))) (cl v1 8) ]
  | XBulk items =>
    (* v0 CheckTx never removes; the state monitors apply to the state reached *)
    [ viol (v1 || subseq pb pa) (cl v1 10) ]
  end.

(* ------------------------------------------------------------------ model side *)

Definition blk_of (al : list tx) (blk : list (N * Z)) : list (tx * Z) :=
  map (fun tc => (txof al (fst tc), snd tc)) blk.
Definition rv_of (al : list tx) (rv : list (N * vt)) : list (tx * appres) :=
  map (fun iv => (txof al (fst iv), mk_res (snd iv))) rv.

Definition entZ_eqb (a b : tx * Z * Z * N) : bool :=
  let '(t, g, p, s) := a in let '(t', g', p', s') := b in
  tx_eqb t t' && (g =? g') && (p =? p') && (s =? s')%N.

(* same multiset of requests (v1 issues them concurrently) *)
Definition same_reqs (a b : list tx) : bool :=
  Nat.eqb (length a) (length b) && forallb (fun t => mem_tx t b) a && forallb (fun t => mem_tx t a) b.

Definition cmp_obs0 (al : list tx) (s : state0) (o : obs) : list verdict :=
  [ mism (list_eqb entZ_eqb (map (fun m => (m_tx m, m_gas m, 0, 0%N)) (s_txs s))
                   (map (fun e => (ent_tx al e, ent_gas e, 0, 0%N)) (obs_pool o))) 21;
    mism (txs_eqb (reap_max_txs0 s (-1)) (map (txof al) (obs_reapall o))) 22;
    mism (Z.of_nat (length (s_txs s)) =? obs_size o) 23;
    mism (s_bytes s =? obs_bytes o) 24;
    mism (Z.of_nat (length (s_keys s)) =? obs_nkeys o) 25;
    mism (txs_eqb (s_cache s) (map (txof al) (obs_cache o))) 27 ].

Definition cmp_obs1 (al : list tx) (s : state1) (o : obs) : list verdict :=
  [ mism (list_eqb entZ_eqb (map (fun w => (w_tx w, w_gas w, w_prio w, w_sender w)) (t_txs s))
                   (map (fun e => (ent_tx al e, ent_gas e, ent_prio e, ent_sender e)) (obs_pool o))) 21;
    mism (txs_eqb (reap_max_txs1 s (-1)) (map (txof al) (obs_reapall o))) 22;
    mism (Z.of_nat (length (t_txs s)) =? obs_size o) 23;
    mism (t_bytes s =? obs_bytes o) 24;
    mism (Z.of_nat (length (t_keys s)) =? obs_nkeys o) 25;
    mism (Z.of_nat (length (t_senders s)) =? obs_nsenders o) 26;
    mism (txs_eqb (t_cache s) (map (txof al) (obs_cache o))) 27 ].

Definition empty_obs : obs := Obs [] [] 0 0 0 0 [].

Definition bulk_item_eqb (a b : N * bool) : bool := (fst a =? fst b)%N && Bool.eqb (snd a) (snd b).

Fixpoint run_bulk0 (al : list tx) (cfg : config) (s : state0) (items : list (N * N * vt * N * bool))
  : state0 * list (N * bool) :=
  match items with
  | [] => (s, [])
  | (t, peer, v, _, _) :: r =>
    let '(s', e, asked) := checktx0 cfg s (txof al t) peer (mk_res v) in
    let '(s'', l) := run_bulk0 al cfg s' r in (s'', (err_code e, asked) :: l)
  end.
Fixpoint run_bulk1 (al : list tx) (cfg : config) (s : state1) (items : list (N * N * vt * N * bool))
  : state1 * list (N * bool) :=
  match items with
  | [] => (s, [])
  | (t, peer, v, _, _) :: r =>
    let '(s', e, asked) := checktx1 cfg s (txof al t) peer (mk_res v) in
    let '(s'', l) := run_bulk1 al cfg s' r in (s'', (err_code e, asked) :: l)
  end.
Definition bulk_impl (items : list (N * N * vt * N * bool)) : list (N * bool) :=
  map (fun it => let '(_, _, _, e, a) := it in (e, a)) items.

Fixpoint run_steps0 (al : list tx) (cfg : config) (s : state0) (before : obs)
         (steps : list (xop * obs)) : list verdict :=
  match steps with
  | [] => []
  | (x, after) :: rest =>
    let mon := op_monitors false al cfg (s_post s) before x after ++ state_monitors false al cfg after in
    let '(s', cmp) :=
      match x with
      | XCheck t peer v err_i asked_i =>
        let '(s', e, asked) := checktx0 cfg s (txof al t) peer (mk_res v) in
        (s', [ mism (err_code e =? err_i)%N 31; mism (Bool.eqb asked asked_i) 32 ])
      | XUpdate h now blk pre post rv reqs_i =>
        (update0 cfg s h (blk_of al blk) pre post (rv_of al rv),
         [ mism (txs_eqb (update0_requests cfg s h (blk_of al blk)) (map (txof al) reqs_i)) 33 ])
      | XFlush => (flush0 s, [])
      | XRemove t err_i =>
        let '(s', e) := remove_by_key0 s (txof al t) in (s', [ mism (err_code e =? err_i)%N 34 ])
      | XReapTxs n res_i => (s, [ mism (txs_eqb (reap_max_txs0 s n) (map (txof al) res_i)) 35 ])
      | XReapBG b g res_i =>
        (s, [ mism (txs_eqb (reap_max_bytes_gas0 s b g) (map (txof al) res_i)) 36 ])
      | XBulk items =>
        let '(s', l) := run_bulk0 al cfg s items in
        (s', [ mism (list_eqb bulk_item_eqb l (bulk_impl items)) 31 ])
      end in
    mon ++ cmp ++ cmp_obs0 al s' after ++ run_steps0 al cfg s' after rest
  end.

Fixpoint run_steps1 (al : list tx) (cfg : config) (s : state1) (before : obs)
         (steps : list (xop * obs)) : list verdict :=
  match steps with
  | [] => []
  | (x, after) :: rest =>
    let mon := op_monitors true al cfg (t_post s) before x after ++ state_monitors true al cfg after in
    let '(s', cmp) :=
      match x with
      | XCheck t peer v err_i asked_i =>
        let '(s', e, asked) := checktx1 cfg s (txof al t) peer (mk_res v) in
        (s', [ mism (err_code e =? err_i)%N 31; mism (Bool.eqb asked asked_i) 32 ])
      | XUpdate h now blk pre post rv reqs_i =>
        (update1 cfg s h now (blk_of al blk) pre post (rv_of al rv),
         [ mism (same_reqs (update1_requests cfg s h now (blk_of al blk)) (map (txof al) reqs_i)) 33 ])
      | XFlush => (flush1 s, [])
      | XRemove t err_i =>
        let '(s', e) := remove_by_key1 s (txof al t) in (s', [ mism (err_code e =? err_i)%N 34 ])
      | XReapTxs n res_i => (s, [ mism (txs_eqb (reap_max_txs1 s n) (map (txof al) res_i)) 35 ])
      | XReapBG b g res_i =>
        (s, [ mism (txs_eqb (reap_max_bytes_gas1 s b g) (map (txof al) res_i)) 36 ])
      | XBulk items =>
        let '(s', l) := run_bulk1 al cfg s items in
        (s', [ mism (list_eqb bulk_item_eqb l (bulk_impl items)) 31 ])
      end in
    mon ++ cmp ++ cmp_obs1 al s' after ++ run_steps1 al cfg s' after rest
  end.

Definition check (c : case) : verdict :=
  match c with
  | CV0 alphabet cfg h0 pre post steps =>
    first_of (run_steps0 (map unhex alphabet) (mk_cfg cfg) (init0 h0 pre post) empty_obs steps)
  | CV1 alphabet cfg h0 pre post steps =>
    first_of (run_steps1 (map unhex alphabet) (mk_cfg cfg) (init1 h0 pre post) empty_obs steps)
  end.
