(* C12 — Mempool contents stay unique, bounded, current and correctly ordered.

   Only the property statements; each is closed by a lemma of Proofs.v.  They quantify over
   every configuration (Size, MaxTxsBytes, MaxTxBytes, CacheSize incl. 0 and < Size, Recheck,
   KeepInvalidTxsInCache, TTLs), every initial height/filters, and every history [ops] of
   submissions (any peer, any repeats, any application answer), block updates (any block, any
   DeliverTx codes, any recheck answers, any new filters), flushes and removals; reaps are
   functions of the state and are characterised for every reachable state and every limit.

   The model is the code WITH the repairs F5, F6 (v0) and F12 (v1); on the unrepaired code the
   first two v0 statements and the first v1 statement are false (see the harness's directed
   cases and /verif/fixes). *)
From Coq Require Import List ZArith NArith Bool Lia.
From TM Require Import Common.Hex C12.Model C12.Proofs C12.GasInt64 C12.GasProofs.
Import ListNotations.
Open Scope Z_scope.

(* ------------------------------------------------------------------ v0 (CListMempool) *)

Definition reach0 (cfg : config) (s : state0) : Prop :=
  exists h pre post ops, s = run0 cfg (init0 h pre post) ops.

(* pool_nodup: at every moment each transaction is in the pool at most once *)
Theorem C12_v0_pool_nodup : forall cfg s, reach0 cfg s -> NoDup (pool0 s).
Proof. intros cfg s [h [pre [post [ops ->]]]]. apply (i0_nodup cfg), inv0_run, inv0_init. Qed.
Print Assumptions C12_v0_pool_nodup.

(* pool_bounded: count and byte size never exceed the configured limits *)
Theorem C12_v0_pool_bounded : forall cfg s, reach0 cfg s ->
  Z.of_nat (length (pool0 s)) <= Z.max 0 (cfg_size cfg) /\
  sum_sizes (pool0 s) <= Z.max 0 (cfg_max_txs_bytes cfg).
Proof.
  intros cfg s [h [pre [post [ops ->]]]].
  pose proof (inv0_run cfg ops _ (inv0_init cfg h pre post)) as I.
  rewrite pool0_length, <- (i0_bytes _ _ I). split; apply I.
Qed.
Print Assumptions C12_v0_pool_bounded.

(* index_consistent: txsMap holds exactly the keys of the list, txsBytes is the sum of the
   sizes, and the cache holds each key once and never more than CacheSize keys *)
Theorem C12_v0_index_consistent : forall cfg s, reach0 cfg s ->
  s_keys s = pool0 s /\ s_bytes s = sum_sizes (pool0 s) /\
  NoDup (s_cache s) /\ Z.of_nat (length (s_cache s)) <= Z.max 0 (cfg_cache_size cfg).
Proof.
  intros cfg s [h [pre [post [ops ->]]]].
  pose proof (inv0_run cfg ops _ (inv0_init cfg h pre post)) as I.
  destruct (i0_cache _ _ I) as [ND [Hz Hl]].
  repeat split; try apply I; try assumption.
  destruct (Z_lt_le_dec 0 (cfg_cache_size cfg)) as [H|H]; [specialize (Hl H); lia|].
  rewrite (Hz H). cbn. lia.
Qed.
Print Assumptions C12_v0_index_consistent.

(* committed_gone_and_remembered: after Update no transaction of the block is in the pool; a
   transaction committed with code 0 is in the cache (block not longer than the cache); and as
   long as a transaction is in the cache CheckTx refuses it without asking the application and
   without changing the pool *)
Theorem C12_v0_committed_gone_and_remembered : forall cfg s, reach0 cfg s ->
  (forall h blk pre post rv t, In t (map fst blk) ->
     let s' := update0 cfg s h blk pre post rv in
     ~ In t (pool0 s') /\
     (0 < cfg_cache_size cfg -> Z.of_nat (length blk) <= cfg_cache_size cfg ->
      (forall code, In (t, code) blk -> code = 0) -> In t (s_cache s'))) /\
  (forall t peer v, In t (s_cache s) ->
     pool0 (fst (fst (checktx0 cfg s t peer v))) = pool0 s /\
     snd (fst (checktx0 cfg s t peer v)) <> ENone /\ snd (checktx0 cfg s t peer v) = false).
Proof.
  intros cfg s [h0 [pre0 [post0 [ops ->]]]].
  pose proof (inv0_run cfg ops _ (inv0_init cfg h0 pre0 post0)) as I. split.
  - intros h blk pre post rv t Hin. cbv zeta. split.
    + rewrite update0_pool by assumption. rewrite !filter_In. intros [[_ H] _].
      apply mem_tx_In in Hin. rewrite Hin in H. discriminate.
    + intros. apply update0_cache_remembers; assumption.
  - intros. apply checktx0_remembered; assumption.
Qed.
Print Assumptions C12_v0_committed_gone_and_remembered.

(* reap_is_bounded_prefix.  ReapMaxTxs(n) is the first min(n, size) transactions in arrival
   order (all of them for n < 0).  ReapMaxBytesMaxGas(b, g) is a prefix of the pool; every
   non-empty prefix of the result is within both limits (a negative limit is no limit), and
   the result is maximal: if a transaction is left out, the result plus that transaction
   breaks a limit.  CheckTx only ever appends at the end (arrival order). *)
Theorem C12_v0_reap_is_bounded_prefix : forall cfg s, reach0 cfg s ->
  (forall n, (n < 0 -> reap_max_txs0 s n = pool0 s) /\
             (0 <= n -> reap_max_txs0 s n = firstn (Z.to_nat n) (pool0 s) /\
                        Z.of_nat (length (reap_max_txs0 s n)) = Z.min n (Z.of_nat (length (pool0 s))))) /\
  (forall b g, exists k, (k <= length (s_txs s))%nat /\
     reap_max_bytes_gas0 s b g = firstn k (pool0 s) /\
     (forall j, (1 <= j <= k)%nat ->
        within b g (sum_proto m_tx (firstn j (s_txs s))) (sum_gas m_gas (firstn j (s_txs s)))) /\
     ((k < length (s_txs s))%nat ->
        ~ within b g (sum_proto m_tx (firstn (S k) (s_txs s))) (sum_gas m_gas (firstn (S k) (s_txs s))))) /\
  (forall t peer v, let s' := fst (fst (checktx0 cfg s t peer v)) in
     pool0 s' = pool0 s \/ (pool0 s' = pool0 s ++ [t] /\ ~ In t (pool0 s))).
Proof.
  intros cfg s [h0 [pre0 [post0 [ops ->]]]].
  pose proof (inv0_run cfg ops _ (inv0_init cfg h0 pre0 post0)) as I. split; [|split].
  - intro n. apply reap_max_txs0_spec.
  - intros b g. destruct (reap_bytes_gas_prefix m_tx m_gas b g (s_txs (run0 cfg (init0 h0 pre0 post0) ops)) 0 0)
      as [k [Hk [Er [Hw Hn]]]].
    exists k. split; [assumption|]. split; [|split].
    + unfold reap_max_bytes_gas0, pool0. rewrite Er. symmetry. apply firstn_map.
    + intros j Hj. specialize (Hw j Hj). rewrite !Z.add_0_l in Hw. exact Hw.
    + intro H. specialize (Hn H). rewrite !Z.add_0_l in Hn. exact Hn.
  - intros. apply checktx0_pool. assumption.
Qed.
Print Assumptions C12_v0_reap_is_bounded_prefix.

(* recheck_keeps_only_accepted: after Update the pool is the old pool, in the old order,
   without the block's transactions and — with Recheck — without every transaction the
   application (or the post-check filter now in force) did not accept in this round *)
Theorem C12_v0_recheck_keeps_only_accepted : forall cfg s, reach0 cfg s ->
  forall h blk pre post rv,
  pool0 (update0 cfg s h blk pre post rv) =
  filter (fun t => negb (cfg_recheck cfg) || accepted (set_checks (s_post s) post) (lookup_res rv t))
         (filter (fun t => negb (mem_tx t (map fst blk))) (pool0 s)).
Proof.
  intros cfg s [h0 [pre0 [post0 [ops ->]]]] h blk pre post rv.
  apply update0_pool, inv0_run, inv0_init.
Qed.
Print Assumptions C12_v0_recheck_keeps_only_accepted.

(* ------------------------------------------------------------------ v1 (TxMempool) *)

Definition reach1 (cfg : config) (s : state1) : Prop :=
  exists h pre post ops, s = run1 cfg (init1 h pre post) ops.

Lemma reach1_inv : forall cfg s, reach1 cfg s -> Inv1 cfg s /\ StampsOk s.
Proof.
  intros cfg s [h [pre [post [ops ->]]]]. split.
  - apply inv1_run, inv1_init.
  - apply stamps_run, stamps_init.
Qed.

Theorem C12_v1_pool_nodup : forall cfg s, reach1 cfg s -> NoDup (pool1 s).
Proof. intros cfg s R. apply (i1_nodup cfg), (reach1_inv cfg s R). Qed.
Print Assumptions C12_v1_pool_nodup.

Theorem C12_v1_pool_bounded : forall cfg s, reach1 cfg s ->
  Z.of_nat (length (pool1 s)) <= Z.max 0 (cfg_size cfg) /\
  sum_sizes (pool1 s) <= Z.max 0 (cfg_max_txs_bytes cfg).
Proof.
  intros cfg s R. destruct (reach1_inv cfg s R) as [I _].
  rewrite pool1_length, <- (i1_bytes _ _ I). split; apply I.
Qed.
Print Assumptions C12_v1_pool_bounded.

(* index_consistent: txByKey holds exactly the keys of the list; txBySender exactly the
   non-empty senders of the list, each at most once (one transaction per sender); txsBytes is
   the sum of the sizes; the cache holds each key once and at most CacheSize keys *)
Theorem C12_v1_index_consistent : forall cfg s, reach1 cfg s ->
  t_keys s = pool1 s /\ t_senders s = senders_of (t_txs s) /\ NoDup (senders_of (t_txs s)) /\
  t_bytes s = sum_sizes (pool1 s) /\
  NoDup (t_cache s) /\ Z.of_nat (length (t_cache s)) <= Z.max 0 (cfg_cache_size cfg).
Proof.
  intros cfg s R. destruct (reach1_inv cfg s R) as [I _].
  destruct (i1_cache _ _ I) as [ND [Hz Hl]].
  split; [apply I|]. split; [apply I|]. split; [rewrite <- (i1_senders _ _ I); apply I|].
  split; [apply I|]. split; [assumption|].
  destruct (Z_lt_le_dec 0 (cfg_cache_size cfg)) as [H|H]; [specialize (Hl H); lia|].
  rewrite (Hz H). cbn. lia.
Qed.
Print Assumptions C12_v1_index_consistent.

Theorem C12_v1_committed_gone_and_remembered : forall cfg s, reach1 cfg s ->
  (forall h now blk pre post rv t, In t (map fst blk) ->
     let s' := update1 cfg s h now blk pre post rv in
     ~ In t (pool1 s') /\
     (0 < cfg_cache_size cfg -> Z.of_nat (length blk) <= cfg_cache_size cfg ->
      (forall code, In (t, code) blk -> code = 0) -> In t (t_cache s'))) /\
  (forall t peer v, In t (t_cache s) ->
     pool1 (fst (fst (checktx1 cfg s t peer v))) = pool1 s /\
     snd (fst (checktx1 cfg s t peer v)) <> ENone /\ snd (checktx1 cfg s t peer v) = false).
Proof.
  intros cfg s R. destruct (reach1_inv cfg s R) as [I _]. split.
  - intros h now blk pre post rv t Hin. cbv zeta. split.
    + intro H. apply (update1_pool cfg s h now blk pre post rv t I) in H. tauto.
    + intros. apply update1_cache_remembers; assumption.
  - intros. apply checktx1_remembered; assumption.
Qed.
Print Assumptions C12_v1_committed_gone_and_remembered.

(* reap order: a permutation of the pool sorted by priority descending, ties by arrival stamp
   (stamps are strictly increasing along the arrival list); ReapMaxTxs(n) is its first
   min(n, size) entries; ReapMaxBytesMaxGas(b, g) its maximal prefix within the limits *)
Theorem C12_v1_reap_is_bounded_prefix : forall cfg s, reach1 cfg s ->
  Permutation.Permutation (order1 s) (t_txs s) /\
  Sorted.StronglySorted reap_le (order1 s) /\
  Sorted.StronglySorted (fun a b => w_stamp a < w_stamp b) (t_txs s) /\
  (forall n, (n < 0 -> reap_max_txs1 s n = map w_tx (order1 s)) /\
             (0 <= n -> reap_max_txs1 s n = firstn (Z.to_nat n) (map w_tx (order1 s)) /\
                        Z.of_nat (length (reap_max_txs1 s n)) = Z.min n (Z.of_nat (length (t_txs s))))) /\
  (forall b g, exists k, (k <= length (order1 s))%nat /\
     reap_max_bytes_gas1 s b g = firstn k (map w_tx (order1 s)) /\
     (forall j, (1 <= j <= k)%nat ->
        within b g (sum_proto w_tx (firstn j (order1 s))) (sum_gas w_gas (firstn j (order1 s)))) /\
     ((k < length (order1 s))%nat ->
        ~ within b g (sum_proto w_tx (firstn (S k) (order1 s))) (sum_gas w_gas (firstn (S k) (order1 s))))).
Proof.
  intros cfg s R. destruct (reach1_inv cfg s R) as [I [S _]].
  split; [apply order1_perm|]. split; [apply order1_sorted|]. split; [assumption|]. split.
  - intro n. apply reap_max_txs1_spec.
  - intros b g. destruct (reap_bytes_gas_prefix w_tx w_gas b g (order1 s) 0 0) as [k [Hk [Er [Hw Hn]]]].
    exists k. split; [assumption|]. split; [|split].
    + unfold reap_max_bytes_gas1. rewrite Er. symmetry. apply firstn_map.
    + intros j Hj. specialize (Hw j Hj). rewrite !Z.add_0_l in Hw. exact Hw.
    + intro H. specialize (Hn H). rewrite !Z.add_0_l in Hn. exact Hn.
Qed.
Print Assumptions C12_v1_reap_is_bounded_prefix.

(* recheck_keeps_only_accepted: whatever is in the pool after Update was there before, is not
   in the block, was accepted in this recheck round (application answer and the post-check
   filter now in force) when Recheck is on, and has not outlived a configured TTL *)
Theorem C12_v1_recheck_keeps_only_accepted : forall cfg s, reach1 cfg s ->
  forall h now blk pre post rv t, In t (pool1 (update1 cfg s h now blk pre post rv)) ->
  In t (pool1 s) /\ ~ In t (map fst blk) /\
  (cfg_recheck cfg = true -> accepted (set_checks (t_post s) post) (lookup_res rv t) = true) /\
  (forall w, In w (t_txs s) -> w_tx w = t ->
     expired1 cfg h now w = false \/ (cfg_ttl_blocks cfg =? 0) && (cfg_ttl_dur cfg =? 0) = true).
Proof.
  intros cfg s R h now blk pre post rv t H. destruct (reach1_inv cfg s R) as [I _].
  apply (update1_pool cfg s h now blk pre post rv t I H).
Qed.
Print Assumptions C12_v1_recheck_keeps_only_accepted.

(* eviction_sound: a transaction that leaves the pool during CheckTx had strictly lower
   priority than the submitted one, which the application accepted, which was not in the pool
   and is in it afterwards; the bounds and indexes still hold (C12_v1_pool_bounded,
   C12_v1_index_consistent apply to the successor state) *)
Theorem C12_v1_eviction_sound : forall cfg s, reach1 cfg s ->
  forall t peer v w, In w (t_txs s) ->
  ~ In (w_tx w) (pool1 (fst (fst (checktx1 cfg s t peer v)))) ->
  w_prio w < v_prio v /\ accepted (t_post s) v = true /\
  In t (pool1 (fst (fst (checktx1 cfg s t peer v)))) /\ ~ In t (pool1 s).
Proof.
  intros cfg s R t peer v w Hw Hg. destruct (reach1_inv cfg s R) as [I _].
  apply (checktx1_eviction_sound cfg s t peer v w I Hw Hg).
Qed.
Print Assumptions C12_v1_eviction_sound.

(* ------------------------------------------------------------------ non-vacuity: concrete
   histories on which the hypotheses hold and the interesting branches are taken *)

Definition ex_cfg : config :=
  {| cfg_size := 4; cfg_max_txs_bytes := 100; cfg_max_tx_bytes := 10; cfg_cache_size := 1;
     cfg_recheck := true; cfg_keep_invalid := false; cfg_ttl_blocks := 0; cfg_ttl_dur := 0 |}.
Definition ex_ok (p : Z) : appres := {| v_code := 0; v_gas := 1; v_prio := p; v_sender := 0%N |}.
Definition ta : tx := [1%N]. Definition tb : tx := [2%N; 2%N]. Definition tc : tx := [3%N; 3%N; 3%N].

(* cache of one entry, pool of three, the first transaction submitted again (the F6 scenario):
   the pool keeps it once; ReapMaxTxs(1) returns one transaction (F5); after committing [ta]
   it is gone, remembered, and refused; a rejected recheck removes [tc] *)
Definition ex_s0 : state0 :=
  run0 ex_cfg (init0 0 None None)
       [O0CheckTx ta 1 (ex_ok 0); O0CheckTx tb 1 (ex_ok 0); O0CheckTx tc 1 (ex_ok 0); O0CheckTx ta 2 (ex_ok 0)].
Definition ex_s0' : state0 := update0 ex_cfg ex_s0 1 [(ta, 0)] None None [(tb, ex_ok 0)].

Example C12_v0_nonvacuous :
  pool0 ex_s0 = [ta; tb; tc] /\ s_cache ex_s0 = [ta] /\ s_bytes ex_s0 = 6 /\
  reap_max_txs0 ex_s0 1 = [ta] /\ reap_max_bytes_gas0 ex_s0 8 (-1) = [ta; tb] /\
  reap_max_bytes_gas0 ex_s0 (-1) 1 = [ta] /\
  pool0 ex_s0' = [tb] /\ s_cache ex_s0' = [ta] /\
  checktx0 ex_cfg ex_s0' ta 3 (ex_ok 0) = (ex_s0', EInCache, false).
Proof. vm_compute. repeat split; reflexivity. Qed.

(* v1, pool of two: a third transaction of higher priority evicts the lowest one, an equal
   priority one is dropped; reaping is by priority then arrival; the same transaction coming
   back after the cache forgot it (F12 scenario) is not inserted twice *)
Definition ex_cfg1 : config :=
  {| cfg_size := 2; cfg_max_txs_bytes := 100; cfg_max_tx_bytes := 10; cfg_cache_size := 1;
     cfg_recheck := true; cfg_keep_invalid := false; cfg_ttl_blocks := 2; cfg_ttl_dur := 0 |}.
Definition ex_s1 : state1 :=
  run1 ex_cfg1 (init1 0 None None)
       [O1CheckTx ta 1 (ex_ok 1); O1CheckTx tb 1 (ex_ok 2); O1CheckTx ta 2 (ex_ok 1)].
Definition td : tx := [4%N].
Definition ex_s1' : state1 := fst (fst (checktx1 ex_cfg1 ex_s1 td 1 (ex_ok 3))).

Example C12_v1_nonvacuous :
  pool1 ex_s1 = [ta; tb] /\ reap_max_txs1 ex_s1 (-1) = [tb; ta] /\ reap_max_txs1 ex_s1 1 = [tb] /\
  pool1 ex_s1' = [tb; td] /\ reap_max_txs1 ex_s1' (-1) = [td; tb] /\ t_bytes ex_s1' = 3 /\
  pool1 (fst (fst (checktx1 ex_cfg1 ex_s1' ta 1 (ex_ok 2)))) = [tb; td] /\
  pool1 (fst (fst (checktx1 ex_cfg1 ex_s1 tc 1 (ex_ok 3)))) = [tc] /\
  pool1 (update1 ex_cfg1 ex_s1' 1 0 [(tb, 0)] None None [(td, ex_ok 0)]) = [td] /\
  pool1 (update1 ex_cfg1 ex_s1' 3 0 [] None None [(tb, ex_ok 0); (td, ex_ok 0)]) = [].
Proof. vm_compute. repeat split; reflexivity. Qed.

(* ------------------------------------------------------------------ F94: gas accounting in
   int64.  The model above sums GasWanted in Z; the code sums in int64.  With the repair
   (compare before adding: gasWanted > 0 && totalGas > maxGas-gasWanted) the int64 loops of
   both mempools return exactly what the Z-valued reap returns, for every pool, every int64
   maxGas/maxBytes and all int64 GasWanted values — so C12_v0/v1_reap_is_bounded_prefix
   ("within the gas limit", sums over Z) are statements about the repaired code.  The only
   hypothesis is that the mathematical running total does not fall below -2^63, which holds
   whenever no GasWanted is negative (C12_reap_gas_nonneg_no_underflow). *)

Theorem C12_reap_gas_no_overflow_v0 : forall (s : state0) (mb mg : Z),
  is_int64 mg -> Forall (fun m => is_int64 (m_gas m)) (s_txs s) -> no_underflow m_gas 0 (s_txs s) ->
  reap0_gas_checked m_tx m_gas mb mg 0 0 (s_txs s) = reap_max_bytes_gas0 s mb mg.
Proof. exact (fun s mb mg => reap0_checked_eq m_tx m_gas mb mg (s_txs s)). Qed.
Print Assumptions C12_reap_gas_no_overflow_v0.

Theorem C12_reap_gas_no_overflow_v1 : forall (s : state1) (mb mg : Z),
  is_int64 mg -> Forall (fun w => is_int64 (w_gas w)) (order1 s) -> no_underflow w_gas 0 (order1 s) ->
  reap1_gas_checked w_tx w_gas mb mg 0 0 (order1 s) = reap_max_bytes_gas1 s mb mg.
Proof. exact (fun s mb mg => reap1_checked_eq w_tx w_gas mb mg (order1 s)). Qed.
Print Assumptions C12_reap_gas_no_overflow_v1.

Theorem C12_reap_gas_nonneg_no_underflow : forall {A} (gasof : A -> Z) (l : list A),
  Forall (fun m => 0 <= gasof m) l -> no_underflow gasof 0 l.
Proof. exact (fun A gasof l => no_underflow_nonneg gasof l 0 (Z.le_refl 0)). Qed.
Print Assumptions C12_reap_gas_nonneg_no_underflow.

(* pool gas [10, MaxInt64, 10], maxGas 10 (the F94 witness): the repaired loops stop after the
   first transaction like the model; the unrepaired ones wrap and return all three *)
Definition ex_gas0 : list mtx :=
  [ {| m_tx := ta; m_gas := 10; m_height := 0; m_senders := [] |};
    {| m_tx := tb; m_gas := max_int64; m_height := 0; m_senders := [] |};
    {| m_tx := tc; m_gas := 10; m_height := 0; m_senders := [] |} ].
Definition ex_gas1 : list wtx :=
  map (fun m => {| w_tx := m_tx m; w_gas := m_gas m; w_prio := 0; w_sender := 0%N; w_stamp := 0;
                   w_height := 0; w_peers := [] |}) ex_gas0.

Example C12_reap_gas_nonvacuous :
  is_int64 10 /\ Forall (fun m => is_int64 (m_gas m)) ex_gas0 /\ no_underflow m_gas 0 ex_gas0 /\
  reap0_gas_checked m_tx m_gas (-1) 10 0 0 ex_gas0 = [ta] /\
  reap1_gas_checked w_tx w_gas (-1) 10 0 0 ex_gas1 = [ta] /\
  reap_bytes_gas m_tx m_gas (-1) 10 0 0 ex_gas0 = [ta] /\
  reap0_gas_checked m_tx m_gas (-1) max_int64 0 0 ex_gas0 = [ta] /\
  reap0_gas_checked m_tx m_gas (-1) (-1) 0 0 ex_gas0 = [ta; tb; tc].
Proof.
  split; [unfold is_int64, two63; lia|]. split.
  { repeat constructor; cbn; unfold two63, max_int64; lia. }
  split; [cbn; unfold two63, max_int64; lia|].
  vm_compute. repeat split; reflexivity.
Qed.

Example C12_reap_gas_wrapping_refuted :
  reap0_gas_wrapping m_tx m_gas (-1) 10 0 0 ex_gas0 = [ta; tb; tc] /\
  reap1_gas_wrapping w_tx w_gas (-1) 10 0 0 ex_gas1 = [ta; tb; tc] /\
  reap0_gas_wrapping m_tx m_gas (-1) 10 0 0 ex_gas0 <> reap_bytes_gas m_tx m_gas (-1) 10 0 0 ex_gas0.
Proof. vm_compute. repeat split; try reflexivity. discriminate. Qed.
