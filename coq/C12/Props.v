(* C12 — Mempool contents stay unique, bounded, current and correctly ordered.

   Only the property statements; each is closed by a lemma of Proofs.v.  They quantify over
   every configuration (Size, MaxTxsBytes, MaxTxBytes, CacheSize incl. 0 and < Size, Recheck,
   KeepInvalidTxsInCache, TTLs), every initial height/filters, and every history [ops] of
   submissions (any peer, any repeats, any application answer), block updates (any block, any
   DeliverTx codes, any recheck answers, any new filters), flushes and removals; reaps are
   functions of the state and are characterised for every reachable state and every limit.

   The model is the code WITH the repairs F5, F6 (v0) and F12 (v1); on the unrepaired code the
   first two v0 statements and the first v1 statement are false (see the harness's directed
   cases and /verif/fixes). *)
From Coq Require Import List ZArith NArith Bool Lia.
From TM Require Import Common.Hex C12.Model C12.Proofs.
Import ListNotations.
Open Scope Z_scope.

(* ------------------------------------------------------------------ v0 (CListMempool) *)

Definition reach0 (cfg : config) (s : state0) : Prop :=
  exists h pre post ops, s = run0 cfg (init0 h pre post) ops.

(* pool_nodup: at every moment each transaction is in the pool at most once *)
Theorem C12_v0_pool_nodup : forall cfg s, reach0 cfg s -> NoDup (pool0 s).
Proof. intros cfg s [h [pre [post [ops ->]]]]. apply (i0_nodup cfg), inv0_run, inv0_init. Qed.
Print Assumptions C12_v0_pool_nodup.

(* pool_bounded: count and byte size never exceed the configured limits *)
Theorem C12_v0_pool_bounded : forall cfg s, reach0 cfg s ->
  Z.of_nat (length (pool0 s)) <= Z.max 0 (cfg_size cfg) /\
  sum_sizes (pool0 s) <= Z.max 0 (cfg_max_txs_bytes cfg).
Proof.
  intros cfg s [h [pre [post [ops ->]]]].
  pose proof (inv0_run cfg ops _ (inv0_init cfg h pre post)) as I.
  rewrite pool0_length, <- (i0_bytes _ _ I). split; apply I.
Qed.
Print Assumptions C12_v0_pool_bounded.

(* index_consistent: txsMap holds exactly the keys of the list, txsBytes is the sum of the
   sizes, and the cache holds each key once and never more than CacheSize keys *)
Theorem C12_v0_index_consistent : forall cfg s, reach0 cfg s ->
  s_keys s = pool0 s /\ s_bytes s = sum_sizes (pool0 s) /\
  NoDup (s_cache s) /\ Z.of_nat (length (s_cache s)) <= Z.max 0 (cfg_cache_size cfg).
Proof.
  intros cfg s [h [pre [post [ops ->]]]].
  pose proof (inv0_run cfg ops _ (inv0_init cfg h pre post)) as I.
  destruct (i0_cache _ _ I) as [ND [Hz Hl]].
  repeat split; try apply I; try assumption.
  destruct (Z_lt_le_dec 0 (cfg_cache_size cfg)) as [H|H]; [specialize (Hl H); lia|].
  rewrite (Hz H). cbn. lia.
Qed.
Print Assumptions C12_v0_index_consistent.

(* committed_gone_and_remembered: after Update no transaction of the block is in the pool; a
   transaction committed with code 0 is in the cache (block not longer than the cache); and as
   long as a transaction is in the cache CheckTx refuses it without asking the application and
   without changing the pool *)
Theorem C12_v0_committed_gone_and_remembered : forall cfg s, reach0 cfg s ->
  (forall h blk pre post rv t, In t (map fst blk) ->
     let s' := update0 cfg s h blk pre post rv in
     ~ In t (pool0 s') /\
     (0 < cfg_cache_size cfg -> Z.of_nat (length blk) <= cfg_cache_size cfg ->
      (forall code, In (t, code) blk -> code = 0) -> In t (s_cache s'))) /\
  (forall t peer v, In t (s_cache s) ->
     pool0 (fst (fst (checktx0 cfg s t peer v))) = pool0 s /\
     snd (fst (checktx0 cfg s t peer v)) <> ENone /\ snd (checktx0 cfg s t peer v) = false).
Proof.
  intros cfg s [h0 [pre0 [post0 [ops ->]]]].
  pose proof (inv0_run cfg ops _ (inv0_init cfg h0 pre0 post0)) as I. split.
  - intros h blk pre post rv t Hin. cbv zeta. split.
    + rewrite update0_pool by assumption. rewrite !filter_In. intros [[_ H] _].
      apply mem_tx_In in Hin. rewrite Hin in H. discriminate.
    + intros. apply update0_cache_remembers; assumption.
  - intros. apply checktx0_remembered; assumption.
Qed.
Print Assumptions C12_v0_committed_gone_and_remembered.

(* reap_is_bounded_prefix.  ReapMaxTxs(n) is the first min(n, size) transactions in arrival
   order (all of them for n < 0).  ReapMaxBytesMaxGas(b, g) is a prefix of the pool; every
   non-empty prefix of the result is within both limits (a negative limit is no limit), and
   the result is maximal: if a transaction is left out, the result plus that transaction
   breaks a limit.  CheckTx only ever appends at the end (arrival order). *)
Theorem C12_v0_reap_is_bounded_prefix : forall cfg s, reach0 cfg s ->
  (forall n, (n < 0 -> reap_max_txs0 s n = pool0 s) /\
             (0 <= n -> reap_max_txs0 s n = firstn (Z.to_nat n) (pool0 s) /\
                        Z.of_nat (length (reap_max_txs0 s n)) = Z.min n (Z.of_nat (length (pool0 s))))) /\
  (forall b g, exists k, (k <= length (s_txs s))%nat /\
     reap_max_bytes_gas0 s b g = firstn k (pool0 s) /\
     (forall j, (1 <= j <= k)%nat ->
        within b g (sum_proto m_tx (firstn j (s_txs s))) (sum_gas m_gas (firstn j (s_txs s)))) /\
     ((k < length (s_txs s))%nat ->
        ~ within b g (sum_proto m_tx (firstn (S k) (s_txs s))) (sum_gas m_gas (firstn (S k) (s_txs s))))) /\
  (forall t peer v, let s' := fst (fst (checktx0 cfg s t peer v)) in
     pool0 s' = pool0 s \/ (pool0 s' = pool0 s ++ [t] /\ ~ In t (pool0 s))).
Proof.
  intros cfg s [h0 [pre0 [post0 [ops ->]]]].
  pose proof (inv0_run cfg ops _ (inv0_init cfg h0 pre0 post0)) as I. split; [|split].
  - intro n. apply reap_max_txs0_spec.
  - intros b g. destruct (reap_bytes_gas_prefix m_tx m_gas b g (s_txs (run0 cfg (init0 h0 pre0 post0) ops)) 0 0)
      as [k [Hk [Er [Hw Hn]]]].
    exists k. split; [assumption|]. split; [|split].
    + unfold reap_max_bytes_gas0, pool0. rewrite Er. symmetry. apply firstn_map.
    + intros j Hj. specialize (Hw j Hj). rewrite !Z.add_0_l in Hw. exact Hw.
    + intro H. specialize (Hn H). rewrite !Z.add_0_l in Hn. exact Hn.
  - intros. apply checktx0_pool. assumption.
Qed.
Print Assumptions C12_v0_reap_is_bounded_prefix.

(* recheck_keeps_only_accepted: after Update the pool is the old pool, in the old order,
   without the block's transactions and — with Recheck — without every transaction the
   application (or the post-check filter now in force) did not accept in this round *)
Theorem C12_v0_recheck_keeps_only_accepted : forall cfg s, reach0 cfg s ->
  forall h blk pre post rv,
  pool0 (update0 cfg s h blk pre post rv) =
  filter (fun t => negb (cfg_recheck cfg) || accepted (set_checks (s_post s) post) (lookup_res rv t))
         (filter (fun t => negb (mem_tx t (map fst blk))) (pool0 s)).
Proof.
  intros cfg s [h0 [pre0 [post0 [ops ->]]]] h blk pre post rv.
  apply update0_pool, inv0_run, inv0_init.
Qed.
Print Assumptions C12_v0_recheck_keeps_only_accepted.
