(* C12 — lemmas and proofs about the mempool models (C12/Model.v). *)
From Coq Require Import List ZArith NArith Bool Lia Permutation.
From TM Require Import Common.Hex C12.Model.
Import ListNotations.
Open Scope Z_scope.

(* ------------------------------------------------------------------ lists of transactions *)

Lemma tx_eqb_eq : forall a b, tx_eqb a b = true <-> a = b.
Proof. exact bytes_eqb_eq. Qed.
Lemma tx_eqb_refl : forall a, tx_eqb a a = true.
Proof. exact bytes_eqb_refl. Qed.
Lemma tx_eqb_neq : forall a b, tx_eqb a b = false <-> a <> b.
Proof.
  intros a b. destruct (tx_eqb a b) eqn:E.
  - apply tx_eqb_eq in E. split; [discriminate | intro; contradiction].
  - split; [intros _ H; apply tx_eqb_eq in H; congruence | reflexivity].
Qed.
Lemma tx_eqb_sym : forall a b, tx_eqb a b = tx_eqb b a.
Proof.
  intros a b. destruct (tx_eqb a b) eqn:E; symmetry.
  - apply tx_eqb_eq in E. subst. apply tx_eqb_refl.
  - apply tx_eqb_neq. apply tx_eqb_neq in E. congruence.
Qed.

Lemma mem_tx_In : forall t l, mem_tx t l = true <-> In t l.
Proof.
  intros t l. unfold mem_tx. rewrite existsb_exists. split.
  - intros [x [Hx E]]. apply tx_eqb_eq in E. subst. exact Hx.
  - intro H. exists t. split; [exact H | apply tx_eqb_refl].
Qed.
Lemma mem_tx_nIn : forall t l, mem_tx t l = false <-> ~ In t l.
Proof.
  intros t l. destruct (mem_tx t l) eqn:E.
  - apply mem_tx_In in E. split; [discriminate | intro; contradiction].
  - split; [intros _ H; apply mem_tx_In in H; congruence | reflexivity].
Qed.

Lemma In_remove_tx : forall x t l, In x (remove_tx t l) <-> In x l /\ x <> t.
Proof.
  intros x t l. unfold remove_tx. rewrite filter_In. split; intros [H1 H2]; split; auto.
  - apply negb_true_iff in H2. apply tx_eqb_neq in H2. congruence.
  - apply negb_true_iff. apply tx_eqb_neq. congruence.
Qed.
Lemma NoDup_remove_tx : forall t l, NoDup l -> NoDup (remove_tx t l).
Proof. intros. apply NoDup_filter. assumption. Qed.
Lemma remove_tx_notin : forall t l, ~ In t l -> remove_tx t l = l.
Proof.
  intros t l. induction l as [|x l IH]; intro H; [reflexivity|]. cbn.
  destruct (tx_eqb t x) eqn:E.
  - apply tx_eqb_eq in E. subst. exfalso. apply H. left. reflexivity.
  - cbn. f_equal. apply IH. intro. apply H. right. assumption.
Qed.
Lemma filter_length_le : forall {A} (f : A -> bool) (l : list A), (length (filter f l) <= length l)%nat.
Proof. intros A f l. induction l as [|x l IH]; cbn; [lia | destruct (f x); cbn; lia]. Qed.
Lemma remove_tx_length : forall t (l : list tx), (length (remove_tx t l) <= length l)%nat.
Proof. intros. apply filter_length_le. Qed.
Lemma remove_tx_app : forall t a b, remove_tx t (a ++ b) = remove_tx t a ++ remove_tx t b.
Proof. intros. apply filter_app. Qed.

Lemma tx_size_nonneg : forall t, 0 <= tx_size t.
Proof. intro. unfold tx_size. lia. Qed.
Lemma sum_sizes_cons : forall x l, sum_sizes (x :: l) = tx_size x + sum_sizes l.
Proof. reflexivity. Qed.
Local Arguments sum_sizes : simpl never.
Local Arguments tx_size : simpl never.
Local Arguments tx_eqb : simpl never.
Lemma sum_sizes_nonneg : forall l, 0 <= sum_sizes l.
Proof. induction l; [cbv; discriminate | rewrite sum_sizes_cons; pose proof (tx_size_nonneg a); lia]. Qed.
Lemma sum_sizes_app : forall a b, sum_sizes (a ++ b) = sum_sizes a + sum_sizes b.
Proof. induction a; intro b; [reflexivity | cbn [app]; rewrite !sum_sizes_cons, IHa; lia]. Qed.
Lemma sum_sizes_remove : forall t l, NoDup l -> In t l ->
  sum_sizes (remove_tx t l) = sum_sizes l - tx_size t.
Proof.
  intros t l. induction l as [|x l IH]; intros ND HI; [contradiction|].
  inversion ND as [|? ? Hx ND']; subst. unfold remove_tx. cbn [filter]. fold (remove_tx t l).
  rewrite sum_sizes_cons.
  destruct (tx_eqb t x) eqn:E.
  - apply tx_eqb_eq in E. subst. cbn [negb]. rewrite remove_tx_notin by assumption. lia.
  - cbn [negb]. rewrite sum_sizes_cons. destruct HI as [->|HI].
    + rewrite tx_eqb_refl in E. discriminate.
    + rewrite IH by assumption. lia.
Qed.
Lemma sum_sizes_remove_le : forall t l, sum_sizes (remove_tx t l) <= sum_sizes l.
Proof.
  intros t l. induction l as [|x l IH]; [cbn; lia|].
  unfold remove_tx. cbn [filter]. fold (remove_tx t l). rewrite sum_sizes_cons.
  pose proof (tx_size_nonneg x). destruct (tx_eqb t x); cbn [negb]; rewrite ?sum_sizes_cons; lia.
Qed.

(* removing by key commutes with projecting the keys *)
Lemma map_filter_key : forall {A} (key : A -> tx) t (l : list A),
  map key (filter (fun m => negb (tx_eqb t (key m))) l) = remove_tx t (map key l).
Proof.
  intros A key t l. induction l as [|m l IH]; [reflexivity|]. cbn.
  destruct (tx_eqb t (key m)); cbn; [exact IH | f_equal; exact IH].
Qed.

(* ------------------------------------------------------------------ the LRU cache *)

Definition CacheOk (cap : Z) (c : list tx) : Prop :=
  NoDup c /\ (cap <= 0 -> c = []) /\ (0 < cap -> Z.of_nat (length c) <= cap).

Lemma cache_ok_nil : forall cap, CacheOk cap [].
Proof. intro. split; [constructor | split; [reflexivity | cbn; lia]]. Qed.

Lemma NoDup_snoc : forall (l : list tx) t, NoDup l -> ~ In t l -> NoDup (l ++ [t]).
Proof.
  intros l t ND H. induction l as [|x l IH]; cbn; [constructor; [intros []|constructor]|].
  inversion ND; subst. constructor.
  - rewrite in_app_iff. intros [H'|[->|[]]]; [contradiction|]. apply H. left. reflexivity.
  - apply IH; [assumption | intro; apply H; right; assumption].
Qed.

Lemma cache_push_ok : forall cap c t, CacheOk cap c -> CacheOk cap (fst (cache_push cap c t)).
Proof.
  intros cap c t [ND [Hz Hl]]. unfold cache_push.
  destruct (cap <=? 0) eqn:E0; [split; auto|]. apply Z.leb_gt in E0.
  specialize (Hl E0).
  destruct (mem_tx t c) eqn:Em; cbn [fst].
  - apply mem_tx_In in Em. split; [|split; [lia|intros _]].
    + apply NoDup_snoc; [apply NoDup_remove_tx; assumption|]. rewrite In_remove_tx. intros [_ H]. congruence.
    + rewrite app_length. cbn.
      assert (sum_one : forall l : list tx, NoDup l -> In t l -> (length (remove_tx t l) + 1 = length l)%nat).
      { induction l as [|x l IH]; intros ND' HI; [contradiction|]. inversion ND'; subst. cbn.
        destruct (tx_eqb t x) eqn:E.
        - apply tx_eqb_eq in E. subst. cbn. fold (remove_tx x l). rewrite remove_tx_notin by assumption. lia.
        - cbn. fold (remove_tx t l). destruct HI as [->|HI]; [rewrite tx_eqb_refl in E; discriminate|].
          rewrite <- (IH H2 HI). lia. }
      specialize (sum_one c ND Em). lia.
  - apply mem_tx_nIn in Em.
    destruct (Z.of_nat (length c) >=? cap) eqn:Eg.
    + destruct c as [|x c]; cbn [tl].
      * split; [constructor; [intros []|constructor] | split; [lia | intros _; cbn; lia]].
      * inversion ND; subst. split; [|split; [lia|intros _]].
        -- apply NoDup_snoc; [assumption | intro; apply Em; right; assumption].
        -- rewrite app_length. cbn in *. lia.
    + split; [|split; [lia|intros _]].
      * apply NoDup_snoc; assumption.
      * rewrite app_length. cbn. lia.
Qed.

Lemma cache_remove_ok : forall cap c t, CacheOk cap c -> CacheOk cap (cache_remove c t).
Proof.
  intros cap c t [ND [Hz Hl]]. unfold cache_remove. split; [apply NoDup_remove_tx; assumption|split].
  - intro H. rewrite (Hz H). reflexivity.
  - intro H. pose proof (remove_tx_length t c). specialize (Hl H). lia.
Qed.

Lemma cache_push_fresh_false : forall cap c t,
  snd (cache_push cap c t) = false <-> (0 < cap /\ In t c).
Proof.
  intros. unfold cache_push. destruct (cap <=? 0) eqn:E0.
  - apply Z.leb_le in E0. cbn. split; [discriminate | lia].
  - apply Z.leb_gt in E0. destruct (mem_tx t c) eqn:Em; cbn.
    + apply mem_tx_In in Em. tauto.
    + apply mem_tx_nIn in Em. split; [discriminate | tauto].
Qed.

(* recency: [t] sits in the cache with at most [m] younger entries behind it *)
Definition Recent (t : tx) (m : nat) (c : list tx) : Prop :=
  exists pre post, c = pre ++ t :: post /\ (length post <= m)%nat.

Lemma recent_in : forall t m c, Recent t m c -> In t c.
Proof. intros t m c [pre [post [-> _]]]. apply in_elt. Qed.

Lemma recent_push_self : forall cap c t, 0 < cap -> Recent t 0 (fst (cache_push cap c t)).
Proof.
  intros cap c t Hc. unfold cache_push. destruct (cap <=? 0) eqn:E0; [apply Z.leb_le in E0; lia|].
  destruct (mem_tx t c); cbn [fst]; eexists; exists []; split; try reflexivity; cbn; lia.
Qed.

Lemma recent_remove_other : forall t t' m c, t <> t' -> Recent t m c -> Recent t m (cache_remove c t').
Proof.
  intros t t' m c Hne [pre [post [-> Hl]]]. unfold cache_remove. rewrite remove_tx_app. cbn.
  assert (E : tx_eqb t' t = false) by (apply tx_eqb_neq; congruence). rewrite E. cbn.
  exists (remove_tx t' pre), (filter (fun x => negb (tx_eqb t' x)) post). split; [reflexivity|].
  pose proof (filter_length_le (fun x => negb (tx_eqb t' x)) post). lia.
Qed.

Lemma recent_push_other : forall cap c t t' m, 0 < cap -> t <> t' -> (Z.of_nat m + 1 < cap) ->
  Recent t m c -> Recent t (S m) (fst (cache_push cap c t')).
Proof.
  intros cap c t t' m Hc Hne Hm [pre [post [-> Hl]]]. unfold cache_push.
  destruct (cap <=? 0) eqn:E0; [apply Z.leb_le in E0; lia|].
  assert (E : tx_eqb t' t = false) by (apply tx_eqb_neq; congruence).
  destruct (mem_tx t' (pre ++ t :: post)) eqn:Em; cbn [fst].
  - rewrite remove_tx_app. cbn. rewrite E. cbn.
    exists (remove_tx t' pre), (filter (fun x => negb (tx_eqb t' x)) post ++ [t']). split.
    + rewrite <- app_assoc. reflexivity.
    + rewrite app_length. cbn. pose proof (filter_length_le (fun x => negb (tx_eqb t' x)) post). lia.
  - destruct (Z.of_nat (length (pre ++ t :: post)) >=? cap) eqn:Eg.
    + destruct pre as [|x pre]; cbn [tl app].
      * exfalso. cbn in Eg. apply Z.geb_le in Eg. lia.
      * exists pre, (post ++ [t']). split; [rewrite <- app_assoc; reflexivity|].
        rewrite app_length. cbn. lia.
    + exists pre, (post ++ [t']). split; [rewrite <- app_assoc; reflexivity|].
      rewrite app_length. cbn. lia.
Qed.

Lemma recent_weaken : forall t m m' c, (m <= m')%nat -> Recent t m c -> Recent t m' c.
Proof. intros t m m' c H [pre [post [E Hl]]]. exists pre, post. split; [assumption | lia]. Qed.

(* the cache part of Update's loop over the block *)
Definition cache_update_one (cfg : config) (c : list tx) (tc : tx * Z) : list tx :=
  if snd tc =? 0 then fst (cache_push (cfg_cache_size cfg) c (fst tc))
  else if cfg_keep_invalid cfg then c else cache_remove c (fst tc).

Lemma recent_update_other : forall cfg c t tc m,
  0 < cfg_cache_size cfg -> fst tc <> t -> Z.of_nat m + 1 < cfg_cache_size cfg ->
  Recent t m c -> Recent t (S m) (cache_update_one cfg c tc).
Proof.
  intros cfg c t [t' code] m Hc Hne Hm HR. unfold cache_update_one. cbn [fst snd] in *.
  destruct (code =? 0).
  - apply recent_push_other; auto.
  - destruct (cfg_keep_invalid cfg).
    + eapply recent_weaken; [|exact HR]. lia.
    + eapply recent_weaken; [|apply recent_remove_other; [congruence | exact HR]]. lia.
Qed.

(* after the loop over a block no longer than the cache, a transaction all of whose entries
   were committed with code 0 is in the cache *)
Lemma cache_update_recent_gen : forall cfg t, 0 < cfg_cache_size cfg ->
  forall (blk : list (tx * Z)) c m,
     Z.of_nat (m + length blk) + 1 <= cfg_cache_size cfg ->
     (forall code, In (t, code) blk -> code = 0) ->
     Recent t m c ->
     exists m', (m' <= m + length blk)%nat /\ Recent t m' (fold_left (cache_update_one cfg) blk c).
Proof.
  intros cfg t Hc. induction blk as [|[t' code] blk IH]; intros c0 m Hlen Hall HR.
  - exists m. split; [cbn; lia | exact HR].
  - cbn [fold_left]. cbn [length] in Hlen. destruct (tx_eqb t' t) eqn:E.
    + apply tx_eqb_eq in E. subst t'.
      assert (code = 0) by (apply Hall; left; reflexivity). subst code.
      assert (HR' : Recent t 0 (cache_update_one cfg c0 (t, 0))).
      { unfold cache_update_one. cbn. apply recent_push_self. assumption. }
      destruct (IH (cache_update_one cfg c0 (t, 0)) 0%nat) as [m' [Hm' HR'']].
      * lia.
      * intros code Hin. apply Hall. right. assumption.
      * exact HR'.
      * exists m'. split; [cbn [length]; lia | exact HR''].
    + apply tx_eqb_neq in E.
      assert (HR' : Recent t (S m) (cache_update_one cfg c0 (t', code))).
      { apply recent_update_other; auto. lia. }
      destruct (IH (cache_update_one cfg c0 (t', code)) (S m)) as [m' [Hm' HR'']].
      * lia.
      * intros code' Hin. apply Hall. right. assumption.
      * exact HR'.
      * exists m'. split; [cbn [length]; lia | exact HR''].
Qed.

Lemma cache_update_remembers : forall cfg t, 0 < cfg_cache_size cfg ->
  forall (blk : list (tx * Z)) c,
  Z.of_nat (length blk) <= cfg_cache_size cfg ->
  In t (map fst blk) -> (forall code, In (t, code) blk -> code = 0) ->
  In t (fold_left (cache_update_one cfg) blk c).
Proof.
  intros cfg t Hc. induction blk as [|[t' code] blk IH]; intros c Hlen Hin Hall; [contradiction|].
  cbn [fold_left]. cbn [length] in Hlen. destruct (tx_eqb t' t) eqn:E.
  - apply tx_eqb_eq in E. subst t'.
    assert (code = 0) by (apply Hall; left; reflexivity). subst code.
    assert (HR' : Recent t 0 (cache_update_one cfg c (t, 0))).
    { unfold cache_update_one. cbn. apply recent_push_self. assumption. }
    destruct (cache_update_recent_gen cfg t Hc blk (cache_update_one cfg c (t, 0)) 0%nat) as [m' [Hm' HR'']].
    + lia.
    + intros code Hin'. apply Hall. right. assumption.
    + exact HR'.
    + eapply recent_in. exact HR''.
  - apply tx_eqb_neq in E. cbn in Hin. destruct Hin as [Hin|Hin]; [congruence|].
    apply IH.
    + lia.
    + assumption.
    + intros code' Hin'. apply Hall. right. assumption.
Qed.

(* =================================================================== v0 *)

Record Inv0 (cfg : config) (s : state0) : Prop := {
  i0_nodup : NoDup (pool0 s);
  i0_keys : s_keys s = pool0 s;
  i0_bytes : s_bytes s = sum_sizes (pool0 s);
  i0_count : Z.of_nat (length (s_txs s)) <= Z.max 0 (cfg_size cfg);
  i0_maxb : s_bytes s <= Z.max 0 (cfg_max_txs_bytes cfg);
  i0_cache : CacheOk (cfg_cache_size cfg) (s_cache s)
}.

Lemma inv0_init : forall cfg h pre post, Inv0 cfg (init0 h pre post).
Proof.
  intros. constructor; cbn; try lia; try reflexivity; [constructor | apply cache_ok_nil].
Qed.

Lemma inv0_set_cache : forall cfg s c, Inv0 cfg s -> CacheOk (cfg_cache_size cfg) c ->
  Inv0 cfg (set_cache0 s c).
Proof. intros cfg s c [] H. constructor; cbn; assumption. Qed.

Lemma record_sender0_keys : forall t p l, map m_tx (record_sender0 t p l) = map m_tx l.
Proof.
  intros t p l. unfold record_sender0. rewrite map_map. apply map_ext.
  intro m. destruct (tx_eqb t (m_tx m)); reflexivity.
Qed.

Lemma pool0_length : forall s, length (pool0 s) = length (s_txs s).
Proof. intro. unfold pool0. apply map_length. Qed.

Lemma inv0_record_sender : forall cfg s t p c,
  Inv0 cfg s -> CacheOk (cfg_cache_size cfg) c ->
  Inv0 cfg {| s_cache := c; s_txs := record_sender0 t p (s_txs s); s_keys := s_keys s;
              s_bytes := s_bytes s; s_height := s_height s; s_pre := s_pre s; s_post := s_post s |}.
Proof.
  intros cfg s t p c [] H. constructor; unfold pool0 in *; cbn [s_cache s_txs s_keys s_bytes];
    rewrite ?record_sender0_keys; try assumption.
  unfold record_sender0. rewrite map_length. assumption.
Qed.

Lemma pool0_remove : forall s t fc, pool0 (remove_tx0 s t fc) = remove_tx t (pool0 s).
Proof. intros. unfold pool0, remove_tx0. cbn [s_txs]. apply map_filter_key. Qed.

Lemma inv0_remove : forall cfg s t fc, Inv0 cfg s -> In t (pool0 s) -> Inv0 cfg (remove_tx0 s t fc).
Proof.
  intros cfg s t fc I HI. pose proof (pool0_remove s t fc) as Ep. destruct I.
  constructor; rewrite ?Ep.
  - apply NoDup_remove_tx. assumption.
  - cbn [remove_tx0 s_keys]. rewrite i0_keys0. reflexivity.
  - cbn [remove_tx0 s_bytes]. rewrite sum_sizes_remove by assumption. lia.
  - rewrite <- pool0_length, Ep. pose proof (remove_tx_length t (pool0 s)).
    rewrite pool0_length in H. lia.
  - cbn [remove_tx0 s_bytes]. pose proof (tx_size_nonneg t). lia.
  - cbn [remove_tx0 s_cache]. destruct fc; [apply cache_remove_ok|]; assumption.
Qed.

Lemma is_full0_false : forall cfg s t, is_full0 cfg s t = false ->
  Z.of_nat (length (s_txs s)) < cfg_size cfg /\ tx_size t + s_bytes s <= cfg_max_txs_bytes cfg.
Proof.
  intros cfg s t H. unfold is_full0 in H. apply orb_false_iff in H as [H1 H2].
  rewrite Z.geb_leb in H1. apply Z.leb_gt in H1. rewrite Z.gtb_ltb in H2. apply Z.ltb_ge in H2. lia.
Qed.

Lemma inv0_add : forall cfg s m, Inv0 cfg s -> ~ In (m_tx m) (pool0 s) ->
  is_full0 cfg s (m_tx m) = false -> Inv0 cfg (add_tx0 s m).
Proof.
  intros cfg s m I Hn Hf. apply is_full0_false in Hf as [Hf1 Hf2]. destruct I.
  assert (Ep : pool0 (add_tx0 s m) = pool0 s ++ [m_tx m]).
  { unfold pool0, add_tx0. cbn [s_txs]. rewrite map_app. reflexivity. }
  constructor; rewrite ?Ep.
  - apply NoDup_snoc; assumption.
  - cbn [add_tx0 s_keys]. unfold store_key. rewrite i0_keys0.
    apply mem_tx_nIn in Hn. rewrite Hn. reflexivity.
  - cbn [add_tx0 s_bytes]. rewrite sum_sizes_app, i0_bytes0. cbn. unfold sum_sizes. cbn. lia.
  - cbn [add_tx0 s_txs]. rewrite app_length. cbn. lia.
  - cbn [add_tx0 s_bytes]. lia.
  - assumption.
Qed.

Lemma inv0_res_cb_first_time : forall cfg s t p v, Inv0 cfg s -> Inv0 cfg (res_cb_first_time cfg s t p v).
Proof.
  intros cfg s t p v I. unfold res_cb_first_time.
  destruct (accepted (s_post s) v).
  - destruct (is_full0 cfg s t) eqn:Ef.
    + apply inv0_set_cache; [assumption | apply cache_remove_ok; apply I].
    + destruct (mem_tx t (s_keys s)) eqn:Em.
      * apply inv0_record_sender; [assumption | apply I].
      * apply inv0_add; [assumption | | assumption]. cbn. apply mem_tx_nIn in Em.
        rewrite (i0_keys _ _ I) in Em. assumption.
  - destruct (cfg_keep_invalid cfg); [assumption|].
    apply inv0_set_cache; [assumption | apply cache_remove_ok; apply I].
Qed.

Lemma inv0_checktx : forall cfg s t p v, Inv0 cfg s -> Inv0 cfg (fst (fst (checktx0 cfg s t p v))).
Proof.
  intros cfg s t p v I. unfold checktx0.
  destruct (is_full0 cfg s t); [assumption|].
  destruct (tx_size t >? cfg_max_tx_bytes cfg); [assumption|].
  destruct (negb (precheck_ok (s_pre s) t)); [assumption|].
  pose proof (cache_push_ok (cfg_cache_size cfg) (s_cache s) t (i0_cache _ _ I)) as Hc.
  destruct (cache_push (cfg_cache_size cfg) (s_cache s) t) as [c' fresh]. cbn [fst] in Hc.
  destruct fresh; cbn [negb fst].
  - apply inv0_res_cb_first_time. apply inv0_set_cache; assumption.
  - destruct (mem_tx t (s_keys s)).
    + apply inv0_record_sender; assumption.
    + destruct I. constructor; cbn; assumption.
Qed.

Lemma inv0_flush : forall cfg s, Inv0 cfg s -> Inv0 cfg (flush0 s).
Proof.
  intros cfg s I. constructor; cbn; try lia; try reflexivity; [constructor | apply cache_ok_nil].
Qed.

Lemma inv0_remove_by_key : forall cfg s t, Inv0 cfg s -> Inv0 cfg (fst (remove_by_key0 s t)).
Proof.
  intros cfg s t I. unfold remove_by_key0. destruct (mem_tx t (s_keys s)) eqn:Em; cbn [fst]; [|assumption].
  apply inv0_remove; [assumption|]. apply mem_tx_In in Em. rewrite (i0_keys _ _ I) in Em. assumption.
Qed.

(* --- Update: the loop over the block *)

Lemma update_one0_pool : forall cfg s tc, Inv0 cfg s ->
  pool0 (update_one0 cfg s tc) = remove_tx (fst tc) (pool0 s).
Proof.
  intros cfg s [t code] I. unfold update_one0. cbn [fst].
  set (c := if code =? 0 then _ else _). cbn [set_cache0 s_keys].
  destruct (mem_tx t (s_keys s)) eqn:Em.
  - rewrite pool0_remove. reflexivity.
  - apply mem_tx_nIn in Em. rewrite (i0_keys _ _ I) in Em. rewrite remove_tx_notin by assumption. reflexivity.
Qed.

Lemma update_one0_cache : forall cfg s tc,
  s_cache (update_one0 cfg s tc) = cache_update_one cfg (s_cache s) tc.
Proof.
  intros cfg s [t code]. unfold update_one0, cache_update_one. cbn [fst snd].
  cbn [set_cache0 s_keys]. destruct (mem_tx t (s_keys s)); reflexivity.
Qed.

Lemma inv0_update_one : forall cfg s tc, Inv0 cfg s -> Inv0 cfg (update_one0 cfg s tc).
Proof.
  intros cfg s [t code] I. unfold update_one0.
  set (c := if code =? 0 then _ else _).
  assert (Hc : CacheOk (cfg_cache_size cfg) c).
  { subst c. destruct (code =? 0); [apply cache_push_ok; apply I|].
    destruct (cfg_keep_invalid cfg); [apply I | apply cache_remove_ok; apply I]. }
  pose proof (inv0_set_cache cfg s c I Hc) as I1.
  destruct (mem_tx t (s_keys (set_cache0 s c))) eqn:Em; [|assumption].
  apply inv0_remove; [assumption|]. apply mem_tx_In in Em.
  rewrite (i0_keys _ _ I1) in Em. assumption.
Qed.

Lemma inv0_update_fold : forall cfg blk s, Inv0 cfg s -> Inv0 cfg (fold_left (update_one0 cfg) blk s).
Proof. intros cfg blk. induction blk; intros s I; cbn; [assumption | apply IHblk, inv0_update_one, I]. Qed.

Fixpoint remove_all (l : list tx) (p : list tx) : list tx :=
  match l with [] => p | t :: r => remove_all r (remove_tx t p) end.

Lemma remove_all_filter : forall l p, remove_all l p = filter (fun x => negb (mem_tx x l)) p.
Proof.
  induction l as [|t l IH]; intro p; cbn [remove_all].
  - cbn. induction p; cbn; [reflexivity | f_equal; assumption].
  - rewrite IH. unfold remove_tx. clear IH. induction p as [|x p IHp]; [reflexivity|].
    cbn [filter mem_tx existsb]. rewrite (tx_eqb_sym x t).
    destruct (tx_eqb t x); cbn [negb orb filter]; [exact IHp|].
    fold (mem_tx x l). destruct (mem_tx x l); cbn [negb]; [exact IHp | f_equal; exact IHp].
Qed.

Lemma update_fold0_pool : forall cfg blk s, Inv0 cfg s ->
  pool0 (fold_left (update_one0 cfg) blk s) = remove_all (map fst blk) (pool0 s).
Proof.
  intros cfg blk. induction blk as [|tc blk IH]; intros s I; cbn [fold_left map remove_all]; [reflexivity|].
  rewrite IH by (apply inv0_update_one; assumption). rewrite update_one0_pool by assumption. reflexivity.
Qed.

Lemma update_fold0_cache : forall cfg blk s,
  s_cache (fold_left (update_one0 cfg) blk s) = fold_left (cache_update_one cfg) blk (s_cache s).
Proof.
  intros cfg blk. induction blk as [|tc blk IH]; intro s; cbn [fold_left]; [reflexivity|].
  rewrite IH, update_one0_cache. reflexivity.
Qed.

Lemma update_fold0_post : forall cfg blk s, s_post (fold_left (update_one0 cfg) blk s) = s_post s.
Proof.
  intros cfg blk. induction blk as [|[t code] blk IH]; intro s; cbn [fold_left]; [reflexivity|].
  rewrite IH. unfold update_one0. cbn [set_cache0 s_keys].
  destruct (mem_tx t (s_keys s)); reflexivity.
Qed.

(* --- recheck: the cursor walk is in lock-step with the requests *)

Definition recheck_step (cfg : config) (rv : list (tx * appres)) (s : state0) (t : tx) : state0 :=
  if accepted (s_post s) (lookup_res rv t) then s else remove_tx0 s t (negb (cfg_keep_invalid cfg)).

Lemma recheck_loop_lockstep : forall cfg rv rest done s,
  recheck_loop cfg rv (map m_tx rest) s (Some (done, rest)) = fold_left (recheck_step cfg rv) (map m_tx rest) s.
Proof.
  intros cfg rv. induction rest as [|m rest IH]; intros done s; [reflexivity|].
  cbn [map recheck_loop fold_left]. unfold res_cb_recheck. cbn [recheck_walk].
  rewrite tx_eqb_refl. unfold recheck_step at 2.
  destruct (accepted (s_post s) (lookup_res rv (m_tx m))).
  - destruct rest as [|m' rest]; [reflexivity|]. apply IH.
  - destruct rest as [|m' rest]; [reflexivity|]. apply IH.
Qed.

Lemma recheck0_fold : forall cfg rv s, recheck0 cfg rv s = fold_left (recheck_step cfg rv) (pool0 s) s.
Proof. intros. unfold recheck0, pool0. apply recheck_loop_lockstep. Qed.

Lemma recheck_step_post : forall cfg rv s t, s_post (recheck_step cfg rv s t) = s_post s.
Proof. intros. unfold recheck_step. destruct (accepted _ _); reflexivity. Qed.

Lemma recheck_fold_post : forall cfg rv l s, s_post (fold_left (recheck_step cfg rv) l s) = s_post s.
Proof.
  intros cfg rv. induction l as [|t l IH]; intro s; cbn [fold_left]; [reflexivity|].
  rewrite IH. apply recheck_step_post.
Qed.

Lemma recheck_fold_pool : forall cfg rv l s,
  pool0 (fold_left (recheck_step cfg rv) l s) =
  filter (fun x => negb (mem_tx x l) || accepted (s_post s) (lookup_res rv x)) (pool0 s).
Proof.
  intros cfg rv. induction l as [|t l IH]; intro s; cbn [fold_left].
  - cbn. induction (pool0 s); cbn; [reflexivity | f_equal; assumption].
  - rewrite IH, recheck_step_post. unfold recheck_step.
    destruct (accepted (s_post s) (lookup_res rv t)) eqn:Ea.
    + apply filter_ext. intro x. cbn [mem_tx existsb]. fold (mem_tx x l).
      destruct (tx_eqb x t) eqn:E; [|reflexivity].
      apply tx_eqb_eq in E. subst x. rewrite Ea. rewrite !orb_true_r. reflexivity.
    + rewrite pool0_remove. unfold remove_tx. generalize (pool0 s). intro p.
      induction p as [|x p IHp]; [reflexivity|].
      cbn [filter mem_tx existsb]. fold (mem_tx x l). rewrite (tx_eqb_sym x t).
      destruct (tx_eqb t x) eqn:E; cbn [negb orb].
      * apply tx_eqb_eq in E. subst x. rewrite Ea. cbn. exact IHp.
      * cbn [filter]. destruct (negb (mem_tx x l) || accepted (s_post s) (lookup_res rv x)); [f_equal|]; exact IHp.
Qed.

Lemma recheck0_pool : forall cfg rv s,
  pool0 (recheck0 cfg rv s) = filter (fun x => accepted (s_post s) (lookup_res rv x)) (pool0 s).
Proof.
  intros. rewrite recheck0_fold, recheck_fold_pool. apply filter_ext_in.
  intros x Hx. apply mem_tx_In in Hx. rewrite Hx. reflexivity.
Qed.

Lemma inv0_recheck_fold : forall cfg rv l s, Inv0 cfg s -> NoDup l -> incl l (pool0 s) ->
  Inv0 cfg (fold_left (recheck_step cfg rv) l s).
Proof.
  intros cfg rv. induction l as [|t l IH]; intros s I ND Hin; cbn [fold_left]; [assumption|].
  inversion ND; subst. apply IH; [| assumption |].
  - unfold recheck_step. destruct (accepted _ _); [assumption|].
    apply inv0_remove; [assumption | apply Hin; left; reflexivity].
  - intros x Hx. unfold recheck_step. destruct (accepted _ _).
    + apply Hin. right. assumption.
    + rewrite pool0_remove. apply In_remove_tx. split; [apply Hin; right; assumption|].
      intro. subst. contradiction.
Qed.

Lemma inv0_recheck : forall cfg rv s, Inv0 cfg s -> Inv0 cfg (recheck0 cfg rv s).
Proof.
  intros. rewrite recheck0_fold. apply inv0_recheck_fold; [assumption | apply H | apply incl_refl].
Qed.

Lemma recheck_fold_cache_keeps : forall cfg rv l s t,
  ~ In t l -> In t (s_cache s) -> In t (s_cache (fold_left (recheck_step cfg rv) l s)).
Proof.
  intros cfg rv. induction l as [|x l IH]; intros s t Hn Hc; cbn [fold_left]; [assumption|].
  apply IH; [intro; apply Hn; right; assumption|].
  unfold recheck_step. destruct (accepted _ _); [assumption|].
  cbn [remove_tx0 s_cache]. destruct (negb (cfg_keep_invalid cfg)); [|assumption].
  apply In_remove_tx. split; [assumption|]. intro. subst. apply Hn. left. reflexivity.
Qed.

(* --- Update as a whole *)

Definition upd_state0 (s : state0) (h : Z) (pre post : option (option Z)) : state0 :=
  {| s_cache := s_cache s; s_txs := s_txs s; s_keys := s_keys s; s_bytes := s_bytes s;
     s_height := h; s_pre := set_checks (s_pre s) pre; s_post := set_checks (s_post s) post |}.

Lemma inv0_upd_state : forall cfg s h pre post, Inv0 cfg s -> Inv0 cfg (upd_state0 s h pre post).
Proof. intros cfg s h pre post []. constructor; cbn; assumption. Qed.

Lemma update0_unfold : forall cfg s h blk pre post rv,
  update0 cfg s h blk pre post rv =
  let s2 := fold_left (update_one0 cfg) blk (upd_state0 s h pre post) in
  match s_txs s2 with [] => s2 | _ => if cfg_recheck cfg then recheck0 cfg rv s2 else s2 end.
Proof. reflexivity. Qed.

Lemma inv0_update : forall cfg s h blk pre post rv, Inv0 cfg s -> Inv0 cfg (update0 cfg s h blk pre post rv).
Proof.
  intros. rewrite update0_unfold. cbv zeta.
  pose proof (inv0_update_fold cfg blk _ (inv0_upd_state cfg s h pre post H)) as I2.
  destruct (s_txs _); [assumption|]. destruct (cfg_recheck cfg); [apply inv0_recheck|]; assumption.
Qed.

(* the pool after Update: the block's transactions are gone, and with recheck exactly the
   accepted ones of the rest remain, in their old order *)
Lemma update0_pool : forall cfg s h blk pre post rv, Inv0 cfg s ->
  pool0 (update0 cfg s h blk pre post rv) =
  filter (fun t => negb (cfg_recheck cfg) || accepted (set_checks (s_post s) post) (lookup_res rv t))
         (filter (fun t => negb (mem_tx t (map fst blk))) (pool0 s)).
Proof.
  intros cfg s h blk pre post rv I. rewrite update0_unfold. cbv zeta.
  set (s2 := fold_left (update_one0 cfg) blk (upd_state0 s h pre post)).
  assert (E2 : pool0 s2 = filter (fun t => negb (mem_tx t (map fst blk))) (pool0 s)).
  { subst s2. rewrite update_fold0_pool by (apply inv0_upd_state; assumption).
    rewrite remove_all_filter. reflexivity. }
  assert (Ep : s_post s2 = set_checks (s_post s) post).
  { subst s2. rewrite update_fold0_post. reflexivity. }
  rewrite <- E2.
  destruct (cfg_recheck cfg); cbn [negb orb].
  - destruct (s_txs s2) eqn:Et.
    + unfold pool0. rewrite Et. reflexivity.
    + rewrite recheck0_pool, Ep. reflexivity.
  - assert (forall l : list tx, filter (fun _ => true) l = l) as Ft
      by (induction l; cbn; [reflexivity | f_equal; assumption]).
    rewrite Ft. destruct (s_txs s2); reflexivity.
Qed.

Lemma update0_cache_remembers : forall cfg s h blk pre post rv t, Inv0 cfg s ->
  0 < cfg_cache_size cfg -> Z.of_nat (length blk) <= cfg_cache_size cfg ->
  In t (map fst blk) -> (forall code, In (t, code) blk -> code = 0) ->
  In t (s_cache (update0 cfg s h blk pre post rv)).
Proof.
  intros cfg s h blk pre post rv t I Hc Hl Hin Hall. rewrite update0_unfold. cbv zeta.
  set (s2 := fold_left (update_one0 cfg) blk (upd_state0 s h pre post)).
  assert (Hc2 : In t (s_cache s2)).
  { subst s2. rewrite update_fold0_cache. apply cache_update_remembers; assumption. }
  assert (Hn : ~ In t (pool0 s2)).
  { subst s2. rewrite update_fold0_pool by (apply inv0_upd_state; assumption).
    rewrite remove_all_filter, filter_In. intros [_ H]. apply mem_tx_In in Hin. rewrite Hin in H. discriminate. }
  destruct (s_txs s2); [assumption|]. destruct (cfg_recheck cfg); [|assumption].
  rewrite recheck0_fold. apply recheck_fold_cache_keeps; assumption.
Qed.

(* --- histories *)

Lemma inv0_step : forall cfg s o, Inv0 cfg s -> Inv0 cfg (step0 cfg s o).
Proof.
  intros cfg s o I. destruct o; cbn [step0].
  - apply inv0_checktx. assumption.
  - apply inv0_update. assumption.
  - apply inv0_flush. assumption.
  - apply inv0_remove_by_key. assumption.
Qed.

Lemma inv0_run : forall cfg ops s, Inv0 cfg s -> Inv0 cfg (run0 cfg s ops).
Proof.
  intros cfg ops. unfold run0. induction ops as [|o ops IH]; intros s I; cbn [fold_left]; [assumption|].
  apply IH. apply inv0_step. assumption.
Qed.

(* a remembered transaction is refused and does not change the pool *)
Lemma checktx0_remembered : forall cfg s t p v, Inv0 cfg s -> In t (s_cache s) ->
  pool0 (fst (fst (checktx0 cfg s t p v))) = pool0 s /\
  snd (fst (checktx0 cfg s t p v)) <> ENone /\ snd (checktx0 cfg s t p v) = false.
Proof.
  intros cfg s t p v I Hc. unfold checktx0.
  destruct (is_full0 cfg s t); [cbn; repeat split; discriminate|].
  destruct (tx_size t >? cfg_max_tx_bytes cfg); [cbn; repeat split; discriminate|].
  destruct (negb (precheck_ok (s_pre s) t)); [cbn; repeat split; discriminate|].
  assert (Hcap : 0 < cfg_cache_size cfg).
  { destruct (i0_cache _ _ I) as [_ [Hz _]]. destruct (Z_lt_le_dec 0 (cfg_cache_size cfg)); [assumption|].
    rewrite (Hz l) in Hc. contradiction. }
  pose proof (proj2 (cache_push_fresh_false (cfg_cache_size cfg) (s_cache s) t) (conj Hcap Hc)) as Hf.
  destruct (cache_push (cfg_cache_size cfg) (s_cache s) t) as [c' fresh]. cbn [snd] in Hf. subst fresh.
  cbn [negb fst snd]. repeat split; try discriminate.
  unfold pool0. cbn [s_txs]. destruct (mem_tx t (s_keys s)); [apply record_sender0_keys | reflexivity].
Qed.

(* CheckTx only ever appends the submitted transaction (arrival order) *)
Lemma checktx0_pool : forall cfg s t p v, Inv0 cfg s ->
  let s' := fst (fst (checktx0 cfg s t p v)) in
  pool0 s' = pool0 s \/ (pool0 s' = pool0 s ++ [t] /\ ~ In t (pool0 s)).
Proof.
  intros cfg s t p v I. cbv zeta. unfold checktx0.
  destruct (is_full0 cfg s t); [left; reflexivity|].
  destruct (tx_size t >? cfg_max_tx_bytes cfg); [left; reflexivity|].
  destruct (negb (precheck_ok (s_pre s) t)); [left; reflexivity|].
  destruct (cache_push (cfg_cache_size cfg) (s_cache s) t) as [c' fresh].
  destruct fresh; cbn [negb fst].
  - unfold res_cb_first_time. cbn [set_cache0 s_post s_keys s_cache].
    destruct (accepted (s_post s) v).
    + destruct (is_full0 cfg (set_cache0 s c') t); [left; reflexivity|].
      destruct (mem_tx t (s_keys s)) eqn:Em.
      * left. unfold pool0. cbn [s_txs set_cache0]. apply record_sender0_keys.
      * right. split.
        -- unfold pool0, add_tx0. cbn [s_txs set_cache0 m_tx]. rewrite map_app. reflexivity.
        -- apply mem_tx_nIn in Em. rewrite (i0_keys _ _ I) in Em. assumption.
    + destruct (cfg_keep_invalid cfg); left; reflexivity.
  - left. unfold pool0. cbn [s_txs]. destruct (mem_tx t (s_keys s)); [apply record_sender0_keys | reflexivity].
Qed.

(* --- reaping *)

Definition within (max_bytes max_gas : Z) (bs gs : Z) : Prop :=
  (max_bytes < 0 \/ bs <= max_bytes) /\ (max_gas < 0 \/ gs <= max_gas).

Definition sum_proto {A} (txof : A -> tx) (l : list A) : Z :=
  fold_right (fun m a => proto_size (txof m) + a) 0 l.
Definition sum_gas {A} (gasof : A -> Z) (l : list A) : Z :=
  fold_right (fun m a => gasof m + a) 0 l.

Lemma sum_proto_cons : forall {A} (txof : A -> tx) m l,
  sum_proto txof (m :: l) = proto_size (txof m) + sum_proto txof l.
Proof. reflexivity. Qed.
Lemma sum_gas_cons : forall {A} (gasof : A -> Z) m l, sum_gas gasof (m :: l) = gasof m + sum_gas gasof l.
Proof. reflexivity. Qed.

Lemma reap_bytes_gas_prefix : forall {A} (txof : A -> tx) (gasof : A -> Z) mb mg (l : list A) bs gs,
  exists k, (k <= length l)%nat /\
    reap_bytes_gas txof gasof mb mg bs gs l = map txof (firstn k l) /\
    (forall j, (1 <= j <= k)%nat ->
       within mb mg (bs + sum_proto txof (firstn j l)) (gs + sum_gas gasof (firstn j l))) /\
    ((k < length l)%nat ->
       ~ within mb mg (bs + sum_proto txof (firstn (S k) l)) (gs + sum_gas gasof (firstn (S k) l))).
Proof.
  intros A txof gasof mb mg. induction l as [|m l IH]; intros bs gs.
  - exists 0%nat. cbn. repeat split; try lia.
  - cbn [reap_bytes_gas].
    destruct ((mb >? -1) && (bs + proto_size (txof m) >? mb)) eqn:E1.
    { exists 0%nat. cbn [firstn map length]. repeat split; try lia.
      intros _ [[H|H] _]; cbn in H; apply andb_true_iff in E1 as [Ea Eb];
        rewrite Z.gtb_ltb in Ea, Eb; apply Z.ltb_lt in Ea, Eb; cbn in *; lia. }
    destruct ((mg >? -1) && (gs + gasof m >? mg)) eqn:E2.
    { exists 0%nat. cbn [firstn map length]. repeat split; try lia.
      intros _ [_ [H|H]]; cbn in H; apply andb_true_iff in E2 as [Ea Eb];
        rewrite Z.gtb_ltb in Ea, Eb; apply Z.ltb_lt in Ea, Eb; cbn in *; lia. }
    destruct (IH (bs + proto_size (txof m)) (gs + gasof m)) as [k [Hk [Er [Hw Hn]]]].
    exists (S k). cbn [length firstn map]. split; [lia|]. split; [rewrite Er; reflexivity|]. split.
    + intros j Hj. destruct j as [|j]; [lia|]. cbn [firstn]. rewrite sum_proto_cons, sum_gas_cons.
      destruct j as [|j].
      * cbn [firstn]. unfold within, sum_proto, sum_gas. cbn [fold_right].
        apply andb_false_iff in E1. apply andb_false_iff in E2.
        rewrite !Z.gtb_ltb, !Z.ltb_ge in E1, E2. lia.
      * rewrite !Z.add_assoc. apply Hw. lia.
    + intro Hlt. assert (Hlt' : (k < length l)%nat) by lia. specialize (Hn Hlt').
      change (firstn (S (S k)) (m :: l)) with (m :: firstn (S k) l).
      rewrite sum_proto_cons, sum_gas_cons, !Z.add_assoc. exact Hn.
Qed.

Lemma reap_max_txs0_spec : forall s n,
  (n < 0 -> reap_max_txs0 s n = pool0 s) /\
  (0 <= n -> reap_max_txs0 s n = firstn (Z.to_nat n) (pool0 s) /\
             Z.of_nat (length (reap_max_txs0 s n)) = Z.min n (Z.of_nat (length (pool0 s)))).
Proof.
  intros s n. unfold reap_max_txs0. split; intro H.
  - assert (E : (n <? 0) = true) by (apply Z.ltb_lt; assumption). rewrite E.
    rewrite Nat2Z.id. rewrite <- pool0_length. apply firstn_all.
  - assert (E : (n <? 0) = false) by (apply Z.ltb_ge; assumption). rewrite E.
    split; [reflexivity|]. rewrite firstn_length. lia.
Qed.

(* =================================================================== v1 *)

Definition senders_of (l : list wtx) : list N :=
  filter (fun a => negb (a =? 0)%N) (map w_sender l).

Record Inv1 (cfg : config) (s : state1) : Prop := {
  i1_nodup : NoDup (pool1 s);
  i1_keys : t_keys s = pool1 s;
  i1_senders : t_senders s = senders_of (t_txs s);
  i1_snodup : NoDup (t_senders s);
  i1_bytes : t_bytes s = sum_sizes (pool1 s);
  i1_count : Z.of_nat (length (t_txs s)) <= Z.max 0 (cfg_size cfg);
  i1_maxb : t_bytes s <= Z.max 0 (cfg_max_txs_bytes cfg);
  i1_cache : CacheOk (cfg_cache_size cfg) (t_cache s)
}.

Lemma inv1_init : forall cfg h pre post, Inv1 cfg (init1 h pre post).
Proof.
  intros. constructor; cbn; try lia; try reflexivity; try (constructor; fail). apply cache_ok_nil.
Qed.

Lemma pool1_length : forall s, length (pool1 s) = length (t_txs s).
Proof. intro. unfold pool1. apply map_length. Qed.

Lemma inv1_set_cache : forall cfg s c, Inv1 cfg s -> CacheOk (cfg_cache_size cfg) c ->
  Inv1 cfg (set_cache1 s c).
Proof. intros cfg s c [] H. constructor; cbn; assumption. Qed.

Lemma inv1_tick : forall cfg s, Inv1 cfg s -> Inv1 cfg (tick1 s).
Proof. intros cfg s []. constructor; cbn; assumption. Qed.

(* maps that keep key and sender of every element *)
Lemma inv1_set_txs_map : forall cfg s (f : wtx -> wtx),
  (forall w, w_tx (f w) = w_tx w) -> (forall w, w_sender (f w) = w_sender w) ->
  Inv1 cfg s -> Inv1 cfg (set_txs1 s (map f (t_txs s))).
Proof.
  intros cfg s f Hk Hs [].
  assert (Ek : map w_tx (map f (t_txs s)) = map w_tx (t_txs s)).
  { rewrite map_map. apply map_ext. assumption. }
  assert (Es : map w_sender (map f (t_txs s)) = map w_sender (t_txs s)).
  { rewrite map_map. apply map_ext. assumption. }
  constructor; unfold pool1, senders_of in *; cbn [set_txs1 t_txs t_keys t_senders t_bytes t_cache];
    rewrite ?Ek, ?Es; try assumption.
  rewrite map_length. assumption.
Qed.

Lemma record_peer1_map : forall t p l, record_peer1 t p l =
  map (fun w => if tx_eqb t (w_tx w)
                then {| w_tx := w_tx w; w_gas := w_gas w; w_prio := w_prio w;
                        w_sender := w_sender w; w_stamp := w_stamp w; w_height := w_height w;
                        w_peers := add_sender p (w_peers w) |}
                else w) l.
Proof. reflexivity. Qed.

Lemma inv1_record_peer : forall cfg s t p, Inv1 cfg s -> Inv1 cfg (set_txs1 s (record_peer1 t p (t_txs s))).
Proof.
  intros. rewrite record_peer1_map. apply inv1_set_txs_map; [| |assumption];
    intro w; destruct (tx_eqb t (w_tx w)); reflexivity.
Qed.

Lemma pool1_record_peer : forall t p l, map w_tx (record_peer1 t p l) = map w_tx l.
Proof.
  intros. unfold record_peer1. rewrite map_map. apply map_ext. intro w.
  destruct (tx_eqb t (w_tx w)); reflexivity.
Qed.

Lemma inv1_set_prio : forall cfg s t p, Inv1 cfg s -> Inv1 cfg (set_txs1 s (set_prio1 t p (t_txs s))).
Proof.
  intros. unfold set_prio1. apply inv1_set_txs_map; [| |assumption];
    intro w; destruct (tx_eqb t (w_tx w)); reflexivity.
Qed.

Lemma pool1_set_prio : forall t p l, map w_tx (set_prio1 t p l) = map w_tx l.
Proof.
  intros. unfold set_prio1. rewrite map_map. apply map_ext. intro w.
  destruct (tx_eqb t (w_tx w)); reflexivity.
Qed.

(* --- removal of one element *)

Lemma NoDup_map_inj_in : forall {A B} (f : A -> B) (l : list A) a b,
  NoDup (map f l) -> In a l -> In b l -> f a = f b -> a = b.
Proof.
  intros A B f l. induction l as [|x l IH]; intros a b ND Ha Hb E; [contradiction|].
  cbn in ND. inversion ND as [|? ? Hx ND']; subst.
  destruct Ha as [->|Ha], Hb as [->|Hb].
  - reflexivity.
  - exfalso. apply Hx. rewrite E. apply in_map. assumption.
  - exfalso. apply Hx. rewrite <- E. apply in_map. assumption.
  - apply IH; assumption.
Qed.

Lemma remove_sender_notin : forall a l, ~ In a l -> remove_sender a l = l.
Proof.
  intros a l. induction l as [|x l IH]; intro H; [reflexivity|]. cbn.
  destruct (N.eqb a x) eqn:E.
  - apply N.eqb_eq in E. subst. exfalso. apply H. left. reflexivity.
  - cbn. f_equal. apply IH. intro. apply H. right. assumption.
Qed.

Lemma senders_of_nozero : forall l, ~ In 0%N (senders_of l).
Proof. intros l H. unfold senders_of in H. apply filter_In in H as [_ H]. discriminate. Qed.

Lemma senders_of_cons : forall x l,
  senders_of (x :: l) = if (w_sender x =? 0)%N then senders_of l else w_sender x :: senders_of l.
Proof. intros. unfold senders_of. cbn. destruct (w_sender x =? 0)%N; reflexivity. Qed.

Lemma filter_key_notin : forall k (l : list wtx), ~ In k (map w_tx l) ->
  filter (fun x => negb (tx_eqb k (w_tx x))) l = l.
Proof.
  intros k l. induction l as [|x l IH]; intro H; [reflexivity|]. cbn.
  destruct (tx_eqb k (w_tx x)) eqn:E.
  - apply tx_eqb_eq in E. exfalso. apply H. left. symmetry. assumption.
  - cbn. f_equal. apply IH. intro. apply H. right. assumption.
Qed.

Lemma senders_of_remove : forall (l : list wtx) w,
  NoDup (map w_tx l) -> NoDup (senders_of l) -> In w l ->
  senders_of (filter (fun x => negb (tx_eqb (w_tx w) (w_tx x))) l) = remove_sender (w_sender w) (senders_of l).
Proof.
  induction l as [|x l IH]; intros w NDk NDs Hw; [contradiction|].
  cbn [map] in NDk. inversion NDk as [|? ? Hxk NDk']; subst.
  rewrite senders_of_cons in NDs. cbn [filter].
  destruct (tx_eqb (w_tx w) (w_tx x)) eqn:E; cbn [negb].
  - apply tx_eqb_eq in E.
    assert (w = x).
    { destruct Hw as [Hw|Hw]; [congruence|]. exfalso. apply Hxk. rewrite <- E. apply in_map. assumption. }
    subst w. rewrite filter_key_notin by assumption. rewrite senders_of_cons.
    destruct (w_sender x =? 0)%N eqn:Ez.
    + apply N.eqb_eq in Ez. rewrite Ez. symmetry. apply remove_sender_notin. apply senders_of_nozero.
    + inversion NDs; subst. cbn. rewrite N.eqb_refl. cbn. fold (remove_sender (w_sender x) (senders_of l)).
      symmetry. apply remove_sender_notin. assumption.
  - apply tx_eqb_neq in E. destruct Hw as [Hw|Hw]; [congruence|].
    rewrite !senders_of_cons.
    destruct (w_sender x =? 0)%N eqn:Ez.
    + apply IH; assumption.
    + inversion NDs; subst. cbn [remove_sender filter].
      destruct (w_sender w =? w_sender x)%N eqn:Es.
      * exfalso. apply N.eqb_eq in Es. apply H1. rewrite <- Es.
        unfold senders_of. apply filter_In. split; [apply in_map; assumption|].
        rewrite Es, Ez. reflexivity.
      * cbn [negb]. f_equal. apply IH; assumption.
Qed.

Lemma pool1_remove : forall s w, pool1 (remove_wtx1 s w) = remove_tx (w_tx w) (pool1 s).
Proof. intros. unfold pool1, remove_wtx1. cbn [t_txs]. apply map_filter_key. Qed.

Lemma remove_sender_NoDup : forall a l, NoDup l -> NoDup (remove_sender a l).
Proof. intros. apply NoDup_filter. assumption. Qed.

Lemma inv1_remove : forall cfg s w, Inv1 cfg s -> In w (t_txs s) -> Inv1 cfg (remove_wtx1 s w).
Proof.
  intros cfg s w I Hw. pose proof (pool1_remove s w) as Ep.
  assert (Hk : In (w_tx w) (pool1 s)) by (apply in_map; assumption).
  destruct I. constructor; rewrite ?Ep.
  - apply NoDup_remove_tx. assumption.
  - cbn [remove_wtx1 t_keys]. rewrite i1_keys0. reflexivity.
  - cbn [remove_wtx1 t_senders t_txs]. rewrite senders_of_remove; try assumption.
    + rewrite i1_senders0. reflexivity.
    + rewrite <- i1_senders0. assumption.
  - cbn [remove_wtx1 t_senders]. apply remove_sender_NoDup. assumption.
  - cbn [remove_wtx1 t_bytes]. rewrite sum_sizes_remove by assumption. lia.
  - rewrite <- pool1_length, Ep. pose proof (remove_tx_length (w_tx w) (pool1 s)).
    rewrite pool1_length in H. lia.
  - cbn [remove_wtx1 t_bytes]. pose proof (tx_size_nonneg (w_tx w)). lia.
  - assumption.
Qed.

Lemma find_wtx_some : forall t l w, find_wtx t l = Some w -> In w l /\ w_tx w = t.
Proof.
  intros t l. induction l as [|x l IH]; intros w H; [discriminate|]. cbn in H.
  destruct (tx_eqb t (w_tx x)) eqn:E.
  - injection H as <-. apply tx_eqb_eq in E. split; [left; reflexivity | congruence].
  - destruct (IH _ H). split; [right|]; assumption.
Qed.

Lemma find_wtx_none : forall t l, find_wtx t l = None -> ~ In t (map w_tx l).
Proof.
  intros t l. induction l as [|x l IH]; intros H; [intros []|]. cbn in H.
  destruct (tx_eqb t (w_tx x)) eqn:E; [discriminate|]. apply tx_eqb_neq in E.
  intros [H'|H']; [congruence | exact (IH H H')].
Qed.

Lemma inv1_remove_by_key : forall cfg s t, Inv1 cfg s -> Inv1 cfg (fst (remove_by_key1 s t)).
Proof.
  intros cfg s t I. unfold remove_by_key1. destruct (mem_tx t (t_keys s)); [|assumption].
  destruct (find_wtx t (t_txs s)) eqn:Ef; [|assumption]. cbn [fst].
  apply find_wtx_some in Ef as [Hw _]. apply inv1_remove; assumption.
Qed.

Lemma pool1_remove_by_key : forall cfg s t, Inv1 cfg s ->
  pool1 (fst (remove_by_key1 s t)) = remove_tx t (pool1 s).
Proof.
  intros cfg s t I. unfold remove_by_key1. destruct (mem_tx t (t_keys s)) eqn:Em.
  - destruct (find_wtx t (t_txs s)) eqn:Ef; cbn [fst].
    + apply find_wtx_some in Ef as [_ <-]. apply pool1_remove.
    + apply find_wtx_none in Ef. rewrite remove_tx_notin; [reflexivity | assumption].
  - cbn [fst]. apply mem_tx_nIn in Em. rewrite (i1_keys _ _ I) in Em.
    rewrite remove_tx_notin; [reflexivity | assumption].
Qed.

(* --- eviction *)

Lemma inv1_evict_one : forall cfg s w, Inv1 cfg s -> In w (t_txs s) -> Inv1 cfg (evict_one1 s w).
Proof.
  intros. unfold evict_one1. apply inv1_set_cache; [apply inv1_remove; assumption|].
  apply cache_remove_ok. cbn. apply H.
Qed.

Lemma pool1_evict_one : forall s w, pool1 (evict_one1 s w) = remove_tx (w_tx w) (pool1 s).
Proof. intros. unfold evict_one1. unfold pool1 at 1. cbn [set_cache1 t_txs]. apply pool1_remove. Qed.

Lemma txs_evict_one : forall s w,
  t_txs (evict_one1 s w) = filter (fun x => negb (tx_eqb (w_tx w) (w_tx x))) (t_txs s).
Proof. reflexivity. Qed.

Lemma inv1_evict_fold : forall cfg vs s, Inv1 cfg s -> NoDup (map w_tx vs) -> incl vs (t_txs s) ->
  Inv1 cfg (fold_left evict_one1 vs s).
Proof.
  intros cfg. induction vs as [|w vs IH]; intros s I ND Hin; cbn [fold_left]; [assumption|].
  cbn [map] in ND. inversion ND; subst. apply IH; [| assumption |].
  - apply inv1_evict_one; [assumption | apply Hin; left; reflexivity].
  - intros x Hx. rewrite txs_evict_one. apply filter_In. split; [apply Hin; right; assumption|].
    apply negb_true_iff. apply tx_eqb_neq. intro E. apply H1. rewrite E. apply in_map. assumption.
Qed.

Lemma pool1_evict_fold : forall vs s,
  pool1 (fold_left evict_one1 vs s) = remove_all (map w_tx vs) (pool1 s).
Proof.
  induction vs as [|w vs IH]; intro s; cbn [fold_left map remove_all]; [reflexivity|].
  rewrite IH, pool1_evict_one. reflexivity.
Qed.

Lemma bytes_evict_fold : forall vs s,
  t_bytes (fold_left evict_one1 vs s) = t_bytes s - sum_sizes (map w_tx vs).
Proof.
  induction vs as [|w vs IH]; intro s; cbn [fold_left map].
  - change (sum_sizes []) with 0. lia.
  - rewrite IH, sum_sizes_cons. cbn [evict_one1 set_cache1 remove_wtx1 t_bytes]. lia.
Qed.

Lemma senders_evict_fold : forall vs s a,
  In a (t_senders (fold_left evict_one1 vs s)) -> In a (t_senders s).
Proof.
  induction vs as [|w vs IH]; intros s a H; cbn [fold_left] in H; [assumption|].
  apply IH in H. cbn in H. unfold remove_sender in H. apply filter_In in H as [H _]. assumption.
Qed.

Lemma keys_evict_fold : forall vs s t,
  In t (t_keys (fold_left evict_one1 vs s)) -> In t (t_keys s).
Proof.
  induction vs as [|w vs IH]; intros s t H; cbn [fold_left] in H; [assumption|].
  apply IH in H. cbn in H. apply In_remove_tx in H as [H _]. assumption.
Qed.

Lemma length_evict_fold : forall vs s,
  (length (t_txs (fold_left evict_one1 vs s)) <= length (t_txs s))%nat.
Proof.
  induction vs as [|w vs IH]; intro s; cbn [fold_left]; [lia|].
  etransitivity; [apply IH|]. rewrite txs_evict_one. apply filter_length_le.
Qed.

Lemma filter_length_lt : forall {A} (f : A -> bool) l x, In x l -> f x = false ->
  (length (filter f l) < length l)%nat.
Proof.
  intros A f l. induction l as [|y l IH]; intros x Hx Hf; [contradiction|]. cbn.
  destruct Hx as [->|Hx].
  - rewrite Hf. pose proof (filter_length_le f l). lia.
  - specialize (IH x Hx Hf). destruct (f y); cbn; lia.
Qed.

Lemma length_evict_fold_lt : forall vs s w, In w (t_txs s) ->
  (length (t_txs (fold_left evict_one1 (w :: vs) s)) < length (t_txs s))%nat.
Proof.
  intros vs s w Hw. cbn [fold_left]. eapply Nat.le_lt_trans; [apply length_evict_fold|].
  rewrite txs_evict_one. eapply filter_length_lt; [exact Hw|]. rewrite tx_eqb_refl. reflexivity.
Qed.

Lemma In_insert_by : forall {A} (before : A -> A -> bool) x y l,
  In y (insert_by before x l) <-> y = x \/ In y l.
Proof.
  intros A before x y l. induction l as [|z l IH]; cbn.
  - split; [intros [H|[]]; left; congruence | intros [H|[]]; left; congruence].
  - destruct (before z x); cbn; rewrite ?IH; intuition congruence.
Qed.

Lemma insert_by_perm : forall {A} (before : A -> A -> bool) x l, Permutation (insert_by before x l) (x :: l).
Proof.
  intros A before x l. induction l as [|z l IH]; cbn; [reflexivity|].
  destruct (before z x); [|reflexivity].
  etransitivity; [apply perm_skip, IH|]. apply perm_swap.
Qed.

Lemma sort_by_perm : forall {A} (before : A -> A -> bool) l, Permutation (sort_by before l) l.
Proof.
  intros A before l. induction l as [|x l IH]; cbn; [reflexivity|].
  etransitivity; [apply insert_by_perm|]. apply perm_skip. exact IH.
Qed.

Lemma sum_sizes_perm : forall a b, Permutation a b -> sum_sizes a = sum_sizes b.
Proof.
  intros a b P. induction P; rewrite ?sum_sizes_cons in *; try lia; try reflexivity.
Qed.

Lemma evict_loop_incl : forall need vs e w, In w (evict_loop need e vs) -> In w vs.
Proof.
  intros need. induction vs as [|x vs IH]; intros e w H; [contradiction|]. cbn in H.
  destruct (e + tx_size (w_tx x) >=? need).
  - destruct H as [<-|[]]. left. reflexivity.
  - destruct H as [<-|H]; [left; reflexivity | right; eapply IH; eassumption].
Qed.

Lemma evict_loop_prefix : forall need vs e, exists k, evict_loop need e vs = firstn k vs.
Proof.
  intros need. induction vs as [|x vs IH]; intro e; [exists 0%nat; reflexivity|]. cbn.
  destruct (e + tx_size (w_tx x) >=? need).
  - exists 1%nat. reflexivity.
  - destruct (IH (e + tx_size (w_tx x))) as [k ->]. exists (S k). reflexivity.
Qed.

Lemma In_firstn_incl : forall {A} k (l : list A) x, In x (firstn k l) -> In x l.
Proof.
  intros A k. induction k as [|k IH]; intros l x H; [contradiction|]. destruct l as [|y l]; [contradiction|].
  cbn in H. destruct H as [->|H]; [left; reflexivity | right; apply IH; assumption].
Qed.

Lemma NoDup_firstn : forall {A} k (l : list A), NoDup l -> NoDup (firstn k l).
Proof.
  intros A k. induction k as [|k IH]; intros l ND; [constructor|]. destruct l as [|x l]; [constructor|].
  cbn. inversion ND; subst. constructor; [|apply IH; assumption].
  intro H. apply H1. eapply In_firstn_incl. exact H.
Qed.
