(* C12 — lemmas and proofs about the mempool models (C12/Model.v). *)
From Coq Require Import List ZArith NArith Bool Lia Permutation.
From TM Require Import Common.Hex Generated.Consts C12.Model.
Import ListNotations.
Open Scope Z_scope.

(* ------------------------------------------------------------------ lists of transactions *)

Lemma tx_eqb_eq : forall a b, tx_eqb a b = true <-> a = b.
Proof. exact bytes_eqb_eq. Qed.
Lemma tx_eqb_refl : forall a, tx_eqb a a = true.
Proof. exact bytes_eqb_refl. Qed.
Lemma tx_eqb_neq : forall a b, tx_eqb a b = false <-> a <> b.
Proof.
  intros a b. destruct (tx_eqb a b) eqn:E.
  - apply tx_eqb_eq in E. split; [discriminate | intro; contradiction].
  - split; [intros _ H; apply tx_eqb_eq in H; congruence | reflexivity].
Qed.
Lemma tx_eqb_sym : forall a b, tx_eqb a b = tx_eqb b a.
Proof.
  intros a b. destruct (tx_eqb a b) eqn:E; symmetry.
  - apply tx_eqb_eq in E. subst. apply tx_eqb_refl.
  - apply tx_eqb_neq. apply tx_eqb_neq in E. congruence.
Qed.

Lemma mem_tx_In : forall t l, mem_tx t l = true <-> In t l.
Proof.
  intros t l. unfold mem_tx. rewrite existsb_exists. split.
  - intros [x [Hx E]]. apply tx_eqb_eq in E. subst. exact Hx.
  - intro H. exists t. split; [exact H | apply tx_eqb_refl].
Qed.
Lemma mem_tx_nIn : forall t l, mem_tx t l = false <-> ~ In t l.
Proof.
  intros t l. destruct (mem_tx t l) eqn:E.
  - apply mem_tx_In in E. split; [discriminate | intro; contradiction].
  - split; [intros _ H; apply mem_tx_In in H; congruence | reflexivity].
Qed.

Lemma In_remove_tx : forall x t l, In x (remove_tx t l) <-> In x l /\ x <> t.
Proof.
  intros x t l. unfold remove_tx. rewrite filter_In. split; intros [H1 H2]; split; auto.
  - apply negb_true_iff in H2. apply tx_eqb_neq in H2. congruence.
  - apply negb_true_iff. apply tx_eqb_neq. congruence.
Qed.
Lemma NoDup_remove_tx : forall t l, NoDup l -> NoDup (remove_tx t l).
Proof. intros. apply NoDup_filter. assumption. Qed.
Lemma remove_tx_notin : forall t l, ~ In t l -> remove_tx t l = l.
Proof.
  intros t l. induction l as [|x l IH]; intro H; [reflexivity|]. cbn.
  destruct (tx_eqb t x) eqn:E.
  - apply tx_eqb_eq in E. subst. exfalso. apply H. left. reflexivity.
  - cbn. f_equal. apply IH. intro. apply H. right. assumption.
Qed.
Lemma filter_length_le : forall {A} (f : A -> bool) (l : list A), (length (filter f l) <= length l)%nat.
Proof. intros A f l. induction l as [|x l IH]; cbn; [lia | destruct (f x); cbn; lia]. Qed.
Lemma remove_tx_length : forall t (l : list tx), (length (remove_tx t l) <= length l)%nat.
Proof. intros. apply filter_length_le. Qed.
Lemma remove_tx_app : forall t a b, remove_tx t (a ++ b) = remove_tx t a ++ remove_tx t b.
Proof. intros. apply filter_app. Qed.

Lemma tx_size_nonneg : forall t, 0 <= tx_size t.
Proof. intro. unfold tx_size. lia. Qed.
Lemma sum_sizes_cons : forall x l, sum_sizes (x :: l) = tx_size x + sum_sizes l.
Proof. reflexivity. Qed.
Local Arguments sum_sizes : simpl never.
Local Arguments tx_size : simpl never.
Local Arguments tx_eqb : simpl never.
Lemma sum_sizes_nonneg : forall l, 0 <= sum_sizes l.
Proof. induction l; [cbv; discriminate | rewrite sum_sizes_cons; pose proof (tx_size_nonneg a); lia]. Qed.
Lemma sum_sizes_app : forall a b, sum_sizes (a ++ b) = sum_sizes a + sum_sizes b.
Proof. induction a; intro b; [reflexivity | cbn [app]; rewrite !sum_sizes_cons, IHa; lia]. Qed.
Lemma sum_sizes_remove : forall t l, NoDup l -> In t l ->
  sum_sizes (remove_tx t l) = sum_sizes l - tx_size t.
Proof.
  intros t l. induction l as [|x l IH]; intros ND HI; [contradiction|].
  inversion ND as [|? ? Hx ND']; subst. unfold remove_tx. cbn [filter]. fold (remove_tx t l).
  rewrite sum_sizes_cons.
  destruct (tx_eqb t x) eqn:E.
  - apply tx_eqb_eq in E. subst. cbn [negb]. rewrite remove_tx_notin by assumption. lia.
  - cbn [negb]. rewrite sum_sizes_cons. destruct HI as [->|HI].
    + rewrite tx_eqb_refl in E. discriminate.
    + rewrite IH by assumption. lia.
Qed.
Lemma sum_sizes_remove_le : forall t l, sum_sizes (remove_tx t l) <= sum_sizes l.
Proof.
  intros t l. induction l as [|x l IH]; [cbn; lia|].
  unfold remove_tx. cbn [filter]. fold (remove_tx t l). rewrite sum_sizes_cons.
  pose proof (tx_size_nonneg x). destruct (tx_eqb t x); cbn [negb]; rewrite ?sum_sizes_cons; lia.
Qed.

(* removing by key commutes with projecting the keys *)
Lemma map_filter_key : forall {A} (key : A -> tx) t (l : list A),
  map key (filter (fun m => negb (tx_eqb t (key m))) l) = remove_tx t (map key l).
Proof.
  intros A key t l. induction l as [|m l IH]; [reflexivity|]. cbn.
  destruct (tx_eqb t (key m)); cbn; [exact IH | f_equal; exact IH].
Qed.

(* ------------------------------------------------------------------ the LRU cache *)

Definition CacheOk (cap : Z) (c : list tx) : Prop :=
  NoDup c /\ (cap <= 0 -> c = []) /\ (0 < cap -> Z.of_nat (length c) <= cap).

Lemma cache_ok_nil : forall cap, CacheOk cap [].
Proof. intro. split; [constructor | split; [reflexivity | cbn; lia]]. Qed.

Lemma NoDup_snoc : forall (l : list tx) t, NoDup l -> ~ In t l -> NoDup (l ++ [t]).
Proof.
  intros l t ND H. induction l as [|x l IH]; cbn; [constructor; [intros []|constructor]|].
  inversion ND; subst. constructor.
  - rewrite in_app_iff. intros [H'|[->|[]]]; [contradiction|]. apply H. left. reflexivity.
  - apply IH; [assumption | intro; apply H; right; assumption].
Qed.

Lemma cache_push_ok : forall cap c t, CacheOk cap c -> CacheOk cap (fst (cache_push cap c t)).
Proof.
  intros cap c t [ND [Hz Hl]]. unfold cache_push.
  destruct (cap <=? 0) eqn:E0; [split; auto|]. apply Z.leb_gt in E0.
  specialize (Hl E0).
  destruct (mem_tx t c) eqn:Em; cbn [fst].
  - apply mem_tx_In in Em. split; [|split; [lia|intros _]].
    + apply NoDup_snoc; [apply NoDup_remove_tx; assumption|]. rewrite In_remove_tx. intros [_ H]. congruence.
    + rewrite app_length. cbn.
      assert (sum_one : forall l : list tx, NoDup l -> In t l -> (length (remove_tx t l) + 1 = length l)%nat).
      { induction l as [|x l IH]; intros ND' HI; [contradiction|]. inversion ND'; subst. cbn.
        destruct (tx_eqb t x) eqn:E.
        - apply tx_eqb_eq in E. subst. cbn. fold (remove_tx x l). rewrite remove_tx_notin by assumption. lia.
        - cbn. fold (remove_tx t l). destruct HI as [->|HI]; [rewrite tx_eqb_refl in E; discriminate|].
          rewrite <- (IH H2 HI). lia. }
      specialize (sum_one c ND Em). lia.
  - apply mem_tx_nIn in Em.
    destruct (Z.of_nat (length c) >=? cap) eqn:Eg.
    + destruct c as [|x c]; cbn [tl].
      * split; [constructor; [intros []|constructor] | split; [lia | intros _; cbn; lia]].
      * inversion ND; subst. split; [|split; [lia|intros _]].
        -- apply NoDup_snoc; [assumption | intro; apply Em; right; assumption].
        -- rewrite app_length. cbn in *. lia.
    + split; [|split; [lia|intros _]].
      * apply NoDup_snoc; assumption.
      * rewrite app_length. cbn. lia.
Qed.

Lemma cache_remove_ok : forall cap c t, CacheOk cap c -> CacheOk cap (cache_remove c t).
Proof.
  intros cap c t [ND [Hz Hl]]. unfold cache_remove. split; [apply NoDup_remove_tx; assumption|split].
  - intro H. rewrite (Hz H). reflexivity.
  - intro H. pose proof (remove_tx_length t c). specialize (Hl H). lia.
Qed.

Lemma cache_push_fresh_false : forall cap c t,
  snd (cache_push cap c t) = false <-> (0 < cap /\ In t c).
Proof.
  intros. unfold cache_push. destruct (cap <=? 0) eqn:E0.
  - apply Z.leb_le in E0. cbn. split; [discriminate | lia].
  - apply Z.leb_gt in E0. destruct (mem_tx t c) eqn:Em; cbn.
    + apply mem_tx_In in Em. tauto.
    + apply mem_tx_nIn in Em. split; [discriminate | tauto].
Qed.

(* recency: [t] sits in the cache with at most [m] younger entries behind it *)
Definition Recent (t : tx) (m : nat) (c : list tx) : Prop :=
  exists pre post, c = pre ++ t :: post /\ (length post <= m)%nat.

Lemma recent_in : forall t m c, Recent t m c -> In t c.
Proof. intros t m c [pre [post [-> _]]]. apply in_elt. Qed.

Lemma recent_push_self : forall cap c t, 0 < cap -> Recent t 0 (fst (cache_push cap c t)).
Proof.
  intros cap c t Hc. unfold cache_push. destruct (cap <=? 0) eqn:E0; [apply Z.leb_le in E0; lia|].
  destruct (mem_tx t c); cbn [fst]; eexists; exists []; split; try reflexivity; cbn; lia.
Qed.

Lemma recent_remove_other : forall t t' m c, t <> t' -> Recent t m c -> Recent t m (cache_remove c t').
Proof.
  intros t t' m c Hne [pre [post [-> Hl]]]. unfold cache_remove. rewrite remove_tx_app. cbn.
  assert (E : tx_eqb t' t = false) by (apply tx_eqb_neq; congruence). rewrite E. cbn.
  exists (remove_tx t' pre), (filter (fun x => negb (tx_eqb t' x)) post). split; [reflexivity|].
  pose proof (filter_length_le (fun x => negb (tx_eqb t' x)) post). lia.
Qed.

Lemma recent_push_other : forall cap c t t' m, 0 < cap -> t <> t' -> (Z.of_nat m + 1 < cap) ->
  Recent t m c -> Recent t (S m) (fst (cache_push cap c t')).
Proof.
  intros cap c t t' m Hc Hne Hm [pre [post [-> Hl]]]. unfold cache_push.
  destruct (cap <=? 0) eqn:E0; [apply Z.leb_le in E0; lia|].
  assert (E : tx_eqb t' t = false) by (apply tx_eqb_neq; congruence).
  destruct (mem_tx t' (pre ++ t :: post)) eqn:Em; cbn [fst].
  - rewrite remove_tx_app. cbn. rewrite E. cbn.
    exists (remove_tx t' pre), (filter (fun x => negb (tx_eqb t' x)) post ++ [t']). split.
    + rewrite <- app_assoc. reflexivity.
    + rewrite app_length. cbn. pose proof (filter_length_le (fun x => negb (tx_eqb t' x)) post). lia.
  - destruct (Z.of_nat (length (pre ++ t :: post)) >=? cap) eqn:Eg.
    + destruct pre as [|x pre]; cbn [tl app].
      * exfalso. cbn in Eg. apply Z.geb_le in Eg. lia.
      * exists pre, (post ++ [t']). split; [rewrite <- app_assoc; reflexivity|].
        rewrite app_length. cbn. lia.
    + exists pre, (post ++ [t']). split; [rewrite <- app_assoc; reflexivity|].
      rewrite app_length. cbn. lia.
Qed.

Lemma recent_weaken : forall t m m' c, (m <= m')%nat -> Recent t m c -> Recent t m' c.
Proof. intros t m m' c H [pre [post [E Hl]]]. exists pre, post. split; [assumption | lia]. Qed.

(* the cache part of Update's loop over the block *)
Definition cache_update_one (cfg : config) (c : list tx) (tc : tx * Z) : list tx :=
  if snd tc =? abci_code_type_ok then fst (cache_push (cfg_cache_size cfg) c (fst tc))
  else if cfg_keep_invalid cfg then c else cache_remove c (fst tc).

Lemma recent_update_other : forall cfg c t tc m,
  0 < cfg_cache_size cfg -> fst tc <> t -> Z.of_nat m + 1 < cfg_cache_size cfg ->
  Recent t m c -> Recent t (S m) (cache_update_one cfg c tc).
Proof.
  intros cfg c t [t' code] m Hc Hne Hm HR. unfold cache_update_one. cbn [fst snd] in *.
  destruct (code =? abci_code_type_ok).
  - apply recent_push_other; auto.
  - destruct (cfg_keep_invalid cfg).
    + eapply recent_weaken; [|exact HR]. lia.
    + eapply recent_weaken; [|apply recent_remove_other; [congruence | exact HR]]. lia.
Qed.

(* after the loop over a block no longer than the cache, a transaction all of whose entries
   were committed with code 0 is in the cache *)
Lemma cache_update_recent_gen : forall cfg t, 0 < cfg_cache_size cfg ->
  forall (blk : list (tx * Z)) c m,
     Z.of_nat (m + length blk) + 1 <= cfg_cache_size cfg ->
     (forall code, In (t, code) blk -> code = 0) ->
     Recent t m c ->
     exists m', (m' <= m + length blk)%nat /\ Recent t m' (fold_left (cache_update_one cfg) blk c).
Proof.
  intros cfg t Hc. induction blk as [|[t' code] blk IH]; intros c0 m Hlen Hall HR.
  - exists m. split; [cbn; lia | exact HR].
  - cbn [fold_left]. cbn [length] in Hlen. destruct (tx_eqb t' t) eqn:E.
    + apply tx_eqb_eq in E. subst t'.
      assert (code = 0) by (apply Hall; left; reflexivity). subst code.
      assert (HR' : Recent t 0 (cache_update_one cfg c0 (t, 0))).
      { unfold cache_update_one. cbn. apply recent_push_self. assumption. }
      destruct (IH (cache_update_one cfg c0 (t, 0)) 0%nat) as [m' [Hm' HR'']].
      * lia.
      * intros code Hin. apply Hall. right. assumption.
      * exact HR'.
      * exists m'. split; [cbn [length]; lia | exact HR''].
    + apply tx_eqb_neq in E.
      assert (HR' : Recent t (S m) (cache_update_one cfg c0 (t', code))).
      { apply recent_update_other; auto. lia. }
      destruct (IH (cache_update_one cfg c0 (t', code)) (S m)) as [m' [Hm' HR'']].
      * lia.
      * intros code' Hin. apply Hall. right. assumption.
      * exact HR'.
      * exists m'. split; [cbn [length]; lia | exact HR''].
Qed.

Lemma cache_update_remembers : forall cfg t, 0 < cfg_cache_size cfg ->
  forall (blk : list (tx * Z)) c,
  Z.of_nat (length blk) <= cfg_cache_size cfg ->
  In t (map fst blk) -> (forall code, In (t, code) blk -> code = 0) ->
  In t (fold_left (cache_update_one cfg) blk c).
Proof.
  intros cfg t Hc. induction blk as [|[t' code] blk IH]; intros c Hlen Hin Hall; [contradiction|].
  cbn [fold_left]. cbn [length] in Hlen. destruct (tx_eqb t' t) eqn:E.
  - apply tx_eqb_eq in E. subst t'.
    assert (code = 0) by (apply Hall; left; reflexivity). subst code.
    assert (HR' : Recent t 0 (cache_update_one cfg c (t, 0))).
    { unfold cache_update_one. cbn. apply recent_push_self. assumption. }
    destruct (cache_update_recent_gen cfg t Hc blk (cache_update_one cfg c (t, 0)) 0%nat) as [m' [Hm' HR'']].
    + lia.
    + intros code Hin'. apply Hall. right. assumption.
    + exact HR'.
    + eapply recent_in. exact HR''.
  - apply tx_eqb_neq in E. cbn in Hin. destruct Hin as [Hin|Hin]; [congruence|].
    apply IH.
    + lia.
    + assumption.
    + intros code' Hin'. apply Hall. right. assumption.
Qed.

(* =================================================================== v0 *)

Record Inv0 (cfg : config) (s : state0) : Prop := {
  i0_nodup : NoDup (pool0 s);
  i0_keys : s_keys s = pool0 s;
  i0_bytes : s_bytes s = sum_sizes (pool0 s);
  i0_count : Z.of_nat (length (s_txs s)) <= Z.max 0 (cfg_size cfg);
  i0_maxb : s_bytes s <= Z.max 0 (cfg_max_txs_bytes cfg);
  i0_cache : CacheOk (cfg_cache_size cfg) (s_cache s)
}.

Lemma inv0_init : forall cfg h pre post, Inv0 cfg (init0 h pre post).
Proof.
  intros. constructor; cbn; try lia; try reflexivity; [constructor | apply cache_ok_nil].
Qed.

Lemma inv0_set_cache : forall cfg s c, Inv0 cfg s -> CacheOk (cfg_cache_size cfg) c ->
  Inv0 cfg (set_cache0 s c).
Proof. intros cfg s c [] H. constructor; cbn; assumption. Qed.

Lemma record_sender0_keys : forall t p l, map m_tx (record_sender0 t p l) = map m_tx l.
Proof.
  intros t p l. unfold record_sender0. rewrite map_map. apply map_ext.
  intro m. destruct (tx_eqb t (m_tx m)); reflexivity.
Qed.

Lemma pool0_length : forall s, length (pool0 s) = length (s_txs s).
Proof. intro. unfold pool0. apply map_length. Qed.

Lemma inv0_record_sender : forall cfg s t p c,
  Inv0 cfg s -> CacheOk (cfg_cache_size cfg) c ->
  Inv0 cfg {| s_cache := c; s_txs := record_sender0 t p (s_txs s); s_keys := s_keys s;
              s_bytes := s_bytes s; s_height := s_height s; s_pre := s_pre s; s_post := s_post s |}.
Proof.
  intros cfg s t p c [] H. constructor; unfold pool0 in *; cbn [s_cache s_txs s_keys s_bytes];
    rewrite ?record_sender0_keys; try assumption.
  unfold record_sender0. rewrite map_length. assumption.
Qed.

Lemma pool0_remove : forall s t fc, pool0 (remove_tx0 s t fc) = remove_tx t (pool0 s).
Proof. intros. unfold pool0, remove_tx0. cbn [s_txs]. apply map_filter_key. Qed.

Lemma inv0_remove : forall cfg s t fc, Inv0 cfg s -> In t (pool0 s) -> Inv0 cfg (remove_tx0 s t fc).
Proof.
  intros cfg s t fc I HI. pose proof (pool0_remove s t fc) as Ep. destruct I.
  constructor; rewrite ?Ep.
  - apply NoDup_remove_tx. assumption.
  - cbn [remove_tx0 s_keys]. rewrite i0_keys0. reflexivity.
  - cbn [remove_tx0 s_bytes]. rewrite sum_sizes_remove by assumption. lia.
  - rewrite <- pool0_length, Ep. pose proof (remove_tx_length t (pool0 s)).
    rewrite pool0_length in H. lia.
  - cbn [remove_tx0 s_bytes]. pose proof (tx_size_nonneg t). lia.
  - cbn [remove_tx0 s_cache]. destruct fc; [apply cache_remove_ok|]; assumption.
Qed.

Lemma is_full0_false : forall cfg s t, is_full0 cfg s t = false ->
  Z.of_nat (length (s_txs s)) < cfg_size cfg /\ tx_size t + s_bytes s <= cfg_max_txs_bytes cfg.
Proof.
  intros cfg s t H. unfold is_full0 in H. apply orb_false_iff in H as [H1 H2].
  rewrite Z.geb_leb in H1. apply Z.leb_gt in H1. rewrite Z.gtb_ltb in H2. apply Z.ltb_ge in H2. lia.
Qed.

Lemma inv0_add : forall cfg s m, Inv0 cfg s -> ~ In (m_tx m) (pool0 s) ->
  is_full0 cfg s (m_tx m) = false -> Inv0 cfg (add_tx0 s m).
Proof.
  intros cfg s m I Hn Hf. apply is_full0_false in Hf as [Hf1 Hf2]. destruct I.
  assert (Ep : pool0 (add_tx0 s m) = pool0 s ++ [m_tx m]).
  { unfold pool0, add_tx0. cbn [s_txs]. rewrite map_app. reflexivity. }
  constructor; rewrite ?Ep.
  - apply NoDup_snoc; assumption.
  - cbn [add_tx0 s_keys]. unfold store_key. rewrite i0_keys0.
    apply mem_tx_nIn in Hn. rewrite Hn. reflexivity.
  - cbn [add_tx0 s_bytes]. rewrite sum_sizes_app, i0_bytes0. cbn. unfold sum_sizes. cbn. lia.
  - cbn [add_tx0 s_txs]. rewrite app_length. cbn. lia.
  - cbn [add_tx0 s_bytes]. lia.
  - assumption.
Qed.

Lemma inv0_res_cb_first_time : forall cfg s t p v, Inv0 cfg s -> Inv0 cfg (res_cb_first_time cfg s t p v).
Proof.
  intros cfg s t p v I. unfold res_cb_first_time.
  destruct (accepted (s_post s) v).
  - destruct (is_full0 cfg s t) eqn:Ef.
    + apply inv0_set_cache; [assumption | apply cache_remove_ok; apply I].
    + destruct (mem_tx t (s_keys s)) eqn:Em.
      * apply inv0_record_sender; [assumption | apply I].
      * apply inv0_add; [assumption | | assumption]. cbn. apply mem_tx_nIn in Em.
        rewrite (i0_keys _ _ I) in Em. assumption.
  - destruct (cfg_keep_invalid cfg); [assumption|].
    apply inv0_set_cache; [assumption | apply cache_remove_ok; apply I].
Qed.

Lemma inv0_checktx : forall cfg s t p v, Inv0 cfg s -> Inv0 cfg (fst (fst (checktx0 cfg s t p v))).
Proof.
  intros cfg s t p v I. unfold checktx0.
  destruct (is_full0 cfg s t); [assumption|].
  destruct (tx_size t >? cfg_max_tx_bytes cfg); [assumption|].
  destruct (negb (precheck_ok (s_pre s) t)); [assumption|].
  pose proof (cache_push_ok (cfg_cache_size cfg) (s_cache s) t (i0_cache _ _ I)) as Hc.
  destruct (cache_push (cfg_cache_size cfg) (s_cache s) t) as [c' fresh]. cbn [fst] in Hc.
  destruct fresh; cbn [negb fst].
  - apply inv0_res_cb_first_time. apply inv0_set_cache; assumption.
  - destruct (mem_tx t (s_keys s)).
    + apply inv0_record_sender; assumption.
    + destruct I. constructor; cbn; assumption.
Qed.

Lemma inv0_flush : forall cfg s, Inv0 cfg s -> Inv0 cfg (flush0 s).
Proof.
  intros cfg s I. constructor; cbn; try lia; try reflexivity; [constructor | apply cache_ok_nil].
Qed.

Lemma inv0_remove_by_key : forall cfg s t, Inv0 cfg s -> Inv0 cfg (fst (remove_by_key0 s t)).
Proof.
  intros cfg s t I. unfold remove_by_key0. destruct (mem_tx t (s_keys s)) eqn:Em; cbn [fst]; [|assumption].
  apply inv0_remove; [assumption|]. apply mem_tx_In in Em. rewrite (i0_keys _ _ I) in Em. assumption.
Qed.

(* --- Update: the loop over the block *)

Lemma update_one0_pool : forall cfg s tc, Inv0 cfg s ->
  pool0 (update_one0 cfg s tc) = remove_tx (fst tc) (pool0 s).
Proof.
  intros cfg s [t code] I. unfold update_one0. cbn [fst].
  set (c := if code =? abci_code_type_ok then _ else _). cbn [set_cache0 s_keys].
  destruct (mem_tx t (s_keys s)) eqn:Em.
  - rewrite pool0_remove. reflexivity.
  - apply mem_tx_nIn in Em. rewrite (i0_keys _ _ I) in Em. rewrite remove_tx_notin by assumption. reflexivity.
Qed.

Lemma update_one0_cache : forall cfg s tc,
  s_cache (update_one0 cfg s tc) = cache_update_one cfg (s_cache s) tc.
Proof.
  intros cfg s [t code]. unfold update_one0, cache_update_one. cbn [fst snd].
  cbn [set_cache0 s_keys]. destruct (mem_tx t (s_keys s)); reflexivity.
Qed.

Lemma inv0_update_one : forall cfg s tc, Inv0 cfg s -> Inv0 cfg (update_one0 cfg s tc).
Proof.
  intros cfg s [t code] I. unfold update_one0.
  set (c := if code =? abci_code_type_ok then _ else _).
  assert (Hc : CacheOk (cfg_cache_size cfg) c).
  { subst c. destruct (code =? abci_code_type_ok); [apply cache_push_ok; apply I|].
    destruct (cfg_keep_invalid cfg); [apply I | apply cache_remove_ok; apply I]. }
  pose proof (inv0_set_cache cfg s c I Hc) as I1.
  destruct (mem_tx t (s_keys (set_cache0 s c))) eqn:Em; [|assumption].
  apply inv0_remove; [assumption|]. apply mem_tx_In in Em.
  rewrite (i0_keys _ _ I1) in Em. assumption.
Qed.

Lemma inv0_update_fold : forall cfg blk s, Inv0 cfg s -> Inv0 cfg (fold_left (update_one0 cfg) blk s).
Proof. intros cfg blk. induction blk; intros s I; cbn; [assumption | apply IHblk, inv0_update_one, I]. Qed.

Fixpoint remove_all (l : list tx) (p : list tx) : list tx :=
  match l with [] => p | t :: r => remove_all r (remove_tx t p) end.

Lemma remove_all_filter : forall l p, remove_all l p = filter (fun x => negb (mem_tx x l)) p.
Proof.
  induction l as [|t l IH]; intro p; cbn [remove_all].
  - cbn. induction p; cbn; [reflexivity | f_equal; assumption].
  - rewrite IH. unfold remove_tx. clear IH. induction p as [|x p IHp]; [reflexivity|].
    cbn [filter mem_tx existsb]. rewrite (tx_eqb_sym x t).
    destruct (tx_eqb t x); cbn [negb orb filter]; [exact IHp|].
    fold (mem_tx x l). destruct (mem_tx x l); cbn [negb]; [exact IHp | f_equal; exact IHp].
Qed.

Lemma update_fold0_pool : forall cfg blk s, Inv0 cfg s ->
  pool0 (fold_left (update_one0 cfg) blk s) = remove_all (map fst blk) (pool0 s).
Proof.
  intros cfg blk. induction blk as [|tc blk IH]; intros s I; cbn [fold_left map remove_all]; [reflexivity|].
  rewrite IH by (apply inv0_update_one; assumption). rewrite update_one0_pool by assumption. reflexivity.
Qed.

Lemma update_fold0_cache : forall cfg blk s,
  s_cache (fold_left (update_one0 cfg) blk s) = fold_left (cache_update_one cfg) blk (s_cache s).
Proof.
  intros cfg blk. induction blk as [|tc blk IH]; intro s; cbn [fold_left]; [reflexivity|].
  rewrite IH, update_one0_cache. reflexivity.
Qed.

Lemma update_fold0_post : forall cfg blk s, s_post (fold_left (update_one0 cfg) blk s) = s_post s.
Proof.
  intros cfg blk. induction blk as [|[t code] blk IH]; intro s; cbn [fold_left]; [reflexivity|].
  rewrite IH. unfold update_one0. cbn [set_cache0 s_keys].
  destruct (mem_tx t (s_keys s)); reflexivity.
Qed.

(* --- recheck: the cursor walk is in lock-step with the requests *)

Definition recheck_step (cfg : config) (rv : list (tx * appres)) (s : state0) (t : tx) : state0 :=
  if accepted (s_post s) (lookup_res rv t) then s else remove_tx0 s t (negb (cfg_keep_invalid cfg)).

Lemma recheck_loop_lockstep : forall cfg rv rest done s,
  recheck_loop cfg rv (map m_tx rest) s (Some (done, rest)) = fold_left (recheck_step cfg rv) (map m_tx rest) s.
Proof.
  intros cfg rv. induction rest as [|m rest IH]; intros done s; [reflexivity|].
  cbn [map recheck_loop fold_left]. unfold res_cb_recheck. cbn [recheck_walk].
  rewrite tx_eqb_refl. unfold recheck_step at 2.
  destruct (accepted (s_post s) (lookup_res rv (m_tx m))).
  - destruct rest as [|m' rest]; [reflexivity|]. apply IH.
  - destruct rest as [|m' rest]; [reflexivity|]. apply IH.
Qed.

Lemma recheck0_fold : forall cfg rv s, recheck0 cfg rv s = fold_left (recheck_step cfg rv) (pool0 s) s.
Proof. intros. unfold recheck0, pool0. apply recheck_loop_lockstep. Qed.

Lemma recheck_step_post : forall cfg rv s t, s_post (recheck_step cfg rv s t) = s_post s.
Proof. intros. unfold recheck_step. destruct (accepted _ _); reflexivity. Qed.

Lemma recheck_fold_post : forall cfg rv l s, s_post (fold_left (recheck_step cfg rv) l s) = s_post s.
Proof.
  intros cfg rv. induction l as [|t l IH]; intro s; cbn [fold_left]; [reflexivity|].
  rewrite IH. apply recheck_step_post.
Qed.

Lemma recheck_fold_pool : forall cfg rv l s,
  pool0 (fold_left (recheck_step cfg rv) l s) =
  filter (fun x => negb (mem_tx x l) || accepted (s_post s) (lookup_res rv x)) (pool0 s).
Proof.
  intros cfg rv. induction l as [|t l IH]; intro s; cbn [fold_left].
  - cbn. induction (pool0 s); cbn; [reflexivity | f_equal; assumption].
  - rewrite IH, recheck_step_post. unfold recheck_step.
    destruct (accepted (s_post s) (lookup_res rv t)) eqn:Ea.
    + apply filter_ext. intro x. cbn [mem_tx existsb]. fold (mem_tx x l).
      destruct (tx_eqb x t) eqn:E; [|reflexivity].
      apply tx_eqb_eq in E. subst x. rewrite Ea. rewrite !orb_true_r. reflexivity.
    + rewrite pool0_remove. unfold remove_tx. generalize (pool0 s). intro p.
      induction p as [|x p IHp]; [reflexivity|].
      cbn [filter mem_tx existsb]. fold (mem_tx x l). rewrite (tx_eqb_sym x t).
      destruct (tx_eqb t x) eqn:E; cbn [negb orb].
      * apply tx_eqb_eq in E. subst x. rewrite Ea. cbn. exact IHp.
      * cbn [filter]. destruct (negb (mem_tx x l) || accepted (s_post s) (lookup_res rv x)); [f_equal|]; exact IHp.
Qed.

Lemma recheck0_pool : forall cfg rv s,
  pool0 (recheck0 cfg rv s) = filter (fun x => accepted (s_post s) (lookup_res rv x)) (pool0 s).
Proof.
  intros. rewrite recheck0_fold, recheck_fold_pool. apply filter_ext_in.
  intros x Hx. apply mem_tx_In in Hx. rewrite Hx. reflexivity.
Qed.

Lemma inv0_recheck_fold : forall cfg rv l s, Inv0 cfg s -> NoDup l -> incl l (pool0 s) ->
  Inv0 cfg (fold_left (recheck_step cfg rv) l s).
Proof.
  intros cfg rv. induction l as [|t l IH]; intros s I ND Hin; cbn [fold_left]; [assumption|].
  inversion ND; subst. apply IH; [| assumption |].
  - unfold recheck_step. destruct (accepted _ _); [assumption|].
    apply inv0_remove; [assumption | apply Hin; left; reflexivity].
  - intros x Hx. unfold recheck_step. destruct (accepted _ _).
    + apply Hin. right. assumption.
    + rewrite pool0_remove. apply In_remove_tx. split; [apply Hin; right; assumption|].
      intro. subst. contradiction.
Qed.

Lemma inv0_recheck : forall cfg rv s, Inv0 cfg s -> Inv0 cfg (recheck0 cfg rv s).
Proof.
  intros. rewrite recheck0_fold. apply inv0_recheck_fold; [assumption | apply H | apply incl_refl].
Qed.

Lemma recheck_fold_cache_keeps : forall cfg rv l s t,
  ~ In t l -> In t (s_cache s) -> In t (s_cache (fold_left (recheck_step cfg rv) l s)).
Proof.
  intros cfg rv. induction l as [|x l IH]; intros s t Hn Hc; cbn [fold_left]; [assumption|].
  apply IH; [intro; apply Hn; right; assumption|].
  unfold recheck_step. destruct (accepted _ _); [assumption|].
  cbn [remove_tx0 s_cache]. destruct (negb (cfg_keep_invalid cfg)); [|assumption].
  apply In_remove_tx. split; [assumption|]. intro. subst. apply Hn. left. reflexivity.
Qed.

(* --- Update as a whole *)

Definition upd_state0 (s : state0) (h : Z) (pre post : option (option Z)) : state0 :=
  {| s_cache := s_cache s; s_txs := s_txs s; s_keys := s_keys s; s_bytes := s_bytes s;
     s_height := h; s_pre := set_checks (s_pre s) pre; s_post := set_checks (s_post s) post |}.

Lemma inv0_upd_state : forall cfg s h pre post, Inv0 cfg s -> Inv0 cfg (upd_state0 s h pre post).
Proof. intros cfg s h pre post []. constructor; cbn; assumption. Qed.

Lemma update0_unfold : forall cfg s h blk pre post rv,
  update0 cfg s h blk pre post rv =
  let s2 := fold_left (update_one0 cfg) blk (upd_state0 s h pre post) in
  match s_txs s2 with [] => s2 | _ => if cfg_recheck cfg then recheck0 cfg rv s2 else s2 end.
Proof. reflexivity. Qed.

Lemma inv0_update : forall cfg s h blk pre post rv, Inv0 cfg s -> Inv0 cfg (update0 cfg s h blk pre post rv).
Proof.
  intros. rewrite update0_unfold. cbv zeta.
  pose proof (inv0_update_fold cfg blk _ (inv0_upd_state cfg s h pre post H)) as I2.
  destruct (s_txs _); [assumption|]. destruct (cfg_recheck cfg); [apply inv0_recheck|]; assumption.
Qed.

(* the pool after Update: the block's transactions are gone, and with recheck exactly the
   accepted ones of the rest remain, in their old order *)
Lemma update0_pool : forall cfg s h blk pre post rv, Inv0 cfg s ->
  pool0 (update0 cfg s h blk pre post rv) =
  filter (fun t => negb (cfg_recheck cfg) || accepted (set_checks (s_post s) post) (lookup_res rv t))
         (filter (fun t => negb (mem_tx t (map fst blk))) (pool0 s)).
Proof.
  intros cfg s h blk pre post rv I. rewrite update0_unfold. cbv zeta.
  set (s2 := fold_left (update_one0 cfg) blk (upd_state0 s h pre post)).
  assert (E2 : pool0 s2 = filter (fun t => negb (mem_tx t (map fst blk))) (pool0 s)).
  { subst s2. rewrite update_fold0_pool by (apply inv0_upd_state; assumption).
    rewrite remove_all_filter. reflexivity. }
  assert (Ep : s_post s2 = set_checks (s_post s) post).
  { subst s2. rewrite update_fold0_post. reflexivity. }
  rewrite <- E2.
  destruct (cfg_recheck cfg); cbn [negb orb].
  - destruct (s_txs s2) eqn:Et.
    + unfold pool0. rewrite Et. reflexivity.
    + rewrite recheck0_pool, Ep. reflexivity.
  - assert (forall l : list tx, filter (fun _ => true) l = l) as Ft
      by (induction l; cbn; [reflexivity | f_equal; assumption]).
    rewrite Ft. destruct (s_txs s2); reflexivity.
Qed.

Lemma update0_cache_remembers : forall cfg s h blk pre post rv t, Inv0 cfg s ->
  0 < cfg_cache_size cfg -> Z.of_nat (length blk) <= cfg_cache_size cfg ->
  In t (map fst blk) -> (forall code, In (t, code) blk -> code = 0) ->
  In t (s_cache (update0 cfg s h blk pre post rv)).
Proof.
  intros cfg s h blk pre post rv t I Hc Hl Hin Hall. rewrite update0_unfold. cbv zeta.
  set (s2 := fold_left (update_one0 cfg) blk (upd_state0 s h pre post)).
  assert (Hc2 : In t (s_cache s2)).
  { subst s2. rewrite update_fold0_cache. apply cache_update_remembers; assumption. }
  assert (Hn : ~ In t (pool0 s2)).
  { subst s2. rewrite update_fold0_pool by (apply inv0_upd_state; assumption).
    rewrite remove_all_filter, filter_In. intros [_ H]. apply mem_tx_In in Hin. rewrite Hin in H. discriminate. }
  destruct (s_txs s2); [assumption|]. destruct (cfg_recheck cfg); [|assumption].
  rewrite recheck0_fold. apply recheck_fold_cache_keeps; assumption.
Qed.

(* --- histories *)

Lemma inv0_step : forall cfg s o, Inv0 cfg s -> Inv0 cfg (step0 cfg s o).
Proof.
  intros cfg s o I. destruct o; cbn [step0].
  - apply inv0_checktx. assumption.
  - apply inv0_update. assumption.
  - apply inv0_flush. assumption.
  - apply inv0_remove_by_key. assumption.
Qed.

Lemma inv0_run : forall cfg ops s, Inv0 cfg s -> Inv0 cfg (run0 cfg s ops).
Proof.
  intros cfg ops. unfold run0. induction ops as [|o ops IH]; intros s I; cbn [fold_left]; [assumption|].
  apply IH. apply inv0_step. assumption.
Qed.

(* a remembered transaction is refused and does not change the pool *)
Lemma checktx0_remembered : forall cfg s t p v, Inv0 cfg s -> In t (s_cache s) ->
  pool0 (fst (fst (checktx0 cfg s t p v))) = pool0 s /\
  snd (fst (checktx0 cfg s t p v)) <> ENone /\ snd (checktx0 cfg s t p v) = false.
Proof.
  intros cfg s t p v I Hc. unfold checktx0.
  destruct (is_full0 cfg s t); [cbn; repeat split; discriminate|].
  destruct (tx_size t >? cfg_max_tx_bytes cfg); [cbn; repeat split; discriminate|].
  destruct (negb (precheck_ok (s_pre s) t)); [cbn; repeat split; discriminate|].
  assert (Hcap : 0 < cfg_cache_size cfg).
  { destruct (i0_cache _ _ I) as [_ [Hz _]]. destruct (Z_lt_le_dec 0 (cfg_cache_size cfg)); [assumption|].
    rewrite (Hz l) in Hc. contradiction. }
  pose proof (proj2 (cache_push_fresh_false (cfg_cache_size cfg) (s_cache s) t) (conj Hcap Hc)) as Hf.
  destruct (cache_push (cfg_cache_size cfg) (s_cache s) t) as [c' fresh]. cbn [snd] in Hf. subst fresh.
  cbn [negb fst snd]. repeat split; try discriminate.
  unfold pool0. cbn [s_txs]. destruct (mem_tx t (s_keys s)); [apply record_sender0_keys | reflexivity].
Qed.

(* CheckTx only ever appends the submitted transaction (arrival order) *)
Lemma checktx0_pool : forall cfg s t p v, Inv0 cfg s ->
  let s' := fst (fst (checktx0 cfg s t p v)) in
  pool0 s' = pool0 s \/ (pool0 s' = pool0 s ++ [t] /\ ~ In t (pool0 s)).
Proof.
  intros cfg s t p v I. cbv zeta. unfold checktx0.
  destruct (is_full0 cfg s t); [left; reflexivity|].
  destruct (tx_size t >? cfg_max_tx_bytes cfg); [left; reflexivity|].
  destruct (negb (precheck_ok (s_pre s) t)); [left; reflexivity|].
  destruct (cache_push (cfg_cache_size cfg) (s_cache s) t) as [c' fresh].
  destruct fresh; cbn [negb fst].
  - unfold res_cb_first_time. cbn [set_cache0 s_post s_keys s_cache].
    destruct (accepted (s_post s) v).
    + destruct (is_full0 cfg (set_cache0 s c') t); [left; reflexivity|].
      destruct (mem_tx t (s_keys s)) eqn:Em.
      * left. unfold pool0. cbn [s_txs set_cache0]. apply record_sender0_keys.
      * right. split.
        -- unfold pool0, add_tx0. cbn [s_txs set_cache0 m_tx]. rewrite map_app. reflexivity.
        -- apply mem_tx_nIn in Em. rewrite (i0_keys _ _ I) in Em. assumption.
    + destruct (cfg_keep_invalid cfg); left; reflexivity.
  - left. unfold pool0. cbn [s_txs]. destruct (mem_tx t (s_keys s)); [apply record_sender0_keys | reflexivity].
Qed.

(* --- reaping *)

Definition within (max_bytes max_gas : Z) (bs gs : Z) : Prop :=
  (max_bytes < 0 \/ bs <= max_bytes) /\ (max_gas < 0 \/ gs <= max_gas).

Definition sum_proto {A} (txof : A -> tx) (l : list A) : Z :=
  fold_right (fun m a => proto_size (txof m) + a) 0 l.
Definition sum_gas {A} (gasof : A -> Z) (l : list A) : Z :=
  fold_right (fun m a => gasof m + a) 0 l.

Lemma sum_proto_cons : forall {A} (txof : A -> tx) m l,
  sum_proto txof (m :: l) = proto_size (txof m) + sum_proto txof l.
Proof. reflexivity. Qed.
Lemma sum_gas_cons : forall {A} (gasof : A -> Z) m l, sum_gas gasof (m :: l) = gasof m + sum_gas gasof l.
Proof. reflexivity. Qed.

Lemma reap_bytes_gas_prefix : forall {A} (txof : A -> tx) (gasof : A -> Z) mb mg (l : list A) bs gs,
  exists k, (k <= length l)%nat /\
    reap_bytes_gas txof gasof mb mg bs gs l = map txof (firstn k l) /\
    (forall j, (1 <= j <= k)%nat ->
       within mb mg (bs + sum_proto txof (firstn j l)) (gs + sum_gas gasof (firstn j l))) /\
    ((k < length l)%nat ->
       ~ within mb mg (bs + sum_proto txof (firstn (S k) l)) (gs + sum_gas gasof (firstn (S k) l))).
Proof.
  intros A txof gasof mb mg. induction l as [|m l IH]; intros bs gs.
  - exists 0%nat. cbn. repeat split; try lia.
  - cbn [reap_bytes_gas].
    destruct ((mb >? -1) && (bs + proto_size (txof m) >? mb)) eqn:E1.
    { exists 0%nat. cbn [firstn map length]. repeat split; try lia.
      intros _ [[H|H] _]; cbn in H; apply andb_true_iff in E1 as [Ea Eb];
        rewrite Z.gtb_ltb in Ea, Eb; apply Z.ltb_lt in Ea, Eb; cbn in *; lia. }
    destruct ((mg >? -1) && (gs + gasof m >? mg)) eqn:E2.
    { exists 0%nat. cbn [firstn map length]. repeat split; try lia.
      intros _ [_ [H|H]]; cbn in H; apply andb_true_iff in E2 as [Ea Eb];
        rewrite Z.gtb_ltb in Ea, Eb; apply Z.ltb_lt in Ea, Eb; cbn in *; lia. }
    destruct (IH (bs + proto_size (txof m)) (gs + gasof m)) as [k [Hk [Er [Hw Hn]]]].
    exists (S k). cbn [length firstn map]. split; [lia|]. split; [rewrite Er; reflexivity|]. split.
    + intros j Hj. destruct j as [|j]; [lia|]. cbn [firstn]. rewrite sum_proto_cons, sum_gas_cons.
      destruct j as [|j].
      * cbn [firstn]. unfold within, sum_proto, sum_gas. cbn [fold_right].
        apply andb_false_iff in E1. apply andb_false_iff in E2.
        rewrite !Z.gtb_ltb, !Z.ltb_ge in E1, E2. lia.
      * rewrite !Z.add_assoc. apply Hw. lia.
    + intro Hlt. assert (Hlt' : (k < length l)%nat) by lia. specialize (Hn Hlt').
      change (firstn (S (S k)) (m :: l)) with (m :: firstn (S k) l).
      rewrite sum_proto_cons, sum_gas_cons, !Z.add_assoc. exact Hn.
Qed.

Lemma reap_max_txs0_spec : forall s n,
  (n < 0 -> reap_max_txs0 s n = pool0 s) /\
  (0 <= n -> reap_max_txs0 s n = firstn (Z.to_nat n) (pool0 s) /\
             Z.of_nat (length (reap_max_txs0 s n)) = Z.min n (Z.of_nat (length (pool0 s)))).
Proof.
  intros s n. unfold reap_max_txs0. split; intro H.
  - assert (E : (n <? 0) = true) by (apply Z.ltb_lt; assumption). rewrite E.
    rewrite Nat2Z.id. rewrite <- pool0_length. apply firstn_all.
  - assert (E : (n <? 0) = false) by (apply Z.ltb_ge; assumption). rewrite E.
    split; [reflexivity|]. rewrite firstn_length. lia.
Qed.

(* =================================================================== v1 *)

Definition senders_of (l : list wtx) : list N :=
  filter (fun a => negb (a =? 0)%N) (map w_sender l).

Record Inv1 (cfg : config) (s : state1) : Prop := {
  i1_nodup : NoDup (pool1 s);
  i1_keys : t_keys s = pool1 s;
  i1_senders : t_senders s = senders_of (t_txs s);
  i1_snodup : NoDup (t_senders s);
  i1_bytes : t_bytes s = sum_sizes (pool1 s);
  i1_count : Z.of_nat (length (t_txs s)) <= Z.max 0 (cfg_size cfg);
  i1_maxb : t_bytes s <= Z.max 0 (cfg_max_txs_bytes cfg);
  i1_cache : CacheOk (cfg_cache_size cfg) (t_cache s)
}.

Lemma inv1_init : forall cfg h pre post, Inv1 cfg (init1 h pre post).
Proof.
  intros. constructor; cbn; try lia; try reflexivity; try (constructor; fail). apply cache_ok_nil.
Qed.

Lemma pool1_length : forall s, length (pool1 s) = length (t_txs s).
Proof. intro. unfold pool1. apply map_length. Qed.

Lemma inv1_set_cache : forall cfg s c, Inv1 cfg s -> CacheOk (cfg_cache_size cfg) c ->
  Inv1 cfg (set_cache1 s c).
Proof. intros cfg s c [] H. constructor; cbn; assumption. Qed.

Lemma inv1_tick : forall cfg s, Inv1 cfg s -> Inv1 cfg (tick1 s).
Proof. intros cfg s []. constructor; cbn; assumption. Qed.

(* maps that keep key and sender of every element *)
Lemma inv1_set_txs_map : forall cfg s (f : wtx -> wtx),
  (forall w, w_tx (f w) = w_tx w) -> (forall w, w_sender (f w) = w_sender w) ->
  Inv1 cfg s -> Inv1 cfg (set_txs1 s (map f (t_txs s))).
Proof.
  intros cfg s f Hk Hs [].
  assert (Ek : map w_tx (map f (t_txs s)) = map w_tx (t_txs s)).
  { rewrite map_map. apply map_ext. assumption. }
  assert (Es : map w_sender (map f (t_txs s)) = map w_sender (t_txs s)).
  { rewrite map_map. apply map_ext. assumption. }
  constructor; unfold pool1, senders_of in *; cbn [set_txs1 t_txs t_keys t_senders t_bytes t_cache];
    rewrite ?Ek, ?Es; try assumption.
  rewrite map_length. assumption.
Qed.

Lemma record_peer1_map : forall t p l, record_peer1 t p l =
  map (fun w => if tx_eqb t (w_tx w)
                then {| w_tx := w_tx w; w_gas := w_gas w; w_prio := w_prio w;
                        w_sender := w_sender w; w_stamp := w_stamp w; w_height := w_height w;
                        w_peers := add_sender p (w_peers w) |}
                else w) l.
Proof. reflexivity. Qed.

Lemma inv1_record_peer : forall cfg s t p, Inv1 cfg s -> Inv1 cfg (set_txs1 s (record_peer1 t p (t_txs s))).
Proof.
  intros. rewrite record_peer1_map. apply inv1_set_txs_map; [| |assumption];
    intro w; destruct (tx_eqb t (w_tx w)); reflexivity.
Qed.

Lemma pool1_record_peer : forall t p l, map w_tx (record_peer1 t p l) = map w_tx l.
Proof.
  intros. unfold record_peer1. rewrite map_map. apply map_ext. intro w.
  destruct (tx_eqb t (w_tx w)); reflexivity.
Qed.

Lemma inv1_set_prio : forall cfg s t p, Inv1 cfg s -> Inv1 cfg (set_txs1 s (set_prio1 t p (t_txs s))).
Proof.
  intros. unfold set_prio1. apply inv1_set_txs_map; [| |assumption];
    intro w; destruct (tx_eqb t (w_tx w)); reflexivity.
Qed.

Lemma pool1_set_prio : forall t p l, map w_tx (set_prio1 t p l) = map w_tx l.
Proof.
  intros. unfold set_prio1. rewrite map_map. apply map_ext. intro w.
  destruct (tx_eqb t (w_tx w)); reflexivity.
Qed.

(* --- removal of one element *)

Lemma NoDup_map_inj_in : forall {A B} (f : A -> B) (l : list A) a b,
  NoDup (map f l) -> In a l -> In b l -> f a = f b -> a = b.
Proof.
  intros A B f l. induction l as [|x l IH]; intros a b ND Ha Hb E; [contradiction|].
  cbn in ND. inversion ND as [|? ? Hx ND']; subst.
  destruct Ha as [->|Ha], Hb as [->|Hb].
  - reflexivity.
  - exfalso. apply Hx. rewrite E. apply in_map. assumption.
  - exfalso. apply Hx. rewrite <- E. apply in_map. assumption.
  - apply IH; assumption.
Qed.

Lemma remove_sender_notin : forall a l, ~ In a l -> remove_sender a l = l.
Proof.
  intros a l. induction l as [|x l IH]; intro H; [reflexivity|]. cbn.
  destruct (N.eqb a x) eqn:E.
  - apply N.eqb_eq in E. subst. exfalso. apply H. left. reflexivity.
  - cbn. f_equal. apply IH. intro. apply H. right. assumption.
Qed.

Lemma senders_of_nozero : forall l, ~ In 0%N (senders_of l).
Proof. intros l H. unfold senders_of in H. apply filter_In in H as [_ H]. discriminate. Qed.

Lemma senders_of_cons : forall x l,
  senders_of (x :: l) = if (w_sender x =? 0)%N then senders_of l else w_sender x :: senders_of l.
Proof. intros. unfold senders_of. cbn. destruct (w_sender x =? 0)%N; reflexivity. Qed.

Lemma filter_key_notin : forall k (l : list wtx), ~ In k (map w_tx l) ->
  filter (fun x => negb (tx_eqb k (w_tx x))) l = l.
Proof.
  intros k l. induction l as [|x l IH]; intro H; [reflexivity|]. cbn.
  destruct (tx_eqb k (w_tx x)) eqn:E.
  - apply tx_eqb_eq in E. exfalso. apply H. left. symmetry. assumption.
  - cbn. f_equal. apply IH. intro. apply H. right. assumption.
Qed.

Lemma senders_of_remove : forall (l : list wtx) w,
  NoDup (map w_tx l) -> NoDup (senders_of l) -> In w l ->
  senders_of (filter (fun x => negb (tx_eqb (w_tx w) (w_tx x))) l) = remove_sender (w_sender w) (senders_of l).
Proof.
  induction l as [|x l IH]; intros w NDk NDs Hw; [contradiction|].
  cbn [map] in NDk. inversion NDk as [|? ? Hxk NDk']; subst.
  rewrite senders_of_cons in NDs. cbn [filter].
  destruct (tx_eqb (w_tx w) (w_tx x)) eqn:E; cbn [negb].
  - apply tx_eqb_eq in E.
    assert (w = x).
    { destruct Hw as [Hw|Hw]; [congruence|]. exfalso. apply Hxk. rewrite <- E. apply in_map. assumption. }
    subst w. rewrite filter_key_notin by assumption. rewrite senders_of_cons.
    destruct (w_sender x =? 0)%N eqn:Ez.
    + apply N.eqb_eq in Ez. rewrite Ez. symmetry. apply remove_sender_notin. apply senders_of_nozero.
    + inversion NDs; subst. cbn. rewrite N.eqb_refl. cbn. fold (remove_sender (w_sender x) (senders_of l)).
      symmetry. apply remove_sender_notin. assumption.
  - apply tx_eqb_neq in E. destruct Hw as [Hw|Hw]; [congruence|].
    rewrite !senders_of_cons.
    destruct (w_sender x =? 0)%N eqn:Ez.
    + apply IH; assumption.
    + inversion NDs; subst. cbn [remove_sender filter].
      destruct (w_sender w =? w_sender x)%N eqn:Es.
      * exfalso. apply N.eqb_eq in Es. apply H1. rewrite <- Es.
        unfold senders_of. apply filter_In. split; [apply in_map; assumption|].
        rewrite Es, Ez. reflexivity.
      * cbn [negb]. f_equal. apply IH; assumption.
Qed.

Lemma pool1_remove : forall s w, pool1 (remove_wtx1 s w) = remove_tx (w_tx w) (pool1 s).
Proof. intros. unfold pool1, remove_wtx1. cbn [t_txs]. apply map_filter_key. Qed.

Lemma remove_sender_NoDup : forall a l, NoDup l -> NoDup (remove_sender a l).
Proof. intros. apply NoDup_filter. assumption. Qed.

Lemma inv1_remove : forall cfg s w, Inv1 cfg s -> In w (t_txs s) -> Inv1 cfg (remove_wtx1 s w).
Proof.
  intros cfg s w I Hw. pose proof (pool1_remove s w) as Ep.
  assert (Hk : In (w_tx w) (pool1 s)) by (apply in_map; assumption).
  destruct I. constructor; rewrite ?Ep.
  - apply NoDup_remove_tx. assumption.
  - cbn [remove_wtx1 t_keys]. rewrite i1_keys0. reflexivity.
  - cbn [remove_wtx1 t_senders t_txs]. rewrite senders_of_remove; try assumption.
    + rewrite i1_senders0. reflexivity.
    + rewrite <- i1_senders0. assumption.
  - cbn [remove_wtx1 t_senders]. apply remove_sender_NoDup. assumption.
  - cbn [remove_wtx1 t_bytes]. rewrite sum_sizes_remove by assumption. lia.
  - rewrite <- pool1_length, Ep. pose proof (remove_tx_length (w_tx w) (pool1 s)).
    rewrite pool1_length in H. lia.
  - cbn [remove_wtx1 t_bytes]. pose proof (tx_size_nonneg (w_tx w)). lia.
  - assumption.
Qed.

Lemma find_wtx_some : forall t l w, find_wtx t l = Some w -> In w l /\ w_tx w = t.
Proof.
  intros t l. induction l as [|x l IH]; intros w H; [discriminate|]. cbn in H.
  destruct (tx_eqb t (w_tx x)) eqn:E.
  - injection H as <-. apply tx_eqb_eq in E. split; [left; reflexivity | congruence].
  - destruct (IH _ H). split; [right|]; assumption.
Qed.

Lemma find_wtx_none : forall t l, find_wtx t l = None -> ~ In t (map w_tx l).
Proof.
  intros t l. induction l as [|x l IH]; intros H; [intros []|]. cbn in H.
  destruct (tx_eqb t (w_tx x)) eqn:E; [discriminate|]. apply tx_eqb_neq in E.
  intros [H'|H']; [congruence | exact (IH H H')].
Qed.

Lemma inv1_remove_by_key : forall cfg s t, Inv1 cfg s -> Inv1 cfg (fst (remove_by_key1 s t)).
Proof.
  intros cfg s t I. unfold remove_by_key1. destruct (mem_tx t (t_keys s)); [|assumption].
  destruct (find_wtx t (t_txs s)) eqn:Ef; [|assumption]. cbn [fst].
  apply find_wtx_some in Ef as [Hw _]. apply inv1_remove; assumption.
Qed.

Lemma pool1_remove_by_key : forall cfg s t, Inv1 cfg s ->
  pool1 (fst (remove_by_key1 s t)) = remove_tx t (pool1 s).
Proof.
  intros cfg s t I. unfold remove_by_key1. destruct (mem_tx t (t_keys s)) eqn:Em.
  - destruct (find_wtx t (t_txs s)) eqn:Ef; cbn [fst].
    + apply find_wtx_some in Ef as [_ <-]. apply pool1_remove.
    + apply find_wtx_none in Ef. rewrite remove_tx_notin; [reflexivity | assumption].
  - cbn [fst]. apply mem_tx_nIn in Em. rewrite (i1_keys _ _ I) in Em.
    rewrite remove_tx_notin; [reflexivity | assumption].
Qed.

(* --- eviction *)

Lemma inv1_evict_one : forall cfg s w, Inv1 cfg s -> In w (t_txs s) -> Inv1 cfg (evict_one1 s w).
Proof.
  intros. unfold evict_one1. apply inv1_set_cache; [apply inv1_remove; assumption|].
  apply cache_remove_ok. cbn. apply H.
Qed.

Lemma pool1_evict_one : forall s w, pool1 (evict_one1 s w) = remove_tx (w_tx w) (pool1 s).
Proof. intros. unfold evict_one1. unfold pool1 at 1. cbn [set_cache1 t_txs]. apply pool1_remove. Qed.

Lemma txs_evict_one : forall s w,
  t_txs (evict_one1 s w) = filter (fun x => negb (tx_eqb (w_tx w) (w_tx x))) (t_txs s).
Proof. reflexivity. Qed.

Lemma inv1_evict_fold : forall cfg vs s, Inv1 cfg s -> NoDup (map w_tx vs) -> incl vs (t_txs s) ->
  Inv1 cfg (fold_left evict_one1 vs s).
Proof.
  intros cfg. induction vs as [|w vs IH]; intros s I ND Hin; cbn [fold_left]; [assumption|].
  cbn [map] in ND. inversion ND; subst. apply IH; [| assumption |].
  - apply inv1_evict_one; [assumption | apply Hin; left; reflexivity].
  - intros x Hx. rewrite txs_evict_one. apply filter_In. split; [apply Hin; right; assumption|].
    apply negb_true_iff. apply tx_eqb_neq. intro E. apply H1. rewrite E. apply in_map. assumption.
Qed.

Lemma pool1_evict_fold : forall vs s,
  pool1 (fold_left evict_one1 vs s) = remove_all (map w_tx vs) (pool1 s).
Proof.
  induction vs as [|w vs IH]; intro s; cbn [fold_left map remove_all]; [reflexivity|].
  rewrite IH, pool1_evict_one. reflexivity.
Qed.

Lemma bytes_evict_fold : forall vs s,
  t_bytes (fold_left evict_one1 vs s) = t_bytes s - sum_sizes (map w_tx vs).
Proof.
  induction vs as [|w vs IH]; intro s; cbn [fold_left map].
  - change (sum_sizes []) with 0. lia.
  - rewrite IH, sum_sizes_cons. cbn [evict_one1 set_cache1 remove_wtx1 t_bytes]. lia.
Qed.

Lemma senders_evict_fold : forall vs s a,
  In a (t_senders (fold_left evict_one1 vs s)) -> In a (t_senders s).
Proof.
  induction vs as [|w vs IH]; intros s a H; cbn [fold_left] in H; [assumption|].
  apply IH in H. cbn in H. unfold remove_sender in H. apply filter_In in H as [H _]. assumption.
Qed.

Lemma keys_evict_fold : forall vs s t,
  In t (t_keys (fold_left evict_one1 vs s)) -> In t (t_keys s).
Proof.
  induction vs as [|w vs IH]; intros s t H; cbn [fold_left] in H; [assumption|].
  apply IH in H. cbn in H. apply In_remove_tx in H as [H _]. assumption.
Qed.

Lemma length_evict_fold : forall vs s,
  (length (t_txs (fold_left evict_one1 vs s)) <= length (t_txs s))%nat.
Proof.
  induction vs as [|w vs IH]; intro s; cbn [fold_left]; [lia|].
  etransitivity; [apply IH|]. rewrite txs_evict_one. apply filter_length_le.
Qed.

Lemma filter_length_lt : forall {A} (f : A -> bool) l x, In x l -> f x = false ->
  (length (filter f l) < length l)%nat.
Proof.
  intros A f l. induction l as [|y l IH]; intros x Hx Hf; [contradiction|]. cbn.
  destruct Hx as [->|Hx].
  - rewrite Hf. pose proof (filter_length_le f l). lia.
  - specialize (IH x Hx Hf). destruct (f y); cbn; lia.
Qed.

Lemma length_evict_fold_lt : forall vs s w, In w (t_txs s) ->
  (length (t_txs (fold_left evict_one1 (w :: vs) s)) < length (t_txs s))%nat.
Proof.
  intros vs s w Hw. cbn [fold_left]. eapply Nat.le_lt_trans; [apply length_evict_fold|].
  rewrite txs_evict_one. eapply filter_length_lt; [exact Hw|]. rewrite tx_eqb_refl. reflexivity.
Qed.

Lemma In_insert_by : forall {A} (before : A -> A -> bool) x y l,
  In y (insert_by before x l) <-> y = x \/ In y l.
Proof.
  intros A before x y l. induction l as [|z l IH]; cbn.
  - split; [intros [H|[]]; left; congruence | intros [H|[]]; left; congruence].
  - destruct (before z x); cbn; rewrite ?IH; intuition congruence.
Qed.

Lemma insert_by_perm : forall {A} (before : A -> A -> bool) x l, Permutation (insert_by before x l) (x :: l).
Proof.
  intros A before x l. induction l as [|z l IH]; cbn; [reflexivity|].
  destruct (before z x); [|reflexivity].
  etransitivity; [apply perm_skip, IH|]. apply perm_swap.
Qed.

Lemma sort_by_perm : forall {A} (before : A -> A -> bool) l, Permutation (sort_by before l) l.
Proof.
  intros A before l. induction l as [|x l IH]; cbn; [reflexivity|].
  etransitivity; [apply insert_by_perm|]. apply perm_skip. exact IH.
Qed.

Lemma sum_sizes_perm : forall a b, Permutation a b -> sum_sizes a = sum_sizes b.
Proof.
  intros a b P. induction P; rewrite ?sum_sizes_cons in *; try lia; try reflexivity.
Qed.

Lemma evict_loop_incl : forall need vs e w, In w (evict_loop need e vs) -> In w vs.
Proof.
  intros need. induction vs as [|x vs IH]; intros e w H; [contradiction|]. cbn in H.
  destruct (e + tx_size (w_tx x) >=? need).
  - destruct H as [<-|[]]. left. reflexivity.
  - destruct H as [<-|H]; [left; reflexivity | right; eapply IH; eassumption].
Qed.

Lemma evict_loop_prefix : forall need vs e, exists k, evict_loop need e vs = firstn k vs.
Proof.
  intros need. induction vs as [|x vs IH]; intro e; [exists 0%nat; reflexivity|]. cbn.
  destruct (e + tx_size (w_tx x) >=? need).
  - exists 1%nat. reflexivity.
  - destruct (IH (e + tx_size (w_tx x))) as [k ->]. exists (S k). reflexivity.
Qed.

Lemma In_firstn_incl : forall {A} k (l : list A) x, In x (firstn k l) -> In x l.
Proof.
  intros A k. induction k as [|k IH]; intros l x H; [contradiction|]. destruct l as [|y l]; [contradiction|].
  cbn in H. destruct H as [->|H]; [left; reflexivity | right; apply IH; assumption].
Qed.

Lemma NoDup_firstn : forall {A} k (l : list A), NoDup l -> NoDup (firstn k l).
Proof.
  intros A k. induction k as [|k IH]; intros l ND; [constructor|]. destruct l as [|x l]; [constructor|].
  cbn. inversion ND; subst. constructor; [|apply IH; assumption].
  intro H. apply H1. eapply In_firstn_incl. exact H.
Qed.

Lemma NoDup_map_filter : forall {A B} (f : A -> B) (g : A -> bool) l,
  NoDup (map f l) -> NoDup (map f (filter g l)).
Proof.
  intros A B f g l. induction l as [|x l IH]; intro ND; [constructor|]. cbn in *.
  inversion ND; subst. destruct (g x); cbn; [constructor|]; auto.
  intro H. apply H1. apply in_map_iff in H as [y [E Hy]]. apply filter_In in Hy as [Hy _].
  rewrite <- E. apply in_map. assumption.
Qed.

Lemma evict_loop_enough : forall need vs e,
  need <= e + sum_sizes (map w_tx vs) -> vs <> [] ->
  need <= e + sum_sizes (map w_tx (evict_loop need e vs)).
Proof.
  intros need. induction vs as [|x vs IH]; intros e H Hne; [congruence|].
  cbn [evict_loop map]. cbn [map] in H. rewrite sum_sizes_cons in H.
  destruct (e + tx_size (w_tx x) >=? need) eqn:E.
  - cbn [map]. rewrite sum_sizes_cons. change (sum_sizes []) with 0. rewrite Z.geb_leb in E. apply Z.leb_le in E. lia.
  - cbn [map]. rewrite sum_sizes_cons. rewrite Z.geb_leb in E. apply Z.leb_gt in E.
    destruct vs as [|y vs].
    + change (sum_sizes (map w_tx [])) with 0 in H. lia.
    + specialize (IH (e + tx_size (w_tx x))). lia || (assert (y :: vs <> []) by discriminate; specialize (IH ltac:(lia) H0); lia).
Qed.

Lemma evict_loop_nonempty : forall need vs e, vs <> [] -> exists w r, evict_loop need e vs = w :: r /\ In w vs.
Proof.
  intros need vs e H. destruct vs as [|x vs]; [congruence|]. cbn.
  destruct (e + tx_size (w_tx x) >=? need); eexists; eexists; split; try reflexivity; left; reflexivity.
Qed.

Lemma can_add1_true : forall cfg s t, can_add1 cfg s t = true ->
  Z.of_nat (length (t_txs s)) < cfg_size cfg /\ tx_size t + t_bytes s <= cfg_max_txs_bytes cfg.
Proof.
  intros cfg s t H. unfold can_add1 in H. apply negb_true_iff in H. apply orb_false_iff in H as [H1 H2].
  rewrite Z.geb_leb in H1. apply Z.leb_gt in H1. rewrite Z.gtb_ltb in H2. apply Z.ltb_ge in H2. lia.
Qed.

Lemma victims1_facts : forall cfg s t prio vs, Inv1 cfg s -> victims1 cfg s t prio = Some vs ->
  incl vs (t_txs s) /\ NoDup (map w_tx vs) /\ (forall w, In w vs -> w_prio w < prio) /\
  Z.of_nat (length (t_txs (fold_left evict_one1 vs s))) + 1 <= Z.max 0 (cfg_size cfg) /\
  t_bytes s - sum_sizes (map w_tx vs) + tx_size t <= Z.max 0 (cfg_max_txs_bytes cfg).
Proof.
  intros cfg s t prio vs I H. unfold victims1 in H.
  destruct (can_add1 cfg s t) eqn:Ec.
  - injection H as <-. apply can_add1_true in Ec as [E1 E2].
    split; [intros x []|]. split; [constructor|]. split; [intros w []|]. cbn [fold_left map].
    change (sum_sizes []) with 0. lia.
  - set (V := filter (fun w => w_prio w <? prio) (t_txs s)) in *.
    set (S := sort_by victim_before V) in *.
    destruct (Nat.eqb (length V) 0 || (sum_sizes (map w_tx V) <? tx_size t)) eqn:Ed; [discriminate|].
    injection H as <-. apply orb_false_iff in Ed as [Ed1 Ed2].
    apply Nat.eqb_neq in Ed1. apply Z.ltb_ge in Ed2.
    assert (PS : Permutation S V) by apply sort_by_perm.
    assert (HinV : forall w, In w V -> In w (t_txs s) /\ w_prio w < prio).
    { intros w Hw. apply filter_In in Hw as [Hw Hp]. apply Z.ltb_lt in Hp. auto. }
    assert (HinS : forall w, In w S -> In w V) by (intros w Hw; eapply Permutation_in; eassumption).
    assert (Sne : S <> []).
    { intro E. rewrite E in PS. apply Permutation_nil in PS. rewrite PS in Ed1. cbn in Ed1. congruence. }
    split; [|split; [|split; [|split]]].
    + intros w Hw. apply evict_loop_incl in Hw. apply HinS, HinV in Hw. tauto.
    + destruct (evict_loop_prefix (tx_size t) S 0) as [k ->]. rewrite <- firstn_map. apply NoDup_firstn.
      eapply Permutation_NoDup; [apply Permutation_map; symmetry; exact PS|].
      apply NoDup_map_filter. apply I.
    + intros w Hw. apply evict_loop_incl in Hw. apply HinS, HinV in Hw. tauto.
    + destruct (evict_loop_nonempty (tx_size t) S 0 Sne) as [w [r [E Hw]]]. rewrite E.
      apply HinS, HinV in Hw as [Hw _].
      pose proof (length_evict_fold_lt r s w Hw). pose proof (i1_count _ _ I). lia.
    + pose proof (evict_loop_enough (tx_size t) S 0) as He.
      rewrite (sum_sizes_perm _ _ (Permutation_map w_tx PS)) in He.
      specialize (He ltac:(lia) Sne). pose proof (i1_maxb _ _ I). lia.
Qed.

Lemma senders_of_app : forall a b, senders_of (a ++ b) = senders_of a ++ senders_of b.
Proof. intros. unfold senders_of. rewrite map_app, filter_app. reflexivity. Qed.

Lemma NoDup_snocN : forall (l : list N) t, NoDup l -> ~ In t l -> NoDup (l ++ [t]).
Proof.
  intros l t ND H. induction l as [|x l IH]; cbn; [constructor; [intros []|constructor]|].
  inversion ND; subst. constructor.
  - rewrite in_app_iff. intros [H'|[->|[]]]; [contradiction|]. apply H. left. reflexivity.
  - apply IH; [assumption | intro; apply H; right; assumption].
Qed.

Lemma mem_sender_In : forall a l, mem_sender a l = true <-> In a l.
Proof.
  intros. unfold mem_sender. rewrite existsb_exists. split.
  - intros [x [Hx E]]. apply N.eqb_eq in E. subst. assumption.
  - intro H. exists a. split; [assumption | apply N.eqb_refl].
Qed.

Lemma inv1_insert : forall cfg s w, Inv1 cfg s -> ~ In (w_tx w) (pool1 s) ->
  (w_sender w = 0%N \/ ~ In (w_sender w) (t_senders s)) ->
  Z.of_nat (length (t_txs s)) + 1 <= Z.max 0 (cfg_size cfg) ->
  t_bytes s + tx_size (w_tx w) <= Z.max 0 (cfg_max_txs_bytes cfg) ->
  Inv1 cfg (insert_wtx1 s w).
Proof.
  intros cfg s w I Hk Hs Hc Hb. destruct I.
  assert (Ep : pool1 (insert_wtx1 s w) = pool1 s ++ [w_tx w]).
  { unfold pool1, insert_wtx1. cbn [t_txs]. rewrite map_app. reflexivity. }
  constructor; rewrite ?Ep.
  - apply NoDup_snoc; assumption.
  - cbn [insert_wtx1 t_keys]. unfold store_key. rewrite i1_keys0.
    apply mem_tx_nIn in Hk. rewrite Hk. reflexivity.
  - cbn [insert_wtx1 t_senders t_txs]. rewrite senders_of_app, <- i1_senders0.
    unfold senders_of at 1. cbn [map filter].
    destruct (w_sender w =? 0)%N eqn:Ez; cbn [negb].
    + rewrite app_nil_r. reflexivity.
    + destruct Hs as [Hs|Hs]; [rewrite Hs in Ez; discriminate|].
      apply mem_sender_In in Hs || (destruct (mem_sender (w_sender w) (t_senders s)) eqn:Em;
        [apply mem_sender_In in Em; contradiction | reflexivity]).
  - cbn [insert_wtx1 t_senders].
    destruct (w_sender w =? 0)%N eqn:Ez; [assumption|].
    destruct (mem_sender (w_sender w) (t_senders s)) eqn:Em; [assumption|].
    apply NoDup_snocN; [assumption|]. intro H. apply mem_sender_In in H. congruence.
  - cbn [insert_wtx1 t_bytes]. rewrite sum_sizes_app, i1_bytes0.
    change (sum_sizes [w_tx w]) with (tx_size (w_tx w) + 0). lia.
  - cbn [insert_wtx1 t_txs]. rewrite app_length. cbn. lia.
  - cbn [insert_wtx1 t_bytes]. lia.
  - assumption.
Qed.

Lemma inv1_add_new : forall cfg s t p h st v, Inv1 cfg s -> Inv1 cfg (add_new_tx1 cfg s t p h st v).
Proof.
  intros cfg s t p h st v I. unfold add_new_tx1.
  destruct (negb (accepted (t_post s) v)).
  { destruct (cfg_keep_invalid cfg); [assumption|]. apply inv1_set_cache; [assumption|].
    apply cache_remove_ok, I. }
  destruct (mem_tx t (t_keys s)) eqn:Ek; [apply inv1_record_peer; assumption|].
  destruct (negb (v_sender v =? 0)%N && mem_sender (v_sender v) (t_senders s)) eqn:Es; [assumption|].
  destruct (victims1 cfg s t (v_prio v)) as [vs|] eqn:Ev.
  - destruct (victims1_facts _ _ _ _ _ I Ev) as [Hin [ND [_ [Hc Hb]]]].
    apply inv1_insert; cbn [w_tx w_sender].
    + apply inv1_evict_fold; assumption.
    + intro H. apply mem_tx_nIn in Ek. apply Ek.
      rewrite pool1_evict_fold, remove_all_filter in H. apply filter_In in H as [H _].
      rewrite (i1_keys _ _ I). assumption.
    + destruct (v_sender v =? 0)%N eqn:Ez; [left; apply N.eqb_eq; assumption|]. right.
      cbn in Es. intro H. apply senders_evict_fold in H. apply mem_sender_In in H. congruence.
    + assumption.
    + rewrite bytes_evict_fold. lia.
  - apply inv1_set_cache; [assumption|]. apply cache_remove_ok, I.
Qed.

Lemma inv1_checktx : forall cfg s t p v, Inv1 cfg s -> Inv1 cfg (fst (fst (checktx1 cfg s t p v))).
Proof.
  intros cfg s t p v I. unfold checktx1.
  destruct (tx_size t >? cfg_max_tx_bytes cfg); [assumption|].
  destruct (negb (precheck_ok (t_pre s) t)); [assumption|].
  pose proof (cache_push_ok (cfg_cache_size cfg) (t_cache s) t (i1_cache _ _ I)) as Hc.
  destruct (cache_push (cfg_cache_size cfg) (t_cache s) t) as [c' fresh]. cbn [fst] in Hc.
  pose proof (inv1_set_cache _ _ _ I Hc) as I'.
  destruct fresh; cbn [negb fst].
  - apply inv1_add_new. apply inv1_tick. assumption.
  - destruct (mem_tx t (t_keys s)).
    + apply (inv1_record_peer cfg (set_cache1 s c')). assumption.
    + destruct I'. constructor; cbn; assumption.
Qed.

Lemma inv1_flush : forall cfg s, Inv1 cfg s -> Inv1 cfg (flush1 s).
Proof.
  intros. constructor; cbn; try lia; try reflexivity; try (constructor; fail). apply cache_ok_nil.
Qed.

(* --- Update *)

Lemma purge_fold_filter : forall (f : wtx -> bool) l s,
  fold_left (fun s w => if f w then evict_one1 s w else s) l s = fold_left evict_one1 (filter f l) s.
Proof.
  intros f. induction l as [|w l IH]; intro s; cbn [fold_left filter]; [reflexivity|].
  destruct (f w); cbn [fold_left]; apply IH.
Qed.

Lemma purge1_eq : forall cfg s h now,
  purge1 cfg s h now =
  if (cfg_ttl_blocks cfg =? 0) && (cfg_ttl_dur cfg =? 0) then s
  else fold_left evict_one1 (filter (expired1 cfg h now) (t_txs s)) s.
Proof. intros. unfold purge1. destruct (_ && _); [reflexivity|]. apply purge_fold_filter. Qed.

Lemma inv1_purge : forall cfg s h now, Inv1 cfg s -> Inv1 cfg (purge1 cfg s h now).
Proof.
  intros cfg s h now I. rewrite purge1_eq. destruct (_ && _); [assumption|].
  apply inv1_evict_fold; [assumption | apply NoDup_map_filter, I |].
  intros w Hw. apply filter_In in Hw as [Hw _]. assumption.
Qed.

Lemma pool1_purge_incl : forall cfg s h now t, In t (pool1 (purge1 cfg s h now)) -> In t (pool1 s).
Proof.
  intros cfg s h now t. rewrite purge1_eq. destruct (_ && _); [auto|].
  rewrite pool1_evict_fold, remove_all_filter. intro H. apply filter_In in H as [H _]. assumption.
Qed.

Lemma pool1_purge_not_expired : forall cfg s h now w, Inv1 cfg s ->
  In w (t_txs s) -> In (w_tx w) (pool1 (purge1 cfg s h now)) ->
  expired1 cfg h now w = false \/ ((cfg_ttl_blocks cfg =? 0) && (cfg_ttl_dur cfg =? 0) = true).
Proof.
  intros cfg s h now w I Hw. rewrite purge1_eq. destruct (_ && _); [right; reflexivity|]. left.
  rewrite pool1_evict_fold, remove_all_filter in H. apply filter_In in H as [_ H].
  destruct (expired1 cfg h now w) eqn:E; [|reflexivity]. exfalso.
  apply negb_true_iff in H. apply mem_tx_nIn in H. apply H. apply in_map. apply filter_In. auto.
Qed.

Lemma inv1_handle_recheck : forall cfg s t v, Inv1 cfg s -> Inv1 cfg (handle_recheck1 cfg s t v).
Proof.
  intros cfg s t v I. unfold handle_recheck1. destruct (mem_tx t (t_keys s)); [|assumption].
  destruct (find_wtx t (t_txs s)) as [w|] eqn:Ef; [|assumption].
  apply find_wtx_some in Ef as [Hw _].
  destruct (accepted (t_post s) v); [apply inv1_set_prio; assumption|].
  pose proof (inv1_remove _ _ _ I Hw) as I'.
  destruct (cfg_keep_invalid cfg); [assumption|]. apply inv1_set_cache; [assumption|].
  apply cache_remove_ok. apply I'.
Qed.

Lemma pool1_handle_recheck : forall cfg s t v, Inv1 cfg s ->
  pool1 (handle_recheck1 cfg s t v) = if accepted (t_post s) v then pool1 s else remove_tx t (pool1 s).
Proof.
  intros cfg s t v I. unfold handle_recheck1. destruct (mem_tx t (t_keys s)) eqn:Em.
  - destruct (find_wtx t (t_txs s)) as [w|] eqn:Ef.
    + apply find_wtx_some in Ef as [Hw <-].
      destruct (accepted (t_post s) v).
      * unfold pool1. cbn [set_txs1 t_txs]. apply pool1_set_prio.
      * destruct (cfg_keep_invalid cfg); [apply pool1_remove|].
        unfold pool1 at 1. cbn [set_cache1 t_txs]. apply pool1_remove.
    + apply find_wtx_none in Ef. rewrite remove_tx_notin by assumption. destruct (accepted _ _); reflexivity.
  - apply mem_tx_nIn in Em. rewrite (i1_keys _ _ I) in Em. rewrite remove_tx_notin by assumption.
    destruct (accepted _ _); reflexivity.
Qed.

Lemma post_handle_recheck : forall cfg s t v, t_post (handle_recheck1 cfg s t v) = t_post s.
Proof.
  intros. unfold handle_recheck1. destruct (mem_tx t (t_keys s)); [|reflexivity].
  destruct (find_wtx t (t_txs s)); [|reflexivity]. destruct (accepted _ _); [reflexivity|].
  destruct (cfg_keep_invalid cfg); reflexivity.
Qed.

Lemma recheck1_fold : forall cfg rv l s, Inv1 cfg s ->
  let s' := fold_left (fun s t => handle_recheck1 cfg s t (lookup_res rv t)) l s in
  Inv1 cfg s' /\ t_post s' = t_post s /\
  pool1 s' = filter (fun x => negb (mem_tx x l) || accepted (t_post s) (lookup_res rv x)) (pool1 s).
Proof.
  intros cfg rv. induction l as [|t l IH]; intros s I; cbn [fold_left]; cbv zeta.
  - split; [assumption|]. split; [reflexivity|]. cbn. induction (pool1 s); cbn; [reflexivity | f_equal; assumption].
  - destruct (IH (handle_recheck1 cfg s t (lookup_res rv t)) (inv1_handle_recheck _ _ _ _ I)) as [I' [Ep Epool]].
    cbv zeta in *. split; [assumption|]. rewrite post_handle_recheck in Ep, Epool. split; [assumption|].
    rewrite Epool, pool1_handle_recheck by assumption.
    destruct (accepted (t_post s) (lookup_res rv t)) eqn:Ea.
    + apply filter_ext. intro x. cbn [mem_tx existsb]. fold (mem_tx x l).
      destruct (tx_eqb x t) eqn:E; [|reflexivity].
      apply tx_eqb_eq in E. subst x. rewrite Ea. rewrite !orb_true_r. reflexivity.
    + unfold remove_tx. generalize (pool1 s). intro pl.
      induction pl as [|x pl IHp]; [reflexivity|].
      cbn [filter mem_tx existsb]. fold (mem_tx x l). rewrite (tx_eqb_sym x t).
      destruct (tx_eqb t x) eqn:E; cbn [negb orb].
      * apply tx_eqb_eq in E. subst x. rewrite Ea. cbn. exact IHp.
      * cbn [filter]. destruct (negb (mem_tx x l) || accepted (t_post s) (lookup_res rv x)); [f_equal|]; exact IHp.
Qed.

Lemma inv1_update_one : forall cfg s tc, Inv1 cfg s -> Inv1 cfg (update_one1 cfg s tc).
Proof.
  intros cfg s [t code] I. unfold update_one1. apply inv1_remove_by_key. apply inv1_set_cache; [assumption|].
  destruct (code =? abci_code_type_ok); [apply cache_push_ok, I|].
  destruct (cfg_keep_invalid cfg); [apply I | apply cache_remove_ok, I].
Qed.

Lemma update_one1_pool : forall cfg s tc, Inv1 cfg s ->
  pool1 (update_one1 cfg s tc) = remove_tx (fst tc) (pool1 s).
Proof.
  intros cfg s [t code] I. unfold update_one1. cbn [fst].
  set (c := if code =? abci_code_type_ok then _ else _).
  assert (Hc : CacheOk (cfg_cache_size cfg) c).
  { subst c. destruct (code =? abci_code_type_ok); [apply cache_push_ok, I|].
    destruct (cfg_keep_invalid cfg); [apply I | apply cache_remove_ok, I]. }
  rewrite (pool1_remove_by_key cfg) by (apply inv1_set_cache; assumption). reflexivity.
Qed.

Lemma update_one1_cache : forall cfg s tc,
  t_cache (update_one1 cfg s tc) = cache_update_one cfg (t_cache s) tc.
Proof.
  intros cfg s [t code]. unfold update_one1, cache_update_one, remove_by_key1. cbn [fst snd set_cache1 t_keys t_txs].
  destruct (mem_tx t (t_keys s)); [|reflexivity]. destruct (find_wtx t (t_txs s)); reflexivity.
Qed.

Lemma update_one1_post : forall cfg s tc, t_post (update_one1 cfg s tc) = t_post s.
Proof.
  intros cfg s [t code]. unfold update_one1, remove_by_key1. cbn [fst set_cache1 t_keys t_txs].
  destruct (mem_tx t (t_keys s)); [|reflexivity]. destruct (find_wtx t (t_txs s)); reflexivity.
Qed.

Lemma update_fold1 : forall cfg blk s, Inv1 cfg s ->
  let s' := fold_left (update_one1 cfg) blk s in
  Inv1 cfg s' /\ pool1 s' = remove_all (map fst blk) (pool1 s) /\
  t_cache s' = fold_left (cache_update_one cfg) blk (t_cache s) /\ t_post s' = t_post s.
Proof.
  intros cfg blk. induction blk as [|tc blk IH]; intros s I; cbn [fold_left map remove_all]; cbv zeta.
  - split; [assumption|]. repeat split.
  - destruct (IH _ (inv1_update_one cfg s tc I)) as [I' [Ep [Ec Epost]]]. cbv zeta in *.
    split; [assumption|]. rewrite Ep, Ec, Epost.
    rewrite update_one1_pool, update_one1_cache, update_one1_post by assumption. repeat split.
Qed.

Definition upd_state1 (s : state1) (h : Z) (pre post : option (option Z)) : state1 :=
  {| t_cache := t_cache s; t_txs := t_txs s; t_keys := t_keys s; t_senders := t_senders s;
     t_bytes := t_bytes s; t_height := h; t_pre := set_checks (t_pre s) pre;
     t_post := set_checks (t_post s) post; t_clock := t_clock s |}.

Lemma inv1_upd_state : forall cfg s h pre post, Inv1 cfg s -> Inv1 cfg (upd_state1 s h pre post).
Proof. intros cfg s h pre post []. constructor; cbn; assumption. Qed.

Lemma update1_unfold : forall cfg s h now blk pre post rv,
  update1 cfg s h now blk pre post rv =
  let s3 := purge1 cfg (fold_left (update_one1 cfg) blk (upd_state1 s h pre post)) h now in
  if cfg_recheck cfg
  then fold_left (fun s t => handle_recheck1 cfg s t (lookup_res rv t)) (pool1 s3) s3
  else s3.
Proof. reflexivity. Qed.

Lemma inv1_update : forall cfg s h now blk pre post rv, Inv1 cfg s ->
  Inv1 cfg (update1 cfg s h now blk pre post rv).
Proof.
  intros cfg s h now blk pre post rv I. rewrite update1_unfold. cbv zeta.
  destruct (update_fold1 cfg blk _ (inv1_upd_state cfg s h pre post I)) as [I2 _]. cbv zeta in I2.
  pose proof (inv1_purge cfg _ h now I2) as I3.
  destruct (cfg_recheck cfg); [|assumption]. apply (recheck1_fold cfg rv _ _ I3).
Qed.

Lemma purge1_post : forall cfg s h now, t_post (purge1 cfg s h now) = t_post s.
Proof.
  intros. rewrite purge1_eq. destruct (_ && _); [reflexivity|].
  generalize (filter (expired1 cfg h now) (t_txs s)). intro l. revert s.
  induction l as [|w l IH]; intro s; cbn [fold_left]; [reflexivity|]. rewrite IH. reflexivity.
Qed.

Lemma purge1_cache_keeps : forall cfg s h now t, ~ In t (pool1 s) -> In t (t_cache s) ->
  In t (t_cache (purge1 cfg s h now)).
Proof.
  intros cfg s h now t Hn Hc. rewrite purge1_eq. destruct (_ && _); [assumption|].
  assert (G : forall l s, (forall w, In w l -> w_tx w <> t) -> In t (t_cache s) ->
              In t (t_cache (fold_left evict_one1 l s))).
  { induction l as [|w l IH]; intros s0 Hl Hc0; cbn [fold_left]; [assumption|].
    apply IH; [intros; apply Hl; right; assumption|].
    cbn. apply In_remove_tx. split; [assumption|]. intro E. apply (Hl w); [left; reflexivity | congruence]. }
  apply G; [|assumption]. intros w Hw E. apply filter_In in Hw as [Hw _]. apply Hn. rewrite <- E.
  apply in_map. assumption.
Qed.

(* what Update leaves in the pool *)
Lemma update1_pool : forall cfg s h now blk pre post rv t, Inv1 cfg s ->
  In t (pool1 (update1 cfg s h now blk pre post rv)) ->
  In t (pool1 s) /\ ~ In t (map fst blk) /\
  (cfg_recheck cfg = true -> accepted (set_checks (t_post s) post) (lookup_res rv t) = true) /\
  (forall w, In w (t_txs s) -> w_tx w = t ->
     expired1 cfg h now w = false \/ (cfg_ttl_blocks cfg =? 0) && (cfg_ttl_dur cfg =? 0) = true).
Proof.
  intros cfg s h now blk pre post rv t I H. rewrite update1_unfold in H. cbv zeta in H.
  destruct (update_fold1 cfg blk _ (inv1_upd_state cfg s h pre post I)) as [I2 [Ep2 [_ Epost2]]]. cbv zeta in *.
  set (s2 := fold_left (update_one1 cfg) blk (upd_state1 s h pre post)) in *.
  pose proof (inv1_purge cfg s2 h now I2) as I3.
  set (s3 := purge1 cfg s2 h now) in *.
  assert (H3 : In t (pool1 s3) /\ (cfg_recheck cfg = true -> accepted (t_post s3) (lookup_res rv t) = true)).
  { destruct (cfg_recheck cfg).
    - destruct (recheck1_fold cfg rv (pool1 s3) s3 I3) as [_ [_ Epool]]. cbv zeta in Epool.
      rewrite Epool in H. apply filter_In in H as [H Ha]. split; [assumption|]. intros _.
      apply mem_tx_In in H. rewrite H in Ha. exact Ha.
    - split; [assumption | discriminate]. }
  destruct H3 as [H3 Ha].
  assert (H2 : In t (pool1 s2)) by (eapply pool1_purge_incl; exact H3).
  rewrite Ep2, remove_all_filter in H2. apply filter_In in H2 as [H1 Hb].
  change (pool1 (upd_state1 s h pre post)) with (pool1 s) in H1.
  split; [assumption|]. split.
  - apply negb_true_iff in Hb. apply mem_tx_nIn in Hb. assumption.
  - split.
    + intro Hr. specialize (Ha Hr). subst s3. rewrite purge1_post, Epost2 in Ha. exact Ha.
    + intros w Hw Ew.
      assert (Hw2 : In w (t_txs s2)).
      { (* w survives the block loop because its key is still in the pool of s2 *)
        assert (G : forall blk s0, Inv1 cfg s0 -> In w (t_txs s0) ->
                    In (w_tx w) (pool1 (fold_left (update_one1 cfg) blk s0)) ->
                    In w (t_txs (fold_left (update_one1 cfg) blk s0))).
        { induction blk0 as [|[t' c'] blk0 IHb]; intros s0 I0 Hw0 Hp; cbn [fold_left] in *; [assumption|].
          apply IHb; [apply inv1_update_one; assumption | | assumption].
          destruct (update_fold1 cfg blk0 _ (inv1_update_one cfg s0 (t', c') I0)) as [_ [Epp _]]. cbv zeta in Epp.
          rewrite Epp, remove_all_filter in Hp. apply filter_In in Hp as [Hp _].
          rewrite update_one1_pool in Hp by assumption. apply In_remove_tx in Hp as [_ Hne]. cbn [fst] in Hne.
          unfold update_one1, remove_by_key1. cbn [set_cache1 t_keys t_txs].
          destruct (mem_tx t' (t_keys s0)); [|assumption].
          destruct (find_wtx t' (t_txs s0)) as [w'|] eqn:Ef; [|assumption]. cbn [fst remove_wtx1 t_txs].
          apply find_wtx_some in Ef as [_ Ew']. apply filter_In. split; [assumption|].
          apply negb_true_iff, tx_eqb_neq. congruence. }
        apply G; [apply inv1_upd_state; assumption | assumption |].
        rewrite Ew. fold s2. rewrite Ep2, remove_all_filter. apply filter_In. split; assumption. }
      apply (pool1_purge_not_expired cfg s2 h now w I2 Hw2). rewrite Ew. exact H3.
Qed.

Lemma update1_cache_remembers : forall cfg s h now blk pre post rv t, Inv1 cfg s ->
  0 < cfg_cache_size cfg -> Z.of_nat (length blk) <= cfg_cache_size cfg ->
  In t (map fst blk) -> (forall code, In (t, code) blk -> code = 0) ->
  In t (t_cache (update1 cfg s h now blk pre post rv)).
Proof.
  intros cfg s h now blk pre post rv t I Hc Hl Hin Hall. rewrite update1_unfold. cbv zeta.
  destruct (update_fold1 cfg blk _ (inv1_upd_state cfg s h pre post I)) as [I2 [Ep2 [Ec2 _]]]. cbv zeta in *.
  set (s2 := fold_left (update_one1 cfg) blk (upd_state1 s h pre post)) in *.
  assert (Hc2 : In t (t_cache s2)) by (rewrite Ec2; apply cache_update_remembers; assumption).
  assert (Hn2 : ~ In t (pool1 s2)).
  { rewrite Ep2, remove_all_filter, filter_In. intros [_ H]. apply mem_tx_In in Hin. rewrite Hin in H. discriminate. }
  pose proof (purge1_cache_keeps cfg s2 h now t Hn2 Hc2) as Hc3.
  assert (Hn3 : ~ In t (pool1 (purge1 cfg s2 h now))) by (intro H; apply Hn2; eapply pool1_purge_incl; exact H).
  destruct (cfg_recheck cfg); [|assumption].
  generalize dependent (purge1 cfg s2 h now). intros s3 Hc3 Hn3.
  assert (G : forall l s0, ~ In t l -> In t (t_cache s0) ->
              In t (t_cache (fold_left (fun s t => handle_recheck1 cfg s t (lookup_res rv t)) l s0))).
  { induction l as [|x l IHl]; intros s0 Hnl Hc0; cbn [fold_left]; [assumption|].
    apply IHl; [intro; apply Hnl; right; assumption|].
    unfold handle_recheck1. destruct (mem_tx x (t_keys s0)); [|assumption].
    destruct (find_wtx x (t_txs s0)); [|assumption]. destruct (accepted _ _); [assumption|].
    destruct (cfg_keep_invalid cfg); [assumption|]. cbn.
    apply In_remove_tx. split; [assumption|]. intro E. apply Hnl. left. congruence. }
  apply G; assumption.
Qed.

Lemma inv1_step : forall cfg s o, Inv1 cfg s -> Inv1 cfg (step1 cfg s o).
Proof.
  intros cfg s o I. destruct o; cbn [step1].
  - apply inv1_checktx. assumption.
  - apply inv1_update. assumption.
  - apply inv1_flush. assumption.
  - apply inv1_remove_by_key. assumption.
Qed.

Lemma inv1_run : forall cfg ops s, Inv1 cfg s -> Inv1 cfg (run1 cfg s ops).
Proof.
  intros cfg ops. unfold run1. induction ops as [|o ops IH]; intros s I; cbn [fold_left]; [assumption|].
  apply IH. apply inv1_step. assumption.
Qed.

(* a remembered transaction is refused and does not change the pool *)
Lemma checktx1_remembered : forall cfg s t p v, Inv1 cfg s -> In t (t_cache s) ->
  pool1 (fst (fst (checktx1 cfg s t p v))) = pool1 s /\
  snd (fst (checktx1 cfg s t p v)) <> ENone /\ snd (checktx1 cfg s t p v) = false.
Proof.
  intros cfg s t p v I Hc. unfold checktx1.
  destruct (tx_size t >? cfg_max_tx_bytes cfg); [cbn; repeat split; discriminate|].
  destruct (negb (precheck_ok (t_pre s) t)); [cbn; repeat split; discriminate|].
  assert (Hcap : 0 < cfg_cache_size cfg).
  { destruct (i1_cache _ _ I) as [_ [Hz _]]. destruct (Z_lt_le_dec 0 (cfg_cache_size cfg)); [assumption|].
    rewrite (Hz l) in Hc. contradiction. }
  pose proof (proj2 (cache_push_fresh_false (cfg_cache_size cfg) (t_cache s) t) (conj Hcap Hc)) as Hf.
  destruct (cache_push (cfg_cache_size cfg) (t_cache s) t) as [c' fresh]. cbn [snd] in Hf. subst fresh.
  cbn [negb fst snd]. repeat split; try discriminate.
  unfold pool1. cbn [set_txs1 t_txs]. destruct (mem_tx t (t_keys s)); [apply pool1_record_peer | reflexivity].
Qed.

(* eviction_sound: whatever CheckTx removes from the pool had strictly lower priority than the
   submitted transaction, which the application accepted and which is in the pool afterwards
   and was not before *)
Lemma checktx1_eviction_sound : forall cfg s t p v w, Inv1 cfg s ->
  In w (t_txs s) -> ~ In (w_tx w) (pool1 (fst (fst (checktx1 cfg s t p v)))) ->
  w_prio w < v_prio v /\ accepted (t_post s) v = true /\
  In t (pool1 (fst (fst (checktx1 cfg s t p v)))) /\ ~ In t (pool1 s).
Proof.
  intros cfg s t p v w I Hw Hgone.
  assert (Hk : In (w_tx w) (pool1 s)) by (apply in_map; assumption).
  unfold checktx1 in *.
  destruct (tx_size t >? cfg_max_tx_bytes cfg); [contradiction|].
  destruct (negb (precheck_ok (t_pre s) t)); [contradiction|].
  destruct (cache_push (cfg_cache_size cfg) (t_cache s) t) as [c' fresh].
  destruct fresh; cbn [negb fst] in *.
  2:{ exfalso. apply Hgone. unfold pool1. cbn [set_txs1 t_txs].
      destruct (mem_tx t (t_keys s)); [rewrite pool1_record_peer|]; assumption. }
  unfold add_new_tx1 in *. cbn [tick1 set_cache1 t_post t_cache t_keys t_senders t_txs] in *.
  destruct (accepted (t_post s) v) eqn:Ea; cbn [negb] in *.
  2:{ exfalso. apply Hgone. destruct (cfg_keep_invalid cfg); assumption. }
  destruct (mem_tx t (t_keys s)) eqn:Ek.
  { exfalso. apply Hgone. unfold pool1. cbn [set_txs1 t_txs]. rewrite pool1_record_peer. assumption. }
  destruct (negb (v_sender v =? 0)%N && mem_sender (v_sender v) (t_senders s)); [contradiction|].
  set (s1 := tick1 (set_cache1 s c')) in *.
  assert (Ev : victims1 cfg s1 t (v_prio v) = victims1 cfg s t (v_prio v)) by reflexivity.
  rewrite Ev in *.
  destruct (victims1 cfg s t (v_prio v)) as [vs|] eqn:Evs; [|contradiction].
  destruct (victims1_facts _ _ _ _ _ I Evs) as [Hin [ND [Hp _]]].
  unfold pool1 in Hgone. cbn [insert_wtx1 t_txs] in Hgone. rewrite map_app in Hgone.
  fold (pool1 (fold_left evict_one1 vs s1)) in Hgone. rewrite pool1_evict_fold, remove_all_filter in Hgone.
  change (pool1 s1) with (pool1 s) in Hgone.
  assert (Hv : In (w_tx w) (map w_tx vs)).
  { destruct (mem_tx (w_tx w) (map w_tx vs)) eqn:Em; [apply mem_tx_In; assumption|].
    exfalso. apply Hgone. apply in_or_app. left. apply filter_In. split; [assumption|]. rewrite Em. reflexivity. }
  apply in_map_iff in Hv as [w' [Ew' Hw']].
  assert (w' = w).
  { apply (NoDup_map_inj_in w_tx (t_txs s)); [apply I | apply Hin; assumption | assumption | assumption]. }
  subst w'. split; [apply Hp; assumption|]. split; [reflexivity|]. split.
  - unfold pool1. cbn [insert_wtx1 t_txs]. rewrite map_app. apply in_or_app. right. left. reflexivity.
  - apply mem_tx_nIn in Ek. rewrite (i1_keys _ _ I) in Ek. assumption.
Qed.

(* --- v1 reap order *)

Definition reap_le (a b : wtx) : Prop :=
  w_prio a > w_prio b \/ (w_prio a = w_prio b /\ w_stamp a <= w_stamp b).

Lemma reap_before_true : forall a b, reap_before a b = true -> reap_le a b.
Proof.
  intros a b. unfold reap_before, reap_le. destruct (w_prio a =? w_prio b) eqn:E.
  - apply Z.eqb_eq in E. intro H. apply Z.ltb_lt in H. lia.
  - apply Z.eqb_neq in E. rewrite Z.gtb_ltb. intro H. apply Z.ltb_lt in H. lia.
Qed.
Lemma reap_before_false : forall a b, reap_before a b = false -> reap_le b a.
Proof.
  intros a b. unfold reap_before, reap_le. destruct (w_prio a =? w_prio b) eqn:E.
  - apply Z.eqb_eq in E. intro H. apply Z.ltb_ge in H. lia.
  - apply Z.eqb_neq in E. rewrite Z.gtb_ltb. intro H. apply Z.ltb_ge in H. lia.
Qed.
Lemma reap_le_trans : forall a b c, reap_le a b -> reap_le b c -> reap_le a c.
Proof. unfold reap_le. intros. lia. Qed.

Require Import Sorted.

Lemma insert_by_sorted : forall x l, StronglySorted reap_le l -> StronglySorted reap_le (insert_by reap_before x l).
Proof.
  intros x l. induction l as [|y l IH]; intro S; cbn.
  - constructor; constructor.
  - inversion S as [|? ? S' Hall]; subst. destruct (reap_before y x) eqn:E.
    + constructor; [apply IH; assumption|]. apply Forall_forall. intros z Hz.
      apply In_insert_by in Hz as [->|Hz]; [apply reap_before_true; assumption|].
      rewrite Forall_forall in Hall. apply Hall. assumption.
    + constructor; [assumption|]. apply reap_before_false in E. constructor; [assumption|].
      rewrite Forall_forall in *. intros z Hz. eapply reap_le_trans; [exact E | apply Hall; assumption].
Qed.

Lemma order1_sorted : forall s, StronglySorted reap_le (order1 s).
Proof.
  intro s. unfold order1, sort_by. induction (t_txs s) as [|x l IH]; cbn; [constructor|].
  apply insert_by_sorted. exact IH.
Qed.

Lemma order1_perm : forall s, Permutation (order1 s) (t_txs s).
Proof. intro. apply sort_by_perm. Qed.

Lemma reap_max_txs1_spec : forall s n,
  (n < 0 -> reap_max_txs1 s n = map w_tx (order1 s)) /\
  (0 <= n -> reap_max_txs1 s n = firstn (Z.to_nat n) (map w_tx (order1 s)) /\
             Z.of_nat (length (reap_max_txs1 s n)) = Z.min n (Z.of_nat (length (t_txs s)))).
Proof.
  intros s n. unfold reap_max_txs1. split; intro H.
  - assert (E : (n <? 0) = true) by (apply Z.ltb_lt; assumption). rewrite E. reflexivity.
  - assert (E : (n <? 0) = false) by (apply Z.ltb_ge; assumption). rewrite E.
    split; [reflexivity|]. rewrite firstn_length, map_length.
    rewrite (Permutation_length (order1_perm s)). lia.
Qed.

(* arrival stamps: strictly increasing along the list and below the clock, so "ties by stamp"
   is "ties by arrival" *)
Definition StampsOk (s : state1) : Prop :=
  StronglySorted (fun a b => w_stamp a < w_stamp b) (t_txs s) /\
  Forall (fun w => w_stamp w < t_clock s) (t_txs s).

Lemma ss_filter : forall {A} (R : A -> A -> Prop) (f : A -> bool) l,
  StronglySorted R l -> StronglySorted R (filter f l).
Proof.
  intros A R f l. induction l as [|x l IH]; intro S; cbn; [constructor|].
  inversion S; subst. destruct (f x); [|apply IH; assumption].
  constructor; [apply IH; assumption|]. rewrite Forall_forall in *. intros y Hy.
  apply filter_In in Hy as [Hy _]. auto.
Qed.

Lemma forall_filter : forall {A} (P : A -> Prop) (f : A -> bool) l, Forall P l -> Forall P (filter f l).
Proof.
  intros. rewrite Forall_forall in *. intros y Hy. apply filter_In in Hy as [Hy _]. auto.
Qed.

Lemma ss_map_stamp : forall (f : wtx -> wtx) l, (forall w, w_stamp (f w) = w_stamp w) ->
  StronglySorted (fun a b => w_stamp a < w_stamp b) l ->
  StronglySorted (fun a b => w_stamp a < w_stamp b) (map f l).
Proof.
  intros f l Hf. induction l as [|x l IH]; intro S; cbn; [constructor|].
  inversion S; subst. constructor; [apply IH; assumption|]. rewrite Forall_forall in *.
  intros y Hy. apply in_map_iff in Hy as [z [<- Hz]]. rewrite !Hf. auto.
Qed.

Lemma forall_map_stamp : forall (f : wtx -> wtx) l c, (forall w, w_stamp (f w) = w_stamp w) ->
  Forall (fun w => w_stamp w < c) l -> Forall (fun w => w_stamp w < c) (map f l).
Proof.
  intros f l c Hf H. rewrite Forall_forall in *. intros y Hy. apply in_map_iff in Hy as [z [<- Hz]].
  rewrite Hf. auto.
Qed.

Lemma stamps_evict_fold : forall vs s, StampsOk s -> StampsOk (fold_left evict_one1 vs s).
Proof.
  induction vs as [|w vs IH]; intros s H; cbn [fold_left]; [assumption|]. apply IH.
  destruct H as [H1 H2]. split; cbn; [apply ss_filter | apply forall_filter]; assumption.
Qed.

Lemma ss_snoc : forall l x, StronglySorted (fun a b => w_stamp a < w_stamp b) l ->
  Forall (fun w => w_stamp w < w_stamp x) l ->
  StronglySorted (fun a b => w_stamp a < w_stamp b) (l ++ [x]).
Proof.
  induction l as [|y l IH]; intros x S F; cbn; [constructor; constructor|].
  inversion S; subst. inversion F; subst. constructor; [apply IH; assumption|].
  apply Forall_app. split; [assumption|]. constructor; [assumption | constructor].
Qed.

Lemma stamps_checktx : forall cfg s t p v, StampsOk s -> StampsOk (fst (fst (checktx1 cfg s t p v))).
Proof.
  intros cfg s t p v [H1 H2]. unfold checktx1.
  destruct (tx_size t >? cfg_max_tx_bytes cfg); [split; assumption|].
  destruct (negb (precheck_ok (t_pre s) t)); [split; assumption|].
  destruct (cache_push (cfg_cache_size cfg) (t_cache s) t) as [c' fresh].
  destruct fresh; cbn [negb fst].
  2:{ unfold StampsOk. cbn [set_txs1 set_cache1 t_txs t_clock].
      destruct (mem_tx t (t_keys s)); [|split; assumption]. unfold record_peer1.
      split; [apply ss_map_stamp | apply forall_map_stamp]; try assumption;
        intro w; destruct (tx_eqb t (w_tx w)); reflexivity. }
  assert (Hweak : Forall (fun w => w_stamp w < t_clock s + 1) (t_txs s)).
  { rewrite Forall_forall in *. intros w Hw. specialize (H2 w Hw). lia. }
  assert (S1 : StampsOk (tick1 (set_cache1 s c'))) by (split; cbn; assumption).
  unfold add_new_tx1. set (s1 := tick1 (set_cache1 s c')) in *.
  destruct (negb (accepted (t_post s1) v)).
  { destruct (cfg_keep_invalid cfg); assumption. }
  destruct (mem_tx t (t_keys s1)).
  { unfold StampsOk. cbn [set_txs1 t_txs t_clock]. unfold record_peer1. destruct S1 as [A B].
    split; [apply ss_map_stamp | apply forall_map_stamp]; try assumption;
      intro w; destruct (tx_eqb t (w_tx w)); reflexivity. }
  destruct (negb (v_sender v =? 0)%N && mem_sender (v_sender v) (t_senders s1)); [assumption|].
  destruct (victims1 cfg s1 t (v_prio v)) as [vs|]; [|assumption].
  pose proof (stamps_evict_fold vs s1 S1) as [A B].
  assert (Ec : forall l s0, t_clock (fold_left evict_one1 l s0) = t_clock s0).
  { induction l as [|w l IH]; intro s0; cbn [fold_left]; [reflexivity|]. rewrite IH. reflexivity. }
  (* the evicted state still has only stamps of the old clock *)
  assert (B' : Forall (fun w => w_stamp w < t_clock s) (t_txs (fold_left evict_one1 vs s1))).
  { assert (G : forall l s0, Forall (fun w => w_stamp w < t_clock s) (t_txs s0) ->
                Forall (fun w => w_stamp w < t_clock s) (t_txs (fold_left evict_one1 l s0))).
    { induction l as [|w l IH]; intros s0 F; cbn [fold_left]; [assumption|]. apply IH. cbn.
      apply forall_filter. assumption. }
    apply G. assumption. }
  split; cbn [insert_wtx1 t_txs t_clock].
  - apply ss_snoc; [assumption|]. cbn [w_stamp]. assumption.
  - rewrite Ec. unfold s1. cbn [tick1 set_cache1 t_clock]. apply Forall_app. split.
    + rewrite Forall_forall in *. intros w Hw. specialize (B' w Hw). lia.
    + constructor; [cbn [w_stamp]; lia | constructor].
Qed.

Lemma stamps_remove_by_key : forall s t, StampsOk s -> StampsOk (fst (remove_by_key1 s t)).
Proof.
  intros s t [A B]. unfold remove_by_key1. destruct (mem_tx t (t_keys s)); [|split; assumption].
  destruct (find_wtx t (t_txs s)); [|split; assumption]. cbn.
  split; cbn; [apply ss_filter | apply forall_filter]; assumption.
Qed.

Lemma stamps_update : forall cfg s h now blk pre post rv, StampsOk s ->
  StampsOk (update1 cfg s h now blk pre post rv).
Proof.
  intros cfg s h now blk pre post rv H. rewrite update1_unfold. cbv zeta.
  assert (S1 : StampsOk (upd_state1 s h pre post)) by exact H.
  assert (S2 : StampsOk (fold_left (update_one1 cfg) blk (upd_state1 s h pre post))).
  { generalize dependent (upd_state1 s h pre post). induction blk as [|[t c] blk IH]; intros s0 S0; cbn [fold_left]; [assumption|].
    apply IH. unfold update_one1. apply stamps_remove_by_key. exact S0. }
  set (s2 := fold_left (update_one1 cfg) blk (upd_state1 s h pre post)) in *.
  assert (S3 : StampsOk (purge1 cfg s2 h now)).
  { rewrite purge1_eq. destruct (_ && _); [assumption|]. apply stamps_evict_fold. assumption. }
  destruct (cfg_recheck cfg); [|assumption].
  generalize dependent (purge1 cfg s2 h now). intros s3 S3. generalize (pool1 s3). intro l. revert s3 S3.
  induction l as [|t l IH]; intros s3 S3; cbn [fold_left]; [assumption|]. apply IH.
  unfold handle_recheck1. destruct (mem_tx t (t_keys s3)); [|assumption].
  destruct (find_wtx t (t_txs s3)); [|assumption]. destruct S3 as [A B].
  destruct (accepted _ _).
  - unfold StampsOk, set_prio1. cbn [set_txs1 t_txs t_clock].
    split; [apply ss_map_stamp | apply forall_map_stamp]; try assumption;
      intro w0; destruct (tx_eqb t (w_tx w0)); reflexivity.
  - destruct (cfg_keep_invalid cfg); split; cbn; try apply ss_filter; try apply forall_filter; assumption.
Qed.

Lemma stamps_run : forall cfg ops s, StampsOk s -> StampsOk (run1 cfg s ops).
Proof.
  intros cfg ops. unfold run1. induction ops as [|o ops IH]; intros s H; cbn [fold_left]; [assumption|].
  apply IH. destruct o; cbn [step1].
  - apply stamps_checktx. assumption.
  - apply stamps_update. assumption.
  - split; cbn; constructor.
  - apply stamps_remove_by_key. assumption.
Qed.

Lemma stamps_init : forall h pre post, StampsOk (init1 h pre post).
Proof. intros. split; cbn; constructor. Qed.
