(* C06 — executable side of the correspondence check: the case type written by the Go harness
   (harness/overlay/state/verif_c06_{chain,misc,helpers}_test.go),
   the property monitors evaluated on the implementation's own answers, and the comparison of
   the model with the implementation.  Depends on Model.v (and C07.Model) only. *)
From Coq Require Import String List ZArith NArith Bool.
From TM Require Import Common.Hex Generated.Consts C07.Model C06.Model C06.ModelF84.
Import ListNotations.
Open Scope Z_scope.

(* ------------------------------------------------------------------ encodings *)

Definition hvt := (Z * Z)%type.                      (* content id, length *)
Definition mk_hv (t : hvt) : hv := {| hv_id := fst t; hv_len := snd t |}.
Definition bidt := (Z * Z * Z * Z)%type.             (* code, hash len, total, part hash len *)
Definition mk_bid (t : bidt) : bid :=
  let '(c, hl, tot, pl) := t in {| bi_code := c; bi_hlen := hl; bi_total := tot; bi_plen := pl |}.

(* what a slot's signature was made over ([base] = (chain, height, round, block id) the honest
   signers of this commit signed) *)
Inductive sdesc :=
| SB (k ts : Z)                          (* key k over base, for the block, timestamp ts *)
| SN (k ts : Z)                          (* key k over base, for nil *)
| SO (k chain h r b ts : Z)              (* key k over an explicit canonical precommit (b 0 = nil) *)
| SG.                                    (* bytes that are no signature of anybody *)

Definition slott := (Z * Z * Z * Z * sdesc * Z)%type. (* flag, address, addr len, ts, sig, sig len *)
Definition committ := (Z * Z * bidt * (Z * Z * Z * Z) * list slott)%type.
                                                     (* height, round, block id, base, slots *)
Definition mk_msg (chain h r b ts : Z) : signmsg :=
  {| sm_chain := chain; sm_type := precommit_type; sm_height := h; sm_round := r;
     sm_bid := if b =? 0 then None else Some b; sm_ts := ts |}.
Definition mk_sig (base : Z * Z * Z * Z) (d : sdesc) : isig :=
  let '(ch, h, r, b) := base in
  match d with
  | SB k ts => Signed k (mk_msg ch h r b ts)
  | SN k ts => Signed k (mk_msg ch h r 0 ts)
  | SO k c' h' r' b' ts => Signed k (mk_msg c' h' r' b' ts)
  | SG => Garbage
  end.
Definition mk_slot (base : Z * Z * Z * Z) (s : slott) : slot isig :=
  let '(f, a, al, ts, d, sl) := s in
  {| s_flag := f; s_addr := a; s_alen := al; s_ts := ts; s_sig := mk_sig base d; s_slen := sl |}.
Definition mk_commit (c : committ) : commit6 isig :=
  let '(h, r, b, base, sl) := c in
  {| cm_height := h; cm_round := r; cm_bid := mk_bid b; cm_sigs := map (mk_slot base) sl |}.

Definition valt := (Z * Z * Z)%type.                 (* address, key, power *)
Definition mk_val (t : valt) : validator :=
  let '(a, k, p) := t in {| v_addr := a; v_key := k; v_power := p |}.

(* vblock, vapp, chain, height, time, last block id,
   [lc; data; vals; nvals; cons; app; results; ev; proposer] *)
Definition hdrt := (Z * Z * hvt * Z * Z * bidt * list hvt)%type.
Definition nth_hv (l : list hvt) (n : nat) : hv := mk_hv (nth n l (0, 0)).
Definition mk_header (t : hdrt) : header :=
  let '(vb, va, ch, h, tm, lb, hs) := t in
  {| h_vblock := vb; h_vapp := va; h_chain := mk_hv ch; h_height := h; h_time := tm;
     h_last_bid := mk_bid lb;
     h_lc_hash := nth_hv hs 0; h_data_hash := nth_hv hs 1; h_vals_hash := nth_hv hs 2;
     h_nvals_hash := nth_hv hs 3; h_cons_hash := nth_hv hs 4; h_app_hash := nth_hv hs 5;
     h_results_hash := nth_hv hs 6; h_ev_hash := nth_hv hs 7; h_proposer := nth_hv hs 8 |}.

(* MaxBytes, MaxGas, TimeIotaMs, MaxAgeNumBlocks, MaxAgeDuration, Evidence.MaxBytes, key types, app version *)
Definition paramst := (Z * Z * Z * Z * Z * Z * list Z * Z)%type.
Definition mk_params (t : paramst) : params :=
  let '(mb, mg, ti, ab, ad, eb, ts, av) := t in
  {| p_max_bytes := mb; p_max_gas := mg; p_time_iota := ti; p_ev_age_blocks := ab;
     p_ev_age_dur := ad; p_ev_max_bytes := eb; p_pk_types := ts; p_app_version := av |}.

Inductive stt :=
| St (ver : Z * Z) (chain : hvt) (initial last : Z) (lbid : bidt) (ltime : Z)
     (nvals vals lvals : list valt) (lhvc : Z) (ps : paramst) (lhpc : Z) (results app : hvt).
Definition mk_state (s : stt) : state :=
  match s with
  | St (vb, va) ch ini last lb lt nv v lv lhvc ps lhpc rs app =>
    {| st_vblock := vb; st_vapp := va; st_chain := mk_hv ch; st_initial := ini;
       st_last_height := last; st_last_bid := mk_bid lb; st_last_time := lt;
       st_next_vals := map mk_val nv; st_vals := map mk_val v; st_last_vals := map mk_val lv;
       st_lhvc := lhvc; st_params := mk_params ps; st_lhpc := lhpc;
       st_results_hash := mk_hv rs; st_app_hash := mk_hv app |}
  end.

(* what the implementation computed for the shared hash functions on THIS case's objects:
   Commit.Hash, Data.Hash, EvidenceData.Hash, Validators.Hash, NextValidators.Hash,
   HashConsensusParams, and the proto size of the evidence list *)
Definition orct := (hvt * hvt * hvt * hvt * hvt * hvt * Z)%type.

(* block contents: transactions by length, evidence by "ValidateBasic passes" *)
Definition blkt := (hdrt * list Z * list bool * option committ)%type.

Definition pupdt := (option (Z * Z) * option (Z * Z * Z) * option (list Z) * option Z)%type.
Definition mk_pupd (t : pupdt) : param_update :=
  let '(b, e, v, a) := t in {| pu_block := b; pu_evidence := e; pu_validator := v; pu_version := a |}.

(* a DeliverTx response: Code, Data, Log, Info, GasWanted, GasUsed, Events (each as its proto
   encoding), Codespace; byte strings in hex *)
Definition respt := (Z * string * string * string * Z * Z * list string * string)%type.
Definition mk_resp (t : respt) : dresp :=
  let '(code, data, log, info, gw, gu, evs, cs) := t in
  {| r_code := code; r_data := unhex data; r_log := unhex log; r_info := unhex info;
     r_gas_wanted := gw; r_gas_used := gu; r_events := map unhex evs; r_codespace := unhex cs |}.

Inductive case :=
(* validateBlock(st, blk): error class of the implementation (0 = accepted) *)
| CValidate (st : stt) (blk : blkt) (orc : orct) (res_i : N)
(* BlockExecutor.CreateProposalBlock(height, st, commit, proposer) with a mempool holding
   [pool] (lengths) and an evidence pool holding [evs]: the byte budget the mempool was asked for
   (-1 = MaxDataBytes panicked), header and transaction lengths of the block, its proto size and
   what validateBlock says about it *)
| CPropose (st : stt) (height : Z) (cm : committ) (pool : list Z) (evs : list bool) (proposer : hvt)
           (orc : orct) (budget_i : Z) (hdr_i : hdrt) (txs_i : list Z) (size_i : Z) (res_i : N)
(* WeightedMedian(entries, total) on the entries in the given order and on shuffles of them *)
| CMedian (entries : list (Z * Z)) (total : Z) (res_i : Z) (shuffled_i : list Z)
(* MedianTime(commit, vals) *)
| CMedianTime (cm : committ) (vals : list valt) (res_i : Z)
(* updateState(st, blockID, header, responses, validator updates): class 0 ok, 1 validator set
   error, 2 consensus params error, 9 panic; the next state; hash of the results (oracle); the
   set UpdateWithChangeSet produced (oracle, C08); and the two-replica comparison:
   State.Bytes() equal, Block.Hash() equal *)
| CUpdate (st : stt) (block_id : bidt) (hdr : hdrt) (ups : list valt) (pu : option pupdt)
          (results_h : hvt) (upd_oracle : option (list valt))
          (class_i : N) (st_i : stt) (same_state same_hash : bool)
(* proto sizes: Header, Commit and its CommitSigs; ValidateBasic verdicts (true = nil) *)
| CSizes (hdr : hdrt) (cm : committ) (hsize_i csize_i : Z) (ssizes_i : list Z) (hvb_i cvb_i : bool)
         (mcb_i : Z)                     (* the implementation's MaxCommitBytes(number of slots) *)
(* two nodes apply the same block to the same state; their applications answered DeliverTx with
   [ra] and [rb].  The implementation's leaves of the results tree (NewResults(r)[i].Marshal()),
   LastResultsHash of the two next states, whether the next State.Bytes() are equal, and what
   validateBlock says on each node about the block the first node proposes next *)
| CResults (ra rb : list respt) (leaves_a leaves_b : list string) (hash_a hash_b : hvt)
           (same_next : bool) (accept_a accept_b : N)
(* MaxDataBytes(maxBytes, evBytes, n), MaxDataBytesNoEvidence(maxBytes, n); -1 = panic *)
| CBudget (max_bytes ev_bytes n : Z) (mdb_i mdbne_i mcb_i : Z)
(* Go variables the model has as literals: version.BlockProtocol, types.MaxSignatureSize *)
| CConsts (block_protocol_i max_sig_i : Z)
(* F84 (written only when the harness runs with VERIF_C06_F84=1, i.e. against the repaired
   validateBlock): as CValidate, compared with the repaired transcription *)
| CValidate84 (st : stt) (blk : blkt) (orc : orct) (res_i : N)
(* F84: a block whose LastCommit carries genuine signatures but relabelled ValidatorAddress
   fields, built by MakeBlock (time = MedianTime of that commit) for a byzantine proposer.
   [faulty] marks the byzantine validators by position in LastValidators; validateBlock's class;
   CreateProposalBlock on the same commit: 0 = returned a block, 9 = panicked *)
| CRelabel (st : stt) (blk : blkt) (orc : orct) (faulty : list bool) (res_i : N) (proposed_i : N).

(* ------------------------------------------------------------------ instantiation *)

Definition val_eqb (a b : validator) : bool :=
  (v_addr a =? v_addr b) && (v_key a =? v_key b) && (v_power a =? v_power b).
Fixpoint vals_eqb (a b : list validator) : bool :=
  match a, b with
  | [], [] => true
  | x :: a', y :: b' => val_eqb x y && vals_eqb a' b'
  | _, _ => false
  end.

Definition isl := slot isig.
Definition iblock := block isig Z bool.

Definition mk_block (t : blkt) : iblock :=
  let '(h, txs, evs, c) := t in
  {| b_h := mk_header h; b_txs := txs; b_ev := evs;
     b_lc := match c with Some c => Some (mk_commit c) | None => None end |}.

Section Oracles.
Variable st : state.
Variable o : orct.
Definition o_lc := let '(a, _, _, _, _, _, _) := o in mk_hv a.
Definition o_data := let '(_, a, _, _, _, _, _) := o in mk_hv a.
Definition o_ev := let '(_, _, a, _, _, _, _) := o in mk_hv a.
Definition o_vals := let '(_, _, _, a, _, _, _) := o in mk_hv a.
Definition o_nvals := let '(_, _, _, _, a, _, _) := o in mk_hv a.
Definition o_params := let '(_, _, _, _, _, a, _) := o in mk_hv a.
Definition o_evsize := let '(_, _, _, _, _, _, a) := o in a.
Definition HcommitO (_ : list isl) : hv := o_lc.
Definition HdataO (_ : list Z) : hv := o_data.
Definition HevO (_ : list bool) : hv := o_ev.
Definition HvalsO (vs : list validator) : hv := if vals_eqb vs (st_vals st) then o_vals else o_nvals.
Definition HparamsO (_ _ : Z) : hv := o_params.
Definition ev_sizeO (_ : list bool) : Z := o_evsize.

Definition validate_o (b : iblock) : option verr :=
  validate_block ideal_verify (fun x => x) ev_sizeO HcommitO HdataO HevO HvalsO HparamsO st b.
Definition spec_o (b : iblock) : bool :=
  specb ideal_verify (fun x => x) ev_sizeO HcommitO HdataO HevO HvalsO HparamsO st b.
Definition validate_r_o (b : iblock) : option verr_r :=
  validate_block_r ideal_verify (fun x => x) ev_sizeO HcommitO HdataO HevO HvalsO HparamsO st b.
Definition spec_r_o (b : iblock) : bool :=
  specb_r ideal_verify (fun x => x) ev_sizeO HcommitO HdataO HevO HvalsO HparamsO st b.
Definition make_o (height : Z) (txs : list Z) (c : commit6 isig) (evs : list bool) (p : hv) : iblock :=
  make_block HcommitO HdataO HevO HvalsO HparamsO st height txs c evs p.
End Oracles.

(* error class numbers: the position of the check in source order *)
Definition verr_code (e : option verr) : N :=
  match e with
  | None => 0
  | Some e =>
    match e with
    | E_hdr_version => 1 | E_hdr_chain_len => 2 | E_hdr_height_neg => 3 | E_hdr_height_zero => 4
    | E_hdr_last_bid => 5 | E_hdr_lc_hash_len => 6 | E_hdr_data_hash_len => 7
    | E_hdr_ev_hash_len => 8 | E_hdr_proposer_len => 9 | E_hdr_vals_hash_len => 10
    | E_hdr_nvals_hash_len => 11 | E_hdr_cons_hash_len => 12 | E_hdr_results_hash_len => 13
    | E_nil_commit => 14 | E_commit_basic => 15 | E_lc_hash => 16 | E_data_hash => 17
    | E_ev_basic => 18 | E_ev_hash => 19
    | E_version => 20 | E_chain => 21 | E_height_initial => 22 | E_height => 23
    | E_last_bid => 24 | E_app_hash => 25 | E_cons_hash => 26 | E_results_hash => 27
    | E_vals_hash => 28 | E_nvals_hash => 29 | E_initial_sigs => 30
    | E_commit R_err_size => 31 | E_commit R_err_height => 32 | E_commit R_err_blockid => 33
    | E_commit (R_err_sig _) => 34 | E_commit (R_err_power _ _) => 35 | E_commit _ => 36
    | E_proposer_len => 40 | E_proposer_unknown => 41 | E_time_not_after => 42
    | E_time_median => 43 | E_time_genesis => 44 | E_height_low => 45 | E_ev_overflow => 46
    end
  end%N.

Definition verr_r_code (e : option verr_r) : N :=
  match e with
  | None => 0
  | Some (VR e) => verr_code (Some e)
  | Some VR_commit_address => 37
  end%N.

Definition mism (b : bool) (code : N) : verdict := if b then V_ok else V_mismatch code.
Definition viol (b : bool) (clause : N) : verdict := if b then V_ok else V_violation clause.
Definition known (b : bool) (finding : N) : verdict := if b then V_ok else V_known finding.

Definition hv_eq (a b : hv) : bool := hv_eqb a b.
Definition header_eqb (a b : header) : bool :=
  (h_vblock a =? h_vblock b) && (h_vapp a =? h_vapp b) && hv_eq (h_chain a) (h_chain b)
  && (h_height a =? h_height b) && (h_time a =? h_time b) && bid_eqb (h_last_bid a) (h_last_bid b)
  && hv_eq (h_lc_hash a) (h_lc_hash b) && hv_eq (h_data_hash a) (h_data_hash b)
  && hv_eq (h_vals_hash a) (h_vals_hash b) && hv_eq (h_nvals_hash a) (h_nvals_hash b)
  && hv_eq (h_cons_hash a) (h_cons_hash b) && hv_eq (h_app_hash a) (h_app_hash b)
  && hv_eq (h_results_hash a) (h_results_hash b) && hv_eq (h_ev_hash a) (h_ev_hash b)
  && hv_eq (h_proposer a) (h_proposer b).

Fixpoint zlist_eqb (a b : list Z) : bool :=
  match a, b with
  | [], [] => true
  | x :: a', y :: b' => (x =? y) && zlist_eqb a' b'
  | _, _ => false
  end.

Definition params_eqb (a b : params) : bool :=
  (p_max_bytes a =? p_max_bytes b) && (p_max_gas a =? p_max_gas b) && (p_time_iota a =? p_time_iota b)
  && (p_ev_age_blocks a =? p_ev_age_blocks b) && (p_ev_age_dur a =? p_ev_age_dur b)
  && (p_ev_max_bytes a =? p_ev_max_bytes b) && zlist_eqb (p_pk_types a) (p_pk_types b)
  && (p_app_version a =? p_app_version b).

Definition state_eqb (a b : state) : bool :=
  (st_vblock a =? st_vblock b) && (st_vapp a =? st_vapp b) && hv_eq (st_chain a) (st_chain b)
  && (st_initial a =? st_initial b) && (st_last_height a =? st_last_height b)
  && bid_eqb (st_last_bid a) (st_last_bid b) && (st_last_time a =? st_last_time b)
  && vals_eqb (st_next_vals a) (st_next_vals b) && vals_eqb (st_vals a) (st_vals b)
  && vals_eqb (st_last_vals a) (st_last_vals b) && (st_lhvc a =? st_lhvc b)
  && params_eqb (st_params a) (st_params b) && (st_lhpc a =? st_lhpc b)
  && hv_eq (st_results_hash a) (st_results_hash b) && hv_eq (st_app_hash a) (st_app_hash b).

(* ------------------------------------------------------------------ reference quantities *)

(* cumulative weight of the entries whose time satisfies p *)
Definition cum (p : Z -> bool) (l : list (Z * Z)) : Z :=
  fold_right (fun e acc => (if p (fst e) then snd e else 0) + acc) 0 l.
Definition in_i64 (t : Z) : bool := (min_int64 <=? t) && (t <=? max_int64).

(* [t] is a weighted median of [l] for the threshold total/2: it is one of the times, the entries
   up to t weigh at least the threshold, and no earlier time has that property (weights >= 0) *)
Definition is_weighted_median (l : list (Z * Z)) (total t : Z) : bool :=
  let m := Z.quot total 2 in
  existsb (fun e => fst e =? t) l && (m <=? cum (fun x => x <=? t) l)
  && forallb (fun e => negb (fst e <? t) || (cum (fun x => x <=? fst e) l <? m)) l.

(* what a correct proposer's inputs look like (StateInv + a good commit + usable evidence) *)
Definition hash32 (h : hv) : bool := hv_len h =? tmhash_size.
Definition state_okb (st : state) : bool :=
  (st_vblock st =? block_protocol) && (hv_len (st_chain st) <=? max_chain_id_len)
  && (1 <=? st_initial st)
  && ((st_last_height st =? 0) || (st_initial st <=? st_last_height st))
  && bid_validate_basic (st_last_bid st) && validate_hash (st_results_hash st)
  && (0 <=? st_vapp st).

Definition sum_pow (vs : list validator) : Z := fold_right (fun v a => v_power v + a) 0 vs.

(* ------------------------------------------------------------------ updateState, specified *)

Definition opt_is_none {A} (o : option A) : bool := match o with None => true | Some _ => false end.

(* the next consensus parameters: every group of the update replaces its group, absent groups and
   TimeIotaMs stay *)
Definition params_spec (p : params) (u : option pupdt) (p' : params) : bool :=
  match u with
  | None => params_eqb p' p
  | Some (b, e, v, a) =>
    (match b with
     | Some (mb, mg) => (p_max_bytes p' =? mb) && (p_max_gas p' =? mg)
     | None => (p_max_bytes p' =? p_max_bytes p) && (p_max_gas p' =? p_max_gas p)
     end)
    && (p_time_iota p' =? p_time_iota p)
    && (match e with
        | Some (ab, ad, mb) =>
          (p_ev_age_blocks p' =? ab) && (p_ev_age_dur p' =? ad) && (p_ev_max_bytes p' =? mb)
        | None => (p_ev_age_blocks p' =? p_ev_age_blocks p) && (p_ev_age_dur p' =? p_ev_age_dur p)
                  && (p_ev_max_bytes p' =? p_ev_max_bytes p)
        end)
    && (match v with
        | Some ts => zlist_eqb (p_pk_types p') ts
        | None => zlist_eqb (p_pk_types p') (p_pk_types p)
        end)
    && (match a with
        | Some x => p_app_version p' =? x
        | None => p_app_version p' =? p_app_version p
        end)
  end.

(* ------------------------------------------------------------------ responses *)

Definition det_eqb (x y : Z * bytes * Z * Z) : bool :=
  let '(c, d, w, u) := x in let '(c', d', w', u') := y in
  (c =? c') && bytes_eqb d d' && (w =? w') && (u =? u').
Fixpoint list_eqb {A} (eqb : A -> A -> bool) (a b : list A) : bool :=
  match a, b with
  | [], [] => true
  | x :: a', y :: b' => eqb x y && list_eqb eqb a' b'
  | _, _ => false
  end.

(* ------------------------------------------------------------------ F84: who signed what *)

Definition slot_absent (s : isl) : bool := s_flag s =? block_id_flag_absent.

(* every non-absent slot i carries the (20-byte) address of validator i *)
Definition addresses_positional (vals : list validator) (sigs : list isl) : bool :=
  Nat.eqb (List.length vals) (List.length sigs)
  && forallb (fun vs => slot_absent (snd vs)
                        || ((s_addr (snd vs) =? v_addr (fst vs)) && (s_alen (snd vs) =? address_size)))
             (combine vals sigs).

(* over the validators whose signature the commit carries (slot i belongs to validator i, that is
   what VerifyCommit checked): their total power, the power of the faulty ones, the timestamps of
   the correct ones *)
Fixpoint signer_stats (vals : list validator) (sigs : list isl) (faulty : list bool)
  : Z * Z * list Z :=
  match vals, sigs with
  | v :: vr, s :: sr =>
    let f := match faulty with x :: _ => x | [] => false end in
    let '(t, fp, hs) := signer_stats vr sr (tl faulty) in
    if slot_absent s then (t, fp, hs)
    else (t + v_power v, (if f then v_power v else 0) + fp, if f then hs else s_ts s :: hs)
  | _, _ => (0, 0, [])
  end.

(* the block time lies between two timestamps of correct signers whenever the faulty signers hold
   less than a third of the power the commit carries *)
Definition time_between_honest (vals : list validator) (sigs : list isl) (faulty : list bool)
           (time : Z) : bool :=
  let '(t, fp, hs) := signer_stats vals sigs faulty in
  negb ((3 * fp <? t) && negb (Nat.eqb (List.length hs) 0))
  || (existsb (fun x => x <=? time) hs && existsb (fun x => time <=? x) hs).

(* ------------------------------------------------------------------ the check *)

Definition check (c : case) : verdict :=
  match c with
  | CValidate s blk o res_i =>
    let st := mk_state s in
    let b := mk_block blk in
    let spec := spec_o st o b in
    let res_m := verr_code (validate_o st o b) in
    first_of [
      viol (negb (res_i =? 0)%N || spec) 1;          (* accepted => the conjunction holds *)
      viol (negb spec || (res_i =? 0)%N) 2;          (* the conjunction holds => accepted *)
      mism (Bool.eqb (res_m =? 0)%N (res_i =? 0)%N) 11;
      mism (res_m =? res_i)%N 12 ]
  | CPropose s height cm pool evs proposer o budget_i hdr_i txs_i size_i res_i =>
    let st := mk_state s in
    let c := mk_commit cm in
    let p := mk_hv proposer in
    let n := Z.of_nat (List.length (cm_sigs c)) in
    let blk_i : iblock := {| b_h := mk_header hdr_i; b_txs := txs_i; b_ev := evs; b_lc := Some c |} in
    let blk_m := make_o st o height txs_i c evs p in
    let budget_m := match proposal_data_budget (ev_sizeO o) st c evs with
                    | Some m => m | None => -1 end in
    let dsize := data_size (fun x => x) txs_i in
    (* the premises of C06_proposer_block_valid, evaluated on the inputs *)
    let inputs_ok :=
      state_okb st && expected_height_ok st height && (st_initial st <=? height)
      && (hv_len p =? address_size) && has_address (st_vals st) (hv_id p)
      && forallb (fun x => x) evs
      && (ev_byte_size (ev_sizeO o) evs <=? p_ev_max_bytes (st_params st))
      && commit_validate_basic c
      && hash32 (o_lc o) && hash32 (o_data o) && hash32 (o_ev o) && hash32 (o_vals o)
      && hash32 (o_nvals o) && hash32 (o_params o)
      && (if height =? st_initial st then Nat.eqb (List.length (cm_sigs c)) 0
          else match verify_commit ideal_verify (st_last_vals st) (hv_id (st_chain st))
                                   (bi_code (st_last_bid st)) (height - 1) (to_commit c) with
               | R_ok => true | _ => false end) in
    let time_ok := (height =? st_initial st) || (median_time c (st_last_vals st) >? st_last_time st) in
    (* power of the signers whose precommit is not stamped after the block it commits (honest
       validators stamp precommits later than the block, consensus/state.go voteTime) *)
    let late := fold_right (fun vs acc =>
                  (if negb (s_flag (snd vs) =? block_id_flag_absent) && (s_ts (snd vs) <=? st_last_time st)
                   then v_power (fst vs) else 0) + acc) 0 (combine (st_last_vals st) (cm_sigs c)) in
    first_of [
      (* a correct proposer's block passes validation *)
      viol (negb (inputs_ok && time_ok) || (res_i =? 0)%N) 3;
      (* known finding 1: signers holding less than 1/3 stamped their precommits in the past and
         the correct proposer's block gets a time that is not after the last block *)
      known (negb (inputs_ok && negb time_ok && (res_i =? 42)%N
                   && (3 * late <? sum_pow (st_last_vals st)))) 1;
      (* ... and fits the size limit when the mempool respected the budget it was given and
         the application hash is within the header budget *)
      viol (negb (inputs_ok && time_ok && (0 <=? budget_i) && (dsize <=? budget_i)
                  && (hv_len (st_app_hash st) <=? 182)
                  && (p_max_bytes (st_params st) <=? max_block_size_bytes)
                  && (0 <=? o_evsize o) && (0 <=? st_vapp st))
            || (size_i <=? p_max_bytes (st_params st))) 4;
      mism (header_eqb (b_h blk_m) (b_h blk_i)) 21;
      mism (block_size (fun x => x) (ev_sizeO o) blk_i =? size_i) 22;
      mism (budget_m =? budget_i) 23;
      mism (verr_code (validate_o st o blk_i) =? res_i)%N 24 ]
  | CMedian entries total res_i shuffled_i =>
    let dom := forallb (fun e => in_i64 (fst e) && (0 <=? snd e)) entries
               && negb (Nat.eqb (List.length entries) 0) && (0 <=? total)
               && (total =? cum (fun _ => true) entries) in
    first_of [
      (* the result does not depend on the order of the entries *)
      viol (forallb (fun r => r =? res_i) shuffled_i) 5;
      (* the result is a weighted median for the threshold total/2 *)
      viol (negb dom || is_weighted_median entries total res_i) 6;
      mism (weighted_median entries total =? res_i) 31 ]
  | CMedianTime cm vals res_i =>
    mism (median_time (mk_commit cm) (map mk_val vals) =? res_i) 32
  | CUpdate s block_id hdr ups pu results_h upd_oracle class_i st_i same_state same_hash =>
    let st := mk_state s in
    let r := update_state (fun x : hvt => mk_hv x)
                          (fun _ _ => match upd_oracle with Some l => Some (map mk_val l) | None => None end)
                          st (mk_bid block_id) (mk_header hdr) results_h (map mk_val ups)
                          (match pu with Some u => Some (mk_pupd u) | None => None end) in
    let n := mk_state st_i in
    let h := mk_header hdr in
    let ok := (class_i =? 0)%N in
    let no_ups := match ups with [] => true | _ => false end in
    first_of [
      viol same_state 7;            (* two replicas: byte-identical next states *)
      viol same_hash 8;             (* two replicas: identical block hashes *)
      (* the implementation's own next state against the specification of the transition *)
      viol (negb ok ||
            ((st_last_height n =? h_height h) && bid_eqb (st_last_bid n) (mk_bid block_id)
             && (st_last_time n =? h_time h) && hv_eq (st_chain n) (st_chain st)
             && (st_initial n =? st_initial st) && (st_vblock n =? st_vblock st))) 13;
      viol (negb ok ||
            (vals_eqb (st_vals n) (st_next_vals st) && vals_eqb (st_last_vals n) (st_vals st)
             && (if no_ups then vals_eqb (st_next_vals n) (st_next_vals st)
                 else match upd_oracle with
                      | Some l => vals_eqb (st_next_vals n) (map mk_val l)
                      | None => false
                      end))) 14;
      viol (negb ok ||
            (if no_ups then st_lhvc n =? st_lhvc st else st_lhvc n =? h_height h + 2)) 15;
      viol (negb ok ||
            (params_spec (st_params st) pu (st_params n)
             && (if opt_is_none pu then (st_lhpc n =? st_lhpc st) && (st_vapp n =? st_vapp st)
                 else (st_vapp n =? p_app_version (st_params n))
                      && ((st_lhpc n =? h_height h + 1)
                          || (params_eqb (st_params n) (st_params st) && (st_lhpc n =? st_lhpc st)))))) 16;
      viol (negb ok ||
            (hv_eq (st_results_hash n) (mk_hv results_h) && hv_eq (st_app_hash n) hv_empty)) 17;
      mism (match r with
            | US_ok s' => (class_i =? 0)%N && state_eqb s' (mk_state st_i)
            | US_err_valset => (class_i =? 1)%N
            | US_err_params _ => (class_i =? 2)%N
            end) 41 ]
  | CSizes hdr cm hsize_i csize_i ssizes_i hvb_i cvb_i mcb_i =>
    let h := mk_header hdr in
    let c := mk_commit cm in
    let n := Z.of_nat (List.length (cm_sigs c)) in
    first_of [
      (* a header that passes ValidateBasic, with an application hash of at most 32 bytes, a
         64-bit app version and a representable time stays within MaxHeaderBytes *)
      viol (negb (hvb_i && (hv_len (h_app_hash h) <=? tmhash_size)) || (hsize_i <=? max_header_bytes)) 9;
      (* a commit that passes ValidateBasic (block id well-formed) stays within MaxCommitBytes *)
      viol (negb (cvb_i && bid_validate_basic (cm_bid c) && (1 <=? cm_height c))
            || (csize_i <=? max_commit_bytes n)) 10;
      (* ... and within what the implementation's own MaxCommitBytes budgets for it *)
      viol (negb (cvb_i && bid_validate_basic (cm_bid c) && (1 <=? cm_height c))
            || (csize_i <=? mcb_i)) 18;
      mism (header_size h =? hsize_i) 51;
      mism (commit_size c =? csize_i) 52;
      mism (zlist_eqb (map slot_size (cm_sigs c)) ssizes_i) 53;
      mism (Bool.eqb (match header_validate_basic h with None => true | Some _ => false end) hvb_i) 54;
      mism (Bool.eqb (commit_validate_basic c) cvb_i) 55;
      mism (max_commit_bytes n =? mcb_i) 58 ]
  | CBudget max_bytes ev_bytes n mdb_i mdbne_i mcb_i =>
    let un o := match o with Some m => m | None => -1 end in
    first_of [
      mism (un (max_data_bytes max_bytes ev_bytes n) =? mdb_i) 56;
      mism (un (max_data_bytes_no_evidence max_bytes n) =? mdbne_i) 57;
      mism (max_commit_bytes n =? mcb_i) 58 ]
  | CResults ra rb la lb ha hb same_next accept_a accept_b =>
    let a := map mk_resp ra in
    let b := map mk_resp rb in
    let det_same := list_eqb det_eqb (map det_fields a) (map det_fields b) in
    let la' := map unhex la in
    let lb' := map unhex lb in
    first_of [
      (* the applications agree on (Code, Data, GasWanted, GasUsed) of every transaction: same
         leaves, same LastResultsHash, same next state, and the second node treats the first
         node's next block as the first node does *)
      viol (negb det_same
            || (list_eqb bytes_eqb la' lb' && hv_eq (mk_hv ha) (mk_hv hb) && same_next
                && (accept_b =? accept_a)%N)) 11;
      (* they disagree on one of these fields: different LastResultsHash, different next states,
         and the second node does not accept a block the first node considers valid *)
      viol (det_same
            || (negb (hv_eq (mk_hv ha) (mk_hv hb)) && negb same_next
                && (negb (accept_a =? 0)%N || negb (accept_b =? 0)%N))) 12;
      mism (list_eqb bytes_eqb (results_leaves a) la') 61;
      mism (list_eqb bytes_eqb (results_leaves b) lb') 61 ]
  | CConsts bp ms =>
    first_of [ mism (bp =? block_protocol) 60; mism (ms =? max_signature_size) 60 ]
  | CValidate84 s blk o res_i =>
    let st := mk_state s in
    let b := mk_block blk in
    let spec := spec_r_o st o b in
    let res_m := verr_r_code (validate_r_o st o b) in
    let sigs := match b_lc b with Some c => cm_sigs c | None => [] end in
    first_of [
      viol (negb (res_i =? 0)%N || spec) 1;
      viol (negb spec || (res_i =? 0)%N) 2;
      viol (negb ((res_i =? 0)%N && negb (h_height (b_h b) =? st_initial st))
            || addresses_positional (st_last_vals st) sigs) 19;
      mism (Bool.eqb (res_m =? 0)%N (res_i =? 0)%N) 11;
      mism (res_m =? res_i)%N 12 ]
  | CRelabel s blk o faulty res_i proposed_i =>
    let st := mk_state s in
    let b := mk_block blk in
    let res_m := verr_r_code (validate_r_o st o b) in
    let sigs := match b_lc b with Some c => cm_sigs c | None => [] end in
    let accepted := (res_i =? 0)%N && negb (h_height (b_h b) =? st_initial st) in
    first_of [
      (* accepted => the time is a weighted median of the SIGNERS' timestamps: with less than a
         third of the commit's power faulty it lies between two correct signers' timestamps *)
      viol (negb accepted || time_between_honest (st_last_vals st) sigs faulty (h_time (b_h b))) 20;
      (* accepted => every non-absent slot names the validator whose signature it carries *)
      viol (negb accepted || addresses_positional (st_last_vals st) sigs) 19;
      mism (Bool.eqb (res_m =? 0)%N (res_i =? 0)%N) 11;
      mism (res_m =? res_i)%N 12;
      mism (proposed_i =? 0)%N 62 ]
  end.
