(* C06 — proofs, part 5: which fields of the DeliverTx responses enter LastResultsHash
   (types/results.go), and that the encoding of those fields is injective. *)
From Coq Require Import List ZArith NArith Bool Lia.
From TM Require Import Common.Hex Generated.Consts C07.Model C06.Model.
Import ListNotations.
Open Scope Z_scope.

(* ------------------------------------------------------------------ field selection *)

Lemma pb_bytes_nil : forall num, pb_bytes num [] = [].
Proof. reflexivity. Qed.

(* the leaf of a response is the encoding of (Code, Data, GasWanted, GasUsed) *)
Lemma results_leaf_det : forall r,
  enc_response (deterministic_response r) = enc_det (det_fields r).
Proof.
  intro r. unfold enc_response, deterministic_response, enc_det, det_fields.
  cbn [r_code r_data r_log r_info r_gas_wanted r_gas_used r_events r_codespace flat_map].
  rewrite !pb_bytes_nil. cbn [app]. rewrite app_nil_r. reflexivity.
Qed.

Lemma results_leaves_det : forall rs,
  results_leaves rs = map enc_det (map det_fields rs).
Proof.
  intro rs. unfold results_leaves. rewrite map_map. apply map_ext. exact results_leaf_det.
Qed.

Lemma results_hash_fields : forall (root : list bytes -> hv) rs,
  results_hash root rs = root (map enc_det (map det_fields rs)).
Proof. intros. unfold results_hash. rewrite results_leaves_det. reflexivity. Qed.

Lemma results_hash_ignores_nondet : forall (root : list bytes -> hv) rs rs',
  map det_fields rs = map det_fields rs' -> results_hash root rs = results_hash root rs'.
Proof. intros root rs rs' E. rewrite !results_hash_fields, E. reflexivity. Qed.

Lemma update_state_ignores_nondet :
  forall (root : list bytes -> hv)
         (vs_update : list validator -> list validator -> option (list validator))
         st bid h rs rs' ups pu,
  map det_fields rs = map det_fields rs' ->
  update_state (results_hash root) vs_update st bid h rs ups pu =
  update_state (results_hash root) vs_update st bid h rs' ups pu.
Proof.
  intros root vsu st bid h rs rs' ups pu E. unfold update_state.
  rewrite (results_hash_ignores_nondet root rs rs' E). reflexivity.
Qed.

(* ------------------------------------------------------------------ uvarint is decodable *)

Fixpoint uvarint_dec_f (fuel : nat) (bs : bytes) : option (Z * bytes) :=
  match fuel with
  | O => None
  | S f =>
    match bs with
    | [] => None
    | b :: r =>
      if (b <? 128)%N then Some (Z.of_N b, r)
      else match uvarint_dec_f f r with
           | Some (v, r') => Some (Z.of_N b - 128 + 128 * v, r')
           | None => None
           end
    end
  end.

Lemma to_N_lt128 : forall n, 0 <= n < 128 -> (Z.to_N n <? 128)%N = true.
Proof.
  intros n R. apply N.ltb_lt. change 128%N with (Z.to_N 128). apply Z2N.inj_lt; lia.
Qed.
Lemma to_N_ge128 : forall n, 128 <= n -> (Z.to_N n <? 128)%N = false.
Proof.
  intros n R. apply N.ltb_ge. change 128%N with (Z.to_N 128). apply Z2N.inj_le; lia.
Qed.

Lemma uvarint_f_dec : forall f n rest,
  0 <= n < 128 ^ Z.of_nat (S f) ->
  uvarint_dec_f (S f) (uvarint_f (S f) n ++ rest) = Some (n, rest).
Proof.
  induction f as [|f IH]; intros n rest R.
  - change (128 ^ Z.of_nat 1) with 128 in R.
    cbn [uvarint_f]. destruct (n <? 128) eqn:E; [|apply Z.ltb_ge in E; lia].
    cbn [app uvarint_dec_f]. rewrite to_N_lt128 by lia. rewrite Z2N.id by lia. reflexivity.
  - remember (S f) as g eqn:Eg.
    cbn [uvarint_f]. destruct (n <? 128) eqn:E.
    + apply Z.ltb_lt in E. cbn [app uvarint_dec_f].
      rewrite to_N_lt128 by lia. rewrite Z2N.id by lia. reflexivity.
    + apply Z.ltb_ge in E. cbn [app uvarint_dec_f].
      assert (M : 0 <= n mod 128 < 128) by (apply Z.mod_pos_bound; lia).
      rewrite to_N_ge128 by lia.
      assert (Rq : 0 <= n / 128 < 128 ^ Z.of_nat g).
      { split; [apply Z.div_pos; lia|].
        apply Z.div_lt_upper_bound; [lia|].
        replace (Z.of_nat (S g)) with (Z.of_nat g + 1) in R by lia.
        rewrite Z.pow_add_r in R by lia. lia. }
      subst g. rewrite (IH _ rest Rq). rewrite Z2N.id by lia.
      f_equal. f_equal. pose proof (Z.div_mod n 128). lia.
Qed.

Definition uvarint_dec (bs : bytes) : option (Z * bytes) := uvarint_dec_f 10 bs.

Lemma uvarint_dec_ok : forall n rest,
  0 <= n < 18446744073709551616 -> uvarint_dec (uvarint n ++ rest) = Some (n, rest).
Proof.
  intros n rest R. unfold uvarint_dec, uvarint. apply (uvarint_f_dec 9).
  change (128 ^ Z.of_nat 10) with 1180591620717411303424. lia.
Qed.

(* ------------------------------------------------------------------ decoding the leaf *)

Definition starts_not (t : N) (bs : bytes) : Prop :=
  match bs with b :: _ => b <> t | [] => True end.

(* a scalar field with the one-byte key [tag]; absent = 0 *)
Definition dec_varint_field (tag : N) (bs : bytes) : option (Z * bytes) :=
  match bs with
  | b :: r => if (b =? tag)%N then uvarint_dec r else Some (0, bs)
  | [] => Some (0, [])
  end.

(* a bytes field with the one-byte key [tag]; absent = empty *)
Definition dec_bytes_field (tag : N) (bs : bytes) : option (bytes * bytes) :=
  match bs with
  | b :: r =>
    if (b =? tag)%N then
      match uvarint_dec r with
      | Some (l, r') => Some (firstn (Z.to_nat l) r', skipn (Z.to_nat l) r')
      | None => None
      end
    else Some ([], bs)
  | [] => Some ([], [])
  end.

Lemma uvarint_small : forall k, 0 <= k < 128 -> uvarint k = [Z.to_N k].
Proof.
  intros k R. unfold uvarint. cbn [uvarint_f].
  destruct (k <? 128) eqn:E; [reflexivity|]. apply Z.ltb_ge in E. lia.
Qed.

Lemma dec_varint_field_ok : forall num v rest,
  0 <= num * 8 < 128 -> -9223372036854775808 <= v < 9223372036854775808 ->
  starts_not (Z.to_N (num * 8)) rest ->
  dec_varint_field (Z.to_N (num * 8)) (pb_varint num v ++ rest) = Some (u64 v, rest).
Proof.
  intros num v rest Rn Rv S. unfold pb_varint. destruct (v =? 0) eqn:E.
  - apply Z.eqb_eq in E. subst v. cbn [app]. unfold u64. cbn.
    destruct rest as [|b r]; [reflexivity|]. cbn in S. cbn [dec_varint_field].
    destruct (b =? Z.to_N (num * 8))%N eqn:Eb; [apply N.eqb_eq in Eb; contradiction|reflexivity].
  - rewrite (uvarint_small _ Rn). rewrite <- app_assoc. cbn [app dec_varint_field].
    rewrite N.eqb_refl. apply uvarint_dec_ok. unfold u64.
    destruct (v <? 0) eqn:En; [apply Z.ltb_lt in En | apply Z.ltb_ge in En]; lia.
Qed.

Lemma dec_bytes_field_ok : forall num (b : bytes) rest,
  0 <= num * 8 + 2 < 128 -> Z.of_nat (length b) < 18446744073709551616 ->
  starts_not (Z.to_N (num * 8 + 2)) rest ->
  dec_bytes_field (Z.to_N (num * 8 + 2)) (pb_bytes num b ++ rest) = Some (b, rest).
Proof.
  intros num b rest Rn Rl S. unfold pb_bytes. destruct b as [|x b'].
  - cbn [app]. destruct rest as [|c r]; [reflexivity|]. cbn in S. cbn [dec_bytes_field].
    destruct (c =? Z.to_N (num * 8 + 2))%N eqn:Eb; [apply N.eqb_eq in Eb; contradiction|reflexivity].
  - rewrite (uvarint_small _ Rn). remember (x :: b') as b eqn:Eb.
    rewrite <- !app_assoc. cbn [app dec_bytes_field].
    rewrite N.eqb_refl. rewrite uvarint_dec_ok by (split; [apply Nat2Z.is_nonneg | exact Rl]).
    rewrite Nat2Z.id. rewrite firstn_app, skipn_app, Nat.sub_diag.
    rewrite firstn_all, skipn_all. cbn [firstn skipn app]. rewrite app_nil_r. reflexivity.
Qed.

Definition s64 (x : Z) : Z := if x <? 9223372036854775808 then x else x - 18446744073709551616.
Lemma s64_u64 : forall v, -9223372036854775808 <= v < 9223372036854775808 -> s64 (u64 v) = v.
Proof.
  intros v R. unfold s64, u64. destruct (v <? 0) eqn:E; [apply Z.ltb_lt in E | apply Z.ltb_ge in E].
  - destruct (v + 18446744073709551616 <? 9223372036854775808) eqn:F;
      [apply Z.ltb_lt in F | apply Z.ltb_ge in F]; lia.
  - destruct (v <? 9223372036854775808) eqn:F; [reflexivity | apply Z.ltb_ge in F; lia].
Qed.

(* the parser of a leaf: Code, Data, GasWanted, GasUsed in field order *)
Definition dec_det (bs : bytes) : option (Z * bytes * Z * Z) :=
  match dec_varint_field 8 bs with
  | Some (code, r1) =>
    match dec_bytes_field 18 r1 with
    | Some (data, r2) =>
      match dec_varint_field 40 r2 with
      | Some (gw, r3) =>
        match dec_varint_field 48 r3 with
        | Some (gu, _) => Some (s64 code, data, s64 gw, s64 gu)
        | None => None
        end
      | None => None
      end
    | None => None
    end
  | None => None
  end.

(* what the Go types allow: Code uint32, GasWanted / GasUsed int64, a slice length *)
Definition det_in_range (f : Z * bytes * Z * Z) : Prop :=
  let '(code, data, gw, gu) := f in
  0 <= code < 4294967296 /\ Z.of_nat (length data) < 18446744073709551616 /\
  -9223372036854775808 <= gw < 9223372036854775808 /\
  -9223372036854775808 <= gu < 9223372036854775808.

Lemma starts_not_varint : forall num v rest t,
  0 <= num * 8 < 128 -> Z.to_N (num * 8) <> t -> starts_not t rest ->
  starts_not t (pb_varint num v ++ rest).
Proof.
  intros num v rest t Rn Ne S. unfold pb_varint. destruct (v =? 0); [exact S|].
  rewrite (uvarint_small _ Rn). cbn. exact Ne.
Qed.

Lemma starts_not_bytes : forall num (b : bytes) rest t,
  0 <= num * 8 + 2 < 128 -> Z.to_N (num * 8 + 2) <> t -> starts_not t rest ->
  starts_not t (pb_bytes num b ++ rest).
Proof.
  intros num b rest t Rn Ne S. unfold pb_bytes. destruct b; [exact S|].
  rewrite (uvarint_small _ Rn). cbn. exact Ne.
Qed.

Lemma dec_det_ok : forall f, det_in_range f -> dec_det (enc_det f) = Some f.
Proof.
  intros [[[code data] gw] gu] [Rc [Rd [Rw Ru]]]. unfold enc_det, dec_det.
  change 8%N with (Z.to_N (1 * 8)). change 18%N with (Z.to_N (2 * 8 + 2)).
  change 40%N with (Z.to_N (5 * 8)). change 48%N with (Z.to_N (6 * 8)).
  rewrite dec_varint_field_ok; [|lia|lia|].
  2:{ apply starts_not_bytes; [lia|discriminate|].
      apply starts_not_varint; [lia|discriminate|].
      replace (pb_varint 6 gu) with (pb_varint 6 gu ++ []) by apply app_nil_r.
      apply starts_not_varint; [lia|discriminate|exact I]. }
  rewrite dec_bytes_field_ok; [|lia|exact Rd|].
  2:{ apply starts_not_varint; [lia|discriminate|].
      replace (pb_varint 6 gu) with (pb_varint 6 gu ++ []) by apply app_nil_r.
      apply starts_not_varint; [lia|discriminate|exact I]. }
  rewrite dec_varint_field_ok; [|lia|exact Rw|].
  2:{ replace (pb_varint 6 gu) with (pb_varint 6 gu ++ []) by apply app_nil_r.
      apply starts_not_varint; [lia|discriminate|exact I]. }
  replace (pb_varint 6 gu) with (pb_varint 6 gu ++ []) by apply app_nil_r.
  rewrite dec_varint_field_ok; [|lia|exact Ru|exact I].
  rewrite !s64_u64 by lia. reflexivity.
Qed.

(* different deterministic fields give different leaves *)
Lemma enc_det_injective : forall f f',
  det_in_range f -> det_in_range f' -> enc_det f = enc_det f' -> f = f'.
Proof.
  intros f f' R R' E. pose proof (dec_det_ok f R) as D. rewrite E, (dec_det_ok f' R') in D.
  congruence.
Qed.

Lemma map_enc_det_injective : forall l l',
  Forall det_in_range l -> Forall det_in_range l' -> map enc_det l = map enc_det l' -> l = l'.
Proof.
  induction l as [|x l IH]; destruct l' as [|y l']; cbn; intros F F' E;
    try reflexivity; try discriminate.
  inversion F; inversion F'; subst. injection E as E1 E2.
  f_equal; [apply enc_det_injective; assumption | apply IH; assumption].
Qed.

(* equal results hashes: equal deterministic fields, or a collision of the Merkle root *)
Lemma results_hash_binds_fields : forall (root : list bytes -> hv) rs rs',
  Forall det_in_range (map det_fields rs) -> Forall det_in_range (map det_fields rs') ->
  results_hash root rs = results_hash root rs' ->
  map det_fields rs = map det_fields rs' \/ exists x y, x <> y /\ root x = root y.
Proof.
  intros root rs rs' F F' E. rewrite !results_hash_fields in E.
  destruct (list_eq_dec (list_eq_dec N.eq_dec) (map enc_det (map det_fields rs))
                        (map enc_det (map det_fields rs'))) as [Eq|Ne].
  - left. apply map_enc_det_injective; assumption.
  - right. eexists; eexists; split; [exact Ne | exact E].
Qed.
