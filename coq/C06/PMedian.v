(* C06 — proofs, part 2: the weighted median (types/time/time.go WeightedMedian). *)
From Coq Require Import List ZArith NArith Bool Lia Permutation.
From TM Require Import Generated.Consts C07.Model C06.Model.
Import ListNotations.
Open Scope Z_scope.

(* cumulative weight of the entries with time <= t, resp. total weight *)
Fixpoint cumle (l : list wt) (t : Z) : Z :=
  match l with [] => 0 | (t', w) :: r => (if t' <=? t then w else 0) + cumle r t end.
Fixpoint wsum (l : list wt) : Z :=
  match l with [] => 0 | (_, w) :: r => w + wsum r end.

Definition nonneg (l : list wt) : Prop := Forall (fun e => 0 <= snd e) l.
(* times for which UnixNano() is exact (years 1678..2262) *)
Definition in_range (l : list wt) : Prop := Forall (fun e => unix_nano (fst e) = fst e) l.

Inductive tsorted : list wt -> Prop :=
| ts_nil : tsorted []
| ts_cons : forall x r, Forall (fun e => fst x <= fst e) r -> tsorted r -> tsorted (x :: r).

(* [t] is the weighted median of [l] for threshold [m]: it is one of the times, the entries up
   to t weigh at least m, and this holds for no earlier time of the list *)
Definition wm_spec (l : list wt) (m t : Z) : Prop :=
  In t (map fst l) /\ m <= cumle l t /\ forall t', In t' (map fst l) -> t' < t -> cumle l t' < m.

Lemma cumle_nonneg : forall l t, nonneg l -> 0 <= cumle l t.
Proof.
  induction l as [|[t' w] r IH]; intros t H; cbn; [lia|].
  inversion H; subst. cbn in *. specialize (IH t H3). destruct (t' <=? t); lia.
Qed.

Lemma cumle_le_wsum : forall l t, nonneg l -> cumle l t <= wsum l.
Proof.
  induction l as [|[t' w] r IH]; intros t H; cbn; [lia|].
  inversion H; subst. cbn in *. specialize (IH t H3). destruct (t' <=? t); lia.
Qed.

Lemma cumle_below_all : forall l t, Forall (fun e => t < fst e) l -> cumle l t = 0.
Proof.
  induction l as [|[t' w] r IH]; intros t H; cbn; [reflexivity|].
  inversion H; subst. cbn in *. rewrite (IH t H3).
  destruct (t' <=? t) eqn:E; [apply Z.leb_le in E; lia | reflexivity].
Qed.

Lemma cumle_perm : forall l l' t, Permutation l l' -> cumle l t = cumle l' t.
Proof.
  intros l l' t P. induction P as [| [a w] l l' P IH | [a w] [b v] l | l l' l'' P1 IH1 P2 IH2]; cbn; lia.
Qed.

Lemma wsum_perm : forall l l', Permutation l l' -> wsum l = wsum l'.
Proof.
  intros l l' P. induction P as [| [a w] l l' P IH | [a w] [b v] l | l l' l'' P1 IH1 P2 IH2]; cbn; lia.
Qed.

Lemma nonneg_perm : forall l l', Permutation l l' -> nonneg l -> nonneg l'.
Proof. intros l l' P H. unfold nonneg in *. eapply Permutation_Forall; eauto. Qed.

Lemma wsum_nonneg : forall l, nonneg l -> 0 <= wsum l.
Proof.
  induction l as [|[a b] r IH]; intro N; cbn; [lia|].
  inversion N as [|? ? Hb Nr]; subst. cbn in Hb. specialize (IH Nr). lia.
Qed.

(* the scan over a time-sorted list finds the weighted median, or returns time.Time{} when the
   threshold exceeds the total weight *)
Lemma scan_none : forall s m, nonneg s -> wsum s < m -> median_scan s m = zero_time.
Proof.
  induction s as [|[t w] r IH]; intros m N H; cbn; [reflexivity|].
  inversion N; subst. cbn in *.
  assert (0 <= wsum r) by (apply wsum_nonneg; assumption).
  destruct (m <=? w) eqn:E; [apply Z.leb_le in E; lia|]. apply IH; [assumption | lia].
Qed.

Lemma scan_spec : forall s m, tsorted s -> nonneg s -> s <> [] -> m <= wsum s ->
  wm_spec s m (median_scan s m).
Proof.
  induction s as [|[t w] r IH]; intros m S N NE H; [contradiction|].
  inversion S as [|x r' Hmin Sr]; subst. inversion N as [|x r' Hw Nr]; subst. cbn in Hw, Hmin.
  cbn [median_scan]. destruct (m <=? w) eqn:E.
  - apply Z.leb_le in E. split; [left; reflexivity|]. split.
    + cbn. rewrite Z.leb_refl. pose proof (cumle_nonneg r t Nr). lia.
    + intros t' Hin Hlt. exfalso. cbn in Hin. destruct Hin as [->|Hin]; [lia|].
      apply in_map_iff in Hin. destruct Hin as [e [<- He]].
      rewrite Forall_forall in Hmin. specialize (Hmin e He). cbn in Hmin. lia.
  - apply Z.leb_gt in E. cbn in H.
    assert (NEr : r <> []) by (intro; subst; cbn in H; lia).
    destruct (IH (m - w) Sr Nr NEr ltac:(lia)) as [I1 [I2 I3]].
    set (ts := median_scan r (m - w)) in *.
    assert (Hle : t <= ts).
    { apply in_map_iff in I1. destruct I1 as [e [<- He]].
      rewrite Forall_forall in Hmin. exact (Hmin e He). }
    split; [right; exact I1|]. split.
    + cbn. assert (X : (t <=? ts) = true) by (apply Z.leb_le; exact Hle). rewrite X. lia.
    + intros t' Hin Hlt. cbn in Hin. cbn [cumle].
      destruct Hin as [Eq|Hin].
      * subst t'. rewrite Z.leb_refl.
        destruct (in_dec Z.eq_dec t (map fst r)) as [Hi|Hn].
        -- specialize (I3 t Hi Hlt). lia.
        -- rewrite cumle_below_all; [lia|].
           rewrite Forall_forall in *. intros e He. specialize (Hmin e He). cbn in Hmin.
           assert (fst e <> t) by (intro; apply Hn; apply in_map_iff; exists e; auto). lia.
      * specialize (I3 t' Hin Hlt). destruct (t <=? t'); lia.
Qed.

Lemma wm_spec_unique : forall l m t1 t2, wm_spec l m t1 -> wm_spec l m t2 -> t1 = t2.
Proof.
  intros l m t1 t2 [A1 [A2 A3]] [B1 [B2 B3]].
  destruct (Z.lt_trichotomy t1 t2) as [L|[E|L]]; [|exact E|].
  - specialize (B3 t1 A1 L). lia.
  - specialize (A3 t2 B1 L). lia.
Qed.

Lemma wm_spec_perm : forall l l' m t, Permutation l l' -> wm_spec l m t -> wm_spec l' m t.
Proof.
  intros l l' m t P [A1 [A2 A3]]. split; [|split].
  - eapply Permutation_in; [apply Permutation_map; exact P | exact A1].
  - rewrite <- (cumle_perm l l' t P). exact A2.
  - intros t' Hin Hlt. rewrite <- (cumle_perm l l' t' P). apply A3; [|exact Hlt].
    eapply Permutation_in; [apply Permutation_map; apply Permutation_sym; exact P | exact Hin].
Qed.

(* any two time-sorted arrangements of the same entries give the same scan result *)
Lemma scan_sorted_perm : forall s s' m, tsorted s -> tsorted s' -> nonneg s -> Permutation s s' ->
  median_scan s m = median_scan s' m.
Proof.
  intros s s' m S S' N P.
  pose proof (nonneg_perm _ _ P N) as N'.
  destruct (Z_lt_le_dec (wsum s) m) as [L|L].
  - rewrite (scan_none s m N L). rewrite (scan_none s' m N'); [reflexivity|].
    rewrite <- (wsum_perm _ _ P). exact L.
  - destruct s as [|x r].
    + apply Permutation_nil in P. subst. reflexivity.
    + assert (NE' : s' <> []) by (intro; subst; apply Permutation_sym in P; apply Permutation_nil in P; discriminate).
      apply (wm_spec_unique s' m).
      * apply (wm_spec_perm (x :: r) s' m _ P). apply scan_spec; [exact S | exact N | discriminate | exact L].
      * apply scan_spec; [exact S' | exact N' | exact NE' |]. rewrite <- (wsum_perm _ _ P). exact L.
Qed.

(* the model's sort *)
Lemma wt_insert_perm : forall x l, Permutation (x :: l) (wt_insert x l).
Proof.
  induction l as [|y r IH]; cbn; [apply Permutation_refl|].
  destruct (unix_nano (fst y) <=? unix_nano (fst x)).
  - eapply perm_trans; [apply perm_swap|]. apply perm_skip. exact IH.
  - apply Permutation_refl.
Qed.
Lemma wt_sort_perm : forall l, Permutation l (wt_sort l).
Proof.
  induction l as [|x r IH]; cbn; [apply perm_nil|].
  eapply perm_trans; [apply perm_skip; exact IH | apply wt_insert_perm].
Qed.

Lemma in_range_perm : forall l l', Permutation l l' -> in_range l -> in_range l'.
Proof. intros l l' P H. unfold in_range in *. eapply Permutation_Forall; eauto. Qed.

Lemma wt_insert_sorted : forall x l, in_range (x :: l) -> tsorted l -> tsorted (wt_insert x l).
Proof.
  induction l as [|y r IH]; intros R S; cbn.
  - constructor; constructor.
  - inversion R as [|? ? Rx Rr]; subst. inversion Rr as [|? ? Ry Rr']; subst.
    inversion S as [|? ? Hmin Sr]; subst.
    rewrite Rx, Ry. destruct (fst y <=? fst x) eqn:E.
    + apply Z.leb_le in E. constructor.
      * assert (P : Permutation (x :: r) (wt_insert x r)) by apply wt_insert_perm.
        eapply Permutation_Forall; [exact P|]. constructor; [exact E | exact Hmin].
      * apply IH; [constructor; assumption | exact Sr].
    + apply Z.leb_gt in E. constructor; [|exact S].
      constructor; [lia|]. rewrite Forall_forall in *. intros e He. specialize (Hmin e He). lia.
Qed.

Lemma wt_sort_sorted : forall l, in_range l -> tsorted (wt_sort l).
Proof.
  induction l as [|x r IH]; intros R; cbn; [constructor|].
  inversion R; subst. apply wt_insert_sorted.
  - constructor; [assumption|]. eapply in_range_perm; [apply wt_sort_perm | assumption].
  - apply IH. assumption.
Qed.

(* Go's sort.Slice is not stable: whatever time-sorted arrangement it produces, the loop returns
   what the model returns *)
Lemma weighted_median_any_sort : forall l s total,
  in_range l -> nonneg l -> Permutation l s -> tsorted s ->
  median_scan s (Z.quot total 2) = weighted_median l total.
Proof.
  intros l s total R N P S. unfold weighted_median.
  apply scan_sorted_perm; [exact S | apply wt_sort_sorted; exact R | eapply nonneg_perm; eauto |].
  eapply perm_trans; [apply Permutation_sym; exact P | apply wt_sort_perm].
Qed.

Lemma weighted_median_perm : forall l l' total,
  in_range l -> nonneg l -> Permutation l l' ->
  weighted_median l total = weighted_median l' total.
Proof.
  intros l l' total R N P. unfold weighted_median.
  apply scan_sorted_perm.
  - apply wt_sort_sorted; exact R.
  - apply wt_sort_sorted. eapply in_range_perm; eauto.
  - eapply nonneg_perm; [apply wt_sort_perm | exact N].
  - eapply perm_trans; [apply Permutation_sym; apply wt_sort_perm|].
    eapply perm_trans; [exact P | apply wt_sort_perm].
Qed.

Lemma weighted_median_spec : forall l total,
  in_range l -> nonneg l -> l <> [] -> Z.quot total 2 <= wsum l ->
  wm_spec l (Z.quot total 2) (weighted_median l total).
Proof.
  intros l total R N NE H. unfold weighted_median.
  apply (wm_spec_perm (wt_sort l) l); [apply Permutation_sym; apply wt_sort_perm|].
  apply scan_spec.
  - apply wt_sort_sorted; exact R.
  - eapply nonneg_perm; [apply wt_sort_perm | exact N].
  - intro E. apply NE. pose proof (wt_sort_perm l) as P. rewrite E in P.
    apply Permutation_sym in P. apply Permutation_nil in P. exact P.
  - rewrite <- (wsum_perm _ _ (wt_sort_perm l)). exact H.
Qed.

(* ---- the median lies between the times of the honest entries ---- *)

Lemma scan_before_pos : forall s m, tsorted s -> nonneg s -> 0 < m -> m <= wsum s ->
  forall t', t' < median_scan s m -> cumle s t' < m.
Proof.
  induction s as [|[t w] r IH]; intros m S N Hm H t' Hlt; [cbn in *; lia|].
  inversion S as [|x r' Hmin Sr]; subst. inversion N as [|x r' Hw Nr]; subst. cbn in Hw, Hmin.
  cbn [median_scan] in Hlt. cbn [cumle]. destruct (m <=? w) eqn:E.
  - assert (X : (t <=? t') = false) by (apply Z.leb_gt; lia). rewrite X.
    rewrite cumle_below_all; [lia|]. rewrite Forall_forall in *. intros e He.
    specialize (Hmin e He). lia.
  - apply Z.leb_gt in E. cbn in H.
    specialize (IH (m - w) Sr Nr ltac:(lia) ltac:(lia) t' Hlt). destruct (t <=? t'); lia.
Qed.

Fixpoint wsum_if (p : wt -> bool) (l : list wt) : Z :=
  match l with [] => 0 | e :: r => (if p e then snd e else 0) + wsum_if p r end.

Lemma wsum_split : forall p l, wsum l = wsum_if p l + wsum_if (fun e => negb (p e)) l.
Proof. induction l as [|[t w] r IH]; cbn; [reflexivity|]. destruct (p (t, w)); cbn; lia. Qed.

Lemma cumle_le_faulty : forall p l t, nonneg l ->
  (forall e, In e l -> p e = true -> t < fst e) -> cumle l t <= wsum_if (fun e => negb (p e)) l.
Proof.
  induction l as [|[t' w] r IH]; intros t N H; cbn; [lia|].
  inversion N as [|? ? Hw Nr]; subst. cbn in Hw.
  assert (IH' := IH t Nr (fun e He => H e (or_intror He))).
  destruct (p (t', w)) eqn:Ep; cbn.
  - specialize (H (t', w) (or_introl eq_refl) Ep). cbn in H.
    assert (X : (t' <=? t) = false) by (apply Z.leb_gt; lia). rewrite X. lia.
  - destruct (t' <=? t); lia.
Qed.

Lemma cumle_ge_honest : forall p l t, nonneg l ->
  (forall e, In e l -> p e = true -> fst e <= t) -> wsum_if p l <= cumle l t.
Proof.
  induction l as [|[t' w] r IH]; intros t N H; cbn; [lia|].
  inversion N as [|? ? Hw Nr]; subst. cbn in Hw.
  assert (IH' := IH t Nr (fun e He => H e (or_intror He))).
  destruct (p (t', w)) eqn:Ep; cbn.
  - specialize (H (t', w) (or_introl eq_refl) Ep). cbn in H.
    assert (X : (t' <=? t) = true) by (apply Z.leb_le; lia). rewrite X. lia.
  - destruct (t' <=? t); lia.
Qed.

Lemma wsum_if_nonneg : forall p l, nonneg l -> 0 <= wsum_if p l.
Proof.
  induction l as [|[t w] r IH]; intro N; cbn; [lia|].
  inversion N as [|? ? Hw Nr]; subst. cbn in Hw. specialize (IH Nr). destruct (p (t, w)); lia.
Qed.

(* [honest] marks the entries of correct validators.  If the others weigh less than the
   threshold total/2 (integer division) and the honest ones at least that much, the median lies
   between the smallest and the largest honest time. *)
Lemma median_between_honest : forall (honest : wt -> bool) l lo hi,
  in_range l -> nonneg l ->
  let total := wsum l in
  wsum_if (fun e => negb (honest e)) l < Z.quot total 2 ->
  Z.quot total 2 <= wsum_if honest l ->
  (forall e, In e l -> honest e = true -> lo <= fst e <= hi) ->
  lo <= weighted_median l total <= hi.
Proof.
  intros honest l lo hi R N total Hf Hh Hb.
  set (m := Z.quot total 2) in *.
  pose proof (wsum_if_nonneg (fun e => negb (honest e)) l N) as F0.
  pose proof (wsum_split honest l) as Sp. fold total in Sp.
  assert (Hm : 0 < m) by lia.
  assert (Hms : m <= wsum l) by (fold total; lia).
  assert (NE : l <> []) by (intro; subst; cbn in *; lia).
  pose proof (weighted_median_spec l total R N NE Hms) as [W1 [W2 W3]]. fold m in W2.
  split.
  - destruct (Z_lt_le_dec (weighted_median l total) lo) as [L|L]; [exfalso|exact L].
    pose proof (cumle_le_faulty honest l (weighted_median l total) N) as X.
    assert (cumle l (weighted_median l total) <= wsum_if (fun e => negb (honest e)) l).
    { apply X. intros e He Hp. specialize (Hb e He Hp). lia. }
    lia.
  - destruct (Z_lt_le_dec hi (weighted_median l total)) as [L|L]; [exfalso|exact L].
    unfold weighted_median in L.
    pose proof (scan_before_pos (wt_sort l) m (wt_sort_sorted l R)
                  (nonneg_perm _ _ (wt_sort_perm l) N) Hm) as X.
    rewrite <- (wsum_perm _ _ (wt_sort_perm l)) in X. specialize (X Hms hi L).
    rewrite <- (cumle_perm _ _ hi (wt_sort_perm l)) in X.
    pose proof (cumle_ge_honest honest l hi N) as Y.
    assert (wsum_if honest l <= cumle l hi).
    { apply Y. intros e He Hp. specialize (Hb e He Hp). lia. }
    lia.
Qed.

(* The threshold is sharp: with equal weights 1, three entries and one faulty one (a commit of
   exactly 2f+1 out of 3f+1, f = 1) the faulty entry's earlier time is returned — the loop
   compares with [median <= weight] where a median needs [<]. *)
Example median_edge_faulty_wins :
  weighted_median [(100, 1); (5, 1); (101, 1)] 3 = 5.
Proof. vm_compute. reflexivity. Qed.
