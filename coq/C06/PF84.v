(* C06 — proofs for the repaired validateBlock (finding F84): exactness with the new conjunct, and
   the tie between the entries MedianTime uses and the validators whose signatures were verified. *)
From Coq Require Import List ZArith NArith Bool Lia.
From TM Require Import Common.Hex Generated.Consts C07.Model C07.Proofs C06.Model C06.PExact
     C06.Proofs C06.PMedian C06.ModelF84.
Import ListNotations.
Open Scope Z_scope.

(* ------------------------------------------------------------------ entries by position *)

Section Entries.
Variable sig : Type.

Lemma get_by_address_skip : forall (pre l : list validator) a k,
  (forall x, In x pre -> v_addr x <> a) ->
  get_by_address (pre ++ l) a k = get_by_address l a (k + length pre)%nat.
Proof.
  induction pre as [|p pre IH]; intros l a k H.
  - cbn. rewrite Nat.add_0_r. reflexivity.
  - cbn [app get_by_address]. destruct (v_addr p =? a) eqn:E.
    + apply Z.eqb_eq in E. exfalso. apply (H p); [left; reflexivity | exact E].
    + rewrite IH by (intros x Hx; apply H; right; exact Hx).
      cbn [length]. f_equal. lia.
Qed.

Lemma median_entries_positional_gen : forall (vr : list validator) (sr : list (slot sig)) pre,
  NoDup (map v_addr (pre ++ vr)) -> length vr = length sr ->
  slots_name_validators vr sr = true ->
  median_entries (pre ++ vr) sr = signer_entries vr sr.
Proof.
  induction vr as [|v vr IH]; intros sr pre ND L S; destruct sr as [|s sr]; try discriminate.
  - reflexivity.
  - cbn [length] in L. injection L as L.
    cbn [slots_name_validators] in S. apply andb_true_iff in S as [S1 S2].
    assert (Epre : pre ++ v :: vr = (pre ++ [v]) ++ vr) by (rewrite <- app_assoc; reflexivity).
    cbn [median_entries signer_entries].
    destruct (s_flag s =? block_id_flag_absent) eqn:Ea.
    + rewrite Epre. apply IH; [rewrite <- Epre; exact ND | exact L | exact S2].
    + cbn [orb] in S1. apply Z.eqb_eq in S1.
      assert (Hpre : forall x, In x pre -> v_addr x <> s_addr s).
      { intros x Hx Heq. rewrite map_app in ND. cbn [map] in ND.
        apply NoDup_remove_2 in ND. apply ND. apply in_or_app. left.
        rewrite S1 in Heq. rewrite <- Heq. apply in_map. exact Hx. }
      rewrite (get_by_address_skip pre (v :: vr) (s_addr s) O Hpre).
      cbn [get_by_address]. rewrite S1, Z.eqb_refl. f_equal.
      rewrite Epre. apply IH; [rewrite <- Epre; exact ND | exact L | exact S2].
Qed.

(* with distinct validator addresses: a commit whose non-absent slots name their validators gives
   MedianTime exactly the (timestamp, power) pairs of the signers *)
Lemma median_entries_positional : forall (vals : list validator) (sigs : list (slot sig)),
  NoDup (map v_addr vals) -> length vals = length sigs ->
  slots_name_validators vals sigs = true ->
  median_entries vals sigs = signer_entries vals sigs.
Proof. intros vals sigs. exact (median_entries_positional_gen vals sigs []). Qed.

Lemma signer_entries_bounds : forall (vals : list validator) (sigs : list (slot sig)),
  Forall (fun v => 0 <= v_power v) vals ->
  nonneg (signer_entries vals sigs) /\ 0 <= wsum (signer_entries vals sigs) <= sum_power vals.
Proof.
  induction vals as [|v vr IH]; intros sigs F.
  - cbn. split; [constructor | lia].
  - inversion F as [|? ? Hv Fr]; subst. destruct sigs as [|s sr].
    + cbn [signer_entries]. split; [constructor|]. cbn [wsum sum_power].
      pose proof (sum_power_nonneg vr Fr). lia.
    + destruct (IH sr Fr) as [N [W0 W1]]. cbn [signer_entries].
      destruct (s_flag s =? block_id_flag_absent).
      * split; [exact N|]. cbn [sum_power]. lia.
      * split; [constructor; [exact Hv | exact N]|]. cbn [wsum sum_power snd]. lia.
Qed.

(* the total MedianTime accumulates in an int64 is the exact sum when it stays below 2^63 *)
Lemma fold_wrap_wsum : forall (es : list wt) a,
  nonneg es -> 0 <= a -> a + wsum es <= max_int64 ->
  fold_left (fun acc e => wrap64 (acc + snd e)) es a = a + wsum es.
Proof.
  induction es as [|[t w] es IH]; intros a N A B.
  - cbn. lia.
  - inversion N as [|? ? Hw Nr]; subst. cbn [snd] in Hw. cbn [fold_left wsum snd] in *.
    pose proof (wsum_nonneg es Nr).
    rewrite wrap64_id by (unfold min_int64, max_int64 in *; lia).
    rewrite IH by (try assumption; lia). lia.
Qed.

Lemma median_time_positional : forall (c : commit6 sig) (vals : list validator),
  wf_valset vals -> NoDup (map v_addr vals) -> length vals = length (cm_sigs c) ->
  slots_name_validators vals (cm_sigs c) = true ->
  median_time c vals =
  weighted_median (signer_entries vals (cm_sigs c)) (wsum (signer_entries vals (cm_sigs c))).
Proof.
  intros c vals [Hnn Hle] ND L S. unfold median_time.
  rewrite (median_entries_positional vals (cm_sigs c) ND L S).
  destruct (signer_entries_bounds vals (cm_sigs c) Hnn) as [N [W0 W1]].
  cbv zeta. rewrite fold_wrap_wsum; [reflexivity | exact N | lia |].
  unfold max_int64, max_total_voting_power in *. lia.
Qed.

End Entries.

(* ------------------------------------------------------------------ the repaired validateBlock *)

Section Repaired.
Variable sig : Type.
Variable sig_verify : key -> signmsg -> sig -> bool.
Variable tx ev : Type.
Variable ev_valid : ev -> bool.
Variable ev_size : list ev -> Z.
Variable Hcommit : list (slot sig) -> hv.
Variable Hdata : list tx -> hv.
Variable Hev : list ev -> hv.
Variable Hvals : list validator -> hv.
Variable Hparams : Z -> Z -> hv.

Notation validate := (validate_block sig_verify ev_valid ev_size Hcommit Hdata Hev Hvals Hparams).
Notation spec := (specb sig_verify ev_valid ev_size Hcommit Hdata Hev Hvals Hparams).
Notation validate_r := (validate_block_r sig_verify ev_valid ev_size Hcommit Hdata Hev Hvals Hparams).
Notation spec_r := (specb_r sig_verify ev_valid ev_size Hcommit Hdata Hev Hvals Hparams).

Lemma validate_r_none : forall st b,
  validate_r st b = None <-> validate st b = None /\ commit_addresses_ok st b = true.
Proof.
  intros st b. unfold validate_block_r. destruct (validate st b) as [e|].
  - split; [|intros [H _]; discriminate].
    destruct (after_commit_check e && negb (commit_addresses_ok st b)); discriminate.
  - destruct (commit_addresses_ok st b); split; try discriminate; auto.
    intros [_ H]. discriminate.
Qed.

Lemma validate_r_exact : forall st b, validate_r st b = None <-> spec_r st b = true.
Proof.
  intros st b. rewrite validate_r_none. unfold specb_r. rewrite andb_true_iff.
  rewrite (validate_exact sig sig_verify tx ev ev_valid ev_size Hcommit Hdata Hev Hvals Hparams st b).
  reflexivity.
Qed.

Lemma validate_r_exact_conj : forall st b,
  validate_r st b = None <-> spec st b = true /\ commit_addresses_ok st b = true.
Proof. intros st b. rewrite validate_r_exact. unfold specb_r. apply andb_true_iff. Qed.

(* the repaired function refuses whatever the unrepaired one refuses *)
Lemma validate_r_stricter : forall st b, validate_r st b = None -> validate st b = None.
Proof. intros st b H. apply validate_r_none in H. tauto. Qed.

Lemma accepted_commit_and_time_r : forall st b,
  validate_r st b = None ->
  exists c, b_lc b = Some c /\
    ((h_height (b_h b) = st_initial st /\ cm_sigs c = [] /\ h_time (b_h b) = st_last_time st)
     \/
     (st_initial st < h_height (b_h b) /\
      verify_commit sig_verify (st_last_vals st) (hv_id (st_chain st)) (bi_code (st_last_bid st))
                    (h_height (b_h b) - 1) (to_commit c) = R_ok /\
      slots_name_validators (st_last_vals st) (cm_sigs c) = true /\
      st_last_time st < h_time (b_h b) /\ h_time (b_h b) = median_time c (st_last_vals st))).
Proof.
  intros st b H. apply validate_r_none in H as [V A].
  destruct (accepted_commit_and_time sig sig_verify tx ev ev_valid ev_size Hcommit Hdata Hev Hvals
              Hparams st b V) as [c [Ec [I|[Hlt [Vc [T1 T2]]]]]].
  - exists c. split; [exact Ec | left; exact I].
  - exists c. split; [exact Ec|]. right. unfold commit_addresses_ok in A. rewrite Ec in A.
    destruct (h_height (b_h b) =? st_initial st) eqn:E; [apply Z.eqb_eq in E; lia|].
    cbn [orb] in A. repeat split; assumption.
Qed.

(* an accepted non-initial block: MedianTime's entries are those of the verified signers *)
Lemma accepted_entries_are_signers : forall st b c,
  wf_valset (st_last_vals st) -> NoDup (map v_addr (st_last_vals st)) ->
  validate_r st b = None -> b_lc b = Some c -> h_height (b_h b) <> st_initial st ->
  length (st_last_vals st) = length (cm_sigs c) /\
  median_entries (st_last_vals st) (cm_sigs c) = signer_entries (st_last_vals st) (cm_sigs c) /\
  h_time (b_h b) = weighted_median (signer_entries (st_last_vals st) (cm_sigs c))
                                   (wsum (signer_entries (st_last_vals st) (cm_sigs c))).
Proof.
  intros st b c Hwf ND V Ec Hne.
  destruct (accepted_commit_and_time_r st b V) as [c' [Ec' [[E _]|[_ [Vc [S [_ T]]]]]]];
    [contradiction|].
  rewrite Ec in Ec'. injection Ec' as <-.
  destruct (verify_commit_sound sig sig_verify _ _ _ _ _ Hwf Vc) as [L _].
  cbn in L. rewrite map_length in L.
  split; [exact L|]. split; [apply median_entries_positional; assumption|].
  rewrite T. apply median_time_positional; assumption.
Qed.

(* hence C06_median_between_honest applies to every accepted block *)
Lemma accepted_time_between_honest : forall st b c (honest : wt -> bool) lo hi,
  wf_valset (st_last_vals st) -> NoDup (map v_addr (st_last_vals st)) ->
  validate_r st b = None -> b_lc b = Some c -> h_height (b_h b) <> st_initial st ->
  let l := signer_entries (st_last_vals st) (cm_sigs c) in
  in_range l ->
  wsum_if (fun e => negb (honest e)) l < Z.quot (wsum l) 2 ->
  Z.quot (wsum l) 2 <= wsum_if honest l ->
  (forall e, In e l -> honest e = true -> lo <= fst e <= hi) ->
  lo <= h_time (b_h b) <= hi.
Proof.
  intros st b c honest lo hi Hwf ND V Ec Hne l R Hf Hh Hb.
  destruct (accepted_entries_are_signers st b c Hwf ND V Ec Hne) as [_ [_ T]].
  fold l in T. rewrite T.
  destruct Hwf as [Hnn _].
  destruct (signer_entries_bounds sig (st_last_vals st) (cm_sigs c) Hnn) as [N _]. fold l in N.
  exact (median_between_honest honest l lo hi R N Hf Hh Hb).
Qed.

(* faulty signers below one third of the commit's power are below the threshold above *)
Lemma third_below_threshold : forall f h,
  0 <= f -> 0 <= h -> 3 * f < f + h -> 2 <= f + h ->
  f < Z.quot (f + h) 2 /\ Z.quot (f + h) 2 <= h.
Proof.
  intros f h F H T G. rewrite Z.quot_div_nonneg by lia.
  pose proof (Z.div_mod (f + h) 2 ltac:(lia)) as D.
  pose proof (Z.mod_pos_bound (f + h) 2 ltac:(lia)) as M. lia.
Qed.

(* ... so: faulty signers hold less than a third of the power the commit carries => the block time
   lies between two timestamps of correct signers *)
Lemma accepted_time_between_honest_third : forall st b c (honest : wt -> bool) lo hi,
  wf_valset (st_last_vals st) -> NoDup (map v_addr (st_last_vals st)) ->
  validate_r st b = None -> b_lc b = Some c -> h_height (b_h b) <> st_initial st ->
  let l := signer_entries (st_last_vals st) (cm_sigs c) in
  in_range l -> 2 <= wsum l ->
  3 * wsum_if (fun e => negb (honest e)) l < wsum l ->
  (forall e, In e l -> honest e = true -> lo <= fst e <= hi) ->
  lo <= h_time (b_h b) <= hi.
Proof.
  intros st b c honest lo hi Hwf ND V Ec Hne l R G T Hb.
  pose proof (signer_entries_bounds sig (st_last_vals st) (cm_sigs c) (proj1 Hwf)) as [N _].
  fold l in N.
  pose proof (wsum_split honest l) as Sp.
  pose proof (wsum_if_nonneg honest l N) as H0.
  pose proof (wsum_if_nonneg (fun e => negb (honest e)) l N) as F0.
  set (f := wsum_if (fun e => negb (honest e)) l) in *.
  set (h := wsum_if honest l) in *.
  assert (E : wsum l = f + h) by lia.
  destruct (third_below_threshold f h F0 H0 ltac:(lia) ltac:(lia)) as [A B].
  apply (accepted_time_between_honest st b c honest lo hi Hwf ND V Ec Hne R).
  - fold l. fold f. rewrite E. exact A.
  - fold l. fold h. rewrite E. exact B.
  - exact Hb.
Qed.

End Repaired.
